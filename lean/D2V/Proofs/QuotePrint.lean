import D2V.Proofs.QuoteBasic
/-!
  Helper lemmas, part 2: what `RawString` guarantees about a string it leaves unquoted / single-quotes, and
  what the escapers and the printer write for such strings.
-/
set_option linter.unusedSimpArgs false
namespace D2V.Quote
open D2V.Gen.Quote

/-! ### per-rune escape actions (facts about the generated `sqEsc`, `dqEsc`, `uqEsc`) -/

theorem sqEsc_quote : sqEsc '\'' = ['\'', '\''] := by decide
theorem sqEsc_plain {c : Char} (h1 : c ≠ '\'') (h2 : c ≠ '\n') : sqEsc c = [c] := by
  unfold sqEsc; simp [h1, h2]

theorem dqEsc_quote (k : Bool) : dqEsc k '"' = ['\\', '"'] := by cases k <;> decide
theorem dqEsc_bs (k : Bool) : dqEsc k '\\' = ['\\', '\\'] := by cases k <;> decide
theorem dqEsc_nl (k : Bool) : dqEsc k '\n' = ['\\', 'n'] := by cases k <;> decide
theorem dqEsc_dollar : dqEsc false '$' = ['\\', '$'] := by decide
theorem dqEsc_plain {k : Bool} {c : Char} (h1 : c ≠ '"') (h2 : c ≠ '\\') (h3 : c ≠ '\n') (h4 : k = true ∨ c ≠ '$') :
    dqEsc k c = [c] := by
  unfold dqEsc
  rcases h4 with h4 | h4 <;> simp [h1, h2, h3, h4]

theorem uqEsc_key_plain {first : Bool} {next : Option Nat} {c : Char} (h : keySpecials.contains c = false) :
    uqEsc true first next c = [c] := by
  obtain ⟨h1, h2, h3, h4, h5, h6, h7, h8, h9, h10, h11, h12⟩ := key_plain_char h
  have h' : c ∉ keySpecials := by simpa using h
  unfold uqEsc
  simp [h1, h2, h3, h4, h5, h6, h7, h8, h9, h10, h11, h12, h, h']

theorem uqEsc_key_dash {first : Bool} {next : Option Nat} (h : (next.isSome && (next == some 45)) = false) :
    uqEsc true first next '-' = ['-'] := by
  unfold uqEsc
  simp [h]

theorem uqEsc_value_plain {first : Bool} {next : Option Nat} {c : Char} (h : valueSpecials.contains c = false) :
    uqEsc false first next c = [c] := by
  obtain ⟨h1, h2, h3, h4, h5, h6, h7, h8, h9⟩ := value_plain_char h
  have h' : c ∉ valueSpecials := by simpa using h
  unfold uqEsc
  simp [h1, h2, h3, h4, h5, h6, h7, h8, h9, h, h']

theorem decodeEscape_self {c : Char} (h : c = '"' ∨ c = '\\' ∨ c = '$') : decodeEscape c = c := by
  rcases h with h | h | h <;> subst h <;> decide
theorem decodeEscape_n : decodeEscape 'n' = '\n' := by decide

/-! ### strings that are plain in a key -/

/-- no rune of `UnquotedKeySpecials`, except a `-` that is followed by a rune other than `-` -/
def keyPlain : Str → Bool
  | [] => true
  | [c] => !keySpecials.contains c
  | c :: d :: rest =>
    if c == '-' then d != '-' && keyPlain (d :: rest)
    else !keySpecials.contains c && keyPlain (d :: rest)

theorem dash_in_key : keySpecials.contains '-' = true := by decide

theorem keyPlain_cons_ne {d : Char} {t : Str} (h : keyPlain (d :: t) = true) (hd : d ≠ '-') :
    keySpecials.contains d = false ∧ keyPlain t = true := by
  cases t with
  | nil => simpa [keyPlain] using h
  | cons e t' =>
    simp only [keyPlain, beq_iff_eq, hd, if_false, Bool.and_eq_true, Bool.not_eq_true'] at h
    exact h

theorem rawKeyStep_none {s : Str} {r : Char} {next : Option Nat} (h : rawKeyStep s r next = none) :
    (r = '-' ∧ (next.isSome && (next != some 45)) = true) ∨ keySpecials.contains r = false := by
  unfold rawKeyStep at h
  by_cases hr : r = '-'
  · subst hr
    by_cases hn : (next.isSome && (next != some 45)) = true
    · exact Or.inl ⟨rfl, hn⟩
    · exfalso
      have hd := dash_in_key
      simp only [hn, hd] at h
      revert h
      simp only [beq_self_eq_true, if_true, Bool.false_eq_true, if_false]
      intro h
      repeat (split at h <;> try (simp at h))
  · right
    cases hc : keySpecials.contains r with
    | false => rfl
    | true =>
      exfalso
      revert h
      simp only [beq_iff_eq, hr, if_false, hc, if_true]
      intro h
      repeat (split at h <;> try (simp at h))

theorem rawKeyLoop_none {s : Str} : ∀ {t : Str}, rawKeyLoop s t = none → keyPlain t = true
  | [], _ => rfl
  | [c], h => by
    unfold rawKeyLoop at h
    cases hs : rawKeyStep s c (byteAt1 c []) with
    | some q => simp [hs] at h
    | none =>
      rcases rawKeyStep_none hs with ⟨rfl, hn⟩ | hc
      · have := (dash_next_ne []).mp hn
        simp at this
      · have hc' : c ∉ keySpecials := by simpa using hc
        simp [keyPlain, hc']
  | c :: d :: rest, h => by
    unfold rawKeyLoop at h
    cases hs : rawKeyStep s c (byteAt1 c (d :: rest)) with
    | some q => simp [hs] at h
    | none =>
      simp only [hs] at h
      have ih := rawKeyLoop_none (s := s) (t := d :: rest) h
      rcases rawKeyStep_none hs with ⟨rfl, hn⟩ | hc
      · obtain ⟨d', t', heq, hne⟩ := (dash_next_ne (d :: rest)).mp hn
        injection heq with h1 h2
        subst h1
        simp [keyPlain, hne, ih]
      · have hne : c ≠ '-' := (key_plain_char hc).1
        have hc' : c ∉ keySpecials := by simpa using hc
        simp [keyPlain, hne, hc', ih]

theorem rawKeyStep_sq {s : Str} {r : Char} {next : Option Nat} (h : rawKeyStep s r next = some .sq) :
    s.contains '\n' = false := by
  unfold rawKeyStep at h
  cases hn : s.contains '\n' with
  | false => rfl
  | true =>
    exfalso
    revert h
    simp only [hn]
    intro h
    repeat (split at h <;> try (simp at h))

theorem rawKeyLoop_sq {s : Str} : ∀ {t : Str}, rawKeyLoop s t = some .sq → s.contains '\n' = false
  | [], h => by simp [rawKeyLoop] at h
  | c :: rest, h => by
    unfold rawKeyLoop at h
    cases hs : rawKeyStep s c (byteAt1 c rest) with
    | some q =>
      simp only [hs] at h
      injection h with h
      subst h
      exact rawKeyStep_sq hs
    | none =>
      simp only [hs] at h
      exact rawKeyLoop_sq h


/-! ### what the escapers write -/

theorem escUnqLoop_keyPlain : ∀ (s : Str) (first : Bool), keyPlain s = true → escUnqLoop true first s = s
  | [], _, _ => rfl
  | [c], first, h => by
    have hc : keySpecials.contains c = false := by simpa [keyPlain] using h
    simp [escUnqLoop, uqEsc_key_plain hc]
  | c :: d :: rest, first, h => by
    by_cases hd : c = '-'
    · subst hd
      have h' : d ≠ '-' ∧ keyPlain (d :: rest) = true := by simpa [keyPlain] using h
      have hn : ((byteAt1 '-' (d :: rest)).isSome && (byteAt1 '-' (d :: rest) == some 45)) = false := by
        cases hx : ((byteAt1 '-' (d :: rest)).isSome && (byteAt1 '-' (d :: rest) == some 45)) with
        | false => rfl
        | true =>
          obtain ⟨t, ht⟩ := (dash_next_eq (d :: rest)).mp hx
          injection ht with h1 _
          exact absurd h1 h'.1
      rw [escUnqLoop, uqEsc_key_dash hn, escUnqLoop_keyPlain (d :: rest) false h'.2]
      rfl
    · have h' := keyPlain_cons_ne h hd
      rw [escUnqLoop, uqEsc_key_plain h'.1, escUnqLoop_keyPlain (d :: rest) false h'.2]
      rfl

theorem escUnqLoop_valuePlain : ∀ (s : Str) (first : Bool), containsAny s valueSpecials = false →
    escUnqLoop false first s = s
  | [], _, _ => rfl
  | c :: rest, first, h => by
    have h' : valueSpecials.contains c = false ∧ containsAny rest valueSpecials = false := by
      simpa [containsAny] using h
    rw [escUnqLoop, uqEsc_value_plain h'.1, escUnqLoop_valuePlain rest false h'.2]
    rfl

/-! ### what RawString guarantees -/

theorem rawEmpty_dq : rawEmpty = .dq := by decide

theorem rawTail_cases (s : Str) : (rawTail s = .unq ∧ surroundingWs s = false) ∨ rawTail s = .dq := by
  unfold rawTail
  cases surroundingWs s <;> simp

theorem rawValueQuoted_cases (s : Str) :
    rawValueQuoted s = .dq ∨ (rawValueQuoted s = .sq ∧ s.contains '\n' = false) := by
  unfold rawValueQuoted
  cases h : s.contains '\n'
  · split
    · exact Or.inl rfl
    · exact Or.inr ⟨by simp, rfl⟩
  · split <;> simp

theorem rawKeyLoop_cases {s t : Str} {q : Quoting} (h : rawKeyLoop s t = some q) :
    q = .dq ∨ (q = .sq ∧ s.contains '\n' = false) := by
  cases q with
  | dq => exact Or.inl rfl
  | sq => exact Or.inr ⟨rfl, rawKeyLoop_sq h⟩
  | unq =>
    exfalso
    induction t with
    | nil => simp [rawKeyLoop] at h
    | cons c rest ih =>
      unfold rawKeyLoop at h
      cases hs : rawKeyStep s c (byteAt1 c rest) with
      | none => simp only [hs] at h; exact ih h
      | some q' =>
        simp only [hs] at h
        injection h with h
        subst h
        unfold rawKeyStep at hs
        repeat (split at hs <;> try (simp at hs))

/-- the three ways `RawString(s, true)` can come out -/
inductive RawKey (s : Str) : Quoting → Prop where
  | unq : s ≠ [] → keyPlain s = true → surroundingWs s = false →
      (rawKeyQuotesKeywordCase && kwCase s) = false → RawKey s .unq
  | dq : RawKey s .dq
  | sq : s.contains '\n' = false → RawKey s .sq

theorem rawString_key (s : Str) : RawKey s (rawString s true) := by
  unfold rawString
  cases s with
  | nil => simp [rawEmpty_dq]; exact .dq
  | cons c t =>
    simp only [List.isEmpty_cons, Bool.false_eq_true, if_false, if_true]
    cases hl : rawKeyLoop (c :: t) (c :: t) with
    | some q =>
      rcases rawKeyLoop_cases hl with rfl | ⟨rfl, hn⟩
      · exact .dq
      · exact .sq hn
    | none =>
      simp only
      cases hk : (rawKeyQuotesKeywordCase && kwCase (c :: t)) with
      | true => simp; exact .dq
      | false =>
        simp only [Bool.false_eq_true, if_false]
        rcases rawTail_cases (c :: t) with ⟨h1, h2⟩ | h1
        · rw [h1]; exact .unq (by simp) (rawKeyLoop_none hl) h2 hk
        · rw [h1]; exact .dq

inductive RawValue (s : Str) : Quoting → Prop where
  | unq : s ≠ [] → rawValueGuard s = false → surroundingWs s = false → RawValue s .unq
  | dq : RawValue s .dq
  | sq : s.contains '\n' = false → RawValue s .sq

theorem rawString_value (s : Str) : RawValue s (rawString s false) := by
  unfold rawString
  cases s with
  | nil => simp [rawEmpty_dq]; exact .dq
  | cons c t =>
    simp only [List.isEmpty_cons, Bool.false_eq_true, if_false]
    cases hg : rawValueGuard (c :: t) with
    | true =>
      simp only [if_true]
      rcases rawValueQuoted_cases (c :: t) with h | ⟨h, hn⟩
      · rw [h]; exact .dq
      · rw [h]; exact .sq hn
    | false =>
      simp only [Bool.false_eq_true, if_false]
      rcases rawTail_cases (c :: t) with ⟨h1, h2⟩ | h1
      · rw [h1]; exact .unq (by simp) hg h2
      · rw [h1]; exact .dq

theorem rawValueGuard_false {s : Str} (h : rawValueGuard s = false) : containsAny s valueSpecials = false := by
  unfold rawValueGuard at h
  have hc : rawValueChecksSpecials = true := by decide
  simp only [hc, Bool.true_and, Bool.or_eq_false_iff] at h
  exact h.2

end D2V.Quote
