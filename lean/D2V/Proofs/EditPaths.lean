/-
  Path lemmas shared by C37–C39: prefixes (case-insensitive), `reroot`, `hoist`.
-/
import D2V.Model.Edit
namespace D2V.Edit

theorem filter_const_true {α : Type} (l : List α) : l.filter (fun _ => true) = l := by
  induction l with
  | nil => rfl
  | cons a r ih => simp [List.filter_cons, ih]

theorem samePath_refl (p : Path) : samePath p p = true := by simp [samePath]

theorem keyOf_take (p : Path) (n : Nat) : keyOf (p.take n) = (keyOf p).take n := by
  simp [keyOf, List.map_take]

theorem keyOf_length (p : Path) : (keyOf p).length = p.length := by simp [keyOf]

theorem isPre_take (p : Path) (n : Nat) : isPre (p.take n) p = true := by
  unfold isPre
  rw [keyOf_take, List.isPrefixOf_iff_prefix]
  exact List.take_prefix n (keyOf p)

theorem isPre_length {x p : Path} (h : isPre x p = true) : x.length ≤ p.length := by
  unfold isPre at h
  rw [List.isPrefixOf_iff_prefix] at h
  have := h.length_le
  simpa [keyOf_length] using this

/-- outside the subtree of `x` nothing moves -/
theorem reroot_outside (x n p : Path) (h : isPre x p = false) : reroot x n p = p := by
  simp [reroot, h]

/-- inside the subtree of `x` the prefix `x` is replaced by `n` and the rest of the path is kept -/
theorem reroot_inside (x n p : Path) (h : isPre x p = true) : reroot x n p = n ++ p.drop x.length := by
  simp [reroot, h]

theorem hoist_outside (x : Path) (ren : List (String × String)) (p : Path) (h : isUnder x p = false) : hoist x ren p = p := by
  simp [hoist, h]

/-- a strict descendant of `x` has a next segment below `x` -/
theorem under_split {x p : Path} (h : isUnder x p = true) : ∃ c rest, p.drop x.length = c :: rest := by
  unfold isUnder at h
  simp only [Bool.and_eq_true, decide_eq_true_eq] at h
  cases hd : p.drop x.length with
  | nil =>
    have : p.length ≤ x.length := by
      have := congrArg List.length hd
      simp at this; omega
    omega
  | cons c rest => exact ⟨c, rest, rfl⟩

/-- **children are hoisted**: a strict descendant `x ++ c :: rest` of `x` ends up at `parent(x) ++ c' :: rest`, where
    `c'` is `c` or the collision name chosen for `c`; the part of the path below the child is untouched -/
theorem hoist_inside (x : Path) (ren : List (String × String)) (p : Path) (h : isUnder x p = true) :
    ∃ c rest, p.drop x.length = c :: rest ∧ hoist x ren p = x.dropLast ++ renOf ren c :: rest := by
  rcases under_split h with ⟨c, rest, hd⟩
  refine ⟨c, rest, hd, ?_⟩
  simp [hoist, h, hd]

theorem renOf_nil (c : String) : renOf [] c = c := by simp [renOf]

theorem isUnder_isPre {x p : Path} (h : isUnder x p = true) : isPre x p = true := by
  unfold isUnder at h
  simp only [Bool.and_eq_true] at h
  exact h.1

theorem moveWithoutPath_outside (x n : Path) (ren : List (String × String)) (p : Path) (h : isPre x p = false) :
    Spec.moveWithoutPath x n ren p = p := by
  have h1 : samePath p x = false := by
    cases hs : samePath p x with
    | false => rfl
    | true =>
      have : isPre x p = true := by
        unfold samePath at hs
        unfold isPre
        have : keyOf p = keyOf x := by simpa using hs
        rw [this, List.isPrefixOf_iff_prefix]
        exact List.prefix_refl _
      rw [this] at h; cases h
  have h2 : isUnder x p = false := by
    cases hu : isUnder x p with
    | false => rfl
    | true => rw [isUnder_isPre hu] at h; cases h
  simp [Spec.moveWithoutPath, h1, hoist_outside x ren p h2]

end D2V.Edit
