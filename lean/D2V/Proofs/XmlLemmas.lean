import D2V.Model.Escape
import D2V.Model.Xml
set_option linter.unusedSimpArgs false
/-! Helper development for C30: the escape functions against the `noMarkup` scanner and the XML automaton. -/
namespace D2V.C30
open D2V.Escape D2V.Xml

/-! ## 1. `escapeText` output is markup-free -/

theorem inCharRange_repl : inCharRange repl = true := by decide

theorem repl_ne : repl ≠ '<' ∧ repl ≠ '&' ∧ repl ≠ ' ' ∧ repl ≠ '\t' ∧ repl ≠ '\n' ∧ repl ≠ '\r' ∧ repl ≠ ']' ∧ repl ≠ '>'
    ∧ repl ≠ '"' ∧ repl ≠ '\'' := by decide

theorem escapeText_cons (c : Char) (s : List Char) : escapeText (c :: s) = escXml c ++ escapeText s := by
  simp [escapeText]

theorem scan_append (st : Scan) (a b : List Char) : scan st (a ++ b) = scan (scan st a) b := by
  simp [scan, List.foldl_append]

/-- one escaped rune takes the scanner from `plain` back to `plain` -/
theorem scan_escXml (c : Char) : scan .plain (escXml c) = .plain := by
  unfold escXml
  repeat' split
  all_goals first
    | decide
    | (simp_all [scan, scanStep])
    | (simp [scan, scanStep, inCharRange_repl]; decide)

theorem escapeText_safe (s : List Char) : noMarkup (escapeText s) = true := by
  have h : scan .plain (escapeText s) = .plain := by
    induction s with
    | nil => rfl
    | cons c s ih => rw [escapeText_cons, scan_append, scan_escXml, ih]
  simp [noMarkup, h]

/-! ## 2. escaped text inside an element / an attribute value keeps the parser where it was -/

theorem run_append (st : St) (a b : List Char) : run st (a ++ b) = run (run st a) b := by
  simp [run, List.foldl_append]

theorem run_cons (st : St) (c : Char) (s : List Char) : run st (c :: s) = run (step st c) s := rfl
theorem run_nil (st : St) : run st [] = st := rfl

/-- characters that may occur between `&` and `;` -/
def refChar (c : Char) : Bool := (isNameChar c || c = '#') && c != ';'

/-- reading the body of a reference in content: the accumulator grows, nothing else changes -/
theorem run_textRef_body (st : St) (acc r : List Char) (hm : st.mode = .textRef acc)
    (hr : ∀ c ∈ r, refChar c = true) : run st r = { st with mode := .textRef (r.reverse ++ acc) } := by
  induction r generalizing st acc with
  | nil => cases st; simp_all [run]
  | cons c r ih =>
    have hc := hr c (by simp)
    simp only [refChar, Bool.and_eq_true, bne_iff_ne, ne_eq] at hc
    have hstep : step st c = { st with mode := .textRef (c :: acc) } := by
      simp only [step, hm]
      simp [hc.2, hc.1]
    rw [run_cons, hstep, ih _ (c :: acc) rfl (fun x hx => hr x (by simp [hx]))]
    simp

/-- a complete legal reference read in content mode (inside an element) returns to content mode -/
theorem run_ref_content (st : St) (k : Nat) (r : List Char) (hm : st.mode = .content k)
    (hs : st.stack.isEmpty = false) (hr : ∀ c ∈ r, refChar c = true) (hok : refOk r = true) :
    run st ('&' :: r ++ [';']) = { st with mode := .content 0 } := by
  have h1 : step st '&' = { st with mode := .textRef [] } := by
    simp only [step, hm]; simp [hs]
  rw [List.cons_append, run_cons, h1, run_append, run_textRef_body _ [] r rfl hr]
  simp only [run, List.foldl, step, List.append_nil, List.reverse_reverse, hok, if_true]

theorem refChar_lits :
    (∀ c ∈ ['#', '3', '4'], refChar c = true) ∧ (∀ c ∈ ['#', '3', '9'], refChar c = true) ∧
    (∀ c ∈ ['a', 'm', 'p'], refChar c = true) ∧ (∀ c ∈ ['l', 't'], refChar c = true) ∧
    (∀ c ∈ ['g', 't'], refChar c = true) ∧ (∀ c ∈ ['#', 'x', '9'], refChar c = true) ∧
    (∀ c ∈ ['#', 'x', 'A'], refChar c = true) ∧ (∀ c ∈ ['#', 'x', 'D'], refChar c = true) := by decide

/-- one escaped rune, read as character data inside an element, leaves everything but the `]` counter unchanged -/
theorem run_escXml_content (st : St) (k : Nat) (c : Char) (hm : st.mode = .content k) (hs : st.stack.isEmpty = false) :
    ∃ k', run st (escXml c) = { st with mode := .content k' } := by
  obtain ⟨r1, r2, r3, r4, r5, r6, r7, r8⟩ := refChar_lits
  unfold escXml
  repeat' split
  · exact ⟨0, run_ref_content st k ['#', '3', '4'] hm hs r1 (by decide)⟩
  · exact ⟨0, run_ref_content st k ['#', '3', '9'] hm hs r2 (by decide)⟩
  · exact ⟨0, run_ref_content st k ['a', 'm', 'p'] hm hs r3 (by decide)⟩
  · exact ⟨0, run_ref_content st k ['l', 't'] hm hs r4 (by decide)⟩
  · exact ⟨0, run_ref_content st k ['g', 't'] hm hs r5 (by decide)⟩
  · exact ⟨0, run_ref_content st k ['#', 'x', '9'] hm hs r6 (by decide)⟩
  · exact ⟨0, run_ref_content st k ['#', 'x', 'A'] hm hs r7 (by decide)⟩
  · exact ⟨0, run_ref_content st k ['#', 'x', 'D'] hm hs r8 (by decide)⟩
  · rename_i h1 h2 h3 h4 h5 h6 h7 h8 h9
    by_cases hb : c = ']'
    · refine ⟨min (k + 1) 2, ?_⟩
      simp only [run, List.foldl, step, hm]
      simp [hb, hs, isSpace]
    · refine ⟨0, ?_⟩
      simp only [run, List.foldl, step, hm]
      simp [h3, h4, h5, h6, h7, h8, h9, hb, hs, isSpace]
  · refine ⟨0, ?_⟩
    simp only [run, List.foldl, step, hm]
    obtain ⟨n1, n2, n3, n4, n5, n6, n7, n8, _, _⟩ := repl_ne
    simp [hs, isSpace, inCharRange_repl, n1, n2, n3, n4, n5, n6, n7, n8]

/-- **escaped text inside an element**: after `escapeText s` the parser is again in content mode with the same open
    elements, the same recorded element/attribute events and the same flags — no tag was opened or closed. -/
theorem escape_in_text (s : List Char) (st : St) (k : Nat) (hm : st.mode = .content k) (hs : st.stack.isEmpty = false) :
    ∃ k', run st (escapeText s) = { st with mode := .content k' } := by
  induction s generalizing st k with
  | nil => exact ⟨k, by cases st; simp_all [escapeText, run]⟩
  | cons c s ih =>
    obtain ⟨k1, h1⟩ := run_escXml_content st k c hm hs
    obtain ⟨k2, h2⟩ := ih { st with mode := .content k1 } k1 rfl hs
    exact ⟨k2, by rw [escapeText_cons, run_append, h1, h2]⟩

/-! ### attribute values -/

theorem run_attrRef_body (st : St) (q : Char) (acc r : List Char) (hm : st.mode = .attrRef q acc)
    (hr : ∀ c ∈ r, refChar c = true) : run st r = { st with mode := .attrRef q (r.reverse ++ acc) } := by
  induction r generalizing st acc with
  | nil => cases st; simp_all [run]
  | cons c r ih =>
    have hc := hr c (by simp)
    simp only [refChar, Bool.and_eq_true, bne_iff_ne, ne_eq] at hc
    have hstep : step st c = { st with mode := .attrRef q (c :: acc) } := by
      simp only [step, hm]
      simp [hc.2, hc.1]
    rw [run_cons, hstep, ih _ (c :: acc) rfl (fun x hx => hr x (by simp [hx]))]
    simp

/-- a complete legal reference inside an attribute value is appended raw to the value -/
theorem run_ref_attr (st : St) (q : Char) (r : List Char) (hm : st.mode = .attrVal q) (hq : q ≠ '&')
    (hr : ∀ c ∈ r, refChar c = true) (hok : refOk r = true) :
    run st ('&' :: r ++ [';']) = { st with aval := ('&' :: r ++ [';']).reverse ++ st.aval } := by
  have hlt : ('&' : Char) ≠ '<' := by decide
  have h1 : step st '&' = { st with mode := .attrRef q [] } := by
    simp only [step, hm]; simp [Ne.symm hq, hlt]
  rw [List.cons_append, run_cons, h1, run_append, run_attrRef_body _ q [] r rfl hr]
  simp only [run, List.foldl, step, List.append_nil, List.reverse_reverse, hok, if_true]
  cases st; simp_all

/-- one escaped rune inside a quoted attribute value is appended to the value; the tag stays open -/
theorem run_escXml_attr (st : St) (q : Char) (c : Char) (hm : st.mode = .attrVal q) (hq : q = '"' ∨ q = '\'') :
    run st (escXml c) = { st with aval := (escXml c).reverse ++ st.aval } := by
  obtain ⟨r1, r2, r3, r4, r5, r6, r7, r8⟩ := refChar_lits
  have hqa : q ≠ '&' := by rcases hq with h | h <;> subst h <;> decide
  unfold escXml
  repeat' split
  · exact run_ref_attr st q ['#', '3', '4'] hm hqa r1 (by decide)
  · exact run_ref_attr st q ['#', '3', '9'] hm hqa r2 (by decide)
  · exact run_ref_attr st q ['a', 'm', 'p'] hm hqa r3 (by decide)
  · exact run_ref_attr st q ['l', 't'] hm hqa r4 (by decide)
  · exact run_ref_attr st q ['g', 't'] hm hqa r5 (by decide)
  · exact run_ref_attr st q ['#', 'x', '9'] hm hqa r6 (by decide)
  · exact run_ref_attr st q ['#', 'x', 'A'] hm hqa r7 (by decide)
  · exact run_ref_attr st q ['#', 'x', 'D'] hm hqa r8 (by decide)
  · rename_i h1 h2 h3 h4 h5 h6 h7 h8 h9
    have hcq : c ≠ q := by rcases hq with h | h <;> subst h <;> assumption
    simp only [run, List.foldl, step, hm]
    simp [hcq, h3, h4, h9]
  · obtain ⟨n1, n2, _, _, _, _, _, _, n9, n10⟩ := repl_ne
    have hcq : repl ≠ q := by rcases hq with h | h <;> subst h <;> assumption
    simp only [run, List.foldl, step, hm]
    simp [hcq, n1, n2, inCharRange_repl]

/-- **escaped text inside an attribute value**: the parser is still inside the same quoted value of the same start
    tag; the only change is that the raw value grew by exactly the escaped text. -/
theorem escape_in_attr (s : List Char) (st : St) (q : Char) (hm : st.mode = .attrVal q) (hq : q = '"' ∨ q = '\'') :
    run st (escapeText s) = { st with aval := (escapeText s).reverse ++ st.aval } := by
  induction s generalizing st with
  | nil => cases st; simp [escapeText, run]
  | cons c s ih =>
    rw [escapeText_cons, run_append, run_escXml_attr st q c hm hq, ih { st with aval := (escXml c).reverse ++ st.aval } hm]
    simp

/-! ## 3. tags: a rendered start / empty / end tag is read back as exactly that tag -/

/-- [5] Name -/
def validName : Name → Bool
  | [] => false
  | c :: cs => isNameStart c && cs.all isNameChar

/-- content-mode states are canonical: the scratch fields are clear -/
def Clean (st : St) : Prop :=
  st.name = [] ∧ st.attrs = [] ∧ st.aname = [] ∧ st.aval = [] ∧ st.first = false

/-- "reading `v` inside a quoted attribute value appends `v` and nothing else" -/
def AttrValOk (q : Char) (v : List Char) : Prop :=
  ∀ st : St, st.mode = .attrVal q → run st v = { st with aval := v.reverse ++ st.aval }

def plainAttrChar (q : Char) (c : Char) : Bool := c != q && c != '<' && c != '&' && inCharRange c

theorem attrValOk_nil (q : Char) : AttrValOk q [] := by
  intro st _; cases st; simp [run]

theorem attrValOk_append {q : Char} {a b : List Char} (ha : AttrValOk q a) (hb : AttrValOk q b) : AttrValOk q (a ++ b) := by
  intro st hm
  rw [run_append, ha st hm, hb { st with aval := a.reverse ++ st.aval } hm]
  simp

theorem attrValOk_plain (q : Char) (v : List Char) (h : v.all (plainAttrChar q) = true) : AttrValOk q v := by
  induction v with
  | nil => exact attrValOk_nil q
  | cons c v ih =>
    simp only [List.all_cons, Bool.and_eq_true] at h
    have hc := h.1
    simp only [plainAttrChar, Bool.and_eq_true, bne_iff_ne, ne_eq] at hc
    intro st hm
    have hstep : step st c = { st with aval := c :: st.aval } := by
      simp only [step, hm]
      simp [hc.1.1.1, hc.1.1.2, hc.1.2, hc.2]
    rw [run_cons, hstep, ih h.2 { st with aval := c :: st.aval } hm]
    simp

theorem attrValOk_escaped (q : Char) (hq : q = '"' ∨ q = '\'') (s : List Char) : AttrValOk q (escapeText s) :=
  fun st hm => escape_in_attr s st q hm hq

theorem run_tagName_body (st : St) (acc r : List Char) (hm : st.mode = .tagName acc) (hr : r.all isNameChar = true) :
    run st r = { st with mode := .tagName (r.reverse ++ acc) } := by
  induction r generalizing st acc with
  | nil => cases st; simp_all [run]
  | cons c r ih =>
    simp only [List.all_cons, Bool.and_eq_true] at hr
    have hstep : step st c = { st with mode := .tagName (c :: acc) } := by
      simp only [step, hm]; simp [hr.1]
    rw [run_cons, hstep, ih _ (c :: acc) rfl hr.2]
    simp

theorem run_attrName_body (st : St) (acc r : List Char) (hm : st.mode = .attrName acc) (hr : r.all isNameChar = true) :
    run st r = { st with mode := .attrName (r.reverse ++ acc) } := by
  induction r generalizing st acc with
  | nil => cases st; simp_all [run]
  | cons c r ih =>
    simp only [List.all_cons, Bool.and_eq_true] at hr
    have hstep : step st c = { st with mode := .attrName (c :: acc) } := by
      simp only [step, hm]; simp [hr.1]
    rw [run_cons, hstep, ih _ (c :: acc) rfl hr.2]
    simp

theorem run_closeName_body (st : St) (a : Char) (acc r : List Char) (hm : st.mode = .closeName (a :: acc))
    (hr : r.all isNameChar = true) : run st r = { st with mode := .closeName (r.reverse ++ a :: acc) } := by
  induction r generalizing st a acc with
  | nil => cases st; simp_all [run]
  | cons c r ih =>
    simp only [List.all_cons, Bool.and_eq_true] at hr
    have hstep : step st c = { st with mode := .closeName (c :: a :: acc) } := by
      simp only [step, hm]; simp [hr.1]
    rw [run_cons, hstep, ih _ c (a :: acc) rfl hr.2]
    simp

theorem delims : isNameChar ' ' = false ∧ isNameChar '=' = false ∧ isNameChar '>' = false ∧ isNameChar '/' = false ∧
    isNameStart ' ' = false ∧ isNameStart '>' = false ∧ isNameStart '/' = false ∧ isNameStart '"' = false ∧
    isSpace ' ' = true ∧ isSpace '=' = false ∧ isSpace '"' = false ∧ isSpace '>' = false ∧ isSpace '/' = false ∧
    isNameStart '<' = false ∧ isNameStart '=' = false := by decide

def attrBody (a : Name) (v : List Char) : List Char := a ++ '=' :: '"' :: v ++ ['"']

/-- one attribute `name="value"` read inside a start tag (after whitespace) -/
theorem run_attr (st : St) (a : Name) (v : List Char) (hm : st.mode = .tagSpace true)
    (ha : validName a = true) (hv : AttrValOk '"' v) (hdup : st.attrs.any (fun x => x.1 == a) = false) :
    run st (attrBody a v) = { st with mode := .tagSpace false, attrs := (a, v) :: st.attrs, aname := [], aval := [] } := by
  obtain ⟨d1, d2, d3, d4, d5, d6, d7, d8, d9, d10, d11, d12, d13, d14, d15⟩ := delims
  match a, ha with
  | c :: cs, ha =>
    simp only [validName, Bool.and_eq_true] at ha
    have h2 : step st c = { st with mode := .attrName [c] } := by
      simp only [step, hm]; simp [ha.1]
    have h3 := run_attrName_body { st with mode := .attrName [c] } [c] cs rfl ha.2
    have h4 : step { st with mode := .attrName (cs.reverse ++ [c]) } '=' =
        { st with mode := .attrQuote, aname := c :: cs } := by
      simp only [step]; simp [d2, d10]
    have h5 : step { st with mode := .attrQuote, aname := c :: cs } '"' =
        { st with mode := .attrVal '"', aname := c :: cs, aval := [] } := by
      simp only [step]; simp [d11]
    have h6 := hv { st with mode := .attrVal '"', aname := c :: cs, aval := [] } rfl
    have h7 : step { st with mode := .attrVal '"', aname := c :: cs, aval := v.reverse } '"' =
        { st with mode := .tagSpace false, attrs := (c :: cs, v) :: st.attrs, aname := [], aval := [] } := by
      simp only [step]; simp [hdup]
    rw [show attrBody (c :: cs) v = c :: (cs ++ '=' :: '"' :: (v ++ ['"'])) by simp [attrBody]]
    rw [run_cons, h2, run_append, h3, run_cons, h4, run_cons, h5, run_append, h6]
    simp only [List.append_nil]
    rw [run_cons, h7, run_nil]

def renderAttrs : List (Name × List Char) → List Char
  | [] => []
  | (a, v) :: r => ' ' :: attrBody a v ++ renderAttrs r

/-- attribute list of a tag: valid distinct names, values that stay inside their quotes -/
def AttrsOk : List (Name × List Char) → List Name → Prop
  | [], _ => True
  | (a, v) :: r, used => validName a = true ∧ AttrValOk '"' v ∧ a ∉ used ∧ AttrsOk r (a :: used)

theorem any_name_false (attrs : List (Name × List Char)) (a : Name) (h : a ∉ attrs.map (·.1)) :
    attrs.any (fun x => x.1 == a) = false := by
  induction attrs with
  | nil => rfl
  | cons x xs ih =>
    simp only [List.map_cons, List.mem_cons, not_or] at h
    simp only [List.any_cons, Bool.or_eq_false_iff]
    exact ⟨by simpa using fun e => h.1 e.symm, ih h.2⟩

/-- the attributes of a start tag, each preceded by one space -/
theorem run_attrs (as : List (Name × List Char)) (st : St) (ws : Bool) (hm : st.mode = .tagSpace ws)
    (hn : st.aname = []) (hv : st.aval = []) (hok : AttrsOk as (st.attrs.map (·.1))) :
    run st (renderAttrs as) = { st with mode := .tagSpace (ws && as.isEmpty), attrs := as.reverse ++ st.attrs } := by
  obtain ⟨d1, d2, d3, d4, d5, d6, d7, d8, d9, d10, d11, d12, d13, d14, d15⟩ := delims
  induction as generalizing st ws with
  | nil => cases st; simp_all [renderAttrs, run]
  | cons x r ih =>
    obtain ⟨a, v⟩ := x
    obtain ⟨h1, h2, h3, h4⟩ := hok
    have hsp : step st ' ' = { st with mode := .tagSpace true } := by
      simp only [step, hm]; simp [d5, d9]
    have hat := run_attr { st with mode := .tagSpace true } a v rfl h1 h2 (any_name_false _ _ h3)
    have hrest := ih { st with mode := .tagSpace false, attrs := (a, v) :: st.attrs, aname := [], aval := [] } false rfl rfl rfl
      (by simpa using h4)
    dsimp only at hat hrest
    simp only [renderAttrs, List.cons_append]
    rw [run_cons, hsp, run_append, hat, hrest]
    cases st; simp_all

def renderOpenTag (n : Name) (as : List (Name × List Char)) : List Char := '<' :: n ++ renderAttrs as ++ ['>']
def renderEmptyTag (n : Name) (as : List (Name × List Char)) : List Char := '<' :: n ++ renderAttrs as ++ [' ', '/', '>']
def renderCloseTag (n : Name) : List Char := '<' :: '/' :: n ++ ['>']

/-- reading `<name attrs` from content mode: inside the start tag, name and attributes recorded -/
theorem run_tagHead (st : St) (k : Nat) (n : Name) (as : List (Name × List Char)) (hm : st.mode = .content k)
    (hc : Clean st) (hroot : (st.stack.isEmpty && st.rootSeen) = false) (hn : validName n = true) (hok : AttrsOk as []) :
    (as = [] ∧ run st ('<' :: n ++ renderAttrs as) = { st with mode := .tagName n.reverse }) ∨
    (as ≠ [] ∧ run st ('<' :: n ++ renderAttrs as) = { st with mode := .tagSpace false, name := n, attrs := as.reverse }) := by
  obtain ⟨d1, d2, d3, d4, d5, d6, d7, d8, d9, d10, d11, d12, d13, d14, d15⟩ := delims
  obtain ⟨c1, c2, c3, c4, c5⟩ := hc
  match n, hn with
  | c :: cs, hn =>
    simp only [validName, Bool.and_eq_true] at hn
    have h1 : step st '<' = { st with mode := .lt } := by simp only [step, hm]; simp
    have h2 : step { st with mode := .lt } c = { st with mode := .tagName [c] } := by
      simp only [step]; simp [hn.1, hroot, c2, c5]
    have h3 := run_tagName_body { st with mode := .tagName [c] } [c] cs rfl hn.2
    cases as with
    | nil =>
      left
      refine ⟨rfl, ?_⟩
      simp only [renderAttrs, List.append_nil]
      rw [run_cons, h1, run_cons, h2, h3]
      simp
    | cons x r =>
      right
      refine ⟨by simp, ?_⟩
      obtain ⟨a, v⟩ := x
      obtain ⟨k1, k2, k3, k4⟩ := hok
      have h4 : step { st with mode := .tagName (cs.reverse ++ [c]) } ' ' =
          { st with mode := .tagSpace true, name := c :: cs } := by
        simp only [step]; simp [d1, d9]
      have h5 := run_attr { st with mode := .tagSpace true, name := c :: cs } a v rfl k1 k2 (by simp [c2])
      have h6 := run_attrs r { st with mode := .tagSpace false, name := c :: cs, attrs := [(a, v)], aname := [], aval := [] }
        false rfl rfl rfl (by simpa [c2] using k4)
      simp only [renderAttrs]
      rw [show ('<' :: (c :: cs) ++ (' ' :: attrBody a v ++ renderAttrs r)) =
          '<' :: c :: (cs ++ ' ' :: (attrBody a v ++ renderAttrs r)) by simp]
      rw [run_cons, h1, run_cons, h2, run_append, h3, run_cons, h4, run_append, h5]
      simp only [c2] at h6 ⊢
      rw [h6]
      cases st; simp_all

/-- **a rendered start tag** read in content mode opens exactly that element with exactly those attributes -/
theorem run_openTag (st : St) (k : Nat) (n : Name) (as : List (Name × List Char)) (hm : st.mode = .content k)
    (hc : Clean st) (hroot : (st.stack.isEmpty && st.rootSeen) = false) (hn : validName n = true) (hok : AttrsOk as []) :
    run st (renderOpenTag n as) =
      { st with mode := .content 0, stack := n :: st.stack, rootSeen := true, evs := .open n as :: st.evs } := by
  obtain ⟨d1, d2, d3, d4, d5, d6, d7, d8, d9, d10, d11, d12, d13, d14, d15⟩ := delims
  obtain ⟨c1, c2, c3, c4, c5⟩ := hc
  unfold renderOpenTag
  rw [run_append]
  rcases run_tagHead st k n as hm ⟨c1, c2, c3, c4, c5⟩ hroot hn hok with ⟨he, h⟩ | ⟨_, h⟩
  · rw [h]; subst he
    simp only [run, List.foldl, step]
    simp [d3, d12, openElem, c1, c2, c3, c4, c5]
  · rw [h]
    simp only [run, List.foldl, step]
    simp [d6, d12, openElem, c1, c2, c3, c4, c5]

/-- **a rendered empty-element tag** (`<name attrs />`) records the element and stays at the same depth -/
theorem run_emptyTag (st : St) (k : Nat) (n : Name) (as : List (Name × List Char)) (hm : st.mode = .content k)
    (hc : Clean st) (hroot : (st.stack.isEmpty && st.rootSeen) = false) (hn : validName n = true) (hok : AttrsOk as []) :
    run st (renderEmptyTag n as) =
      { st with mode := .content 0, rootSeen := true, rootDone := st.rootDone || st.stack.isEmpty,
                evs := .close :: .open n as :: st.evs } := by
  obtain ⟨d1, d2, d3, d4, d5, d6, d7, d8, d9, d10, d11, d12, d13, d14, d15⟩ := delims
  obtain ⟨c1, c2, c3, c4, c5⟩ := hc
  unfold renderEmptyTag
  rw [run_append]
  rcases run_tagHead st k n as hm ⟨c1, c2, c3, c4, c5⟩ hroot hn hok with ⟨he, h⟩ | ⟨_, h⟩
  · rw [h]; subst he
    simp only [run, List.foldl, step]
    simp [d1, d9, d5, d7, d13, d12, emptyElem, c1, c2, c3, c4, c5]
  · rw [h]
    simp only [run, List.foldl, step]
    simp [d5, d9, d7, d13, d12, emptyElem, c1, c2, c3, c4, c5]

/-- **a rendered end tag** closes the innermost element when the names match -/
theorem run_closeTag (st : St) (k : Nat) (n : Name) (rest : List Name) (hm : st.mode = .content k)
    (hc : Clean st) (hs : st.stack = n :: rest) (hn : validName n = true) :
    run st (renderCloseTag n) =
      { st with mode := .content 0, stack := rest, rootDone := st.rootDone || rest.isEmpty, evs := .close :: st.evs } := by
  obtain ⟨d1, d2, d3, d4, d5, d6, d7, d8, d9, d10, d11, d12, d13, d14, d15⟩ := delims
  obtain ⟨c1, c2, c3, c4, c5⟩ := hc
  match n, hn with
  | c :: cs, hn =>
    simp only [validName, Bool.and_eq_true] at hn
    have h1 : step st '<' = { st with mode := .lt } := by simp only [step, hm]; simp
    have h2 : step { st with mode := .lt } '/' = { st with mode := .closeName [] } := by
      simp only [step]; simp [d7, hs, c5]
    have h3 : step { st with mode := .closeName [] } c = { st with mode := .closeName [c] } := by
      simp only [step]; simp [hn.1]
    have h4 := run_closeName_body { st with mode := .closeName [c] } c [] cs rfl hn.2
    unfold renderCloseTag
    rw [show ('<' :: '/' :: (c :: cs) ++ ['>']) = '<' :: '/' :: c :: (cs ++ ['>']) by simp]
    rw [run_cons, h1, run_cons, h2, run_cons, h3, run_append, h4]
    simp only [run, List.foldl, step]
    simp [d3, d12, hs, closeElem, c5]

end D2V.C30
