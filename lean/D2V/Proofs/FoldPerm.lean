import D2V.Model.Fold
import D2V.Gen.MapRanges
/-! Shared by C08 and C25 — iteration-order independence of every class of map loop found on the compile and
    render paths, schedule independence of threads over disjoint state, and the committed classification table
    for the sites the translator finds in the tree under test. -/
namespace D2V.Fold
open D2V.Gen.MapRanges

/-! ### a fold over any permutation of the entries -/

theorem fold_perm_invariant {α β : Type} (step : β → α → β)
    (hc : ∀ s a b, step (step s a) b = step (step s b) a) {l₁ l₂ : List α} (p : l₁.Perm l₂) :
    ∀ s, l₁.foldl step s = l₂.foldl step s := by
  induction p with
  | nil => intro s; rfl
  | cons x _ ih => intro s; simp only [List.foldl_cons]; exact ih _
  | swap x y l => intro s; simp only [List.foldl_cons]; rw [hc]
  | trans _ _ ih₁ ih₂ => intro s; rw [ih₁, ih₂]

/-- the same when the steps commute only on the entries actually present (e.g. entries with distinct keys) -/
theorem fold_perm_invariant_on {α β : Type} (step : β → α → β) {l₁ l₂ : List α} (p : l₁.Perm l₂)
    (hc : ∀ s, ∀ a ∈ l₁, ∀ b ∈ l₁, step (step s a) b = step (step s b) a) :
    ∀ s, l₁.foldl step s = l₂.foldl step s := by
  induction p with
  | nil => intro s; rfl
  | cons x _ ih =>
    intro s; simp only [List.foldl_cons]
    exact ih (fun s a ha b hb => hc s a (List.mem_cons_of_mem _ ha) b (List.mem_cons_of_mem _ hb)) _
  | swap x y l =>
    intro s; simp only [List.foldl_cons]
    rw [hc s y (by simp) x (by simp)]
  | trans p₁ _ ih₁ ih₂ =>
    intro s
    rw [ih₁ hc, ih₂ (fun s a ha b hb => hc s a (p₁.mem_iff.mpr ha) b (p₁.mem_iff.mpr hb))]

/-! ### one instance lemma per class of loop body -/

theorem setInsert_comm {κ : Type} [DecidableEq κ] (s : κ → Bool) (a b : κ) :
    setInsert (setInsert s a) b = setInsert (setInsert s b) a := by
  funext x; simp only [setInsert]; split <;> split <;> rfl

theorem setInsert_order_independent {κ : Type} [DecidableEq κ] {l₁ l₂ : List κ} (p : l₁.Perm l₂) (s : κ → Bool) :
    l₁.foldl setInsert s = l₂.foldl setInsert s :=
  fold_perm_invariant setInsert setInsert_comm p s

theorem deleteKey_comm {κ : Type} [DecidableEq κ] (s : κ → Bool) (a b : κ) :
    deleteKey (deleteKey s a) b = deleteKey (deleteKey s b) a := by
  funext x; simp only [deleteKey]; split <;> split <;> rfl

theorem deleteEach_order_independent {κ : Type} [DecidableEq κ] {l₁ l₂ : List κ} (p : l₁.Perm l₂) (s : κ → Bool) :
    l₁.foldl deleteKey s = l₂.foldl deleteKey s :=
  fold_perm_invariant deleteKey deleteKey_comm p s

theorem existsStep_comm {α : Type} (p : α → Bool) (s : Bool) (a b : α) :
    existsStep p (existsStep p s a) b = existsStep p (existsStep p s b) a := by
  simp only [existsStep]; cases s <;> cases p a <;> cases p b <;> rfl

theorem existsTest_order_independent {α : Type} (q : α → Bool) {l₁ l₂ : List α} (p : l₁.Perm l₂) (s : Bool) :
    l₁.foldl (existsStep q) s = l₂.foldl (existsStep q) s :=
  fold_perm_invariant (existsStep q) (existsStep_comm q) p s

/-- writes to distinct keys commute -/
theorem putEntry_comm {κ ν : Type} [DecidableEq κ] (s : κ → Option ν) (a b : κ × ν) (h : a.1 ≠ b.1 ∨ a = b) :
    putEntry (putEntry s a) b = putEntry (putEntry s b) a := by
  rcases h with h | h
  · funext x; simp only [putEntry]
    by_cases h1 : x = b.1 <;> by_cases h2 : x = a.1 <;> simp [h1, h2]
    · exact absurd (h2.symm.trans h1) h
    · intro h3; exact absurd h3.symm h
    · intro h3; exact absurd h3 h
  · subst h; rfl

theorem updEntry_comm {κ ν : Type} [DecidableEq κ] (g : Option ν → ν → ν) (s : κ → Option ν) (a b : κ × ν)
    (h : a.1 ≠ b.1 ∨ a = b) : updEntry g (updEntry g s a) b = updEntry g (updEntry g s b) a := by
  rcases h with h | h
  · funext x; simp only [updEntry]
    by_cases h1 : x = b.1 <;> by_cases h2 : x = a.1 <;> simp [h1, h2]
    · exact absurd (h2.symm.trans h1) h
    · subst h1; simp [Ne.symm h]
    · subst h2; simp [h]
  · subst h; rfl

/-- entries of one Go map have pairwise distinct keys -/
theorem distinct_keys {κ ν : Type} {l : List (κ × ν)} (hk : (l.map Prod.fst).Nodup) :
    ∀ a ∈ l, ∀ b ∈ l, a.1 ≠ b.1 ∨ a = b := by
  induction l with
  | nil => intro a ha; cases ha
  | cons e rest ih =>
    simp only [List.map_cons, List.nodup_cons] at hk
    intro a ha b hb
    rcases List.mem_cons.mp ha with rfl | ha' <;> rcases List.mem_cons.mp hb with rfl | hb'
    · right; rfl
    · left; intro h; exact hk.1 (List.mem_map.mpr ⟨b, hb', h.symm⟩)
    · left; intro h; exact hk.1 (List.mem_map.mpr ⟨a, ha', h⟩)
    · exact ih hk.2 a ha' b hb'

theorem mapCopy_order_independent {κ ν : Type} [DecidableEq κ] {l₁ l₂ : List (κ × ν)} (p : l₁.Perm l₂)
    (hk : (l₁.map Prod.fst).Nodup) (s : κ → Option ν) : l₁.foldl putEntry s = l₂.foldl putEntry s :=
  fold_perm_invariant_on putEntry p (fun s a ha b hb => putEntry_comm s a b (distinct_keys hk a ha b hb)) s

theorem perKeyUpdate_order_independent {κ ν : Type} [DecidableEq κ] (g : Option ν → ν → ν) {l₁ l₂ : List (κ × ν)}
    (p : l₁.Perm l₂) (hk : (l₁.map Prod.fst).Nodup) (s : κ → Option ν) :
    l₁.foldl (updEntry g) s = l₂.foldl (updEntry g) s :=
  fold_perm_invariant_on (updEntry g) p (fun s a ha b hb => updEntry_comm g s a b (distinct_keys hk a ha b hb)) s

theorem maxAccum_order_independent {l₁ l₂ : List Nat} (p : l₁.Perm l₂) (s : Nat) :
    l₁.foldl max s = l₂.foldl max s :=
  fold_perm_invariant max (fun s a b => by omega) p s

/-- a map with at most one entry is iterated in only one order -/
theorem singleEntry_order_independent {α : Type} {l₁ l₂ : List α} (p : l₁.Perm l₂) (h : l₁.length ≤ 1) : l₁ = l₂ := by
  match l₁, h with
  | [], _ => exact (List.perm_nil.mp p.symm).symm ▸ rfl
  | [a], _ => exact (List.perm_singleton.mp p.symm).symm

/-- keys collected in any order and then sorted (total order, distinct keys): one result -/
theorem keysThenSort_order_independent {l₁ l₂ : List Nat} (p : l₁.Perm l₂) :
    l₁.mergeSort (fun a b => decide (a ≤ b)) = l₂.mergeSort (fun a b => decide (a ≤ b)) := by
  have tr : ∀ a b c : Nat, decide (a ≤ b) = true → decide (b ≤ c) = true → decide (a ≤ c) = true := by
    intro a b c h1 h2; simp at *; omega
  have tot : ∀ a b : Nat, (decide (a ≤ b) || decide (b ≤ a)) = true := by
    intro a b; simp; omega
  have s1 := List.pairwise_mergeSort (le := fun a b : Nat => decide (a ≤ b)) tr tot l₁
  have s2 := List.pairwise_mergeSort (le := fun a b : Nat => decide (a ≤ b)) tr tot l₂
  have pp : (l₁.mergeSort fun a b => decide (a ≤ b)).Perm (l₂.mergeSort fun a b => decide (a ≤ b)) :=
    (List.mergeSort_perm l₁ _).trans (p.trans (List.mergeSort_perm l₂ _).symm)
  exact List.Perm.eq_of_pairwise (fun a b _ _ h1 h2 => by simp at h1 h2; omega) s1 s2 pp

/-- keys sorted by their values: determined when the values are pairwise distinct (ties are the residue) -/
theorem keysSortByValue_order_independent {κ : Type} (val : κ → Nat) {l₁ l₂ : List κ} (p : l₁.Perm l₂)
    (inj : ∀ a ∈ l₁, ∀ b ∈ l₁, val a = val b → a = b) :
    l₁.mergeSort (fun a b => decide (val a ≤ val b)) = l₂.mergeSort (fun a b => decide (val a ≤ val b)) := by
  have tr : ∀ a b c : κ, decide (val a ≤ val b) = true → decide (val b ≤ val c) = true → decide (val a ≤ val c) = true := by
    intro a b c h1 h2; simp at *; omega
  have tot : ∀ a b : κ, (decide (val a ≤ val b) || decide (val b ≤ val a)) = true := by
    intro a b; simp; omega
  have s1 := List.pairwise_mergeSort (le := fun a b : κ => decide (val a ≤ val b)) tr tot l₁
  have s2 := List.pairwise_mergeSort (le := fun a b : κ => decide (val a ≤ val b)) tr tot l₂
  have p1 := List.mergeSort_perm l₁ (fun a b => decide (val a ≤ val b))
  have p2 := List.mergeSort_perm l₂ (fun a b => decide (val a ≤ val b))
  refine List.Perm.eq_of_pairwise (fun a b ha hb h1 h2 => ?_) s1 s2 (p1.trans (p.trans p2.symm))
  simp at h1 h2
  exact inj a (p1.mem_iff.mp ha) b (p.mem_iff.mpr (p2.mem_iff.mp hb)) (by omega)

/-- Counterexample for the `sequentialReplace` class (replayed on d2 before the fix: `vars: {a: '${b}'; b: X}` with
    `|md ${a}|` compiled to `X` or to `${b}` from run to run): rewriting one accumulator entry by entry is not
    order-independent. -/
theorem C08_cx_sequential_replace :
    [(("a", [Tok.pat "b"]) : String × List Tok), ("b", [Tok.lit "X"])].foldl replaceTok [.pat "a"] ≠
    [(("b", [Tok.lit "X"]) : String × List Tok), ("a", [Tok.pat "b"])].foldl replaceTok [.pat "a"] := by
  decide

/-! ### threads over disjoint state: any schedule = sequential -/

/-- invariant of every schedule: thread `t`'s state is its own program's prefix applied to its own initial state -/
theorem run_invariant {σ : Type} (S : Sched σ) (init : Nat → σ) (schedule : List Nat) :
    ∀ c : Conf σ, (∀ t, c.st t = ((S.prog t).take (c.pc t)).foldl (fun s f => f s) (init t)) →
      ∀ t, (S.run c schedule).st t = ((S.prog t).take ((S.run c schedule).pc t)).foldl (fun s f => f s) (init t) := by
  induction schedule with
  | nil => intro c h t; exact h t
  | cons u rest ih =>
    intro c h
    unfold Sched.run
    simp only [List.foldl_cons]
    apply ih
    intro t
    unfold Sched.step
    cases hf : (S.prog u)[c.pc u]? with
    | none => exact h t
    | some f =>
      simp only
      by_cases htu : t = u
      · subst htu
        simp only [if_true]
        rw [List.take_add_one, hf]
        simp [List.foldl_append, h t]
      · simp only [htu, if_false]; exact h t

/-- `noninterference`: under any schedule that lets every thread finish, each thread's result is what it
    computes alone — concurrent compilations over disjoint state equal sequential ones -/
theorem noninterference {σ : Type} (S : Sched σ) (init : Nat → σ) (schedule : List Nat) (t : Nat)
    (done : (S.prog t).length ≤ (S.run ⟨init, fun _ => 0⟩ schedule).pc t) :
    (S.run ⟨init, fun _ => 0⟩ schedule).st t = S.alone (init t) t := by
  have h := run_invariant S init schedule ⟨init, fun _ => 0⟩ (by intro t; simp) t
  rw [h, List.take_of_length_le done]; rfl

/-- two different complete schedules give every thread the same result -/
theorem schedule_independent {σ : Type} (S : Sched σ) (init : Nat → σ) (s₁ s₂ : List Nat) (t : Nat)
    (d₁ : (S.prog t).length ≤ (S.run ⟨init, fun _ => 0⟩ s₁).pc t)
    (d₂ : (S.prog t).length ≤ (S.run ⟨init, fun _ => 0⟩ s₂).pc t) :
    (S.run ⟨init, fun _ => 0⟩ s₁).st t = (S.run ⟨init, fun _ => 0⟩ s₂).st t := by
  rw [noninterference S init s₁ t d₁, noninterference S init s₂ t d₂]

/-- the hypotheses are satisfiable: two threads, interleaved -/
example : let S : Sched Nat := ⟨fun t => if t = 0 then [(· + 1), (· * 2)] else [(· + 5)]⟩
    (S.run ⟨fun _ => 1, fun _ => 0⟩ [0, 1, 0]).st 0 = 4 ∧ (S.run ⟨fun _ => 1, fun _ => 0⟩ [1, 0, 0]).st 0 = 4 := by
  decide

/-! ### the sites of the tree under test -/

/-- committed expectation: every map-range / package-level-write site of the compile-path packages
    (group C08) and of the render-path packages (group C25): kind, file, enclosing function, ranged expression
    text and the hash of the loop body (the comment above each row is the body) ↦ class.  A `notAMap` row
    (the ranged value is a slice / iterator of an opaque third-party type, so its order is fixed whatever the
    body does) carries hash 0 and matches any body.  Rows for both the
    pre-fix and the post-fix bodies of `replaceVariables` and `DeleteField` are listed. -/
def siteTable : List (String × String × String × String × Nat × LoopClass) := [
  -- 
  ("globalwrite", "d2renderers/d2fonts/d2fonts_common.go", "AddFontFamily", "FontEncodings.Set", 0, .guardedRegistry),
  -- 
  ("globalwrite", "d2renderers/d2fonts/d2fonts_common.go", "AddFontFamily", "FontFaces.Set", 0, .guardedRegistry),
  -- 
  ("globalwrite", "d2renderers/d2fonts/d2fonts_common.go", "AddFontFamily", "FontFamilies", 0, .guardedRegistry),
  -- 
  ("globalwrite", "d2renderers/d2fonts/d2fonts_common.go", "AddFontStyle", "FontEncodings.Set", 0, .guardedRegistry),
  -- 
  ("globalwrite", "d2renderers/d2fonts/d2fonts_common.go", "AddFontStyle", "FontFaces.Set", 0, .guardedRegistry),
  -- { CompositeReservedKeywords[k] = v }
  ("range", "d2ast/keywords.go", "init", "BoardKeywords", 4207951616, .initOnly),
  -- { ReservedKeywords[k] = v }
  ("range", "d2ast/keywords.go", "init", "CompositeReservedKeywords", 1876809181, .initOnly),
  -- { CompositeReservedKeywords[k] = v }
  ("range", "d2ast/keywords.go", "init", "ReservedKeywordHolders", 4207951616, .initOnly),
  -- { ReservedKeywords[k] = v }
  ("range", "d2ast/keywords.go", "init", "SimpleReservedKeywords", 1876809181, .initOnly),
  -- { ReservedKeywords[k] = v }
  ("range", "d2ast/keywords.go", "init", "StyleKeywords", 1876809181, .initOnly),
  -- { FullToShortLanguageAliases[v] = k }
  ("range", "d2compiler/compile.go", "init", "ShortToFullLanguageAliases", 508701891, .initOnly),
  -- { if otherChild, exists := other.Children[childID]; exists { if err := CompareSerializedObject(objCh
  ("range", "d2graph/serde.go", "CompareSerializedObject", "obj.Children", 1085625640, .existsTest),
  -- { variables[f.Name.ScalarString()+"."+k] = v }
  ("range", "d2ir/compile.go", "compiler.collectVariables", "nestedVars", 3930155999, .mapCopy),
  -- { g.appliedEdges[k] = v }
  ("range", "d2ir/compile.go", "globContext.copyApplied", "from.appliedEdges", 88801217, .mapCopy),
  -- { g.appliedFields[k] = v }
  ("range", "d2ir/compile.go", "globContext.copyApplied", "from.appliedFields", 490804488, .mapCopy),
  -- { if parent != nil && parent.Name.ScalarString() == keywordHolder && parent.Name.IsUnquoted() && len
  ("range", "d2ir/d2ir.go", "Map.DeleteField", "d2ast.ReservedKeywordHolders", 539688930, .singleEntry),
  -- { if parent != nil && … && parent.Map() != nil && len(parent.Map().Fields) == 0 { … } }  (after ce5d5947e)
  ("range", "d2ir/d2ir.go", "Map.DeleteField", "d2ast.ReservedKeywordHolders", 1065775602, .singleEntry),
  -- { if parent != nil && parent.Name.ScalarString() == keywordHolder && parent.Name.IsUnquoted() && len
  ("range", "d2ir/d2ir.go", "Map.DeleteField", "d2ast.ReservedKeywordHolders", 1073460064, .singleEntry),
  -- { prevMarginBottom[o] = math.Max(prevMarginBottom[o], margin.Bottom) }
  ("range", "d2layouts/d2dagrelayout/layout.go", "adjustCrossRankSpacing", "increased", 1307405290, .perKeyUpdate),
  -- { prevMarginLeft[o] = math.Max(prevMarginLeft[o], margin.Left) }
  ("range", "d2layouts/d2dagrelayout/layout.go", "adjustCrossRankSpacing", "increased", 1387967640, .perKeyUpdate),
  -- { prevMarginRight[o] = math.Max(prevMarginRight[o], margin.Right) }
  ("range", "d2layouts/d2dagrelayout/layout.go", "adjustCrossRankSpacing", "increased", 2935389315, .perKeyUpdate),
  -- { prevMarginTop[o] = math.Max(prevMarginTop[o], margin.Top) }
  ("range", "d2layouts/d2dagrelayout/layout.go", "adjustCrossRankSpacing", "increased", 4151948480, .perKeyUpdate),
  -- { endingAdjustmentOrder = append(endingAdjustmentOrder, ancestor) }
  ("range", "d2layouts/d2dagrelayout/layout.go", "adjustRankSpacing", "endingAncestorPositions", 4290727626, .keysSortByValue),
  -- { startingAdjustmentOrder = append(startingAdjustmentOrder, ancestor) }
  ("range", "d2layouts/d2dagrelayout/layout.go", "adjustRankSpacing", "startingAncestorPositions", 3614111832, .keysSortByValue),
  -- { levels = append(levels, l) }
  ("range", "d2layouts/d2dagrelayout/layout.go", "getRanks", "alignedObjects", 1146568661, .keysThenSort),
  -- { movedObjects = append(movedObjects, obj) }
  ("range", "d2layouts/d2dagrelayout/layout.go", "shiftReachableDown", "grown", 3084545254, .collectUnordered),
  -- { if o.Parent == g.Root { continue } if _, in := shifted[o.Parent]; in { continue } if _, in := grow
  ("range", "d2layouts/d2dagrelayout/layout.go", "shiftReachableDown", "seen", 3723251128, .setInsert),
  -- { movedObjects = append(movedObjects, obj) }
  ("range", "d2layouts/d2dagrelayout/layout.go", "shiftReachableDown", "shifted", 3084545254, .collectUnordered),
  -- { width := elkNodes[k.obj].Width spacing := width / float64(len(ports)+1) for i, p := range ports { 
  ("range", "d2layouts/d2elklayout/layout.go", "Layout", "ports", 1799645999, .perKeyUpdate),
  -- { for _, e := range parent.Graph.Edges { if e.Src == e.Dst && e.Src == ch && e.Label.Value != "" { i
  ("range", "d2layouts/d2elklayout/layout.go", "childrenMaxSelfLoop", "parent.Children", 4230178481, .maxAccum),
  -- { delete(container.Children, k) }
  ("range", "d2layouts/d2layouts.go", "ExtractSubgraph", "container.Children", 84763172, .deleteEach),
  -- { SHAPE_TYPE_TO_DSL_SHAPE[v] = k }
  ("range", "d2target/d2target.go", "init", "DSL_SHAPE_TO_SHAPE_TYPE", 3584158643, .initOnly),
  -- { mapping[r] = glyph{ dot: geo.NewPoint( i2f(fg.dot.X), bounds.br.Y-(i2f(fg.dot.Y)-bounds.tl.Y), ), 
  ("range", "lib/textmeasure/atlas.go", "NewAtlas", "fixedMapping", 1673400188, .mapCopy),
  -- { keys = append(keys, k) }
  ("range", "lib/textmeasure/substitutions.go", "replaceVariables", "vars", 2485290914, .keysThenSort),
  -- { s = strings.ReplaceAll(s, "${"+k+"}", v) }
  ("range", "lib/textmeasure/substitutions.go", "replaceVariables", "vars", 4189001423, .sequentialReplace),
  -- { entry := style.Get(t) if entry.IsZero() { continue } converted[t] = svg.StyleEntryToSVG(entry) }
  ("range?", "d2renderers/d2svg/code.go", "styleToSVG", "chroma.StandardTypes", 3015735483, .mapCopy),
  -- { fmt.Fprintf(writer, "<text class=\"text-mono\" x=\"0\" y=\"%fem\">", 1+float64(index)*lineHeight) 
  ("range?", "d2renderers/d2svg/d2svg.go", "drawConnection", "chroma.SplitTokensIntoLines(iterator.Tokens())", 0, .notAMap),
  -- { text := svgEscaper.Replace(token.String()) attr := styleAttr(svgStyles, token.Type) if attr != "" 
  ("range?", "d2renderers/d2svg/d2svg.go", "drawConnection", "tokens", 0, .notAMap),
  -- { fmt.Fprintf(writer, "<text class=\"text-mono\" x=\"0\" y=\"%fem\">", 1+float64(index)*lineHeight) 
  ("range?", "d2renderers/d2svg/d2svg.go", "drawShape", "chroma.SplitTokensIntoLines(iterator.Tokens())", 0, .notAMap),
  -- { text := svgEscaper.Replace(token.String()) attr := styleAttr(svgStyles, token.Type) if attr != "" 
  ("range?", "d2renderers/d2svg/d2svg.go", "drawShape", "tokens", 0, .notAMap),
  -- { args[i] = arg.Export() }
  ("range?", "lib/jsrunner/goja.go", "gojaRunner.createConsole", "call.Arguments", 0, .notAMap),
  -- { var control bool dot, control = t.controlRune(r, dot, font) if control { continue } var bounds *re
  ("range?", "lib/textmeasure/textmeasure.go", "Ruler.scaleUnicode", "gr.Runes()", 0, .notAMap)
]

def classify (s : Site) : Option LoopClass :=
  (siteTable.find? fun e => e.1 == s.kind && e.2.1 == s.file && e.2.2.1 == s.fn && e.2.2.2.1 == s.expr
      && (e.2.2.2.2.1 == s.bh || (e.2.2.2.2.1 == 0 && e.2.2.2.2.2 == .notAMap))).map (·.2.2.2.2.2)

/-- classes for which an order-independence lemma above (or `noninterference`) applies unconditionally -/
def LoopClass.orderFree : LoopClass → Bool
  | .keysSortByValue => false      -- determined only up to ties
  | .collectUnordered => false     -- relies on the reading that the consumer is order-insensitive
  | .sequentialReplace => false    -- order-dependent when a replacement text contains another pattern
  | _ => true

def sitesOf (g : String) : List Site := mapRangeSites.filter (·.group == g)

end D2V.Fold
