import D2V.Model.Grid
import D2V.Proofs.GridLines
import Mathlib.Tactic.Linarith
import Mathlib.Tactic.NormNum
import Mathlib.Tactic.Ring
import Mathlib.Tactic.FieldSimp
import Mathlib.Tactic.Positivity
/-! Helper development for C22: `layoutDynamic`'s "expand the thinnest objects" block (`growLine`). -/
namespace D2V.Grid

def sumM (l : List Sz) : Rat := (l.map (·.m)).sum

theorem addUp_eq_sum (g : Rat) (ws : List Rat) (x : Rat) : addUp g ws x = x + ws.sum + (ws.length : Rat) * g := by
  induction ws generalizing x with
  | nil => simp [addUp]
  | cons w r ih =>
    simp only [addUp, List.foldl_cons] at ih ⊢
    rw [ih]
    simp only [List.sum_cons, List.length_cons]
    push_cast
    ring

theorem lineLen_sum (gm : Rat) (line : List Sz) : lineLen gm line = sumM line + (line.length : Rat) * gm - gm := by
  rw [lineLen_eq, addUp_eq_sum]; simp [sumM]

theorem foldl_maxM_ge (l : List Sz) (x : Rat) :
    x ≤ l.foldl (fun m s => max m s.m) x ∧ ∀ s ∈ l, s.m ≤ l.foldl (fun m s => max m s.m) x := by
  induction l generalizing x with
  | nil => simp
  | cons s r ih =>
    simp only [List.foldl_cons]
    obtain ⟨h1, h2⟩ := ih (max x s.m)
    refine ⟨le_trans (le_max_left _ _) h1, ?_⟩
    intro t ht
    rcases List.mem_cons.mp ht with rfl | ht
    · exact le_trans (le_max_right _ _) h1
    · exact h2 t ht

/-- `totalDiff` as a sum -/
theorem foldl_diff_sum (W : Rat) (l : List Sz) (x : Rat) :
    l.foldl (fun t s => t + (W - s.m)) x = x + (l.length : Rat) * W - sumM l := by
  induction l generalizing x with
  | nil => simp [sumM]
  | cons s r ih =>
    simp only [List.foldl_cons]
    rw [ih]
    simp only [sumM, List.map_cons, List.sum_cons, List.length_cons]
    push_cast
    ring

theorem sumM_map_scale (W k : Rat) (l : List Sz) :
    sumM (l.map fun s => (⟨s.m + (W - s.m) * k, s.c⟩ : Sz)) = sumM l + k * ((l.length : Rat) * W - sumM l) := by
  induction l with
  | nil => simp [sumM]
  | cons s r ih =>
    simp only [sumM, List.map_cons, List.sum_cons, List.length_cons] at ih ⊢
    rw [ih]
    push_cast
    ring

theorem sumM_map_add (g : Rat) (l : List Sz) :
    sumM (l.map fun s => (⟨s.m + g, s.c⟩ : Sz)) = sumM l + (l.length : Rat) * g := by
  induction l with
  | nil => simp [sumM]
  | cons s r ih =>
    simp only [sumM, List.map_cons, List.sum_cons, List.length_cons] at ih ⊢
    rw [ih]
    push_cast
    ring

/-- the two steps of `growLine` written with one scale factor `k` and one additive growth `g` -/
theorem growLine_form (gm mx : Rat) (line : List Sz) :
    ∃ k g : Rat, growLine gm mx line = (line.map fun s => (⟨s.m + (line.foldl (fun m s => max m s.m) 0 - s.m) * k, s.c⟩ : Sz)).map
        (fun s => (⟨s.m + g, s.c⟩ : Sz)) ∧
      (lineLen gm line ≤ mx → 0 ≤ k ∧ 0 ≤ g) ∧
      (lineLen gm line ≤ mx → line ≠ [] →
        k * ((line.length : Rat) * line.foldl (fun m s => max m s.m) 0 - sumM line) + (line.length : Rat) * g = mx - lineLen gm line) := by
  have hid : ∀ l : List Sz, (l.map fun s => (⟨s.m + (line.foldl (fun m s => max m s.m) 0 - s.m) * 0, s.c⟩ : Sz)).map
      (fun s => (⟨s.m + 0, s.c⟩ : Sz)) = l := by
    intro l; induction l with
    | nil => rfl
    | cons s r ih => simp only [List.map_cons, ih]; simp
  have htot := foldl_diff_sum (line.foldl (fun m s => max m s.m) 0) line 0
  have htot_nn : 0 ≤ line.foldl (fun t s => t + (line.foldl (fun m s => max m s.m) 0 - s.m)) 0 := by
    suffices h : ∀ (l : List Sz) (x : Rat), 0 ≤ x → (∀ s ∈ l, s.m ≤ line.foldl (fun m s => max m s.m) 0) →
        0 ≤ l.foldl (fun t s => t + (line.foldl (fun m s => max m s.m) 0 - s.m)) x from
      h line 0 (le_refl _) (foldl_maxM_ge line 0).2
    intro l
    induction l with
    | nil => intro x hx _; simpa using hx
    | cons s r ih =>
      intro x hx hs
      simp only [List.foldl_cons]
      apply ih
      · have := hs s List.mem_cons_self; linarith
      · exact fun t ht => hs t (List.mem_cons_of_mem _ ht)
  unfold growLine
  simp only
  by_cases heq : lineLen gm line = mx
  · refine ⟨0, 0, ?_, fun _ => ⟨le_refl _, le_refl _⟩, ?_⟩
    · rw [if_pos heq, hid]
    · intro _ _; rw [heq]; ring
  · rw [if_neg heq]
    set W := line.foldl (fun m s => max m s.m) 0 with hW
    set total := line.foldl (fun t s => t + (W - s.m)) 0 with htotal
    by_cases ht : total > 0
    · rw [if_pos ht]
      have hmap : (line.map fun s => (⟨s.m + (W - s.m) / total * min (mx - lineLen gm line) total, s.c⟩ : Sz))
          = line.map fun s => (⟨s.m + (W - s.m) * (min (mx - lineLen gm line) total / total), s.c⟩ : Sz) := by
        apply List.map_congr_left
        intro s _
        have : (W - s.m) / total * min (mx - lineLen gm line) total = (W - s.m) * (min (mx - lineLen gm line) total / total) := by
          field_simp
        rw [this]
      rw [hmap]
      by_cases hd : mx - lineLen gm line > total
      · rw [if_pos hd]
        refine ⟨min (mx - lineLen gm line) total / total, (mx - lineLen gm line - total) / (line.length : Rat), rfl, ?_, ?_⟩
        · intro _
          have : 0 ≤ min (mx - lineLen gm line) total := le_min (by linarith) (le_of_lt ht)
          exact ⟨div_nonneg this (le_of_lt ht), div_nonneg (by linarith) (by positivity)⟩
        · intro _ hne
          have hlen : (line.length : Rat) ≠ 0 := by
            have : line.length ≠ 0 := fun h => hne (List.length_eq_zero_iff.mp h)
            exact_mod_cast this
          have hmin : min (mx - lineLen gm line) total = total := min_eq_right (le_of_lt hd)
          rw [hmin]
          have ht' : total ≠ 0 := ne_of_gt ht
          have e1 : (line.length : Rat) * W - sumM line = total := by rw [htot]; ring
          rw [e1]
          field_simp
          ring
      · rw [if_neg hd]
        refine ⟨min (mx - lineLen gm line) total / total, 0, ?_, ?_, ?_⟩
        · have : ∀ l : List Sz, l.map (fun s => (⟨s.m + 0, s.c⟩ : Sz)) = l := by
            intro l; induction l with
            | nil => rfl
            | cons s r ih => simp only [List.map_cons, ih]; simp
          rw [this]
        · intro hle
          have : 0 ≤ min (mx - lineLen gm line) total := le_min (by linarith) (le_of_lt ht)
          exact ⟨div_nonneg this (le_of_lt ht), le_refl _⟩
        · intro _ _
          have hmin : min (mx - lineLen gm line) total = mx - lineLen gm line := min_eq_left (not_lt.mp hd)
          rw [hmin]
          have ht' : total ≠ 0 := ne_of_gt ht
          have e1 : (line.length : Rat) * W - sumM line = total := by rw [htot]; ring
          rw [e1]
          field_simp
          ring
    · rw [if_neg ht]
      have ht0 : total = 0 := le_antisymm (not_lt.mp ht) htot_nn
      have hmap0 : ∀ l : List Sz, (l.map fun s => (⟨s.m + (W - s.m) * 0, s.c⟩ : Sz)) = l := by
        intro l; induction l with
        | nil => rfl
        | cons s r ih => simp only [List.map_cons, ih]; simp
      by_cases hd : mx - lineLen gm line > total
      · rw [if_pos hd]
        refine ⟨0, (mx - lineLen gm line - total) / (line.length : Rat), by rw [hmap0], ?_, ?_⟩
        · intro _; exact ⟨le_refl _, div_nonneg (by linarith) (by positivity)⟩
        · intro _ hne
          have hlen : (line.length : Rat) ≠ 0 := by
            have : line.length ≠ 0 := fun h => hne (List.length_eq_zero_iff.mp h)
            exact_mod_cast this
          rw [ht0]
          field_simp
          ring
      · rw [if_neg hd]
        refine ⟨0, 0, by rw [hid], fun _ => ⟨le_refl _, le_refl _⟩, ?_⟩
        intro hle _
        -- delta ≤ total = 0 and delta ≥ 0 and delta ≠ 0: impossible
        exfalso
        have : mx - lineLen gm line ≤ 0 := by rw [← ht0]; exact not_lt.mp hd
        exact heq (by linarith)

theorem growLine_length (gm mx : Rat) (line : List Sz) : (growLine gm mx line).length = line.length := by
  obtain ⟨k, g, h, _, _⟩ := growLine_form gm mx line
  rw [h]; simp

/-- growing never shrinks a cell along the line and never changes it across -/
theorem growLine_ge (gm mx : Rat) (line : List Sz) (hle : lineLen gm line ≤ mx) (i : Nat) (s t : Sz)
    (hs : line[i]? = some s) (ht : (growLine gm mx line)[i]? = some t) : s.m ≤ t.m ∧ t.c = s.c := by
  obtain ⟨k, g, h, hnn, _⟩ := growLine_form gm mx line
  obtain ⟨hk, hg⟩ := hnn hle
  rw [h] at ht
  simp only [List.getElem?_map, hs, Option.map_some, Option.some.injEq] at ht
  subst ht
  have hW : s.m ≤ line.foldl (fun m s => max m s.m) 0 := (foldl_maxM_ge line 0).2 s (List.mem_of_getElem? hs)
  refine ⟨?_, rfl⟩
  have : 0 ≤ (line.foldl (fun m s => max m s.m) 0 - s.m) * k := mul_nonneg (by linarith) hk
  simp only
  linarith

theorem growLine_nonneg (gm mx : Rat) (line : List Sz) (hle : lineLen gm line ≤ mx) (hnn : ∀ s ∈ line, 0 ≤ s.m) :
    ∀ t ∈ growLine gm mx line, 0 ≤ t.m := by
  intro t ht
  obtain ⟨i, hi, rfl⟩ := List.mem_iff_getElem.mp ht
  have hi' : i < line.length := by rw [growLine_length] at hi; exact hi
  have := growLine_ge gm mx line hle i line[i] _ (List.getElem?_eq_getElem hi') (List.getElem?_eq_getElem hi)
  have h0 := hnn line[i] (List.getElem_mem hi')
  linarith [this.1]

/-- **dynamic_rows_equal_width** (one line): after growing, a non-empty line is exactly as long as the longest one -/
theorem growLine_len (gm mx : Rat) (line : List Sz) (hle : lineLen gm line ≤ mx) (hne : line ≠ []) :
    lineLen gm (growLine gm mx line) = mx := by
  obtain ⟨k, g, h, _, hsum⟩ := growLine_form gm mx line
  have e := hsum hle hne
  rw [lineLen_sum, h, sumM_map_add, sumM_map_scale]
  simp only [List.length_map]
  rw [lineLen_sum] at e
  linarith

theorem maxLen_ge (gm : Rat) (lines : List (List Sz)) : 0 ≤ maxLen gm lines ∧ ∀ l ∈ lines, lineLen gm l ≤ maxLen gm lines := by
  unfold maxLen
  suffices h : ∀ (ls : List (List Sz)) (x : Rat), x ≤ ls.foldl (fun m l => max m (lineLen gm l)) x ∧
      ∀ l ∈ ls, lineLen gm l ≤ ls.foldl (fun m l => max m (lineLen gm l)) x from h lines 0
  intro ls
  induction ls with
  | nil => intro x; simp
  | cons l r ih =>
    intro x
    simp only [List.foldl_cons]
    obtain ⟨h1, h2⟩ := ih (max x (lineLen gm l))
    refine ⟨le_trans (le_max_left _ _) h1, ?_⟩
    intro l' hl'
    rcases List.mem_cons.mp hl' with rfl | hl'
    · exact le_trans (le_max_right _ _) h1
    · exact h2 l' hl'

end D2V.Grid
