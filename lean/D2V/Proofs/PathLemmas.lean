import D2V.Model.Path
/-! Lemmas about the Path model on cleaned absolute paths made of ordinary elements (shared by C34 and C35). -/
namespace D2V.Path

def NoSlash (a : Str) : Prop := '/' ∉ a

/-- an ordinary path element: non-empty, no '/', not "." and not ".." -/
def Normal (c : Str) : Prop := c ≠ [] ∧ NoSlash c ∧ c ≠ dot ∧ c ≠ dotdot

theorem consHead_splitSlash (c : Char) (s : Str) : ∃ h t, splitSlash s = h :: t := by
  cases s with
  | nil => exact ⟨[], [], rfl⟩
  | cons d r =>
    simp only [splitSlash]
    split
    · exact ⟨_, _, rfl⟩
    · obtain ⟨h, t, ht⟩ := consHead_splitSlash d r
      rw [ht]; exact ⟨_, _, rfl⟩

theorem splitSlash_noSlash : ∀ (a : Str), NoSlash a → splitSlash a = [a]
  | [], _ => rfl
  | c :: r, h => by
    have hc : c ≠ '/' := by intro e; apply h; simp [e]
    have hr : NoSlash r := by intro e; apply h; simp [e]
    simp [splitSlash, hc, splitSlash_noSlash r hr, consHead]

theorem splitSlash_append : ∀ (a b : Str), NoSlash a → splitSlash (a ++ '/' :: b) = a :: splitSlash b
  | [], b, _ => by simp [splitSlash]
  | c :: r, b, h => by
    have hc : c ≠ '/' := by intro e; apply h; simp [e]
    have hr : NoSlash r := by intro e; apply h; simp [e]
    simp [splitSlash, hc, splitSlash_append r b hr, consHead]

theorem splitSlash_inter_append : ∀ (P : List Str) (b : Str), (∀ c ∈ P, NoSlash c) → P ≠ [] →
    splitSlash (inter P ++ '/' :: b) = P ++ splitSlash b
  | [], _, _, h => absurd rfl h
  | [a], b, hP, _ => by
    simp only [inter, List.singleton_append]
    exact splitSlash_append a b (hP a (by simp))
  | a :: a2 :: r, b, hP, _ => by
    have ha := hP a (by simp)
    have : inter (a :: a2 :: r) ++ '/' :: b = a ++ '/' :: (inter (a2 :: r) ++ '/' :: b) := by
      simp [inter, List.append_assoc]
    rw [this, splitSlash_append _ _ ha,
      splitSlash_inter_append (a2 :: r) b (fun c hc => hP c (by simp [hc])) (by simp)]
    simp

theorem splitSlash_inter : ∀ (P : List Str), (∀ c ∈ P, NoSlash c) → P ≠ [] → splitSlash (inter P) = P
  | [], _, h => absurd rfl h
  | [a], hP, _ => splitSlash_noSlash a (hP a (by simp))
  | a :: a2 :: r, hP, _ => by
    have ha := hP a (by simp)
    have : inter (a :: a2 :: r) = a ++ '/' :: inter (a2 :: r) := by simp [inter]
    rw [this, splitSlash_append _ _ ha, splitSlash_inter (a2 :: r) (fun c hc => hP c (by simp [hc])) (by simp)]

theorem cleanStep_normal (r : Bool) (st : List Str) (c : Str) (h : Normal c) : cleanStep r st c = c :: st := by
  obtain ⟨h1, _, h3, h4⟩ := h
  simp [cleanStep, h1, h3, h4]

theorem foldl_cleanStep_normal (r : Bool) : ∀ (Q st : List Str), (∀ c ∈ Q, Normal c) →
    Q.foldl (cleanStep r) st = Q.reverse ++ st
  | [], st, _ => by simp
  | c :: q, st, h => by
    rw [List.foldl_cons, cleanStep_normal r st c (h c (by simp)),
      foldl_cleanStep_normal r q (c :: st) (fun x hx => h x (by simp [hx]))]
    simp

theorem inter_ne_nil_of_normal : ∀ (P : List Str), (∀ c ∈ P, Normal c) → P ≠ [] → inter P ≠ []
  | [], _, h => absurd rfl h
  | [a], hP, _ => (hP a (by simp)).1
  | a :: a2 :: r, hP, _ => by
    have := (hP a (by simp)).1
    simp [inter, this]

/-- `Join(/p1/…/pk, n) = /p1/…/pk/n` for ordinary elements -/
theorem join_abs_normal (P : List Str) (n : Str) (hP : ∀ c ∈ P, Normal c) (hne : P ≠ []) (hn : Normal n) :
    join ['/' :: inter P, n] = '/' :: inter (P ++ [n]) := by
  have hPs : ∀ c ∈ P, NoSlash c := fun c hc => (hP c hc).2.1
  have e1 : inter ['/' :: inter P, n] = '/' :: (inter P ++ '/' :: n) := by simp [inter]
  have hsplit : splitSlash ('/' :: (inter P ++ '/' :: n)) = [] :: (P ++ [n]) := by
    simp only [splitSlash, if_true]
    rw [splitSlash_inter_append P n hPs hne, splitSlash_noSlash n hn.2.1]
  have hall : ∀ c ∈ P ++ [n], Normal c := by
    intro c hc
    rcases List.mem_append.mp hc with h | h
    · exact hP c h
    · simp at h; subst h; exact hn
  simp only [join, List.cons_ne_nil, if_false]
  rw [e1]
  simp only [clean, List.cons_ne_nil, if_false, isRooted, beq_self_eq_true, cleanComps, hsplit, List.foldl_cons]
  have h0 : cleanStep true [] [] = [] := by simp [cleanStep]
  rw [h0, foldl_cleanStep_normal true _ _ hall]
  simp [render]

/-- an extension as `filepath.Ext` returns it for a file name: a dot followed by characters other than '.' and '/' -/
def GoodExt (e : Str) : Prop := ∃ e', e = '.' :: e' ∧ '.' ∉ e' ∧ '/' ∉ e'

theorem takeWhile_append_all {p : Char → Bool} : ∀ (a b : Str), (∀ c ∈ a, p c = true) →
    (a ++ b).takeWhile p = a ++ b.takeWhile p
  | [], _, _ => rfl
  | c :: r, b, h => by
    have hc := h c (by simp)
    simp [List.takeWhile, hc, takeWhile_append_all r b (fun x hx => h x (by simp [hx]))]

theorem takeWhile_append_stop {p : Char → Bool} : ∀ (a : Str) (d : Char) (b : Str), (∀ c ∈ a, p c = true) → p d = false →
    (a ++ d :: b).takeWhile p = a
  | [], d, b, _, hd => by simp [List.takeWhile, hd]
  | c :: r, d, b, h, hd => by
    have hc := h c (by simp)
    simp [List.takeWhile, hc, takeWhile_append_stop r d b (fun x hx => h x (by simp [hx])) hd]

theorem ext_append (X e : Str) (he : GoodExt e) : ext (X ++ e) = e := by
  obtain ⟨e', rfl, hd, hs⟩ := he
  have hrev : (X ++ '.' :: e').reverse = e'.reverse ++ '.' :: X.reverse := by simp
  have hall : ∀ c ∈ e'.reverse ++ ['.'], (decide (c ≠ '/')) = true := by
    intro c hc
    simp only [List.mem_append, List.mem_reverse, List.mem_singleton] at hc
    rcases hc with h | h
    · simp; intro e; subst e; exact hs h
    · subst h; decide
  have hseg : lastElemRev (X ++ '.' :: e') = e'.reverse ++ '.' :: (X.reverse.takeWhile (· ≠ '/')) := by
    unfold lastElemRev
    rw [hrev]
    have : e'.reverse ++ '.' :: X.reverse = (e'.reverse ++ ['.']) ++ X.reverse := by simp
    rw [this, takeWhile_append_all _ _ hall]
    simp
  unfold ext
  simp only [hseg]
  have hc : (e'.reverse ++ '.' :: List.takeWhile (fun x => decide (x ≠ '/')) X.reverse).contains '.' = true := by
    simp
  rw [if_pos hc]
  have hall2 : ∀ c ∈ e'.reverse, (decide (c ≠ '.')) = true := by
    intro c hc
    simp only [List.mem_reverse] at hc
    simp; intro e; subst e; exact hd hc
  rw [takeWhile_append_stop _ '.' _ hall2 (by decide)]
  simp

theorem trimSuffix_append (X e : Str) : trimSuffix (X ++ e) e = X := by
  unfold trimSuffix
  have h1 : e.length ≤ (X ++ e).length := by simp
  have h2 : (X ++ e).length - e.length = X.length := by simp
  simp [h2]

theorem stripExt_append (X e : Str) (he : GoodExt e) : stripExt (X ++ e) = X := by
  unfold stripExt
  rw [ext_append X e he, trimSuffix_append]

/-- `withSub` on an absolute path of ordinary elements with a good extension appends one element -/
theorem withSub_abs (P : List Str) (e n : Str) (hP : ∀ c ∈ P, Normal c) (hne : P ≠ []) (he : GoodExt e) (hn : Normal n) :
    withSub ('/' :: inter P ++ e) n = '/' :: inter (P ++ [n]) ++ e := by
  unfold withSub
  simp only
  rw [ext_append _ e he, trimSuffix_append, join_abs_normal P n hP hne hn]

end D2V.Path
