import D2V.Proofs.ParserSafety
/-! Crash-freedom, continued: the lexical layer tied together, edges, map keys, maps, arrays, values. -/
namespace D2V.Text
variable {c : Cfg} {ok : Crash → Prop}

section
variable (hf : ok .outOfFuel)
  (huq : ∀ (ps : P (Option T)), Safe c ok ps (fun _ => True) → ∀ b, Safe c ok (parseUnquotedStringWith ps b) (fun _ => True))
include hf huq

theorem safe_parseStringKey : Safe c ok parseStringKey (fun _ => True) := by
  unfold parseStringKey
  have hp : Safe c ok (Pure.pure none : P (Option T)) (fun _ => True) := safe_pure trivial
  exact safe_parseStringWith hf hp (huq _ hp) true

theorem safe_parseKey : Safe c ok parseKey (fun _ => True) := by
  unfold parseKey
  exact safe_parseKeyWith hf (safe_parseStringKey hf huq)

theorem safe_parseSubstitution (spread : Bool) : Safe c ok (parseSubstitution spread) (fun _ => True) := by
  unfold parseSubstitution
  exact safe_parseSubstitutionWith hf (safe_parseKey hf huq) spread

theorem safe_parseStringVal : Safe c ok parseStringVal (fun _ => True) := by
  unfold parseStringVal
  have hp := safe_parseSubstitution (c := c) hf huq false
  exact safe_parseStringWith hf hp (huq _ hp) false

set_option maxHeartbeats 4000000 in
theorem safe_parseImport (spread : Bool) : Safe c ok (parseImport spread) (fun _ => True) := by
  unfold parseImport
  have h1 := safe_parseKey (c := c) hf huq
  safe_auto

set_option maxHeartbeats 4000000 in
theorem safe_parseEdges (src : Option KP) : Safe c ok (parseEdges src) (fun _ => True) := by
  unfold parseEdges
  have h1 := safe_parseKey (c := c) hf huq
  have h2 := fun p => safe_parseEdge (c := c) hf p
  safe_auto

set_option maxHeartbeats 4000000 in
set_option maxHeartbeats 4000000 in
theorem safe_parseMapKeyValue {pv : P VBox} (hpv : Safe c ok pv (fun _ => True)) (mk : KeyRec) :
    Safe c ok (parseMapKeyValue pv mk) (fun _ => True) := by
  unfold parseMapKeyValue
  safe_auto

theorem safe_setEdgeGroup (b : Bool) : Safe c ok (setEdgeGroup b) (fun _ => True) := safe_modify fun _ => rfl

set_option maxHeartbeats 4000000 in
theorem safe_parseEdgeGroup {pv : P VBox} (hpv : Safe c ok pv (fun _ => True)) (mk : KeyRec) :
    Safe c ok (parseEdgeGroup pv mk) (fun _ => True) := by
  unfold parseEdgeGroup
  have h1 := safe_parseKey (c := c) hf huq
  have h2 := fun s => safe_parseEdges (c := c) hf huq s
  have h3 := safe_parseEdgeIndex (c := c) hf
  have h4 := fun m => safe_parseMapKeyValue (c := c) hf huq hpv m
  have h5 := fun b => safe_setEdgeGroup (c := c) hf huq b
  safe_auto

theorem safe_finishMapKey (mk : KeyRec) : Safe c ok (finishMapKey mk) (fun _ => True) := by
  unfold finishMapKey
  safe_auto

set_option maxHeartbeats 4000000 in
theorem safe_parseMapKey {pv : P VBox} (hpv : Safe c ok pv (fun _ => True)) :
    Safe c ok (parseMapKey pv) (fun _ => True) := by
  unfold parseMapKey
  have h1 := safe_parseKey (c := c) hf huq
  have h2 := fun s => safe_parseEdges (c := c) hf huq s
  have h3 := fun m => safe_parseEdgeGroup (c := c) hf huq hpv m
  have h4 := fun m => safe_parseMapKeyValue (c := c) hf huq hpv m
  have h5 := fun m => safe_finishMapKey (c := c) hf huq m
  safe_auto

set_option maxHeartbeats 4000000 in
theorem safe_parseNodePrefix (r : Char) : Safe c ok (parseNodePrefix r) (fun _ => True) := by
  unfold parseNodePrefix
  have h1 := safe_parseComment (c := c) hf
  have h2 := safe_parseBlockComment (c := c) hf
  have h3 := fun b => safe_parseSubstitution (c := c) hf huq b
  have h4 := fun b => safe_parseImport (c := c) hf huq b
  safe_auto

set_option maxHeartbeats 4000000 in
theorem safe_parseMapNode {pv : P VBox} (hpv : Safe c ok pv (fun _ => True)) (r : Char) (hr : r ≠ '\n') :
    Safe c ok (parseMapNode pv r) (fun _ => True) := by
  unfold parseMapNode
  have h1 := safe_parseNodePrefix (c := c) hf huq r
  have h2 := safe_parseMapKey (c := c) hf huq hpv
  safe_auto

set_option maxHeartbeats 4000000 in
theorem safe_parseMap {pv : P VBox} (hpv : Safe c ok pv (fun _ => True)) (isFileMap : Bool) :
    Safe c ok (parseMap pv isFileMap) (fun _ => True) := by
  unfold parseMap
  have h1 := fun r hr => safe_parseMapNode (c := c) hf huq hpv r hr
  have h2 := fun ch => safe_skipJunk (c := c) hf ch
  have hi := safe_incDepth (c := c) (ok := ok)
  have hd := safe_decDepth (c := c) (ok := ok)
  safe_auto

set_option maxHeartbeats 4000000 in
theorem safe_parseArrayNode {pv : P VBox} (hpv : Safe c ok pv (fun _ => True)) (r : Char) (hr : r ≠ '\n') :
    Safe c ok (parseArrayNode pv r) (fun _ => True) := by
  unfold parseArrayNode
  have h1 := safe_parseNodePrefix (c := c) hf huq r
  safe_auto

set_option maxHeartbeats 4000000 in
theorem safe_parseArray {pv : P VBox} (hpv : Safe c ok pv (fun _ => True)) :
    Safe c ok (parseArray pv) (fun _ => True) := by
  unfold parseArray
  have h1 := fun r hr => safe_parseArrayNode (c := c) hf huq hpv r hr
  have h2 := fun ch => safe_skipJunk (c := c) hf ch
  have hi := safe_incDepth (c := c) (ok := ok)
  have hd := safe_decDepth (c := c) (ok := ok)
  safe_auto

set_option maxHeartbeats 4000000 in
theorem safe_parseValueBody (isNum : String → Bool) {pv : P VBox} (hpv : Safe c ok pv (fun _ => True)) :
    Safe c ok (parseValueBody isNum pv) (fun _ => True) := by
  unfold parseValueBody
  have h1 := safe_parseArray (c := c) hf huq hpv
  have h2 := fun b => safe_parseMap (c := c) hf huq hpv b
  have h3 := fun b => safe_parseImport (c := c) hf huq b
  have h4 := safe_parseStringVal (c := c) hf huq
  refine safe_bind (by safe_prim) fun _ _ => ?_
  split
  · safe_auto
  · refine safe_ite (fun _ => ?_) (fun _ => ?_)
    · safe_auto
    · refine safe_bind (by safe_prim) fun _ _ => ?_
      refine safe_ite (fun _ => ?_) (fun _ => ?_)
      · safe_auto
      · refine safe_ite (fun _ => ?_) (fun _ => ?_)
        · safe_auto
        · refine safe_ite (fun _ => ?_) (fun _ => ?_)
          · safe_auto
          · refine safe_bind (by safe_prim) fun _ _ => ?_
            refine safe_bind (by safe_prim) fun _ _ => ?_
            split
            · safe_auto
            · refine safe_bind (by safe_prim) fun _ _ => ?_
              repeat' (first | exact safe_pure trivial | refine safe_ite (fun _ => ?_) (fun _ => ?_))

theorem safe_parseValueN (isNum : String → Bool) (n : Nat) : Safe c ok (parseValueN isNum n) (fun _ => True) := by
  induction n with
  | zero => exact safe_crash hf
  | succ n ih => exact safe_parseValueBody hf huq isNum ih

end
end D2V.Text
