/-
  Association-list lemma behind C40: looking a key up in `filterMap F rs`, where `F r` (when defined) is filed under
  the key of `r` and keys are pairwise distinct, finds exactly `F r`.
-/
namespace D2V.Edit

theorem find_filterMap_key {R K V : Type} [BEq K] [LawfulBEq K] (key : R → K) (F : R → Option (K × V))
    (hF : ∀ r kv, F r = some kv → kv.1 = key r) :
    ∀ (rs : List R), (rs.map key).Nodup → ∀ r ∈ rs, (rs.filterMap F).find? (fun kv => kv.1 == key r) = F r := by
  intro rs
  induction rs with
  | nil => intro _ r hr; cases hr
  | cons h t ih =>
    intro hnd r hr
    have hnd' : (t.map key).Nodup := (List.nodup_cons.mp (by simpa using hnd)).2
    have hnot : key h ∉ t.map key := (List.nodup_cons.mp (by simpa using hnd)).1
    -- no entry of `t.filterMap F` is filed under `key h`
    have hnone : ∀ (k : K), k ∉ t.map key → (t.filterMap F).find? (fun kv => kv.1 == k) = none := by
      intro k hk
      rw [List.find?_eq_none]
      intro kv hkv
      rcases List.mem_filterMap.mp hkv with ⟨r', hr', hFr'⟩
      have : kv.1 = key r' := hF r' kv hFr'
      intro hbeq
      have : kv.1 = k := by simpa using hbeq
      apply hk
      rw [← this, ‹kv.1 = key r'›]
      exact List.mem_map.mpr ⟨r', hr', rfl⟩
    rcases List.mem_cons.mp hr with rfl | hrt
    · -- r is the head
      cases hFr : F r with
      | none => simp [List.filterMap_cons, hFr, hnone _ hnot]
      | some kv =>
        have hk : kv.1 = key r := hF r kv hFr
        simp [List.filterMap_cons, hFr, List.find?_cons, hk]
    · -- r in the tail: the head's entry, if any, has another key
      have hne : key h ≠ key r := by
        intro heq
        apply hnot
        rw [heq]
        exact List.mem_map.mpr ⟨r, hrt, rfl⟩
      cases hFh : F h with
      | none => simp [List.filterMap_cons, hFh, ih hnd' r hrt]
      | some kv =>
        have hk : kv.1 = key h := hF h kv hFh
        have : (kv.1 == key r) = false := by
          rw [hk]; exact beq_eq_false_iff_ne.mpr hne
        simp [List.filterMap_cons, hFh, List.find?_cons, this, ih hnd' r hrt]

end D2V.Edit
