import D2V.Model.Reader
/-!
The reader invariant (`reader_inv`).  For the rune list `input` handed to the parser:

  consumed ++ lookahead ++ readahead ++ rest = input,   pos = adv consumed,   lookaheadPos = adv (consumed ++ lookahead),
  readerPos = adv (some prefix of input)

is preserved by every reader operation executed under its discipline (`read`/`readNotSpace`/`replay` with an empty
lookahead; `replay r` with `r` the last consumed rune), for arbitrary sequences of operations, and `replay r` fails
exactly when `r` is the newline.
-/
namespace D2V.Text

def adv0 (u16 : Bool) (cs : List Char) : Pos := Pos.zero.advanceString cs u16

theorem adv0_snoc (u16 : Bool) (cs : List Char) (r : Char) : adv0 u16 (cs ++ [r]) = (adv0 u16 cs).advance r u16 := by
  simp [adv0, Pos.advanceString, List.foldl_append]

structure RInv (input : List Char) (s : PState) : Prop where
  split : s.consumed.reverse ++ s.lookahead ++ s.readahead ++ s.rest = input
  pos : s.pos = adv0 s.u16 s.consumed.reverse
  lpos : s.lookaheadPos = adv0 s.u16 (s.consumed.reverse ++ s.lookahead)
  rpos : ∃ k, s.readerPos = adv0 s.u16 (input.take k)

theorem rinv_init (u16 : Bool) (cfg : Cfg) (input : List Char) (fuel : Nat) :
    RInv input (PState.init u16 cfg input fuel) :=
  ⟨by simp [PState.init], rfl, rfl, ⟨0, rfl⟩⟩

theorem rewindS_u16 (s : PState) : (rewindS s).u16 = s.u16 := by unfold rewindS; split <;> rfl

theorem rinv_rewindS {input : List Char} {s : PState} (h : RInv input s) : RInv input (rewindS s) := by
  unfold rewindS
  split
  · exact h
  · refine ⟨?_, h.pos, ?_, h.rpos⟩
    · simpa [List.append_assoc] using h.split
    · simpa using h.pos

theorem take_length_append (xs ys : List Char) : (xs ++ ys).take xs.length = xs := by
  induction xs with
  | nil => simp
  | cons x xs ih => simp [ih]

/-- a prefix position: `consumed ++ lookahead` is a prefix of the input -/
theorem rinv_lpos_prefix {input : List Char} {s : PState} (h : RInv input s) :
    ∃ k, s.lookaheadPos = adv0 s.u16 (input.take k) := by
  refine ⟨(s.consumed.reverse ++ s.lookahead).length, ?_⟩
  rw [h.lpos, ← h.split, List.append_assoc (s.consumed.reverse ++ s.lookahead), take_length_append]

/-- what `_readRune` does to the invariant: the rune handed out is the next one after consumed ++ lookahead -/
theorem readRune_spec {input : List Char} {s : PState} (h : RInv input s) :
    (∃ s', readRune s = .ok (none, s') ∧ RInv input s') ∨
    (∃ r s', readRune s = .ok (some r, s') ∧ s'.u16 = s.u16 ∧ s'.consumed = s.consumed ∧ s'.lookahead = s.lookahead ∧
      s'.pos = s.pos ∧ s'.lookaheadPos = s.lookaheadPos ∧
      s.consumed.reverse ++ s.lookahead ++ (r :: (s'.readahead ++ s'.rest)) = input ∧
      (∃ k, s'.readerPos = adv0 s.u16 (input.take k))) := by
  unfold readRune
  cases hra : s.readahead with
  | cons r ra =>
    refine Or.inr ⟨r, _, rfl, rfl, rfl, rfl, rfl, rfl, ?_, h.rpos⟩
    have := h.split
    rw [hra] at this
    simpa [List.append_assoc] using this
  | nil =>
    simp only
    by_cases hio : s.ioerr = true
    · simp only [hio, if_true]
      exact Or.inl ⟨_, rfl, rinv_rewindS h⟩
    · simp only [hio]
      cases hrest : s.rest with
      | nil =>
        have hsp := h.split
        rw [hra, hrest] at hsp
        refine Or.inl ⟨_, rfl, rinv_rewindS ⟨by simpa using hsp, h.pos, h.lpos, rinv_lpos_prefix h⟩⟩
      | cons r rest =>
        refine Or.inr ⟨r, _, rfl, rfl, rfl, rfl, rfl, rfl, ?_, rinv_lpos_prefix h⟩
        have := h.split
        rw [hra, hrest] at this
        simpa [List.append_assoc] using this

/-- `peek` preserves the invariant -/
theorem rinv_peek {input : List Char} {s s' : PState} {o : Option Char} (h : RInv input s)
    (e : peek s = .ok (o, s')) : RInv input s' := by
  unfold peek at e
  rcases readRune_spec h with ⟨s1, h1, hi⟩ | ⟨r, s1, h1, hu, hc, hl, hp, hlp, hsplit, hrp⟩
  · simp [bind, P.bind, h1, pure, P.pure] at e
    rw [← e.2]; exact hi
  · simp [bind, P.bind, h1, pure, P.pure, modify] at e
    rw [← e.2]
    refine ⟨?_, ?_, ?_, ?_⟩
    · simpa [hc, hl, List.append_assoc] using hsplit
    · simp [hp, hc, hu, h.pos]
    · simp only [hlp, hc, hl, hu]
      rw [h.lpos, ← List.append_assoc, adv0_snoc]
    · simpa [hu] using hrp

/-- `read` preserves the invariant when nothing is peeked -/
theorem rinv_read {input : List Char} {s s' : PState} {o : Option Char} (h : RInv input s)
    (hg : s.lookahead = []) (e : read s = .ok (o, s')) : RInv input s' := by
  unfold read at e
  rcases readRune_spec h with ⟨s1, h1, hi⟩ | ⟨r, s1, h1, hu, hc, hl, hp, hlp, hsplit, hrp⟩
  · simp [bind, P.bind, h1, pure, P.pure] at e
    rw [← e.2]; exact hi
  · simp [bind, P.bind, h1, pure, P.pure, modify] at e
    rw [← e.2]
    refine ⟨?_, ?_, ?_, ?_⟩
    · simpa [hc, hl, hg, List.append_assoc] using hsplit
    · simp [hp, hc, hu, h.pos, adv0_snoc]
    · simp [hp, hc, hl, hg, hu, h.pos, adv0_snoc]
    · simpa [hu] using hrp

theorem rinv_commit {input : List Char} {s s' : PState} (h : RInv input s)
    (e : commit s = .ok ((), s')) : RInv input s' := by
  simp [commit, modify] at e
  rw [← e]
  exact ⟨by simpa [List.append_assoc] using h.split, by simpa using h.lpos, by simpa using h.lpos, h.rpos⟩

theorem rinv_rewind {input : List Char} {s s' : PState} (h : RInv input s)
    (e : rewind s = .ok ((), s')) : RInv input s' := by
  simp [rewind, modify] at e
  rw [← e]; exact rinv_rewindS h

/-- `replay r` under its discipline (nothing peeked, `r` is the rune consumed last) succeeds iff `r` is not the
    newline, and then restores the invariant with `r` un-consumed -/
theorem replay_ok_iff {s : PState} {r : Char} : (∃ s', replay r s = .ok ((), s')) ↔ r ≠ '\n' := by
  unfold replay Pos.subtract
  by_cases hr : r = '\n'
  · simp [hr]
  · simp [hr]

theorem rinv_replay {input : List Char} {s s' : PState} {r : Char} {tl : List Char} (h : RInv input s)
    (hg : s.lookahead = []) (hc : s.consumed = r :: tl) (e : replay r s = .ok ((), s')) : RInv input s' := by
  have hr : r ≠ '\n' := replay_ok_iff.mp ⟨s', e⟩
  unfold replay Pos.subtract at e
  simp only [hr, if_false] at e
  injection e with e
  injection e with _ e
  rw [← e]
  have hp : s.pos = (adv0 s.u16 tl.reverse).advance r s.u16 := by
    rw [h.pos, hc, List.reverse_cons, adv0_snoc]
  have hsub : (⟨s.pos.line, s.pos.col - runeSize s.u16 r, s.pos.byte - runeSize s.u16 r⟩ : Pos) = adv0 s.u16 tl.reverse := by
    rw [hp]
    simp [Pos.advance, hr]
  apply rinv_rewindS
  refine ⟨?_, ?_, ?_, h.rpos⟩
  · have := h.split
    rw [hc, hg] at this
    simpa [hg, hc, List.append_assoc] using this
  · simpa [hc] using hsub
  · -- lookaheadPos is stale here (rewindS resets it): it still is adv (consumed), and consumed = tl ++ [r]
    have := h.lpos
    rw [hc, hg] at this
    simpa [hc, hg] using this

/-- `p.pos.Subtract(c)` right after `c` was consumed is the position before `c`: again the advance over a prefix of
    the input (this is how every node's `Range.Start` is computed from its opening delimiter) -/
theorem subtract_last_consumed {input : List Char} {s : PState} {c : Char} {tl : List Char} (h : RInv input s)
    (hc : s.consumed = c :: tl) (hn : c ≠ '\n') :
    s.pos.subtract c s.u16 = .ok (adv0 s.u16 tl.reverse) ∧ ∃ k, adv0 s.u16 tl.reverse = adv0 s.u16 (input.take k) := by
  constructor
  · rw [h.pos, hc, List.reverse_cons, adv0_snoc]
    simp [Pos.advance, Pos.subtract, hn]
  · refine ⟨tl.reverse.length, ?_⟩
    have := h.split
    rw [hc, List.reverse_cons] at this
    rw [← this]
    simp only [List.append_assoc]
    rw [take_length_append]

/-! ### compound reader operations and arbitrary operation sequences -/

theorem read_lookahead {s s' : PState} {o : Option Char} (hg : s.lookahead = []) (e : read s = .ok (o, s')) :
    s'.lookahead = [] := by
  unfold read readRune at e
  cases hra : s.readahead with
  | cons r ra =>
    simp [bind, P.bind, hra, pure, P.pure, modify] at e
    rw [← e.2]; exact hg
  | nil =>
    by_cases hio : s.ioerr = true
    · simp [bind, P.bind, hra, hio, pure, P.pure, rewindS, hg] at e
      rw [← e.2]; exact hg
    · cases hrest : s.rest with
      | nil =>
        simp [bind, P.bind, hra, hio, hrest, pure, P.pure, rewindS, hg] at e
        rw [← e.2]
      | cons r rest =>
        simp [bind, P.bind, hra, hio, hrest, pure, P.pure, modify] at e
        rw [← e.2]; exact hg

theorem bind_ok {α β : Type} {f : P α} {g : α → P β} {s s' : PState} {b : β} (e : (f >>= g) s = .ok (b, s')) :
    ∃ a s1, f s = .ok (a, s1) ∧ g a s1 = .ok (b, s') := by
  simp only [bind, P.bind] at e
  cases hf : f s with
  | error c => simp [hf] at e
  | ok v => obtain ⟨a, s1⟩ := v; simp only [hf] at e; exact ⟨a, s1, rfl, e⟩

theorem pure_ok {α : Type} {a b : α} {s s' : PState} (e : (pure a : P α) s = .ok (b, s')) : a = b ∧ s = s' := by
  simp [pure, P.pure] at e; exact e

theorem rinv_peekn {input : List Char} (n : Nat) : ∀ {s s' : PState} {o : List Char × Bool}, RInv input s →
    peekn n s = .ok (o, s') → RInv input s' := by
  induction n with
  | zero =>
    intro s s' o h e
    unfold peekn at e
    rw [← (pure_ok e).2]; exact h
  | succ n ih =>
    intro s s' o h e
    unfold peekn at e
    obtain ⟨a, s1, hp, e⟩ := bind_ok e
    have h1 := rinv_peek h hp
    cases a with
    | none => rw [← (pure_ok e).2]; exact h1
    | some r =>
      obtain ⟨b, s2, hq, e⟩ := bind_ok e
      obtain ⟨b1, b2⟩ := b
      rw [← (pure_ok e).2]; exact ih h1 hq

def readNotSpaceBody : Unit → P (Unit ⊕ Option Char) := fun _ => do
  match ← read with
  | none => pure (.inr none)
  | some r => if isSpace r then pure (.inl ()) else pure (.inr (some r))

theorem readNotSpace_eq : readNotSpace = loop readNotSpaceBody () := rfl

theorem rinv_readNotSpaceN {input : List Char} (n : Nat) : ∀ {s s' : PState} {o : Option Char}, RInv input s →
    s.lookahead = [] → loopN n readNotSpaceBody () s = .ok (o, s') → RInv input s' ∧ s'.lookahead = [] := by
  induction n with
  | zero => intro s s' o _ _ e; simp [loopN, crash] at e
  | succ n ih =>
    intro s s' o h hg e
    unfold loopN at e
    obtain ⟨x, s1, hb, e⟩ := bind_ok e
    unfold readNotSpaceBody at hb
    obtain ⟨a, s0, hr, hb⟩ := bind_ok hb
    have h1 := rinv_read h hg hr
    have hg1 := read_lookahead hg hr
    cases a with
    | none =>
      obtain ⟨hx, hs⟩ := pure_ok hb
      subst hx; subst hs
      rw [← (pure_ok e).2]; exact ⟨h1, hg1⟩
    | some r =>
      by_cases hsp : isSpace r = true
      · simp only [hsp, if_true] at hb
        obtain ⟨hx, hs⟩ := pure_ok hb
        subst hx; subst hs
        exact ih h1 hg1 e
      · simp only [hsp] at hb
        obtain ⟨hx, hs⟩ := pure_ok hb
        subst hx; subst hs
        rw [← (pure_ok e).2]; exact ⟨h1, hg1⟩

theorem rinv_readNotSpace {input : List Char} {s s' : PState} {o : Option Char} (h : RInv input s)
    (hg : s.lookahead = []) (e : readNotSpace s = .ok (o, s')) : RInv input s' :=
  (rinv_readNotSpaceN s.fuel h hg e).1

def peekNotSpaceBody : Nat → P (Nat ⊕ Option (Char × Nat)) := fun newlines => do
  match ← peek with
  | none => pure (.inr none)
  | some r =>
    if isSpace r then pure (.inl (if r = '\n' then newlines + 1 else newlines))
    else pure (.inr (some (r, newlines)))

theorem peekNotSpace_eq : peekNotSpace = loop peekNotSpaceBody 0 := rfl

theorem rinv_peekNotSpaceN {input : List Char} (n : Nat) : ∀ {s s' : PState} {k : Nat} {o : Option (Char × Nat)},
    RInv input s → loopN n peekNotSpaceBody k s = .ok (o, s') → RInv input s' := by
  induction n with
  | zero => intro s s' k o _ e; simp [loopN, crash] at e
  | succ n ih =>
    intro s s' k o h e
    unfold loopN at e
    obtain ⟨x, s1, hb, e⟩ := bind_ok e
    unfold peekNotSpaceBody at hb
    obtain ⟨a, s0, hr, hb⟩ := bind_ok hb
    have h1 := rinv_peek h hr
    cases a with
    | none =>
      obtain ⟨hx, hs⟩ := pure_ok hb
      subst hx; subst hs
      rw [← (pure_ok e).2]; exact h1
    | some r =>
      by_cases hsp : isSpace r = true
      · simp only [hsp, if_true] at hb
        obtain ⟨hx, hs⟩ := pure_ok hb
        subst hx; subst hs
        exact ih h1 e
      · simp only [hsp] at hb
        obtain ⟨hx, hs⟩ := pure_ok hb
        subst hx; subst hs
        rw [← (pure_ok e).2]; exact h1

theorem rinv_peekNotSpace {input : List Char} {s s' : PState} {o : Option (Char × Nat)} (h : RInv input s)
    (e : peekNotSpace s = .ok (o, s')) : RInv input s' :=
  rinv_peekNotSpaceN s.fuel h e

/-! ### the two whitespace loops never exhaust the bound -/

def unread (s : PState) : Nat := s.readahead.length + s.rest.length

theorem readRune_measure (s : PState) :
    (∃ s', readRune s = .ok (none, s')) ∨ (∃ r s', readRune s = .ok (some r, s') ∧ unread s' + 1 = unread s) := by
  unfold readRune unread
  cases hra : s.readahead with
  | cons r ra => exact Or.inr ⟨r, _, rfl, by simp; omega⟩
  | nil =>
    simp only
    by_cases hio : s.ioerr = true
    · simp only [hio, if_true]; exact Or.inl ⟨_, rfl⟩
    · simp only [hio]
      cases hrest : s.rest with
      | nil => exact Or.inl ⟨_, rfl⟩
      | cons r rest => exact Or.inr ⟨r, _, rfl, by simp [hra]⟩

theorem peek_measure (s : PState) :
    (∃ s', peek s = .ok (none, s')) ∨ (∃ r s', peek s = .ok (some r, s') ∧ unread s' + 1 = unread s) := by
  unfold peek
  rcases readRune_measure s with ⟨s1, h1⟩ | ⟨r, s1, h1, hm⟩
  · exact Or.inl ⟨s1, by simp [bind, P.bind, h1, pure, P.pure]⟩
  · exact Or.inr ⟨r, { s1 with lookahead := s1.lookahead ++ [r], lookaheadPos := s1.lookaheadPos.advance r s1.u16 },
      by simp only [bind, P.bind, h1, pure, P.pure, modify], hm⟩

theorem read_measure (s : PState) :
    (∃ s', read s = .ok (none, s')) ∨ (∃ r s', read s = .ok (some r, s') ∧ unread s' + 1 = unread s) := by
  unfold read
  rcases readRune_measure s with ⟨s1, h1⟩ | ⟨r, s1, h1, hm⟩
  · exact Or.inl ⟨s1, by simp [bind, P.bind, h1, pure, P.pure]⟩
  · let p := s1.pos.advance r s1.u16
    let s2 : PState := { s1 with pos := p, lookaheadPos := p, consumed := r :: s1.consumed, guardOk := s1.guardOk && s1.lookahead.isEmpty }
    exact Or.inr ⟨r, s2, by simp only [bind, P.bind, h1, pure, P.pure, modify]; rfl, hm⟩

theorem peekNotSpaceN_ok (n : Nat) : ∀ (s : PState) (k : Nat), unread s < n →
    ∃ o s', loopN n peekNotSpaceBody k s = .ok (o, s') := by
  induction n with
  | zero => intro s k h; omega
  | succ n ih =>
    intro s k h
    unfold loopN peekNotSpaceBody
    rcases peek_measure s with ⟨s1, h1⟩ | ⟨r, s1, h1, hm⟩
    · exact ⟨none, s1, by simp [bind, P.bind, h1, pure, P.pure]⟩
    · by_cases hsp : isSpace r = true
      · obtain ⟨o, s', e⟩ := ih s1 (if r = '\n' then k + 1 else k) (by omega)
        exact ⟨o, s', by simp only [bind, P.bind, h1, hsp, if_true, pure, P.pure]; exact e⟩
      · exact ⟨some (r, k), s1, by simp [bind, P.bind, h1, hsp, pure, P.pure]⟩

theorem readNotSpaceN_ok (n : Nat) : ∀ (s : PState), unread s < n →
    ∃ o s', loopN n readNotSpaceBody () s = .ok (o, s') := by
  induction n with
  | zero => intro s h; omega
  | succ n ih =>
    intro s h
    unfold loopN readNotSpaceBody
    rcases read_measure s with ⟨s1, h1⟩ | ⟨r, s1, h1, hm⟩
    · exact ⟨none, s1, by simp [bind, P.bind, h1, pure, P.pure]⟩
    · by_cases hsp : isSpace r = true
      · obtain ⟨o, s', e⟩ := ih s1 (by omega)
        exact ⟨o, s', by simp only [bind, P.bind, h1, hsp, if_true, pure, P.pure]; exact e⟩
      · exact ⟨some r, s1, by simp [bind, P.bind, h1, hsp, pure, P.pure]⟩

/-- under the invariant the unread part is at most the input, so with the bound the entry points use
    (`fuelFor input = |input| + 4`) `peekNotSpace` and `readNotSpace` always return -/
theorem unread_le_input {input : List Char} {s : PState} (h : RInv input s) : unread s ≤ input.length := by
  have := congrArg List.length h.split
  simp only [List.length_append, List.length_reverse] at this
  unfold unread; omega

theorem peekNotSpace_terminates {input : List Char} {s : PState} (h : RInv input s) (hf : input.length < s.fuel) :
    ∃ o s', peekNotSpace s = .ok (o, s') :=
  peekNotSpaceN_ok s.fuel s 0 (Nat.lt_of_le_of_lt (unread_le_input h) hf)

theorem readNotSpace_terminates {input : List Char} {s : PState} (h : RInv input s) (hf : input.length < s.fuel) :
    ∃ o s', readNotSpace s = .ok (o, s') :=
  readNotSpaceN_ok s.fuel s (Nat.lt_of_le_of_lt (unread_le_input h) hf)

/-- the reader operations the parser is written in -/
inductive ROp where
  | read | peek | peekn (n : Nat) | readNotSpace | peekNotSpace | commit | rewind | replay (r : Char)

/-- an operation's effect on the state (the value it returns is dropped) -/
def ROp.run : ROp → PState → Except Crash PState
  | .read, s => (D2V.Text.read s).map (·.2)
  | .peek, s => (D2V.Text.peek s).map (·.2)
  | .peekn n, s => (D2V.Text.peekn n s).map (·.2)
  | .readNotSpace, s => (D2V.Text.readNotSpace s).map (·.2)
  | .peekNotSpace, s => (D2V.Text.peekNotSpace s).map (·.2)
  | .commit, s => (D2V.Text.commit s).map (·.2)
  | .rewind, s => (D2V.Text.rewind s).map (·.2)
  | .replay r, s => (D2V.Text.replay r s).map (·.2)

/-- the discipline the parser follows: reading and replaying happen with nothing peeked; what is replayed is the
    rune consumed last -/
def ROp.guard : ROp → PState → Prop
  | .read, s | .readNotSpace, s => s.lookahead = []
  | .replay r, s => s.lookahead = [] ∧ ∃ tl, s.consumed = r :: tl
  | _, _ => True

/-- a disciplined run of a sequence of operations -/
inductive Run : List ROp → PState → PState → Prop where
  | nil {s : PState} : Run [] s s
  | cons {op : ROp} {ops : List ROp} {s s1 s2 : PState} :
      op.guard s → op.run s = .ok s1 → Run ops s1 s2 → Run (op :: ops) s s2

theorem map_ok {α β : Type} {e : Except Crash (α × β)} {b : β} (h : e.map (·.2) = .ok b) : ∃ a, e = .ok (a, b) := by
  cases e with
  | error c => simp [Except.map] at h
  | ok v => obtain ⟨a, b'⟩ := v; simp [Except.map] at h; exact ⟨a, by rw [h]⟩

theorem rinv_step {input : List Char} {op : ROp} {s s' : PState} (h : RInv input s) (hg : op.guard s)
    (e : op.run s = .ok s') : RInv input s' := by
  cases op with
  | read => obtain ⟨a, e⟩ := map_ok e; exact rinv_read h hg e
  | peek => obtain ⟨a, e⟩ := map_ok e; exact rinv_peek h e
  | peekn n => obtain ⟨a, e⟩ := map_ok e; exact rinv_peekn n h e
  | readNotSpace => obtain ⟨a, e⟩ := map_ok e; exact rinv_readNotSpace h hg e
  | peekNotSpace => obtain ⟨a, e⟩ := map_ok e; exact rinv_peekNotSpace h e
  | commit =>
    simp only [ROp.run] at e
    obtain ⟨a, e⟩ := map_ok e; exact rinv_commit h e
  | rewind =>
    simp only [ROp.run] at e
    obtain ⟨a, e⟩ := map_ok e; exact rinv_rewind h e
  | replay r =>
    obtain ⟨a, e⟩ := map_ok e
    obtain ⟨hl, tl, hc⟩ := hg
    exact rinv_replay h hl hc e

/-- **reader_inv**: every disciplined sequence of reader operations preserves the invariant -/
theorem reader_inv {input : List Char} {ops : List ROp} {s s' : PState} (h : RInv input s) (r : Run ops s s') :
    RInv input s' := by
  induction r with
  | nil => exact h
  | cons hg e _ ih => exact ih (rinv_step h hg e)

/-- in particular from the initial state: whatever the parser did so far, `pos`, `lookaheadPos` and `readerPos` are
    the advance over a prefix of the input -/
theorem reader_positions_prefix {u16 : Bool} {cfg : Cfg} {input : List Char} {fuel : Nat} {ops : List ROp} {s : PState}
    (r : Run ops (PState.init u16 cfg input fuel) s) :
    (∃ k, s.pos = adv0 s.u16 (input.take k)) ∧ (∃ k, s.lookaheadPos = adv0 s.u16 (input.take k)) ∧
    (∃ k, s.readerPos = adv0 s.u16 (input.take k)) := by
  have h := reader_inv (rinv_init u16 cfg input fuel) r
  refine ⟨⟨s.consumed.reverse.length, ?_⟩, rinv_lpos_prefix h, h.rpos⟩
  rw [h.pos, ← h.split, List.append_assoc, List.append_assoc, take_length_append]

end D2V.Text
