import D2V.Proofs.ParserSafe
/-!
Crash-freedom of every parse function of `Model/Parser.lean`, by the logic of `ParserSafe.lean`.

`ok` is the set of allowed crashes.  It always contains `outOfFuel` (the model's own bound).  It contains
`sliceOOB` unless the tree under test resets `lastPatternIndex` together with `sb` (`c.patReset = true`), in which
case the loop invariant `lastPatternIndex ≤ len(sb)` shows the slice is in bounds.  `subtractNewline` is never
allowed: every `replay` / `Subtract` site is discharged from the non-space guarantee of peekNotSpace /
readNotSpace or from a literal.
-/
namespace D2V.Text
variable {c : Cfg} {ok : Crash → Prop}

/-- discharge `r ≠ '\n'` from what peekNotSpace / readNotSpace promised, or for a literal -/
macro "not_nl" : tactic => `(tactic| first
  | assumption
  | decide
  | solve_by_elim)

/-- close a `Safe` goal about a primitive or an already proved callee -/
macro "safe_prim" : tactic => `(tactic| first
  | exact safe_pure trivial
  | exact safe_rewind | exact safe_commit | exact safe_peek | exact safe_read | exact safe_errorf
  | exact safe_getPos | exact safe_getReaderPos | exact safe_getLookaheadPos | exact safe_get
  | exact safe_peekn _
  | exact safe_modify (fun _ => rfl)
  | (apply safe_peekNotSpace; assumption)
  | (apply safe_readNotSpace; assumption)
  | (apply safe_replay; not_nl)
  | (apply safe_posSub; not_nl)
  | (apply safe_subPos; not_nl)
  | (apply safe_subPosString; decide)
  | (apply safe_crash; assumption)
  | assumption
  | (apply_assumption; done)
  | (apply_assumption <;> not_nl))

/-- one deterministic step: a primitive, a bind whose head is a primitive, a functor map, a loop without
    invariant, a case split, or a bind whose head is itself compound -/
macro "safe_step" : tactic => `(tactic| first
  | safe_prim
  | refine safe_bind (by safe_prim) fun _ _ => ?_
  | refine safe_map (by safe_prim) fun _ _ => trivial
  | refine safe_loop (I := fun _ => True) ‹_› trivial fun _ _ => ?_
  | refine safe_ite (fun _ => ?_) (fun _ => ?_)
  | split
  | refine safe_bind (Q := fun _ => True) ?_ (fun _ _ => ?_))

macro "safe_auto" : tactic => `(tactic| repeat' safe_step)

theorem safe_incDepth : Safe c ok incDepth (fun _ => True) := safe_modify fun _ => rfl
theorem safe_decDepth : Safe c ok decDepth (fun _ => True) := safe_modify fun _ => rfl

section
variable (hf : ok .outOfFuel)
include hf

theorem safe_parseCommentLine (sb : String) : Safe c ok (parseCommentLine sb) (fun _ => True) := by
  unfold parseCommentLine
  safe_auto

theorem safe_parseComment : Safe c ok parseComment (fun _ => True) := by
  unfold parseComment
  have h1 := fun sb => safe_parseCommentLine (c := c) hf sb
  safe_auto

theorem safe_parseBlockComment : Safe c ok parseBlockComment (fun _ => True) := by
  unfold parseBlockComment
  have hi := safe_incDepth (c := c) (ok := ok)
  have hd := safe_decDepth (c := c) (ok := ok)
  safe_auto

theorem safe_finishKey (start : Pos) (path : List SBox) : Safe c ok (finishKey start path) (fun _ => True) := by
  unfold finishKey
  safe_auto

theorem safe_parseKeyWith {psk : P (Option SBox)} (h : Safe c ok psk (fun _ => True)) :
    Safe c ok (parseKeyWith psk) (fun _ => True) := by
  unfold parseKeyWith
  have h2 := fun a b => safe_finishKey (c := c) hf a b
  safe_auto

theorem safe_parseSubstitutionWith {pk : P (Option KP)} (h : Safe c ok pk (fun _ => True)) (spread : Bool) :
    Safe c ok (parseSubstitutionWith pk spread) (fun _ => True) := by
  unfold parseSubstitutionWith
  safe_auto

theorem safe_parseDoubleQuotedStringWith {ps : P (Option T)} (h : Safe c ok ps (fun _ => True)) (inKey : Bool) :
    Safe c ok (parseDoubleQuotedStringWith ps inKey) (fun _ => True) := by
  unfold parseDoubleQuotedStringWith
  safe_auto

theorem safe_parseSingleQuotedString : Safe c ok parseSingleQuotedString (fun _ => True) := by
  unfold parseSingleQuotedString
  safe_auto

theorem safe_parseBlockString : Safe c ok parseBlockString (fun _ => True) := by
  unfold parseBlockString
  have hi := safe_incDepth (c := c) (ok := ok)
  have hd := safe_decDepth (c := c) (ok := ok)
  safe_auto

theorem safe_parseStringWith {ps : P (Option T)} (hps : Safe c ok ps (fun _ => True))
    (huq : ∀ b, Safe c ok (parseUnquotedStringWith ps b) (fun _ => True)) (inKey : Bool) :
    Safe c ok (parseStringWith ps inKey) (fun _ => True) := by
  unfold parseStringWith
  have h1 := safe_parseDoubleQuotedStringWith (c := c) hf hps inKey
  have h2 := safe_parseSingleQuotedString (c := c) hf
  have h3 := safe_parseBlockString (c := c) hf
  have h4 := huq inKey
  safe_auto

theorem safe_parseEdge (start : Pos) : Safe c ok (parseEdge start) (fun _ => True) := by
  unfold parseEdge
  safe_auto

theorem safe_parseEdgeIndex : Safe c ok parseEdgeIndex (fun _ => True) := by
  unfold parseEdgeIndex
  safe_auto

theorem safe_skipJunk (close : Char) : Safe c ok (skipJunk close) (fun _ => True) := by
  unfold skipJunk
  safe_auto

end
end D2V.Text
