/-
  C40 core: for every list of tracked elements with pairwise distinct labels and pairwise distinct old IDs, the
  prediction `Track.deltas` agrees with the edit (`deltasAgree`).  Then: the elements of a diagram before / after an
  edit of the `applyMap` shape ARE such a track list.
-/
import D2V.Model.Edit
import D2V.Proofs.EditAssoc
namespace D2V.Edit

variable {ι : Type} [DecidableEq ι]

theorem tracks_after_find (rs : List (Track ι)) (hl : (rs.map (·.lab)).Nodup) (r : Track ι) (hr : r ∈ rs) :
    (Track.after rs).find? (fun li => li.1 == r.lab) = r.image := by
  exact find_filterMap_key (R := Track ι) (K := Bool × String) (V := ι) (fun r => r.lab) Track.image
    (by intro r kv h; unfold Track.image at h; cases hn : r.new <;> simp [hn] at h; rw [← h]) rs hl r hr

theorem tracks_deltas_find (rs : List (Track ι)) (hi : (rs.map (·.old)).Nodup) (r : Track ι) (hr : r ∈ rs) :
    (Track.deltas rs).find? (fun kv => kv.1 == r.old) = r.delta := by
  exact find_filterMap_key (R := Track ι) (K := ι) (V := ι) (fun r => r.old) Track.delta
    (by
      intro r kv h
      unfold Track.delta at h
      cases hn : r.new with
      | none => simp [hn] at h
      | some n =>
        simp only [hn] at h
        split at h
        · cases h
        · cases h; rfl) rs hi r hr

/-- **C40 on tracked elements**: every surviving element ends up with the predicted ID, or keeps its ID when nothing
    is predicted, and nothing is predicted for a removed element. -/
theorem tracks_agree (rs : List (Track ι)) (hl : (rs.map (·.lab)).Nodup) (hi : (rs.map (·.old)).Nodup) :
    deltasAgree (Track.before rs) (Track.after rs) (Track.deltas rs) = true := by
  unfold deltasAgree
  rw [List.all_eq_true]
  intro li hli
  rcases List.mem_map.mp (by simpa [Track.before] using hli) with ⟨r, hr, rfl⟩
  simp only
  rw [tracks_after_find rs hl r hr]
  have hd := tracks_deltas_find rs hi r hr
  unfold Track.image
  cases hn : r.new with
  | none =>
    simp only [Option.map_none]
    simp only [Track.delta, hn] at hd
    simp [inDom, hd]
  | some n =>
    simp only [Option.map_some]
    simp only [Track.delta, hn] at hd
    by_cases hno : n = r.old
    · simp only [hno, if_true] at hd
      simp [lookupD, hd, hno]
    · simp only [hno, if_false] at hd
      simp [lookupD, hd]

/-! ### the elements of a diagram across an `applyMap` edit are a track list -/

theorem filter_map_eq_filterMap {α β : Type} (p : α → Bool) (g : α → β) (l : List α) :
    (l.filter p).map g = l.filterMap fun a => if p a then some (g a) else none := by
  induction l with
  | nil => rfl
  | cons a t ih =>
    by_cases h : p a <;> simp [List.filter_cons, List.filterMap_cons, h, ih]

theorem filterMap_congr' {α β : Type} {f g : α → Option β} (h : ∀ a, f a = g a) (l : List α) :
    l.filterMap f = l.filterMap g := by
  have : f = g := funext h
  rw [this]

theorem nodup_map_inj {α β : Type} (f : α → β) (hf : ∀ a b, f a = f b → a = b) {l : List α} (h : l.Nodup) :
    (l.map f).Nodup :=
  List.Pairwise.map f (fun a b hab hfab => hab (hf a b hfab)) h

theorem elems_before (d : Diagram) (keepO : Obj → Bool) (keepE : Edge → Bool) (fo : Obj → Obj) (fe : Edge → Edge) :
    d.elems = Track.before (Spec.tracks d keepO keepE fo fe) := by
  simp [Diagram.elems, Track.before, Spec.tracks, List.map_append, List.map_map, Function.comp_def]

theorem filter_map_map_eq {α β γ τ : Type} (p : α → Bool) (g : α → β) (h : β → γ) (t : α → τ) (u : τ → Option γ)
    (hyp : ∀ a, (if p a then some (h (g a)) else none) = u (t a)) (l : List α) :
    ((l.filter p).map g).map h = (l.map t).filterMap u := by
  induction l with
  | nil => rfl
  | cons a r ih =>
    have := hyp a
    by_cases hp : p a
    · simp only [hp, if_true] at this
      simp [List.filter_cons, hp, List.filterMap_cons, ← this, ih]
    · simp only [hp] at this
      simp [List.filter_cons, hp, List.filterMap_cons, ← this, ih]

theorem elems_after (d : Diagram) (keepO : Obj → Bool) (keepE : Edge → Bool) (fo : Obj → Obj) (fe : Edge → Edge)
    (hfo : ∀ o, (fo o).label = o.label) (hfe : ∀ e, (fe e).label = e.label) :
    (Spec.applyMap d keepO keepE fo fe).elems = Track.after (Spec.tracks d keepO keepE fo fe) := by
  simp only [Diagram.elems, Spec.applyMap, Track.after, Spec.tracks, List.filterMap_append]
  congr 1
  · apply filter_map_map_eq
    intro o
    by_cases h : keepO o <;> simp [h, hfo, Track.image]
  · apply filter_map_map_eq
    intro e
    by_cases h : keepE e <;> simp [h, hfe, Track.image]

/-- labels are unique among the objects and among the connections -/
def LabelsUnique (d : Diagram) : Prop := (d.objs.map (·.label)).Nodup ∧ (d.edges.map (·.label)).Nodup
/-- IDs are unique (C06/C09: what every compiled graph satisfies) -/
def IdsUnique (d : Diagram) : Prop := (d.objs.map Spec.Obj.id).Nodup ∧ (d.edges.map Spec.Edge.id).Nodup

theorem tracks_labels_nodup (d : Diagram) (keepO : Obj → Bool) (keepE : Edge → Bool) (fo : Obj → Obj) (fe : Edge → Edge)
    (h : LabelsUnique d) : ((Spec.tracks d keepO keepE fo fe).map (·.lab)).Nodup := by
  simp only [Spec.tracks, List.map_append, List.map_map, Function.comp_def]
  rw [List.nodup_append]
  refine ⟨?_, ?_, ?_⟩
  · have : (d.objs.map fun o => (true, o.label)) = (d.objs.map (·.label)).map (fun l => (true, l)) := by simp [List.map_map, Function.comp_def]
    rw [this]
    exact nodup_map_inj _ (fun a b hab => by cases hab; rfl) h.1
  · have : (d.edges.map fun e => (false, e.label)) = (d.edges.map (·.label)).map (fun l => (false, l)) := by simp [List.map_map, Function.comp_def]
    rw [this]
    exact nodup_map_inj _ (fun a b hab => by cases hab; rfl) h.2
  · intro a ha b hb hab
    rcases List.mem_map.mp ha with ⟨o, _, rfl⟩
    rcases List.mem_map.mp hb with ⟨e, _, rfl⟩
    cases hab

theorem tracks_ids_nodup (d : Diagram) (keepO : Obj → Bool) (keepE : Edge → Bool) (fo : Obj → Obj) (fe : Edge → Edge)
    (h : IdsUnique d) : ((Spec.tracks d keepO keepE fo fe).map (·.old)).Nodup := by
  simp only [Spec.tracks, List.map_append, List.map_map, Function.comp_def]
  rw [List.nodup_append]
  refine ⟨h.1, h.2, ?_⟩
  intro a ha b hb hab
  rcases List.mem_map.mp ha with ⟨o, _, rfl⟩
  rcases List.mem_map.mp hb with ⟨e, _, rfl⟩
  simp [Spec.Obj.id, Spec.Edge.id] at hab

/-- **C40 for every edit of the `applyMap` shape** -/
theorem apply_deltas_agree (d : Diagram) (keepO : Obj → Bool) (keepE : Edge → Bool) (fo : Obj → Obj) (fe : Edge → Edge)
    (hfo : ∀ o, (fo o).label = o.label) (hfe : ∀ e, (fe e).label = e.label)
    (hl : LabelsUnique d) (hi : IdsUnique d) :
    deltasAgree d.elems (Spec.applyMap d keepO keepE fo fe).elems (Spec.applyDeltas d keepO keepE fo fe) = true := by
  rw [elems_before d keepO keepE fo fe, elems_after d keepO keepE fo fe hfo hfe]
  exact tracks_agree _ (tracks_labels_nodup d keepO keepE fo fe hl) (tracks_ids_nodup d keepO keepE fo fe hi)

end D2V.Edit
