import D2V.Proofs.ParserSafety
/-!
Crash-freedom of `parseUnquotedStringWith`: the `Subtract` sites as everywhere, and the slice
`sb.String()[lastPatternIndex:]`, which is in bounds because `lastPatternIndex ≤ len(sb)` holds at the head of
every iteration — provided `lastPatternIndex` is reset together with `sb` (`c.patReset`); otherwise the crash
must be among the allowed ones.
-/
namespace D2V.Text
variable {c : Cfg} {ok : Crash → Prop}

/-- the loop invariant -/
def UQInv (c : Cfg) (st : UQState) : Prop := c.patReset = true → st.lastPatternIndex ≤ st.sb.utf8ByteSize

theorem UQInv.push {st : UQState} (h : UQInv c st) (r : Char) (st' : UQState)
    (h1 : st'.lastPatternIndex = st.lastPatternIndex) (h2 : st'.sb = st.sb.push r) : UQInv c st' := by
  intro hp
  have := h hp
  rw [h1, h2, String.utf8ByteSize_push]
  omega

theorem UQInv.same {st : UQState} (h : UQInv c st) (st' : UQState)
    (h1 : st'.lastPatternIndex = st.lastPatternIndex) (h2 : st'.sb = st.sb) : UQInv c st' := by
  intro hp
  have := h hp
  rw [h1, h2]; exact this

/-- close the postcondition of a loop-body exit: `.inr _` needs nothing, `.inl st'` needs the invariant -/
macro "uq_post" : tactic => `(tactic| first
  | exact True.intro
  | (show UQInv _ _; first
      | assumption
      | (apply UQInv.same ‹UQInv _ _› <;> rfl)
      | (apply UQInv.push ‹UQInv _ _› _ <;> rfl)))

macro "uq_leaf" : tactic => `(tactic| (apply safe_pure; uq_post))

/-- like `safe_step`, with the invariant-aware leaf first -/
macro "uq_step" : tactic => `(tactic| first
  | uq_leaf
  | refine safe_bind (by safe_prim) fun _ _ => ?_
  | refine safe_ite (fun _ => ?_) (fun _ => ?_)
  | split)

theorem safe_uqPrologue (hf : ok .outOfFuel) : Safe c ok uqPrologue (fun _ => True) := by
  unfold uqPrologue
  safe_auto

theorem safe_uqBody (hf : ok .outOfFuel) (hs : c.patReset = true ∨ ok .sliceOOB)
    {ps : P (Option T)} (hps : Safe c ok ps (fun _ => True)) (inKey : Bool) (st : UQState) (hI : UQInv c st) :
    Safe c ok (uqBody ps inKey st) (fun x => match x with | .inl st' => UQInv c st' | .inr _ => True) := by
  unfold uqBody
  refine safe_bind (by safe_prim) fun _ _ => ?_
  split
  · uq_leaf
  · rename_i r
    refine safe_bind (by safe_prim) fun _ _ => ?_
    refine safe_ite (fun _ => ?_) (fun _ => ?_)
    · repeat' uq_step
    · refine safe_ite (fun _ => ?_) (fun _ => ?_)
      · repeat' uq_step
      · -- the inKey block: whatever it hands on still satisfies the invariant
        refine safe_bind (Q := fun x => match x with | .inl _ => True | .inr (st', _) => UQInv c st') ?_ fun cont hcont => ?_
        · refine safe_ite (fun _ => ?_) (fun _ => ?_)
          · exact safe_pure hI
          · refine safe_ite (fun _ => ?_) (fun _ => ?_)
            · refine safe_bind (by safe_prim) fun _ _ => ?_
              exact safe_pure trivial
            · refine safe_ite (fun _ => ?_) (fun _ => ?_)
              · refine safe_bind (by safe_prim) fun _ _ => ?_
                split
                · exact safe_pure trivial
                · refine safe_ite (fun _ => ?_) (fun _ => ?_)
                  · refine safe_bind (by safe_prim) fun _ _ => ?_
                    refine safe_bind (by safe_prim) fun _ _ => ?_
                    refine safe_bind (by safe_prim) fun _ _ => ?_
                    exact safe_pure trivial
                  · refine safe_ite (fun _ => ?_) (fun _ => ?_)
                    · refine safe_bind (by safe_prim) fun _ _ => ?_
                      exact safe_pure trivial
                    · exact safe_pure (UQInv.push hI r _ rfl rfl)
              · exact safe_pure hI
        · split
          · uq_leaf
          · rename_i st1 r1
            have hI1 : UQInv c st1 := hcont
            -- the star step: afterwards lastPatternIndex ≤ len(sb) + (1 if r = '*')
            refine safe_bind (Q := fun st2 => st2.sb = st1.sb ∧
                (c.patReset = true → st2.lastPatternIndex ≤ st1.sb.utf8ByteSize + (if r1 = '*' then 1 else 0))) ?_ fun st2 h2 => ?_
            · refine safe_ite (fun hstar => ?_) (fun hstar => ?_)
              · refine safe_ite (fun _ => ?_) (fun _ => ?_)
                · exact safe_pure ⟨rfl, by intro _; simp [hstar]⟩
                · refine safe_ite (fun hgt => ?_) (fun _ => ?_)
                  · rcases hs with hp | hsl
                    · exact absurd (hI1 hp) (by omega)
                    · exact safe_crash hsl
                  · exact safe_pure ⟨rfl, by intro _; simp [hstar]⟩
              · exact safe_pure ⟨rfl, by intro hp; simpa [hstar] using hI1 hp⟩
            · obtain ⟨hsb, hlpi⟩ := h2
              refine safe_bind (by safe_prim) fun _ _ => ?_
              refine safe_bind (by safe_prim) fun p _ => ?_
              -- the lastNonSpace update changes neither sb nor lastPatternIndex
              generalize hst3 : (if (!isSpace r1) = true then { st2 with lastNonSpace := p } else st2) = st3
              have h3sb : st3.sb = st1.sb := by rw [← hst3]; split <;> simp [hsb]
              have h3l : st3.lastPatternIndex = st2.lastPatternIndex := by rw [← hst3]; split <;> rfl
              refine safe_ite (fun hd => ?_) (fun hd => ?_)
              · -- substitution: r1 = '$', so the star step did nothing
                have hr : r1 = '$' := by simp at hd; exact hd.2
                have hns : r1 ≠ '*' := by rw [hr]; decide
                refine safe_bind hps fun sub _ => ?_
                split
                · refine safe_bind safe_get fun s hc => ?_
                  apply safe_pure
                  intro hp
                  have hb := hlpi hp
                  simp only [hns, if_false, Nat.add_zero] at hb
                  show (if st3.sb.utf8ByteSize > 0 then _ else st3).lastPatternIndex ≤ (if st3.sb.utf8ByteSize > 0 then _ else st3).sb.utf8ByteSize
                  split
                  · simp [hc, hp]
                  · rw [h3l, h3sb]; exact hb
                · apply safe_pure
                  intro hp
                  have hb := hlpi hp
                  simp only [hns, if_false, Nat.add_zero] at hb
                  rw [h3l, h3sb]; exact hb
              · refine safe_ite (fun hbs => ?_) (fun hbs => ?_)
                · -- plain rune (possibly the star itself): pushed onto sb
                  apply safe_pure
                  intro hp
                  have hb := hlpi hp
                  show st3.lastPatternIndex ≤ (st3.sb.push r1).utf8ByteSize
                  rw [String.utf8ByteSize_push, h3l, h3sb]
                  have : 1 ≤ r1.utf8Size := Char.utf8Size_pos r1
                  split at hb <;> omega
                · -- escape: r1 = '\\', not a star
                  have hr : r1 = '\\' := by simpa using hbs
                  have hns : r1 ≠ '*' := by rw [hr]; decide
                  have hI3 : UQInv c st3 := by
                    intro hp
                    have hb := hlpi hp
                    simp only [hns, if_false, Nat.add_zero] at hb
                    rw [h3l, h3sb]; exact hb
                  refine safe_bind (by safe_prim) fun _ _ => ?_
                  split
                  · repeat' uq_step
                  · refine safe_ite (fun _ => ?_) (fun _ => ?_)
                    · refine safe_bind (safe_peekNotSpace hf) fun _ _ => ?_
                      split
                      · repeat' uq_step
                      · refine safe_ite (fun _ => ?_) (fun _ => ?_)
                        · repeat' uq_step
                        · refine safe_bind (by safe_prim) fun _ _ => ?_
                          refine safe_bind (by safe_prim) fun _ _ => ?_
                          uq_leaf
                    · exact safe_pure (UQInv.push hI3 _ _ rfl rfl)

theorem safe_parseUnquotedStringWith (hf : ok .outOfFuel) (hs : c.patReset = true ∨ ok .sliceOOB)
    {ps : P (Option T)} (hps : Safe c ok ps (fun _ => True)) (inKey : Bool) :
    Safe c ok (parseUnquotedStringWith ps inKey) (fun _ => True) := by
  unfold parseUnquotedStringWith
  refine safe_bind (by safe_prim) fun start _ => ?_
  refine safe_bind (safe_uqPrologue hf) fun _ _ => ?_
  refine safe_bind (Q := fun _ => True) ?_ fun _ _ => safe_pure trivial
  exact safe_loop (I := UQInv c) hf (by intro _; exact Nat.zero_le _) fun st hI =>
    safe_mono (safe_uqBody hf hs hps inKey st hI) (fun x hx => by cases x <;> exact hx)

end D2V.Text
