import D2V.Model.SemCore
/-!
  Helper development for C10: how the field arena of the interpreter evolves.  Every function changes it only by
  (a) updates that keep id / owner / name / liveness, (b) deletions, (c) appending a new live field with the fresh id
  `next` whose name matches no live field of its map.  Hence in every reachable state ids are unique and below `next`,
  and the live fields of one map have pairwise different keys (`FInv`).
-/
namespace D2V.Sem
open D2V.Gen.SemKw
open D2V.SemG (fold)

def SameF (a b : FNode) : Prop := a.id = b.id ∧ a.owner = b.owner ∧ a.name = b.name ∧ a.alive = b.alive

def killF (c : FNode → Bool) (f : FNode) : FNode := if c f then { f with alive := false } else f

inductive FStep : IR → IR → Prop
  | upd (ir ir' : IR) (g : FNode → FNode) (hg : ∀ f, SameF (g f) f) (hf : ir'.fields = ir.fields.map g) (hn : ir.next ≤ ir'.next) : FStep ir ir'
  | kill (ir ir' : IR) (c : FNode → Bool) (hf : ir'.fields = ir.fields.map (killF c)) (hn : ir.next ≤ ir'.next) : FStep ir ir'
  | add (ir ir' : IR) (n : FNode) (hid : n.id = ir.next) (hal : n.alive = true)
      (hfree : ∀ f ∈ ir.fields, f.alive = true → f.owner = n.owner → f.name.matches n.name = false)
      (hf : ir'.fields = ir.fields ++ [n]) (hn : ir.next < ir'.next) : FStep ir ir'

inductive FGood : IR → IR → Prop
  | refl (ir : IR) : FGood ir ir
  | tail {a b c : IR} : FGood a b → FStep b c → FGood a c

theorem FGood.trans {a b c : IR} (h1 : FGood a b) (h2 : FGood b c) : FGood a c := by
  induction h2 with
  | refl => exact h1
  | tail _ s ih => exact FGood.tail ih s

theorem FGood.of_step {a b : IR} (s : FStep a b) : FGood a b := FGood.tail (FGood.refl _) s

/-- nothing happened to the fields (edges may have changed, the counter may have advanced) -/
theorem FGood.of_same {a b : IR} (hf : b.fields = a.fields) (hn : a.next ≤ b.next) : FGood a b :=
  FGood.of_step (FStep.upd a b id (fun _ => ⟨rfl, rfl, rfl, rfl⟩) (by simpa using hf) hn)

structure FInv (ir : IR) : Prop where
  ids : (ir.fields.map (·.id)).Nodup
  lt : ∀ f ∈ ir.fields, f.id < ir.next
  names : ∀ m, (ir.fieldsOf m).Pairwise fun a b => a.name.matches b.name = false

def liveF (m : Owner) (f : FNode) : Bool := f.alive && f.owner == m

theorem fieldsOf_eq (ir : IR) (m : Owner) : ir.fieldsOf m = ir.fields.filter (liveF m) := rfl

theorem liveF_same {a b : FNode} (h : SameF a b) (m : Owner) : liveF m a = liveF m b := by
  simp [liveF, h.2.1, h.2.2.2]

theorem filter_killF (c : FNode → Bool) (m : Owner) (fs : List FNode) :
    (fs.map (killF c)).filter (liveF m) = (fs.filter (liveF m)).filter (fun f => !c f) := by
  induction fs with
  | nil => simp
  | cons x r ih =>
    simp only [List.map_cons, List.filter_cons, killF]
    cases hc : c x
    · simp only [Bool.false_eq_true, if_false]
      cases hl : liveF m x
      · simp [ih, killF]
      · simp [hc, ih, killF]
    · have hk : liveF m { x with alive := false } = false := by simp [liveF]
      simp only [if_true, hk, Bool.false_eq_true, if_false]
      cases hl : liveF m x
      · simp [ih, killF]
      · simp [hc, ih, killF]

theorem fstep_inv {ir ir' : IR} (h : FInv ir) (s : FStep ir ir') : FInv ir' := by
  cases s with
  | upd g hg hf hn =>
    have hids : ir'.fields.map (·.id) = ir.fields.map (·.id) := by
      rw [hf, List.map_map]; apply List.map_congr_left; intro f _; exact (hg f).1
    refine ⟨by rw [hids]; exact h.ids, ?_, ?_⟩
    · intro f hfm
      rw [hf] at hfm
      obtain ⟨f0, hf0, rfl⟩ := List.mem_map.mp hfm
      rw [(hg f0).1]; exact Nat.lt_of_lt_of_le (h.lt f0 hf0) hn
    · intro m
      have : ir'.fieldsOf m = (ir.fieldsOf m).map g := by
        rw [fieldsOf_eq, fieldsOf_eq, hf, List.filter_map]
        congr 1
        apply List.filter_congr
        intro x _
        exact liveF_same (hg x) m
      rw [this, List.pairwise_map]
      refine List.Pairwise.imp ?_ (h.names m)
      intro a b hab
      rw [(hg a).2.2.1, (hg b).2.2.1]; exact hab
  | kill c hf hn =>
    have hids : ir'.fields.map (·.id) = ir.fields.map (·.id) := by
      rw [hf, List.map_map]; apply List.map_congr_left; intro f _; simp only [Function.comp, killF]; split <;> rfl
    refine ⟨by rw [hids]; exact h.ids, ?_, ?_⟩
    · intro f hfm
      rw [hf] at hfm
      obtain ⟨f0, hf0, rfl⟩ := List.mem_map.mp hfm
      have : (killF c f0).id = f0.id := by simp only [killF]; split <;> rfl
      rw [this]; exact Nat.lt_of_lt_of_le (h.lt f0 hf0) hn
    · intro m
      rw [fieldsOf_eq, hf, filter_killF]
      exact List.Pairwise.sublist List.filter_sublist (h.names m)
  | add n hid hal hfree hf hn =>
    refine ⟨?_, ?_, ?_⟩
    · rw [hf, List.map_append, List.nodup_append]
      refine ⟨h.ids, by simp, ?_⟩
      intro a ha b hb
      simp only [List.map_cons, List.map_nil, List.mem_singleton] at hb
      subst hb
      obtain ⟨f, hfm, rfl⟩ := List.mem_map.mp ha
      have := h.lt f hfm
      omega
    · intro f hfm
      rw [hf] at hfm
      rcases List.mem_append.mp hfm with h1 | h1
      · have := h.lt f h1; omega
      · simp only [List.mem_singleton] at h1; subst h1; omega
    · intro m
      rw [fieldsOf_eq, hf, List.filter_append, List.pairwise_append]
      refine ⟨h.names m, ?_, ?_⟩
      · simp only [List.filter_cons]; split <;> simp
      · intro a ha b hb
        simp only [List.filter_cons, List.filter_nil] at hb
        split at hb
        · rename_i hl
          simp only [List.mem_singleton] at hb; subst hb
          have ha' := List.mem_filter.mp ha
          simp only [liveF, Bool.and_eq_true, beq_iff_eq] at ha' hl
          exact hfree a ha'.1 ha'.2.1 (ha'.2.2.trans hl.2.symm)
        · simp at hb

theorem fgood_inv {ir ir' : IR} (h : FInv ir) (g : FGood ir ir') : FInv ir' := by
  induction g with
  | refl => exact h
  | tail _ s ih => exact fstep_inv ih s

theorem fgood_next {ir ir' : IR} (g : FGood ir ir') : ir.next ≤ ir'.next := by
  induction g with
  | refl => exact Nat.le_refl _
  | tail _ s ih =>
    cases s with
    | upd _ _ _ hn => omega
    | kill _ _ hn => omega
    | add _ _ _ _ _ hn => omega

/-! ### every function of the interpreter moves the field arena by `FGood` steps -/

theorem updField_fgood (ir : IR) (i : Nat) (g : FNode → FNode) (hg : ∀ f, SameF (g f) f) : FGood ir (ir.updField i g) := by
  apply FGood.of_step
  exact FStep.upd ir _ (fun f => if f.id == i then g f else f) (by intro f; split; exact hg f; exact ⟨rfl, rfl, rfl, rfl⟩) rfl (Nat.le_refl _)

theorem killField_fgood (ir : IR) (i : Nat) : FGood ir (ir.updField i fun n => { n with alive := false }) := by
  apply FGood.of_step
  exact FStep.kill ir _ (fun f => f.id == i) (by simp [IR.updField, killF]) (Nat.le_refl _)

theorem sameF_refs (r : List Ref) (f : FNode) : SameF { f with refs := f.refs ++ r } f := ⟨rfl, rfl, rfl, rfl⟩
theorem sameF_map (f : FNode) : SameF { f with hasMap := true } f := ⟨rfl, rfl, rfl, rfl⟩
theorem sameF_prim (v : Option String) (f : FNode) : SameF { f with prim := v } f := ⟨rfl, rfl, rfl, rfl⟩

theorem findIn_none_free (ir : IR) (m : Owner) (s : Name) (h : ir.findIn m s = none) :
    ∀ f ∈ ir.fields, f.alive = true → f.owner = m → f.name.matches s = false := by
  intro f hf hal ho
  unfold IR.findIn at h
  have := List.find?_eq_none.mp h f (by unfold IR.fieldsOf; rw [List.mem_filter]; exact ⟨hf, by simp [hal, ho]⟩)
  simpa using this

theorem ensureField_fgood (ir : IR) (m : Owner) (path : List Name) (ref : Option (Option Nat × Owner)) (create : Bool) :
    FGood ir (ir.ensureField m path ref create).1 := by
  induction path generalizing ir m with
  | nil => simp only [IR.ensureField]; exact FGood.refl _
  | cons head rest ih =>
    unfold IR.ensureField
    split
    · exact FGood.refl _
    · split
      · exact FGood.refl _
      · split
        · exact FGood.refl _
        · dsimp only
          split
          · -- found
            rename_i f hfind
            split
            · exact updField_fgood ir f.id _ (fun f => ⟨rfl, rfl, rfl, rfl⟩)
            · exact ((updField_fgood ir f.id (fun f => { f with refs := f.refs ++ refList ref head.pos }) (fun f => ⟨rfl, rfl, rfl, rfl⟩)).trans
                (updField_fgood _ f.id _ sameF_map)).trans (ih _ _)
          · rename_i hfind
            have hadd : ∀ (rs : List Ref) (hm : Bool), FGood ir { ir with fields := ir.fields ++ [{ id := ir.next, owner := m, name := head, refs := rs, hasMap := hm }], next := ir.next + 1 } := by
              intro rs hm
              apply FGood.of_step
              exact FStep.add ir _ { id := ir.next, owner := m, name := head, refs := rs, hasMap := hm } rfl rfl (findIn_none_free ir m head hfind) rfl (Nat.lt_succ_self _)
            split
            · exact FGood.refl _
            · split
              · exact hadd _ _
              · exact (hadd _ _).trans (ih _ _)

theorem EnsureField_fgood (ir : IR) (m : Owner) (path : List Name) (ref : Option (Option Nat × Owner)) (create : Bool) :
    FGood ir (ir.EnsureField m path ref create).1 := by
  induction path generalizing ir m with
  | nil => simp only [IR.EnsureField]; exact FGood.refl _
  | cons head rest ih =>
    unfold IR.EnsureField
    repeat' split
    all_goals first | exact FGood.refl _ | exact ih _ _ | exact ensureField_fgood _ _ _ _ _

theorem EnsureField_fgood' {ir ir' : IR} {m : Owner} {path : List Name} {ref : Option (Option Nat × Owner)} {create : Bool}
    {r : Except Err (Option Nat)} (h : ir.EnsureField m path ref create = (ir', r)) : FGood ir ir' := by
  have := EnsureField_fgood ir m path ref create; rw [h] at this; exact this

theorem descendCreate_fgood (ir : IR) (m : Owner) (common : List Name) : FGood ir (ir.descendCreate m common).1 := by
  unfold IR.descendCreate
  split
  · exact FGood.refl _
  · split
    · rename_i h; exact EnsureField_fgood' h
    · rename_i h; exact EnsureField_fgood' h
    · rename_i h; exact (EnsureField_fgood' h).trans (updField_fgood _ _ _ sameF_map)

theorem descendLookup_fgood (ir : IR) (m : Owner) (common : List Name) : FGood ir (ir.descendLookup m common).1 := by
  unfold IR.descendLookup
  split
  · exact FGood.refl _
  · have h0 := EnsureField_fgood ir m common none false
    rcases hres : ir.EnsureField m common none false with ⟨ir1, r⟩
    rw [hres] at h0
    rcases r with e | o
    · simpa using h0
    · rcases o with _ | f
      · simpa using h0
      · simp only []
        exact h0.trans (updField_fgood _ _ _ sameF_map)

theorem descendCreate_fgood' {ir ir' : IR} {m : Owner} {common : List Name} {r : Except Err Owner}
    (h : ir.descendCreate m common = (ir', r)) : FGood ir ir' := by
  have := descendCreate_fgood ir m common; rw [h] at this; exact this
theorem descendLookup_fgood' {ir ir' : IR} {m : Owner} {common : List Name} {r : Option Owner}
    (h : ir.descendLookup m common = (ir', r)) : FGood ir ir' := by
  have := descendLookup_fgood ir m common; rw [h] at this; exact this

theorem appendFieldRefs_fgood (ir : IR) (m : Owner) (path : List Name) (ref : Ref) : FGood ir (ir.appendFieldRefs m path ref) := by
  induction path generalizing ir m with
  | nil => exact FGood.refl _
  | cons sb rest ih =>
    unfold IR.appendFieldRefs
    split
    · exact FGood.refl _
    · rename_i f _
      have h1 := updField_fgood ir f.id (fun n => { n with refs := n.refs ++ [{ ref with pos := sb.pos }] }) (fun f => sameF_refs _ f)
      dsimp only
      repeat' split
      all_goals first | exact h1 | exact h1.trans (ih _ _)

/-- `Same`: fields untouched, counter not decreased -/
def Same (a b : IR) : Prop := b.fields = a.fields ∧ a.next ≤ b.next

theorem Same.refl (a : IR) : Same a a := ⟨rfl, Nat.le_refl _⟩
theorem Same.trans {a b c : IR} (h1 : Same a b) (h2 : Same b c) : Same a c := ⟨h2.1.trans h1.1, Nat.le_trans h1.2 h2.2⟩
theorem Same.fgood {a b : IR} (h : Same a b) : FGood a b := FGood.of_same h.1 h.2

theorem updEdge_same (ir : IR) (i : Nat) (g : ENode → ENode) : Same ir (ir.updEdge i g) := ⟨rfl, Nat.le_refl _⟩

theorem deleteEdge_same (ir : IR) (m : Owner) (eid : EID) : Same ir (ir.deleteEdge m eid) := by
  unfold IR.deleteEdge
  dsimp only
  repeat' split
  all_goals first | exact Same.refl _ | exact updEdge_same _ _ _

theorem delAttached_same (ir : IR) (m : Owner) (ctx : Nat) : Same ir (ir.delAttached m ctx) := ⟨rfl, Nat.le_refl _⟩

theorem delAttachedUp_same (ctx fuel : Nat) (ir : IR) (m : Owner) : Same ir (ir.delAttachedUp ctx fuel m) := by
  induction fuel generalizing ir m with
  | zero => exact Same.refl _
  | succ fuel ih =>
    unfold IR.delAttachedUp
    have h0 := delAttached_same ir m ctx
    dsimp only
    repeat' split
    all_goals first | exact h0 | exact h0.trans (ih _ _)

theorem foldl_same {α} (f : IR → α → IR) (hf : ∀ ir a, Same ir (f ir a)) (l : List α) (ir : IR) : Same ir (l.foldl f ir) := by
  induction l generalizing ir with
  | nil => exact Same.refl _
  | cons a r ih => simp only [List.foldl_cons]; exact (hf ir a).trans (ih _)

theorem foldl_fgood {α} (f : IR → α → IR) (hf : ∀ ir a, FGood ir (f ir a)) (l : List α) (ir : IR) : FGood ir (l.foldl f ir) := by
  induction l generalizing ir with
  | nil => exact FGood.refl _
  | cons a r ih => simp only [List.foldl_cons]; exact (hf ir a).trans (ih _)

theorem deleteField_fgood (ir : IR) (m : Owner) (name : String) : FGood ir (ir.deleteField m name) := by
  unfold IR.deleteField
  split
  · exact FGood.refl _
  · rename_i f _
    have h1 := (foldl_same (fun ir c => ir.delAttachedUp c ir.depthFuel m) (fun ir c => delAttachedUp_same c _ ir m)
      (f.refs.filterMap (·.ctx)) ir).fgood
    have h2 := h1.trans (killField_fgood _ f.id)
    dsimp only
    repeat' split
    all_goals first | exact h2 | exact h2.trans (killField_fgood _ _)

theorem getEdgesRef_fgood (ir : IR) (scope : Owner) (e : EdgeAst) (idx : Option Nat) : FGood ir (ir.getEdgesRef scope e idx).1 := by
  unfold IR.getEdgesRef
  split
  · exact FGood.refl _
  · split
    · rename_i h; exact descendLookup_fgood' h
    · rename_i h1
      have e1 := descendLookup_fgood' h1
      split
      · rename_i h2
        have e2 := e1.trans (EnsureField_fgood' h2)
        split
        · rename_i h3; exact e2.trans (EnsureField_fgood' h3)
        · rename_i h3; exact e2.trans (EnsureField_fgood' h3)
      · rename_i h2; exact e1.trans (EnsureField_fgood' h2)

theorem createEdge_fgood (rule : IdxRule) (ir : IR) (scope : Owner) (e : EdgeAst) (ctx : Nat) :
    FGood ir (ir.createEdge rule scope e ctx).1 := by
  unfold IR.createEdge
  split
  · exact FGood.refl _
  · split
    · exact FGood.refl _
    · split
      · rename_i h1; exact descendCreate_fgood' h1
      · rename_i ir1 m h1
        have e1 := descendCreate_fgood' h1
        split
        · exact e1
        · split
          · exact e1
          · split
            · rename_i h2; exact e1.trans (EnsureField_fgood' h2)
            · rename_i h2; exact e1.trans (EnsureField_fgood' h2)
            · rename_i ir2 sf h2
              have e2 := e1.trans (EnsureField_fgood' h2)
              split
              · rename_i h3; exact e2.trans (EnsureField_fgood' h3)
              · rename_i h3; exact e2.trans (EnsureField_fgood' h3)
              · rename_i ir3 df h3
                have e3 := e2.trans (EnsureField_fgood' h3)
                dsimp only
                split
                · split
                  · exact e3
                  · exact e3.trans (FGood.of_same rfl (Nat.le_succ _))
                · exact e3

theorem compileFieldVal_fgood (ir : IR) (fid : Nat) (d : FDecl) (ek : Bool) : FGood ir (ir.compileFieldVal fid d ek).1 := by
  unfold IR.compileFieldVal
  dsimp only
  split
  · exact FGood.refl _
  · split
    · exact deleteField_fgood _ _ _
    · have hp : FGood ir (match d.prim with
          | some (.str s) => ir.updField fid fun n => { n with prim := some s }
          | _ => ir) := by
        split
        · exact updField_fgood _ _ _ (sameF_prim _)
        · exact FGood.refl _
      split
      · exact hp.trans (updField_fgood _ _ _ sameF_map)
      · split
        · exact hp.trans (updField_fgood _ _ _ (sameF_prim _))
        · exact hp

theorem compileEdgeVal_fgood (ir : IR) (eid ctx : Nat) (scope : Owner) (d : FDecl) : FGood ir (ir.compileEdgeVal eid ctx scope d).1 := by
  unfold IR.compileEdgeVal
  split
  · have h0 := (updEdge_same ir eid fun e => { e with hasMap := true }).fgood
    dsimp only
    split
    · rename_i h; exact h0.trans ((EnsureField_fgood' h).trans (FGood.of_same rfl (Nat.le_refl _)))
    · rename_i h; exact h0.trans (EnsureField_fgood' h)
    · rename_i h; exact (h0.trans (EnsureField_fgood' h)).trans (compileFieldVal_fgood _ _ _ _)
  · dsimp only
    have hp : FGood ir (match d.prim with
        | some (.str s) => ir.updEdge eid fun e => { e with prim := some s }
        | _ => ir) := by
      split
      · exact (updEdge_same _ _ _).fgood
      · exact FGood.refl _
    split
    · exact hp.trans (updEdge_same _ _ _).fgood
    · split
      · exact hp.trans (updEdge_same _ _ _).fgood
      · exact hp

theorem compileEdgeVals_fgood (ctx : Nat) (scope : Owner) (d : FDecl) (es : List Nat) (ir : IR) (acc : List Owner) :
    FGood ir (ir.compileEdgeVals ctx scope d es acc).1 := by
  induction es generalizing ir acc with
  | nil => exact FGood.refl _
  | cons e r ih =>
    unfold IR.compileEdgeVals
    dsimp only
    exact (compileEdgeVal_fgood ir e ctx scope d).trans (ih _ _)

theorem addErr_fgood (ir : IR) (e : Err) : FGood ir (ir.addErr e) := FGood.of_same rfl (Nat.le_refl _)

theorem evalDecl_fgood (rule : IdxRule) (ir : IR) (scope : Owner) (d : FDecl) : FGood ir (ir.evalDecl rule scope d).1 := by
  unfold IR.evalDecl
  split
  · split
    · rename_i h; exact (EnsureField_fgood' h).trans (addErr_fgood _ _)
    · rename_i h; exact EnsureField_fgood' h
    · rename_i h; exact (EnsureField_fgood' h).trans (compileFieldVal_fgood _ _ _ _)
  · rename_i e _
    have hpre : ∀ (p : IR × Option Owner), p = (if d.key.isEmpty then (ir, some scope) else
        match ir.EnsureField scope d.key (some (none, scope)) true with
        | (ir, .error err) => (ir.addErr err, none)
        | (ir, .ok none) => (ir, none)
        | (ir, .ok (some f)) => (ir.updField f fun n => { n with hasMap := true }, some (.fld f))) → FGood ir p.1 := by
      intro p hp
      subst hp
      split
      · exact FGood.refl _
      · split
        · rename_i h; exact (EnsureField_fgood' h).trans (addErr_fgood _ _)
        · rename_i h; exact EnsureField_fgood' h
        · rename_i h; exact (EnsureField_fgood' h).trans (updField_fgood _ _ _ sameF_map)
    dsimp only
    generalize hgen : (if d.key.isEmpty then (ir, some scope) else
        match ir.EnsureField scope d.key (some (none, scope)) true with
        | (ir, .error err) => (ir.addErr err, none)
        | (ir, .ok none) => (ir, none)
        | (ir, .ok (some f)) => (ir.updField f fun n => { n with hasMap := true }, some (.fld f))) = pre
    have hpe := hpre pre hgen.symm
    obtain ⟨ir0, sc⟩ := pre
    simp only at hpe
    split
    · rename_i ir1 heq
      cases heq
      exact hpe
    · rename_i ir1 sc1 heq
      cases heq
      split
      · exact hpe.trans (deleteEdge_same _ _ _).fgood
      · have hb : FGood ir0 { ir0 with next := ir0.next + 1 } := FGood.of_same rfl (Nat.le_succ _)
        split
        · have e1 := getEdgesRef_fgood ({ ir0 with next := ir0.next + 1 }) sc1 e d.idx
          split
          · exact ((hpe.trans hb).trans e1).trans (addErr_fgood _ _)
          · refine (((hpe.trans hb).trans e1).trans ?_).trans (compileEdgeVals_fgood _ _ _ _ _ _)
            apply foldl_fgood
            intro ir x
            exact ((updEdge_same ir x _).fgood.trans (appendFieldRefs_fgood _ _ _ _)).trans (appendFieldRefs_fgood _ _ _ _)
        · split
          · rename_i h
            have := createEdge_fgood rule ({ ir0 with next := ir0.next + 1 }) sc1 e ir0.next
            rw [h] at this
            exact ((hpe.trans hb).trans this).trans (addErr_fgood _ _)
          · rename_i h
            have := createEdge_fgood rule ({ ir0 with next := ir0.next + 1 }) sc1 e ir0.next
            rw [h] at this
            exact ((hpe.trans hb).trans this).trans (compileEdgeVals_fgood _ _ _ _ _ _)

theorem evalScopes_fgood (rule : IdxRule) (d : FDecl) (scopes : List Owner) (ir : IR) (acc : List Owner) :
    FGood ir (evalScopes rule ir d scopes acc).1 := by
  induction scopes generalizing ir acc with
  | nil => exact FGood.refl _
  | cons sc r ih =>
    unfold evalScopes
    dsimp only
    exact (evalDecl_fgood rule ir sc d).trans (ih _ _)

theorem step_fgood (rule : IdxRule) (st : St) (it : Item) : FGood st.ir (step rule st it).ir := by
  cases it with
  | close => exact FGood.refl _
  | decl d =>
    unfold step
    dsimp only
    have h := evalScopes_fgood rule d (st.stack.headD []) st.ir []
    split <;> exact h

theorem evalItems_fgood (rule : IdxRule) (items : List Item) (st : St) : FGood st.ir (items.foldl (step rule) st).ir := by
  induction items generalizing st with
  | nil => exact FGood.refl _
  | cons it r ih => simp only [List.foldl_cons]; exact (step_fgood rule st it).trans (ih _)

theorem init_finv : FInv ({} : IR) := ⟨by simp, by simp, by intro m; simp [IR.fieldsOf]⟩

/-- in every state the interpreter reaches, field ids are unique and below the counter, and the live fields of any one map
    have pairwise different keys -/
theorem reachable_finv (rule : IdxRule) (items : List Item) : FInv (evalItems rule items).ir :=
  fgood_inv init_finv (evalItems_fgood rule items {})

end D2V.Sem
