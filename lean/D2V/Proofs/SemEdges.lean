import D2V.Model.SemCore
/-!
  Helper development for C11 (IR side): classes of edges, `IndicesDistinct`, and the proof that the edge list of the
  interpreter only ever changes by (a) updates that keep owner / class / index / liveness, (b) deletions, (c) appending
  a new edge whose index is fresh for its class under the rule `maxPlus1` — hence `IndicesDistinct` is an invariant
  of every program under that rule.
-/
namespace D2V.Sem
open D2V.Gen.SemKw
open D2V.SemG (fold)

/-- case-folded key of a path -/
def pathKey (p : List Name) : List (List Char) := p.map fun n => fold n.s

theorem pathFoldEq_iff (a b : List Name) : pathFoldEq a b = true ↔ pathKey a = pathKey b := by
  induction a generalizing b with
  | nil => cases b <;> simp [pathFoldEq, pathKey]
  | cons x r ih =>
    cases b with
    | nil => simp [pathFoldEq, pathKey]
    | cons y r' =>
      simp only [pathFoldEq, Bool.and_eq_true, ih, pathKey, List.map_cons, List.cons.injEq, eqFold, beq_iff_eq]

/-- the class of a stored edge: endpoints (case-insensitively) and arrow flags -/
def ENode.cls (e : ENode) : List (List Char) × List (List Char) × Bool × Bool := (pathKey e.src, pathKey e.dst, e.sa, e.da)
def EID.cls (e : EID) : List (List Char) × List (List Char) × Bool × Bool := (pathKey e.src, pathKey e.dst, e.sa, e.da)

theorem matchesEID_iff (e : ENode) (eid : EID) :
    e.matchesEID eid = true ↔ (∀ i, eid.idx = some i → e.idx = i) ∧ e.cls = eid.cls := by
  unfold ENode.matchesEID ENode.cls EID.cls
  cases h : eid.idx <;> simp [pathFoldEq_iff, and_assoc, and_left_comm, and_comm]

/-- the indices of the edges of one class are pairwise distinct -/
def IndicesDistinct (es : List ENode) : Prop := es.Pairwise fun a b => a.cls = b.cls → a.idx ≠ b.idx

/-- with `index := 1 + largest existing index` the new index differs from every existing index of the class … -/
theorem newIndex_maxPlus1_fresh (es : List ENode) : ∀ e ∈ es, e.idx < newIndex .maxPlus1 es := by
  unfold newIndex
  simp only
  suffices h : ∀ (acc : Nat) (l : List ENode), acc ≤ l.foldl (fun acc e => max acc (e.idx + 1)) acc ∧
      ∀ e ∈ l, e.idx < l.foldl (fun acc e => max acc (e.idx + 1)) acc from (h 0 es).2
  intro acc l
  induction l generalizing acc with
  | nil => simp
  | cons x r ih =>
    simp only [List.foldl_cons, List.mem_cons]
    have h1 := ih (max acc (x.idx + 1))
    refine ⟨by have := h1.1; omega, ?_⟩
    intro e he
    rcases he with rfl | he
    · have := h1.1; omega
    · exact h1.2 e he


/-! ### how the edge list evolves -/

/-- what `IndicesDistinct` can see of an edge -/
def ENode.core (e : ENode) : Owner × (List (List Char) × List (List Char) × Bool × Bool) × Nat × Bool :=
  (e.owner, e.cls, e.idx, e.alive)

def liveIn (m : Owner) (e : ENode) : Bool := e.alive && e.owner == m

theorem edgesOf_eq (ir : IR) (m : Owner) : ir.edgesOf m = ir.edges.filter (liveIn m) := rfl

/-- the indices of every class of every map are pairwise distinct -/
def Inv (es : List ENode) : Prop := ∀ m, IndicesDistinct (es.filter (liveIn m))

/-- live edges of map `m` in the class `c` -/
def sameLive (m : Owner) (c : List (List Char) × List (List Char) × Bool × Bool) (e : ENode) : Bool :=
  liveIn m e && decide (e.cls = c)

/-- one change of the edge list. `rule` is the index rule of `createEdge2`; the flag says whether deletions are allowed -/
inductive Step (rule : IdxRule) : Bool → List ENode → List ENode → Prop
  /-- an update of edges that keeps owner, class, index and liveness (references, primary value, map flag) -/
  | upd {k : Bool} (es : List ENode) (g : ENode → ENode) (hg : ∀ e, (g e).core = e.core) : Step rule k es (es.map g)
  /-- deletion of some edges -/
  | kill (es : List ENode) (c : ENode → Bool) : Step rule true es (es.map fun e => if c e then { e with alive := false } else e)
  /-- a new live edge, numbered by the rule from the live edges of its map and class -/
  | add {k : Bool} (es : List ENode) (n : ENode) (halive : n.alive = true)
      (hidx : n.idx = newIndex rule (es.filter (sameLive n.owner n.cls))) : Step rule k es (es ++ [n])

inductive Good (rule : IdxRule) (k : Bool) : List ENode → List ENode → Prop
  | refl (es : List ENode) : Good rule k es es
  | tail {a b c : List ENode} : Good rule k a b → Step rule k b c → Good rule k a c

theorem Good.trans {rule : IdxRule} {k : Bool} {a b c : List ENode} (h1 : Good rule k a b) (h2 : Good rule k b c) : Good rule k a c := by
  induction h2 with
  | refl => exact h1
  | tail _ s ih => exact Good.tail ih s

theorem Good.of_step {rule : IdxRule} {k : Bool} {a b : List ENode} (s : Step rule k a b) : Good rule k a b := Good.tail (Good.refl _) s
theorem Good.of_eq {rule : IdxRule} {k : Bool} {a b : List ENode} (h : b = a) : Good rule k a b := by subst h; exact Good.refl _

theorem Step.mono {rule : IdxRule} {k : Bool} {a b : List ENode} (s : Step rule false a b) : Step rule k a b := by
  cases s with
  | upd _ g hg => exact Step.upd _ g hg
  | add _ n h1 h2 => exact Step.add _ n h1 h2

theorem Good.mono {rule : IdxRule} {k : Bool} {a b : List ENode} (g : Good rule false a b) : Good rule k a b := by
  induction g with
  | refl => exact Good.refl _
  | tail _ s ih => exact Good.tail ih s.mono

/-- weaken by a Boolean condition: no deletions when the condition is false -/
theorem Good.of_cond {rule : IdxRule} {k c : Bool} {a b : List ENode} (g : Good rule c a b) (h : c = true → k = true) : Good rule k a b := by
  cases c with
  | false => exact g.mono
  | true => rw [h rfl]; exact g

theorem liveIn_core {a b : ENode} (h : a.core = b.core) (m : Owner) : liveIn m a = liveIn m b := by
  simp only [ENode.core, Prod.mk.injEq] at h
  simp [liveIn, h.1, h.2.2.2]

theorem filter_kill (c : ENode → Bool) (m : Owner) (es : List ENode) :
    (es.map fun e => if c e then { e with alive := false } else e).filter (liveIn m) =
      (es.filter (liveIn m)).filter (fun e => !c e) := by
  induction es with
  | nil => simp
  | cons x r ih =>
    simp only [List.map_cons, List.filter_cons]
    cases hc : c x
    · simp only [Bool.false_eq_true, if_false]
      cases hl : liveIn m x
      · simp [ih]
      · simp [List.filter_cons, hc, ih]
    · have hk : liveIn m { x with alive := false } = false := by simp [liveIn]
      simp only [if_true, hk, Bool.false_eq_true, if_false]
      cases hl : liveIn m x
      · simp [ih]
      · simp [List.filter_cons, hc, ih]

theorem step_inv {k : Bool} {es es' : List ENode} (h : Inv es) (s : Step .maxPlus1 k es es') : Inv es' := by
  intro m
  cases s with
  | upd _ g hg =>
    have hf : (es.map g).filter (liveIn m) = (es.filter (liveIn m)).map g := by
      rw [List.filter_map]
      congr 1
      apply List.filter_congr
      intro x _
      exact liveIn_core (hg x) m
    rw [hf]
    unfold IndicesDistinct
    rw [List.pairwise_map]
    refine List.Pairwise.imp ?_ (h m)
    intro a b hab hcls
    have ha := hg a; have hb := hg b
    simp only [ENode.core, Prod.mk.injEq] at ha hb
    rw [ha.2.2.1, hb.2.2.1]
    exact hab (by rw [← ha.2.1, ← hb.2.1]; exact hcls)
  | kill _ c =>
    have hf := filter_kill c m es
    rw [hf]
    exact List.Pairwise.sublist List.filter_sublist (h m)
  | add _ n halive hidx =>
    rw [List.filter_append]
    unfold IndicesDistinct
    rw [List.pairwise_append]
    refine ⟨h m, ?_, ?_⟩
    · simp only [List.filter_cons]; split <;> simp
    · intro a ha b hb
      simp only [List.filter_cons, List.filter_nil] at hb
      split at hb
      · rename_i hn
        simp only [List.mem_singleton] at hb; subst hb
        have ha' := List.mem_filter.mp ha
        simp only [liveIn, Bool.and_eq_true, beq_iff_eq] at hn
        intro hcls
        have hmem : a ∈ es.filter (sameLive b.owner b.cls) := by
          rw [List.mem_filter]
          refine ⟨ha'.1, ?_⟩
          simp only [sameLive, Bool.and_eq_true, decide_eq_true_eq]
          rw [hn.2]
          exact ⟨ha'.2, hcls⟩
        have := newIndex_maxPlus1_fresh _ a hmem
        omega
      · simp at hb

theorem good_inv {k : Bool} {es es' : List ENode} (h : Inv es) (g : Good .maxPlus1 k es es') : Inv es' := by
  induction g with
  | refl => exact h
  | tail _ s ih => exact step_inv ih s

/-! #### the rule `count` without deletions -/

/-- every live edge's index is below the number of live edges of its map and class -/
def Bound (es : List ENode) : Prop :=
  ∀ a ∈ es, a.alive = true → a.idx < (es.filter (sameLive a.owner a.cls)).length

theorem sameLive_core {a b : ENode} (h : a.core = b.core) (m : Owner) (c) : sameLive m c a = sameLive m c b := by
  have h1 := liveIn_core h m
  simp only [ENode.core, Prod.mk.injEq] at h
  simp [sameLive, h1, h.2.1]

theorem filter_sameLive_map (es : List ENode) (g : ENode → ENode) (hg : ∀ e, (g e).core = e.core) (m : Owner) (c) :
    ((es.map g).filter (sameLive m c)).length = (es.filter (sameLive m c)).length := by
  induction es with
  | nil => simp
  | cons x r ih =>
    simp only [List.map_cons, List.filter_cons, sameLive_core (hg x) m c]
    split <;> simp [ih]

theorem step_count {es es' : List ENode} (h : Inv es ∧ Bound es) (s : Step .count false es es') : Inv es' ∧ Bound es' := by
  obtain ⟨hi, hb⟩ := h
  cases s with
  | upd _ g hg =>
    refine ⟨?_, ?_⟩
    · -- same argument as for maxPlus1: the visible part of every edge is unchanged
      intro m
      have hf : (es.map g).filter (liveIn m) = (es.filter (liveIn m)).map g := by
        rw [List.filter_map]
        congr 1
        apply List.filter_congr
        intro x _
        exact liveIn_core (hg x) m
      rw [hf]
      unfold IndicesDistinct
      rw [List.pairwise_map]
      refine List.Pairwise.imp ?_ (hi m)
      intro a b hab hcls
      have ha := hg a; have hb' := hg b
      simp only [ENode.core, Prod.mk.injEq] at ha hb'
      rw [ha.2.2.1, hb'.2.2.1]
      exact hab (by rw [← ha.2.1, ← hb'.2.1]; exact hcls)
    · intro a ha hal
      obtain ⟨a0, ha0, rfl⟩ := List.mem_map.mp ha
      have hc := hg a0
      simp only [ENode.core, Prod.mk.injEq] at hc
      rw [filter_sameLive_map es g hg, hc.1, hc.2.1, hc.2.2.1]
      exact hb a0 ha0 (by rw [← hc.2.2.2]; exact hal)
  | add _ n halive hidx =>
    have hidx' : n.idx = (es.filter (sameLive n.owner n.cls)).length := by simpa [newIndex] using hidx
    refine ⟨?_, ?_⟩
    · intro m
      rw [List.filter_append]
      unfold IndicesDistinct
      rw [List.pairwise_append]
      refine ⟨hi m, ?_, ?_⟩
      · simp only [List.filter_cons]; split <;> simp
      · intro a ha b hb'
        simp only [List.filter_cons, List.filter_nil] at hb'
        split at hb'
        · rename_i hn
          simp only [List.mem_singleton] at hb'; subst hb'
          have ha' := List.mem_filter.mp ha
          simp only [liveIn, Bool.and_eq_true, beq_iff_eq] at hn
          have hal : liveIn m a = true := ha'.2
          simp only [liveIn, Bool.and_eq_true, beq_iff_eq] at hal
          intro hcls
          have := hb a ha'.1 hal.1
          rw [hal.2, hcls, ← hn.2] at this
          omega
        · simp at hb'
    · intro a ha hal
      rw [List.filter_append]
      simp only [List.length_append]
      rcases List.mem_append.mp ha with ha | ha
      · have := hb a ha hal; omega
      · simp only [List.mem_singleton] at ha; subst ha
        have hself : sameLive a.owner a.cls a = true := by simp [sameLive, liveIn, hal]
        simp [List.filter_cons, hself]
        omega

theorem good_count {es es' : List ENode} (h : Inv es ∧ Bound es) (g : Good .count false es es') : Inv es' ∧ Bound es' := by
  induction g with
  | refl => exact h
  | tail _ s ih => exact step_count ih s

/-! ### every function of the interpreter moves the edge list by `Good` steps -/

@[simp] theorem updField_edges (ir : IR) (i : Nat) (g : FNode → FNode) : (ir.updField i g).edges = ir.edges := rfl
@[simp] theorem addErr_edges (ir : IR) (e : Err) : (ir.addErr e).edges = ir.edges := rfl

theorem ensureField_edges (ir : IR) (m : Owner) (path : List Name) (ref : Option (Option Nat × Owner)) (create : Bool) :
    (ir.ensureField m path ref create).1.edges = ir.edges := by
  induction path generalizing ir m with
  | nil => simp [IR.ensureField]
  | cons head rest ih =>
    unfold IR.ensureField
    repeat' split
    all_goals first | rfl | simp [ih]

theorem EnsureField_edges (ir : IR) (m : Owner) (path : List Name) (ref : Option (Option Nat × Owner)) (create : Bool) :
    (ir.EnsureField m path ref create).1.edges = ir.edges := by
  induction path generalizing ir m with
  | nil => simp [IR.EnsureField]
  | cons head rest ih =>
    unfold IR.EnsureField
    repeat' split
    all_goals first | rfl | simp [ih, ensureField_edges]

theorem descendCreate_edges (ir : IR) (m : Owner) (common : List Name) : (ir.descendCreate m common).1.edges = ir.edges := by
  unfold IR.descendCreate
  split
  · rfl
  · have h := EnsureField_edges ir m common none true
    split <;> simp_all

theorem descendLookup_edges (ir : IR) (m : Owner) (common : List Name) : (ir.descendLookup m common).1.edges = ir.edges := by
  unfold IR.descendLookup
  split
  · rfl
  · have h := EnsureField_edges ir m common none false
    split <;> simp_all

theorem appendFieldRefs_edges (ir : IR) (m : Owner) (path : List Name) (ref : Ref) : (ir.appendFieldRefs m path ref).edges = ir.edges := by
  induction path generalizing ir m with
  | nil => rfl
  | cons sb rest ih =>
    unfold IR.appendFieldRefs
    repeat' split
    all_goals first | rfl | simp [ih]

theorem EnsureField_edges' {ir ir' : IR} {m : Owner} {path : List Name} {ref : Option (Option Nat × Owner)} {create : Bool}
    {r : Except Err (Option Nat)} (h : ir.EnsureField m path ref create = (ir', r)) : ir'.edges = ir.edges := by
  have := EnsureField_edges ir m path ref create; rw [h] at this; exact this
theorem descendLookup_edges' {ir ir' : IR} {m : Owner} {common : List Name} {r : Option Owner}
    (h : ir.descendLookup m common = (ir', r)) : ir'.edges = ir.edges := by
  have := descendLookup_edges ir m common; rw [h] at this; exact this
theorem descendCreate_edges' {ir ir' : IR} {m : Owner} {common : List Name} {r : Except Err Owner}
    (h : ir.descendCreate m common = (ir', r)) : ir'.edges = ir.edges := by
  have := descendCreate_edges ir m common; rw [h] at this; exact this

theorem getEdgesRef_edges (ir : IR) (scope : Owner) (e : EdgeAst) (idx : Option Nat) : (ir.getEdgesRef scope e idx).1.edges = ir.edges := by
  unfold IR.getEdgesRef
  split
  · rfl
  · split
    · rename_i h; simpa using descendLookup_edges' h
    · rename_i h1
      have e1 := descendLookup_edges' h1
      split
      · rename_i h2
        have e2 := EnsureField_edges' h2
        split
        · rename_i h3
          have e3 := EnsureField_edges' h3
          simp only []; rw [e3, e2, e1]
        · rename_i h3
          have e3 := EnsureField_edges' h3
          simp only []; rw [e3, e2, e1]
      · rename_i h2
        have e2 := EnsureField_edges' h2
        simp only []; rw [e2, e1]

/-! the lookups never report errors themselves -/
@[simp] theorem updField_errs (ir : IR) (i : Nat) (g : FNode → FNode) : (ir.updField i g).errs = ir.errs := rfl

theorem ensureField_errs (ir : IR) (m : Owner) (path : List Name) (ref : Option (Option Nat × Owner)) (create : Bool) :
    (ir.ensureField m path ref create).1.errs = ir.errs := by
  induction path generalizing ir m with
  | nil => simp [IR.ensureField]
  | cons head rest ih =>
    unfold IR.ensureField
    repeat' split
    all_goals first | rfl | simp [ih]

theorem EnsureField_errs (ir : IR) (m : Owner) (path : List Name) (ref : Option (Option Nat × Owner)) (create : Bool) :
    (ir.EnsureField m path ref create).1.errs = ir.errs := by
  induction path generalizing ir m with
  | nil => simp [IR.EnsureField]
  | cons head rest ih =>
    unfold IR.EnsureField
    repeat' split
    all_goals first | rfl | simp [ih, ensureField_errs]

theorem EnsureField_errs' {ir ir' : IR} {m : Owner} {path : List Name} {ref : Option (Option Nat × Owner)} {create : Bool}
    {r : Except Err (Option Nat)} (h : ir.EnsureField m path ref create = (ir', r)) : ir'.errs = ir.errs := by
  have := EnsureField_errs ir m path ref create; rw [h] at this; exact this

theorem descendLookup_errs (ir : IR) (m : Owner) (common : List Name) : (ir.descendLookup m common).1.errs = ir.errs := by
  unfold IR.descendLookup
  split
  · rfl
  · have h := EnsureField_errs ir m common none false
    split <;> simp_all

theorem descendLookup_errs' {ir ir' : IR} {m : Owner} {common : List Name} {r : Option Owner}
    (h : ir.descendLookup m common = (ir', r)) : ir'.errs = ir.errs := by
  have := descendLookup_errs ir m common; rw [h] at this; exact this

theorem getEdgesRef_errs (ir : IR) (scope : Owner) (e : EdgeAst) (idx : Option Nat) : (ir.getEdgesRef scope e idx).1.errs = ir.errs := by
  unfold IR.getEdgesRef
  split
  · rfl
  · split
    · rename_i h; simpa using descendLookup_errs' h
    · rename_i h1
      have e1 := descendLookup_errs' h1
      split
      · rename_i h2
        have e2 := EnsureField_errs' h2
        split
        · rename_i h3
          have e3 := EnsureField_errs' h3
          simp only []; rw [e3, e2, e1]
        · rename_i h3
          have e3 := EnsureField_errs' h3
          simp only []; rw [e3, e2, e1]
      · rename_i h2
        have e2 := EnsureField_errs' h2
        simp only []; rw [e2, e1]

theorem updEdge_good {rule : IdxRule} {k : Bool} (ir : IR) (id : Nat) (g : ENode → ENode) (hg : ∀ e, (g e).core = e.core) :
    Good rule k ir.edges (ir.updEdge id g).edges := by
  apply Good.of_step
  exact Step.upd ir.edges (fun e => if e.id == id then g e else e) (by intro e; split <;> simp [hg])

theorem killEdge_good {rule : IdxRule} (ir : IR) (id : Nat) : Good rule true ir.edges (ir.updEdge id fun e => { e with alive := false }).edges := by
  apply Good.of_step
  exact Step.kill ir.edges (fun e => e.id == id)

theorem deleteEdge_good {rule : IdxRule} (ir : IR) (m : Owner) (eid : EID) : Good rule true ir.edges (ir.deleteEdge m eid).edges := by
  unfold IR.deleteEdge
  dsimp only
  repeat' split
  all_goals first | exact Good.refl _ | exact killEdge_good _ _

theorem delAttached_good {rule : IdxRule} (ir : IR) (m : Owner) (ctx : Nat) : Good rule true ir.edges (ir.delAttached m ctx).edges := by
  unfold IR.delAttached
  apply Good.of_step
  exact Step.kill ir.edges _

theorem delAttachedUp_good {rule : IdxRule} (ctx : Nat) (fuel : Nat) (ir : IR) (m : Owner) :
    Good rule true ir.edges (ir.delAttachedUp ctx fuel m).edges := by
  induction fuel generalizing ir m with
  | zero => exact Good.refl _
  | succ fuel ih =>
    unfold IR.delAttachedUp
    have h0 := delAttached_good (rule := rule) ir m ctx
    dsimp only
    repeat' split
    all_goals first | exact h0 | exact h0.trans (ih _ _)

theorem foldl_good {rule : IdxRule} {k : Bool} {α} (f : IR → α → IR) (hf : ∀ ir a, Good rule k ir.edges (f ir a).edges) (l : List α) (ir : IR) :
    Good rule k ir.edges (l.foldl f ir).edges := by
  induction l generalizing ir with
  | nil => exact Good.refl _
  | cons a r ih => simp only [List.foldl_cons]; exact (hf ir a).trans (ih _)

theorem deleteField_good {rule : IdxRule} (ir : IR) (m : Owner) (name : String) : Good rule true ir.edges (ir.deleteField m name).edges := by
  unfold IR.deleteField
  split
  · exact Good.refl _
  · rename_i f _
    have h1 := foldl_good (rule := rule) (k := true) (fun ir c => ir.delAttachedUp c ir.depthFuel m) (fun ir c => delAttachedUp_good c _ ir m)
      (f.refs.filterMap (·.ctx)) ir
    dsimp only
    repeat' split
    all_goals first | exact h1 | simpa using h1

theorem matchesEID_none (x : ENode) (sp dp : List Name) (sa da : Bool) :
    x.matchesEID { src := sp, dst := dp, sa := sa, da := da, idx := none } = decide (x.cls = (pathKey sp, pathKey dp, sa, da)) := by
  rw [Bool.eq_iff_iff, matchesEID_iff]
  simp [EID.cls]

theorem same_filter_eq (ir : IR) (m : Owner) (sp dp : List Name) (sa da : Bool) :
    (ir.edgesOf m).filter (fun x => x.matchesEID { src := sp, dst := dp, sa := sa, da := da, idx := none }) =
      ir.edges.filter (sameLive m (pathKey sp, pathKey dp, sa, da)) := by
  rw [edgesOf_eq, List.filter_filter]
  apply List.filter_congr
  intro x _
  simp [sameLive, matchesEID_none, Bool.and_comm]

theorem createEdge_good {rule : IdxRule} {k : Bool} (ir : IR) (scope : Owner) (e : EdgeAst) (ctx : Nat) :
    Good rule k ir.edges (ir.createEdge rule scope e ctx).1.edges := by
  unfold IR.createEdge
  split
  · exact Good.refl _
  · split
    · exact Good.refl _
    · split
      · rename_i h1; exact Good.of_eq (descendCreate_edges' h1)
      · rename_i ir1 m h1
        have e1 := descendCreate_edges' h1
        split
        · exact Good.of_eq e1
        · split
          · exact Good.of_eq e1
          · split
            · rename_i h2; exact Good.of_eq ((EnsureField_edges' h2).trans e1)
            · rename_i h2; exact Good.of_eq ((EnsureField_edges' h2).trans e1)
            · rename_i ir2 sf h2
              have e2 := (EnsureField_edges' h2).trans e1
              split
              · rename_i h3; exact Good.of_eq ((EnsureField_edges' h3).trans e2)
              · rename_i h3; exact Good.of_eq ((EnsureField_edges' h3).trans e2)
              · rename_i ir3 df h3
                have e3 := (EnsureField_edges' h3).trans e2
                dsimp only
                split
                · split
                  · exact Good.of_eq e3
                  · simp only []
                    rw [← e3]
                    apply Good.of_step
                    apply Step.add
                    · rfl
                    · simp only [ENode.cls]
                      rw [same_filter_eq]
                · exact Good.of_eq e3

theorem compileFieldVal_good {rule : IdxRule} (ir : IR) (fid : Nat) (d : FDecl) (ek : Bool) :
    Good rule (isNull d && !ek) ir.edges (ir.compileFieldVal fid d ek).1.edges := by
  unfold IR.compileFieldVal
  dsimp only
  split
  · exact Good.refl _
  · split
    · rename_i h
      have hk : (isNull d && !ek) = true := by
        simp only [Bool.and_eq_true, Bool.not_eq_true'] at h ⊢
        exact ⟨h.2, by simpa using h.1⟩
      rw [hk]; exact deleteField_good _ _ _
    · repeat' split
      all_goals exact Good.refl _

theorem core_upd_prim (s : String) (e : ENode) : ({ e with prim := some s } : ENode).core = e.core := rfl
theorem core_upd_map (e : ENode) : ({ e with hasMap := true } : ENode).core = e.core := rfl
theorem core_upd_refs (r : List Ref) (e : ENode) : ({ e with refs := e.refs ++ r } : ENode).core = e.core := rfl

theorem compileEdgeVal_good {rule : IdxRule} {k : Bool} (ir : IR) (eid ctx : Nat) (scope : Owner) (d : FDecl) :
    Good rule k ir.edges (ir.compileEdgeVal eid ctx scope d).1.edges := by
  unfold IR.compileEdgeVal
  split
  · have h0 := updEdge_good (rule := rule) (k := k) ir eid (fun e => { e with hasMap := true }) core_upd_map
    dsimp only
    split
    · rename_i h; exact h0.trans (Good.of_eq (by simpa using EnsureField_edges' h))
    · rename_i h; exact h0.trans (Good.of_eq (EnsureField_edges' h))
    · rename_i ir1 f h
      have hc := compileFieldVal_good (rule := rule) ir1 f d true
      simp only [Bool.not_true, Bool.and_false] at hc
      exact (h0.trans (Good.of_eq (EnsureField_edges' h))).trans hc.mono
  · dsimp only
    have hp : Good rule k ir.edges (match d.prim with
        | some (.str s) => ir.updEdge eid fun e => { e with prim := some s }
        | _ => ir).edges := by
      split
      · exact updEdge_good _ _ _ (core_upd_prim _)
      · exact Good.refl _
    split
    · exact hp.trans (updEdge_good _ _ _ core_upd_map)
    · split
      · exact hp.trans (updEdge_good _ _ _ (core_upd_prim _))
      · exact hp

theorem compileEdgeVals_good {rule : IdxRule} {k : Bool} (ctx : Nat) (scope : Owner) (d : FDecl) (es : List Nat) (ir : IR) (acc : List Owner) :
    Good rule k ir.edges (ir.compileEdgeVals ctx scope d es acc).1.edges := by
  induction es generalizing ir acc with
  | nil => exact Good.refl _
  | cons e r ih =>
    unfold IR.compileEdgeVals
    dsimp only
    exact (compileEdgeVal_good ir e ctx scope d).trans (ih _ _)

theorem next_edges (ir : IR) (n : Nat) : ({ ir with next := n } : IR).edges = ir.edges := rfl

theorem evalDecl_good {rule : IdxRule} (ir : IR) (scope : Owner) (d : FDecl) :
    Good rule (isNull d) ir.edges (ir.evalDecl rule scope d).1.edges := by
  unfold IR.evalDecl
  split
  · -- a field declaration
    split
    · rename_i h; exact Good.of_eq (by simpa using EnsureField_edges' h)
    · rename_i h; exact Good.of_eq (EnsureField_edges' h)
    · rename_i ir1 f1 h
      have hc := compileFieldVal_good (rule := rule) ir1 f1 d false
      simp only [Bool.not_false, Bool.and_true] at hc
      exact (Good.of_eq (EnsureField_edges' h)).trans hc
  · rename_i e _
    -- the key prefix
    have hpre : ∀ (p : IR × Option Owner), p = (if d.key.isEmpty then (ir, some scope) else
        match ir.EnsureField scope d.key (some (none, scope)) true with
        | (ir, .error err) => (ir.addErr err, none)
        | (ir, .ok none) => (ir, none)
        | (ir, .ok (some f)) => (ir.updField f fun n => { n with hasMap := true }, some (.fld f))) → p.1.edges = ir.edges := by
      intro p hp
      subst hp
      split
      · rfl
      · split
        · rename_i h; simpa using EnsureField_edges' h
        · rename_i h; exact EnsureField_edges' h
        · rename_i h; simpa using EnsureField_edges' h
    dsimp only
    generalize hgen : (if d.key.isEmpty then (ir, some scope) else
        match ir.EnsureField scope d.key (some (none, scope)) true with
        | (ir, .error err) => (ir.addErr err, none)
        | (ir, .ok none) => (ir, none)
        | (ir, .ok (some f)) => (ir.updField f fun n => { n with hasMap := true }, some (.fld f))) = pre
    have hpe := hpre pre hgen.symm
    obtain ⟨ir0, sc⟩ := pre
    simp only at hpe
    split
    · rename_i ir1 heq
      cases heq
      exact Good.of_eq hpe
    · rename_i ir1 sc1 heq
      cases heq
      split
      · rename_i hn
        rw [hn]
        exact (Good.of_eq hpe).trans (deleteEdge_good _ _ _)
      · split
        · -- indexed reference
          have e1 := getEdgesRef_edges ({ ir0 with next := ir0.next + 1 }) sc1 e d.idx
          split
          · exact Good.of_eq (by simpa [next_edges] using e1.trans hpe)
          · refine ((Good.of_eq (e1.trans hpe)).trans ?_).trans (compileEdgeVals_good _ _ _ _ _ _)
            apply foldl_good
            intro ir x
            have hu := updEdge_good (rule := rule) (k := isNull d) ir x (fun n => { n with refs := n.refs ++ [{ ctx := some ir0.next, scope := sc1, pos := e.pos }] }) (core_upd_refs _)
            refine hu.trans (Good.of_eq ?_)
            rw [appendFieldRefs_edges, appendFieldRefs_edges]
        · split
          · rename_i h
            have := createEdge_good (rule := rule) (k := isNull d) ({ ir0 with next := ir0.next + 1 }) sc1 e ir0.next
            rw [h] at this
            exact (Good.of_eq hpe).trans (by simpa using this)
          · rename_i h
            have := createEdge_good (rule := rule) (k := isNull d) ({ ir0 with next := ir0.next + 1 }) sc1 e ir0.next
            rw [h] at this
            exact ((Good.of_eq hpe).trans this).trans (compileEdgeVals_good _ _ _ _ _ _)

theorem evalScopes_good {rule : IdxRule} (d : FDecl) (scopes : List Owner) (ir : IR) (acc : List Owner) :
    Good rule (isNull d) ir.edges (evalScopes rule ir d scopes acc).1.edges := by
  induction scopes generalizing ir acc with
  | nil => exact Good.refl _
  | cons sc r ih =>
    unfold evalScopes
    dsimp only
    exact (evalDecl_good ir sc d).trans (ih _ _)

/-- does the item assign null? -/
def itemNull : Item → Bool
  | .decl d => isNull d
  | .close => false

theorem step_good {rule : IdxRule} (st : St) (it : Item) : Good rule (itemNull it) st.ir.edges (step rule st it).ir.edges := by
  cases it with
  | close => exact Good.refl _
  | decl d =>
    unfold step
    dsimp only
    have h := evalScopes_good (rule := rule) d (st.stack.headD []) st.ir []
    split <;> exact h

theorem evalItems_good {rule : IdxRule} (items : List Item) (st : St) :
    Good rule (items.any itemNull) st.ir.edges (items.foldl (step rule) st).ir.edges := by
  induction items generalizing st with
  | nil => exact Good.refl _
  | cons it r ih =>
    simp only [List.foldl_cons, List.any_cons]
    refine ((step_good st it).of_cond ?_).trans ((ih _).of_cond ?_)
    · intro h; simp [h]
    · intro h; simp [h]

/-- under the rule `index := largest existing index + 1`, in the IR of EVERY program (deletions included) the indices of
    each class of each map are pairwise distinct -/
theorem maxPlus1_inv (prog : List Decl) : Inv (evalWith .maxPlus1 prog).edges := by
  unfold evalWith evalItems
  have h := evalItems_good (rule := .maxPlus1) (flattenList prog) {}
  exact good_inv (by intro m; simp [IndicesDistinct]) h

/-- under the rule `index := number of existing equal edges` (the unchanged tree), the same holds for every program that
    assigns no null -/
theorem count_inv_partial (prog : List Decl) (hnonull : (flattenList prog).any itemNull = false) :
    Inv (evalWith .count prog).edges := by
  unfold evalWith evalItems
  have h := evalItems_good (rule := .count) (flattenList prog) {}
  rw [hnonull] at h
  exact (good_count ⟨by intro m; simp [IndicesDistinct], by intro a ha; simp at ha⟩ h).1

end D2V.Sem
