import D2V.Proofs.Watch
/-!
  Helper development for C44 (and the liveness half of C45): version invariants `InvVer`, `covered` (no lost request),
  `InvFresh` (wake-up or fresh), the progress measure, and what `quiescent` implies.  Core Lean only.
-/
namespace D2V.Watch


/-! ### versions only move forward -/

def Comp.ver : Comp → Option Ver
  | .compiling v | .ended v | .published v | .waking v _ => some v
  | _ => none

def CPc.ver : CPc → Option Ver
  | .haveRes (some v) | .writing v => some v
  | _ => none

/-- `a ≤ b` when `a` is present -/
def leOpt (a : Option Ver) (b : Ver) : Prop := ∀ x, a = some x → x ≤ b

/-- what a client has sent / is about to send never exceeds the published result, and is sorted -/
structure ClientVer (res : Option Ver) (c : Client) : Prop where
  sorted : c.sent.Pairwise (· ≤ ·)
  sentLe : ∀ x ∈ c.sent, ∃ r, res = some r ∧ x ≤ r
  pcLe : ∀ v, c.pc.ver = some v → (∃ r, res = some r ∧ v ≤ r) ∧ ∀ x ∈ c.sent, x ≤ v

structure InvVer (s : State) : Prop where
  resFile : leOpt s.res s.file
  compFile : leOpt s.comp.ver s.file
  resComp : ∀ v, s.comp.ver = some v → leOpt s.res v
  pubRes : ∀ v, (s.comp = .published v ∨ ∃ t, s.comp = .waking v t) → s.res = some v
  clients : ∀ (i : Nat) (c : Client), s.clients[i]? = some c → ClientVer s.res c

theorem InvVer_init : InvVer init := by
  refine ⟨?_, ?_, ?_, ?_, ?_⟩ <;> simp [init, leOpt, Comp.ver]

theorem ClientVer_new (res : Option Ver) (pc : CPc) (h : pc.ver = none) : ClientVer res (newClient pc) :=
  ⟨by simp [newClient], by simp [newClient], by simp [newClient, h]⟩

/-- frame for steps that keep `res` and the clients -/
theorem InvVer_frame {s s' : State} (inv : InvVer s) (hr : s'.res = s.res) (hc : s'.clients = s.clients)
    (hf : s.file ≤ s'.file) (hcomp : ∀ v, s'.comp.ver = some v → s.comp.ver = some v ∨ v = s'.file)
    (hpub : ∀ v, (s'.comp = .published v ∨ ∃ t, s'.comp = .waking v t) → (s.comp = .published v ∨ ∃ t, s.comp = .waking v t)) :
    InvVer s' := by
  refine ⟨?_, ?_, ?_, ?_, ?_⟩
  · intro x hx; rw [hr] at hx; exact Nat.le_trans (inv.resFile x hx) hf
  · intro x hx
    rcases hcomp x hx with h | h
    · exact Nat.le_trans (inv.compFile x h) hf
    · rw [h]; exact Nat.le_refl _
  · intro v hv x hx
    rw [hr] at hx
    rcases hcomp v hv with h | h
    · exact inv.resComp v h x hx
    · rw [h]; exact Nat.le_trans (inv.resFile x hx) hf
  · intro v hv; rw [hr]; exact inv.pubRes v (hpub v hv)
  · rw [hc, hr]; exact inv.clients

/-- a client step that keeps everything global -/
theorem InvVer_cstep {s s' : State} {i : Nat} {g : Client → Bool} {f : Client → Client} (inv : InvVer s)
    (hs : cstep s i g f = some s')
    (hf : ∀ c, s.clients[i]? = some c → g c = true → ClientVer s.res c → ClientVer s.res (f c)) : InvVer s' := by
  unfold cstep at hs
  split at hs
  · rename_i c hc
    split at hs
    · rename_i hg
      simp only [Option.some.injEq] at hs; subst hs
      refine ⟨inv.resFile, inv.compFile, inv.resComp, inv.pubRes, ?_⟩
      exact forall_upd (P := fun _ c => ClientVer s.res c) inv.clients
        (fun c0 h0 => by
          have : c0 = c := by rw [hc] at h0; exact (Option.some.inj h0).symm
          subst this; exact hf c0 hc hg (inv.clients i c0 hc))
    · simp at hs
  · simp at hs

/-- changing only pc to one without a version, or flags -/
theorem ClientVer_pc {res : Option Ver} {c : Client} (h : ClientVer res c) (pc : CPc) (hp : pc.ver = none ∨ pc.ver = c.pc.ver)
    (ch dropped : Bool) : ClientVer res { c with pc := pc, ch := ch, dropped := dropped } := by
  refine ⟨h.sorted, h.sentLe, ?_⟩
  intro v hv
  rcases hp with hp | hp
  · simp only at hv; rw [hp] at hv; simp at hv
  · simp only at hv; rw [hp] at hv; exact h.pcLe v hv


syntax "ver_frame" ident ident : tactic
macro_rules
  | `(tactic| ver_frame $inv $hs) => `(tactic|
      ((repeat' (split at $hs:ident)) <;>
        (first
          | (simp at $hs:ident; done)
          | (simp only [Option.some.injEq] at $hs:ident; subst $hs:ident
             refine InvVer_frame $inv rfl rfl (by simp) ?_ ?_ <;> simp_all [Comp.ver]))))

syntax "ver_cstep" ident ident : tactic
macro_rules
  | `(tactic| ver_cstep $inv $hs) => `(tactic|
      (first
        | (exact InvVer_cstep $inv $hs (by
            intro c hc hg hv
            exact ClientVer_pc hv _ (by simp_all [CPc.ver]) _ _))
        | (split at $hs:ident
           · exact InvVer_cstep $inv $hs (by
              intro c hc hg hv
              exact ClientVer_pc hv _ (by simp_all [CPc.ver]) _ _)
           · simp at $hs:ident)))

theorem InvVer_updPc {s : State} (inv : InvVer s) (i : Nat) (pc : CPc) (hp : pc.ver = none) :
    ∀ (j : Nat) (c : Client), (upd i (fun x => { x with pc := pc }) s.clients)[j]? = some c → ClientVer s.res c :=
  forall_upd (P := fun _ c => ClientVer s.res c) inv.clients
    (fun c0 h0 => ClientVer_pc (inv.clients i c0 h0) pc (Or.inl hp) c0.ch c0.dropped)

theorem InvVer_step (s s' : State) (st : Step) (inv : InvVer s) (hs : step s st = some s') : InvVer s' := by
  cases st <;> simp only [step] at hs
  case change => ver_frame inv hs
  case request => ver_frame inv hs
  case sendReq => ver_frame inv hs
  case recv => ver_frame inv hs
  case compileStart => ver_frame inv hs
  case fileRead => ver_frame inv hs
  case compileEnd v => ver_frame inv hs
  case setRes v =>
    split at hs <;> try (simp at hs; done)
    rename_i w hcomp
    split at hs <;> try (simp at hs; done)
    rename_i hvw
    subst hvw
    simp only [Option.some.injEq] at hs; subst hs
    have hver : s.comp.ver = some v := by rw [hcomp]; rfl
    have hrv : leOpt s.res v := inv.resComp v hver
    refine ⟨?_, ?_, ?_, ?_, ?_⟩
    · intro x hx; simp only [Option.some.injEq] at hx; subst hx; exact inv.compFile _ hver
    · intro x hx; simp only [Comp.ver, Option.some.injEq] at hx; subst hx; exact inv.compFile _ hver
    · intro x hx y hy
      simp only [Comp.ver, Option.some.injEq] at hx hy; subst hx; subst hy; exact Nat.le_refl _
    · intro x hx
      simp only [Comp.published.injEq, reduceCtorEq, exists_false, or_false] at hx
      subst hx; rfl
    · intro i c hc
      have h := inv.clients i c hc
      refine ⟨h.sorted, ?_, ?_⟩
      · intro x hx
        obtain ⟨r, hr, hxr⟩ := h.sentLe x hx
        exact ⟨v, rfl, Nat.le_trans hxr (hrv r hr)⟩
      · intro u hu
        obtain ⟨⟨r, hr, hur⟩, h2⟩ := h.pcLe u hu
        exact ⟨⟨v, rfl, Nat.le_trans hur (hrv r hr)⟩, h2⟩
  case bcastLock => ver_frame inv hs
  case wake c =>
    split at hs <;> try (simp at hs; done)
    rename_i v todo hcomp
    split at hs <;> try (simp at hs; done)
    split at hs <;> try (simp at hs; done)
    rename_i cl hc
    split at hs <;> try (simp at hs; done)
    simp only [Option.some.injEq] at hs; subst hs
    refine ⟨inv.resFile, ?_, ?_, ?_, ?_⟩
    · have := inv.compFile; rw [hcomp] at this; exact this
    · have := inv.resComp; rw [hcomp] at this; exact this
    · intro x hx
      apply inv.pubRes x
      rw [hcomp]
      simp only [reduceCtorEq, Comp.waking.injEq, false_or] at hx ⊢
      obtain ⟨t, h1, _⟩ := hx
      exact ⟨todo, h1, rfl⟩
    · exact forall_upd (P := fun _ c => ClientVer s.res c) inv.clients
        (fun c0 h0 => ClientVer_pc (inv.clients c c0 h0) c0.pc (Or.inr rfl) true c0.dropped)
  case wakeCoalesced => ver_frame inv hs
  case bcastDone => ver_frame inv hs
  case admitC =>
    split at hs <;> try (simp at hs; done)
    simp only [Option.some.injEq] at hs; subst hs
    exact ⟨inv.resFile, inv.compFile, inv.resComp, inv.pubRes,
      forall_append (P := fun _ c => ClientVer s.res c) inv.clients (ClientVer_new _ _ rfl)⟩
  case refuse =>
    split at hs <;> try (simp at hs; done)
    simp only [Option.some.injEq] at hs; subst hs
    exact ⟨inv.resFile, inv.compFile, inv.resComp, inv.pubRes,
      forall_append (P := fun _ c => ClientVer s.res c) inv.clients (ClientVer_new _ _ rfl)⟩
  case acceptFail c =>
    split at hs <;> try (simp at hs; done)
    split at hs <;> try (simp at hs; done)
    simp only [Option.some.injEq] at hs; subst hs
    exact ⟨inv.resFile, inv.compFile, inv.resComp, inv.pubRes, InvVer_updPc inv c .gone rfl⟩
  case register => ver_cstep inv hs
  case readRes c =>
    refine InvVer_cstep inv hs ?_
    intro c0 _ _ hv
    refine ⟨hv.sorted, hv.sentLe, ?_⟩
    intro v hv2
    cases hres : s.res with
    | none => simp [hres, CPc.ver] at hv2
    | some r =>
      simp only [hres, CPc.ver, Option.some.injEq] at hv2
      subst hv2
      refine ⟨⟨r, rfl, Nat.le_refl _⟩, ?_⟩
      intro x hx
      obtain ⟨r', hr', hxr⟩ := hv.sentLe x hx
      rw [hres] at hr'; simp only [Option.some.injEq] at hr'; subst hr'; exact hxr
  case readLog c r =>
    refine InvVer_cstep inv hs ?_
    intro c0 _ hg hv
    cases r with
    | none => exact ClientVer_pc hv _ (Or.inl rfl) _ _
    | some v =>
      refine ClientVer_pc hv _ (Or.inr ?_) _ _
      simp only [decide_eq_true_eq] at hg
      rw [hg]; rfl
  case write c v ok =>
    split at hs <;> try (simp at hs; done)
    rename_i cl hc
    split at hs <;> try (simp at hs; done)
    rename_i hpc
    split at hs
    · simp only [Option.some.injEq] at hs; subst hs
      refine ⟨inv.resFile, inv.compFile, inv.resComp, inv.pubRes, ?_⟩
      refine forall_upd (P := fun _ c => ClientVer s.res c) inv.clients ?_
      intro c0 h0
      have e : c0 = cl := by rw [hc] at h0; exact (Option.some.inj h0).symm
      subst e
      have hv := inv.clients c c0 hc
      obtain ⟨h1, h2⟩ := hv.pcLe v (by rw [hpc]; rfl)
      refine ⟨?_, ?_, ?_⟩
      · simp only [List.pairwise_append, List.pairwise_cons, List.mem_singleton]
        refine ⟨hv.sorted, ⟨by simp, by simp⟩, ?_⟩
        intro a ha b hb; subst hb; exact h2 a ha
      · intro x hx
        simp only [List.mem_append, List.mem_singleton] at hx
        rcases hx with hx | hx
        · exact hv.sentLe x hx
        · subst hx; exact h1
      · intro u hu; simp [CPc.ver] at hu
    · split at hs <;> try (simp at hs; done)
      simp only [Option.some.injEq] at hs; subst hs
      exact ⟨inv.resFile, inv.compFile, inv.resComp, inv.pubRes, InvVer_updPc inv c .leaving rfl⟩
  case recvWake => ver_cstep inv hs
  case woken => ver_cstep inv hs
  case ctxDone => ver_cstep inv hs
  case unregister => ver_cstep inv hs
  case exit => ver_cstep inv hs
  case done c =>
    split at hs <;> try (simp at hs; done)
    split at hs <;> try (simp at hs; done)
    simp only [Option.some.injEq] at hs; subst hs
    exact ⟨inv.resFile, inv.compFile, inv.resComp, inv.pubRes, InvVer_updPc inv c .gone rfl⟩
  case drop c =>
    refine InvVer_cstep inv hs ?_
    intro c0 _ _ hv
    exact ClientVer_pc hv c0.pc (Or.inr rfl) c0.ch true
  case closeBegin => ver_frame inv hs
  case closeNoop => ver_frame inv hs
  case cancel => ver_frame inv hs
  case closeWait => ver_frame inv hs
  case closeReturn => ver_frame inv hs
  case shutdown => ver_frame inv hs


theorem InvVer_run (s s' : State) (steps : List Step) (inv : InvVer s) (hr : run s steps = some s') : InvVer s' := by
  induction steps generalizing s with
  | nil => simp only [run, Option.some.injEq] at hr; subst hr; exact inv
  | cons st r ih =>
    simp only [run] at hr
    split at hr
    · rename_i s1 h1; exact ih s1 (InvVer_step s s1 st inv h1) hr
    · simp at hr

/-! ### no compile request is lost -/

/-- the latest content is on its way: a notification or request is pending, or the compile loop is about to read the
    file, or holds / has published a result made from the latest version -/
def covered (s : State) : Prop :=
  s.dirty = true ∨ 0 < s.reqPending ∨ s.compileCh = true ∨ s.comp = .recvd ∨ s.comp = .started
    ∨ s.comp.ver = some s.file ∨ s.res = some s.file

theorem covered_init : covered init := Or.inl rfl

theorem covered_step (s s' : State) (st : Step) (inv : InvVer s) (hc : covered s) (hs : step s st = some s') :
    covered s' := by
  cases st <;> simp only [step, cstep] at hs
  case setRes v =>
    split at hs <;> try (simp at hs; done)
    rename_i w hcomp
    split at hs <;> try (simp at hs; done)
    rename_i hvw; subst hvw
    simp only [Option.some.injEq] at hs; subst hs
    have hver : s.comp.ver = some v := by rw [hcomp]; rfl
    unfold covered at hc ⊢
    simp only [hcomp, reduceCtorEq, false_or] at hc
    rcases hc with h | h | h | h | h
    · exact Or.inl h
    · exact Or.inr (Or.inl h)
    · exact Or.inr (Or.inr (Or.inl h))
    · simp only [Comp.ver, Option.some.injEq] at h
      right; right; right; right; right; right; simp [h]
    · have h1 := inv.resComp v hver _ h
      have h2 := inv.compFile v hver
      have : v = s.file := Nat.le_antisymm h2 h1
      right; right; right; right; right; right; simp [this]
  case bcastDone =>
    split at hs <;> try (simp at hs; done)
    rename_i v hcomp
    simp only [Option.some.injEq] at hs; subst hs
    have hres := inv.pubRes v (Or.inr ⟨[], hcomp⟩)
    unfold covered at hc ⊢
    simp only [hcomp, reduceCtorEq, false_or, Comp.ver, Option.some.injEq] at hc
    rcases hc with h | h | h | h | h
    · exact Or.inl h
    · exact Or.inr (Or.inl h)
    · exact Or.inr (Or.inr (Or.inl h))
    · right; right; right; right; right; right; simp only; rw [hres, h]
    · right; right; right; right; right; right; exact h
  all_goals
    ((repeat' (split at hs)) <;>
      (first
        | (simp at hs; done)
        | (simp only [Option.some.injEq] at hs; subst hs; unfold covered at hc ⊢; simp_all [Comp.ver]; done)
        | (simp only [Option.some.injEq] at hs; subst hs; unfold covered at hc ⊢; simp_all [Comp.ver]; omega)))


/-! ### every registered client will look at the latest result -/

def CPc.held : CPc → Option (Option Ver)
  | .haveRes r => some r
  | .writing v => some (some v)
  | _ => none

def bcastPending (comp : Comp) (i : Nat) : Prop :=
  match comp with
  | .published _ => True
  | .waking _ todo => i ∈ todo
  | _ => False

/-- `wakeup_or_fresh`: a wake-up is pending, or the client is about to read the result, or what it has in hand /
    last sent IS the current result, or the broadcast of the current result has not reached it yet -/
def fresh (res : Option Ver) (comp : Comp) (i : Nat) (c : Client) : Prop :=
  c.ch = true ∨ c.pc = .loopHead ∨ c.pc = .wokenUp ∨ c.pc = .leaving ∨ c.pc.held = some res
    ∨ (c.pc = .waiting ∧ c.sent.getLast? = res) ∨ bcastPending comp i

structure InvFresh (s : State) : Prop where
  fresh : ∀ (i : Nat) (c : Client), s.clients[i]? = some c → c.pc.inMap = true → fresh s.res s.comp i c
  todoValid : ∀ v todo, s.comp = .waking v todo → ∀ j ∈ todo, j < s.clients.length

theorem InvFresh_init : InvFresh init := ⟨by simp [init], by simp [init]⟩

theorem mem_inMapIdx (cs : List Client) (k i : Nat) (c : Client) (h : cs[i]? = some c) (hm : c.pc.inMap = true) :
    k + i ∈ inMapIdx k cs := by
  induction cs generalizing k i with
  | nil => simp at h
  | cons d r ih =>
    cases i with
    | zero => simp at h; subst h; simp [inMapIdx, hm]
    | succ i =>
      simp at h
      have := ih (k + 1) i h
      have e : k + 1 + i = k + (i + 1) := by omega
      rw [e] at this
      unfold inMapIdx
      split
      · exact List.mem_cons_of_mem _ this
      · exact this

theorem inMapIdx_lt (cs : List Client) (k : Nat) : ∀ j ∈ inMapIdx k cs, j < k + cs.length := by
  induction cs generalizing k with
  | nil => simp [inMapIdx]
  | cons d r ih =>
    intro j hj
    unfold inMapIdx at hj
    have := ih (k + 1)
    simp only [List.length_cons]
    split at hj
    · simp only [List.mem_cons] at hj
      rcases hj with hj | hj
      · omega
      · have := this j hj; omega
    · have := this j hj; omega

/-- frame: clients and res unchanged, pending broadcasts stay pending -/
theorem InvFresh_frame {s s' : State} (inv : InvFresh s) (hc : s'.clients = s.clients) (hr : s'.res = s.res)
    (hb : ∀ i, bcastPending s.comp i → bcastPending s'.comp i)
    (ht : ∀ v todo, s'.comp = .waking v todo → ∃ v0 todo0, s.comp = .waking v0 todo0 ∧ ∀ j ∈ todo, j ∈ todo0) :
    InvFresh s' := by
  refine ⟨?_, ?_⟩
  · intro i c h hm
    rw [hc] at h; rw [hr]
    rcases inv.fresh i c h hm with h1 | h1 | h1 | h1 | h1 | h1 | h1
    · exact Or.inl h1
    · exact Or.inr (Or.inl h1)
    · exact Or.inr (Or.inr (Or.inl h1))
    · exact Or.inr (Or.inr (Or.inr (Or.inl h1)))
    · exact Or.inr (Or.inr (Or.inr (Or.inr (Or.inl h1))))
    · exact Or.inr (Or.inr (Or.inr (Or.inr (Or.inr (Or.inl h1)))))
    · exact Or.inr (Or.inr (Or.inr (Or.inr (Or.inr (Or.inr (hb i h1))))))
  · intro v todo h j hj
    obtain ⟨v0, t0, h0, hsub⟩ := ht v todo h
    rw [hc]; exact inv.todoValid v0 t0 h0 j (hsub j hj)

theorem InvFresh_cstep {s s' : State} {i : Nat} {g : Client → Bool} {f : Client → Client} (inv : InvFresh s)
    (hs : cstep s i g f = some s')
    (hf : ∀ c, s.clients[i]? = some c → g c = true → (c.pc.inMap = true → fresh s.res s.comp i c) →
      (f c).pc.inMap = true → fresh s.res s.comp i (f c)) : InvFresh s' := by
  unfold cstep at hs
  split at hs
  · rename_i c hc
    split at hs
    · rename_i hg
      simp only [Option.some.injEq] at hs; subst hs
      refine ⟨?_, ?_⟩
      · exact forall_upd (P := fun j c => c.pc.inMap = true → fresh s.res s.comp j c) inv.fresh
          (fun c0 h0 => by
            have : c0 = c := by rw [hc] at h0; exact (Option.some.inj h0).symm
            subst this; exact hf c0 hc hg (inv.fresh i c0 hc))
      · intro v todo h j hj; simp only [upd_length]; exact inv.todoValid v todo h j hj
    · simp at hs
  · simp at hs


theorem forall_upd_ne {P : Nat → Client → Prop} {cs : List Client} {i : Nat} {f : Client → Client}
    (h : ∀ j c, j ≠ i → cs[j]? = some c → P j c) (hf : ∀ c, cs[i]? = some c → P i (f c)) :
    ∀ j c, (upd i f cs)[j]? = some c → P j c := by
  intro j c hj
  rw [getElem?_upd] at hj
  by_cases e : j = i
  · subst e
    simp only [if_true] at hj
    cases hc : cs[j]? with
    | none => simp [hc] at hj
    | some c0 => simp [hc] at hj; subst hj; exact hf c0 hc
  · simp only [e, if_false] at hj; exact h j c e hj

/-- a disjunct other than the broadcast one survives any change of the compile loop's state -/
theorem fresh_mono {res : Option Ver} {comp comp' : Comp} {i : Nat} {c : Client} (h : fresh res comp i c)
    (hb : bcastPending comp i → bcastPending comp' i) : fresh res comp' i c := by
  rcases h with h1 | h1 | h1 | h1 | h1 | h1 | h1
  · exact Or.inl h1
  · exact Or.inr (Or.inl h1)
  · exact Or.inr (Or.inr (Or.inl h1))
  · exact Or.inr (Or.inr (Or.inr (Or.inl h1)))
  · exact Or.inr (Or.inr (Or.inr (Or.inr (Or.inl h1))))
  · exact Or.inr (Or.inr (Or.inr (Or.inr (Or.inr (Or.inl h1)))))
  · exact Or.inr (Or.inr (Or.inr (Or.inr (Or.inr (Or.inr (hb h1))))))

syntax "fresh_frame" ident ident : tactic
macro_rules
  | `(tactic| fresh_frame $inv $hs) => `(tactic|
      ((repeat' (split at $hs:ident)) <;>
        (first
          | (simp at $hs:ident; done)
          | (simp only [Option.some.injEq] at $hs:ident; subst $hs:ident
             refine InvFresh_frame $inv rfl rfl ?_ ?_
             · first
                | (intro i h; exact h)
                | (intro i h; simp_all [bcastPending])
             · first
                | (intro v todo h; exact ⟨v, todo, h, fun _ hj => hj⟩)
                | simp_all))))

theorem InvFresh_step (s s' : State) (st : Step) (iv : InvVer s) (inv : InvFresh s) (hs : step s st = some s') :
    InvFresh s' := by
  cases st <;> simp only [step] at hs
  case change => fresh_frame inv hs
  case request => fresh_frame inv hs
  case sendReq => fresh_frame inv hs
  case recv => fresh_frame inv hs
  case compileStart => fresh_frame inv hs
  case fileRead => fresh_frame inv hs
  case compileEnd v => fresh_frame inv hs
  case setRes v =>
    split at hs <;> try (simp at hs; done)
    split at hs <;> try (simp at hs; done)
    simp only [Option.some.injEq] at hs; subst hs
    refine ⟨?_, by simp⟩
    intro i c _ _
    exact Or.inr (Or.inr (Or.inr (Or.inr (Or.inr (Or.inr trivial)))))
  case bcastLock =>
    split at hs <;> try (simp at hs; done)
    simp only [Option.some.injEq] at hs; subst hs
    refine ⟨?_, ?_⟩
    · intro i c h hm
      refine Or.inr (Or.inr (Or.inr (Or.inr (Or.inr (Or.inr ?_)))))
      have := mem_inMapIdx s.clients 0 i c h hm
      simpa [bcastPending] using this
    · intro v todo h j hj
      simp only [Comp.waking.injEq] at h
      rw [← h.2] at hj
      have := inMapIdx_lt s.clients 0 j hj
      simpa using this
  case wake c =>
    split at hs <;> try (simp at hs; done)
    rename_i v todo hcomp
    split at hs <;> try (simp at hs; done)
    split at hs <;> try (simp at hs; done)
    split at hs <;> try (simp at hs; done)
    simp only [Option.some.injEq] at hs; subst hs
    refine ⟨?_, ?_⟩
    · refine forall_upd_ne (P := fun j c0 => c0.pc.inMap = true → fresh s.res (.waking v (todo.erase c)) j c0) ?_ ?_
      · intro j c0 hne h hm
        have := inv.fresh j c0 h hm
        rw [hcomp] at this
        exact fresh_mono this (by
          intro hb; simp only [bcastPending] at hb ⊢; exact (List.mem_erase_of_ne hne).mpr hb)
      · intro c0 _ _; exact Or.inl rfl
    · intro v' todo' h j hj
      simp only [Comp.waking.injEq] at h
      rw [← h.2] at hj
      simp only [upd_length]
      exact inv.todoValid v todo hcomp j (List.mem_of_mem_erase hj)
  case wakeCoalesced c =>
    split at hs <;> try (simp at hs; done)
    rename_i v todo hcomp
    split at hs <;> try (simp at hs; done)
    split at hs <;> try (simp at hs; done)
    rename_i cl hcl
    split at hs <;> try (simp at hs; done)
    rename_i hch
    simp only [Option.some.injEq] at hs; subst hs
    refine ⟨?_, ?_⟩
    · intro j c0 h hm
      by_cases e : j = c
      · subst e
        have : c0 = cl := by rw [hcl] at h; exact (Option.some.inj h).symm
        subst this; exact Or.inl hch
      · have := inv.fresh j c0 h hm
        rw [hcomp] at this
        exact fresh_mono this (by
          intro hb; simp only [bcastPending] at hb ⊢; exact (List.mem_erase_of_ne e).mpr hb)
    · intro v' todo' h j hj
      simp only [Comp.waking.injEq] at h
      rw [← h.2] at hj
      exact inv.todoValid v todo hcomp j (List.mem_of_mem_erase hj)
  case bcastDone => fresh_frame inv hs
  case admitC =>
    split at hs <;> try (simp at hs; done)
    simp only [Option.some.injEq] at hs; subst hs
    refine ⟨?_, ?_⟩
    · exact forall_append (P := fun j c0 => c0.pc.inMap = true → fresh s.res s.comp j c0) inv.fresh
        (by simp [newClient, CPc.inMap])
    · intro v todo h j hj
      have := inv.todoValid v todo h j hj
      simp only [List.length_append, List.length_cons, List.length_nil]; omega
  case refuse =>
    split at hs <;> try (simp at hs; done)
    simp only [Option.some.injEq] at hs; subst hs
    refine ⟨?_, ?_⟩
    · exact forall_append (P := fun j c0 => c0.pc.inMap = true → fresh s.res s.comp j c0) inv.fresh
        (by simp [newClient, CPc.inMap])
    · intro v todo h j hj
      have := inv.todoValid v todo h j hj
      simp only [List.length_append, List.length_cons, List.length_nil]; omega
  case acceptFail c =>
    split at hs <;> try (simp at hs; done)
    split at hs <;> try (simp at hs; done)
    simp only [Option.some.injEq] at hs; subst hs
    refine ⟨?_, ?_⟩
    · exact forall_upd (P := fun j c0 => c0.pc.inMap = true → fresh s.res s.comp j c0) inv.fresh
        (by intro c0 _ hm; simp [CPc.inMap] at hm)
    · intro v todo h j hj; simp only [upd_length]; exact inv.todoValid v todo h j hj
  case register c =>
    split at hs <;> try (simp at hs; done)
    exact InvFresh_cstep inv hs (by intro c0 _ _ _ _; exact Or.inr (Or.inl rfl))
  case readRes c =>
    exact InvFresh_cstep inv hs (by
      intro c0 _ _ _ _; exact Or.inr (Or.inr (Or.inr (Or.inr (Or.inl rfl)))))
  case readLog c r =>
    refine InvFresh_cstep inv hs ?_
    intro c0 hc0 hg hold _
    simp only [decide_eq_true_eq] at hg
    have hf := hold (by rw [hg]; rfl)
    cases r with
    | some v =>
      rcases hf with h1 | h1 | h1 | h1 | h1 | h1 | h1
      · exact Or.inl h1
      · rw [hg] at h1; simp at h1
      · rw [hg] at h1; simp at h1
      · rw [hg] at h1; simp at h1
      · refine Or.inr (Or.inr (Or.inr (Or.inr (Or.inl ?_))))
        rw [hg] at h1; simpa [CPc.held] using h1
      · rw [hg] at h1; simp at h1
      · exact Or.inr (Or.inr (Or.inr (Or.inr (Or.inr (Or.inr h1)))))
    | none =>
      rcases hf with h1 | h1 | h1 | h1 | h1 | h1 | h1
      · exact Or.inl h1
      · rw [hg] at h1; simp at h1
      · rw [hg] at h1; simp at h1
      · rw [hg] at h1; simp at h1
      · refine Or.inr (Or.inr (Or.inr (Or.inr (Or.inr (Or.inl ⟨rfl, ?_⟩)))))
        rw [hg] at h1
        simp only [CPc.held, Option.some.injEq] at h1
        have hv := iv.clients c c0 hc0
        have : c0.sent = [] := by
          cases hsent : c0.sent with
          | nil => rfl
          | cons x r =>
            obtain ⟨r', hr', _⟩ := hv.sentLe x (by rw [hsent]; simp)
            rw [← h1] at hr'; simp at hr'
        simp only [this, List.getLast?_nil]; exact h1
      · rw [hg] at h1; simp at h1
      · exact Or.inr (Or.inr (Or.inr (Or.inr (Or.inr (Or.inr h1)))))
  case write c v ok =>
    split at hs <;> try (simp at hs; done)
    rename_i cl hc
    split at hs <;> try (simp at hs; done)
    rename_i hpc
    split at hs
    · simp only [Option.some.injEq] at hs; subst hs
      refine ⟨?_, ?_⟩
      · refine forall_upd (P := fun j c0 => c0.pc.inMap = true → fresh s.res s.comp j c0) inv.fresh ?_
        intro c0 h0 _
        have e : c0 = cl := by rw [hc] at h0; exact (Option.some.inj h0).symm
        subst e
        have hf := inv.fresh c c0 hc (by rw [hpc]; rfl)
        rcases hf with h1 | h1 | h1 | h1 | h1 | h1 | h1
        · exact Or.inl h1
        · rw [hpc] at h1; simp at h1
        · rw [hpc] at h1; simp at h1
        · rw [hpc] at h1; simp at h1
        · refine Or.inr (Or.inr (Or.inr (Or.inr (Or.inr (Or.inl ⟨rfl, ?_⟩)))))
          rw [hpc] at h1
          simp only [CPc.held, Option.some.injEq] at h1
          simp [← h1]
        · rw [hpc] at h1; simp at h1
        · exact Or.inr (Or.inr (Or.inr (Or.inr (Or.inr (Or.inr h1)))))
      · intro v' todo h j hj; simp only [upd_length]; exact inv.todoValid v' todo h j hj
    · split at hs <;> try (simp at hs; done)
      simp only [Option.some.injEq] at hs; subst hs
      refine ⟨?_, ?_⟩
      · exact forall_upd (P := fun j c0 => c0.pc.inMap = true → fresh s.res s.comp j c0) inv.fresh
          (by intro c0 _ _; exact Or.inr (Or.inr (Or.inr (Or.inl rfl))))
      · intro v' todo h j hj; simp only [upd_length]; exact inv.todoValid v' todo h j hj
  case recvWake c =>
    exact InvFresh_cstep inv hs (by intro c0 _ _ _ _; exact Or.inr (Or.inr (Or.inl rfl)))
  case woken c =>
    exact InvFresh_cstep inv hs (by intro c0 _ _ _ _; exact Or.inr (Or.inl rfl))
  case ctxDone c =>
    exact InvFresh_cstep inv hs (by intro c0 _ _ _ _; exact Or.inr (Or.inr (Or.inr (Or.inl rfl))))
  case unregister c =>
    split at hs <;> try (simp at hs; done)
    exact InvFresh_cstep inv hs (by intro c0 _ _ _ hm; simp [CPc.inMap] at hm)
  case exit c =>
    exact InvFresh_cstep inv hs (by intro c0 _ _ _ hm; simp [CPc.inMap] at hm)
  case done c =>
    split at hs <;> try (simp at hs; done)
    split at hs <;> try (simp at hs; done)
    simp only [Option.some.injEq] at hs; subst hs
    refine ⟨?_, ?_⟩
    · exact forall_upd (P := fun j c0 => c0.pc.inMap = true → fresh s.res s.comp j c0) inv.fresh
        (by intro c0 _ hm; simp [CPc.inMap] at hm)
    · intro v todo h j hj; simp only [upd_length]; exact inv.todoValid v todo h j hj
  case drop c =>
    exact InvFresh_cstep inv hs (by intro c0 _ _ hold hm; exact hold hm)
  case closeBegin => fresh_frame inv hs
  case closeNoop => fresh_frame inv hs
  case cancel => fresh_frame inv hs
  case closeWait => fresh_frame inv hs
  case closeReturn => fresh_frame inv hs
  case shutdown => fresh_frame inv hs


theorem InvFresh_run (s s' : State) (steps : List Step) (iv : InvVer s) (inv : InvFresh s)
    (hr : run s steps = some s') : InvFresh s' := by
  induction steps generalizing s with
  | nil => simp only [run, Option.some.injEq] at hr; subst hr; exact inv
  | cons st r ih =>
    simp only [run] at hr
    split at hr
    · rename_i s1 h1; exact ih s1 (InvVer_step s s1 st iv h1) (InvFresh_step s s1 st iv inv h1) hr
    · simp at hr

theorem covered_run (s s' : State) (steps : List Step) (iv : InvVer s) (hc : covered s)
    (hr : run s steps = some s') : covered s' := by
  induction steps generalizing s with
  | nil => simp only [run, Option.some.injEq] at hr; subst hr; exact hc
  | cons st r ih =>
    simp only [run] at hr
    split at hr
    · rename_i s1 h1; exact ih s1 (InvVer_step s s1 st iv h1) (covered_step s s1 st iv hc h1) hr
    · simp at hr

/-! ### progress measure -/

theorem clientsWeight_upd (i : Nat) (f : Client → Client) (cs : List Client) (c : Client) (h : cs[i]? = some c) :
    clientsWeight (upd i f cs) + c.weight = clientsWeight cs + (f c).weight := by
  induction cs generalizing i with
  | nil => simp at h
  | cons d r ih =>
    cases i with
    | zero => simp at h; subst h; simp [upd, clientsWeight]; omega
    | succ i => simp at h; have := ih i h; simp [upd, clientsWeight]; omega

theorem inMapIdx_length (cs : List Client) (k : Nat) : (inMapIdx k cs).length ≤ cs.length := by
  induction cs generalizing k with
  | nil => simp [inMapIdx]
  | cons d r ih =>
    unfold inMapIdx
    have := ih (k + 1)
    split <;> simp <;> omega

/-- a client step that lowers the client's weight lowers `mu` -/
theorem mu_cstep {s s' : State} {i : Nat} {g : Client → Bool} {f : Client → Client}
    (hs : cstep s i g f = some s') (hw : ∀ c, s.clients[i]? = some c → g c = true → (f c).weight < c.weight) :
    mu s' < mu s := by
  unfold cstep at hs
  split at hs
  · rename_i c hc
    split at hs
    · rename_i hg
      simp only [Option.some.injEq] at hs; subst hs
      have h1 := clientsWeight_upd i f s.clients c hc
      have h2 := hw c hc hg
      simp only [mu, upd_length]
      omega
    · simp at hs
  · simp at hs

theorem mu_decreases (s s' : State) (st : Step) (hs : step s st = some s') (he : external s st = false) :
    mu s' < mu s := by
  cases st <;> simp only [step] at hs <;> simp only [external] at he
  case change => simp at he
  case admitC => simp at he
  case refuse => simp at he
  case drop => simp at he
  case closeBegin => simp at he
  case closeNoop => simp at he
  case shutdown => simp at he
  case request =>
    simp only [Bool.not_eq_eq_eq_not, Bool.not_false] at he
    simp only [Option.some.injEq] at hs; subst hs
    simp only [mu, he, if_true, Nat.add_mul, Nat.one_mul]
    first | omega | (simp; done) | (simp; omega)
  case sendReq =>
    split at hs <;> try (simp at hs; done)
    rename_i p hp
    simp only [Option.some.injEq] at hs; subst hs
    simp only [mu, hp, Nat.succ_mul, if_true]
    split <;> omega
  case recv =>
    split at hs <;> try (simp at hs; done)
    rename_i hcomp
    split at hs <;> try (simp at hs; done)
    rename_i hch
    simp only [Option.some.injEq] at hs; subst hs
    simp only [mu, hcomp, hch, Comp.weight, if_true]
    first | omega | (simp; done) | (simp; omega)
  case compileStart =>
    split at hs <;> try (simp at hs; done)
    rename_i hcomp
    simp only [Option.some.injEq] at hs; subst hs
    simp only [mu, hcomp, Comp.weight]; omega
  case fileRead =>
    split at hs <;> try (simp at hs; done)
    rename_i hcomp
    simp only [Option.some.injEq] at hs; subst hs
    simp only [mu, hcomp, Comp.weight]; omega
  case compileEnd v =>
    split at hs <;> try (simp at hs; done)
    rename_i hcomp
    split at hs <;> try (simp at hs; done)
    simp only [Option.some.injEq] at hs; subst hs
    simp only [mu, hcomp, Comp.weight]; omega
  case setRes v =>
    split at hs <;> try (simp at hs; done)
    rename_i hcomp
    split at hs <;> try (simp at hs; done)
    simp only [Option.some.injEq] at hs; subst hs
    simp only [mu, hcomp, Comp.weight]; omega
  case bcastLock =>
    split at hs <;> try (simp at hs; done)
    rename_i hcomp
    simp only [Option.some.injEq] at hs; subst hs
    have := inMapIdx_length s.clients 0
    simp only [mu, hcomp, Comp.weight]; omega
  case wake c =>
    split at hs <;> try (simp at hs; done)
    rename_i v todo hcomp
    split at hs <;> try (simp at hs; done)
    rename_i hmem
    split at hs <;> try (simp at hs; done)
    rename_i cl hc
    split at hs <;> try (simp at hs; done)
    rename_i hch
    simp only [Option.some.injEq] at hs; subst hs
    have h1 := clientsWeight_upd c (fun x => { x with ch := true }) s.clients cl hc
    have hm : c ∈ todo := by simpa using hmem
    have h2 := List.length_erase_of_mem hm
    have h3 : 0 < todo.length := List.length_pos_of_mem hm
    have hch' : cl.ch = false := by simpa using hch
    simp only [Client.weight, hch', if_true, Bool.false_eq_true, if_false] at h1
    simp only [mu, hcomp, Comp.weight, upd_length, h2]
    omega
  case wakeCoalesced c =>
    split at hs <;> try (simp at hs; done)
    rename_i v todo hcomp
    split at hs <;> try (simp at hs; done)
    rename_i hmem
    split at hs <;> try (simp at hs; done)
    split at hs <;> try (simp at hs; done)
    simp only [Option.some.injEq] at hs; subst hs
    have hm : c ∈ todo := by simpa using hmem
    have h2 := List.length_erase_of_mem hm
    have h3 : 0 < todo.length := List.length_pos_of_mem hm
    simp only [mu, hcomp, Comp.weight, h2]
    omega
  case bcastDone =>
    split at hs <;> try (simp at hs; done)
    rename_i hcomp
    simp only [Option.some.injEq] at hs; subst hs
    simp only [mu, hcomp, Comp.weight]; simp
  case acceptFail c =>
    split at hs <;> try (simp at hs; done)
    rename_i cl hc
    split at hs <;> try (simp at hs; done)
    rename_i hpc
    simp only [Option.some.injEq] at hs; subst hs
    have h1 := clientsWeight_upd c (fun x => { x with pc := .gone }) s.clients cl hc
    simp only [Client.weight, hpc, CPc.weight] at h1
    simp only [mu, upd_length]; omega
  case register c =>
    split at hs <;> try (simp at hs; done)
    exact mu_cstep hs (by intro c0 _ hg; simp only [decide_eq_true_eq] at hg; simp [Client.weight, hg, CPc.weight])
  case readRes c =>
    exact mu_cstep hs (by intro c0 _ hg; simp only [decide_eq_true_eq] at hg; simp [Client.weight, hg, CPc.weight])
  case readLog c r =>
    exact mu_cstep hs (by
      intro c0 _ hg; simp only [decide_eq_true_eq] at hg
      cases r <;> simp [Client.weight, hg, CPc.weight])
  case write c v ok =>
    split at hs <;> try (simp at hs; done)
    rename_i cl hc
    split at hs <;> try (simp at hs; done)
    rename_i hpc
    split at hs
    · simp only [Option.some.injEq] at hs; subst hs
      have h1 := clientsWeight_upd c (fun x => { x with pc := .waiting, sent := x.sent ++ [v] }) s.clients cl hc
      simp only [Client.weight, hpc, CPc.weight] at h1
      simp only [mu, upd_length]; omega
    · split at hs <;> try (simp at hs; done)
      simp only [Option.some.injEq] at hs; subst hs
      have h1 := clientsWeight_upd c (fun x => { x with pc := .leaving }) s.clients cl hc
      simp only [Client.weight, hpc, CPc.weight] at h1
      simp only [mu, upd_length]; omega
  case recvWake c =>
    exact mu_cstep hs (by
      intro c0 _ hg
      simp only [Bool.and_eq_true, decide_eq_true_eq] at hg
      simp [Client.weight, hg.1, hg.2, CPc.weight])
  case woken c =>
    exact mu_cstep hs (by intro c0 _ hg; simp only [decide_eq_true_eq] at hg; simp [Client.weight, hg, CPc.weight])
  case ctxDone c =>
    exact mu_cstep hs (by
      intro c0 _ hg
      simp only [Bool.and_eq_true, decide_eq_true_eq] at hg
      simp [Client.weight, hg.1, CPc.weight])
  case unregister c =>
    split at hs <;> try (simp at hs; done)
    exact mu_cstep hs (by intro c0 _ hg; simp only [decide_eq_true_eq] at hg; simp [Client.weight, hg, CPc.weight])
  case exit c =>
    exact mu_cstep hs (by intro c0 _ hg; simp only [decide_eq_true_eq] at hg; simp [Client.weight, hg, CPc.weight])
  case done c =>
    split at hs <;> try (simp at hs; done)
    rename_i cl hc
    split at hs <;> try (simp at hs; done)
    rename_i hpc
    simp only [Option.some.injEq] at hs; subst hs
    have h1 := clientsWeight_upd c (fun x => { x with pc := .gone }) s.clients cl hc
    simp only [Client.weight, hpc, CPc.weight] at h1
    simp only [mu, upd_length]; omega
  case cancel =>
    split at hs <;> try (simp at hs; done)
    rename_i hcl
    split at hs <;> try (simp at hs; done)
    rename_i hcan
    simp only [Option.some.injEq] at hs; subst hs
    have : s.cancelled = false := by simpa using hcan
    simp only [mu, hcl, ClosePc.weight, this]; simp
  case closeWait =>
    split at hs <;> try (simp at hs; done)
    rename_i hcl
    split at hs <;> try (simp at hs; done)
    rename_i hcan
    simp only [Option.some.injEq] at hs; subst hs
    simp only [mu, hcl, ClosePc.weight, hcan]; simp
  case closeReturn =>
    split at hs <;> try (simp at hs; done)
    rename_i hcl
    split at hs <;> try (simp at hs; done)
    simp only [Option.some.injEq] at hs; subst hs
    simp only [mu, hcl, ClosePc.weight]; simp


/-! ### quiescence -/

theorem quiescent_spec (s : State) (hq : quiescent s = true) (st : Step) (hm : st ∈ internalCandidates s)
    (he : external s st = false) : step s st = none := by
  unfold quiescent at hq
  have := List.all_eq_true.mp hq st hm
  simp only [he, Bool.false_or, Option.isNone_iff_eq_none] at this
  exact this

theorem mem_cand_global (s : State) (st : Step)
    (h : st ∈ [Step.request, .sendReq, .recv, .compileStart, .fileRead, .bcastLock, .bcastDone, .cancel, .closeWait, .closeReturn]) :
    st ∈ internalCandidates s := by
  unfold internalCandidates
  simp only [List.mem_append]
  exact Or.inl (Or.inl h)

theorem mem_cand_client (s : State) (i : Nat) (hi : i < s.clients.length) (st : Step)
    (h : st ∈ [Step.wake i, .wakeCoalesced i, .acceptFail i, .register i, .readRes i, .recvWake i, .woken i, .ctxDone i,
       .unregister i, .exit i, .done i]) : st ∈ internalCandidates s := by
  unfold internalCandidates
  simp only [List.mem_append, List.mem_flatMap, List.mem_range]
  exact Or.inr ⟨i, hi, Or.inl h⟩

theorem mem_cand_readLog (s : State) (i : Nat) (c : Client) (r : Option Ver) (hc : s.clients[i]? = some c)
    (hp : c.pc = .haveRes r) : Step.readLog i r ∈ internalCandidates s := by
  have hi : i < s.clients.length := (List.getElem?_eq_some_iff.mp hc).1
  unfold internalCandidates
  simp only [List.mem_append, List.mem_flatMap, List.mem_range]
  exact Or.inr ⟨i, hi, Or.inr (by simp [hc, hp])⟩

theorem mem_cand_write (s : State) (i : Nat) (c : Client) (v : Ver) (hc : s.clients[i]? = some c)
    (hp : c.pc = .writing v) : Step.write i v true ∈ internalCandidates s := by
  have hi : i < s.clients.length := (List.getElem?_eq_some_iff.mp hc).1
  unfold internalCandidates
  simp only [List.mem_append, List.mem_flatMap, List.mem_range]
  exact Or.inr ⟨i, hi, Or.inr (by simp [hc, hp])⟩

/-- what quiescence says about the compile side -/
theorem quiescent_global (s : State) (hf : InvFresh s) (hq : quiescent s = true) :
    s.dirty = false ∧ s.reqPending = 0 ∧ s.comp = .idle ∧ s.compileCh = false := by
  have q := quiescent_spec s hq
  have hd : s.dirty = false := by
    cases h : s.dirty with
    | false => rfl
    | true =>
      have := q .request (mem_cand_global s _ (by simp)) (by simp [external, h])
      simp [step] at this
  have hrp : s.reqPending = 0 := by
    cases h : s.reqPending with
    | zero => rfl
    | succ p =>
      have := q .sendReq (mem_cand_global s _ (by simp)) rfl
      simp [step, h] at this
  have hcomp : s.comp = .idle := by
    cases h : s.comp with
    | idle => rfl
    | recvd => have := q .compileStart (mem_cand_global s _ (by simp)) rfl; simp [step, h] at this
    | started => have := q .fileRead (mem_cand_global s _ (by simp)) rfl; simp [step, h] at this
    | compiling v =>
      have hm : Step.compileEnd v ∈ internalCandidates s := by
        unfold internalCandidates; simp [h]
      have := q (.compileEnd v) hm rfl; simp [step, h] at this
    | ended v =>
      have hm : Step.setRes v ∈ internalCandidates s := by
        unfold internalCandidates; simp [h]
      have := q (.setRes v) hm rfl; simp [step, h] at this
    | published v => have := q .bcastLock (mem_cand_global s _ (by simp)) rfl; simp [step, h] at this
    | waking v todo =>
      cases todo with
      | nil => have := q .bcastDone (mem_cand_global s _ (by simp)) rfl; simp [step, h] at this
      | cons j t =>
        have hj : j < s.clients.length := hf.todoValid v (j :: t) h j (by simp)
        obtain ⟨cl, hcl⟩ : ∃ cl, s.clients[j]? = some cl := ⟨s.clients[j], List.getElem?_eq_getElem hj⟩
        cases hch : cl.ch with
        | true =>
          have := q (.wakeCoalesced j) (mem_cand_client s j hj _ (by simp)) rfl
          simp [step, h, hcl, hch] at this
        | false =>
          have := q (.wake j) (mem_cand_client s j hj _ (by simp)) rfl
          simp [step, h, hcl, hch] at this
  have hch : s.compileCh = false := by
    cases h : s.compileCh with
    | false => rfl
    | true => have := q .recv (mem_cand_global s _ (by simp)) rfl; simp [step, hcomp, h] at this
  exact ⟨hd, hrp, hcomp, hch⟩

/-- what quiescence says about a client in the map: it is blocked in the select, no wake-up pending, peer alive -/
theorem quiescent_client (s : State) (hcomp : s.comp = .idle) (hq : quiescent s = true) (i : Nat) (c : Client)
    (hc : s.clients[i]? = some c) (hm : c.pc.inMap = true) :
    c.pc = .waiting ∧ c.ch = false ∧ c.dropped = false ∧ s.cancelled = false := by
  have q := quiescent_spec s hq
  have hi : i < s.clients.length := (List.getElem?_eq_some_iff.mp hc).1
  have hlock : lockFree s = true := by simp [lockFree, hcomp]
  cases hp : c.pc with
  | admitted => rw [hp] at hm; simp [CPc.inMap] at hm
  | loopHead =>
    have := q (.readRes i) (mem_cand_client s i hi _ (by simp)) rfl
    simp [step, cstep, hc, hp] at this
  | haveRes r =>
    have := q (.readLog i r) (mem_cand_readLog s i c r hc hp) rfl
    simp [step, cstep, hc, hp] at this
  | writing v =>
    have := q (.write i v true) (mem_cand_write s i c v hc hp) rfl
    simp [step, hc, hp] at this
  | waiting =>
    have h1 : c.ch = false := by
      cases h : c.ch with
      | false => rfl
      | true =>
        have := q (.recvWake i) (mem_cand_client s i hi _ (by simp)) rfl
        simp [step, cstep, hc, hp, h] at this
    have h2 : (c.dropped || s.cancelled) = false := by
      cases h : (c.dropped || s.cancelled) with
      | false => rfl
      | true =>
        have := q (.ctxDone i) (mem_cand_client s i hi _ (by simp)) rfl
        simp only [step, cstep, hc, hp, h, decide_true, Bool.and_self, if_true] at this
        simp at this
    simp only [Bool.or_eq_false_iff] at h2
    exact ⟨rfl, h1, h2.1, h2.2⟩
  | wokenUp =>
    have := q (.woken i) (mem_cand_client s i hi _ (by simp)) rfl
    simp [step, cstep, hc, hp] at this
  | leaving =>
    have := q (.unregister i) (mem_cand_client s i hi _ (by simp)) rfl
    simp [step, cstep, hc, hp, hlock] at this
  | unregistered => rw [hp] at hm; simp [CPc.inMap] at hm
  | exited => rw [hp] at hm; simp [CPc.inMap] at hm
  | gone => rw [hp] at hm; simp [CPc.inMap] at hm
  | refused => rw [hp] at hm; simp [CPc.inMap] at hm




theorem idx_of_some {cs : List Client} {i : Nat} {c : Client} (h : cs[i]? = some c) : i < cs.length :=
  (List.getElem?_eq_some_iff.mp h).1

/-- `internalCandidates` misses nothing: every enabled step that is not the environment's is one of them -/
theorem enabled_mem (s s' : State) (st : Step) (hs : step s st = some s') (he : external s st = false) :
    st ∈ internalCandidates s := by
  cases st <;> simp only [external] at he <;> try (simp at he; done)
  case request => exact mem_cand_global s _ (by simp)
  case sendReq => exact mem_cand_global s _ (by simp)
  case recv => exact mem_cand_global s _ (by simp)
  case compileStart => exact mem_cand_global s _ (by simp)
  case fileRead => exact mem_cand_global s _ (by simp)
  case bcastLock => exact mem_cand_global s _ (by simp)
  case bcastDone => exact mem_cand_global s _ (by simp)
  case cancel => exact mem_cand_global s _ (by simp)
  case closeWait => exact mem_cand_global s _ (by simp)
  case closeReturn => exact mem_cand_global s _ (by simp)
  case compileEnd v =>
    simp only [step] at hs
    split at hs <;> try (simp at hs; done)
    rename_i w hcomp
    split at hs <;> try (simp at hs; done)
    rename_i hvw; subst hvw
    unfold internalCandidates; simp [hcomp]
  case setRes v =>
    simp only [step] at hs
    split at hs <;> try (simp at hs; done)
    rename_i w hcomp
    split at hs <;> try (simp at hs; done)
    rename_i hvw; subst hvw
    unfold internalCandidates; simp [hcomp]
  case wake c =>
    simp only [step] at hs
    split at hs <;> try (simp at hs; done)
    split at hs <;> try (simp at hs; done)
    split at hs <;> try (simp at hs; done)
    rename_i cl hc
    exact mem_cand_client s c (idx_of_some hc) _ (by simp)
  case wakeCoalesced c =>
    simp only [step] at hs
    split at hs <;> try (simp at hs; done)
    split at hs <;> try (simp at hs; done)
    split at hs <;> try (simp at hs; done)
    rename_i cl hc
    exact mem_cand_client s c (idx_of_some hc) _ (by simp)
  case acceptFail c =>
    simp only [step] at hs
    split at hs <;> try (simp at hs; done)
    rename_i cl hc
    exact mem_cand_client s c (idx_of_some hc) _ (by simp)
  case register c =>
    simp only [step, cstep] at hs
    split at hs <;> try (simp at hs; done)
    split at hs <;> try (simp at hs; done)
    rename_i cl hc
    exact mem_cand_client s c (idx_of_some hc) _ (by simp)
  case readRes c =>
    simp only [step, cstep] at hs
    split at hs <;> try (simp at hs; done)
    rename_i cl hc
    exact mem_cand_client s c (idx_of_some hc) _ (by simp)
  case readLog c r =>
    simp only [step, cstep] at hs
    split at hs <;> try (simp at hs; done)
    rename_i cl hc
    split at hs <;> try (simp at hs; done)
    rename_i hg
    exact mem_cand_readLog s c cl r hc (by simpa using hg)
  case write c v ok =>
    simp only [step] at hs
    split at hs <;> try (simp at hs; done)
    rename_i cl hc
    split at hs <;> try (simp at hs; done)
    rename_i hpc
    have hi := idx_of_some hc
    unfold internalCandidates
    simp only [List.mem_append, List.mem_flatMap, List.mem_range]
    refine Or.inr ⟨c, hi, Or.inr ?_⟩
    cases ok <;> simp [hc, hpc]
  case recvWake c =>
    simp only [step, cstep] at hs
    split at hs <;> try (simp at hs; done)
    rename_i cl hc
    exact mem_cand_client s c (idx_of_some hc) _ (by simp)
  case woken c =>
    simp only [step, cstep] at hs
    split at hs <;> try (simp at hs; done)
    rename_i cl hc
    exact mem_cand_client s c (idx_of_some hc) _ (by simp)
  case ctxDone c =>
    simp only [step, cstep] at hs
    split at hs <;> try (simp at hs; done)
    rename_i cl hc
    exact mem_cand_client s c (idx_of_some hc) _ (by simp)
  case unregister c =>
    simp only [step, cstep] at hs
    split at hs <;> try (simp at hs; done)
    split at hs <;> try (simp at hs; done)
    rename_i cl hc
    exact mem_cand_client s c (idx_of_some hc) _ (by simp)
  case exit c =>
    simp only [step, cstep] at hs
    split at hs <;> try (simp at hs; done)
    rename_i cl hc
    exact mem_cand_client s c (idx_of_some hc) _ (by simp)
  case done c =>
    simp only [step] at hs
    split at hs <;> try (simp at hs; done)
    rename_i cl hc
    exact mem_cand_client s c (idx_of_some hc) _ (by simp)

/-- so `quiescent` means exactly: no step of the program itself is enabled -/
theorem quiescent_iff (s : State) :
    quiescent s = true ↔ ∀ st, external s st = false → step s st = none := by
  constructor
  · intro hq st he
    cases hs : step s st with
    | none => rfl
    | some s' =>
      have := quiescent_spec s hq st (enabled_mem s s' st hs he) he
      rw [hs] at this; simp at this
  · intro h
    unfold quiescent
    apply List.all_eq_true.mpr
    intro st _
    cases he : external s st with
    | true => simp
    | false => simp [h st he]


end D2V.Watch
