import D2V.Proofs.PathLemmas
/-! The output-path derivation of `render` on element lists, and its agreement with the string-level model. -/
namespace D2V.Path

/-- effects with paths as element lists below "/" -/
inductive AEv where
  | rm (q : List Str)
  | wr (q : List Str)

def AEv.path : AEv → List Str
  | .rm q => q
  | .wr q => q

def AEv.toEv (e : Str) : AEv → Ev
  | .rm q => .removeAll ('/' :: inter q)
  | .wr q => .write ('/' :: inter q ++ e)

mutual
def renderA (S : List Str) : Board → List AEv
  | .mk name fo ls ss st =>
    let P := if name ≠ [] then S ++ [name] else S
    let has := !(ls.isEmpty && ss.isEmpty && st.isEmpty)
    let pre := if has then [AEv.rm P] else []
    let own := if has then P ++ [sIndex] else P
    let lp := if !ss.isEmpty || !st.isEmpty then P ++ [sLayers] else P
    let sp := if !ls.isEmpty || !st.isEmpty then P ++ [sScenarios] else P
    let tp := if !ls.isEmpty || !ss.isEmpty then P ++ [sSteps] else P
    pre ++ renderAL lp ls ++ renderAL sp ss ++ renderAL tp st ++ (if fo then [] else [AEv.wr own])
def renderAL (S : List Str) : List Board → List AEv
  | [] => []
  | b :: r => renderA S b ++ renderAL S r
end

mutual
/-- every board name is an ordinary path element (the root's may be empty) -/
def SafeB : Board → Prop
  | .mk name _ ls ss st => (name = [] ∨ Normal name) ∧ SafeL ls ∧ SafeL ss ∧ SafeL st
def SafeL : List Board → Prop
  | [] => True
  | b :: r => SafeB b ∧ SafeL r
end

theorem normal_index : Normal sIndex := by
  refine ⟨by decide, ?_, by decide, by decide⟩
  unfold NoSlash; decide
theorem normal_layers : Normal sLayers := by
  refine ⟨by decide, ?_, by decide, by decide⟩
  unfold NoSlash; decide
theorem normal_scenarios : Normal sScenarios := by
  refine ⟨by decide, ?_, by decide, by decide⟩
  unfold NoSlash; decide
theorem normal_steps : Normal sSteps := by
  refine ⟨by decide, ?_, by decide, by decide⟩
  unfold NoSlash; decide

theorem all_normal_snoc {S : List Str} {n : Str} (hS : ∀ c ∈ S, Normal c) (hn : Normal n) : ∀ c ∈ S ++ [n], Normal c := by
  intro c hc
  rcases List.mem_append.mp hc with h | h
  · exact hS c h
  · simp at h; subst h; exact hn

mutual
/-- for safe names the string-level derivation (`filepath.Ext/TrimSuffix/Join` on every level) is "append one element" -/
theorem bridgeB (e : Str) (he : GoodExt e) : ∀ (b : Board) (S : List Str), (∀ c ∈ S, Normal c) → S ≠ [] → SafeB b →
    renderB ('/' :: inter S ++ e) b = (renderA S b).map (AEv.toEv e)
  | .mk name fo ls ss st, S, hS, hne, hsafe => by
    obtain ⟨hname, hl, hs, ht⟩ := hsafe
    -- the board's own path
    have hP : ∃ P, (∀ c ∈ P, Normal c) ∧ P ≠ [] ∧ (if name ≠ [] then S ++ [name] else S) = P ∧
        (if name ≠ [] then withSub ('/' :: inter S ++ e) name else '/' :: inter S ++ e) = '/' :: inter P ++ e := by
      by_cases hn : name = []
      · exact ⟨S, hS, hne, by simp [hn], by simp [hn]⟩
      · have hnn : Normal name := by rcases hname with h | h; exact absurd h hn; exact h
        refine ⟨S ++ [name], all_normal_snoc hS hnn, by simp, by simp [hn], ?_⟩
        rw [if_pos hn]
        exact withSub_abs S e name hS hne he hnn
    obtain ⟨P, hPn, hPne, hPeq, hop⟩ := hP
    have sub := fun (k : Str) (hk : Normal k) => withSub_abs P e k hPn hPne he hk
    have nsnoc := fun (k : Str) (hk : Normal k) => all_normal_snoc hPn hk
    have hL : ∀ (c : Bool), renderL (if c then withSub ('/' :: inter P ++ e) sLayers else '/' :: inter P ++ e) ls =
        (renderAL (if c then P ++ [sLayers] else P) ls).map (AEv.toEv e) := by
      intro c; cases c
      · exact bridgeL e he ls P hPn hPne hl
      · show renderL (withSub ('/' :: inter P ++ e) sLayers) ls = _
        rw [sub sLayers normal_layers]
        exact bridgeL e he ls (P ++ [sLayers]) (nsnoc _ normal_layers) (by simp) hl
    have hS' : ∀ (c : Bool), renderL (if c then withSub ('/' :: inter P ++ e) sScenarios else '/' :: inter P ++ e) ss =
        (renderAL (if c then P ++ [sScenarios] else P) ss).map (AEv.toEv e) := by
      intro c; cases c
      · exact bridgeL e he ss P hPn hPne hs
      · show renderL (withSub ('/' :: inter P ++ e) sScenarios) ss = _
        rw [sub sScenarios normal_scenarios]
        exact bridgeL e he ss (P ++ [sScenarios]) (nsnoc _ normal_scenarios) (by simp) hs
    have hT : ∀ (c : Bool), renderL (if c then withSub ('/' :: inter P ++ e) sSteps else '/' :: inter P ++ e) st =
        (renderAL (if c then P ++ [sSteps] else P) st).map (AEv.toEv e) := by
      intro c; cases c
      · exact bridgeL e he st P hPn hPne ht
      · show renderL (withSub ('/' :: inter P ++ e) sSteps) st = _
        rw [sub sSteps normal_steps]
        exact bridgeL e he st (P ++ [sSteps]) (nsnoc _ normal_steps) (by simp) ht
    simp only [renderB, renderA]
    rw [hPeq, hop]
    generalize (!(ls.isEmpty && ss.isEmpty && st.isEmpty)) = has
    generalize (!ss.isEmpty || !st.isEmpty) = c1
    generalize (!ls.isEmpty || !st.isEmpty) = c2
    generalize (!ls.isEmpty || !ss.isEmpty) = c3
    rw [hL c1, hS' c2, hT c3, stripExt_append _ e he]
    have hidx := sub sIndex normal_index
    cases has <;> cases fo <;> simp [AEv.toEv] <;> exact hidx
theorem bridgeL (e : Str) (he : GoodExt e) : ∀ (bs : List Board) (S : List Str), (∀ c ∈ S, Normal c) → S ≠ [] → SafeL bs →
    renderL ('/' :: inter S ++ e) bs = (renderAL S bs).map (AEv.toEv e)
  | [], _, _, _, _ => by simp [renderL, renderAL]
  | b :: r, S, hS, hne, hsafe => by
    simp only [renderL, renderAL, List.map_append]
    rw [bridgeB e he b S hS hne hsafe.1, bridgeL e he r S hS hne hsafe.2]
end

end D2V.Path

namespace D2V.Path

/-! ### where the effects of a board land -/

def boardPath (S : List Str) (b : Board) : List Str := if b.name ≠ [] then S ++ [b.name] else S

theorem prefix_boardPath (S : List Str) (b : Board) : S <+: boardPath S b := by
  unfold boardPath; split
  · exact List.prefix_append _ _
  · exact List.prefix_refl _

theorem prefix_snoc_of_prefix {S P : List Str} (k : Str) (h : S <+: P) : S <+: P ++ [k] :=
  List.IsPrefix.trans h (List.prefix_append _ _)

mutual
/-- every effect of a board lies at or below the board's own path -/
theorem insideB : ∀ (b : Board) (S : List Str) (ev : AEv), ev ∈ renderA S b → boardPath S b <+: ev.path
  | .mk name fo ls ss st, S, ev, h => by
    simp only [renderA, List.mem_append] at h
    have hbp : boardPath S (.mk name fo ls ss st) = (if name ≠ [] then S ++ [name] else S) := rfl
    rw [hbp]
    generalize (if name ≠ [] then S ++ [name] else S) = P at h ⊢
    have sub : ∀ (c : Bool) (k : Str), P <+: (if c then P ++ [k] else P) := by
      intro c k; cases c
      · exact List.prefix_refl _
      · exact List.prefix_append _ _
    rcases h with (((h | h) | h) | h) | h
    · split at h
      · simp at h; subst h; exact List.prefix_refl _
      · simp at h
    · have := insideL ls _ ev h
      exact List.IsPrefix.trans (sub (!ss.isEmpty || !st.isEmpty) sLayers) this
    · have := insideL ss _ ev h
      exact List.IsPrefix.trans (sub (!ls.isEmpty || !st.isEmpty) sScenarios) this
    · have := insideL st _ ev h
      exact List.IsPrefix.trans (sub (!ls.isEmpty || !ss.isEmpty) sSteps) this
    · cases fo
      · simp at h; subst h
        simp only [AEv.path]
        split
        · exact List.prefix_append _ _
        · exact List.prefix_refl _
      · simp at h
theorem insideL : ∀ (bs : List Board) (S : List Str) (ev : AEv), ev ∈ renderAL S bs → S <+: ev.path
  | [], _, _, h => by simp [renderAL] at h
  | b :: r, S, ev, h => by
    simp only [renderAL, List.mem_append] at h
    rcases h with h | h
    · exact List.IsPrefix.trans (prefix_boardPath S b) (insideB b S ev h)
    · exact insideL r S ev h
end

/-- effects of a list of sub-boards: below `S/<name of one of them>` -/
theorem insideL_name : ∀ (bs : List Board) (S : List Str) (ev : AEv), (∀ b ∈ bs, b.name ≠ []) → ev ∈ renderAL S bs →
    ∃ c ∈ bs, (S ++ [c.name]) <+: ev.path
  | [], _, _, _, h => by simp [renderAL] at h
  | b :: r, S, ev, hn, h => by
    simp only [renderAL, List.mem_append] at h
    rcases h with h | h
    · refine ⟨b, by simp, ?_⟩
      have := insideB b S ev h
      simpa [boardPath, hn b (by simp)] using this
    · obtain ⟨c, hc, hp⟩ := insideL_name r S ev (fun x hx => hn x (by simp [hx])) h
      exact ⟨c, by simp [hc], hp⟩

end D2V.Path

namespace D2V.Path

/-! ### one file per board -/

def awrites (evs : List AEv) : List (List Str) := evs.filterMap fun | .wr q => some q | _ => none

theorem awrites_append (a b : List AEv) : awrites (a ++ b) = awrites a ++ awrites b := by
  simp [awrites, List.filterMap_append]

theorem mem_awrites {evs : List AEv} {q : List Str} (h : q ∈ awrites evs) : ∃ ev ∈ evs, ev.path = q := by
  simp only [awrites, List.mem_filterMap] at h
  obtain ⟨ev, hev, he⟩ := h
  cases ev with
  | rm p => simp at he
  | wr p => simp at he; exact ⟨_, hev, by simp [AEv.path, he]⟩

theorem mem_renderAL {bs : List Board} {S : List Str} {q : List Str} (h : q ∈ awrites (renderAL S bs)) :
    ∃ d ∈ bs, q ∈ awrites (renderA S d) := by
  induction bs with
  | nil => simp [renderAL, awrites] at h
  | cons b r ih =>
    simp only [renderAL, awrites_append, List.mem_append] at h
    rcases h with h | h
    · exact ⟨b, by simp, h⟩
    · obtain ⟨d, hd, hq⟩ := ih h
      exact ⟨d, by simp [hd], hq⟩

theorem snoc_prefix_inj {P q : List Str} {a b : Str} (ha : (P ++ [a]) <+: q) (hb : (P ++ [b]) <+: q) : a = b := by
  have h1 : (P ++ [a]) <+: (P ++ [b]) := List.prefix_of_prefix_length_le ha hb (by simp)
  have h2 := List.IsPrefix.eq_of_length h1 (by simp)
  exact List.singleton_inj.mp (List.append_cancel_left h2)

def namesOK (bs : List Board) : Prop := (bs.map Board.name).Nodup ∧ ∀ b ∈ bs, b.name ≠ []

/-- a sub-board named `index` directly in its parent's directory must itself be a directory (have sub-boards) -/
def indexOK (single : Bool) (bs : List Board) : Prop := single = true → ∀ c ∈ bs, c.name = sIndex → c.hasKids = true

mutual
def GoodB : Board → Prop
  | .mk _ _ ls ss st => namesOK ls ∧ namesOK ss ∧ namesOK st ∧
      indexOK (ss.isEmpty && st.isEmpty) ls ∧ indexOK (ls.isEmpty && st.isEmpty) ss ∧ indexOK (ls.isEmpty && ss.isEmpty) st ∧
      GoodL ls ∧ GoodL ss ∧ GoodL st
def GoodL : List Board → Prop
  | [] => True
  | b :: r => GoodB b ∧ GoodL r
end

theorem goodL_mem {bs : List Board} (h : GoodL bs) {b : Board} (hb : b ∈ bs) : GoodB b := by
  induction bs with
  | nil => cases hb
  | cons x r ih =>
    rcases List.mem_cons.mp hb with e | e
    · subst e; exact h.1
    · exact ih h.2 e

/-- the files of a board that has sub-boards lie at least two levels below where the board was put -/
theorem deepB (b : Board) (S : List Str) (hg : GoodB b) (hk : b.hasKids = true) (hn : b.name ≠ []) :
    ∀ q ∈ awrites (renderA S b), S.length + 2 ≤ q.length := by
  cases b with
  | mk name fo ls ss st =>
    intro q hq
    obtain ⟨nl, ns, nt, _, _, _, _, _, _⟩ := hg
    have hn' : name ≠ [] := hn
    have hk' : (!(ls.isEmpty && ss.isEmpty && st.isEmpty)) = true := hk
    simp only [renderA] at hq
    rw [hk', if_pos hn'] at hq
    generalize (!ss.isEmpty || !st.isEmpty) = c1 at hq
    generalize (!ls.isEmpty || !st.isEmpty) = c2 at hq
    generalize (!ls.isEmpty || !ss.isEmpty) = c3 at hq
    simp only [awrites_append, List.mem_append] at hq
    have grp : ∀ (c : Bool) (k : Str) (bs : List Board), namesOK bs →
        q ∈ awrites (renderAL (if c = true then S ++ [name] ++ [k] else S ++ [name]) bs) → S.length + 2 ≤ q.length := by
      intro c k bs hok h
      obtain ⟨ev, hev, hp⟩ := mem_awrites h
      obtain ⟨d, _, hpre⟩ := insideL_name bs _ ev hok.2 hev
      rw [hp] at hpre
      have := List.IsPrefix.length_le hpre
      cases c <;> simp at this <;> omega
    rcases hq with (((h | h) | h) | h) | h
    · simp [awrites] at h
    · exact grp c1 sLayers ls nl h
    · exact grp c2 sScenarios ss ns h
    · exact grp c3 sSteps st nt h
    · cases fo
      · simp [awrites] at h; subst h; simp
      · simp [awrites] at h

end D2V.Path

namespace D2V.Path

theorem awrites_renderAL_nil (S : List Str) : awrites (renderAL S []) = [] := rfl

/-- files of two groups of sub-boards that sit in different sub-directories never coincide -/
theorem groups_disjoint (P : List Str) (k1 k2 : Str) (hk : k1 ≠ k2) (c1 c2 : Bool) (b1 b2 : List Board)
    (hc1 : b2 ≠ [] → c1 = true) (hc2 : b1 ≠ [] → c2 = true) (h1 : namesOK b1) (h2 : namesOK b2) :
    ∀ x ∈ awrites (renderAL (if c1 = true then P ++ [k1] else P) b1),
    ∀ y ∈ awrites (renderAL (if c2 = true then P ++ [k2] else P) b2), x ≠ y := by
  intro x hx y hy hxy
  subst hxy
  have hb1 : b1 ≠ [] := by intro e; subst e; simp [awrites_renderAL_nil] at hx
  have hb2 : b2 ≠ [] := by intro e; subst e; simp [awrites_renderAL_nil] at hy
  rw [hc1 hb2] at hx
  rw [hc2 hb1] at hy
  obtain ⟨e1, he1, hp1⟩ := mem_awrites hx
  obtain ⟨e2, he2, hp2⟩ := mem_awrites hy
  have i1 := insideL b1 _ e1 he1
  have i2 := insideL b2 _ e2 he2
  rw [hp1] at i1; rw [hp2] at i2
  simp only [if_true] at i1 i2
  exact hk (snoc_prefix_inj i1 i2)

/-- the board's own `index` file is not a file of one of its sub-boards -/
theorem own_not_in_group (P : List Str) (k : Str) (hk : k ≠ sIndex) (c : Bool) (bs : List Board)
    (hok : namesOK bs) (hg : GoodL bs) (hidx : indexOK (!c) bs) :
    (P ++ [sIndex]) ∉ awrites (renderAL (if c = true then P ++ [k] else P) bs) := by
  intro h
  obtain ⟨d, hd, hq⟩ := mem_renderAL h
  obtain ⟨ev, hev, hp⟩ := mem_awrites hq
  have hin := insideB d _ ev hev
  rw [hp] at hin
  have hdn : d.name ≠ [] := hok.2 d hd
  simp only [boardPath, hdn, ne_eq, not_false_eq_true, if_true] at hin
  cases c with
  | true =>
    simp only [if_true] at hin
    have := List.IsPrefix.length_le hin
    simp at this
  | false =>
    simp only [Bool.false_eq_true, if_false] at hin hq
    have hname : d.name = sIndex := by
      have h2 := List.IsPrefix.eq_of_length hin (by simp)
      exact List.singleton_inj.mp (List.append_cancel_left h2)
    have hkids := hidx (by simp) d hd hname
    have := deepB d P (goodL_mem hg hd) hkids hdn _ hq
    simp at this

mutual
theorem distinctB : ∀ (b : Board) (S : List Str), GoodB b → (awrites (renderA S b)).Nodup
  | .mk name fo ls ss st, S, hg => by
    obtain ⟨nl, ns, nt, il, is', it, gl, gs, gt⟩ := hg
    simp only [renderA]
    generalize (if name ≠ [] then S ++ [name] else S) = P
    have dl := fun S => distinctL ls S gl nl
    have ds := fun S => distinctL ss S gs ns
    have dt := fun S => distinctL st S gt nt
    -- conditions, as Booleans
    have e1 : (!ss.isEmpty || !st.isEmpty) = !(ss.isEmpty && st.isEmpty) := by cases ss.isEmpty <;> cases st.isEmpty <;> rfl
    have e2 : (!ls.isEmpty || !st.isEmpty) = !(ls.isEmpty && st.isEmpty) := by cases ls.isEmpty <;> cases st.isEmpty <;> rfl
    have e3 : (!ls.isEmpty || !ss.isEmpty) = !(ls.isEmpty && ss.isEmpty) := by cases ls.isEmpty <;> cases ss.isEmpty <;> rfl
    have nel : ∀ {l : List Board}, l ≠ [] → l.isEmpty = false := by intro l h; cases l <;> simp_all
    have c1s : ss ≠ [] → (!ss.isEmpty || !st.isEmpty) = true := by intro h; simp [nel h]
    have c1t : st ≠ [] → (!ss.isEmpty || !st.isEmpty) = true := by intro h; simp [nel h]
    have c2l : ls ≠ [] → (!ls.isEmpty || !st.isEmpty) = true := by intro h; simp [nel h]
    have c2t : st ≠ [] → (!ls.isEmpty || !st.isEmpty) = true := by intro h; simp [nel h]
    have c3l : ls ≠ [] → (!ls.isEmpty || !ss.isEmpty) = true := by intro h; simp [nel h]
    have c3s : ss ≠ [] → (!ls.isEmpty || !ss.isEmpty) = true := by intro h; simp [nel h]
    have il' : indexOK (!(!ss.isEmpty || !st.isEmpty)) ls := by rw [e1]; simpa using il
    have is'' : indexOK (!(!ls.isEmpty || !st.isEmpty)) ss := by rw [e2]; simpa using is'
    have it' : indexOK (!(!ls.isEmpty || !ss.isEmpty)) st := by rw [e3]; simpa using it
    have dLS := groups_disjoint P sLayers sScenarios (by decide) _ _ ls ss c1s c2l nl ns
    have dLT := groups_disjoint P sLayers sSteps (by decide) _ _ ls st c1t c3l nl nt
    have dST := groups_disjoint P sScenarios sSteps (by decide) _ _ ss st c2t c3s ns nt
    have oL := own_not_in_group P sLayers (by decide) _ ls nl gl il'
    have oS := own_not_in_group P sScenarios (by decide) _ ss ns gs is''
    have oT := own_not_in_group P sSteps (by decide) _ st nt gt it'
    generalize (!ss.isEmpty || !st.isEmpty) = c1 at *
    generalize (!ls.isEmpty || !st.isEmpty) = c2 at *
    generalize (!ls.isEmpty || !ss.isEmpty) = c3 at *
    have hpre : awrites (if (!(ls.isEmpty && ss.isEmpty && st.isEmpty)) = true then [AEv.rm P] else []) = [] := by
      split <;> rfl
    simp only [awrites_append, hpre, List.nil_append]
    -- the three groups
    have n3 : (awrites (renderAL (if c1 = true then P ++ [sLayers] else P) ls) ++
        awrites (renderAL (if c2 = true then P ++ [sScenarios] else P) ss) ++
        awrites (renderAL (if c3 = true then P ++ [sSteps] else P) st)).Nodup := by
      rw [List.nodup_append, List.nodup_append]
      refine ⟨⟨dl _, ds _, dLS⟩, dt _, ?_⟩
      intro x hx y hy
      rcases List.mem_append.mp hx with h | h
      · exact dLT x h y hy
      · exact dST x h y hy
    rw [List.nodup_append]
    refine ⟨n3, ?_, ?_⟩
    · cases fo <;> simp [awrites]
    · intro x hx y hy
      cases fo with
      | true => simp [awrites] at hy
      | false =>
        simp only [Bool.false_eq_true, if_false, awrites, List.filterMap_cons, List.filterMap_nil,
          List.mem_singleton] at hy
        subst hy
        by_cases hk : (!(ls.isEmpty && ss.isEmpty && st.isEmpty)) = true
        · simp only [hk, if_true]
          intro e; subst e
          rcases List.mem_append.mp hx with h | h
          · rcases List.mem_append.mp h with h | h
            · exact oL h
            · exact oS h
          · exact oT h
        · -- no sub-boards: the groups are empty
          have : ls = [] ∧ ss = [] ∧ st = [] := by
            cases ls <;> cases ss <;> cases st <;> simp_all
          obtain ⟨rfl, rfl, rfl⟩ := this
          simp [awrites_renderAL_nil] at hx
theorem distinctL : ∀ (bs : List Board) (S : List Str), GoodL bs → namesOK bs → (awrites (renderAL S bs)).Nodup
  | [], _, _, _ => by simp [renderAL, awrites]
  | b :: r, S, hg, hok => by
    simp only [renderAL, awrites_append]
    have hokr : namesOK r := ⟨(List.nodup_cons.mp hok.1).2, fun x hx => hok.2 x (by simp [hx])⟩
    rw [List.nodup_append]
    refine ⟨distinctB b S hg.1, distinctL r S hg.2 hokr, ?_⟩
    intro x hx y hy hxy
    subst hxy
    obtain ⟨e1, he1, hp1⟩ := mem_awrites hx
    obtain ⟨e2, he2, hp2⟩ := mem_awrites hy
    have hbn : b.name ≠ [] := hok.2 b (by simp)
    have i1 := insideB b S e1 he1
    simp only [boardPath, hbn, ne_eq, not_false_eq_true, if_true] at i1
    obtain ⟨c, hc, i2⟩ := insideL_name r S e2 hokr.2 he2
    rw [hp1] at i1; rw [hp2] at i2
    have := snoc_prefix_inj i1 i2
    have hnot : b.name ∉ r.map Board.name := (List.nodup_cons.mp hok.1).1
    exact hnot (by rw [this]; exact List.mem_map_of_mem hc)
end

end D2V.Path

namespace D2V.Path

/-! ### back to strings -/

theorem nodup_map_on {α β : Type} (f : α → β) : ∀ (l : List α), l.Nodup → (∀ x ∈ l, ∀ y ∈ l, f x = f y → x = y) →
    (l.map f).Nodup
  | [], _, _ => by simp
  | a :: r, hn, hinj => by
    obtain ⟨ha, hr⟩ := List.nodup_cons.mp hn
    rw [List.map_cons, List.nodup_cons]
    refine ⟨?_, nodup_map_on f r hr (fun x hx y hy => hinj x (by simp [hx]) y (by simp [hy]))⟩
    intro hmem
    obtain ⟨y, hy, hfy⟩ := List.mem_map.mp hmem
    have := hinj a (by simp) y (by simp [hy]) hfy.symm
    subst this
    exact ha hy

mutual
/-- every path element of every effect is an ordinary element -/
theorem normalB : ∀ (b : Board) (S : List Str), (∀ c ∈ S, Normal c) → SafeB b →
    ∀ ev ∈ renderA S b, ∀ c ∈ ev.path, Normal c
  | .mk name fo ls ss st, S, hS, hsafe, ev, h => by
    obtain ⟨hname, hl, hs, ht⟩ := hsafe
    simp only [renderA] at h
    have hP : ∀ c ∈ (if name ≠ [] then S ++ [name] else S), Normal c := by
      by_cases hn : name = []
      · simpa [hn] using hS
      · have hnn : Normal name := by rcases hname with h | h; exact absurd h hn; exact h
        simpa [hn] using all_normal_snoc hS hnn
    generalize (if name ≠ [] then S ++ [name] else S) = P at h hP
    have sub : ∀ (c : Bool) (k : Str), Normal k → ∀ x ∈ (if c = true then P ++ [k] else P), Normal x := by
      intro c k hk; cases c
      · simpa using hP
      · simpa using all_normal_snoc hP hk
    generalize (!ss.isEmpty || !st.isEmpty) = c1 at h
    generalize (!ls.isEmpty || !st.isEmpty) = c2 at h
    generalize (!ls.isEmpty || !ss.isEmpty) = c3 at h
    generalize (!(ls.isEmpty && ss.isEmpty && st.isEmpty)) = has at h
    simp only [List.mem_append] at h
    rcases h with (((h | h) | h) | h) | h
    · cases has
      · simp at h
      · simp at h; subst h; exact hP
    · exact normalL ls _ (sub c1 sLayers normal_layers) hl ev h
    · exact normalL ss _ (sub c2 sScenarios normal_scenarios) hs ev h
    · exact normalL st _ (sub c3 sSteps normal_steps) ht ev h
    · cases fo
      · simp at h; subst h
        cases has
        · simpa [AEv.path] using hP
        · simpa [AEv.path] using all_normal_snoc hP normal_index
      · simp at h
theorem normalL : ∀ (bs : List Board) (S : List Str), (∀ c ∈ S, Normal c) → SafeL bs →
    ∀ ev ∈ renderAL S bs, ∀ c ∈ ev.path, Normal c
  | [], _, _, _, _, h => by simp [renderAL] at h
  | b :: r, S, hS, hsafe, ev, h => by
    simp only [renderAL, List.mem_append] at h
    rcases h with h | h
    · exact normalB b S hS hsafe.1 ev h
    · exact normalL r S hS hsafe.2 ev h
end

theorem inter_append_snoc : ∀ (S r : List Str), S ≠ [] → r ≠ [] → inter (S ++ r) = inter S ++ '/' :: inter r
  | [], _, h, _ => absurd rfl h
  | [a], r, _, hr => by
    cases r with
    | nil => exact absurd rfl hr
    | cons x xs => simp [inter]
  | a :: a2 :: t, r, _, hr => by
    have := inter_append_snoc (a2 :: t) r (by simp) hr
    simp only [List.cons_append] at this ⊢
    simp only [inter, this, List.append_assoc, List.cons_append]

/-- a path of ordinary elements below `/S` is the string `/S` or starts with `/S/` -/
theorem path_under (S q : List Str) (hne : S ≠ []) (h : S <+: q) :
    '/' :: inter q = '/' :: inter S ∨ ('/' :: inter S ++ ['/']) <+: ('/' :: inter q) := by
  obtain ⟨r, rfl⟩ := h
  cases r with
  | nil => left; simp
  | cons x xs =>
    right
    rw [inter_append_snoc S (x :: xs) hne (by simp)]
    exact ⟨inter (x :: xs), by simp⟩

theorem inter_inj (q1 q2 : List Str) (h1 : ∀ c ∈ q1, Normal c) (h2 : ∀ c ∈ q2, Normal c) (n1 : q1 ≠ []) (n2 : q2 ≠ [])
    (h : inter q1 = inter q2) : q1 = q2 := by
  have s1 := splitSlash_inter q1 (fun c hc => (h1 c hc).2.1) n1
  have s2 := splitSlash_inter q2 (fun c hc => (h2 c hc).2.1) n2
  rw [h] at s1
  rw [← s1, s2]

theorem writesOf_map (e : Str) (aevs : List AEv) :
    writesOf (aevs.map (AEv.toEv e)) = (awrites aevs).map (fun q => '/' :: inter q ++ e) := by
  induction aevs with
  | nil => rfl
  | cons a r ih =>
    cases a with
    | rm q => simpa [writesOf, awrites, AEv.toEv] using ih
    | wr q => simpa [writesOf, awrites, AEv.toEv] using ih

def aremoves (evs : List AEv) : List (List Str) := evs.filterMap fun | .rm q => some q | _ => none

theorem removesOf_map (e : Str) (aevs : List AEv) :
    removesOf (aevs.map (AEv.toEv e)) = (aremoves aevs).map (fun q => '/' :: inter q) := by
  induction aevs with
  | nil => rfl
  | cons a r ih =>
    cases a with
    | rm q => simpa [removesOf, aremoves, AEv.toEv] using ih
    | wr q => simpa [removesOf, aremoves, AEv.toEv] using ih

theorem mem_aremoves {evs : List AEv} {q : List Str} (h : q ∈ aremoves evs) : ∃ ev ∈ evs, ev.path = q := by
  simp only [aremoves, List.mem_filterMap] at h
  obtain ⟨ev, hev, he⟩ := h
  cases ev with
  | wr p => simp at he
  | rm p => simp at he; exact ⟨_, hev, by simp [AEv.path, he]⟩

end D2V.Path

namespace D2V.Path

/-! ### a file that was written is not removed afterwards -/

/-- no `RemoveAll Q` comes after a write of a file at or below `Q` -/
def NoLateRemove : List AEv → Prop
  | [] => True
  | .wr W :: r => (∀ Q ∈ aremoves r, ¬ Q <+: W) ∧ NoLateRemove r
  | .rm _ :: r => NoLateRemove r

theorem aremoves_append (a b : List AEv) : aremoves (a ++ b) = aremoves a ++ aremoves b := by
  simp [aremoves, List.filterMap_append]

theorem noLateRemove_append : ∀ (a b : List AEv),
    NoLateRemove (a ++ b) ↔ NoLateRemove a ∧ NoLateRemove b ∧ ∀ W ∈ awrites a, ∀ Q ∈ aremoves b, ¬ Q <+: W
  | [], b => by simp [NoLateRemove, awrites]
  | .rm q :: r, b => by
    simp only [List.cons_append, NoLateRemove, noLateRemove_append r b]
    have : awrites (AEv.rm q :: r) = awrites r := by simp [awrites]
    rw [this]
  | .wr w :: r, b => by
    simp only [List.cons_append, NoLateRemove, noLateRemove_append r b, aremoves_append, List.mem_append]
    have : awrites (AEv.wr w :: r) = w :: awrites r := by simp [awrites]
    rw [this]
    constructor
    · rintro ⟨h1, h2, h3, h4⟩
      refine ⟨⟨fun Q hQ => h1 Q (Or.inl hQ), h2⟩, h3, ?_⟩
      intro W hW Q hQ
      rcases List.mem_cons.mp hW with e | e
      · subst e; exact h1 Q (Or.inr hQ)
      · exact h4 W e Q hQ
    · rintro ⟨⟨h1, h2⟩, h3, h4⟩
      refine ⟨?_, h2, h3, fun W hW Q hQ => h4 W (by simp [hW]) Q hQ⟩
      intro Q hQ
      rcases hQ with hQ | hQ
      · exact h1 Q hQ
      · exact h4 w (by simp) Q hQ

theorem mem_aremoves_renderAL {bs : List Board} {S : List Str} {q : List Str} (h : q ∈ aremoves (renderAL S bs)) :
    ∃ ev ∈ renderAL S bs, ev.path = q := mem_aremoves h

/-- writes of one group of sub-boards vs removes of another group in a different sub-directory -/
theorem groups_no_late (P : List Str) (k1 k2 : Str) (hk : k1 ≠ k2) (c1 c2 : Bool) (b1 b2 : List Board)
    (hc1 : b2 ≠ [] → c1 = true) (hc2 : b1 ≠ [] → c2 = true) :
    ∀ W ∈ awrites (renderAL (if c1 = true then P ++ [k1] else P) b1),
    ∀ Q ∈ aremoves (renderAL (if c2 = true then P ++ [k2] else P) b2), ¬ Q <+: W := by
  intro W hW Q hQ hpre
  have hb1 : b1 ≠ [] := by intro e; subst e; simp [awrites_renderAL_nil] at hW
  have hb2 : b2 ≠ [] := by intro e; subst e; simp [renderAL, aremoves] at hQ
  rw [hc1 hb2] at hW
  rw [hc2 hb1] at hQ
  obtain ⟨e1, he1, hp1⟩ := mem_awrites hW
  obtain ⟨e2, he2, hp2⟩ := mem_aremoves hQ
  have i1 := insideL b1 _ e1 he1
  have i2 := insideL b2 _ e2 he2
  rw [hp1] at i1; rw [hp2] at i2
  simp only [if_true] at i1 i2
  exact hk (snoc_prefix_inj i1 (List.IsPrefix.trans i2 hpre))

mutual
theorem noLateB : ∀ (b : Board) (S : List Str), GoodB b → NoLateRemove (renderA S b)
  | .mk name fo ls ss st, S, hg => by
    obtain ⟨nl, ns, nt, _, _, _, gl, gs, gt⟩ := hg
    simp only [renderA]
    generalize (if name ≠ [] then S ++ [name] else S) = P
    have nel : ∀ {l : List Board}, l ≠ [] → l.isEmpty = false := by intro l h; cases l <;> simp_all
    have c1s : ss ≠ [] → (!ss.isEmpty || !st.isEmpty) = true := by intro h; simp [nel h]
    have c1t : st ≠ [] → (!ss.isEmpty || !st.isEmpty) = true := by intro h; simp [nel h]
    have c2l : ls ≠ [] → (!ls.isEmpty || !st.isEmpty) = true := by intro h; simp [nel h]
    have c2t : st ≠ [] → (!ls.isEmpty || !st.isEmpty) = true := by intro h; simp [nel h]
    have c3l : ls ≠ [] → (!ls.isEmpty || !ss.isEmpty) = true := by intro h; simp [nel h]
    have c3s : ss ≠ [] → (!ls.isEmpty || !ss.isEmpty) = true := by intro h; simp [nel h]
    have dLS := groups_no_late P sLayers sScenarios (by decide) _ _ ls ss c1s c2l
    have dLT := groups_no_late P sLayers sSteps (by decide) _ _ ls st c1t c3l
    have dST := groups_no_late P sScenarios sSteps (by decide) _ _ ss st c2t c3s
    have hl := fun S => noLateL ls S gl nl
    have hs := fun S => noLateL ss S gs ns
    have ht := fun S => noLateL st S gt nt
    generalize (!ss.isEmpty || !st.isEmpty) = c1 at *
    generalize (!ls.isEmpty || !st.isEmpty) = c2 at *
    generalize (!ls.isEmpty || !ss.isEmpty) = c3 at *
    generalize (!(ls.isEmpty && ss.isEmpty && st.isEmpty)) = has
    have hown : ∀ (x : List AEv), NoLateRemove x → NoLateRemove (x ++ (if fo = true then [] else [AEv.wr (if has = true then P ++ [sIndex] else P)])) := by
      intro x hx
      rw [noLateRemove_append]
      refine ⟨hx, ?_, ?_⟩
      · cases fo <;> simp [NoLateRemove, aremoves]
      · intro W _ Q hQ
        cases fo <;> simp [aremoves] at hQ
    have hpre : ∀ (x : List AEv), NoLateRemove x → NoLateRemove ((if has = true then [AEv.rm P] else []) ++ x) := by
      intro x hx
      cases has <;> simpa [NoLateRemove] using hx
    apply hown
    simp only [List.append_assoc]
    apply hpre
    rw [noLateRemove_append]
    refine ⟨hl _, ?_, ?_⟩
    · rw [noLateRemove_append]
      exact ⟨hs _, ht _, dST⟩
    · intro W hW Q hQ
      rw [aremoves_append] at hQ
      rcases List.mem_append.mp hQ with h | h
      · exact dLS W hW Q h
      · exact dLT W hW Q h
theorem noLateL : ∀ (bs : List Board) (S : List Str), GoodL bs → namesOK bs → NoLateRemove (renderAL S bs)
  | [], _, _, _ => by simp [renderAL, NoLateRemove]
  | b :: r, S, hg, hok => by
    simp only [renderAL]
    have hokr : namesOK r := ⟨(List.nodup_cons.mp hok.1).2, fun x hx => hok.2 x (by simp [hx])⟩
    rw [noLateRemove_append]
    refine ⟨noLateB b S hg.1, noLateL r S hg.2 hokr, ?_⟩
    intro W hW Q hQ hpre
    obtain ⟨e1, he1, hp1⟩ := mem_awrites hW
    obtain ⟨e2, he2, hp2⟩ := mem_aremoves hQ
    have hbn : b.name ≠ [] := hok.2 b (by simp)
    have i1 := insideB b S e1 he1
    simp only [boardPath, hbn, ne_eq, not_false_eq_true, if_true] at i1
    obtain ⟨c, hc, i2⟩ := insideL_name r S e2 hokr.2 he2
    rw [hp1] at i1; rw [hp2] at i2
    have := snoc_prefix_inj i1 (List.IsPrefix.trans i2 hpre)
    have hnot : b.name ∉ r.map Board.name := (List.nodup_cons.mp hok.1).1
    exact hnot (by rw [this]; exact List.mem_map_of_mem hc)
end

end D2V.Path

namespace D2V.Path

/-- string level: no `RemoveAll d` after a write of `p` with `p` equal to or below `d` -/
def NoLateRemoveS : List Ev → Prop
  | [] => True
  | .write p :: r => (∀ d ∈ removesOf r, underOrEq d p = false) ∧ NoLateRemoveS r
  | .removeAll _ :: r => NoLateRemoveS r

/-- `e` is not a suffix of the element -/
def NE (e c : Str) : Prop := ¬ e <:+ c

theorem inter_snoc_glue : ∀ (I : List Str) (l e : Str), inter (I ++ [l]) ++ e = inter (I ++ [l ++ e])
  | [], l, e => by simp [inter]
  | [a], l, e => by simp [inter, List.append_assoc]
  | a :: a2 :: r, l, e => by
    have := inter_snoc_glue (a2 :: r) l e
    simp only [List.cons_append] at this ⊢
    simp only [inter, List.append_assoc, List.cons_append]
    rw [← this]

theorem inter_inj' (q1 q2 : List Str) (h1 : ∀ c ∈ q1, NoSlash c) (h2 : ∀ c ∈ q2, NoSlash c) (n1 : q1 ≠ []) (n2 : q2 ≠ [])
    (h : inter q1 = inter q2) : q1 = q2 := by
  have s1 := splitSlash_inter q1 h1 n1
  have s2 := splitSlash_inter q2 h2 n2
  rw [h] at s1
  rw [← s1, s2]

theorem splitSlash_ne_nil (s : Str) : splitSlash s ≠ [] := by
  obtain ⟨h, t, ht⟩ := consHead_splitSlash 'x' s
  rw [ht]; simp

/-- on element lists: if the directory `/Q` is (a prefix directory of) the file `/W`+ext then `Q` is a prefix of `W` -/
theorem underOrEq_abs (Q W : List Str) (e : Str) (he : GoodExt e)
    (hQ : ∀ c ∈ Q, NoSlash c) (hW : ∀ c ∈ W, NoSlash c) (hQne : Q ≠ []) (hWne : W ≠ [])
    (hQe : ∀ c ∈ Q, NE e c)
    (h : underOrEq ('/' :: inter Q) ('/' :: inter W ++ e) = true) : Q <+: W := by
  obtain ⟨e', rfl, _, hes⟩ := he
  -- W = I ++ [l]
  obtain ⟨I, l, rfl⟩ : ∃ I l, W = I ++ [l] := ⟨W.dropLast, W.getLast hWne, (List.dropLast_concat_getLast hWne).symm⟩
  have hl : NoSlash l := hW l (by simp)
  have hle : NoSlash (l ++ '.' :: e') := by
    intro hm
    rcases List.mem_append.mp hm with h1 | h1
    · exact hl h1
    · rcases List.mem_cons.mp h1 with h2 | h2
      · exact absurd h2 (by decide)
      · exact hes h2
  have hW' : ∀ c ∈ I ++ [l ++ '.' :: e'], NoSlash c := by
    intro c hc
    rcases List.mem_append.mp hc with h1 | h1
    · exact hW c (by simp [h1])
    · simp at h1; subst h1; exact hle
  have hglue : ('/' :: inter (I ++ [l]) ++ '.' :: e' : Str) = '/' :: inter (I ++ [l ++ '.' :: e']) := by
    have := inter_snoc_glue I l ('.' :: e')
    simp only [List.cons_append, this]
  rw [hglue] at h
  unfold underOrEq at h
  rcases Bool.or_eq_true _ _ |>.mp h with h1 | h1
  · -- equal strings: Q's last element would end in the extension
    have heq : inter (I ++ [l ++ '.' :: e']) = inter Q := by
      have := (beq_iff_eq.mp h1)
      exact (List.cons.inj this).2
    have := inter_inj' _ _ hW' hQ (by simp) hQne heq
    have hmem : (l ++ '.' :: e') ∈ Q := by rw [← this]; simp
    exact absurd (List.suffix_append l ('.' :: e')) (hQe _ hmem)
  · -- proper prefix
    have hp : ('/' :: inter Q ++ ['/']) <+: '/' :: inter (I ++ [l ++ '.' :: e']) := List.isPrefixOf_iff_prefix.mp h1
    obtain ⟨rest, hrest⟩ := hp
    have hstr : inter Q ++ '/' :: rest = inter (I ++ [l ++ '.' :: e']) := by
      simp only [List.cons_append, List.append_assoc, List.singleton_append] at hrest
      exact (List.cons.inj hrest).2
    have hsp := congrArg splitSlash hstr
    rw [splitSlash_inter_append Q rest hQ hQne, splitSlash_inter _ hW' (by simp)] at hsp
    have hT := splitSlash_ne_nil rest
    have hQW' : Q <+: I ++ [l ++ '.' :: e'] := ⟨_, hsp⟩
    have hlen : Q.length ≤ I.length := by
      have := congrArg List.length hsp
      simp only [List.length_append, List.length_cons, List.length_nil] at this
      have : 0 < (splitSlash rest).length := List.length_pos_iff.mpr hT
      omega
    have hI : I <+: I ++ [l ++ '.' :: e'] := List.prefix_append _ _
    exact List.IsPrefix.trans (List.prefix_of_prefix_length_le hQW' hI hlen) (List.prefix_append _ _)

mutual
/-- no board name ends in the extension -/
def NamesNE (e : Str) : Board → Prop
  | .mk name _ ls ss st => NE e name ∧ NamesNEL e ls ∧ NamesNEL e ss ∧ NamesNEL e st
def NamesNEL (e : Str) : List Board → Prop
  | [] => True
  | b :: r => NamesNE e b ∧ NamesNEL e r
end

theorem ne_of_no_dot (e c : Str) (he : GoodExt e) (hc : '.' ∉ c) : NE e c := by
  obtain ⟨e', rfl, _, _⟩ := he
  intro ⟨t, ht⟩
  apply hc
  rw [← ht]; simp

mutual
theorem neB (e : Str) (he : GoodExt e) : ∀ (b : Board) (S : List Str), (∀ c ∈ S, NE e c) → NamesNE e b →
    ∀ ev ∈ renderA S b, ∀ c ∈ ev.path, NE e c
  | .mk name fo ls ss st, S, hS, hne, ev, h => by
    obtain ⟨hname, hl, hs, ht⟩ := hne
    simp only [renderA] at h
    have snoc : ∀ {P : List Str} {k : Str}, (∀ c ∈ P, NE e c) → NE e k → ∀ c ∈ P ++ [k], NE e c := by
      intro P k hP hk c hc
      rcases List.mem_append.mp hc with h | h
      · exact hP c h
      · simp at h; subst h; exact hk
    have hP : ∀ c ∈ (if name ≠ [] then S ++ [name] else S), NE e c := by
      by_cases hn : name = []
      · simpa [hn] using hS
      · simpa [hn] using snoc hS hname
    generalize (if name ≠ [] then S ++ [name] else S) = P at h hP
    have kw : ∀ k : Str, '.' ∉ k → ∀ (c : Bool), ∀ x ∈ (if c = true then P ++ [k] else P), NE e x := by
      intro k hk c; cases c
      · simpa using hP
      · simpa using snoc hP (ne_of_no_dot e k he hk)
    generalize (!ss.isEmpty || !st.isEmpty) = c1 at h
    generalize (!ls.isEmpty || !st.isEmpty) = c2 at h
    generalize (!ls.isEmpty || !ss.isEmpty) = c3 at h
    generalize (!(ls.isEmpty && ss.isEmpty && st.isEmpty)) = has at h
    simp only [List.mem_append] at h
    rcases h with (((h | h) | h) | h) | h
    · cases has
      · simp at h
      · simp at h; subst h; exact hP
    · exact neL e he ls _ (kw sLayers (by decide) c1) hl ev h
    · exact neL e he ss _ (kw sScenarios (by decide) c2) hs ev h
    · exact neL e he st _ (kw sSteps (by decide) c3) ht ev h
    · cases fo
      · simp at h; subst h
        cases has
        · simpa [AEv.path] using hP
        · simpa [AEv.path] using snoc hP (ne_of_no_dot e sIndex he (by decide))
      · simp at h
theorem neL (e : Str) (he : GoodExt e) : ∀ (bs : List Board) (S : List Str), (∀ c ∈ S, NE e c) → NamesNEL e bs →
    ∀ ev ∈ renderAL S bs, ∀ c ∈ ev.path, NE e c
  | [], _, _, _, _, h => by simp [renderAL] at h
  | b :: r, S, hS, hne, ev, h => by
    simp only [renderAL, List.mem_append] at h
    rcases h with h | h
    · exact neB e he b S hS hne.1 ev h
    · exact neL e he r S hS hne.2 ev h
end

/-- transfer of `NoLateRemove` to the string-level effect list -/
theorem noLateRemoveS_map (e : Str) (he : GoodExt e) : ∀ (aevs : List AEv),
    (∀ ev ∈ aevs, (∀ c ∈ ev.path, NoSlash c) ∧ ev.path ≠ [] ∧ (∀ c ∈ ev.path, NE e c)) →
    NoLateRemove aevs → NoLateRemoveS (aevs.map (AEv.toEv e))
  | [], _, _ => by simp [NoLateRemoveS]
  | .rm q :: r, hall, h => by
    simp only [List.map_cons, AEv.toEv, NoLateRemoveS]
    exact noLateRemoveS_map e he r (fun ev hev => hall ev (by simp [hev])) h
  | .wr w :: r, hall, h => by
    simp only [List.map_cons, AEv.toEv, NoLateRemoveS]
    obtain ⟨h1, h2⟩ := h
    refine ⟨?_, noLateRemoveS_map e he r (fun ev hev => hall ev (by simp [hev])) h2⟩
    intro d hd
    rw [removesOf_map] at hd
    obtain ⟨q, hq, rfl⟩ := List.mem_map.mp hd
    obtain ⟨ev, hev, hpath⟩ := mem_aremoves hq
    have hw := hall (.wr w) (by simp)
    have hqv := hall ev (by simp [hev])
    rw [hpath] at hqv
    simp only [AEv.path] at hw
    cases hu : underOrEq ('/' :: inter q) ('/' :: inter w ++ e) with
    | false => rfl
    | true =>
      exact absurd (underOrEq_abs q w e he hqv.1 hw.1 hqv.2.1 hw.2.1 hqv.2.2 hu) (h1 q hq)

end D2V.Path
