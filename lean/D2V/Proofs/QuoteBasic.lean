import D2V.Model.Quote
/-!
  Helper lemmas of the quoting proofs (C05, C06), part 1: facts about the regenerated tables
  (`decide` on the current `D2V.Gen.Quote`), UTF-8 first bytes, and the per-rune escape actions.
  Every table fact is re-checked against the tables the translator extracted from the tree under test.
-/
namespace D2V.Quote
open D2V.Gen.Quote

/-! ### characters -/

theorem char_of_toNat {c : Char} {n : Nat} {d : Char} (hd : d.toNat = n) (h : c.toNat = n) : c = d :=
  Char.toNat_inj.mp (h.trans hd.symm)

theorem firstByte_eq_dash (c : Char) : firstByte c = 45 ↔ c = '-' := by
  constructor
  · intro h
    unfold firstByte at h
    simp only at h
    have : c.toNat = 45 := by
      split at h
      · exact h
      · split at h
        · omega
        · split at h <;> omega
    exact char_of_toNat (by decide) this
  · intro h; subst h; decide

theorem byteAt1_dash (rest : Str) : byteAt1 '-' rest = rest.head?.map firstByte := by
  unfold byteAt1
  simp

/-- after a `-`: "there is a next byte and it is not `-`" means the next rune exists and is not `-` -/
theorem dash_next_ne (rest : Str) :
    ((byteAt1 '-' rest).isSome && (byteAt1 '-' rest != some 45)) = true ↔ ∃ d t, rest = d :: t ∧ d ≠ '-' := by
  rw [byteAt1_dash]
  cases rest with
  | nil => simp
  | cons d t =>
    have := firstByte_eq_dash d
    constructor
    · intro h
      refine ⟨d, t, rfl, ?_⟩
      intro hd
      simp [this.mpr hd] at h
    · rintro ⟨d', t', heq, hne⟩
      injection heq with h1 h2
      subst h1
      have : firstByte d ≠ 45 := fun h => hne (this.mp h)
      simp [this]

theorem dash_next_eq (rest : Str) :
    ((byteAt1 '-' rest).isSome && (byteAt1 '-' rest == some 45)) = true ↔ ∃ t, rest = '-' :: t := by
  rw [byteAt1_dash]
  cases rest with
  | nil => simp
  | cons d t =>
    have := firstByte_eq_dash d
    constructor
    · intro h
      have : firstByte d = 45 := by simpa using h
      exact ⟨t, by rw [(firstByte_eq_dash d).mp this]⟩
    · rintro ⟨t', heq⟩
      injection heq with h1 h2
      subst h1
      simp [this.mpr rfl]

/-! ### tables -/

theorem stopTop_sub_key : ∀ c ∈ uqStopTop, c ∈ keySpecials := by decide
theorem stopKey_sub_key : ∀ c ∈ uqStopKey, c ∈ keySpecials := by decide
theorem stopTop_sub_value : ∀ c ∈ uqStopTop, c ∈ valueSpecials := by decide

theorem not_stopTop_of_key {c : Char} (h : keySpecials.contains c = false) : uqStopTop.contains c = false := by
  cases hc : uqStopTop.contains c with
  | false => rfl
  | true =>
    have := stopTop_sub_key c (by simpa using hc)
    simp_all

theorem not_stopKey_of_key {c : Char} (h : keySpecials.contains c = false) : uqStopKey.contains c = false := by
  cases hc : uqStopKey.contains c with
  | false => rfl
  | true =>
    have := stopKey_sub_key c (by simpa using hc)
    simp_all

theorem not_stopTop_of_value {c : Char} (h : valueSpecials.contains c = false) : uqStopTop.contains c = false := by
  cases hc : uqStopTop.contains c with
  | false => rfl
  | true =>
    have := stopTop_sub_value c (by simpa using hc)
    simp_all

/-- the runes a key scanner treats specially are all in `UnquotedKeySpecials` -/
theorem key_special_members :
    ['-', '\\', '"', '\'', '|', '(', '.', '@', '>', '*', '&', '\n'].all (fun c => keySpecials.contains c) = true := by decide

/-- the runes a value scanner treats specially are all in `UnquotedValueSpecials` -/
theorem value_special_members :
    ['\\', '"', '\'', '|', '$', '[', '{', '@', '\n'].all (fun c => valueSpecials.contains c) = true := by decide

theorem key_plain_char {c : Char} (h : keySpecials.contains c = false) :
    c ≠ '-' ∧ c ≠ '\\' ∧ c ≠ '"' ∧ c ≠ '\'' ∧ c ≠ '|' ∧ c ≠ '(' ∧ c ≠ '.' ∧ c ≠ '@' ∧ c ≠ '>' ∧ c ≠ '*' ∧ c ≠ '&' ∧ c ≠ '\n' := by
  have hm := key_special_members
  simp only [List.all_cons, List.all_nil, Bool.and_true, Bool.and_eq_true] at hm
  refine ⟨?_, ?_, ?_, ?_, ?_, ?_, ?_, ?_, ?_, ?_, ?_, ?_⟩ <;> (intro he; subst he; simp_all)

theorem value_plain_char {c : Char} (h : valueSpecials.contains c = false) :
    c ≠ '\\' ∧ c ≠ '"' ∧ c ≠ '\'' ∧ c ≠ '|' ∧ c ≠ '$' ∧ c ≠ '[' ∧ c ≠ '{' ∧ c ≠ '@' ∧ c ≠ '\n' := by
  have hm := value_special_members
  simp only [List.all_cons, List.all_nil, Bool.and_true, Bool.and_eq_true] at hm
  refine ⟨?_, ?_, ?_, ?_, ?_, ?_, ?_, ?_, ?_⟩ <;> (intro he; subst he; simp_all)

end D2V.Quote
