import D2V.Model.Grid
import Mathlib.Tactic.Linarith
import Mathlib.Tactic.NormNum
/-! Helper development for C22: `GetMargin` is non-negative and shrinks when the object grows; hence the box that
    `revertAdjustments` carves out of a slot lies inside the slot. -/
namespace D2V.Grid

def Margin.le (a b : Margin) : Prop := a.top ≤ b.top ∧ a.bottom ≤ b.bottom ∧ a.left ≤ b.left ∧ a.right ≤ b.right
def Margin.nn (a : Margin) : Prop := 0 ≤ a.top ∧ 0 ≤ a.bottom ∧ 0 ≤ a.left ∧ 0 ≤ a.right

theorem ceilR_mono {x y : Rat} (h : x ≤ y) : ceilR x ≤ ceilR y := by
  unfold ceilR
  have : x.ceil ≤ y.ceil := by rw [Rat.ceil_le_iff]; exact le_trans h Rat.le_ceil
  exact_mod_cast this

theorem ceilR_nonneg {x : Rat} (h : 0 ≤ x) : 0 ≤ ceilR x := le_trans h (by unfold ceilR; exact Rat.le_ceil)

theorem labelMargin_nn (side : Side) (al : Align) (lw lh w h : Rat) (hlw : 0 ≤ lw) (hlh : 0 ≤ lh) :
    (labelMargin side al lw lh w h).nn := by
  by_cases c1 : lw > w <;> by_cases c3 : lh > h <;> cases side <;> cases al <;>
  simp only [labelMargin, c1, c3, if_true, if_false, Margin.nn] <;>
  refine ⟨?_, ?_, ?_, ?_⟩ <;>
  first
  | linarith
  | exact ceilR_nonneg (by linarith)

theorem labelMargin_mono (side : Side) (al : Align) (lw lh w h w' h' : Rat) (hw : w ≤ w') (hh : h ≤ h') :
    (labelMargin side al lw lh w' h').le (labelMargin side al lw lh w h) := by
  have hB := ceilR_mono (x := (lw - w') / 2) (y := (lw - w) / 2) (by linarith)
  have hC := ceilR_mono (x := (lh - h') / 2) (y := (lh - h) / 2) (by linarith)
  by_cases c1 : lw > w <;> by_cases c2 : lw > w' <;> by_cases c3 : lh > h <;> by_cases c4 : lh > h' <;>
  cases side <;> cases al <;>
  simp only [labelMargin, c1, c2, c3, c4, if_true, if_false, Margin.le] <;>
  refine ⟨?_, ?_, ?_, ?_⟩ <;>
  first
  | linarith
  | (have := ceilR_nonneg (x := (lw - w) / 2) (by linarith); linarith)
  | (have := ceilR_nonneg (x := (lh - h) / 2) (by linarith); linarith)

theorem iconMargin_mono (pos : Option (Side × Align)) (sz : Rat) (a b : Margin) (h : a.le b) :
    (iconMargin pos sz a).le (iconMargin pos sz b) := by
  obtain ⟨h1, h2, h3, h4⟩ := h
  rcases pos with _ | ⟨side, al⟩
  · exact ⟨h1, h2, h3, h4⟩
  · cases side <;> simp only [iconMargin, Margin.le] <;> refine ⟨?_, ?_, ?_, ?_⟩ <;>
      first | assumption | exact max_le_max (by assumption) (le_refl _)

theorem iconMargin_nn (pos : Option (Side × Align)) (sz : Rat) (a : Margin) (h : a.nn) : (iconMargin pos sz a).nn := by
  obtain ⟨h1, h2, h3, h4⟩ := h
  rcases pos with _ | ⟨side, al⟩
  · exact ⟨h1, h2, h3, h4⟩
  · cases side <;> simp only [iconMargin, Margin.nn] <;> refine ⟨?_, ?_, ?_, ?_⟩ <;>
      first | assumption | exact le_trans (by assumption) (le_max_left _ _)

/-- what the theorems need of a decoration: label sizes and 3d/multiple offsets are not negative -/
def Deco.ok (d : Deco) : Prop := 0 ≤ d.lw ∧ 0 ≤ d.lh ∧ 0 ≤ d.modDx ∧ 0 ≤ d.modDy

theorem labelPadding_nonneg : (0 : Int) ≤ D2V.Gen.Grid.labelPadding := by decide

theorem labelPart_nn (d : Deco) (hd : d.ok) (w h : Rat) : (labelPart d w h).nn := by
  obtain ⟨d1, d2, _, _⟩ := hd
  have hp := labelPadding_nonneg
  unfold labelPart
  split
  · split
    · exact ⟨le_refl _, le_refl _, le_refl _, le_refl _⟩
    · exact labelMargin_nn _ _ _ _ _ _ (by exact_mod_cast (by omega : (0:Int) ≤ d.lw + D2V.Gen.Grid.labelPadding))
        (by exact_mod_cast (by omega : (0:Int) ≤ d.lh + D2V.Gen.Grid.labelPadding))
  · exact ⟨le_refl _, le_refl _, le_refl _, le_refl _⟩

theorem labelPart_mono (d : Deco) (w h w' h' : Rat) (hw : w ≤ w') (hh : h ≤ h') : (labelPart d w' h').le (labelPart d w h) := by
  unfold labelPart
  split
  · split
    · exact ⟨le_refl _, le_refl _, le_refl _, le_refl _⟩
    · exact labelMargin_mono _ _ _ _ _ _ _ _ hw hh
  · exact ⟨le_refl _, le_refl _, le_refl _, le_refl _⟩

theorem iconPart_nn (d : Deco) (a : Margin) (h : a.nn) : (iconPart d a).nn := by
  unfold iconPart
  split
  · exact iconMargin_nn _ _ _ h
  · exact h

theorem iconPart_mono (d : Deco) (a b : Margin) (h : a.le b) : (iconPart d a).le (iconPart d b) := by
  unfold iconPart
  split
  · exact iconMargin_mono _ _ _ _ h
  · exact h

theorem margin_nn (d : Deco) (hd : d.ok) (w h : Rat) : (margin d w h).nn := by
  obtain ⟨a1, a2, a3, a4⟩ := iconPart_nn d _ (labelPart_nn d hd w h)
  obtain ⟨_, _, d3, d4⟩ := hd
  exact ⟨by simp only [margin]; linarith, a2, a3, by simp only [margin]; linarith⟩

/-- **the margin shrinks when the object grows** -/
theorem margin_mono (d : Deco) (w h w' h' : Rat) (hw : w ≤ w') (hh : h ≤ h') : (margin d w' h').le (margin d w h) := by
  obtain ⟨a1, a2, a3, a4⟩ := iconPart_mono d _ _ (labelPart_mono d w h w' h' hw hh)
  exact ⟨by simp only [margin]; linarith, a2, a3, by simp only [margin]; linarith⟩

/-- **revert_slot_invariant**: when the slot is at least as large as the inflated object (which both layouts
    guarantee: they only grow slots), the final box lies inside its slot and is at least as large as the object was
    before the layout. -/
theorem revert_slot_invariant (c : CellIn) (slot : Box) (hd : c.deco.ok)
    (hw : c.w + ((margin c.deco c.w c.h).left + (margin c.deco c.w c.h).right) ≤ slot.w)
    (hh : c.h + ((margin c.deco c.w c.h).top + (margin c.deco c.w c.h).bottom) ≤ slot.h) :
    slot.x ≤ (revert c slot).x ∧ slot.y ≤ (revert c slot).y ∧
    (revert c slot).x + (revert c slot).w ≤ slot.x + slot.w ∧ (revert c slot).y + (revert c slot).h ≤ slot.y + slot.h ∧
    c.w ≤ (revert c slot).w ∧ c.h ≤ (revert c slot).h := by
  have hmono := margin_mono c.deco c.w c.h
    (slot.w - ((margin c.deco c.w c.h).left + (margin c.deco c.w c.h).right))
    (slot.h - ((margin c.deco c.w c.h).top + (margin c.deco c.w c.h).bottom)) (by linarith) (by linarith)
  have hnn := margin_nn c.deco hd
    (slot.w - ((margin c.deco c.w c.h).left + (margin c.deco c.w c.h).right))
    (slot.h - ((margin c.deco c.w c.h).top + (margin c.deco c.w c.h).bottom))
  obtain ⟨m1, m2, m3, m4⟩ := hmono
  obtain ⟨n1, n2, n3, n4⟩ := hnn
  unfold revert
  simp only
  split_ifs <;> refine ⟨?_, ?_, ?_, ?_, ?_, ?_⟩ <;> simp only <;> linarith

end D2V.Grid
