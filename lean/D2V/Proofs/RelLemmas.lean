import D2V.Proofs.RenderLemmas
/-! `filepath.Rel` followed by `filepath.Join` gets back to the target, on cleaned absolute paths of ordinary elements (C35). -/
namespace D2V.Path

theorem noSlash_dotdot : NoSlash dotdot := by unfold NoSlash; decide

theorem cleanComps_abs (P : List Str) (hP : ∀ c ∈ P, Normal c) : cleanComps ('/' :: inter P) = P := by
  unfold cleanComps
  cases P with
  | nil => simp [inter, splitSlash, isRooted, cleanStep]
  | cons a r =>
    have hs : splitSlash ('/' :: inter (a :: r)) = [] :: (a :: r) := by
      simp only [splitSlash, if_true]
      rw [splitSlash_inter (a :: r) (fun c hc => (hP c hc).2.1) (by simp)]
    rw [hs]
    simp only [List.foldl_cons, isRooted, beq_self_eq_true]
    have h0 : cleanStep true [] [] = [] := by simp [cleanStep]
    rw [h0]
    have := foldl_cleanStep_normal true (a :: r) [] hP
    simp only [List.foldl_cons] at this
    rw [this]; simp

theorem clean_abs (P : List Str) (hP : ∀ c ∈ P, Normal c) : clean ('/' :: inter P) = '/' :: inter P := by
  unfold clean
  simp only [List.cons_ne_nil, if_false, cleanComps_abs P hP, isRooted, beq_self_eq_true, render, if_true]

theorem abs_inj (P Q : List Str) (hP : ∀ c ∈ P, Normal c) (hQ : ∀ c ∈ Q, Normal c)
    (h : ('/' :: inter P : Str) = '/' :: inter Q) : P = Q := by
  have := congrArg cleanComps h
  rwa [cleanComps_abs P hP, cleanComps_abs Q hQ] at this

theorem dropWhile_append_stop {p : Char → Bool} : ∀ (a : Str) (d : Char) (b : Str), (∀ c ∈ a, p c = true) → p d = false →
    (a ++ d :: b).dropWhile p = d :: b
  | [], d, b, _, hd => by simp [List.dropWhile, hd]
  | c :: r, d, b, h, hd => by
    have hc := h c (by simp)
    simp [List.dropWhile, hc, dropWhile_append_stop r d b (fun x hx => h x (by simp [hx])) hd]

/-- `Dir(/d1/…/dk/f) = /d1/…/dk` -/
theorem dir_abs (D : List Str) (f : Str) (hD : ∀ c ∈ D, Normal c) (hf : Normal f) :
    dir ('/' :: inter (D ++ [f])) = '/' :: inter D := by
  have hshape : ∃ Y : Str, ('/' :: inter (D ++ [f]) : Str) = Y ++ '/' :: f ∧ clean (Y ++ ['/']) = '/' :: inter D := by
    cases D with
    | nil =>
      refine ⟨[], by simp [inter], ?_⟩
      simp [clean, isRooted, cleanComps, splitSlash, cleanStep, render, inter]
    | cons a r =>
      refine ⟨'/' :: inter (a :: r), ?_, ?_⟩
      · rw [inter_append_snoc (a :: r) [f] (by simp) (by simp)]; simp [inter]
      · have hs : splitSlash ('/' :: inter (a :: r) ++ ['/']) = [] :: ((a :: r) ++ [[]]) := by
          simp only [List.cons_append, splitSlash, if_true]
          rw [splitSlash_inter_append (a :: r) [] (fun c hc => (hD c hc).2.1) (by simp)]
          simp [splitSlash]
        unfold clean
        simp only [List.cons_append, List.cons_ne_nil, if_false, isRooted, beq_self_eq_true, cleanComps]
        simp only [List.cons_append] at hs
        rw [hs]
        simp only [List.foldl_cons, List.foldl_append, List.foldl_nil]
        have h0 : cleanStep true [] [] = [] := by simp [cleanStep]
        rw [h0]
        have := foldl_cleanStep_normal true (a :: r) [] hD
        simp only [List.foldl_cons] at this
        rw [this]
        simp [cleanStep, render]
  obtain ⟨Y, hY, hclean⟩ := hshape
  unfold dir
  rw [hY]
  have hrev : (Y ++ '/' :: f).reverse = f.reverse ++ '/' :: Y.reverse := by simp
  rw [hrev]
  have hall : ∀ c ∈ f.reverse, (decide (c ≠ '/')) = true := by
    intro c hc
    simp only [List.mem_reverse] at hc
    simp; intro e; subst e; exact hf.2.1 hc
  rw [dropWhile_append_stop _ '/' _ hall (by decide)]
  simpa using hclean

theorem dropCommon_spec : ∀ (D V : List Str), ∃ C, D = C ++ (dropCommon D V).1 ∧ V = C ++ (dropCommon D V).2 ∧
    (∀ x y, (dropCommon D V).1.head? = some x → (dropCommon D V).2.head? = some y → x ≠ y)
  | [], V => ⟨[], by simp [dropCommon]⟩
  | a :: r, [] => ⟨[], by simp [dropCommon]⟩
  | a :: r, b :: q => by
    by_cases h : a = b
    · subst h
      obtain ⟨C, h1, h2, h3⟩ := dropCommon_spec r q
      refine ⟨a :: C, ?_, ?_, ?_⟩ <;> simp only [dropCommon, if_true]
      · simpa using h1
      · simpa using h2
      · exact h3
    · refine ⟨[], ?_, ?_, ?_⟩ <;> simp only [dropCommon, h, if_false]
      · simp
      · simp
      · intro x y hx hy; simp at hx hy; subst hx; subst hy; exact h

theorem pops (k : Nat) : ∀ (st : List Str), (∀ c ∈ st, Normal c) → k ≤ st.length →
    (List.replicate k dotdot).foldl (cleanStep true) st = st.drop k := by
  induction k with
  | zero => intro st _ _; simp
  | succ k ih =>
    intro st hst hk
    cases st with
    | nil => simp at hk
    | cons t r =>
      have ht := hst t (by simp)
      have hstep : cleanStep true (t :: r) dotdot = r := by
        have h1 : t ≠ ['.', '.'] := ht.2.2.2
        simp [cleanStep, dotdot, dot, h1]
      rw [List.replicate_succ, List.foldl_cons, hstep, ih r (fun c hc => hst c (by simp [hc])) (by simpa using hk)]
      simp

end D2V.Path

namespace D2V.Path

theorem abs_ne_dot (P : List Str) : ('/' :: inter P : Str) ≠ dot := by
  intro h; simp [dot] at h

/-- `Rel` between two cleaned absolute paths of ordinary elements -/
theorem rel_abs (D V : List Str) (hD : ∀ c ∈ D, Normal c) (hV : ∀ c ∈ V, Normal c) (hne : D ≠ V) :
    rel ('/' :: inter D) ('/' :: inter V) =
      some (inter ((dropCommon D V).1.map (fun _ => dotdot) ++ (dropCommon D V).2)) := by
  unfold rel
  simp only [clean_abs D hD, clean_abs V hV]
  have h1 : ('/' :: inter D : Str) ≠ '/' :: inter V := fun h => hne (abs_inj D V hD hV h)
  rw [if_neg h1]
  simp only [abs_ne_dot, if_false, cleanComps_abs D hD, cleanComps_abs V hV, isRooted, beq_self_eq_true, bne_self_eq_false,
    Bool.false_eq_true]
  obtain ⟨C, hDC, _, _⟩ := dropCommon_spec D V
  have hrb : ∀ c ∈ (dropCommon D V).1, Normal c := by
    intro c hc; apply hD; rw [hDC]; simp [hc]
  have : (dropCommon D V).1.head? ≠ some dotdot := by
    intro h
    cases hh : (dropCommon D V).1 with
    | nil => simp [hh] at h
    | cons x xs =>
      simp [hh] at h
      have := hrb x (by simp [hh])
      exact this.2.2.2 h
  cases hdc : dropCommon D V with
  | mk rb rt =>
    simp only [hdc] at this ⊢
    simp [this]

theorem foldl_cleanStep_append (r : Bool) (a b st : List Str) :
    (a ++ b).foldl (cleanStep r) st = b.foldl (cleanStep r) (a.foldl (cleanStep r) st) := List.foldl_append

/-- going to `/C/rb`, then up `|rb|` times and down `rt`, is `/C/rt` -/
theorem join_rel (C rb rt : List Str) (hC : ∀ c ∈ C, Normal c) (hrb : ∀ c ∈ rb, Normal c) (hrt : ∀ c ∈ rt, Normal c)
    (hne : rb.map (fun _ => dotdot) ++ rt ≠ []) :
    join ['/' :: inter (C ++ rb), inter (rb.map (fun _ => dotdot) ++ rt)] = '/' :: inter (C ++ rt) := by
  have hD : ∀ c ∈ C ++ rb, Normal c := by
    intro c hc; rcases List.mem_append.mp hc with h | h; exact hC c h; exact hrb c h
  have hdd : ∀ (l : List Str), l.map (fun _ => dotdot) = List.replicate l.length dotdot := by
    intro l
    induction l with
    | nil => rfl
    | cons x xs ih => simp [List.replicate_succ, ih]
  have hdd := hdd rb
  have hRs : ∀ c ∈ rb.map (fun _ => dotdot) ++ rt, NoSlash c := by
    intro c hc
    rcases List.mem_append.mp hc with h | h
    · obtain ⟨_, _, rfl⟩ := List.mem_map.mp h; exact noSlash_dotdot
    · exact (hrt c h).2.1
  have hsR := splitSlash_inter _ hRs hne
  -- the element list of "/C/rb" ++ "/" ++ r
  have hsplit : ∃ pre, (∀ c ∈ pre, c = []) ∧
      splitSlash (inter ['/' :: inter (C ++ rb), inter (rb.map (fun _ => dotdot) ++ rt)]) =
        pre ++ ((C ++ rb) ++ (rb.map (fun _ => dotdot) ++ rt)) := by
    cases hcr : C ++ rb with
    | nil =>
      refine ⟨[[], []], by simp, ?_⟩
      simp only [inter, List.nil_append, List.cons_append, splitSlash, if_true, hsR]
    | cons a r =>
      refine ⟨[[]], by simp, ?_⟩
      have hs : ∀ c ∈ a :: r, NoSlash c := by intro c hc; rw [← hcr] at hc; exact (hD c hc).2.1
      simp only [inter, List.cons_append, splitSlash, if_true]
      rw [splitSlash_inter_append (a :: r) _ hs (by simp), hsR]
      simp
  obtain ⟨pre, hpre, hsp⟩ := hsplit
  have hskip : ∀ (pre : List Str), (∀ c ∈ pre, c = []) → pre.foldl (cleanStep true) [] = [] := by
    intro pre h
    induction pre with
    | nil => rfl
    | cons x xs ih =>
      have hx := h x (by simp); subst hx
      simp only [List.foldl_cons]
      have : cleanStep true [] [] = [] := by simp [cleanStep]
      rw [this]; exact ih (fun c hc => h c (by simp [hc]))
  simp only [join, List.cons_ne_nil, if_false]
  unfold clean
  have hnonempty : inter ['/' :: inter (C ++ rb), inter (rb.map (fun _ => dotdot) ++ rt)] ≠ [] := by simp [inter]
  have hroot : isRooted (inter ['/' :: inter (C ++ rb), inter (rb.map (fun _ => dotdot) ++ rt)]) = true := by
    simp [inter, isRooted]
  rw [if_neg hnonempty, hroot]
  unfold cleanComps
  rw [hroot, hsp, foldl_cleanStep_append, hskip pre hpre, foldl_cleanStep_append, foldl_cleanStep_append,
    foldl_cleanStep_normal true (C ++ rb) [] hD, hdd]
  have hst : ∀ c ∈ (C ++ rb).reverse ++ [], Normal c := by
    intro c hc; simp at hc; rcases hc with h | h; exact hrb c h; exact hC c h
  rw [pops rb.length _ hst (by simp)]
  have hdrop : List.drop rb.length ((C ++ rb).reverse ++ []) = C.reverse := by
    simp [List.reverse_append]
  rw [hdrop, foldl_cleanStep_normal true rt _ hrt]
  simp [render, List.reverse_append]

end D2V.Path
