import D2V.Gen.Watch
/-!
  Tie R for C45 and C44 (admission, registration, shutdown side): the protocol skeleton of d2cli/watch.go (extracted by translator/watch from the source under test on
  every run) is the one `Model/Watch.lean` encodes.  Each theorem names the model steps it justifies; a change of the
  statement order, of a lock scope, of a channel capacity or of a select's shape breaks the corresponding proof.
-/
namespace D2V.Watch

/-- handleWatch: the `closing` test and `wsclientsWG.Add(1)` are inside one critical section of wsclientsMu
    (`admitC` / `refuse`), Accept follows, its failure path calls Done (`acceptFail`), the handler goroutine defers
    Done first (`done` is its last action) and adds/removes itself from the map under the lock (`register`,
    `unregister`) around writeLoop -/
theorem gen_handleWatch : Gen.Watch.handleWatch =
    ["lock", "if-closing{", "unlock", "return", "}", "wg.add", "unlock", "accept", "if{", "wg.done", "return", "}",
     "go{", "defer-wg.done", "lock", "map-add", "unlock", "defer{", "lock", "map-del", "unlock", "}", "writeLoop", "}",
     "return"] := by decide

/-- close: test-and-set of `closing` under wsclientsMu (`closeBegin` / `closeNoop`), then cancel (`cancel`), then
    Wait as the last protocol action (`closeWait`, `closeReturn`) -/
theorem gen_close : Gen.Watch.close =
    ["lock", "if-closing{", "unlock", "return", "}", "closing=true", "unlock", "cancel", "wg.wait"] := by decide


end D2V.Watch
