import D2V.Model.Watch
/-!
  Helper development for C44/C45 (d2cli/watch.go): list infrastructure for the client table, and the WaitGroup
  invariant `InvWG` with its preservation by every step.  Core Lean only.
-/
namespace D2V.Watch


/-! ### list infrastructure -/

theorem upd_length (i : Nat) (f : Client → Client) (cs : List Client) : (upd i f cs).length = cs.length := by
  induction cs generalizing i with
  | nil => simp [upd]
  | cons c r ih => cases i <;> simp [upd, ih]

theorem getElem?_upd (i j : Nat) (f : Client → Client) (cs : List Client) :
    (upd i f cs)[j]? = if j = i then (cs[j]?).map f else cs[j]? := by
  induction cs generalizing i j with
  | nil => simp [upd]
  | cons c r ih =>
    cases i with
    | zero => cases j <;> simp [upd]
    | succ i =>
      cases j with
      | zero => simp [upd]
      | succ j => simp [upd, ih]

theorem getElem?_upd_self (i : Nat) (f : Client → Client) (cs : List Client) (c : Client) (h : cs[i]? = some c) :
    (upd i f cs)[i]? = some (f c) := by simp [getElem?_upd, h]

theorem getElem?_upd_ne (i j : Nat) (f : Client → Client) (cs : List Client) (h : j ≠ i) :
    (upd i f cs)[j]? = cs[j]? := by simp [getElem?_upd, h]

/-- a pointwise property survives an update of one client -/
theorem forall_upd {P : Nat → Client → Prop} {cs : List Client} {i : Nat} {f : Client → Client}
    (h : ∀ j c, cs[j]? = some c → P j c) (hf : ∀ c, cs[i]? = some c → P i (f c)) :
    ∀ j c, (upd i f cs)[j]? = some c → P j c := by
  intro j c hj
  rw [getElem?_upd] at hj
  by_cases e : j = i
  · subst e
    simp only [if_true] at hj
    cases hc : cs[j]? with
    | none => simp [hc] at hj
    | some c0 => simp [hc] at hj; subst hj; exact hf c0 hc
  · simp only [e, if_false] at hj; exact h j c hj

theorem forall_append {P : Nat → Client → Prop} {cs : List Client} {c0 : Client}
    (h : ∀ j c, cs[j]? = some c → P j c) (h0 : P cs.length c0) :
    ∀ j c, (cs ++ [c0])[j]? = some c → P j c := by
  intro j c hj
  by_cases e : j < cs.length
  · rw [List.getElem?_append_left e] at hj; exact h j c hj
  · have e' : cs.length ≤ j := Nat.le_of_not_lt e
    rw [List.getElem?_append_right e'] at hj
    cases hk : j - cs.length with
    | zero =>
      have : j = cs.length := by omega
      subst this
      simp at hj; subst hj; exact h0
    | succ k => rw [hk] at hj; simp at hj

def activeCount : List Client → Nat
  | [] => 0
  | c :: r => (if c.pc.active then 1 else 0) + activeCount r

theorem activeCount_upd (i : Nat) (f : Client → Client) (cs : List Client) (c : Client) (h : cs[i]? = some c) :
    activeCount (upd i f cs) + (if c.pc.active then 1 else 0) = activeCount cs + (if (f c).pc.active then 1 else 0) := by
  induction cs generalizing i with
  | nil => simp at h
  | cons d r ih =>
    cases i with
    | zero => simp at h; subst h; simp [upd, activeCount]; omega
    | succ i => simp at h; have := ih i h; simp [upd, activeCount]; omega

theorem activeCount_append (cs : List Client) (c : Client) :
    activeCount (cs ++ [c]) = activeCount cs + (if c.pc.active then 1 else 0) := by
  induction cs with
  | nil => simp [activeCount]
  | cons d r ih => simp [activeCount, ih]; omega

theorem activeCount_pos (cs : List Client) (i : Nat) (c : Client) (h : cs[i]? = some c) (ha : c.pc.active = true) :
    0 < activeCount cs := by
  induction cs generalizing i with
  | nil => simp at h
  | cons d r ih =>
    cases i with
    | zero => simp at h; subst h; simp [activeCount, ha]; omega
    | succ i => simp at h; have := ih i h; simp [activeCount]; omega

theorem activeCount_zero (cs : List Client) (h : activeCount cs = 0) :
    ∀ (i : Nat) (c : Client), cs[i]? = some c → c.pc.active = false := by
  intro i c hc
  cases ha : c.pc.active with
  | false => rfl
  | true => have := activeCount_pos cs i c hc ha; omega

/-! ### C45: the WaitGroup counts the handlers, close() waits for all of them -/

structure InvWG (s : State) : Prop where
  wgEq : s.wg = activeCount s.clients
  closeClosing : s.close ≠ .idle → s.closing = true
  retZero : s.close = .returned → s.wg = 0

theorem InvWG_init : InvWG init := ⟨rfl, by simp [init], by simp [init]⟩

/-- frame: a step that keeps clients, wg, closing and close -/
theorem InvWG_frame {s s' : State} (inv : InvWG s) (h1 : s'.clients = s.clients) (h2 : s'.wg = s.wg)
    (h3 : s'.closing = s.closing) (h4 : s'.close = s.close) : InvWG s' :=
  ⟨by rw [h1, h2]; exact inv.wgEq, by rw [h3, h4]; exact inv.closeClosing, by rw [h4, h2]; exact inv.retZero⟩

/-- a client step that does not change whether the handler is active -/
theorem InvWG_cstep {s s' : State} {i : Nat} {g : Client → Bool} {f : Client → Client} (inv : InvWG s)
    (hs : cstep s i g f = some s') (hact : ∀ c, s.clients[i]? = some c → g c = true → (f c).pc.active = c.pc.active) : InvWG s' := by
  unfold cstep at hs
  split at hs
  · rename_i c hc
    split at hs
    · rename_i hg
      simp only [Option.some.injEq] at hs; subst hs
      have := activeCount_upd i f s.clients c hc
      rw [hact c hc hg] at this
      refine ⟨?_, inv.closeClosing, inv.retZero⟩
      simp only; rw [inv.wgEq]; omega
    · simp at hs
  · simp at hs


syntax "wg_frame" ident ident : tactic
macro_rules
  | `(tactic| wg_frame $inv $hs) => `(tactic|
      ((repeat' (split at $hs:ident)) <;>
        (first
          | (simp at $hs:ident; done)
          | (simp only [Option.some.injEq] at $hs:ident; subst $hs:ident; exact InvWG_frame $inv rfl rfl rfl rfl))))

syntax "wg_cstep" ident ident : tactic
macro_rules
  | `(tactic| wg_cstep $inv $hs) => `(tactic|
      (first
        | (exact InvWG_cstep $inv $hs (by intro c hc hg; simp_all [CPc.active]))
        | (split at $hs:ident
           · exact InvWG_cstep $inv $hs (by intro c hc hg; simp_all [CPc.active])
           · simp at $hs:ident)))

theorem InvWG_step (s s' : State) (st : Step) (inv : InvWG s) (hs : step s st = some s') : InvWG s' := by
  cases st <;> simp only [step] at hs
  case change => wg_frame inv hs
  case request => wg_frame inv hs
  case sendReq => wg_frame inv hs
  case recv => wg_frame inv hs
  case compileStart => wg_frame inv hs
  case fileRead => wg_frame inv hs
  case compileEnd => wg_frame inv hs
  case setRes => wg_frame inv hs
  case bcastLock => wg_frame inv hs
  case wake c =>
    split at hs <;> try (simp at hs; done)
    split at hs <;> try (simp at hs; done)
    split at hs <;> try (simp at hs; done)
    rename_i cl hc
    split at hs <;> try (simp at hs; done)
    simp only [Option.some.injEq] at hs; subst hs
    have := activeCount_upd c (fun x => { x with ch := true }) s.clients cl hc
    refine ⟨?_, inv.closeClosing, inv.retZero⟩
    simp only at this ⊢; rw [inv.wgEq]; omega
  case wakeCoalesced => wg_frame inv hs
  case bcastDone => wg_frame inv hs
  case admitC =>
    split at hs <;> try (simp at hs; done)
    rename_i hg
    simp only [Bool.and_eq_true, Bool.not_eq_true'] at hg
    simp only [Option.some.injEq] at hs; subst hs
    refine ⟨?_, inv.closeClosing, ?_⟩
    · simp only [activeCount_append, newClient, CPc.active]; rw [inv.wgEq]; simp
    · intro hr
      have := inv.closeClosing (by simp only at hr; rw [hr]; simp)
      rw [hg.1] at this; simp at this
  case refuse =>
    split at hs <;> try (simp at hs; done)
    simp only [Option.some.injEq] at hs; subst hs
    refine ⟨?_, inv.closeClosing, inv.retZero⟩
    simp only [activeCount_append, newClient, CPc.active]; rw [inv.wgEq]; simp
  case acceptFail c =>
    split at hs <;> try (simp at hs; done)
    rename_i cl hc
    split at hs <;> try (simp at hs; done)
    rename_i hpc
    simp only [Option.some.injEq] at hs; subst hs
    have := activeCount_upd c (fun x => { x with pc := .gone }) s.clients cl hc
    simp only [hpc, CPc.active] at this
    refine ⟨?_, inv.closeClosing, ?_⟩
    · simp only; rw [inv.wgEq]; simp at this; omega
    · intro hr; simp only at hr ⊢; rw [inv.retZero hr]
  case register => wg_cstep inv hs
  case readRes => wg_cstep inv hs
  case readLog c r =>
    exact InvWG_cstep inv hs (by intro c hc hg; cases r <;> simp_all [CPc.active])
  case write c v ok =>
    split at hs <;> try (simp at hs; done)
    rename_i cl hc
    split at hs <;> try (simp at hs; done)
    rename_i hpc
    split at hs
    · simp only [Option.some.injEq] at hs; subst hs
      have := activeCount_upd c (fun x => { x with pc := .waiting, sent := x.sent ++ [v] }) s.clients cl hc
      simp only [hpc, CPc.active] at this
      refine ⟨?_, inv.closeClosing, inv.retZero⟩
      simp only; rw [inv.wgEq]; omega
    · split at hs <;> try (simp at hs; done)
      simp only [Option.some.injEq] at hs; subst hs
      have := activeCount_upd c (fun x => { x with pc := .leaving }) s.clients cl hc
      simp only [hpc, CPc.active] at this
      refine ⟨?_, inv.closeClosing, inv.retZero⟩
      simp only; rw [inv.wgEq]; omega
  case recvWake => wg_cstep inv hs
  case woken => wg_cstep inv hs
  case ctxDone => wg_cstep inv hs
  case unregister => wg_cstep inv hs
  case exit => wg_cstep inv hs
  case done c =>
    split at hs <;> try (simp at hs; done)
    rename_i cl hc
    split at hs <;> try (simp at hs; done)
    rename_i hpc
    simp only [Option.some.injEq] at hs; subst hs
    have := activeCount_upd c (fun x => { x with pc := .gone }) s.clients cl hc
    simp only [hpc, CPc.active] at this
    refine ⟨?_, inv.closeClosing, ?_⟩
    · simp only; rw [inv.wgEq]; simp at this; omega
    · intro hr; simp only at hr ⊢; rw [inv.retZero hr]
  case drop => wg_cstep inv hs
  case closeBegin =>
    split at hs <;> try (simp at hs; done)
    simp only [Option.some.injEq] at hs; subst hs
    exact ⟨inv.wgEq, fun _ => rfl, by simp⟩
  case closeNoop => wg_frame inv hs
  case cancel => wg_frame inv hs
  case closeWait =>
    split at hs <;> try (simp at hs; done)
    rename_i hb
    split at hs <;> try (simp at hs; done)
    simp only [Option.some.injEq] at hs; subst hs
    exact ⟨inv.wgEq, fun _ => inv.closeClosing (by rw [hb]; simp), by simp⟩
  case closeReturn =>
    split at hs <;> try (simp at hs; done)
    rename_i hb
    split at hs <;> try (simp at hs; done)
    rename_i hz
    simp only [Option.some.injEq] at hs; subst hs
    exact ⟨inv.wgEq, fun _ => inv.closeClosing (by rw [hb]; simp), fun _ => hz⟩
  case shutdown => wg_frame inv hs



end D2V.Watch
