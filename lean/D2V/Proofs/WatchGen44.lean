import D2V.Gen.Watch
/-!
  Tie R for C44 (compile/broadcast/client-loop side): the protocol skeleton of d2cli/watch.go (extracted by translator/watch from the source under test on
  every run) is the one `Model/Watch.lean` encodes.  Each theorem names the model steps it justifies; a change of the
  statement order, of a lock scope, of a channel capacity or of a select's shape breaks the corresponding proof.
-/
namespace D2V.Watch


/-- `compileCh` and `resultsCh` have capacity 1: a `Bool` each in the model -/
theorem gen_caps : Gen.Watch.compileChCap = 1 ∧ Gen.Watch.resultsChCap = 1 := by decide

/-- requestCompile is one non-blocking send (`sendReq` never blocks, a full channel coalesces) -/
theorem gen_requestCompile : Gen.Watch.requestCompile = ["select[send(w.compileCh),default]"] := by decide

/-- broadcast publishes the result under resMu first (`setRes`), then takes wsclientsMu (`bcastLock`) and does one
    non-blocking send per registered client (`wake` / `wakeCoalesced`) before releasing it (`bcastDone`) -/
theorem gen_broadcast : Gen.Watch.broadcast =
    ["reslock", "res=", "resunlock", "lock", "defer-unlock", "range(w.wsclients){",
     "select[send(cl.resultsCh),default]", "}"] := by decide

/-- getRes reads the result under resMu (`readRes` is atomic with respect to `setRes`) -/
theorem gen_getRes : Gen.Watch.getRes = ["reslock", "defer-resunlock", "return-res"] := by decide

/-- writeLoop: read the result (`readRes`), write it when there is one (`write`, error → leave), then block on the
    wake-up channel or the context (`recvWake` / `ctxDone`), forever -/
theorem gen_writeLoop : Gen.Watch.writeLoop =
    ["for{", "getres", "if{", "write", "if{", "return", "}", "}", "select[recv(cl.resultsCh),recv(ctx.Done())]",
     "return", "}"] := by decide


end D2V.Watch
