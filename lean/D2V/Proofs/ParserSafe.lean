import D2V.Model.Parser
/-!
A small program logic for the parser monad `P`, used for the C01 crash-freedom theorems.

`Safe c ok f Q` : started in any state whose `cfg` is `c`, `f` either returns a value satisfying `Q` in a state whose
`cfg` is still `c`, or stops with a crash `e` that is *allowed* (`ok e`).  Postconditions speak about returned
values only: both modelled panics depend on values (the rune handed to `Subtract`, the loop-local
`lastPatternIndex`/`sb`), never on the reader state.
-/
namespace D2V.Text

def Safe (c : Cfg) (ok : Crash → Prop) (f : P α) (Q : α → Prop) : Prop :=
  ∀ s, s.cfg = c → match f s with
    | .ok (a, s') => s'.cfg = c ∧ Q a
    | .error e => ok e

variable {c : Cfg} {ok : Crash → Prop} {α β σ : Type}

theorem safe_pure {a : α} {Q : α → Prop} (h : Q a) : Safe c ok (Pure.pure a : P α) Q := by
  intro s hs; exact ⟨hs, h⟩

theorem safe_bind {f : P α} {g : α → P β} {Q : α → Prop} {R : β → Prop}
    (hf : Safe c ok f Q) (hg : ∀ a, Q a → Safe c ok (g a) R) : Safe c ok (f >>= g) R := by
  intro s hs
  have h1 := hf s hs
  show match P.bind f g s with | .ok (a, s') => s'.cfg = c ∧ R a | .error e => ok e
  unfold P.bind
  split at h1
  · rename_i a s' heq
    rw [heq]
    exact hg a h1.2 s' h1.1
  · rename_i e heq
    rw [heq]
    exact h1

theorem safe_mono {f : P α} {Q R : α → Prop} (hf : Safe c ok f Q) (h : ∀ a, Q a → R a) : Safe c ok f R := by
  intro s hs
  have h1 := hf s hs
  split at h1
  · exact ⟨h1.1, h _ h1.2⟩
  · exact h1

theorem safe_map {f : P α} {g : α → β} {Q : α → Prop} {R : β → Prop}
    (hf : Safe c ok f Q) (h : ∀ a, Q a → R (g a)) : Safe c ok (g <$> f) R := by
  show Safe c ok (f >>= fun a => Pure.pure (g a)) R
  exact safe_bind hf fun a ha => safe_pure (h a ha)

theorem safe_ite {p : Prop} [Decidable p] {f g : P α} {Q : α → Prop}
    (hf : p → Safe c ok f Q) (hg : ¬p → Safe c ok g Q) : Safe c ok (if p then f else g) Q := by
  split
  · exact hf ‹_›
  · exact hg ‹_›

/-! primitives -/

theorem safe_get : Safe c ok get (fun s => s.cfg = c) := by
  intro s hs; exact ⟨hs, hs⟩

theorem safe_modify {f : PState → PState} (h : ∀ s, (f s).cfg = s.cfg) : Safe c ok (modify f) (fun _ => True) := by
  intro s hs; exact ⟨by simp [h, hs], trivial⟩

theorem safe_crash {e : Crash} {Q : α → Prop} (h : ok e) : Safe c ok (crash e : P α) Q := by
  intro s _; exact h

theorem rewindS_cfg (s : PState) : (rewindS s).cfg = s.cfg := by
  unfold rewindS; split <;> rfl

theorem safe_rewind : Safe c ok rewind (fun _ => True) := safe_modify rewindS_cfg

theorem safe_commit : Safe c ok commit (fun _ => True) := safe_modify fun _ => rfl

theorem safe_of_ok {f : P α} {Q : α → Prop}
    (h : ∀ s, ∃ a s', f s = .ok (a, s') ∧ s'.cfg = s.cfg ∧ Q a) : Safe c ok f Q := by
  intro s hs
  obtain ⟨a, s', he, hc, hq⟩ := h s
  rw [he]
  exact ⟨hc.trans hs, hq⟩

theorem safe_readRune : Safe c ok readRune (fun _ => True) := by
  apply safe_of_ok
  intro s
  unfold readRune
  cases s.readahead with
  | cons r ra => exact ⟨_, _, rfl, rfl, trivial⟩
  | nil =>
    simp only
    by_cases hio : s.ioerr = true
    · simp only [hio, if_true]
      exact ⟨_, _, rfl, rewindS_cfg s, trivial⟩
    · simp only [hio]
      cases s.rest with
      | nil => exact ⟨_, _, rfl, by simp [rewindS_cfg], trivial⟩
      | cons r rest => exact ⟨_, _, rfl, rfl, trivial⟩

theorem safe_read : Safe c ok read (fun _ => True) := by
  unfold read
  refine safe_bind safe_readRune fun a _ => ?_
  split
  · exact safe_pure trivial
  · exact safe_bind (safe_modify fun _ => rfl) fun _ _ => safe_pure trivial

theorem safe_peek : Safe c ok peek (fun _ => True) := by
  unfold peek
  refine safe_bind safe_readRune fun a _ => ?_
  split
  · exact safe_pure trivial
  · exact safe_bind (safe_modify fun _ => rfl) fun _ _ => safe_pure trivial

theorem safe_peekn (n : Nat) : Safe c ok (peekn n) (fun _ => True) := by
  induction n with
  | zero => exact safe_pure trivial
  | succ n ih =>
    unfold peekn
    refine safe_bind safe_peek fun a _ => ?_
    split
    · exact safe_pure trivial
    · exact safe_bind ih fun _ _ => safe_pure trivial

theorem safe_errorf {a b : Pos} {m : String} : Safe c ok (errorf a b m) (fun _ => True) := safe_modify fun _ => rfl

theorem safe_getPos : Safe c ok getPos (fun _ => True) := by intro s hs; exact ⟨hs, trivial⟩
theorem safe_getReaderPos : Safe c ok getReaderPos (fun _ => True) := by intro s hs; exact ⟨hs, trivial⟩
theorem safe_getLookaheadPos : Safe c ok getLookaheadPos (fun _ => True) := by intro s hs; exact ⟨hs, trivial⟩

/-- the one place `Position.Subtract` can panic: allowed only for a rune that is not the newline -/
theorem safe_replay {r : Char} (h : r ≠ '\n') : Safe c ok (replay r) (fun _ => True) := by
  intro s hs
  unfold replay Pos.subtract
  simp only [h, if_false]
  exact ⟨by simp [rewindS_cfg, hs], trivial⟩

theorem safe_posSub {r : Char} (h : r ≠ '\n') : Safe c ok (posSub r) (fun _ => True) := by
  intro s hs
  unfold posSub Pos.subtract
  simp only [h, if_false]
  exact ⟨hs, trivial⟩

theorem safe_subPos {p : Pos} {r : Char} (h : r ≠ '\n') : Safe c ok (subPos p r) (fun _ => True) := by
  intro s hs
  unfold subPos Pos.subtract
  simp only [h, if_false]
  exact ⟨hs, trivial⟩

theorem subtractString_ok (p : Pos) (cs : List Char) (u16 : Bool) (h : '\n' ∉ cs) :
    ∃ q, p.subtractString cs u16 = .ok q := by
  induction cs generalizing p with
  | nil => exact ⟨p, rfl⟩
  | cons x xs ih =>
    have hx : x ≠ '\n' := fun e => h (by simp [e])
    have hxs : '\n' ∉ xs := fun e => h (by simp [e])
    simp only [Pos.subtractString, List.foldlM_cons, Pos.subtract, hx, if_false]
    exact ih _ hxs

theorem safe_subPosString {p : Pos} {cs : List Char} (h : '\n' ∉ cs) : Safe c ok (subPosString p cs) (fun _ => True) := by
  intro s hs
  unfold subPosString
  obtain ⟨q, hq⟩ := subtractString_ok p cs s.u16 h
  rw [hq]
  exact ⟨hs, trivial⟩

/-- loops: an invariant `I` on the loop-local state -/
theorem safe_loopN {body : σ → P (σ ⊕ α)} {I : σ → Prop} {R : α → Prop} (hf : ok .outOfFuel)
    (hb : ∀ st, I st → Safe c ok (body st) (fun x => match x with | .inl st' => I st' | .inr a => R a)) :
    ∀ n st, I st → Safe c ok (loopN n body st) R := by
  intro n
  induction n with
  | zero => intro st _; exact safe_crash hf
  | succ n ih =>
    intro st hI
    unfold loopN
    refine safe_bind (hb st hI) fun x hx => ?_
    split
    · exact ih _ hx
    · exact safe_pure hx

theorem safe_loop {body : σ → P (σ ⊕ α)} {I : σ → Prop} {R : α → Prop} {init : σ} (hf : ok .outOfFuel) (hi : I init)
    (hb : ∀ st, I st → Safe c ok (body st) (fun x => match x with | .inl st' => I st' | .inr a => R a)) :
    Safe c ok (loop body init) R := by
  intro s hs
  exact safe_loopN hf hb s.fuel init hi s hs

theorem nonspace_not_newline (r : Char) (h : isSpace r = false) : r ≠ '\n' := by
  intro e
  subst e
  revert h
  decide

/-- `readNotSpace` hands back a non-space rune (or eof) -/
theorem safe_readNotSpace (hf : ok .outOfFuel) :
    Safe c ok readNotSpace (fun o => ∀ r, o = some r → r ≠ '\n') := by
  unfold readNotSpace
  refine safe_loop (I := fun _ => True) hf trivial fun _ _ => ?_
  refine safe_bind safe_read fun a _ => ?_
  split
  · exact safe_pure (by intro r h; cases h)
  · rename_i r
    split
    · exact safe_pure trivial
    · rename_i hsp
      exact safe_pure (by
        intro r' h; cases h
        exact nonspace_not_newline r (by simpa using hsp))

/-- `peekNotSpace` hands back a non-space rune (or eof) -/
theorem safe_peekNotSpace (hf : ok .outOfFuel) :
    Safe c ok peekNotSpace (fun o => ∀ r n, o = some (r, n) → r ≠ '\n') := by
  unfold peekNotSpace
  refine safe_loop (I := fun _ => True) hf trivial fun _ _ => ?_
  refine safe_bind safe_peek fun a _ => ?_
  split
  · exact safe_pure (by intro r n h; cases h)
  · rename_i r
    split
    · exact safe_pure trivial
    · rename_i hsp
      exact safe_pure (by
        intro r' n h; cases h
        exact nonspace_not_newline r (by simpa using hsp))

end D2V.Text
