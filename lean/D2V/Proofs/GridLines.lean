import D2V.Model.Grid
import Mathlib.Tactic.Linarith
import Mathlib.Tactic.NormNum
/-! Helper lemmas for C22: the cursor loops `placeLine` / `placeLines` for arbitrary lines with non-negative sizes. -/
namespace D2V.Grid

/-- `b` comes after `a` in declaration order: either further along the same line, at least one gap away, or in a
    later line, at least one gap across.  (Order, "no overlap" and "gaps at least as configured" in one relation.) -/
def sep (gm gc : Rat) (a b : B) : Prop :=
  (a.c = b.c ∧ a.cs = b.cs ∧ a.m + a.ms + gm ≤ b.m) ∨ (a.c + a.cs + gc ≤ b.c)

theorem lineCross_nonneg (line : List Sz) : 0 ≤ lineCross line := by
  unfold lineCross
  suffices h : ∀ (l : List Sz) (x : Rat), 0 ≤ x → 0 ≤ l.foldl (fun m s => max m s.c) x from h line 0 (le_refl _)
  intro l
  induction l with
  | nil => intro x hx; simpa using hx
  | cons s r ih => intro x hx; simp only [List.foldl_cons]; exact ih _ (le_trans hx (le_max_left _ _))

theorem foldl_max_ge (l : List Sz) (x : Rat) :
    x ≤ l.foldl (fun m s => max m s.c) x ∧ ∀ s ∈ l, s.c ≤ l.foldl (fun m s => max m s.c) x := by
  induction l generalizing x with
  | nil => simp
  | cons s r ih =>
    simp only [List.foldl_cons]
    obtain ⟨h1, h2⟩ := ih (max x s.c)
    refine ⟨le_trans (le_max_left _ _) h1, ?_⟩
    intro t ht
    rcases List.mem_cons.mp ht with rfl | ht
    · exact le_trans (le_max_right _ _) h1
    · exact h2 t ht

/-- the line's cross size bounds the cross size of each of its cells: a cell never shrinks across the line -/
theorem le_lineCross {line : List Sz} {s : Sz} (h : s ∈ line) : s.c ≤ lineCross line :=
  (foldl_max_ge line 0).2 s h

theorem placeLine_length (gm c cs : Rat) (line : List Sz) (cur : Rat) :
    (placeLine gm c cs line cur).length = line.length := by
  induction line generalizing cur with
  | nil => rfl
  | cons s r ih => simp [placeLine, ih]

theorem placeLine_mem {gm c cs : Rat} {line : List Sz} {cur : Rat} {b : B}
    (hnn : ∀ s ∈ line, 0 ≤ s.m) (hg : 0 ≤ gm) (hb : b ∈ placeLine gm c cs line cur) :
    cur ≤ b.m ∧ b.c = c ∧ b.cs = cs ∧ 0 ≤ b.ms := by
  induction line generalizing cur with
  | nil => simp [placeLine] at hb
  | cons s r ih =>
    simp only [placeLine, List.mem_cons] at hb
    have hs : 0 ≤ s.m := hnn s List.mem_cons_self
    rcases hb with rfl | hb
    · exact ⟨le_refl _, rfl, rfl, hs⟩
    · obtain ⟨h1, h2, h3, h4⟩ := ih (fun t ht => hnn t (List.mem_cons_of_mem _ ht)) hb
      exact ⟨by linarith, h2, h3, h4⟩

/-- inside a line every later cell starts after the earlier one ends plus the gap -/
theorem placeLine_pairwise {gm c cs : Rat} {line : List Sz} {cur : Rat}
    (hnn : ∀ s ∈ line, 0 ≤ s.m) (hg : 0 ≤ gm) :
    (placeLine gm c cs line cur).Pairwise (fun a b => a.m + a.ms + gm ≤ b.m) := by
  induction line generalizing cur with
  | nil => simp [placeLine]
  | cons s r ih =>
    simp only [placeLine, List.pairwise_cons]
    refine ⟨?_, ih (fun t ht => hnn t (List.mem_cons_of_mem _ ht))⟩
    intro b hb
    exact (placeLine_mem (fun t ht => hnn t (List.mem_cons_of_mem _ ht)) hg hb).1

/-- neighbours in a line are separated by exactly the gap -/
theorem placeLine_exact {gm c cs : Rat} {line : List Sz} {cur : Rat} (k : Nat) (a b : B)
    (ha : (placeLine gm c cs line cur)[k]? = some a) (hb : (placeLine gm c cs line cur)[k + 1]? = some b) :
    b.m = a.m + a.ms + gm := by
  induction line generalizing cur k with
  | nil => simp [placeLine] at ha
  | cons s r ih =>
    cases k with
    | zero =>
      simp only [placeLine, List.getElem?_cons_zero, Option.some.injEq] at ha
      simp only [placeLine, List.getElem?_cons_succ] at hb
      cases r with
      | nil => simp [placeLine] at hb
      | cons s2 r2 =>
        simp only [placeLine, List.getElem?_cons_zero, Option.some.injEq] at hb
        subst ha; subst hb; rfl
    | succ k =>
      simp only [placeLine, List.getElem?_cons_succ] at ha hb
      exact ih k ha hb

/-- where the `j`-th cell of a line lands depends only on the sizes before it: `cur + Σ_{t<j} (m_t + gap)` -/
def prefixPos (gm : Rat) : List Rat → Nat → Rat → Rat
  | _, 0, cur => cur
  | [], _ + 1, cur => cur
  | w :: r, j + 1, cur => prefixPos gm r j (cur + w + gm)

theorem placeLine_get {gm c cs : Rat} {line : List Sz} {cur : Rat} (j : Nat) (b : B)
    (hb : (placeLine gm c cs line cur)[j]? = some b) :
    b.m = prefixPos gm (line.map (·.m)) j cur ∧ (line.map (·.m))[j]? = some b.ms := by
  induction line generalizing cur j with
  | nil => simp [placeLine] at hb
  | cons s r ih =>
    cases j with
    | zero =>
      simp only [placeLine, List.getElem?_cons_zero, Option.some.injEq] at hb
      subst hb; simp [prefixPos]
    | succ j =>
      simp only [placeLine, List.getElem?_cons_succ] at hb
      obtain ⟨h1, h2⟩ := ih j hb
      exact ⟨by simpa [prefixPos] using h1, by simpa using h2⟩

theorem placeLines_length (gm gc : Rat) (lines : List (List Sz)) (cur : Rat) :
    (placeLines gm gc lines cur).map List.length = lines.map List.length := by
  induction lines generalizing cur with
  | nil => rfl
  | cons l r ih => simp [placeLines, placeLine_length, ih]

theorem placeLines_mem {gm gc : Rat} {lines : List (List Sz)} {cur : Rat} {pl : List B} {b : B}
    (hnn : ∀ l ∈ lines, ∀ s ∈ l, 0 ≤ s.m) (hg : 0 ≤ gm) (hgc : 0 ≤ gc)
    (hpl : pl ∈ placeLines gm gc lines cur) (hb : b ∈ pl) : cur ≤ b.c ∧ 0 ≤ b.cs ∧ 0 ≤ b.m ∧ 0 ≤ b.ms := by
  induction lines generalizing cur with
  | nil => simp [placeLines] at hpl
  | cons l r ih =>
    simp only [placeLines, List.mem_cons] at hpl
    rcases hpl with rfl | hpl
    · obtain ⟨h1, h2, h3, h4⟩ := placeLine_mem (hnn l List.mem_cons_self) hg hb
      exact ⟨by rw [h2], by rw [h3]; exact lineCross_nonneg l, h1, h4⟩
    · obtain ⟨h1, h2, h3, h4⟩ := ih (fun l' hl' => hnn l' (List.mem_cons_of_mem _ hl')) hpl
      have := lineCross_nonneg l
      exact ⟨by linarith, h2, h3, h4⟩

/-- every cell of a later line lies beyond every cell of an earlier line by at least the cross gap -/
theorem placeLines_pairwise {gm gc : Rat} {lines : List (List Sz)} {cur : Rat}
    (hnn : ∀ l ∈ lines, ∀ s ∈ l, 0 ≤ s.m) (hg : 0 ≤ gm) (hgc : 0 ≤ gc) :
    (placeLines gm gc lines cur).Pairwise (fun l1 l2 => ∀ a ∈ l1, ∀ b ∈ l2, a.c + a.cs + gc ≤ b.c) := by
  induction lines generalizing cur with
  | nil => simp [placeLines]
  | cons l r ih =>
    simp only [placeLines, List.pairwise_cons]
    refine ⟨?_, ih (fun l' hl' => hnn l' (List.mem_cons_of_mem _ hl'))⟩
    intro l2 hl2 a ha b hb
    obtain ⟨_, h2, h3, _⟩ := placeLine_mem (hnn l List.mem_cons_self) hg ha
    have := (placeLines_mem (fun l' hl' => hnn l' (List.mem_cons_of_mem _ hl')) hg hgc hl2 hb).1
    rw [h2, h3]; exact this

/-- **the generic ordering theorem**: in declaration order (lines concatenated) every pair of slots is `sep`arated -/
theorem placeLines_sep {gm gc : Rat} {lines : List (List Sz)} {cur : Rat}
    (hnn : ∀ l ∈ lines, ∀ s ∈ l, 0 ≤ s.m) (hg : 0 ≤ gm) (hgc : 0 ≤ gc) :
    (placeLines gm gc lines cur).flatten.Pairwise (sep gm gc) := by
  rw [List.pairwise_flatten]
  constructor
  · intro pl hpl
    -- inside one line
    have : ∃ l c cur', pl = placeLine gm c (lineCross l) l cur' ∧ (∀ s ∈ l, 0 ≤ s.m) := by
      clear hgc
      induction lines generalizing cur with
      | nil => simp [placeLines] at hpl
      | cons l r ih =>
        simp only [placeLines, List.mem_cons] at hpl
        rcases hpl with rfl | hpl
        · exact ⟨l, cur, 0, rfl, hnn l List.mem_cons_self⟩
        · exact ih (fun l' hl' => hnn l' (List.mem_cons_of_mem _ hl')) hpl
    obtain ⟨l, c, cur', rfl, hl⟩ := this
    have hp := placeLine_pairwise (c := c) (cs := lineCross l) (cur := cur') hl hg
    have hm : ∀ b ∈ placeLine gm c (lineCross l) l cur', b.c = c ∧ b.cs = lineCross l :=
      fun b hb => let h := placeLine_mem hl hg hb; ⟨h.2.1, h.2.2.1⟩
    -- strengthen the relation with the membership facts
    have : (placeLine gm c (lineCross l) l cur').Pairwise
        (fun a b => a ∈ placeLine gm c (lineCross l) l cur' ∧ b ∈ placeLine gm c (lineCross l) l cur' ∧ a.m + a.ms + gm ≤ b.m) := by
      rw [List.pairwise_iff_forall_sublist] at hp ⊢
      intro a b hab
      exact ⟨hab.subset (by simp), hab.subset (by simp), hp hab⟩
    exact this.imp (fun {a b} ⟨ha, hb, h⟩ => Or.inl ⟨by rw [(hm a ha).1, (hm b hb).1], by rw [(hm a ha).2, (hm b hb).2], h⟩)
  · exact (placeLines_pairwise hnn hg hgc).imp (fun h a ha b hb => Or.inr (h a ha b hb))

/-- every placed line is `placeLine` of its line of sizes, started at 0 along the line -/
theorem placeLines_mem_form {gm gc : Rat} {lines : List (List Sz)} {cur : Rat} {pl : List B}
    (hpl : pl ∈ placeLines gm gc lines cur) : ∃ l ∈ lines, ∃ c, pl = placeLine gm c (lineCross l) l 0 := by
  induction lines generalizing cur with
  | nil => simp [placeLines] at hpl
  | cons l r ih =>
    simp only [placeLines, List.mem_cons] at hpl
    rcases hpl with rfl | hpl
    · exact ⟨l, List.mem_cons_self, cur, rfl⟩
    · obtain ⟨l', hl', c, h⟩ := ih hpl
      exact ⟨l', List.mem_cons_of_mem _ hl', c, h⟩

theorem zipWith_setM_map (l : List Sz) (cm : List Rat) :
    (l.zipWith (fun s m => (⟨m, s.c⟩ : Sz)) cm).map (·.m) = cm.take l.length := by
  induction l generalizing cm with
  | nil => simp
  | cons s t iht =>
    cases cm with
    | nil => simp
    | cons w ws => simp [iht ws]

/-- `sep` implies that the two slots do not overlap (sizes and gaps non-negative) -/
theorem sep_disjoint {gm gc : Rat} {a b : B} (hg : 0 ≤ gm) (hgc : 0 ≤ gc) (h : sep gm gc a b) :
    a.m + a.ms ≤ b.m ∨ a.c + a.cs ≤ b.c := by
  rcases h with ⟨_, _, h⟩ | h
  · left; linarith
  · right; linarith

/-- cross position and size of a placed cell, without any sign condition -/
theorem placeLine_mem_c {gm c cs : Rat} {line : List Sz} {cur : Rat} {x : B} (hx : x ∈ placeLine gm c cs line cur) :
    x.c = c ∧ x.cs = cs := by
  induction line generalizing cur with
  | nil => simp [placeLine] at hx
  | cons s t iht =>
    simp only [placeLine, List.mem_cons] at hx
    rcases hx with rfl | hx
    · exact ⟨rfl, rfl⟩
    · exact iht hx

/-- consecutive lines are exactly one cross gap apart -/
theorem placeLines_cross_exact {gm gc : Rat} {lines : List (List Sz)} {cur : Rat} (i : Nat) (l1 l2 : List B)
    (h1 : (placeLines gm gc lines cur)[i]? = some l1) (h2 : (placeLines gm gc lines cur)[i + 1]? = some l2) :
    ∀ a ∈ l1, ∀ b ∈ l2, b.c = a.c + a.cs + gc := by
  induction lines generalizing cur i with
  | nil => simp [placeLines] at h1
  | cons l r ih =>
    cases i with
    | zero =>
      simp only [placeLines, List.getElem?_cons_zero, Option.some.injEq] at h1
      simp only [placeLines, List.getElem?_cons_succ] at h2
      cases r with
      | nil => simp [placeLines] at h2
      | cons l' r' =>
        simp only [placeLines, List.getElem?_cons_zero, Option.some.injEq] at h2
        subst h1; subst h2
        intro a ha b hb
        obtain ⟨a1, a2⟩ := placeLine_mem_c ha
        obtain ⟨b1, _⟩ := placeLine_mem_c hb
        rw [a1, a2, b1]
    | succ i =>
      simp only [placeLines, List.getElem?_cons_succ] at h1 h2
      exact ih i h1 h2

/-! ### totals: `for _, w := range ws { total += w + gap }` -/

def addUp (g : Rat) (ws : List Rat) (x : Rat) : Rat := ws.foldl (fun x w => x + w + g) x

theorem addUp_ge {g : Rat} (hg : 0 ≤ g) : ∀ (ws : List Rat) (x : Rat), (∀ w ∈ ws, 0 ≤ w) → x ≤ addUp g ws x := by
  intro ws
  induction ws with
  | nil => intro x _; exact le_refl _
  | cons w r ih =>
    intro x h
    have hw := h w List.mem_cons_self
    have := ih (x + w + g) (fun t ht => h t (List.mem_cons_of_mem _ ht))
    simp only [addUp, List.foldl_cons] at this ⊢
    linarith

theorem addUp_append (g : Rat) (a b : List Rat) (x : Rat) : addUp g (a ++ b) x = addUp g b (addUp g a x) := by
  simp [addUp, List.foldl_append]

theorem addUp_take_le {g : Rat} (hg : 0 ≤ g) (ws : List Rat) (k : Nat) (x : Rat) (h : ∀ w ∈ ws, 0 ≤ w) :
    addUp g (ws.take k) x ≤ addUp g ws x := by
  conv_rhs => rw [← List.take_append_drop k ws, addUp_append]
  exact addUp_ge hg _ _ (fun w hw => h w (List.mem_of_mem_drop hw))

theorem lineLen_eq (gm : Rat) (line : List Sz) : lineLen gm line = addUp gm (line.map (·.m)) 0 - gm := by
  simp [lineLen, addUp, List.foldl_map]

/-- a placed cell ends (plus one gap) before the running total of its line -/
theorem placeLine_end {gm c cs : Rat} {line : List Sz} {cur : Rat} {b : B}
    (hnn : ∀ s ∈ line, 0 ≤ s.m) (hg : 0 ≤ gm) (hb : b ∈ placeLine gm c cs line cur) :
    b.m + b.ms + gm ≤ addUp gm (line.map (·.m)) cur := by
  induction line generalizing cur with
  | nil => simp [placeLine] at hb
  | cons s r ih =>
    simp only [placeLine, List.mem_cons] at hb
    simp only [List.map_cons, addUp, List.foldl_cons]
    rcases hb with rfl | hb
    · exact addUp_ge hg _ _ (by
        intro w hw; obtain ⟨t, ht, rfl⟩ := List.mem_map.mp hw; exact hnn t (List.mem_cons_of_mem _ ht))
    · exact ih (fun t ht => hnn t (List.mem_cons_of_mem _ ht)) hb

/-- a placed cell's line ends (plus one cross gap) before the running total of the cross sizes -/
theorem placeLines_end {gm gc : Rat} {lines : List (List Sz)} {cur : Rat} {pl : List B} {b : B}
    (hgc : 0 ≤ gc) (hpl : pl ∈ placeLines gm gc lines cur) (hb : b ∈ pl) :
    b.c + b.cs + gc ≤ addUp gc (lines.map lineCross) cur := by
  induction lines generalizing cur with
  | nil => simp [placeLines] at hpl
  | cons l r ih =>
    simp only [placeLines, List.mem_cons] at hpl
    simp only [List.map_cons, addUp, List.foldl_cons]
    rcases hpl with rfl | hpl
    · obtain ⟨h1, h2⟩ := placeLine_mem_c hb
      rw [h1, h2]
      exact addUp_ge hgc _ _ (by
        intro w hw; obtain ⟨t, _, rfl⟩ := List.mem_map.mp hw; exact lineCross_nonneg t)
    · exact ih hpl

end D2V.Grid
