import D2V.Proofs.QuoteScan
/-!
  Helper lemmas, part 4: `parseString` reads a formatted key segment / value back, under explicit
  hypotheses about the strings that only case-insensitively match `null` or a reserved keyword.
-/
set_option linter.unusedSimpArgs false
namespace D2V.Quote
open D2V.Gen.Quote

theorem lowerGuard_double (k : Bool) : lowerGuard true k = false := by cases k <;> decide

theorem printBoxes_double (k : Bool) (s : Str) : printBoxes true k s = escDouble k s := by
  simp [printBoxes, lowerGuard_double]

theorem uqFoldWord_null : uqFoldWord = "null" := by decide

theorem uqFoldLiteral_cases : uqFoldLiteral = none ∨ uqFoldLiteral = some ['\'', 'n', 'u', 'l', 'l', '\''] := by decide

theorem null_word : "null".toList = ['n', 'u', 'l', 'l'] := by decide

theorem foldNull_chars {s : Str} (h : equalFold s "null" = true) : ∀ c ∈ s, c ≠ '\'' ∧ c ≠ '\n' := by
  intro c hc
  have hm : (s.map foldKey) = ['n', 'u', 'l', 'l'] := by
    have : ("null".toList.map foldKey) = ['n', 'u', 'l', 'l'] := by decide
    unfold equalFold at h
    rw [this] at h
    simpa using h
  have : foldKey c ∈ ['n', 'u', 'l', 'l'] := by
    rw [← hm]; exact List.mem_map_of_mem hc
  constructor
  · intro he; subst he; revert this; decide
  · intro he; subst he; revert this; decide

theorem escSingle_plain : ∀ (s : Str), (∀ c ∈ s, c ≠ '\'' ∧ c ≠ '\n') → escSingle s = s
  | [], _ => rfl
  | c :: t, h => by
    have hc := h c (by simp)
    rw [escSingle_cons, sqEsc_plain hc.1 hc.2, escSingle_plain t (fun x hx => h x (by simp [hx]))]
    rfl

theorem no_nl_of_chars {s : Str} (h : ∀ c ∈ s, c ≠ '\'' ∧ c ≠ '\n') : s.contains '\n' = false := by
  cases hc : s.contains '\n' with
  | false => rfl
  | true =>
    have : '\n' ∈ s := by simpa using hc
    exact absurd rfl (h _ this).2

theorem kw_no_quote_head : ∀ k ∈ reservedKeywords, k.head? ≠ some '\'' := by decide

theorem lowerChar_quote : lowerChar '\'' = '\'' := by decide

theorem restOk_noQuote {rest : Str} (h : RestOk rest) : NoQuoteHead rest := by
  intro r hr
  rcases h with rfl | ⟨r', rfl⟩
  · simp at hr
  · injection hr with h1 _
    revert h1; decide

theorem startsWith_dots {c : Char} (X : Str) (h : c ≠ '.') : startsWith ['.', '.', '.', '@'] (c :: X) = false := by
  simp [startsWith, List.isPrefixOf, Ne.symm h]

/-- `keyPlain` strings start with `-` or with a rune outside `UnquotedKeySpecials` -/
theorem keyPlain_head {c : Char} {t : Str} (h : keyPlain (c :: t) = true) :
    c ≠ '"' ∧ c ≠ '\'' ∧ c ≠ '|' ∧ c ≠ '.' ∧ c ≠ '(' ∧ c ≠ '@' := by
  by_cases hd : c = '-'
  · subst hd; decide
  · obtain ⟨_, _, h3, h4, h5, h6, h7, h8, _⟩ := key_plain_char (keyPlain_cons_ne h hd).1
    exact ⟨h3, h4, h5, h7, h6, h8⟩

theorem parseUnquoted_keyPlain' {e : Bool} {s term w rest' : Str} (hr : UQEnd e term w rest') (hne : s ≠ [])
    (hp : keyPlain s = true) (hw : surroundingWs s = false) :
    parseUnquoted true e (s ++ term) = .seg .unq s rest' := by
  cases s with
  | nil => exact absurd rfl hne
  | cons c t =>
    have hh := keyPlain_head hp
    unfold parseUnquoted
    simp only [List.cons_append, startsWith_dots _ hh.2.2.2.1, Bool.false_eq_true, if_false]
    have := scanUQ_keyPlain' hr (c :: t) [] hp
    simp only [List.cons_append] at this
    rw [this]
    simp only [List.append_nil]
    rw [sw_trim' hne hw w hr.spaces]
    simp

theorem parseUnquoted_keyPlain {e : Bool} {s rest : Str} (hr : RestOk rest) (hne : s ≠ []) (hp : keyPlain s = true)
    (hw : surroundingWs s = false) : parseUnquoted true e (s ++ rest) = .seg .unq s rest :=
  parseUnquoted_keyPlain' (uqEnd_restOk hr) hne hp hw

/-- the shape of a formatted segment that `parseKey` needs: its first rune -/
def GoodHead (text : Str) : Prop := ∃ c X, text = c :: X ∧ isSpace c = false ∧ c ≠ '(' ∧ c ≠ '.'

theorem quote_chars : isSpace '"' = false ∧ isSpace '\'' = false := by decide

/-- key segment round trip at the level of `parseString`, for any continuation `rest` that is empty or
    starts the next segment.  `hnull`/`hkw` are the two spots where d2 folds case. -/
theorem parseString_fmtKey {e : Bool} {s rest : Str} (hr : RestOk rest)
    (hnull : equalFold s "null" = true → s = "null".toList ∨ uqFoldLiteral = none)
    (hkw : rawString s true = .unq → kwCase s = false) :
    ∃ k, parseString true e (fmtKey s ++ rest) = .seg k s rest ∧ (k = .unq → s.head? ≠ some '@') ∧ GoodHead (fmtKey s) := by
  have hraw := rawString_key s
  unfold fmtKey
  generalize hq : rawString s true = q at hraw hkw
  cases hraw with
  | dq =>
    refine ⟨.dq, ?_, by simp, ⟨'"', _, rfl, quote_chars.1, by decide, by decide⟩⟩
    simp only [fmtString, printBoxes_double, List.cons_append, List.append_assoc, List.nil_append]
    unfold parseString
    rw [skipSpacesNL_cons _ quote_chars.1]
    simp only [beq_self_eq_true, if_true]
    rw [scanDQ_escDouble]
    simp
  | sq hn =>
    refine ⟨.sq, ?_, by simp, ⟨'\'', _, rfl, quote_chars.2, by decide, by decide⟩⟩
    simp only [fmtString, List.cons_append, List.append_assoc, List.nil_append]
    unfold parseString
    rw [skipSpacesNL_cons _ quote_chars.2]
    have : ('\'' == '"') = false := by decide
    simp only [this, Bool.false_eq_true, if_false, beq_self_eq_true, if_true]
    rw [(scanSQ_escSingle rest (restOk_noQuote hr) s hn []).1]
    simp
  | unq hne hp hw hflag =>
    have hk := hkw rfl
    cases s with
    | nil => exact absurd rfl hne
    | cons c t =>
    have hh := keyPlain_head hp
    have hsp := sw_head hw
    simp only [fmtString, printBoxes, Bool.false_eq_true, if_false]
    by_cases hfold : equalFold (c :: t) uqFoldWord = true
    · -- written between single quotes by escapeUnquotedValue
      have hfold' : equalFold (c :: t) "null" = true := by rw [← uqFoldWord_null]; exact hfold
      have hres : uqFoldResult (c :: t) = '\'' :: (c :: t) ++ ['\''] := by
        unfold uqFoldResult
        rcases hnull hfold' with hs | hl
        · rcases uqFoldLiteral_cases with h | h
          · rw [h]
          · rw [h, hs, null_word]; rfl
        · rw [hl]
      have hchars := foldNull_chars hfold'
      have hraw : escUnquoted true (c :: t) = '\'' :: (escSingle (c :: t) ++ ['\'']) := by
        unfold escUnquoted
        simp only [List.isEmpty_cons, Bool.false_eq_true, if_false, hfold, if_true, hres, escSingle_plain _ hchars]
        simp
      have hnk : reservedKeywords.contains (lowerStr ('\'' :: (escSingle (c :: t) ++ ['\'']))) = false := by
        cases hc : reservedKeywords.contains (lowerStr ('\'' :: (escSingle (c :: t) ++ ['\'']))) with
        | false => rfl
        | true =>
          have hm : lowerStr ('\'' :: (escSingle (c :: t) ++ ['\''])) ∈ reservedKeywords := by simpa using hc
          have := kw_no_quote_head _ hm
          simp [lowerStr, lowerChar_quote] at this
      refine ⟨.sq, ?_, by simp, ?_⟩
      · rw [hraw, hnk]
        simp only [Bool.and_false, Bool.false_eq_true, if_false, List.cons_append, List.append_assoc, List.nil_append]
        unfold parseString
        rw [skipSpacesNL_cons _ quote_chars.2]
        have : ('\'' == '"') = false := by decide
        simp only [this, Bool.false_eq_true, if_false, beq_self_eq_true, if_true]
        rw [(scanSQ_escSingle rest (restOk_noQuote hr) (c :: t) (no_nl_of_chars hchars) []).1]
        simp
      · rw [hraw, hnk]
        simp only [Bool.and_false, Bool.false_eq_true, if_false]
        exact ⟨'\'', _, rfl, quote_chars.2, by decide, by decide⟩
    · -- written as it is
      have hraw : escUnquoted true (c :: t) = c :: t := by
        unfold escUnquoted
        simp only [List.isEmpty_cons, Bool.false_eq_true, if_false, hfold]
        exact escUnqLoop_keyPlain _ _ hp
      have hout : (if (lowerGuard false true && reservedKeywords.contains (lowerStr (c :: t))) = true
          then lowerStr (c :: t) else c :: t) = c :: t := by
        split
        · rename_i hg
          simp only [Bool.and_eq_true] at hg
          unfold kwCase at hk
          simp only [hg.2, Bool.true_and, bne_eq_false_iff_eq] at hk
          exact hk
        · rfl
      refine ⟨.unq, ?_, ?_, ?_⟩
      · rw [hraw, hout]
        unfold parseString
        simp only [List.cons_append]
        rw [skipSpacesNL_cons _ hsp]
        simp only [beq_iff_eq, hh.1, hh.2.1, hh.2.2.1, if_false]
        have := parseUnquoted_keyPlain (e := e) hr hne hp hw
        simpa using this
      · intro _
        simp [hh.2.2.2.2.2]
      · rw [hraw, hout]
        exact ⟨c, t, rfl, hsp, hh.2.2.2.2.1, hh.2.2.2.1⟩


/-! ### values -/

theorem ladder_eq : valueFoldLadder =
    [("null", .null), ("suspend", .suspension true), ("unsuspend", .suspension false),
     ("true", .boolean true), ("false", .boolean false)] := by decide

/-- a kind that keeps the string: not a null, not a suspension, a boolean only for its own spelling -/
def KeepsString (k : ValKind) (s : Str) : Prop :=
  k ≠ .null ∧ (∀ b, k ≠ .suspension b) ∧ (∀ b, k = .boolean b → s = (if b then "true".toList else "false".toList))

theorem classify_keeps (isNum : Str → Bool) {s : Str}
    (hfold : ∀ w ∈ foldWords, equalFold s w = true → s = w.toList)
    (hq : equalFold s "null" = false ∧ equalFold s "suspend" = false ∧ equalFold s "unsuspend" = false) :
    ∃ k, classify isNum s = (k, s) ∧ KeepsString k s := by
  unfold classify foldKindOf
  rw [ladder_eq]
  simp only [List.find?, hq.1, hq.2.1, hq.2.2]
  cases ht : equalFold s "true" with
  | true =>
    have := hfold "true" (by decide) ht
    refine ⟨.boolean true, ?_, by simp [KeepsString], by simp [KeepsString], ?_⟩
    · simp [this]
    · intro b hb; injection hb with hb; subst hb; simpa using this
  | false =>
    cases hf : equalFold s "false" with
    | true =>
      have := hfold "false" (by decide) hf
      refine ⟨.boolean false, ?_, by simp [KeepsString], by simp [KeepsString], ?_⟩
      · simp [this]
      · intro b hb; injection hb with hb; subst hb; simpa using this
    | false =>
      simp only [Option.map_none]
      cases isNum s
      · exact ⟨.unq, rfl, by simp [KeepsString], by simp [KeepsString], by intro b hb; cases hb⟩
      · exact ⟨.number, rfl, by simp [KeepsString], by simp [KeepsString], by intro b hb; cases hb⟩

theorem at_in_value : '@' ∈ valueSpecials := by decide

theorem startsWith_dots_value {s : Str} (h : containsAny s valueSpecials = false) :
    startsWith ['.', '.', '.', '@'] s = false := by
  cases hs : startsWith ['.', '.', '.', '@'] s with
  | false => rfl
  | true =>
    exfalso
    have hmem : ∀ x ∈ s, x ∉ valueSpecials := by simpa [containsAny] using h
    have hp : ['.', '.', '.', '@'] <+: s := by
      unfold startsWith at hs
      exact List.isPrefixOf_iff_prefix.mp hs
    obtain ⟨r, hr⟩ := hp
    have : '@' ∈ s := by rw [← hr]; simp
    exact hmem _ this at_in_value

theorem value_head {c : Char} (h : valueSpecials.contains c = false) :
    c ≠ '"' ∧ c ≠ '\'' ∧ c ≠ '|' ∧ c ≠ '[' ∧ c ≠ '{' ∧ c ≠ '@' := by
  obtain ⟨_, h2, h3, h4, _, h6, h7, h8, _⟩ := value_plain_char h
  exact ⟨h2, h3, h4, h6, h7, h8⟩

/-- value round trip.  `hfold`/`hq`/`hkw` are the spots where d2 folds case. -/
theorem parseValue_fmtValue (isNum : Str → Bool) {s : Str}
    (hfold : rawString s false = .unq → ∀ w ∈ foldWords, equalFold s w = true → s = w.toList)
    (hq : rawString s false = .unq →
      equalFold s "null" = false ∧ equalFold s "suspend" = false ∧ equalFold s "unsuspend" = false)
    (hkw : rawString s false = .unq → lowerGuard false false = true →
      reservedKeywords.contains (lowerStr s) = true → lowerStr s = s) :
    ∃ k, parseValue isNum (fmtValue s) = .ok k s [] ∧ KeepsString k s := by
  have hraw := rawString_value s
  unfold fmtValue
  generalize hqq : rawString s false = q at hraw hfold hq hkw
  cases hraw with
  | dq =>
    refine ⟨.dq, ?_, by simp [KeepsString], by simp [KeepsString], by intro b hb; cases hb⟩
    simp only [fmtString, printBoxes_double]
    unfold parseValue
    rw [skipSpacesNL_cons _ quote_chars.1]
    have h1 : (('"' == '[') || ('"' == '{') || ('"' == '@')) = false := by decide
    simp only [h1, Bool.false_eq_true, if_false]
    unfold parseString
    rw [skipSpacesNL_cons _ quote_chars.1]
    simp only [beq_self_eq_true, if_true]
    rw [scanDQ_escDouble]
    simp
  | sq hn =>
    refine ⟨.sq, ?_, by simp [KeepsString], by simp [KeepsString], by intro b hb; cases hb⟩
    simp only [fmtString]
    unfold parseValue
    rw [skipSpacesNL_cons _ quote_chars.2]
    have h1 : (('\'' == '[') || ('\'' == '{') || ('\'' == '@')) = false := by decide
    simp only [h1, Bool.false_eq_true, if_false]
    unfold parseString
    rw [skipSpacesNL_cons _ quote_chars.2]
    have : ('\'' == '"') = false := by decide
    simp only [this, Bool.false_eq_true, if_false, beq_self_eq_true, if_true]
    rw [(scanSQ_escSingle [] (by intro r hr; simp at hr) s hn []).1]
    simp
  | unq hne hg hw =>
    have hspec := rawValueGuard_false hg
    obtain ⟨hq1, hq2, hq3⟩ := hq rfl
    cases s with
    | nil => exact absurd rfl hne
    | cons c t =>
    have hc : valueSpecials.contains c = false := by
      have : valueSpecials.contains c = false ∧ containsAny t valueSpecials = false := by
        simpa [containsAny] using hspec
      exact this.1
    have hh := value_head hc
    have hsp := sw_head hw
    have hnofold : equalFold (c :: t) uqFoldWord = false := by rw [uqFoldWord_null]; exact hq1
    have hraw : escUnquoted false (c :: t) = c :: t := by
      unfold escUnquoted
      simp only [List.isEmpty_cons, Bool.false_eq_true, if_false, hnofold]
      exact escUnqLoop_valuePlain _ _ hspec
    have hout : (if (lowerGuard false false && reservedKeywords.contains (lowerStr (c :: t))) = true
        then lowerStr (c :: t) else c :: t) = c :: t := by
      split
      · rename_i hgd
        simp only [Bool.and_eq_true] at hgd
        exact hkw rfl hgd.1 hgd.2
      · rfl
    obtain ⟨k, hk, hkeep⟩ := classify_keeps isNum (hfold rfl) ⟨hq1, hq2, hq3⟩
    refine ⟨k, ?_, hkeep⟩
    have hpu : parseUnquoted false false (c :: t) = .seg .unq (c :: t) [] := by
      unfold parseUnquoted
      rw [startsWith_dots_value hspec, scanUQ_valuePlain _ _ hspec]
      simp only [Bool.false_eq_true, if_false, List.append_nil]
      rw [sw_trim hne hw]
      simp
    have hps : parseString false false (c :: t) = .seg .unq (c :: t) [] := by
      unfold parseString
      rw [skipSpacesNL_cons _ hsp]
      simp only [beq_iff_eq, hh.1, hh.2.1, hh.2.2.1, if_false]
      exact hpu
    simp only [fmtString, printBoxes, Bool.false_eq_true, if_false, hraw, hout]
    unfold parseValue
    rw [skipSpacesNL_cons _ hsp]
    simp only [beq_iff_eq, hh.2.2.2.1, hh.2.2.2.2.1, hh.2.2.2.2.2, Bool.or_self, Bool.false_eq_true, if_false,
      decide_false, hps, hk]
    have hb : (c == '[' || c == '{' || c == '@') = false := by
      simp [hh.2.2.2.1, hh.2.2.2.2.1, hh.2.2.2.2.2]
    simp [hb]

end D2V.Quote
