/-
  AST-level normal-form lemmas for the formatter's rewrite `boardsLast` (agent `format`):
  it is idempotent on trees in which no board node is dropped (`noDrop`), and not in general.
-/
import D2V.Model.Fmt
import D2V.Proofs.FmtFix

set_option linter.unusedSimpArgs false
set_option linter.unusedVariables false

namespace D2V.Fmt

mutual
  /-- no board node without a non-empty map anywhere (such nodes are dropped by the printer) -/
  def noDrop : N → Bool
    | .arr _ items => noDropL items
    | .map _ nodes => nodes.all (fun n => !isBoard n || isKeptBoard n) && noDropL nodes
    | .item _ v => noDrop v
    | .mnode _ _ v => noDrop v
    | .key _ _ v => noDrop v
    | _ => true
  def noDropL : List N → Bool
    | [] => true
    | x :: xs => noDrop x && noDropL xs
end

theorem boardsLast_key (h : KeyHead) (p : Option Scalar) (v : N) :
    boardsLast (.key h p v) = .key h p (if dropsVal v then .absent else boardsLast v) := by
  cases v with
  | map one nodes => cases nodes <;> simp [boardsLast, dropsVal]
  | _ => simp [boardsLast, dropsVal]

theorem isBoard_boardsLast (x : N) : isBoard (boardsLast x) = isBoard x := by
  cases x with
  | mnode b l v =>
    cases v with
    | key h p val => simp [boardsLast, boardsLast_key, isBoard_mnode]
    | _ => simp [boardsLast, isBoard_mnode]
  | key h p v => simp [boardsLast_key, isBoard]
  | _ => simp [boardsLast, isBoard]

theorem blNon_cons_nonboard {x : N} {xs : List N} (h : isBoard x = false) : blNon (x :: xs) = boardsLast x :: blNon xs := by
  simp [blNon, h]
theorem blNon_cons_board {x : N} {xs : List N} (h : isBoard x = true) : blNon (x :: xs) = blNon xs := by
  simp [blNon, h]
theorem blKept_cons_kept {x : N} {xs : List N} (h : isKeptBoard x = true) : blKept (x :: xs) = boardsLast x :: blKept xs := by
  simp [blKept, h]
theorem blKept_cons_skip {x : N} {xs : List N} (h : isKeptBoard x = false) : blKept (x :: xs) = blKept xs := by
  simp [blKept, h]

theorem boardsLast_map_cons {one : Bool} {y : N} {ys : List N}
    (hk : (y :: ys).all (fun n => !isBoard n || isKeptBoard n) = true) :
    ∃ z zs, boardsLast (.map one (y :: ys)) = .map one (z :: zs) := by
  simp only [List.all_cons, Bool.and_eq_true, Bool.or_eq_true, Bool.not_eq_true'] at hk
  simp only [boardsLast]
  cases hb : isBoard y
  · rw [blNon_cons_nonboard hb, List.cons_append]; exact ⟨_, _, rfl⟩
  · have hkept : isKeptBoard y = true := by
      rcases hk.1 with h | h
      · simp [hb] at h
      · exact h
    rw [blKept_cons_kept hkept]
    obtain ⟨z, zs, hz⟩ := cons_of_append_right (blNon (y :: ys)) (b := boardsLast y :: blKept ys) rfl
    rw [hz]; exact ⟨_, _, rfl⟩

theorem noDrop_map_kept {one : Bool} {nodes : List N} (h : noDrop (.map one nodes) = true) :
    nodes.all (fun n => !isBoard n || isKeptBoard n) = true := by
  simp only [noDrop, Bool.and_eq_true] at h; exact h.1

theorem dropsVal_boardsLast {v : N} (h : noDrop v = true) : dropsVal (boardsLast v) = dropsVal v := by
  cases v with
  | map one nodes =>
    cases nodes with
    | nil => simp [boardsLast, blNon, blKept, dropsVal]
    | cons y ys =>
      obtain ⟨z, zs, hz⟩ := boardsLast_map_cons (one := one) (noDrop_map_kept h)
      rw [hz]; rfl
  | key hd p val => simp [boardsLast_key, dropsVal]
  | _ => simp [boardsLast, dropsVal]

theorem isKeptBoard_boardsLast {x : N} (h : noDrop x = true) : isKeptBoard (boardsLast x) = isKeptBoard x := by
  cases x with
  | mnode b l v =>
    cases v with
    | key hd p val =>
      cases val with
      | map one nodes =>
        cases nodes with
        | nil => simp [boardsLast, boardsLast_key, dropsVal, isKeptBoard_mnode]
        | cons y ys =>
          have hv : noDrop (.map one (y :: ys)) = true := by simpa [noDrop] using h
          obtain ⟨z, zs, hz⟩ := boardsLast_map_cons (one := one) (noDrop_map_kept hv)
          have e1 : boardsLast (.mnode b l (.key hd p (.map one (y :: ys)))) =
              .mnode b l (boardsLast (.key hd p (.map one (y :: ys)))) := by simp only [boardsLast]
          rw [e1, boardsLast_key]
          simp only [dropsVal, Bool.false_eq_true, if_false]
          rw [hz]
          simp [isKeptBoard_mnode]
      | _ => simp [boardsLast, boardsLast_key, dropsVal, isKeptBoard_mnode]
    | _ => simp [boardsLast, isKeptBoard_mnode]
  | key hd p v => simp [boardsLast_key, isKeptBoard]
  | _ => simp [boardsLast, isKeptBoard]

theorem blNon_append : ∀ (a b : List N), blNon (a ++ b) = blNon a ++ blNon b
  | [], _ => by simp [blNon]
  | x :: xs, b => by
    cases h : isBoard x
    · simp [blNon, h, blNon_append xs b]
    · simp [blNon, h, blNon_append xs b]

theorem blKept_append : ∀ (a b : List N), blKept (a ++ b) = blKept a ++ blKept b
  | [], _ => by simp [blKept]
  | x :: xs, b => by
    cases h : isKeptBoard x
    · simp [blKept, h, blKept_append xs b]
    · simp [blKept, h, blKept_append xs b]

theorem blNon_of_blKept : ∀ l : List N, blNon (blKept l) = []
  | [] => by simp [blKept, blNon]
  | x :: xs => by
    cases h : isKeptBoard x
    · simp [blKept_cons_skip h, blNon_of_blKept xs]
    · have hb : isBoard (boardsLast x) = true := by rw [isBoard_boardsLast]; exact isKeptBoard_isBoard h
      simp [blKept_cons_kept h, blNon_cons_board hb, blNon_of_blKept xs]

theorem blKept_of_blNon : ∀ l : List N, blKept (blNon l) = []
  | [] => by simp [blKept, blNon]
  | x :: xs => by
    cases h : isBoard x
    · have hk : isKeptBoard (boardsLast x) = false := by
        cases hk : isKeptBoard (boardsLast x)
        · rfl
        · have := isKeptBoard_isBoard hk; rw [isBoard_boardsLast, h] at this; exact absurd this (by simp)
      simp [blNon_cons_nonboard h, blKept_cons_skip hk, blKept_of_blNon xs]
    · simp [blNon_cons_board h, blKept_of_blNon xs]

theorem noDropL_cons {x : N} {xs : List N} (h : noDropL (x :: xs) = true) : noDrop x = true ∧ noDropL xs = true := by
  simpa [noDropL] using h

mutual
  /-- `boardsLast` is idempotent on trees in which no board node is dropped -/
  theorem boardsLast_idem : ∀ n : N, noDrop n = true → boardsLast (boardsLast n) = boardsLast n
    | .absent, _ => by simp [boardsLast]
    | .scalar s, _ => by simp [boardsLast]
    | .sub sp p, _ => by simp [boardsLast]
    | .imp sp p, _ => by simp [boardsLast]
    | .arr one items, h => by
      simp only [noDrop] at h
      simp [boardsLast, boardsLastL_idem items h]
    | .map one nodes, h => by
      simp only [noDrop, Bool.and_eq_true] at h
      simp only [boardsLast, blNon_append, blKept_append, blNon_of_blKept, blKept_of_blNon, List.append_nil, List.nil_append,
        blNon_idem nodes h.2, blKept_idem nodes h.2]
    | .item b v, h => by
      simp only [noDrop] at h
      simp [boardsLast, boardsLast_idem v h]
    | .mnode b l v, h => by
      simp only [noDrop] at h
      simp [boardsLast, boardsLast_idem v h]
    | .key hd p v, h => by
      simp only [noDrop] at h
      rw [boardsLast_key]
      cases hd' : dropsVal v
      · simp only [Bool.false_eq_true, if_false, boardsLast_key, dropsVal_boardsLast h, hd', boardsLast_idem v h]
      · simp [boardsLast_key, dropsVal]

  theorem boardsLastL_idem : ∀ l : List N, noDropL l = true → boardsLastL (boardsLastL l) = boardsLastL l
    | [], _ => by simp [boardsLastL]
    | x :: xs, h => by
      have h' := noDropL_cons h
      simp [boardsLastL, boardsLast_idem x h'.1, boardsLastL_idem xs h'.2]

  theorem blNon_idem : ∀ l : List N, noDropL l = true → blNon (blNon l) = blNon l
    | [], _ => by simp [blNon]
    | x :: xs, h => by
      have h' := noDropL_cons h
      cases hb : isBoard x
      · have hb' : isBoard (boardsLast x) = false := by rw [isBoard_boardsLast]; exact hb
        simp [blNon_cons_nonboard hb, blNon_cons_nonboard hb', boardsLast_idem x h'.1, blNon_idem xs h'.2]
      · simp [blNon_cons_board hb, blNon_idem xs h'.2]

  theorem blKept_idem : ∀ l : List N, noDropL l = true → blKept (blKept l) = blKept l
    | [], _ => by simp [blKept]
    | x :: xs, h => by
      have h' := noDropL_cons h
      cases hk : isKeptBoard x
      · simp [blKept_cons_skip hk, blKept_idem xs h'.2]
      · have hk' : isKeptBoard (boardsLast x) = true := by rw [isKeptBoard_boardsLast h'.1]; exact hk
        simp [blKept_cons_kept hk, blKept_cons_kept hk', boardsLast_idem x h'.1, blKept_idem xs h'.2]
end

end D2V.Fmt

namespace D2V.Fmt

/-! ### `lowerKeywords` and `boardsLast` commute when lower-casing creates no new board node -/

mutual
  /-- keyword lower-casing turns no node of a map into a board node (no `Steps`, `LAYERS: {…}` keys) -/
  def noKeyCase : N → Bool
    | .arr _ items => noKeyCaseL items
    | .map _ nodes => nodes.all (fun n => isBoardAfter n == isBoard n) && noKeyCaseL nodes
    | .item _ v => noKeyCase v
    | .mnode _ _ v => noKeyCase v
    | .key _ _ v => noKeyCase v
    | _ => true
  def noKeyCaseL : List N → Bool
    | [] => true
    | x :: xs => noKeyCase x && noKeyCaseL xs
end

theorem lowerKeywordsL_length : ∀ l : List N, (lowerKeywordsL l).length = l.length
  | [] => by simp [lowerKeywordsL]
  | x :: xs => by simp [lowerKeywordsL, lowerKeywordsL_length xs]

theorem isBoard_lowerKeywords (x : N) : isBoard (lowerKeywords x) = isBoardAfter x := by
  cases x with
  | mnode b l v =>
    cases v <;> simp [lowerKeywords, isBoard_mnode, isBoardAfter]
  | _ => simp [lowerKeywords, isBoard, isBoardAfter]

theorem isKeptBoard_lowerKeywords (x : N) (h : isBoardAfter x = isBoard x) :
    isKeptBoard (lowerKeywords x) = isKeptBoard x := by
  cases x with
  | mnode b l v =>
    cases v with
    | key hd p val =>
      have hh : headIsBoard (normHead hd) = headIsBoard hd := by simpa [isBoardAfter, isBoard_mnode] using h
      cases val with
      | map one nodes =>
        cases nodes with
        | nil => simp [lowerKeywords, lowerKeywordsL, isKeptBoard_mnode]
        | cons y ys => simp [lowerKeywords, lowerKeywordsL, isKeptBoard_mnode, hh]
      | _ => simp [lowerKeywords, isKeptBoard_mnode]
    | _ => simp [lowerKeywords, isKeptBoard_mnode]
  | _ => simp [lowerKeywords, isKeptBoard]

theorem dropsVal_lowerKeywords (v : N) : dropsVal (lowerKeywords v) = dropsVal v := by
  cases v with
  | map one nodes => cases nodes <;> simp [lowerKeywords, lowerKeywordsL, dropsVal]
  | _ => simp [lowerKeywords, dropsVal]

theorem lowerKeywordsL_append : ∀ a b : List N, lowerKeywordsL (a ++ b) = lowerKeywordsL a ++ lowerKeywordsL b
  | [], _ => by simp [lowerKeywordsL]
  | x :: xs, b => by simp [lowerKeywordsL, lowerKeywordsL_append xs b]

theorem noKeyCaseL_cons {x : N} {xs : List N} (h : noKeyCaseL (x :: xs) = true) : noKeyCase x = true ∧ noKeyCaseL xs = true := by
  simpa [noKeyCaseL] using h

mutual
  theorem lower_boardsLast_comm : ∀ n : N, noKeyCase n = true →
      lowerKeywords (boardsLast n) = boardsLast (lowerKeywords n)
    | .absent, _ => by simp [boardsLast, lowerKeywords]
    | .scalar s, _ => by simp [boardsLast, lowerKeywords]
    | .sub sp p, _ => by simp [boardsLast, lowerKeywords]
    | .imp sp p, _ => by simp [boardsLast, lowerKeywords]
    | .arr one items, h => by
      simp only [noKeyCase] at h
      simp [boardsLast, lowerKeywords, lowerL_boardsLastL_comm items h]
    | .map one nodes, h => by
      simp only [noKeyCase, Bool.and_eq_true] at h
      simp only [boardsLast, lowerKeywords, lowerKeywordsL_append, lowerL_blNon_comm nodes h.1 h.2, lowerL_blKept_comm nodes h.1 h.2]
    | .item b v, h => by
      simp only [noKeyCase] at h
      simp [boardsLast, lowerKeywords, lower_boardsLast_comm v h]
    | .mnode b l v, h => by
      simp only [noKeyCase] at h
      simp [boardsLast, lowerKeywords, lower_boardsLast_comm v h]
    | .key hd p v, h => by
      simp only [noKeyCase] at h
      rw [boardsLast_key]
      simp only [lowerKeywords, boardsLast_key, dropsVal_lowerKeywords]
      cases hd' : dropsVal v
      · simp [lower_boardsLast_comm v h]
      · simp [lowerKeywords]

  theorem lowerL_boardsLastL_comm : ∀ l : List N, noKeyCaseL l = true →
      lowerKeywordsL (boardsLastL l) = boardsLastL (lowerKeywordsL l)
    | [], _ => by simp [boardsLastL, lowerKeywordsL]
    | x :: xs, h => by
      have h' := noKeyCaseL_cons h
      simp [boardsLastL, lowerKeywordsL, lower_boardsLast_comm x h'.1, lowerL_boardsLastL_comm xs h'.2]

  theorem lowerL_blNon_comm : ∀ l : List N, l.all (fun n => isBoardAfter n == isBoard n) = true → noKeyCaseL l = true →
      lowerKeywordsL (blNon l) = blNon (lowerKeywordsL l)
    | [], _, _ => by simp [blNon, lowerKeywordsL]
    | x :: xs, hc, h => by
      have h' := noKeyCaseL_cons h
      simp only [List.all_cons, Bool.and_eq_true, beq_iff_eq] at hc
      have hb' : isBoard (lowerKeywords x) = isBoard x := by rw [isBoard_lowerKeywords]; exact hc.1
      cases hb : isBoard x
      · rw [blNon_cons_nonboard hb]
        simp only [lowerKeywordsL]
        rw [blNon_cons_nonboard (by rw [hb', hb]), lower_boardsLast_comm x h'.1, lowerL_blNon_comm xs hc.2 h'.2]
      · rw [blNon_cons_board hb]
        simp only [lowerKeywordsL]
        rw [blNon_cons_board (by rw [hb', hb]), lowerL_blNon_comm xs hc.2 h'.2]

  theorem lowerL_blKept_comm : ∀ l : List N, l.all (fun n => isBoardAfter n == isBoard n) = true → noKeyCaseL l = true →
      lowerKeywordsL (blKept l) = blKept (lowerKeywordsL l)
    | [], _, _ => by simp [blKept, lowerKeywordsL]
    | x :: xs, hc, h => by
      have h' := noKeyCaseL_cons h
      simp only [List.all_cons, Bool.and_eq_true, beq_iff_eq] at hc
      have hk' := isKeptBoard_lowerKeywords x hc.1
      cases hk : isKeptBoard x
      · rw [blKept_cons_skip hk]
        simp only [lowerKeywordsL]
        rw [blKept_cons_skip (by rw [hk', hk]), lowerL_blKept_comm xs hc.2 h'.2]
      · rw [blKept_cons_kept hk]
        simp only [lowerKeywordsL]
        rw [blKept_cons_kept (by rw [hk', hk]), lower_boardsLast_comm x h'.1, lowerL_blKept_comm xs hc.2 h'.2]
end

end D2V.Fmt

namespace D2V.Fmt

/-! ### keyword lower-casing is idempotent -/

theorem normStr_idem (k : Bool) (s : Str) : normStr k (normStr k s) = normStr k s := by
  obtain ⟨q, raw, val⟩ := s
  cases q <;> simp only [normStr]
  by_cases h : (lowersHere k && isReserved (lower raw)) = true
  · have hres : isReserved (lower raw) = true := by simp only [Bool.and_eq_true] at h; exact h.2
    have hl : lowersHere k = true := by simp only [Bool.and_eq_true] at h; exact h.1
    simp [h, hl, isReserved_lower_fixed hres, hres]
  · simp [h]

theorem normPath_idem (k : Bool) (p : Path) : normPath k (normPath k p) = normPath k p := by
  simp [normPath, List.map_map, Function.comp_def, normStr_idem]

theorem normScalar_idem (s : Scalar) : normScalar (normScalar s) = normScalar s := by
  cases s <;> simp [normScalar, normStr_idem]

theorem normHead_idem (h : KeyHead) : normHead (normHead h) = normHead h := by
  obtain ⟨amp, key, src, hops, eidx, ekey⟩ := h
  simp only [normHead, Option.map_map, List.map_map]
  have hp : (normPath true ∘ normPath true) = normPath true := by funext p; simp [normPath_idem]
  have hh : (normHop ∘ normHop) = normHop := by
    funext x; obtain ⟨sa, da, dst⟩ := x; simp [normHop, normPath_idem]
  simp [hp, hh]

mutual
  /-- keyword lower-casing is idempotent on every tree -/
  theorem lowerKeywords_idem : ∀ n : N, lowerKeywords (lowerKeywords n) = lowerKeywords n
    | .absent => by simp [lowerKeywords]
    | .scalar s => by simp [lowerKeywords, normScalar_idem]
    | .sub sp p => by simp [lowerKeywords, normPath_idem]
    | .imp sp p => by simp [lowerKeywords, impPath_normPath_impPath, normPath_idem]
    | .arr one items => by simp [lowerKeywords, lowerKeywordsL_idem items]
    | .map one nodes => by simp [lowerKeywords, lowerKeywordsL_idem nodes]
    | .item b v => by simp [lowerKeywords, lowerKeywords_idem v]
    | .mnode b l v => by simp [lowerKeywords, lowerKeywords_idem v]
    | .key h p v => by
      simp only [lowerKeywords, normHead_idem, lowerKeywords_idem v, Option.map_map]
      congr 1
      cases p <;> simp [normScalar_idem]
  theorem lowerKeywordsL_idem : ∀ l : List N, lowerKeywordsL (lowerKeywordsL l) = lowerKeywordsL l
    | [] => by simp [lowerKeywordsL]
    | x :: xs => by simp [lowerKeywordsL, lowerKeywords_idem x, lowerKeywordsL_idem xs]
end

end D2V.Fmt

namespace D2V.Fmt

/-- what parse ∘ fmt does to a layout-free AST is a normal form: `norm (norm a) = norm a`, when no board node is
    dropped and lower-casing creates no board node -/
theorem norm_idem (a : N) (h1 : noDrop a = true) (h2 : noKeyCase (boardsLast a) = true) : norm (norm a) = norm a := by
  unfold norm
  rw [← lower_boardsLast_comm (boardsLast a) h2, lowerKeywords_idem, boardsLast_idem a h1]

end D2V.Fmt
