import D2V.Proofs.QuoteCI
/-!
  Helper lemmas, part 7 (C06): a connection ID `[common.](src arrow dst)[index]` built from segment texts is
  read back by the model of ParseMapKey (`parseEdgeID`) as exactly those chains, arrows and index.
-/
set_option linter.unusedSimpArgs false
namespace D2V.Quote
open D2V.Gen.Quote

/-! ### the index: `%d` and the digit loop of parseEdgeIndex -/

def digitsVal : Str → Nat → Nat
  | [], v => v
  | c :: r, v => digitsVal r (v * 10 + (c.toNat - 48))

theorem digit_facts : ∀ k : Fin 10,
    (Char.ofNat (48 + k.val)).toNat - 48 = k.val ∧ isAsciiDigit (Char.ofNat (48 + k.val)) = true ∧
    isSpace (Char.ofNat (48 + k.val)) = false ∧ Char.ofNat (48 + k.val) ≠ ']' := by decide

def AllDigits (ds : Str) : Prop := ∀ c ∈ ds, isAsciiDigit c = true ∧ isSpace c = false ∧ c ≠ ']'

theorem indexDigits_digits (X : Str) : ∀ (ds : Str), AllDigits ds → ∀ v,
    indexDigits (ds ++ ']' :: X) v = some (some (digitsVal ds v, ']' :: X))
  | [], _, v => by
    have : isSpace ']' = false := by decide
    simp [indexDigits, digitsVal, this]
  | c :: r, h, v => by
    obtain ⟨h1, h2, h3⟩ := h c (by simp)
    have ih := indexDigits_digits X r (fun x hx => h x (by simp [hx])) (v * 10 + (c.toNat - 48))
    simp only [List.cons_append, indexDigits, h2, Bool.false_eq_true, if_false, beq_iff_eq, h3, h1, if_true, digitsVal]
    exact ih

theorem digitsVal_shift : ∀ (ds : Str) (v : Nat), digitsVal ds v = v * 10 ^ ds.length + digitsVal ds 0
  | [], v => by simp [digitsVal]
  | c :: r, v => by
    rw [digitsVal, digitsVal, digitsVal_shift r (v * 10 + (c.toNat - 48)), digitsVal_shift r (0 * 10 + (c.toNat - 48))]
    simp only [List.length_cons, Nat.pow_succ, Nat.zero_mul, Nat.zero_add]
    rw [Nat.add_mul, Nat.mul_assoc, Nat.mul_comm 10 (10 ^ r.length)]
    omega

theorem natDigitsAux_spec : ∀ (fuel n : Nat) (acc : Str), n < 10 ^ fuel → AllDigits acc →
    AllDigits (natDigitsAux fuel n acc) ∧
    digitsVal (natDigitsAux fuel n acc) 0 = n * 10 ^ acc.length + digitsVal acc 0 ∧
    (0 < fuel → natDigitsAux fuel n acc ≠ [])
  | 0, n, acc, hn, hacc => by
    have : n = 0 := by simpa using hn
    subst this
    simp [natDigitsAux, hacc]
  | fuel + 1, n, acc, hn, hacc => by
    have hd := digit_facts ⟨n % 10, Nat.mod_lt _ (by decide)⟩
    simp only at hd
    have hacc' : AllDigits (Char.ofNat (48 + n % 10) :: acc) := by
      intro c hc
      rcases List.mem_cons.mp hc with rfl | h
      · exact ⟨hd.2.1, hd.2.2.1, hd.2.2.2⟩
      · exact hacc c h
    unfold natDigitsAux
    by_cases hlt : n < 10
    · simp only [hlt, if_true]
      refine ⟨hacc', ?_, fun _ => by simp⟩
      have hmod : n % 10 = n := Nat.mod_eq_of_lt hlt
      rw [digitsVal, digitsVal_shift acc, hd.1, hmod]
      simp
    · simp only [hlt, if_false]
      have hdiv : n / 10 < 10 ^ fuel := by
        rw [Nat.pow_succ] at hn
        omega
      obtain ⟨h1, h2, h3⟩ := natDigitsAux_spec fuel (n / 10) (Char.ofNat (48 + n % 10) :: acc) hdiv hacc'
      refine ⟨h1, ?_, ?_⟩
      · rw [h2, digitsVal, digitsVal_shift acc, hd.1]
        simp only [List.length_cons, Nat.pow_succ, Nat.zero_mul, Nat.zero_add]
        have hn' : n = 10 * (n / 10) + n % 10 := (Nat.div_add_mod n 10).symm
        generalize 10 ^ acc.length = p at *
        generalize digitsVal acc 0 = q at *
        conv => rhs; rw [hn']
        rw [Nat.add_mul, Nat.mul_comm p 10, ← Nat.mul_assoc, Nat.mul_comm (n / 10) 10]
        omega
      · intro _
        cases fuel with
        | zero =>
          exfalso
          simp at hdiv
          omega
        | succ f => exact h3 (by omega)

theorem natDigits_spec (n : Nat) : AllDigits (natDigits n) ∧ digitsVal (natDigits n) 0 = n ∧ natDigits n ≠ [] := by
  have hlt : n < 10 ^ (n + 1) := by
    have : n < 2 ^ n := Nat.lt_two_pow_self
    calc n < 2 ^ n := this
      _ ≤ 10 ^ n := Nat.pow_le_pow_left (by decide) n
      _ ≤ 10 ^ (n + 1) := Nat.pow_le_pow_right (by decide) (by omega)
  obtain ⟨h1, h2, h3⟩ := natDigitsAux_spec (n + 1) n [] hlt (by intro c hc; simp at hc)
  exact ⟨h1, by simpa [digitsVal, natDigits] using h2, h3 (by omega)⟩


/-! ### one segment text in front of any terminator -/

theorem parseString_segText' {e : Bool} {v t term w rest' : Str} (h : SegText v t) (hu : UQEnd e term w rest')
    (hq : NoQuoteHead term) :
    ∃ k r, parseString true e (t ++ term) = .seg k v r ∧ (r = rest' ∨ r = term) ∧ (k = .unq → v.head? ≠ some '@') := by
  cases h with
  | unq hne hp hw =>
    cases v with
    | nil => exact absurd rfl hne
    | cons c r =>
      have hh := keyPlain_head hp
      refine ⟨.unq, rest', ?_, Or.inl rfl, fun _ => by simp [hh.2.2.2.2.2]⟩
      unfold parseString
      simp only [List.cons_append]
      rw [skipSpacesNL_cons _ (sw_head hw)]
      simp only [beq_iff_eq, hh.1, hh.2.1, hh.2.2.1, if_false]
      have := parseUnquoted_keyPlain' hu hne hp hw
      simpa using this
  | dq =>
    refine ⟨.dq, term, ?_, Or.inr rfl, by simp⟩
    simp only [List.cons_append, List.append_assoc, List.nil_append]
    unfold parseString
    rw [skipSpacesNL_cons _ quote_chars.1]
    simp only [beq_self_eq_true, if_true]
    rw [scanDQ_escDouble]
    simp
  | sq hn =>
    refine ⟨.sq, term, ?_, Or.inr rfl, by simp⟩
    simp only [List.cons_append, List.append_assoc, List.nil_append]
    unfold parseString
    rw [skipSpacesNL_cons _ quote_chars.2]
    have : ('\'' == '"') = false := by decide
    simp only [this, Bool.false_eq_true, if_false, beq_self_eq_true, if_true]
    rw [(scanSQ_escSingle term hq v hn []).1]
    simp

theorem finishKey_ok' {path : List Seg} (rest : Str) (hne : path ≠ [])
    (hlen : ∀ g ∈ path, utf8LenStr g.val ≤ maxKeyLen) : finishKey path rest = .ok path rest := by
  unfold finishKey
  have h1 : path.isEmpty = false := by
    cases path with
    | nil => exact absurd rfl hne
    | cons _ _ => rfl
  have h2 : path.any (fun g => decide (utf8LenStr g.val > maxKeyLen)) = false := by
    apply List.any_eq_false.mpr
    intro g hg
    have := hlen g hg
    simp; omega
  simp [h1, h2]

/-- terminators after which `parseKey` stops: the unquoted scanner ends as `UQEnd` says, a quote may be closed in
    front of it, and neither what the scanner leaves nor the terminator itself continues the key with a dot -/
structure KeyEnd (e : Bool) (term w rest' : Str) : Prop where
  uq : UQEnd e term w rest'
  noQuote : NoQuoteHead term
  stop1 : afterSeg rest' = none
  stop2 : afterSeg term = none

theorem lastSeg_keyEnd {e : Bool} {term w rest' v t : Str} (hk : KeyEnd e term w rest') (h : SegText v t)
    (hv : utf8LenStr v ≤ maxKeyLen) (n : Nat) (acc : List Seg) (hacc : ∀ g ∈ acc, utf8LenStr g.val ≤ maxKeyLen) :
    ∃ k r, parseKeyLoop e (n + 1) (t ++ term) acc = .ok (acc ++ [⟨k, v⟩]) r ∧ (r = rest' ∨ r = term) := by
  obtain ⟨k, r, hps, hr, hat⟩ := parseString_segText' h hk.uq hk.noQuote
  refine ⟨k, r, ?_, hr⟩
  rw [parseKeyLoop_step n acc (keyLook_go' (goodHead_append (segText_goodHead h) _)) hps hat]
  have hstop : afterSeg r = none := by rcases hr with rfl | rfl; exact hk.stop1; exact hk.stop2
  rw [hstop]
  apply finishKey_ok' _ (by simp)
  intro g hg
  rcases List.mem_append.mp hg with h1 | h1
  · exact hacc g h1
  · simp at h1; subst h1; exact hv

/-- the common container of a connection ID: the last segment is followed by `.(`; `parseKey` consumes the dot
    and stops in front of the parenthesis -/
theorem lastSeg_dotParen {v t : Str} (X : Str) (h : SegText v t) (hv : utf8LenStr v ≤ maxKeyLen) (n : Nat)
    (acc : List Seg) (hacc : ∀ g ∈ acc, utf8LenStr g.val ≤ maxKeyLen) :
    ∃ k, parseKeyLoop false (n + 2) (t ++ '.' :: '(' :: X) acc = .ok (acc ++ [⟨k, v⟩]) ('(' :: X) := by
  obtain ⟨k, hps, hat⟩ := parseString_segText (e := false) h (Or.inr ⟨'(' :: X, rfl⟩)
  refine ⟨k, ?_⟩
  rw [parseKeyLoop_step (n + 1) acc (keyLook_go' (goodHead_append (segText_goodHead h) _)) hps hat, afterSeg_dot]
  simp only
  rw [parseKeyLoop]
  have : isSpace '(' = false := by decide
  simp only [keyLook, this, Bool.false_eq_true, if_false, beq_self_eq_true, if_true]
  apply finishKey_ok' _ (by simp)
  intro g hg
  rcases List.mem_append.mp hg with h1 | h1
  · exact hacc g h1
  · simp at h1; subst h1; exact hv

/-- `ts` are segment texts of the strings `vs`, position by position -/
inductive SegTexts : List Str → List Str → Prop where
  | nil : SegTexts [] []
  | cons {v t : Str} {vs ts : List Str} : SegText v t → SegTexts vs ts → SegTexts (v :: vs) (t :: ts)

/-- a chain of segment texts joined with dots, whose last segment behaves as `hlast` says -/
theorem parseKeyLoop_chain {e : Bool} {term : Str} {R : Str → Prop} (extra : Nat)
    (hlast : ∀ v t, SegText v t → utf8LenStr v ≤ maxKeyLen → ∀ (n : Nat) (acc : List Seg),
      (∀ g ∈ acc, utf8LenStr g.val ≤ maxKeyLen) →
      ∃ k r, parseKeyLoop e (n + 1 + extra) (t ++ term) acc = .ok (acc ++ [⟨k, v⟩]) r ∧ R r) :
    ∀ (vs ts : List Str), SegTexts vs ts → vs ≠ [] → (∀ v ∈ vs, utf8LenStr v ≤ maxKeyLen) →
    ∀ (fuel : Nat), vs.length + extra ≤ fuel → ∀ (acc : List Seg), (∀ g ∈ acc, utf8LenStr g.val ≤ maxKeyLen) →
    ∃ segs r, segs.map (·.val) = vs ∧ parseKeyLoop e fuel (joinDot ts ++ term) acc = .ok (acc ++ segs) r ∧ R r
  | [], _, _, hne, _, _, _, _, _ => absurd rfl hne
  | [v], ts, hf, _, hlen, fuel, hfuel, acc, hacc => by
    cases hf with
    | cons h1 h2 =>
      cases h2
      obtain ⟨n, rfl⟩ : ∃ n, fuel = n + 1 + extra := ⟨fuel - 1 - extra, by simp at hfuel; omega⟩
      obtain ⟨k, r, hp, hR⟩ := hlast v _ h1 (hlen v (by simp)) n acc hacc
      exact ⟨[⟨k, v⟩], r, rfl, by simpa [joinDot] using hp, hR⟩
  | v :: v2 :: vrest, ts, hf, _, hlen, fuel, hfuel, acc, hacc => by
    cases hf with
    | cons h1 h2 =>
      rename_i t trest
      cases h2 with
      | cons h3 h4 =>
        rename_i t2 trest2
        obtain ⟨n, rfl⟩ : ∃ n, fuel = n + 1 := ⟨fuel - 1, by simp at hfuel; omega⟩
        let Rst := joinDot (t2 :: trest2) ++ term
        obtain ⟨k, hps, hat⟩ := parseString_segText (e := e) h1 (rest := '.' :: Rst) (Or.inr ⟨Rst, rfl⟩)
        have hacc' : ∀ g ∈ acc ++ [⟨k, v⟩], utf8LenStr g.val ≤ maxKeyLen := by
          intro g hg
          rcases List.mem_append.mp hg with h | h
          · exact hacc g h
          · simp at h; subst h; exact hlen v (by simp)
        obtain ⟨segs, r, hsv, hpl, hR⟩ := parseKeyLoop_chain extra hlast (v2 :: vrest) (t2 :: trest2) (.cons h3 h4)
          (by simp) (fun x hx => hlen x (by simp [hx])) n (by simp at hfuel ⊢; omega) (acc ++ [⟨k, v⟩]) hacc'
        refine ⟨⟨k, v⟩ :: segs, r, by simp [hsv], ?_, hR⟩
        have htext : joinDot (t :: t2 :: trest2) ++ term = t ++ '.' :: Rst := by simp [joinDot, Rst]
        rw [htext, parseKeyLoop_step n acc (keyLook_go' (goodHead_append (segText_goodHead h1) _)) hps hat, afterSeg_dot]
        simp only
        rw [hpl]
        simp


/-! ### terminators inside a connection ID -/

theorem keyEnd_arrowDash (e : Bool) {c : Char} (X : Str) (hc : c = '>' ∨ c = '-') :
    KeyEnd e (' ' :: '-' :: c :: X) [' '] ('-' :: c :: X) := by
  have h1 : isSpace '-' = false := by decide
  have h2 : isSpace ' ' = true := by decide
  refine ⟨uqEnd_arrowDash X hc, ?_, ?_, ?_⟩
  · intro r hr; injection hr with h _; revert h; decide
  · simp [afterSeg, h1]
  · simp [afterSeg, h1, h2]

theorem keyEnd_arrowLt (e : Bool) (X : Str) : KeyEnd e (' ' :: '<' :: X) [' '] ('<' :: X) := by
  have h1 : isSpace '<' = false := by decide
  have h2 : isSpace ' ' = true := by decide
  refine ⟨uqEnd_arrowLt X, ?_, ?_, ?_⟩
  · intro r hr; injection hr with h _; revert h; decide
  · simp [afterSeg, h1]
  · simp [afterSeg, h1, h2]

theorem keyEnd_close (X : Str) : KeyEnd true (')' :: '[' :: X) [] (')' :: '[' :: X) := by
  have h1 : isSpace ')' = false := by decide
  refine ⟨uqEnd_close X, ?_, ?_, ?_⟩
  · intro r hr; injection hr with h _; revert h; decide
  · simp [afterSeg, h1]
  · simp [afterSeg, h1]

theorem parseKeyLoop_space {e : Bool} {X rest v : Str} {k : Quoting} (n : Nat) (acc : List Seg)
    (hgo : keyLook X = .go) (hps : parseString true e X = .seg k v rest) (hat : k = .unq → v.head? ≠ some '@') :
    parseKeyLoop e (n + 1) (' ' :: X) acc = parseKeyLoop e (n + 1) X acc := by
  have h2 : isSpace ' ' = true := by decide
  have hk : keyLook (' ' :: X) = .go := by simp [keyLook, h2, hgo]
  have hp : parseString true e (' ' :: X) = .seg k v rest := by
    rw [← hps]
    unfold parseString
    simp [skipSpacesNL, h2]
  rw [parseKeyLoop_step n acc hk hp hat, parseKeyLoop_step n acc hgo hps hat]

/-- a chain of segment texts starts with a segment: the first step of the loop succeeds -/
theorem chain_first_step {e : Bool} {v t : Str} (h : SegText v t) (R : Str) {w rest' : Str}
    (hR : (∃ r, R = '.' :: r) ∨ (UQEnd e R w rest' ∧ NoQuoteHead R)) :
    keyLook (t ++ R) = .go ∧ ∃ k r, parseString true e (t ++ R) = .seg k v r ∧ (k = .unq → v.head? ≠ some '@') := by
  refine ⟨keyLook_go' (goodHead_append (segText_goodHead h) _), ?_⟩
  rcases hR with ⟨r, rfl⟩ | ⟨hu, hq⟩
  · obtain ⟨k, hps, hat⟩ := parseString_segText (e := e) h (rest := '.' :: r) (Or.inr ⟨r, rfl⟩)
    exact ⟨k, _, hps, hat⟩
  · obtain ⟨k, r, hps, _, hat⟩ := parseString_segText' h hu hq
    exact ⟨k, r, hps, hat⟩


/-! ### the connection ID -/

/-- `)[<index>]` -/
def edgeTail (idx : Nat) : Str := ')' :: '[' :: (natDigits idx ++ [']'])

/-- `<src> <arrow> <dst>)[<index>]` -/
def edgeBody (ss ds : List Str) (sa da : Bool) (idx : Nat) : Str :=
  joinDot ss ++ (' ' :: (arrowString sa da ++ (' ' :: (joinDot ds ++ edgeTail idx))))

/-- `[<common>.](<src> <arrow> <dst>)[<index>]` from segment texts -/
def edgeText (cs ss ds : List Str) (sa da : Bool) (idx : Nat) : Str :=
  match cs with
  | [] => '(' :: edgeBody ss ds sa da idx
  | _ :: _ => joinDot cs ++ ('.' :: '(' :: edgeBody ss ds sa da idx)

theorem segTexts_length {vs ts : List Str} (h : SegTexts vs ts) : vs.length = ts.length := by
  induction h with
  | nil => rfl
  | cons _ _ ih => simp [ih]

theorem segTexts_nonempty {vs ts : List Str} (h : SegTexts vs ts) : ∀ t ∈ ts, 1 ≤ t.length := by
  induction h with
  | nil => intro t ht; cases ht
  | cons h1 _ ih =>
    intro t ht
    rcases List.mem_cons.mp ht with rfl | h
    · exact goodHead_length (segText_goodHead h1)
    · exact ih t h

theorem chain_fuel {vs ts : List Str} (h : SegTexts vs ts) (term : Str) (extra : Nat) (he : extra ≤ term.length) :
    vs.length + extra ≤ (joinDot ts ++ term).length + 1 := by
  have := joinDot_length ts (segTexts_nonempty h)
  rw [segTexts_length h]
  simp
  omega

/-- the first step of the loop on a non-empty chain followed by a `KeyEnd` terminator -/
theorem chain_head_step {e : Bool} {vs ts : List Str} {term w rest' : Str} (h : SegTexts vs ts) (hne : vs ≠ [])
    (hk : KeyEnd e term w rest') :
    keyLook (joinDot ts ++ term) = .go ∧
    ∃ k v r, parseString true e (joinDot ts ++ term) = .seg k v r ∧ (k = .unq → v.head? ≠ some '@') := by
  cases h with
  | nil => exact absurd rfl hne
  | cons h1 h2 =>
    rename_i v t vs' ts'
    cases h2 with
    | nil =>
      obtain ⟨hgo, k, r, hps, hat⟩ := chain_first_step (e := e) h1 term (Or.inr ⟨hk.uq, hk.noQuote⟩)
      exact ⟨by simpa [joinDot] using hgo, k, v, r, by simpa [joinDot] using hps, hat⟩
    | cons h3 h4 =>
      rename_i v2 t2 vs2 ts2
      have htext : joinDot (t :: t2 :: ts2) ++ term = t ++ '.' :: (joinDot (t2 :: ts2) ++ term) := by simp [joinDot]
      obtain ⟨hgo, k, r, hps, hat⟩ := chain_first_step (e := e) (w := w) (rest' := rest') h1
        ('.' :: (joinDot (t2 :: ts2) ++ term)) (Or.inl ⟨_, rfl⟩)
      rw [htext]
      exact ⟨hgo, k, v, r, hps, hat⟩

theorem arrow_cases (sa da : Bool) : arrowString sa da =
    (if sa then (if da then ['<', '-', '>'] else ['<', '-']) else (if da then ['-', '>'] else ['-', '-'])) := by
  cases sa <;> cases da <;> decide

/-- the arrow between the two chains: how the source chain ends in front of it and how `parseEdge` reads it -/
theorem arrow_facts (e : Bool) (sa da : Bool) (D : Str) :
    ∃ w rest', KeyEnd e (' ' :: (arrowString sa da ++ ' ' :: D)) w rest' ∧
      ∀ r, (r = rest' ∨ r = ' ' :: (arrowString sa da ++ ' ' :: D)) →
        ∃ a rest2, skipSpacesNL r = some (a, rest2) ∧ (a == '*') = false ∧ (a == '<') = sa ∧
          (a != '<' && a != '-') = false ∧ parseArrowTail rest2 = some (some (da, ' ' :: D)) := by
  have hsp : isSpace ' ' = true := by decide
  have hd : isSpace '-' = false := by decide
  have hl : isSpace '<' = false := by decide
  rw [arrow_cases]
  cases sa <;> cases da <;> simp only [if_true, if_false, Bool.false_eq_true, List.cons_append, List.nil_append]
  · refine ⟨_, _, keyEnd_arrowDash e _ (Or.inr rfl), ?_⟩
    intro r hr
    refine ⟨'-', '-' :: ' ' :: D, ?_, by decide, by decide, by decide, by simp [parseArrowTail]⟩
    rcases hr with rfl | rfl <;> simp [skipSpacesNL, hsp, hd]
  · refine ⟨_, _, keyEnd_arrowDash e _ (Or.inl rfl), ?_⟩
    intro r hr
    refine ⟨'-', '>' :: ' ' :: D, ?_, by decide, by decide, by decide, by simp [parseArrowTail]⟩
    rcases hr with rfl | rfl <;> simp [skipSpacesNL, hsp, hd]
  · refine ⟨_, _, keyEnd_arrowLt e _, ?_⟩
    intro r hr
    refine ⟨'<', '-' :: ' ' :: D, ?_, by decide, by decide, by decide, by simp [parseArrowTail]⟩
    rcases hr with rfl | rfl <;> simp [skipSpacesNL, hsp, hl]
  · refine ⟨_, _, keyEnd_arrowLt e _, ?_⟩
    intro r hr
    refine ⟨'<', '-' :: '>' :: ' ' :: D, ?_, by decide, by decide, by decide, by simp [parseArrowTail]⟩
    rcases hr with rfl | rfl <;> simp [skipSpacesNL, hsp, hl]

/-- `)[<index>]` read by the tail of `parseEdgeGroup` -/
theorem edgeTail_digits (idx : Nat) : ∃ d ds, natDigits idx = d :: ds ∧ isSpace d = false ∧ isAsciiDigit d = true ∧
    indexDigits (ds ++ [']']) (d.toNat - 48) = some (some (idx, [']'])) := by
  obtain ⟨hall, hval, hne⟩ := natDigits_spec idx
  cases hds : natDigits idx with
  | nil => exact absurd hds hne
  | cons d ds =>
    rw [hds] at hall hval
    obtain ⟨h1, h2, _⟩ := hall d (by simp)
    refine ⟨d, ds, rfl, h2, h1, ?_⟩
    have := indexDigits_digits [] ds (fun x hx => hall x (by simp [hx])) (d.toNat - 48)
    rw [this]
    simp only [digitsVal, Nat.zero_mul, Nat.zero_add] at hval
    rw [hval]

/-- the edge group after `(`: source chain, arrow, destination chain, `)`, index -/
theorem parseEdgeGroup_body (common : List Seg) {sv ss dv ds : List Str} (hs : SegTexts sv ss) (hd : SegTexts dv ds)
    (hsne : sv ≠ []) (hdne : dv ≠ []) (hsl : ∀ v ∈ sv, utf8LenStr v ≤ maxKeyLen) (hdl : ∀ v ∈ dv, utf8LenStr v ≤ maxKeyLen)
    (sa da : Bool) (idx : Nat) :
    ∃ ssegs dsegs, ssegs.map (·.val) = sv ∧ dsegs.map (·.val) = dv ∧
      parseEdgeGroup common (edgeBody ss ds sa da idx) = .ok common ssegs dsegs sa da idx [] := by
  -- source chain
  let D := joinDot ds ++ edgeTail idx
  obtain ⟨w, rest', hke, harrow⟩ := arrow_facts true sa da D
  obtain ⟨ssegs, r1, hsv, hp1, hr1⟩ := parseKeyLoop_chain (e := true) (term := ' ' :: (arrowString sa da ++ ' ' :: D))
    (R := fun r => r = rest' ∨ r = ' ' :: (arrowString sa da ++ ' ' :: D)) 0
    (fun v t hvt hv n acc hacc => by simpa using lastSeg_keyEnd hke hvt hv n acc hacc)
    sv ss hs hsne hsl ((edgeBody ss ds sa da idx).length + 1)
    (by simpa [edgeBody, D] using chain_fuel hs (' ' :: (arrowString sa da ++ ' ' :: D)) 0 (by simp)) [] (by simp)
  obtain ⟨a, rest2, hsk, ha1, ha2, ha3, htail⟩ := harrow r1 hr1
  -- destination chain
  have hkc : KeyEnd true (edgeTail idx) [] (edgeTail idx) := keyEnd_close (natDigits idx ++ [']'])
  obtain ⟨dsegs, r2, hdv, hp2, hr2⟩ := parseKeyLoop_chain (e := true) (term := edgeTail idx)
    (R := fun r => r = edgeTail idx) 0
    (fun v t hvt hv n acc hacc => by
      obtain ⟨k, r, h1, h2⟩ := lastSeg_keyEnd hkc hvt hv n acc hacc
      exact ⟨k, r, h1, by rcases h2 with rfl | rfl <;> rfl⟩)
    dv ds hd hdne hdl (D.length + 1 + 1) (by
      have := chain_fuel hd (edgeTail idx) 0 (by simp)
      simp only [D] at *
      omega) [] (by simp)
  subst hr2
  obtain ⟨hgo, k0, v0, r0, hps0, hat0⟩ := chain_head_step (e := true) hd hdne hkc
  have hp2' : parseKeyLoop true ((' ' :: D).length + 1) (' ' :: D) [] = .ok dsegs (edgeTail idx) := by
    have hlen : (' ' :: D).length + 1 = (D.length + 1) + 1 := by simp
    rw [hlen, parseKeyLoop_space (D.length + 1) [] hgo hps0 hat0, hp2]
    simp
  -- the index
  obtain ⟨d, dr, hdig, hdsp, hddig, hidx⟩ := edgeTail_digits idx
  refine ⟨ssegs, dsegs, hsv, hdv, ?_⟩
  have hp1' : parseKeyLoop true ((edgeBody ss ds sa da idx).length + 1) (edgeBody ss ds sa da idx) [] = .ok ssegs r1 := by
    simpa [edgeBody, D] using hp1
  have hparen : isSpace ')' = false := by decide
  have hbrk : isSpace '[' = false := by decide
  unfold parseEdgeGroup
  simp only [hp1', hsk, ha1, ha3, htail, hp2', Bool.false_eq_true, if_false]
  simp only [edgeTail, hdig, skipSpacesNL, hparen, hbrk, hdsp, List.cons_append, Bool.false_eq_true, if_false]
  simp [hddig, hidx, ha2, skipSpacesNL]


theorem amp_in_key : keySpecials.contains '&' = true := by decide

/-- the first runes of a segment text followed by a dot are not a filter marker (`&`, `!&`) nor `(` -/
theorem segText_not_filter {v t : Str} (h : SegText v t) (r : Str) :
    ∃ c rest, t ++ '.' :: r = c :: rest ∧ (c == '&' || (c == '!' && rest.head? == some '&')) = false ∧ (c == '(') = false := by
  cases h with
  | unq hne hp hw =>
    cases v with
    | nil => exact absurd rfl hne
    | cons c t' =>
      refine ⟨c, t' ++ '.' :: r, rfl, ?_, ?_⟩
      · have hc : c ≠ '&' := by
          by_cases hd : c = '-'
          · subst hd; decide
          · exact (key_plain_char (keyPlain_cons_ne hp hd).1).2.2.2.2.2.2.2.2.2.2.1
        cases t' with
        | nil => simp [hc]
        | cons d t'' =>
          have hd2 : d ≠ '&' := by
            by_cases hcd : c = '-'
            · subst hcd
              have h' : d ≠ '-' ∧ keyPlain (d :: t'') = true := by simpa [keyPlain] using hp
              exact (key_plain_char (keyPlain_cons_ne h'.2 h'.1).1).2.2.2.2.2.2.2.2.2.2.1
            · have h' := (keyPlain_cons_ne hp hcd).2
              by_cases hdd : d = '-'
              · subst hdd; decide
              · exact (key_plain_char (keyPlain_cons_ne h' hdd).1).2.2.2.2.2.2.2.2.2.2.1
          simp [hc, hd2]
      · have := (keyPlain_head hp).2.2.2.2.1
        simp [this]
  | dq =>
    have h1 : ('"' == '&') = false := by decide
    have h2 : ('"' == '!') = false := by decide
    exact ⟨'"', _, rfl, by simp [h1, h2], by decide⟩
  | sq _ =>
    have h1 : ('\'' == '&') = false := by decide
    have h2 : ('\'' == '!') = false := by decide
    exact ⟨'\'', _, rfl, by simp [h1, h2], by decide⟩

/-- ParseMapKey (model) on a connection ID built from segment texts -/
theorem parseEdgeID_edgeText {cv cs sv ss dv ds : List Str} (hc : SegTexts cv cs) (hs : SegTexts sv ss)
    (hd : SegTexts dv ds) (hsne : sv ≠ []) (hdne : dv ≠ [])
    (hcl : ∀ v ∈ cv, utf8LenStr v ≤ maxKeyLen) (hsl : ∀ v ∈ sv, utf8LenStr v ≤ maxKeyLen)
    (hdl : ∀ v ∈ dv, utf8LenStr v ≤ maxKeyLen) (sa da : Bool) (idx : Nat) :
    ∃ csegs ssegs dsegs, csegs.map (·.val) = cv ∧ ssegs.map (·.val) = sv ∧ dsegs.map (·.val) = dv ∧
      parseEdgeID (edgeText cs ss ds sa da idx) = .ok csegs ssegs dsegs sa da idx [] := by
  cases hc with
  | nil =>
    obtain ⟨ssegs, dsegs, h1, h2, h3⟩ := parseEdgeGroup_body [] hs hd hsne hdne hsl hdl sa da idx
    refine ⟨[], ssegs, dsegs, rfl, h1, h2, ?_⟩
    simp only [edgeText, parseEdgeID]
    have h4 : ('(' == '&') = false := by decide
    have h5 : ('(' == '!') = false := by decide
    simp [h4, h5, h3]
  | cons hc1 hc2 =>
    rename_i v1 t1 vrest trest
    let body := edgeBody ss ds sa da idx
    obtain ⟨csegs, r, hcv, hp, hr⟩ := parseKeyLoop_chain (e := false) (term := '.' :: '(' :: body)
      (R := fun r => r = '(' :: body) 1
      (fun v t hvt hv n acc hacc => by
        obtain ⟨k, h1⟩ := lastSeg_dotParen body hvt hv n acc hacc
        exact ⟨k, _, h1, rfl⟩)
      (v1 :: vrest) (t1 :: trest) (.cons hc1 hc2) (by simp) hcl
      ((joinDot (t1 :: trest) ++ '.' :: '(' :: body).length + 1)
      (chain_fuel (.cons hc1 hc2) ('.' :: '(' :: body) 1 (by simp)) [] (by simp)
    subst hr
    obtain ⟨ssegs, dsegs, h1, h2, h3⟩ := parseEdgeGroup_body csegs hs hd hsne hdne hsl hdl sa da idx
    refine ⟨csegs, ssegs, dsegs, hcv, h1, h2, ?_⟩
    -- the first rune of the text
    have hhead : ∃ c rest, joinDot (t1 :: trest) ++ '.' :: '(' :: body = c :: rest ∧
        (c == '&' || (c == '!' && rest.head? == some '&')) = false ∧ (c == '(') = false := by
      cases trest with
      | nil => simpa [joinDot] using segText_not_filter hc1 ('(' :: body)
      | cons t2 tr =>
        obtain ⟨c, rest, he, h4, h5⟩ := segText_not_filter hc1 (joinDot (t2 :: tr) ++ '.' :: '(' :: body)
        exact ⟨c, rest, by simpa [joinDot] using he, h4, h5⟩
    obtain ⟨c, rest, he, h4, h5⟩ := hhead
    have hpk : parseKey (c :: rest) = .ok csegs ('(' :: body) := by
      rw [← he]
      simpa [parseKey] using hp
    have hparen : isSpace '(' = false := by decide
    simp only [edgeText]
    rw [he]
    simp only [parseEdgeID, h4, h5, Bool.false_eq_true, if_false, hpk, skipSpacesNL, hparen]
    exact h3

theorem edgeAbsID_eq_edgeText (src dst : List Str) (sa da : Bool) (idx : Nat) :
    edgeAbsID src dst sa da idx = edgeText (trimCommon src dst).1 (trimCommon src dst).2.1 (trimCommon src dst).2.2 sa da idx := by
  cases hc : (trimCommon src dst).1 with
  | nil => simp [edgeAbsID, edgeText, edgeBody, edgeTail, hc]
  | cons a r => simp [edgeAbsID, edgeText, edgeBody, edgeTail, hc]

/-- `Edge.AbsID`'s loop cuts the same number of leading IDs from both chains; they are pairwise EqualFold,
    and both remainders keep at least one ID -/
theorem trimCommon_spec : ∀ (a b : List Str), a ≠ [] → b ≠ [] →
    ∃ k, k < a.length ∧ k < b.length ∧ (trimCommon a b).1 = a.take k ∧ (trimCommon a b).2.1 = a.drop k ∧
      (trimCommon a b).2.2 = b.drop k ∧ ∀ i, i < k → ∀ x y, a[i]? = some x → b[i]? = some y → equalFoldIds x y = true := by
  intro a b
  fun_induction trimCommon a b with
  | case1 a a2 as b b2 bs hf r ih =>
    intro _ _
    obtain ⟨k, h1, h2, h3, h4, h5, h6⟩ := ih (by simp) (by simp)
    refine ⟨k + 1, by simp at h1 ⊢; omega, by simp at h2 ⊢; omega, by simp [r, h3], by simp [r, h4], by simp [r, h5], ?_⟩
    intro i hi x y hx hy
    cases i with
    | zero => simp at hx hy; subst hx; subst hy; exact hf
    | succ j => exact h6 j (by omega) x y (by simpa using hx) (by simpa using hy)
  | case2 a a2 as b b2 bs hf =>
    intro _ _
    exact ⟨0, by simp, by simp, by simp, by simp, by simp, by intro i hi; omega⟩
  | case3 as bs hno =>
    intro ha hb
    refine ⟨0, ?_, ?_, by simp, by simp, by simp, by intro i hi; omega⟩
    · cases as with
      | nil => exact absurd rfl ha
      | cons _ _ => simp
    · cases bs with
      | nil => exact absurd rfl hb
      | cons _ _ => simp

theorem segTexts_of_names : ∀ (names : List Str), (∀ n ∈ names, NameOk n) → SegTexts names (names.map objID)
  | [], _ => .nil
  | n :: rest, h => .cons (fmtKey_segText (h n (by simp))) (segTexts_of_names rest (fun x hx => h x (by simp [hx])))

end D2V.Quote
