import D2V.Proofs.QuoteIds
/-!
  Helper lemmas, part 6 (C06): the text of a key segment determines where it ends, also after lower-casing.

  `SegText v t` — `t` is one of the three shapes the printer gives a key segment with string `v`.
  `parseString` consumes exactly `t` from `t ++ rest`; therefore a dot-joined chain of such texts splits in one
  way only (`joinDot_segs_injective`).  Lower-casing (`LowOk low`: any rune map that fixes the runes of
  UnquotedKeySpecials and `n`, keeps the others outside that set and preserves spaces — `unicode.ToLower` is
  checked against this on every run) maps segment texts to segment texts, which gives distinctness of
  absolute IDs ignoring case.
-/
set_option linter.unusedSimpArgs false
namespace D2V.Quote
open D2V.Gen.Quote

inductive SegText (v : Str) : Str → Prop where
  | unq : v ≠ [] → keyPlain v = true → surroundingWs v = false → SegText v v
  | dq : SegText v ('"' :: (escDouble true v ++ ['"']))
  | sq : v.contains '\n' = false → SegText v ('\'' :: (escSingle v ++ ['\'']))

theorem segText_goodHead {v t : Str} (h : SegText v t) : GoodHead t := by
  cases h with
  | unq hne hp hw =>
    cases v with
    | nil => exact absurd rfl hne
    | cons c r =>
      have hh := keyPlain_head hp
      exact ⟨c, r, rfl, sw_head hw, hh.2.2.2.2.1, hh.2.2.2.1⟩
  | dq => exact ⟨'"', _, rfl, quote_chars.1, by decide, by decide⟩
  | sq _ => exact ⟨'\'', _, rfl, quote_chars.2, by decide, by decide⟩

/-- `parseString` reads one segment text back and stops exactly at its end -/
theorem parseString_segText {e : Bool} {v t rest : Str} (h : SegText v t) (hr : RestOk rest) :
    ∃ k, parseString true e (t ++ rest) = .seg k v rest ∧ (k = .unq → v.head? ≠ some '@') := by
  cases h with
  | unq hne hp hw =>
    cases v with
    | nil => exact absurd rfl hne
    | cons c r =>
      have hh := keyPlain_head hp
      refine ⟨.unq, ?_, fun _ => by simp [hh.2.2.2.2.2]⟩
      unfold parseString
      simp only [List.cons_append]
      rw [skipSpacesNL_cons _ (sw_head hw)]
      simp only [beq_iff_eq, hh.1, hh.2.1, hh.2.2.1, if_false]
      have := parseUnquoted_keyPlain (e := e) hr hne hp hw
      simpa using this
  | dq =>
    refine ⟨.dq, ?_, by simp⟩
    simp only [List.cons_append, List.append_assoc, List.nil_append]
    unfold parseString
    rw [skipSpacesNL_cons _ quote_chars.1]
    simp only [beq_self_eq_true, if_true]
    rw [scanDQ_escDouble]
    simp
  | sq hn =>
    refine ⟨.sq, ?_, by simp⟩
    simp only [List.cons_append, List.append_assoc, List.nil_append]
    unfold parseString
    rw [skipSpacesNL_cons _ quote_chars.2]
    have : ('\'' == '"') = false := by decide
    simp only [this, Bool.false_eq_true, if_false, beq_self_eq_true, if_true]
    rw [(scanSQ_escSingle rest (restOk_noQuote hr) v hn []).1]
    simp

/-- the printer gives a key segment one of the three shapes -/
theorem fmtKey_segText {s : Str} (h : NameOk s) : SegText s (fmtKey s) := by
  obtain ⟨_, hnull, hkw⟩ := h
  have hraw := rawString_key s
  unfold fmtKey
  generalize hq : rawString s true = q at hraw hkw
  cases hraw with
  | dq => simp only [fmtString, printBoxes_double]; exact .dq
  | sq hn => simp only [fmtString]; exact .sq hn
  | unq hne hp hw hflag =>
    have hk := hkw rfl
    cases s with
    | nil => exact absurd rfl hne
    | cons c t =>
    simp only [fmtString, printBoxes, Bool.false_eq_true, if_false]
    by_cases hfold : equalFold (c :: t) uqFoldWord = true
    · have hfold' : equalFold (c :: t) "null" = true := by rw [← uqFoldWord_null]; exact hfold
      have hres : uqFoldResult (c :: t) = '\'' :: (c :: t) ++ ['\''] := by
        unfold uqFoldResult
        rcases hnull hfold' with hs | hl
        · rcases uqFoldLiteral_cases with h | h
          · rw [h]
          · rw [h, hs, null_word]; rfl
        · rw [hl]
      have hchars := foldNull_chars hfold'
      have hraw : escUnquoted true (c :: t) = '\'' :: (escSingle (c :: t) ++ ['\'']) := by
        unfold escUnquoted
        simp only [List.isEmpty_cons, Bool.false_eq_true, if_false, hfold, if_true, hres, escSingle_plain _ hchars]
        simp
      have hnk : reservedKeywords.contains (lowerStr ('\'' :: (escSingle (c :: t) ++ ['\'']))) = false := by
        cases hc : reservedKeywords.contains (lowerStr ('\'' :: (escSingle (c :: t) ++ ['\'']))) with
        | false => rfl
        | true =>
          have hm : lowerStr ('\'' :: (escSingle (c :: t) ++ ['\''])) ∈ reservedKeywords := by simpa using hc
          have := kw_no_quote_head _ hm
          simp [lowerStr, lowerChar_quote] at this
      rw [hraw, hnk]
      simp only [Bool.and_false, Bool.false_eq_true, if_false]
      exact .sq (no_nl_of_chars hchars)
    · have hraw : escUnquoted true (c :: t) = c :: t := by
        unfold escUnquoted
        simp only [List.isEmpty_cons, Bool.false_eq_true, if_false, hfold]
        exact escUnqLoop_keyPlain _ _ hp
      have hout : (if (lowerGuard false true && reservedKeywords.contains (lowerStr (c :: t))) = true
          then lowerStr (c :: t) else c :: t) = c :: t := by
        split
        · rename_i hg
          simp only [Bool.and_eq_true] at hg
          unfold kwCase at hk
          simp only [hg.2, Bool.true_and, bne_eq_false_iff_eq] at hk
          exact hk
        · rfl
      rw [hraw, hout]
      exact .unq hne hp hw

/-! ### a dot-joined chain of segment texts splits in one way only -/

def IsSegText (t : Str) : Prop := ∃ v, SegText v t

theorem joinDot_cons_shape (t : Str) (ts : List Str) :
    ∃ R, joinDot (t :: ts) = t ++ R ∧ RestOk R ∧ (R = [] ↔ ts = []) ∧ (∀ r, R = '.' :: r → r = joinDot ts) := by
  cases ts with
  | nil => exact ⟨[], by simp [joinDot], Or.inl rfl, by simp, by intro r h; cases h⟩
  | cons b rest =>
    refine ⟨'.' :: joinDot (b :: rest), by simp [joinDot], Or.inr ⟨_, rfl⟩, by simp, ?_⟩
    intro r h; injection h with _ h; exact h.symm

theorem joinDot_segs_injective : ∀ (ts ts' : List Str), (∀ t ∈ ts, IsSegText t) → (∀ t ∈ ts', IsSegText t) →
    joinDot ts = joinDot ts' → ts = ts'
  | [], [], _, _, _ => rfl
  | [], t' :: r', _, h', heq => by
    exfalso
    obtain ⟨v, hv⟩ := h' t' (by simp)
    obtain ⟨R, hR, _⟩ := joinDot_cons_shape t' r'
    have := goodHead_length (segText_goodHead hv)
    rw [hR] at heq
    have hl := congrArg List.length heq
    simp only [joinDot, List.length_append, List.length_nil] at hl
    omega
  | t :: r, [], h, _, heq => by
    exfalso
    obtain ⟨v, hv⟩ := h t (by simp)
    obtain ⟨R, hR, _⟩ := joinDot_cons_shape t r
    have := goodHead_length (segText_goodHead hv)
    rw [hR] at heq
    have hl := congrArg List.length heq
    simp only [joinDot, List.length_append, List.length_nil] at hl
    omega
  | t :: r, t' :: r', h, h', heq => by
    obtain ⟨v, hv⟩ := h t (by simp)
    obtain ⟨v', hv'⟩ := h' t' (by simp)
    obtain ⟨R, hR, hRok, hRnil, hRdot⟩ := joinDot_cons_shape t r
    obtain ⟨R', hR', hRok', hRnil', hRdot'⟩ := joinDot_cons_shape t' r'
    obtain ⟨k, hp, _⟩ := parseString_segText (e := false) hv hRok
    obtain ⟨k', hp', _⟩ := parseString_segText (e := false) hv' hRok'
    rw [hR, hR'] at heq
    rw [heq, hp'] at hp
    injection hp with _ _ hRR
    subst hRR
    have htt : t = t' := List.append_cancel_right heq
    subst htt
    rcases hRok with hnil | ⟨x, hx⟩
    · have h1 := hRnil.mp hnil
      have h2 := hRnil'.mp hnil
      rw [h1, h2]
    · have h1 := hRdot x hx
      have h2 := hRdot' x hx
      have := joinDot_segs_injective r r' (fun y hy => h y (by simp [hy])) (fun y hy => h' y (by simp [hy]))
        (h1.symm.trans h2)
      rw [this]

/-! ### lower-casing -/

/-- what the argument needs from a case mapping on runes -/
structure LowOk (low : Char → Char) : Prop where
  fixSpecial : ∀ c, keySpecials.contains c = true → low c = c
  keepPlain : ∀ c, keySpecials.contains c = false → keySpecials.contains (low c) = false
  space : ∀ c, isSpace (low c) = isSpace c
  fixN : low 'n' = 'n'

theorem low_special_iff {low : Char → Char} (h : LowOk low) (c : Char) :
    keySpecials.contains (low c) = keySpecials.contains c := by
  cases hc : keySpecials.contains c with
  | true => rw [h.fixSpecial c hc, hc]
  | false => exact h.keepPlain c hc

theorem low_eq_special {low : Char → Char} (h : LowOk low) {c d : Char} (hd : keySpecials.contains d = true) :
    low c = d ↔ c = d := by
  constructor
  · intro hl
    cases hc : keySpecials.contains c with
    | true => rw [h.fixSpecial c hc] at hl; exact hl
    | false =>
      have := h.keepPlain c hc
      rw [hl, hd] at this; cases this
  · intro hcd; subst hcd; exact h.fixSpecial c hd

theorem specials_named : keySpecials.contains '-' = true ∧ keySpecials.contains '"' = true ∧
    keySpecials.contains '\\' = true ∧ keySpecials.contains '\n' = true ∧ keySpecials.contains '\'' = true ∧
    keySpecials.contains '.' = true := by decide

theorem keyPlain_low {low : Char → Char} (h : LowOk low) : ∀ (s : Str), keyPlain s = true → keyPlain (s.map low) = true
  | [], _ => rfl
  | [c], hp => by
    have hc : keySpecials.contains c = false := by simpa [keyPlain] using hp
    have := h.keepPlain c hc
    simp only [List.map, keyPlain, this]; rfl
  | c :: d :: rest, hp => by
    by_cases hd : c = '-'
    · subst hd
      have h' : d ≠ '-' ∧ keyPlain (d :: rest) = true := by simpa [keyPlain] using hp
      have ih := keyPlain_low h (d :: rest) h'.2
      have h1 : low '-' = '-' := h.fixSpecial _ specials_named.1
      have h2 : low d ≠ '-' := fun hx => h'.1 ((low_eq_special h specials_named.1).mp hx)
      simp only [List.map] at ih ⊢
      simp [keyPlain, h1, h2, ih]
    · have h' := keyPlain_cons_ne hp hd
      have ih := keyPlain_low h (d :: rest) h'.2
      have h1 : low c ≠ '-' := fun hx => hd ((low_eq_special h specials_named.1).mp hx)
      have h2 : low c ∉ keySpecials := by
        have := h.keepPlain c h'.1
        simpa using this
      simp only [List.map] at ih ⊢
      simp [keyPlain, h1, h2, ih]

theorem surroundingWs_low {low : Char → Char} (h : LowOk low) (s : Str) :
    surroundingWs (s.map low) = surroundingWs s := by
  unfold surroundingWs
  cases s with
  | nil => rfl
  | cons c t =>
    have hl : ((c :: t).map low).getLast? = ((c :: t).getLast?).map low := by
      rw [List.getLast?_map]
    rw [hl]
    cases (c :: t).getLast? with
    | none => simp
    | some b => simp [h.space]

theorem escDouble_low {low : Char → Char} (h : LowOk low) : ∀ (s : Str),
    (escDouble true s).map low = escDouble true (s.map low)
  | [] => rfl
  | c :: t => by
    have ih := escDouble_low h t
    simp only [List.map, escDouble_cons, List.map_append, ih]
    congr 1
    by_cases h1 : c = '"'
    · subst h1
      rw [h.fixSpecial _ specials_named.2.1, dqEsc_quote]
      simp [h.fixSpecial _ specials_named.2.1, h.fixSpecial _ specials_named.2.2.1]
    by_cases h2 : c = '\\'
    · subst h2
      rw [h.fixSpecial _ specials_named.2.2.1, dqEsc_bs]
      simp [h.fixSpecial _ specials_named.2.2.1]
    by_cases h3 : c = '\n'
    · subst h3
      rw [h.fixSpecial _ specials_named.2.2.2.1, dqEsc_nl]
      simp [h.fixSpecial _ specials_named.2.2.1, h.fixN]
    · have g1 : low c ≠ '"' := fun hx => h1 ((low_eq_special h specials_named.2.1).mp hx)
      have g2 : low c ≠ '\\' := fun hx => h2 ((low_eq_special h specials_named.2.2.1).mp hx)
      have g3 : low c ≠ '\n' := fun hx => h3 ((low_eq_special h specials_named.2.2.2.1).mp hx)
      rw [dqEsc_plain h1 h2 h3 (Or.inl rfl), dqEsc_plain g1 g2 g3 (Or.inl rfl)]
      rfl

theorem escSingle_low {low : Char → Char} (h : LowOk low) : ∀ (s : Str), s.contains '\n' = false →
    (escSingle s).map low = escSingle (s.map low)
  | [], _ => rfl
  | c :: t, hn => by
    have hn' : c ≠ '\n' ∧ t.contains '\n' = false := by
      simp only [List.contains_cons, Bool.or_eq_false_iff, beq_eq_false_iff_ne, ne_eq] at hn
      exact ⟨fun h => hn.1 h.symm, hn.2⟩
    have ih := escSingle_low h t hn'.2
    simp only [List.map, escSingle_cons, List.map_append, ih]
    congr 1
    by_cases h1 : c = '\''
    · subst h1
      rw [h.fixSpecial _ specials_named.2.2.2.2.1, sqEsc_quote]
      simp [h.fixSpecial _ specials_named.2.2.2.2.1]
    · have g1 : low c ≠ '\'' := fun hx => h1 ((low_eq_special h specials_named.2.2.2.2.1).mp hx)
      have g3 : low c ≠ '\n' := fun hx => hn'.1 ((low_eq_special h specials_named.2.2.2.1).mp hx)
      rw [sqEsc_plain h1 hn'.1, sqEsc_plain g1 g3]
      rfl

theorem contains_nl_low {low : Char → Char} (h : LowOk low) (s : Str) (hn : s.contains '\n' = false) :
    (s.map low).contains '\n' = false := by
  cases hc : (s.map low).contains '\n' with
  | false => rfl
  | true =>
    exfalso
    have : '\n' ∈ s.map low := by simpa using hc
    obtain ⟨c, hc1, hc2⟩ := List.mem_map.mp this
    have := (low_eq_special h specials_named.2.2.2.1).mp hc2
    subst this
    simp at hn
    exact hn hc1

theorem segText_low {low : Char → Char} (h : LowOk low) {v t : Str} (hs : SegText v t) :
    SegText (v.map low) (t.map low) := by
  cases hs with
  | unq hne hp hw =>
    refine .unq (by simpa using hne) (keyPlain_low h v hp) ?_
    rw [surroundingWs_low h, hw]
  | dq =>
    simp only [List.map, List.map_append, h.fixSpecial _ specials_named.2.1, escDouble_low h]
    exact .dq
  | sq hn =>
    simp only [List.map, List.map_append, h.fixSpecial _ specials_named.2.2.2.2.1, escSingle_low h v hn]
    exact .sq (contains_nl_low h v hn)

theorem joinDot_map_low {low : Char → Char} (h : LowOk low) : ∀ (ts : List Str),
    (joinDot ts).map low = joinDot (ts.map (·.map low))
  | [] => rfl
  | [a] => rfl
  | a :: b :: rest => by
    have ih := joinDot_map_low h (b :: rest)
    simp only [List.map] at ih
    simp [joinDot, h.fixSpecial _ specials_named.2.2.2.2.2, ih]

end D2V.Quote
