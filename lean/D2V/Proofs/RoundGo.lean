import D2V.Model.Clip
import Mathlib.Tactic.Linarith
import Mathlib.Tactic.Ring
/-! `math.Round` over exact rationals (`Clip.roundGo`): within half a unit of its argument, identity on integers.
    Shared by Props/C20 and Props/C23. -/
namespace D2V.Clip

theorem roundGo_near (x : Rat) : x - 1 / 2 ≤ roundGo x ∧ roundGo x ≤ x + 1 / 2 := by
  unfold roundGo
  split
  · have h1 := Rat.floor_le (x + 1 / 2)
    have h2 := Rat.lt_floor_add_one (x + 1 / 2)
    push_cast at h2
    constructor <;> linarith
  · have h1 := Rat.floor_le (-x + 1 / 2)
    have h2 := Rat.lt_floor_add_one (-x + 1 / 2)
    push_cast at h2
    constructor <;> linarith

theorem floor_int_add_half (m : Int) : ((m : Rat) + 1 / 2).floor = m := by
  apply Int.le_antisymm
  · have h := Rat.floor_le ((m : Rat) + 1 / 2)
    have h' : (((m : Rat) + 1 / 2).floor : Rat) < ((m + 1 : Int) : Rat) := by push_cast; linarith
    have := (Int.cast_lt (R := Rat)).mp h'
    omega
  · rw [Rat.le_floor_iff]; linarith

/-- `math.Round` leaves integers alone: with integer coordinates a cut is exact -/
theorem roundGo_int (n : Int) : roundGo (n : Rat) = n := by
  unfold roundGo
  split
  · rw [floor_int_add_half]
  · have : (-(n : Rat) + 1 / 2) = (((-n : Int) : Rat) + 1 / 2) := by push_cast; ring
    rw [this, floor_int_add_half]; push_cast; ring

end D2V.Clip
