import D2V.Proofs.QuotePrint
/-!
  Helper lemmas, part 3: the scanner automata of the parser model read back what the escapers wrote.
-/
set_option linter.unusedSimpArgs false
namespace D2V.Quote
open D2V.Gen.Quote

/-- what may follow a key segment: nothing, or the dot that starts the next segment -/
def RestOk (rest : Str) : Prop := rest = [] ∨ ∃ r, rest = '.' :: r

/-! ### double-quoted -/

theorem scanDQ_plain {k : Bool} {c : Char} (X acc : Str) (h1 : c ≠ '"') (h2 : c ≠ '\\') (h3 : c ≠ '\n')
    (h4 : k = true ∨ c ≠ '$') : scanDQ k false (c :: X) acc = scanDQ k false X (c :: acc) := by
  rcases h4 with h4 | h4 <;> simp [scanDQ, h1, h2, h3, h4]

theorem scanDQ_esc {k : Bool} {c : Char} (X acc : Str) (h : c ≠ '\n') :
    scanDQ k false ('\\' :: c :: X) acc = scanDQ k false X (decodeEscape c :: acc) := by
  simp [scanDQ, h]

theorem escDouble_cons (k : Bool) (c : Char) (t : Str) : escDouble k (c :: t) = dqEsc k c ++ escDouble k t := by
  simp [escDouble]

theorem scanDQ_escDouble (k : Bool) (rest : Str) : ∀ (s acc : Str),
    scanDQ k false (escDouble k s ++ '"' :: rest) acc = .ok (acc.reverse ++ s) rest
  | [], acc => by simp [escDouble, scanDQ]
  | c :: t, acc => by
    rw [escDouble_cons]
    by_cases h1 : c = '"'
    · subst h1
      rw [dqEsc_quote]
      simp only [List.cons_append, List.nil_append]
      rw [scanDQ_esc _ _ (by decide), decodeEscape_self (Or.inl rfl), scanDQ_escDouble k rest t]
      simp
    by_cases h2 : c = '\\'
    · subst h2
      rw [dqEsc_bs]
      simp only [List.cons_append, List.nil_append]
      rw [scanDQ_esc _ _ (by decide), decodeEscape_self (Or.inr (Or.inl rfl)), scanDQ_escDouble k rest t]
      simp
    by_cases h3 : c = '\n'
    · subst h3
      rw [dqEsc_nl]
      simp only [List.cons_append, List.nil_append]
      rw [scanDQ_esc _ _ (by decide), decodeEscape_n, scanDQ_escDouble k rest t]
      simp
    by_cases h4 : k = true ∨ c ≠ '$'
    · rw [dqEsc_plain h1 h2 h3 h4]
      simp only [List.cons_append, List.nil_append]
      rw [scanDQ_plain _ _ h1 h2 h3 h4, scanDQ_escDouble k rest t]
      simp
    · have hk : k = false := by cases k <;> simp_all
      have hc : c = '$' := by
        cases hcc : decide (c = '$') <;> simp_all
      subst hk; subst hc
      rw [dqEsc_dollar]
      simp only [List.cons_append, List.nil_append]
      rw [scanDQ_esc _ _ (by decide), decodeEscape_self (Or.inr (Or.inr rfl)), scanDQ_escDouble false rest t]
      simp

/-! ### single-quoted -/

theorem escSingle_cons (c : Char) (t : Str) : escSingle (c :: t) = sqEsc c ++ escSingle t := by
  simp [escSingle]

/-- the closing quote is followed by something that is not a quote -/
def NoQuoteHead (rest : Str) : Prop := ∀ r, rest ≠ '\'' :: r

theorem scanSQ_q_end {rest : Str} (h : NoQuoteHead rest) (acc : Str) : scanSQ .q rest acc = .ok acc.reverse rest := by
  cases rest with
  | nil => simp [scanSQ]
  | cons c r =>
    have : c ≠ '\'' := fun hc => h r (by rw [hc])
    simp [scanSQ, this]

theorem scanSQ_escSingle (rest : Str) (hr : NoQuoteHead rest) : ∀ (s : Str), s.contains '\n' = false → ∀ acc : Str,
    scanSQ .n (escSingle s ++ '\'' :: rest) acc = .ok (acc.reverse ++ s) rest ∧
    scanSQ .b (escSingle s ++ '\'' :: rest) acc = .ok (acc.reverse ++ '\\' :: s) rest
  | [], _, acc => by
    constructor
    · simp [escSingle, scanSQ, scanSQ_q_end hr]
    · simp [escSingle, scanSQ, scanSQ_q_end hr]
  | c :: t, hn, acc => by
    have hn' : c ≠ '\n' ∧ t.contains '\n' = false := by
      simp only [List.contains_cons, Bool.or_eq_false_iff, beq_eq_false_iff_ne, ne_eq] at hn
      exact ⟨fun h => hn.1 h.symm, hn.2⟩
    have ih := scanSQ_escSingle rest hr t hn'.2
    rw [escSingle_cons]
    by_cases h1 : c = '\''
    · subst h1
      rw [sqEsc_quote]
      constructor
      · simp [scanSQ, (ih _).1]
      · simp [scanSQ, (ih _).1]
    by_cases h2 : c = '\\'
    · subst h2
      rw [sqEsc_plain h1 hn'.1]
      constructor
      · simp [scanSQ, (ih _).2]
      · simp [scanSQ, (ih _).2]
    · rw [sqEsc_plain h1 hn'.1]
      constructor
      · simp [scanSQ, h1, h2, hn'.1, (ih _).1]
      · simp [scanSQ, h1, h2, hn'.1, (ih _).1]

/-! ### unquoted, key mode (inside or outside an edge group: `e`) -/

theorem dash_not_stop : '-' ∉ uqStopTop ∧ '-' ∉ uqStopKey := by decide
theorem dot_stop : '.' ∉ uqStopTop ∧ '.' ∈ uqStopKey := by decide
theorem lt_stop : '<' ∉ uqStopTop ∧ '<' ∈ uqStopKey := by decide
theorem paren_in_key : keySpecials.contains ')' = true := by decide
theorem space_plain : keySpecials.contains ' ' = false := by decide
theorem nmem_of_contains {l : List Char} {c : Char} (h : l.contains c = false) : c ∉ l := by simpa using h

theorem key_plain_paren {c : Char} (h : keySpecials.contains c = false) : c ≠ ')' := by
  intro he; subst he; rw [paren_in_key] at h; cases h

theorem uqk_normal_plain {e : Bool} {c : Char} (X acc : Str) (h : keySpecials.contains c = false) :
    scanUQ true e .normal (c :: X) acc = scanUQ true e .normal X (c :: acc) := by
  have h1 := nmem_of_contains (not_stopTop_of_key h)
  have h2 := nmem_of_contains (not_stopKey_of_key h)
  have hp := key_plain_paren h
  obtain ⟨hd, hb, _⟩ := key_plain_char h
  simp [scanUQ, uqStep, uqNormal, uqRaw, h1, h2, hd, hb, hp]

theorem uqk_normal_dash {e : Bool} (X acc : Str) : scanUQ true e .normal ('-' :: X) acc = scanUQ true e .dash X acc := by
  simp [scanUQ, uqStep, uqNormal, dash_not_stop.1, dash_not_stop.2]

theorem uqk_dash_plain {e : Bool} {d : Char} (X acc : Str) (h : keySpecials.contains d = false) :
    scanUQ true e .dash (d :: X) acc = scanUQ true e .normal X (d :: '-' :: acc) := by
  have h1 := nmem_of_contains (not_stopTop_of_key h)
  obtain ⟨hd, hb, _, _, _, _, _, _, hgt, hst, _⟩ := key_plain_char h
  simp [scanUQ, uqStep, uqRaw, h1, hd, hb, hgt, hst]

/-- how an unquoted key segment ends when `term` follows it: the scanner pushes the spaces `w` and stops with
    `rest'` left -/
structure UQEnd (e : Bool) (term w rest' : Str) : Prop where
  scan : ∀ acc, scanUQ true e .normal term acc = .ok (w ++ acc) rest'
  spaces : ∀ c ∈ w, isSpace c = true

theorem uqk_end {e : Bool} {rest : Str} (h : RestOk rest) (acc : Str) : scanUQ true e .normal rest acc = .ok acc rest := by
  rcases h with rfl | ⟨r, rfl⟩
  · simp [scanUQ]
  · simp [scanUQ, uqStep, uqNormal, dot_stop.1, dot_stop.2]

theorem uqEnd_restOk {e : Bool} {rest : Str} (h : RestOk rest) : UQEnd e rest [] rest :=
  ⟨fun acc => by simpa using uqk_end h acc, by simp⟩

/-- a space and an arrow that starts with `-`: ` ->` or ` --` -/
theorem uqEnd_arrowDash {e : Bool} {c : Char} (X : Str) (hc : c = '>' ∨ c = '-') :
    UQEnd e (' ' :: '-' :: c :: X) [' '] ('-' :: c :: X) := by
  refine ⟨fun acc => ?_, by intro c hc; simp at hc; subst hc; decide⟩
  rw [uqk_normal_plain _ _ space_plain, uqk_normal_dash]
  have : '>' ∉ uqStopTop ∧ '-' ∉ uqStopTop := by decide
  rcases hc with rfl | rfl <;> simp [scanUQ, uqStep, this.1, this.2]

/-- a space and an arrow that starts with `<` -/
theorem uqEnd_arrowLt {e : Bool} (X : Str) : UQEnd e (' ' :: '<' :: X) [' '] ('<' :: X) := by
  refine ⟨fun acc => ?_, by intro c hc; simp at hc; subst hc; decide⟩
  rw [uqk_normal_plain _ _ space_plain]
  simp [scanUQ, uqStep, uqNormal, lt_stop.1, lt_stop.2]

/-- the closing parenthesis of an edge group, followed by the index -/
theorem uqEnd_close (X : Str) : UQEnd true (')' :: '[' :: X) [] (')' :: '[' :: X) := by
  refine ⟨fun acc => ?_, by simp⟩
  have : isSpace '[' = false := by decide
  simp [scanUQ, uqStep, uqNormal, closeParenStops, skipSpacesNL, this]

theorem scanUQ_keyPlain' {e : Bool} {term w rest' : Str} (hr : UQEnd e term w rest') : ∀ (s acc : Str), keyPlain s = true →
    scanUQ true e .normal (s ++ term) acc = .ok (w ++ (s.reverse ++ acc)) rest'
  | [], acc, _ => by simp [hr.scan]
  | [c], acc, h => by
    have hc : keySpecials.contains c = false := by simpa [keyPlain] using h
    simp [uqk_normal_plain _ _ hc, hr.scan]
  | c :: d :: t, acc, h => by
    by_cases hd : c = '-'
    · subst hd
      have h' : d ≠ '-' ∧ keyPlain (d :: t) = true := by simpa [keyPlain] using h
      have h'' := keyPlain_cons_ne h'.2 h'.1
      simp only [List.cons_append]
      rw [uqk_normal_dash, uqk_dash_plain _ _ h''.1, scanUQ_keyPlain' hr t _ h''.2]
      simp
    · have h' := keyPlain_cons_ne h hd
      simp only [List.cons_append]
      rw [uqk_normal_plain _ _ h'.1]
      have := scanUQ_keyPlain' hr (d :: t) (c :: acc) h'.2
      simp only [List.cons_append] at this
      rw [this]
      simp

theorem scanUQ_keyPlain {e : Bool} {rest : Str} (hr : RestOk rest) (s acc : Str) (h : keyPlain s = true) :
    scanUQ true e .normal (s ++ rest) acc = .ok (s.reverse ++ acc) rest := by
  simpa using scanUQ_keyPlain' (uqEnd_restOk hr) s acc h

/-! ### unquoted, value mode -/

theorem uqv_plain {c : Char} (X acc : Str) (h : valueSpecials.contains c = false) :
    scanUQ false false .normal (c :: X) acc = scanUQ false false .normal X (c :: acc) := by
  have h1 := nmem_of_contains (not_stopTop_of_value h)
  obtain ⟨hb, _, _, _, hdl, _⟩ := value_plain_char h
  simp [scanUQ, uqStep, uqNormal, uqRaw, h1, hb, hdl]

theorem scanUQ_valuePlain : ∀ (s acc : Str), containsAny s valueSpecials = false →
    scanUQ false false .normal s acc = .ok (s.reverse ++ acc) []
  | [], acc, _ => by simp [scanUQ]
  | c :: t, acc, h => by
    have h' : valueSpecials.contains c = false ∧ containsAny t valueSpecials = false := by
      simpa [containsAny] using h
    rw [uqv_plain _ _ h'.1, scanUQ_valuePlain t _ h'.2]
    simp

/-! ### whitespace at the ends -/

theorem sw_head {c : Char} {t : Str} (h : surroundingWs (c :: t) = false) : isSpace c = false := by
  unfold surroundingWs at h
  cases hl : (c :: t).getLast? with
  | none => simp at hl
  | some b =>
    simp only [List.head?_cons, hl, Bool.or_eq_false_iff] at h
    exact h.1

theorem sw_trim {s : Str} (hne : s ≠ []) (h : surroundingWs s = false) :
    s.reverse.dropWhile isSpace = s.reverse := by
  cases hr : s.reverse with
  | nil => simp at hr; exact absurd hr hne
  | cons b r =>
    have hl : s.getLast? = some b := by
      rw [← List.head?_reverse, hr]; rfl
    cases s with
    | nil => exact absurd rfl hne
    | cons c t =>
      unfold surroundingWs at h
      simp only [List.head?_cons, hl, Bool.or_eq_false_iff] at h
      simp [List.dropWhile, h.2]

theorem sw_trim' {s : Str} (hne : s ≠ []) (h : surroundingWs s = false) : ∀ (w : Str), (∀ c ∈ w, isSpace c = true) →
    (w ++ s.reverse).dropWhile isSpace = s.reverse
  | [], _ => by simpa using sw_trim hne h
  | c :: w, hw => by
    have hc := hw c (by simp)
    simp only [List.cons_append, List.dropWhile, hc]
    exact sw_trim' hne h w (fun x hx => hw x (by simp [hx]))

theorem skipSpacesNL_cons {c : Char} (X : Str) (h : isSpace c = false) : skipSpacesNL (c :: X) = some (c, X) := by
  simp [skipSpacesNL, h]

end D2V.Quote
