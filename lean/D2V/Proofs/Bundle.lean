import D2V.Model.Bundle
/-!
  Helper development for C46 (lib/imgbundler): what `bytes.Replace` does to a text cut at every `<`, which pattern can
  match a segment, the invariants of the worker-pool transition system, and what the regular expression finds.
  Core Lean only.
-/
namespace D2V.Bundle

/-! ### what the proofs need about the literals extracted from the source under test (tie R) -/

/-- the regexp's literal prefix starts with `<` (so every pattern does) -/
theorem gen_K : K = lt :: K' := by decide
/-- the replacement's format string starts with the regexp prefix followed by the skipped prefix `data:` -/
theorem gen_fmtHead : Gen.Bundle.fmtHead = K ++ dataPfx := by decide
/-- … and ends with the closing quote -/
theorem gen_fmtTail : Gen.Bundle.fmtTail = [qt] := by decide
/-- the collector replaces all occurrences -/
theorem gen_replaceAll : Gen.Bundle.replaceN < 0 := by decide
/-- failing workers report the href, successful ones hand over the whole match and the worker's output -/
theorem gen_reported : Gen.Bundle.reported = "string(img[1])" := by decide
theorem gen_handed : Gen.Bundle.handed = "repl{ from: img[0], to: bundledImage, }" := by decide
theorem gen_b64 : Gen.Bundle.b64Encoding = "base64.StdEncoding" := by decide
theorem gen_xmlN : Gen.Bundle.xmlN = 1 := by decide
/-- no quote inside `data:` and no `<` in the pieces of the format string -/
theorem gen_pieces : qt ∉ dataPfx ∧ lt ∉ dataPfx ∧ lt ∉ b64Mark ∧ lt ∉ K' := by decide

theorem replImpl_eq (frm to s : Bytes) : replImpl frm to s = replGo frm to 0 s := by
  unfold replImpl; simp [gen_replaceAll]

theorem escByte_no_lt (c : UInt8) : lt ∉ escByte c := by
  unfold escByte
  split; · decide
  split; · decide
  split; · decide
  split; · decide
  split; · decide
  rename_i h _ _
  simp only [List.mem_singleton]
  exact fun e => h e.symm

theorem htmlEscape_no_lt (m : Bytes) : lt ∉ htmlEscape m := by
  induction m with
  | nil => simp [htmlEscape]
  | cons c r ih => simp only [htmlEscape, List.mem_append, not_or]; exact ⟨escByte_no_lt c, ih⟩

/-- when the source under test escapes the MIME type, `mimeClean` holds for every server answer -/
theorem mimeOut_clean (h : Gen.Bundle.mimeEscaped = true) (m : Bytes) : lt ∉ mimeOut m := by
  unfold mimeOut; rw [h]; exact htmlEscape_no_lt m


theorem isPrefixOf_app_lt (p b x : Bytes) (hp : lt ∉ p) : p.isPrefixOf (b ++ lt :: x) = p.isPrefixOf b := by
  induction p generalizing b with
  | nil => simp
  | cons a p ih =>
    have ha : a ≠ lt := fun h => hp (by simp [h])
    have hp' : lt ∉ p := fun h => hp (by simp [h])
    cases b with
    | nil => simp [List.isPrefixOf, ha]
    | cons c b => simp [List.isPrefixOf, ih b hp']

theorem joinB_nil_or_lt (r : List Bytes) : joinB r = [] ∨ ∃ x, joinB r = lt :: x := by
  cases r with
  | nil => left; rfl
  | cons b r => right; exact ⟨_, rfl⟩

theorem isPrefixOf_joinB (p b : Bytes) (r : List Bytes) (hp : lt ∉ p) :
    p.isPrefixOf (b ++ joinB r) = p.isPrefixOf b := by
  rcases joinB_nil_or_lt r with h | ⟨x, h⟩
  · simp [h]
  · rw [h, isPrefixOf_app_lt p b x hp]

theorem replGo_copy (p' t w X : Bytes) (hw : lt ∉ w) :
    replGo (lt :: p') t 0 (w ++ X) = w ++ replGo (lt :: p') t 0 X := by
  induction w with
  | nil => rfl
  | cons c w ih =>
    have hc : c ≠ lt := fun h => hw (by simp [h])
    have hw' : lt ∉ w := fun h => hw (by simp [h])
    have : (lt == c) = false := by simp [Ne.symm hc]
    simp [replGo, List.isPrefixOf, this, ih hw']

theorem replGo_skip (frm t w X : Bytes) : replGo frm t w.length (w ++ X) = replGo frm t 0 X := by
  induction w with
  | nil => rfl
  | cons c w ih => simpa [replGo] using ih

def rwBody (p' t' b : Bytes) : Bytes := if p'.isPrefixOf b then t' ++ b.drop p'.length else b

theorem isPrefixOf_eq_append {p b : Bytes} (h : p.isPrefixOf b = true) : b = p ++ b.drop p.length := by
  have := List.isPrefixOf_iff_prefix.mp h
  obtain ⟨t, rfl⟩ := this
  simp

theorem replGo_joinB (p' t' : Bytes) (bodies : List Bytes) (hp : lt ∉ p') (hb : ∀ b ∈ bodies, lt ∉ b) :
    replGo (lt :: p') (lt :: t') 0 (joinB bodies) = joinB (bodies.map (rwBody p' t')) := by
  induction bodies with
  | nil => rfl
  | cons b r ih =>
    have hb0 : lt ∉ b := hb b (by simp)
    have ih' := ih (fun x hx => hb x (by simp [hx]))
    simp only [joinB, List.map_cons]
    by_cases hpre : p'.isPrefixOf b = true
    · have hb' := isPrefixOf_eq_append hpre
      have hd : lt ∉ b.drop p'.length := fun h => hb0 (List.mem_of_mem_drop h)
      have e1 : (lt :: p').isPrefixOf (lt :: (b ++ joinB r)) = true := by
        simp [List.isPrefixOf, isPrefixOf_joinB p' b r hp, hpre]
      have e2 : b ++ joinB r = p' ++ (b.drop p'.length ++ joinB r) := by
        rw [← List.append_assoc, ← hb']
      simp only [replGo, e1, if_true, List.length_cons, Nat.add_sub_cancel]
      rw [e2, replGo_skip, replGo_copy _ _ _ _ hd, ih']
      simp [rwBody, hpre]
    · have e1 : (lt :: p').isPrefixOf (lt :: (b ++ joinB r)) = false := by
        simp [List.isPrefixOf, isPrefixOf_joinB p' b r hp, hpre]
      simp only [replGo, e1]
      rw [replGo_copy _ _ _ _ hb0, ih']
      simp [rwBody, hpre]


/-- image well-formedness: what `findAll`/`filterImgs` guarantee about an eligible href (non-empty, no quote, not
    `data:`), what XML guarantees (no `<` in an attribute value) and — the hypothesis the proof forces — `mimeClean`:
    no `<` in the MIME type -/
structure Img.OK (i : Img) : Prop where
  ne : i.href ≠ []
  noq : qt ∉ i.href
  nolt : lt ∉ i.href
  nodata : dataPfx.isPrefixOf i.href = false
  mimeClean : lt ∉ mimeOut i.mime

theorem enc6_ne_lt (n : Nat) : enc6 n ≠ lt := by
  unfold enc6 lt
  split
  · intro h; have := congrArg UInt8.toNat h; simp at this; omega
  · split
    · intro h; have := congrArg UInt8.toNat h; simp at this; omega
    · split
      · intro h; have := congrArg UInt8.toNat h; simp at this; omega
      · split <;> decide

theorem b64std_no_lt (d : Bytes) : lt ∉ b64std d := by
  fun_induction b64std d with
  | case1 => simp
  | case2 a =>
    have e := fun n => Ne.symm (enc6_ne_lt n)
    have : lt ≠ pad := by decide
    simp [e, this]
  | case3 a b =>
    have e := fun n => Ne.symm (enc6_ne_lt n)
    have : lt ≠ pad := by decide
    simp [e, this]
  | case4 a b c rest ih =>
    have e := fun n => Ne.symm (enc6_ne_lt n)
    simp [e, ih]

theorem K'_no_lt : lt ∉ K' := by decide

theorem from'_no_lt (i : Img) (h : i.OK) : lt ∉ i.from' := by
  have : lt ≠ qt := by decide
  simp only [Img.from', List.mem_append, List.mem_singleton, not_or]
  exact ⟨K'_no_lt, h.nolt, this⟩

theorem to'_no_lt (i : Img) (h : i.OK) : lt ∉ i.to' := by
  simp only [Img.to', List.mem_append, not_or]
  refine ⟨K'_no_lt, by decide, h.mimeClean, by decide, b64std_no_lt _, by decide⟩

def bodyFold (ds : List Img) (b : Bytes) : Bytes := ds.foldl (fun b i => rwBody i.from' i.to' b) b

theorem rwBody_no_lt (p' t' b : Bytes) (ht : lt ∉ t') (hb : lt ∉ b) : lt ∉ rwBody p' t' b := by
  unfold rwBody
  split
  · simp only [List.mem_append, not_or]
    exact ⟨ht, fun h => hb (List.mem_of_mem_drop h)⟩
  · exact hb

theorem bundleSeq_join (pre : Bytes) (bodies : List Bytes) (ds : List Img)
    (hpre : lt ∉ pre) (hb : ∀ b ∈ bodies, lt ∉ b) (hd : ∀ i ∈ ds, i.OK) :
    bundleSeq (pre ++ joinB bodies) ds = pre ++ joinB (bodies.map (bodyFold ds)) := by
  induction ds generalizing bodies with
  | nil =>
    have : bodyFold [] = id := by funext b; rfl
    simp [bundleSeq, this]
  | cons i r ih =>
    have hi := hd i (by simp)
    have hr : ∀ j ∈ r, j.OK := fun j hj => hd j (by simp [hj])
    have step : replGo i.from_ i.to_ 0 (pre ++ joinB bodies)
        = pre ++ joinB (bodies.map (rwBody i.from' i.to')) := by
      unfold Img.from_ Img.to_
      rw [replGo_copy _ _ _ _ hpre, replGo_joinB _ _ _ (from'_no_lt i hi) hb]
    have hb' : ∀ b ∈ bodies.map (rwBody i.from' i.to'), lt ∉ b := by
      intro b hb1
      obtain ⟨b0, hb0, rfl⟩ := List.mem_map.mp hb1
      exact rwBody_no_lt _ _ _ (to'_no_lt i hi) (hb b0 hb0)
    have := ih (bodies.map (rwBody i.from' i.to')) hb' hr
    simp only [bundleSeq, List.foldl_cons] at this ⊢
    rw [step, this, List.map_map]
    rfl


/-! ### one segment: which pattern can match it -/

theorem spanQ_append (h x : Bytes) (hq : qt ∉ h) : spanQ (h ++ qt :: x) = (h, true) := by
  induction h with
  | nil => simp [spanQ]
  | cons c h ih =>
    have hc : c ≠ qt := fun e => hq (by simp [e])
    have hq' : qt ∉ h := fun e => hq (by simp [e])
    simp [spanQ, hc, ih hq']

theorem spanQ_spec (x h : Bytes) (hs : spanQ x = (h, true)) : qt ∉ h ∧ ∃ y, x = h ++ qt :: y := by
  induction x generalizing h with
  | nil => simp [spanQ] at hs
  | cons c x ih =>
    by_cases hc : c = qt
    · simp [spanQ, hc] at hs
      subst hs
      exact ⟨by simp, x, by simp [hc]⟩
    · simp only [spanQ, hc, if_false, Prod.mk.injEq] at hs
      obtain ⟨h1, h2⟩ := hs
      have := ih (spanQ x).1 (by rw [← h2])
      obtain ⟨hq, y, hy⟩ := this
      subst h1
      refine ⟨?_, y, ?_⟩
      · simp only [List.mem_cons, not_or]; exact ⟨Ne.symm hc, hq⟩
      · simp only [List.cons_append, List.cons.injEq, true_and]; exact hy

theorem spanQ_found_append (x y : Bytes) (hf : (spanQ x).2 = true) : spanQ (x ++ y) = spanQ x := by
  induction x with
  | nil => simp [spanQ] at hf
  | cons c x ih =>
    by_cases hc : c = qt
    · simp [spanQ, hc]
    · simp only [spanQ, hc, if_false] at hf ⊢
      simp [spanQ, hc, ih hf]

theorem isPrefixOf_append_left (p a b : Bytes) : (p ++ a).isPrefixOf b = (p.isPrefixOf b && a.isPrefixOf (b.drop p.length)) := by
  induction p generalizing b with
  | nil => simp
  | cons c p ih =>
    cases b with
    | nil => simp [List.isPrefixOf]
    | cons d b => simp [List.isPrefixOf, ih, Bool.and_assoc]

/-- the pattern of href `h` is a prefix of a segment exactly when the segment's tag is `h` -/
theorem from'_prefix_iff (h b : Bytes) (hne : h ≠ []) (hq : qt ∉ h) :
    (K' ++ (h ++ [qt])).isPrefixOf b = true ↔ tagOf b = some h := by
  rw [isPrefixOf_append_left]
  unfold tagOf
  by_cases hk : K'.isPrefixOf b = true
  · simp only [hk, Bool.true_and, if_true]
    constructor
    · intro hp
      have := isPrefixOf_eq_append hp
      have e : spanQ (List.drop K'.length b) = (h, true) := by
        rw [this, List.append_assoc]; exact spanQ_append h _ hq
      simp [e, hne]
    · intro ht
      by_cases hc : ((spanQ (List.drop K'.length b)).2 && !(spanQ (List.drop K'.length b)).1.isEmpty) = true
      · simp only [hc, if_true, Option.some.injEq] at ht
        simp only [Bool.and_eq_true] at hc
        have e : spanQ (List.drop K'.length b) = (h, true) := by
          rw [← ht, ← hc.1]
        obtain ⟨_, y, hy⟩ := spanQ_spec _ _ e
        rw [hy]
        simp [List.isPrefixOf_iff_prefix]
      · simp [hc] at ht
  · simp [hk]

theorem tagOf_data (m x h : Bytes) (ht : tagOf (K' ++ (dataPfx ++ m) ++ x) = some h) : dataPfx.isPrefixOf h = true := by
  unfold tagOf at ht
  have hk : K'.isPrefixOf (K' ++ (dataPfx ++ m) ++ x) = true := by
    simp [List.isPrefixOf_iff_prefix, List.append_assoc]
  simp only [hk, if_true] at ht
  have hd : List.drop K'.length (K' ++ (dataPfx ++ m) ++ x) = dataPfx ++ (m ++ x) := by
    simp [List.append_assoc]
  rw [hd] at ht
  split at ht
  · simp only [Option.some.injEq] at ht
    rw [← ht]
    simp [dataPfx, Gen.Bundle.skipPrefix, spanQ, qt, List.isPrefixOf]
  · simp at ht

/-- `to_contains_no_from`: once a segment starts with a bundled image, no pending pattern matches it any more
    (its tag is a `data:` URI, and eligible hrefs never start with `data:`) -/
theorem to_contains_no_from (i j : Img) (x : Bytes) (hj : j.OK) : j.from'.isPrefixOf (i.to' ++ x) = false := by
  cases hp : j.from'.isPrefixOf (i.to' ++ x) with
  | false => rfl
  | true =>
    exfalso
    have h1 := (from'_prefix_iff j.href _ hj.ne hj.noq).mp hp
    have : i.to' ++ x = K' ++ (dataPfx ++ (mimeOut i.mime ++ (b64Mark ++ (b64std i.data ++ [qt])))) ++ x := rfl
    rw [this] at h1
    have := tagOf_data _ _ _ h1
    rw [hj.nodata] at this
    exact Bool.false_ne_true this


/-- replacement of the first image of `ds` with href `h` -/
def lookup (ds : List Img) (h : Bytes) : Option Bytes := (ds.find? (hrefIs h)).map Img.to'

theorem bodyFold_no_match (ds : List Img) (b : Bytes) (hn : ∀ j ∈ ds, j.from'.isPrefixOf b = false) :
    bodyFold ds b = b := by
  induction ds with
  | nil => rfl
  | cons j r ih =>
    have h1 := hn j (by simp)
    have : bodyFold (j :: r) b = bodyFold r (rwBody j.from' j.to' b) := rfl
    rw [this]
    simp only [rwBody, h1]
    exact ih (fun k hk => hn k (by simp [hk]))

theorem from'_length (i : Img) : i.from'.length = K'.length + i.href.length + 1 := by
  simp [Img.from', Nat.add_assoc]

/-- the sequential replacements, seen from one segment, are the order-free `specBody` -/
theorem bodyFold_eq_spec (ds : List Img) (b : Bytes) (hd : ∀ i ∈ ds, i.OK) :
    bodyFold ds b = specBody (lookup ds) b := by
  induction ds with
  | nil =>
    simp only [specBody, lookup, List.find?_nil, Option.map_none]
    cases tagOf b <;> rfl
  | cons i r ih =>
    have hi := hd i (by simp)
    have hr : ∀ j ∈ r, j.OK := fun j hj => hd j (by simp [hj])
    have e : bodyFold (i :: r) b = bodyFold r (rwBody i.from' i.to' b) := rfl
    rw [e]
    by_cases hp : i.from'.isPrefixOf b = true
    · have ht := (from'_prefix_iff i.href b hi.ne hi.noq).mp hp
      simp only [rwBody, hp, if_true]
      rw [bodyFold_no_match r _ (fun j hj => to_contains_no_from i j _ (hr j hj))]
      simp [specBody, ht, lookup, hrefIs, from'_length]
    · have hp' : i.from'.isPrefixOf b = false := Bool.eq_false_iff.mpr hp
      simp only [rwBody, hp', Bool.false_eq_true, if_false]
      rw [ih hr]
      unfold specBody
      cases ht : tagOf b with
      | none => rfl
      | some h =>
        have hne : (i.href == h) = false := by
          cases hh : i.href == h with
          | false => rfl
          | true =>
            exfalso
            have : i.href = h := by simpa using hh
            rw [← this] at ht
            have := (from'_prefix_iff i.href b hi.ne hi.noq).mpr ht
            exact hp this
        simp [lookup, hrefIs, hne]


/-! ### the worker pool: invariants of every reachable state -/

structure PInv (svg0 : Bytes) (imgs : List Img) (s : Pool) : Prop where
  wgEq : s.wg = s.pending.length + s.running.length + s.exiting.length
  pendIn : ∀ i ∈ s.pending, i ∈ imgs
  runIn : ∀ i ∈ s.running, i ∈ imgs
  delIn : ∀ i ∈ s.delivered, i ∈ imgs ∧ i.fails = false
  failIn : ∀ i ∈ s.failed, i ∈ imgs ∧ i.fails = true
  svgEq : s.svg = bundleSeq svg0 s.delivered
  errsEq : s.errs = s.failed.map (·.href)
  cover : ∀ i ∈ imgs, i ∈ s.pending ∨ i ∈ s.running ∨ i ∈ s.delivered ∨ i ∈ s.failed
  closedInv : s.closed = true → s.wg = 0
  retInv : ∀ v e, s.ret = some (v, e) → s.closed = true ∧ v = s.svg ∧ e = s.errs

def UniqueHrefs (imgs : List Img) : Prop := ∀ i ∈ imgs, ∀ j ∈ imgs, i.href = j.href → i = j

theorem PInv_init (svg0 : Bytes) (imgs : List Img) : PInv svg0 imgs (Pool.init svg0 imgs) := by
  refine ⟨by simp [Pool.init], by simp [Pool.init], by simp [Pool.init], by simp [Pool.init], by simp [Pool.init],
    by simp [Pool.init, bundleSeq], by simp [Pool.init], ?_, by simp [Pool.init], by simp [Pool.init]⟩
  intro i hi; left; exact hi

theorem find_mem_prop {l : List Img} {p : Img → Bool} {i : Img} (h : l.find? p = some i) : i ∈ l ∧ p i = true :=
  ⟨List.mem_of_find?_eq_some h, List.find?_some h⟩

theorem closed_empty {svg0 imgs s} (inv : PInv svg0 imgs s) (hc : s.closed = true) :
    s.pending = [] ∧ s.running = [] ∧ s.exiting = [] := by
  have h0 := inv.closedInv hc
  have := inv.wgEq
  rw [h0] at this
  refine ⟨List.eq_nil_of_length_eq_zero (by omega), List.eq_nil_of_length_eq_zero (by omega),
    List.eq_nil_of_length_eq_zero (by omega)⟩

theorem PInv_step (svg0 : Bytes) (imgs : List Img) (hu : UniqueHrefs imgs) (s s' : Pool) (st : PStep)
    (inv : PInv svg0 imgs s) (hs : pstep s st = some s') : PInv svg0 imgs s' := by
  cases st with
  | start =>
    simp only [pstep] at hs
    split at hs
    · simp at hs
    · rename_i i r hpend
      split at hs
      · simp only [Option.some.injEq] at hs
        subst hs
        have hpi : ∀ j ∈ s.pending, j ∈ imgs := inv.pendIn
        rw [hpend] at hpi
        refine ⟨?_, ?_, ?_, inv.delIn, inv.failIn, inv.svgEq, inv.errsEq, ?_, inv.closedInv, inv.retInv⟩
        · have := inv.wgEq; rw [hpend] at this; simp only [List.length_cons, List.length_append, List.length_nil] at this ⊢; omega
        · intro j hj; exact hpi j (by simp [hj])
        · intro j hj
          simp only [List.mem_append, List.mem_singleton] at hj
          rcases hj with hj | hj
          · exact inv.runIn j hj
          · exact hpi j (by simp [hj])
        · intro j hj
          have := inv.cover j hj
          rw [hpend] at this
          simp only [List.mem_cons, List.mem_append, List.mem_nil_iff, or_false] at this ⊢
          rcases this with (h | h) | h | h | h
          · right; left; right; exact h
          · left; exact h
          · right; left; left; exact h
          · right; right; left; exact h
          · right; right; right; exact h
      · simp at hs
  | deliver h =>
    simp only [pstep] at hs
    split at hs
    · simp at hs
    · rename_i i hf
      obtain ⟨him, hip⟩ := find_mem_prop hf
      split at hs
      · rename_i hg
        simp only [Bool.and_eq_true, Bool.not_eq_true', Option.isNone_iff_eq_none] at hg
        simp only [Option.some.injEq] at hs
        subst hs
        refine ⟨?_, inv.pendIn, ?_, ?_, inv.failIn, ?_, inv.errsEq, ?_, inv.closedInv, ?_⟩
        · have := inv.wgEq
          have hl := List.length_eraseP_of_mem him hip
          have : 0 < s.running.length := List.length_pos_of_mem him
          simp only [List.length_cons, hl]; omega
        · intro j hj; exact inv.runIn j (List.mem_of_mem_eraseP hj)
        · intro j hj
          simp only [List.mem_append, List.mem_singleton] at hj
          rcases hj with hj | hj
          · exact inv.delIn j hj
          · subst hj; exact ⟨inv.runIn _ him, hg.1⟩
        · simp only [inv.svgEq, bundleSeq, List.foldl_append, List.foldl_cons, List.foldl_nil, replImpl_eq]
        · intro j hj
          rcases inv.cover j hj with h1 | h1 | h1 | h1
          · left; exact h1
          · by_cases hp : hrefIs h j = true
            · have : j = i := hu j hj i (inv.runIn _ him) (by
                simp only [hrefIs, beq_iff_eq] at hp hip; rw [hp, hip])
              right; right; left; simp [this]
            · right; left; exact (List.mem_eraseP_of_neg hp).mpr h1
          · right; right; left; simp [h1]
          · right; right; right; exact h1
        · intro v e hr; simp [hg.2] at hr
      · simp at hs
  | fail h =>
    simp only [pstep] at hs
    split at hs
    · simp at hs
    · rename_i i hf
      obtain ⟨him, hip⟩ := find_mem_prop hf
      split at hs
      · rename_i hg
        simp only [Option.some.injEq] at hs
        subst hs
        have hnoret : s.ret = none := by
          cases hr : s.ret with
          | none => rfl
          | some p =>
            obtain ⟨v, e⟩ := p
            have := (closed_empty inv (inv.retInv v e hr).1).2.1
            rw [this] at him; simp at him
        refine ⟨?_, inv.pendIn, ?_, inv.delIn, ?_, inv.svgEq, ?_, ?_, inv.closedInv, ?_⟩
        · have := inv.wgEq
          have hl := List.length_eraseP_of_mem him hip
          have : 0 < s.running.length := List.length_pos_of_mem him
          simp only [List.length_cons, hl]; omega
        · intro j hj; exact inv.runIn j (List.mem_of_mem_eraseP hj)
        · intro j hj
          simp only [List.mem_append, List.mem_singleton] at hj
          rcases hj with hj | hj
          · exact inv.failIn j hj
          · subst hj; exact ⟨inv.runIn _ him, hg⟩
        · simp [inv.errsEq]
        · intro j hj
          rcases inv.cover j hj with h1 | h1 | h1 | h1
          · left; exact h1
          · by_cases hp : hrefIs h j = true
            · have : j = i := hu j hj i (inv.runIn _ him) (by
                simp only [hrefIs, beq_iff_eq] at hp hip; rw [hp, hip])
              right; right; right; simp [this]
            · right; left; exact (List.mem_eraseP_of_neg hp).mpr h1
          · right; right; left; exact h1
          · right; right; right; simp [h1]
        · intro v e hr; simp [hnoret] at hr
      · simp at hs
  | exit h =>
    simp only [pstep] at hs
    split at hs
    · simp at hs
    · rename_i i hf
      obtain ⟨him, hip⟩ := find_mem_prop hf
      simp only [Option.some.injEq] at hs
      subst hs
      have hl := List.length_eraseP_of_mem him hip
      have hpos : 0 < s.exiting.length := List.length_pos_of_mem him
      refine ⟨?_, inv.pendIn, inv.runIn, inv.delIn, inv.failIn, inv.svgEq, inv.errsEq, inv.cover, ?_, ?_⟩
      · have := inv.wgEq; simp only [hl]; omega
      · intro hc
        have := (closed_empty inv hc).2.2
        rw [this] at him; simp at him
      · intro v e hr
        have := (closed_empty inv (inv.retInv v e hr).1).2.2
        rw [this] at him; simp at him
  | close =>
    simp only [pstep] at hs
    split at hs
    · rename_i hg
      simp only [Bool.and_eq_true, decide_eq_true_eq, Bool.not_eq_true'] at hg
      simp only [Option.some.injEq] at hs
      subst hs
      refine ⟨inv.wgEq, inv.pendIn, inv.runIn, inv.delIn, inv.failIn, inv.svgEq, inv.errsEq, inv.cover, fun _ => hg.1, ?_⟩
      intro v e hr
      have := (inv.retInv v e hr).1
      rw [hg.2] at this; simp at this
    · simp at hs
  | ret =>
    simp only [pstep] at hs
    split at hs
    · rename_i hg
      simp only [Bool.and_eq_true, Option.isNone_iff_eq_none] at hg
      simp only [Option.some.injEq] at hs
      subst hs
      refine ⟨inv.wgEq, inv.pendIn, inv.runIn, inv.delIn, inv.failIn, inv.svgEq, inv.errsEq, inv.cover, inv.closedInv, ?_⟩
      intro v e hr
      simp only [Option.some.injEq, Prod.mk.injEq] at hr
      exact ⟨hg.1, hr.1.symm, hr.2.symm⟩
    · simp at hs

theorem PInv_run (svg0 : Bytes) (imgs : List Img) (hu : UniqueHrefs imgs) (steps : List PStep) (s s' : Pool)
    (inv : PInv svg0 imgs s) (hr : prun s steps = some s') : PInv svg0 imgs s' := by
  induction steps generalizing s with
  | nil => simp only [prun, Option.some.injEq] at hr; subst hr; exact inv
  | cons st r ih =>
    simp only [prun] at hr
    split at hr
    · rename_i s1 h1
      exact ih s1 (PInv_step svg0 imgs hu s s1 st inv h1) hr
    · simp at hr


/-! ### splitting any byte string at `<` -/

theorem joinB_splitLt (s : Bytes) : (splitLt s).1 ++ joinB (splitLt s).2 = s := by
  induction s with
  | nil => rfl
  | cons c r ih =>
    by_cases h : c = lt
    · simp [splitLt, h, joinB, ih]
    · simp [splitLt, h, ih]

theorem splitLt_no_lt (s : Bytes) : lt ∉ (splitLt s).1 ∧ ∀ b ∈ (splitLt s).2, lt ∉ b := by
  induction s with
  | nil => simp [splitLt]
  | cons c r ih =>
    by_cases h : c = lt
    · simp only [splitLt, h, if_true]
      refine ⟨by simp, ?_⟩
      intro b hb
      simp only [List.mem_cons] at hb
      rcases hb with rfl | hb
      · exact ih.1
      · exact ih.2 b hb
    · simp only [splitLt, h, if_false]
      refine ⟨?_, ih.2⟩
      simp only [List.mem_cons, not_or]
      exact ⟨Ne.symm h, ih.1⟩

/-! ### the regular expression finds exactly the segment tags of a well-formed text -/

theorem findAllAux_copy (w X : Bytes) (hw : lt ∉ w) : findAllAux 0 (w ++ X) = findAllAux 0 X := by
  induction w with
  | nil => rfl
  | cons c w ih =>
    have hc : c ≠ lt := fun h => hw (by simp [h])
    have hw' : lt ∉ w := fun h => hw (by simp [h])
    simp [findAllAux, tagAt, hc, ih hw']

theorem findAllAux_skip (w X : Bytes) : findAllAux w.length (w ++ X) = findAllAux 0 X := by
  induction w with
  | nil => rfl
  | cons c w ih => simpa [findAllAux] using ih

theorem tagOf_joinB (b : Bytes) (r : List Bytes)
    (hc : (!K'.isPrefixOf b || (spanQ (b.drop K'.length)).2) = true) :
    tagOf (b ++ joinB r) = tagOf b := by
  unfold tagOf
  rw [isPrefixOf_joinB K' b r K'_no_lt]
  by_cases hk : K'.isPrefixOf b = true
  · simp only [hk, Bool.not_true, Bool.false_or] at hc
    have hb := isPrefixOf_eq_append hk
    have : List.drop K'.length (b ++ joinB r) = List.drop K'.length b ++ joinB r := by
      have hl : K'.length ≤ b.length := by
        have := congrArg List.length hb; simp at this; omega
      rw [List.drop_append_of_le_length hl]
    simp only [hk, if_true, this, spanQ_found_append _ _ hc]
  · simp [hk]

theorem tagOf_len (b h : Bytes) (ht : tagOf b = some h) : ∃ y, b = K' ++ (h ++ qt :: y) := by
  unfold tagOf at ht
  split at ht
  · rename_i hk
    dsimp only at ht
    split at ht
    · rename_i hc
      simp only [Option.some.injEq] at ht
      simp only [Bool.and_eq_true] at hc
      have e : spanQ (List.drop K'.length b) = (h, true) := by rw [← ht, ← hc.1]
      obtain ⟨_, y, hy⟩ := spanQ_spec _ _ e
      refine ⟨y, ?_⟩
      have := isPrefixOf_eq_append hk
      rw [this, hy]
    · simp at ht
  · simp at ht

/-- `findAll` (the model of `imageRegex.FindAllSubmatch`) on a text whose image-tag attribute values do not run across
    a `<` returns exactly the tags of its segments, in order -/
theorem findAll_joinB (bodies : List Bytes) (hb : ∀ b ∈ bodies, lt ∉ b) (hc : svgClean bodies = true) :
    findAllAux 0 (joinB bodies) = bodies.filterMap tagOf := by
  induction bodies with
  | nil => rfl
  | cons b r ih =>
    have hb0 : lt ∉ b := hb b (by simp)
    simp only [svgClean, List.all_cons, Bool.and_eq_true] at hc
    have ih' := ih (fun x hx => hb x (by simp [hx])) (by simpa [svgClean] using hc.2)
    simp only [joinB, findAllAux, tagAt, if_true]
    rw [tagOf_joinB b r hc.1]
    cases ht : tagOf b with
    | none =>
      simp only [List.filterMap_cons, ht]
      rw [findAllAux_copy _ _ hb0, ih']
    | some h =>
      obtain ⟨y, hy⟩ := tagOf_len b h ht
      have hyl : lt ∉ y := fun hm => hb0 (by rw [hy]; simp [hm])
      simp only [List.filterMap_cons, ht]
      congr 1
      have : b ++ joinB r = (K' ++ (h ++ [qt])) ++ (y ++ joinB r) := by rw [hy]; simp
      rw [this]
      have hl : K'.length + h.length + 1 = (K' ++ (h ++ [qt])).length := by simp [Nat.add_assoc]
      rw [hl, findAllAux_skip, findAllAux_copy _ _ hyl, ih']

theorem findAll_clean (svg : Bytes) (hc : svgClean (splitLt svg).2 = true) :
    findAll svg = (splitLt svg).2.filterMap tagOf := by
  have hn := splitLt_no_lt svg
  unfold findAll
  rw [← joinB_splitLt svg] 
  rw [findAllAux_copy _ _ hn.1]
  have := findAll_joinB (splitLt svg).2 hn.2 hc
  rw [joinB_splitLt svg]
  exact this


/-! ### filterImageElements -/

theorem tagOf_props (b h : Bytes) (ht : tagOf b = some h) : h ≠ [] ∧ qt ∉ h ∧ ∃ y, b = K' ++ (h ++ qt :: y) := by
  obtain ⟨y, hy⟩ := tagOf_len b h ht
  unfold tagOf at ht
  split at ht
  · dsimp only at ht
    split at ht
    · rename_i hc
      simp only [Option.some.injEq] at ht
      simp only [Bool.and_eq_true, Bool.not_eq_true', List.isEmpty_eq_false_iff] at hc
      have e : spanQ (List.drop K'.length b) = (h, true) := by rw [← ht, ← hc.1]
      exact ⟨ht ▸ hc.2, (spanQ_spec _ _ e).1, y, hy⟩
    · simp at ht
  · simp at ht

theorem filterAux_spec (isRemote : Bool) (seen hs : List Bytes) :
    (∀ x ∈ filterAux isRemote seen hs, x ∈ hs ∧ x ∉ seen ∧ dataPfx.isPrefixOf x = false ∧ remoteHref x = isRemote)
      ∧ (filterAux isRemote seen hs).Nodup := by
  induction hs generalizing seen with
  | nil => simp [filterAux]
  | cons h r ih =>
    unfold filterAux
    by_cases hs : seen.contains h = true
    · simp only [hs, if_true]
      obtain ⟨a, b⟩ := ih seen
      exact ⟨fun x hx => ⟨by simp [(a x hx).1], (a x hx).2⟩, b⟩
    · have hs' : h ∉ seen := by simpa using hs
      simp only [hs]
      obtain ⟨a, b⟩ := ih (h :: seen)
      have a' : ∀ x ∈ filterAux isRemote (h :: seen) r,
          x ∈ h :: r ∧ x ∉ seen ∧ dataPfx.isPrefixOf x = false ∧ remoteHref x = isRemote := by
        intro x hx
        obtain ⟨x1, x2, x3⟩ := a x hx
        simp only [List.mem_cons, not_or] at x2
        exact ⟨by simp [x1], x2.2, x3⟩
      by_cases hd : dataPfx.isPrefixOf h = true
      · simp only [hd, if_true]; exact ⟨a', b⟩
      · by_cases hr : (remoteHref h == isRemote) = true
        · simp only [hd, hr, if_true, Bool.false_eq_true, if_false]
          constructor
          · intro x hx
            simp only [List.mem_cons] at hx
            rcases hx with rfl | hx
            · exact ⟨by simp, hs', Bool.eq_false_iff.mpr hd, by simpa using hr⟩
            · exact a' x hx
          · refine List.nodup_cons.mpr ⟨?_, b⟩
            intro hm
            have := (a h hm).2.1
            simp at this
        · simp only [hd, hr, Bool.false_eq_true, if_false]; exact ⟨a', b⟩

/-- the hrefs the workers are started for, as the code computes them from a well-formed text, satisfy every
    hypothesis of the main theorem except `mimeClean` (which is about the servers' answers) -/
theorem eligible_ok (svg : Bytes) (isRemote : Bool) (hc : svgClean (splitLt svg).2 = true) :
    (∀ h ∈ filterImgs isRemote (findAll svg),
        h ≠ [] ∧ qt ∉ h ∧ lt ∉ h ∧ dataPfx.isPrefixOf h = false ∧ remoteHref h = isRemote)
      ∧ (filterImgs isRemote (findAll svg)).Nodup := by
  obtain ⟨a, b⟩ := filterAux_spec isRemote [] (findAll svg)
  refine ⟨?_, b⟩
  intro h hh
  obtain ⟨h1, _, h3, h4⟩ := a h hh
  rw [findAll_clean svg hc] at h1
  obtain ⟨bd, hbd, ht⟩ := List.mem_filterMap.mp h1
  obtain ⟨p1, p2, y, hy⟩ := tagOf_props bd h ht
  have hl := (splitLt_no_lt svg).2 bd hbd
  refine ⟨p1, p2, ?_, h3, h4⟩
  intro hm
  exact hl (by rw [hy]; simp [hm])


end D2V.Bundle
