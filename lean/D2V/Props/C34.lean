import D2V.Model.Path
/-! C34 — Multi-board output stays inside the output location, one file per board. -/
namespace D2V.Path

def s (x : String) : Str := x.toList

/-- root board `x` with one layer named `../../victim` that has a sub-layer `z` -/
def cxDotdot : Board := .mk [] false [.mk (s "../../victim") false [.mk (s "z") false [] [] []] [] []] [] []

/-- **C34_cx_dotdot**: with `d2 in.d2 out/o.svg` the layer `../../victim` is rendered to `victim/index.svg`, its
    sub-layer to `victim/z.svg`, and `victim` is `RemoveAll`ed first — all outside `out/o/` (replayed on the CLI). -/
theorem C34_cx_dotdot :
    renderB (s "/w/out/o.svg") cxDotdot =
      [.removeAll (s "/w/out/o"), .removeAll (s "/w/victim"), .write (s "/w/victim/z.svg"),
       .write (s "/w/victim/index.svg"), .write (s "/w/out/o/index.svg")] ∧
    underOrEq (s "/w/out/o") (s "/w/victim") = false := by
  decide

/-- **C34_cx_index**: a layer named `index` is written to the file of the root board: two boards, one file. -/
theorem C34_cx_index :
    writesOf (renderB (s "/w/out/o.svg") (.mk [] false [.mk (s "index") false [] [] []] [] [])) =
      [s "/w/out/o/index.svg", s "/w/out/o/index.svg"] := by
  decide

/-- **C34_cx_ext_dir**: a layer `a` and a layer `a.svg` with sub-boards: the file `a.svg` of the first is
    `RemoveAll`ed to make room for the directory of the second. -/
theorem C34_cx_ext_dir :
    renderB (s "/w/out/o.svg")
        (.mk [] false [.mk (s "a") false [] [] [], .mk (s "a.svg") false [.mk (s "k") false [] [] []] [] []] [] []) =
      [.removeAll (s "/w/out/o"), .write (s "/w/out/o/a.svg"), .removeAll (s "/w/out/o/a.svg"),
       .write (s "/w/out/o/a.svg/k.svg"), .write (s "/w/out/o/a.svg/index.svg"), .write (s "/w/out/o/index.svg")] := by
  decide

end D2V.Path
