import D2V.Model.Path
import D2V.Proofs.RenderLemmas
/-! C34 — Multi-board output stays inside the output location, one file per board. -/
namespace D2V.Path

/-- **C34_inside_and_distinct** (the property on the safe region).
    Output path `/S₁/…/Sₖ` + extension (what `ms.AbsPath` hands to `render`: absolute, cleaned, ordinary elements, an
    extension as `filepath.Ext` yields it), a board tree in which every board name is an ordinary path element
    (`SafeB`: non-empty, no '/', not `.`/`..`), sibling names are pairwise different and a sub-board named `index`
    that sits directly in its parent's directory has sub-boards itself (`GoodB`).  Then, for the effect list of
    `render` — computed with `filepath.Ext/TrimSuffix/Join` exactly as the Go code does —
      1. every file written is the output path itself or lies below the directory `/S₁/…/Sₖ/`,
      2. every `os.RemoveAll` target is that directory or lies below it,
      3. no two boards are written to the same file. -/
theorem C34_inside_and_distinct (S : List Str) (e : Str) (root : Board)
    (hS : ∀ c ∈ S, Normal c) (hne : S ≠ []) (he : GoodExt e) (hsafe : SafeB root) (hgood : GoodB root) :
    (∀ p ∈ writesOf (renderB ('/' :: inter S ++ e) root),
        p = '/' :: inter S ++ e ∨ ∃ rest, p = '/' :: inter S ++ '/' :: rest) ∧
    (∀ d ∈ removesOf (renderB ('/' :: inter S ++ e) root),
        d = '/' :: inter S ∨ ∃ rest, d = '/' :: inter S ++ '/' :: rest) ∧
    (writesOf (renderB ('/' :: inter S ++ e) root)).Nodup := by
  rw [bridgeB e he root S hS hne hsafe, writesOf_map, removesOf_map]
  have hin : ∀ ev ∈ renderA S root, S <+: ev.path := fun ev hev =>
    List.IsPrefix.trans (prefix_boardPath S root) (insideB root S ev hev)
  have hnorm := normalB root S hS hsafe
  refine ⟨?_, ?_, ?_⟩
  · intro p hp
    obtain ⟨q, hq, rfl⟩ := List.mem_map.mp hp
    obtain ⟨ev, hev, hpath⟩ := mem_awrites hq
    have hpre := hin ev hev
    rw [hpath] at hpre
    rcases path_under S q hne hpre with h | ⟨t, ht⟩
    · left; simp only [List.cons.injEq, true_and] at h; simp [h]
    · right
      refine ⟨t ++ e, ?_⟩
      have : '/' :: inter q = '/' :: inter S ++ '/' :: t := by rw [← ht]; simp
      simp only [List.cons_append] at this ⊢
      rw [List.cons.injEq] at this
      simp [this.2]
  · intro d hd
    obtain ⟨q, hq, rfl⟩ := List.mem_map.mp hd
    obtain ⟨ev, hev, hpath⟩ := mem_aremoves hq
    have hpre := hin ev hev
    rw [hpath] at hpre
    rcases path_under S q hne hpre with h | ⟨t, ht⟩
    · left; exact h
    · right
      refine ⟨t, ?_⟩
      rw [← ht]; simp
  · apply nodup_map_on _ _ (distinctB root S hgood)
    intro x hx y hy hxy
    obtain ⟨ex, hex, hpx⟩ := mem_awrites hx
    obtain ⟨ey, hey, hpy⟩ := mem_awrites hy
    have nx : ∀ c ∈ x, Normal c := by rw [← hpx]; exact hnorm ex hex
    have ny : ∀ c ∈ y, Normal c := by rw [← hpy]; exact hnorm ey hey
    have px : S <+: x := by rw [← hpx]; exact hin ex hex
    have py : S <+: y := by rw [← hpy]; exact hin ey hey
    have x0 : x ≠ [] := by intro h; subst h; exact hne (List.prefix_nil.mp px)
    have y0 : y ≠ [] := by intro h; subst h; exact hne (List.prefix_nil.mp py)
    have h1 : inter x = inter y := by
      have := List.cons.inj hxy
      exact List.append_cancel_right this.2
    exact inter_inj x y nx ny x0 y0 h1

/-- **C34_written_files_survive**: under the hypotheses of `C34_inside_and_distinct` and when moreover no board name and
    no element of the output path ends in the output extension, no `os.RemoveAll d` is executed after a file at or
    below `d` has been written: together with the distinctness of the written paths, every board's file is still there
    when `render` returns — one file per board.  (Without the extra hypothesis: `C34_cx_ext_dir`.) -/
theorem C34_written_files_survive (S : List Str) (e : Str) (root : Board)
    (hS : ∀ c ∈ S, Normal c) (hne : S ≠ []) (he : GoodExt e) (hsafe : SafeB root) (hgood : GoodB root)
    (hSe : ∀ c ∈ S, NE e c) (hnames : NamesNE e root) :
    NoLateRemoveS (renderB ('/' :: inter S ++ e) root) := by
  rw [bridgeB e he root S hS hne hsafe]
  apply noLateRemoveS_map e he _ _ (noLateB root S hgood)
  intro ev hev
  have hn := normalB root S hS hsafe ev hev
  have hp : S <+: ev.path := List.IsPrefix.trans (prefix_boardPath S root) (insideB root S ev hev)
  refine ⟨fun c hc => (hn c hc).2.1, ?_, neB e he root S hSe hnames ev hev⟩
  intro h0
  rw [h0] at hp
  exact hne (List.prefix_nil.mp hp)

def s (x : String) : Str := x.toList

/-- the hypotheses are satisfiable and the conclusion is about real paths: root with layers `a` (with a sub-layer) and `b` -/
example :
    let root : Board := .mk [] false [.mk (s "a") false [.mk (s "k") false [] [] []] [] [], .mk (s "b") false [] [] []] [] []
    writesOf (renderB (s "/w/out/o.svg") root) =
      [s "/w/out/o/a/k.svg", s "/w/out/o/a/index.svg", s "/w/out/o/b.svg", s "/w/out/o/index.svg"] := by
  decide

def okTree : Board := .mk [] false [.mk (s "a") false [.mk (s "k") false [] [] []] [] [], .mk (s "b") false [] [] []] [] []

/-- that tree satisfies the hypotheses of `C34_inside_and_distinct` (with S = [w, out, o], e = .svg) -/
example : SafeB okTree ∧ GoodB okTree ∧ (∀ c ∈ [s "w", s "out", s "o"], Normal c) ∧ GoodExt (s ".svg") := by
  refine ⟨?_, ?_, ?_, ?_⟩
  · simp [okTree, SafeB, SafeL, Normal, NoSlash, s, dot, dotdot]
  · simp [okTree, GoodB, GoodL, namesOK, indexOK, s, Board.name, sIndex]
  · simp [Normal, NoSlash, s, dot, dotdot]
  · exact ⟨s "svg", by decide, by decide, by decide⟩

/-- … and those of `C34_written_files_survive` -/
example : NamesNE (s ".svg") okTree ∧ (∀ c ∈ [s "w", s "out", s "o"], NE (s ".svg") c) := by
  refine ⟨?_, ?_⟩
  · simp only [okTree, NamesNE, NamesNEL, NE, and_true]
    refine ⟨?_, ⟨?_, ?_⟩, ?_⟩ <;> decide
  · intro c hc
    simp only [List.mem_cons, List.not_mem_nil, or_false] at hc
    rcases hc with h | h | h <;> subst h <;> unfold NE <;> decide

/-- root board `x` with one layer named `../../victim` that has a sub-layer `z` -/
def cxDotdot : Board := .mk [] false [.mk (s "../../victim") false [.mk (s "z") false [] [] []] [] []] [] []

/-- **C34_cx_dotdot**: with `d2 in.d2 out/o.svg` the layer `../../victim` is rendered to `victim/index.svg`, its
    sub-layer to `victim/z.svg`, and `victim` is `RemoveAll`ed first — all outside `out/o/` (replayed on the CLI). -/
theorem C34_cx_dotdot :
    renderB (s "/w/out/o.svg") cxDotdot =
      [.removeAll (s "/w/out/o"), .removeAll (s "/w/victim"), .write (s "/w/victim/z.svg"),
       .write (s "/w/victim/index.svg"), .write (s "/w/out/o/index.svg")] ∧
    underOrEq (s "/w/out/o") (s "/w/victim") = false := by
  decide

/-- **C34_cx_index**: a layer named `index` is written to the file of the root board: two boards, one file. -/
theorem C34_cx_index :
    writesOf (renderB (s "/w/out/o.svg") (.mk [] false [.mk (s "index") false [] [] []] [] [])) =
      [s "/w/out/o/index.svg", s "/w/out/o/index.svg"] := by
  decide

/-- **C34_cx_ext_dir**: a layer `a` and a layer `a.svg` with sub-boards: the file `a.svg` of the first is
    `RemoveAll`ed to make room for the directory of the second. -/
theorem C34_cx_ext_dir :
    renderB (s "/w/out/o.svg")
        (.mk [] false [.mk (s "a") false [] [] [], .mk (s "a.svg") false [.mk (s "k") false [] [] []] [] []] [] []) =
      [.removeAll (s "/w/out/o"), .write (s "/w/out/o/a.svg"), .removeAll (s "/w/out/o/a.svg"),
       .write (s "/w/out/o/a.svg/k.svg"), .write (s "/w/out/o/a.svg/index.svg"), .write (s "/w/out/o/index.svg")] := by
  decide

end D2V.Path
