import D2V.Proofs.Watch44
/-!
  C44 — Watch mode always delivers the latest result to every client.

  Everything is about every run of `D2V.Watch.step` from `init`: any number of file changes, requests, compiles,
  clients connecting / leaving, in any interleaving.
    safety:   `no_lost_request`, `client_monotone`, `res_monotone`, `wakeup_or_fresh`
    the property at rest: `C44_quiescent_delivered`
    liveness: `mu_decreases` / `internal_terminates` — the program's own steps strictly decrease `mu`, so once the
              environment stops (no more edits, connections, drops) a quiescent state is reached after at most `mu s`
              steps (under any scheduler that keeps taking enabled steps).
-/
namespace D2V.Watch

theorem invs_of_run (steps : List Step) (s : State) (hr : run init steps = some s) :
    InvVer s ∧ covered s ∧ InvFresh s :=
  ⟨InvVer_run init s steps InvVer_init hr, covered_run init s steps InvVer_init covered_init hr,
    InvFresh_run init s steps InvVer_init InvFresh_init hr⟩

/-- `no_lost_request`: in every reachable state the latest content is covered — a notification or request is pending,
    the compile loop is about to read the file, or it holds / has published a result made from the latest version -/
theorem no_lost_request (steps : List Step) (s : State) (hr : run init steps = some s) : covered s :=
  (invs_of_run steps s hr).2.1

/-- `client_monotone`: what a client is sent never goes back to an older version -/
theorem client_monotone (steps : List Step) (s : State) (hr : run init steps = some s) :
    ∀ (i : Nat) (c : Client), s.clients[i]? = some c → c.sent.Pairwise (· ≤ ·) :=
  fun i c hc => ((invs_of_run steps s hr).1.clients i c hc).sorted

/-- results are published in compile order: `res` only moves forward -/
theorem res_monotone (s s' : State) (st : Step) (iv : InvVer s) (hs : step s st = some s') :
    ∀ r, s.res = some r → ∃ r', s'.res = some r' ∧ r ≤ r' := by
  intro r hres
  cases st <;> simp only [step, cstep] at hs
  case setRes v =>
    split at hs <;> try (simp at hs; done)
    rename_i w hcomp
    split at hs <;> try (simp at hs; done)
    rename_i hvw; subst hvw
    simp only [Option.some.injEq] at hs; subst hs
    exact ⟨v, rfl, iv.resComp v (by rw [hcomp]; rfl) r hres⟩
  all_goals
    ((repeat' (split at hs)) <;>
      (first
        | (simp at hs; done)
        | (simp only [Option.some.injEq] at hs; subst hs; exact ⟨r, hres, Nat.le_refl _⟩)))

/-- `wakeup_or_fresh`: every registered client has a wake-up pending, or is about to read the result, or holds /
    last sent the current result, or the broadcast of the current result has not reached it yet -/
theorem wakeup_or_fresh (steps : List Step) (s : State) (hr : run init steps = some s) :
    ∀ (i : Nat) (c : Client), s.clients[i]? = some c → c.pc.inMap = true → fresh s.res s.comp i c :=
  (invs_of_run steps s hr).2.2.fresh

/-- **C44 at rest.**  In a reachable state where none of the program's own steps is enabled, the published result is
    the one compiled from the latest content and every registered client's last message is that result. -/
theorem C44_quiescent_delivered (steps : List Step) (s : State) (hr : run init steps = some s)
    (hq : quiescent s = true) :
    s.res = some s.file
      ∧ ∀ (i : Nat) (c : Client), s.clients[i]? = some c → c.pc.inMap = true → c.sent.getLast? = some s.file := by
  obtain ⟨iv, hcov, hf⟩ := invs_of_run steps s hr
  obtain ⟨hd, hrp, hcomp, hch⟩ := quiescent_global s hf hq
  have hres : s.res = some s.file := by
    unfold covered at hcov
    simp only [hd, hrp, hcomp, hch, Comp.ver, Nat.lt_irrefl, Bool.false_eq_true, reduceCtorEq, false_or] at hcov
    exact hcov
  refine ⟨hres, ?_⟩
  intro i c hc hm
  obtain ⟨hp, hch', _, _⟩ := quiescent_client s hcomp hq i c hc hm
  have := hf.fresh i c hc hm
  rcases this with h | h | h | h | h | h | h
  · rw [hch'] at h; simp at h
  · rw [hp] at h; simp at h
  · rw [hp] at h; simp at h
  · rw [hp] at h; simp at h
  · rw [hp] at h; simp [CPc.held] at h
  · rw [← hres]; exact h.2
  · rw [hcomp] at h; simp [bcastPending] at h

/-- `quiescent` is exactly "none of the program's own steps is enabled" (the candidate list misses nothing) -/
theorem quiescent_exact (s : State) :
    quiescent s = true ↔ ∀ st, external s st = false → step s st = none := quiescent_iff s

/-- runs made of the program's own steps only -/
def runInternal : State → List Step → Option State
  | s, [] => some s
  | s, st :: r => if external s st then none else
    match step s st with
    | some s' => runInternal s' r
    | none => none

/-- the liveness half: the program cannot keep itself busy — at most `mu s` internal steps in a row -/
theorem internal_terminates (s s' : State) (steps : List Step) (hr : runInternal s steps = some s') :
    steps.length + mu s' ≤ mu s := by
  induction steps generalizing s with
  | nil => simp only [runInternal, Option.some.injEq] at hr; subst hr; simp
  | cons st r ih =>
    simp only [runInternal] at hr
    split at hr
    · simp at hr
    · rename_i he
      split at hr
      · rename_i s1 h1
        have := ih s1 hr
        have := mu_decreases s s1 st h1 (by simpa using he)
        simp only [List.length_cons]; omega
      · simp at hr

/-! non-vacuity: a concrete run that edits the file, compiles and delivers to one client ends quiescent -/
example : ((run init [.request, .admitC, .register 0, .sendReq, .recv, .compileStart, .fileRead, .compileEnd 0, .setRes 0,
    .bcastLock, .wake 0, .bcastDone, .readRes 0, .readLog 0 (some 0), .write 0 0 true, .recvWake 0, .woken 0,
    .readRes 0, .readLog 0 (some 0), .write 0 0 true]).map quiescent) = some true := by decide

end D2V.Watch
