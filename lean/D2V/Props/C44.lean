import D2V.Model.Watch
/-! C44 — placeholder, theorems follow -/
namespace D2V.Watch
theorem C44_init_quiescent_false : quiescent init = false := by decide
end D2V.Watch
