import D2V.Model.RangeSpec
import D2V.Proofs.ReaderInv
/-!
C02 — Source positions are exact in UTF-8 and UTF-16 modes.

Proved here, for every input (no bound on length):
* `adv_offset_utf8`   valid UTF-8 ⇒ the byte offset after advancing over the decoded runes = the input length
* `adv_offset_utf16`  in UTF-16 mode the offset = the number of UTF-16 code units of the text (surrogate pairs count 2)
* `adv_line_col`      line = number of newlines passed; column = offset − offset of the current line's start
* `subtract_advance` / `advance_subtract`   `Subtract` inverts `Advance` on every rune but the newline
* `counted_eq_true_*` the positions the parser counts are exactly the positions of the measured text
                      (always in UTF-16 mode; in UTF-8 mode iff no byte was replaced by U+FFFD)
* `C02_cx_invalid_utf8`  the 6-byte input `a\xffb: c` makes the model (as the Go parser) report a file range
                      ending at byte 8: the counterexample to "lies inside the input" for invalid UTF-8
The statement about every range of every node (`C02_full_statement`) is kept visible below; what is proved of it
is named `…_partial`.
-/
namespace D2V.Text

/-! ### Advance / Subtract -/

theorem subtract_advance (p : Pos) (c : Char) (u16 : Bool) (h : c ≠ '\n') :
    (p.advance c u16).subtract c u16 = .ok p := by
  simp [Pos.advance, Pos.subtract, h]

theorem advance_subtract (p q : Pos) (c : Char) (u16 : Bool) (h : p.subtract c u16 = .ok q) :
    q.advance c u16 = p := by
  unfold Pos.subtract at h
  split at h
  · cases h
  · rename_i hc
    cases h
    simp [Pos.advance, hc]

/-- the only failing `Subtract` is the newline -/
theorem subtract_error_iff (p : Pos) (c : Char) (u16 : Bool) :
    (∃ e, p.subtract c u16 = .error e) ↔ c = '\n' := by
  unfold Pos.subtract
  constructor
  · intro ⟨e, h⟩
    split at h
    · assumption
    · cases h
  · intro h
    exact ⟨.subtractNewline, by simp [h]⟩

def sizeSum (u16 : Bool) (cs : List Char) : Nat := (cs.map (runeSize u16)).sum

theorem advanceString_nil (p : Pos) (u16 : Bool) : p.advanceString [] u16 = p := rfl
theorem advanceString_cons (p : Pos) (c : Char) (cs : List Char) (u16 : Bool) :
    p.advanceString (c :: cs) u16 = (p.advance c u16).advanceString cs u16 := rfl

theorem advanceString_append (p : Pos) (xs ys : List Char) (u16 : Bool) :
    p.advanceString (xs ++ ys) u16 = (p.advanceString xs u16).advanceString ys u16 := by
  simp [Pos.advanceString, List.foldl_append]

/-- closed form of `SubtractString` on a newline-free string: every rune's size leaves column and offset, the line stays -/
theorem subtractString_closed (p : Pos) (cs : List Char) (u16 : Bool) (h : '\n' ∉ cs) :
    p.subtractString cs u16 = .ok ⟨p.line, p.col - sizeSum u16 cs, p.byte - sizeSum u16 cs⟩ := by
  induction cs generalizing p with
  | nil => simp [Pos.subtractString, sizeSum]; rfl
  | cons c cs ih =>
    have hc : c ≠ '\n' := fun e => h (by simp [e])
    have hcs : '\n' ∉ cs := fun e => h (by simp [e])
    have hstep : p.subtractString (c :: cs) u16 =
        (⟨p.line, p.col - runeSize u16 c, p.byte - runeSize u16 c⟩ : Pos).subtractString cs u16 := by
      simp only [Pos.subtractString, List.foldlM_cons, Pos.subtract, hc, if_false]
      rfl
    rw [hstep, ih _ hcs]
    simp only [sizeSum, List.map_cons, List.sum_cons]
    congr 2 <;> omega

/-- closed form of `AdvanceString` on a newline-free string -/
theorem advanceString_closed (p : Pos) (cs : List Char) (u16 : Bool) (h : '\n' ∉ cs) :
    p.advanceString cs u16 = ⟨p.line, p.col + sizeSum u16 cs, p.byte + sizeSum u16 cs⟩ := by
  induction cs generalizing p with
  | nil => simp [advanceString_nil, sizeSum]
  | cons c cs ih =>
    have hc : c ≠ '\n' := fun e => h (by simp [e])
    have hcs : '\n' ∉ cs := fun e => h (by simp [e])
    rw [advanceString_cons, ih _ hcs]
    simp only [Pos.advance, hc, if_false, sizeSum, List.map_cons, List.sum_cons]
    congr 1 <;> omega

/-- **string round trip** (what `rewind`/`replay` of the parser rely on): advancing over any newline-free string — any
    length, any runes, either position mode — and subtracting the same string gives back the position, and the other way
    round; the newline is the only rune on which `SubtractString` fails (`subtract_error_iff`) -/
theorem subtractString_advanceString (p : Pos) (cs : List Char) (u16 : Bool) (h : '\n' ∉ cs) :
    (p.advanceString cs u16).subtractString cs u16 = .ok p := by
  rw [subtractString_closed _ cs u16 h, advanceString_closed p cs u16 h]
  congr 2 <;> simp

theorem advanceString_subtractString (p q : Pos) (cs : List Char) (u16 : Bool) (h : '\n' ∉ cs)
    (hq : p.subtractString cs u16 = .ok q) : q.advanceString cs u16 = p := by
  rw [subtractString_closed p cs u16 h] at hq
  cases hq
  rw [advanceString_closed _ cs u16 h]
  cases p
  simp

example : (Pos.zero.advanceString "a→𝔘b".toList true).subtractString "a→𝔘b".toList true = .ok Pos.zero :=
  subtractString_advanceString _ _ _ (by decide)

theorem advance_byte (p : Pos) (c : Char) (u16 : Bool) : (p.advance c u16).byte = p.byte + runeSize u16 c := by
  unfold Pos.advance; split <;> rfl

theorem advanceString_byte (p : Pos) (cs : List Char) (u16 : Bool) :
    (p.advanceString cs u16).byte = p.byte + sizeSum u16 cs := by
  induction cs generalizing p with
  | nil => simp [advanceString_nil, sizeSum]
  | cons c cs ih =>
    rw [advanceString_cons, ih, advance_byte]
    simp [sizeSum]
    omega

/-! ### UTF-8: offset = number of input bytes -/

theorem decodeAux_sizes (bs : List UInt8) : ∀ skip, skip ≤ bs.length →
    ((decodeAux skip bs).map (·.2)).sum + skip = bs.length := by
  induction bs with
  | nil => intro skip h; simp at h; subst h; simp [decodeAux]
  | cons b rest ih =>
    intro skip h
    cases skip with
    | zero =>
      have hs := decode1_size b rest
      simp only [decodeAux, List.map_cons, List.sum_cons, List.length_cons]
      have := ih ((decode1 b rest).2 - 1) (by omega)
      omega
    | succ k =>
      simp only [decodeAux, List.length_cons]
      have := ih k (by simpa using h)
      omega

theorem decode_sizes (bs : List UInt8) : ((decodeRunes bs).map (·.2)).sum = bs.length := by
  have := decodeAux_sizes bs 0 (Nat.zero_le _)
  simpa [decodeRunes] using this

theorem sizeSum_valid (ds : List (Char × Nat)) (h : ds.all (fun p => p.2 == utf8Len p.1) = true) :
    sizeSum false (ds.map (·.1)) = (ds.map (·.2)).sum := by
  induction ds with
  | nil => rfl
  | cons d ds ih =>
    simp only [List.all_cons, Bool.and_eq_true, beq_iff_eq] at h
    simp only [sizeSum, List.map_cons, List.sum_cons, runeSize] at *
    rw [ih h.2]
    simp [h.1]

/-- **adv_offset_utf8**: on valid UTF-8 the parser's byte offset after the whole input is the input length -/
theorem adv_offset_utf8 (bs : List UInt8) (h : validUTF8 bs = true) :
    (Pos.zero.advanceString (runesOf bs) false).byte = bs.length := by
  rw [advanceString_byte]
  simp only [Pos.zero, runesOf]
  rw [sizeSum_valid _ h, decode_sizes]
  simp

/-- every *prefix that ends on a rune boundary* as well: the offset after `k` runes is the number of bytes those
    runes occupy -/
theorem adv_offset_utf8_prefix (bs : List UInt8) (h : validUTF8 bs = true) (k : Nat) :
    (Pos.zero.advanceString ((runesOf bs).take k) false).byte = (((decodeRunes bs).take k).map (·.2)).sum := by
  rw [advanceString_byte]
  have hv : ((decodeRunes bs).take k).all (fun p => p.2 == utf8Len p.1) = true := by
    simp only [validUTF8, List.all_eq_true] at h ⊢
    intro x hx
    exact h x (List.mem_of_mem_take hx)
  simp only [Pos.zero, runesOf, ← List.map_take]
  rw [sizeSum_valid _ hv]
  simp

/-! ### UTF-16: offset = number of code units -/

theorem encodeUTF16One_length (c : Char) : (encodeUTF16One c).length = utf16Len c := by
  unfold encodeUTF16One utf16Len
  simp only
  split <;> simp

/-- **adv_offset_utf16**: in UTF-16 mode the offset is the number of UTF-16 code units of the text read so far
    (an astral rune, encoded as a surrogate pair, counts 2) -/
theorem adv_offset_utf16 (cs : List Char) :
    (Pos.zero.advanceString cs true).byte = (encodeUTF16 cs).length := by
  rw [advanceString_byte]
  have : sizeSum true cs = (encodeUTF16 cs).length := by
    induction cs with
    | nil => rfl
    | cons c cs ih =>
      simp only [sizeSum, encodeUTF16, List.map_cons, List.sum_cons, List.flatMap_cons, List.length_append,
        encodeUTF16One_length] at ih ⊢
      simp only [runeSize, if_true]
      omega
  simp [Pos.zero, this]

theorem utf16Len_astral (c : Char) : utf16Len c = 2 ↔ 0x10000 ≤ c.val.toNat := by
  unfold utf16Len; split <;> omega

/-! ### line and column -/

/-- the text after the last newline -/
def lastLine (cs : List Char) : List Char := (cs.reverse.takeWhile (· ≠ '\n')).reverse

theorem advance_line (p : Pos) (c : Char) (u16 : Bool) :
    (p.advance c u16).line = p.line + (if c = '\n' then 1 else 0) := by
  unfold Pos.advance; split <;> simp

/-- **adv_line_col** (line): the line is the number of newlines passed -/
theorem adv_line (p : Pos) (cs : List Char) (u16 : Bool) :
    (p.advanceString cs u16).line = p.line + cs.count '\n' := by
  induction cs generalizing p with
  | nil => simp [advanceString_nil]
  | cons c cs ih =>
    rw [advanceString_cons, ih, advance_line]
    by_cases h : c = '\n'
    · subst h; simp; omega
    · simp [h]

/-- column after a text without newline: the column before plus its size -/
theorem adv_col_noNL (p : Pos) (cs : List Char) (u16 : Bool) (h : '\n' ∉ cs) :
    (p.advanceString cs u16).col = p.col + sizeSum u16 cs := by
  induction cs generalizing p with
  | nil => simp [advanceString_nil, sizeSum]
  | cons c cs ih =>
    have hc : c ≠ '\n' := fun e => h (by simp [e])
    have hcs : '\n' ∉ cs := fun e => h (by simp [e])
    rw [advanceString_cons, ih _ hcs]
    simp [Pos.advance, hc, sizeSum]
    omega

/-- **adv_line_col** (column): right after a newline the column is 0, so the column is always the size of the
    text since the last newline — i.e. offset − offset of the line start -/
theorem adv_col (xs ys : List Char) (u16 : Bool) (h : '\n' ∉ ys) :
    (Pos.zero.advanceString (xs ++ '\n' :: ys) u16).col = sizeSum u16 ys := by
  rw [advanceString_append, advanceString_cons, adv_col_noNL _ _ _ h]
  simp [Pos.advance]

theorem adv_col_firstLine (ys : List Char) (u16 : Bool) (h : '\n' ∉ ys) :
    (Pos.zero.advanceString ys u16).col = sizeSum u16 ys := by
  rw [adv_col_noNL _ _ _ h]; simp [Pos.zero]

/-- column = offset − offset of the line start -/
theorem adv_col_eq_byte_diff (xs ys : List Char) (u16 : Bool) (h : '\n' ∉ ys) :
    (Pos.zero.advanceString (xs ++ '\n' :: ys) u16).col =
      (Pos.zero.advanceString (xs ++ '\n' :: ys) u16).byte - (Pos.zero.advanceString (xs ++ ['\n']) u16).byte := by
  rw [adv_col _ _ _ h]
  have e : xs ++ '\n' :: ys = (xs ++ ['\n']) ++ ys := by simp
  rw [e, advanceString_append, advanceString_byte _ ys]
  omega

/-! ### the positions the parser counts vs the positions of the measured text -/

theorem advanceSized_eq_advance_u16 (p : Pos) (c : Char) (n : Nat) :
    p.advanceSized c n true = p.advance c true := by
  simp [Pos.advanceSized, Pos.advance, runeSize]

theorem advanceSized_eq_advance_valid (p : Pos) (c : Char) :
    p.advanceSized c (utf8Len c) false = p.advance c false := by
  simp [Pos.advanceSized, Pos.advance, runeSize]

theorem counted_eq_true_go_u16 (ds : List (Char × Nat)) (p : Pos) :
    truePositions.go true ds p = countedPositions.go true (ds.map (·.1)) p := by
  induction ds generalizing p with
  | nil => rfl
  | cons d ds ih =>
    obtain ⟨c, n⟩ := d
    simp only [truePositions.go, List.map_cons, countedPositions.go, advanceSized_eq_advance_u16, ih]

/-- in UTF-16 mode the parser's positions are the measured ones for *every* byte string -/
theorem counted_eq_true_u16 (bs : List UInt8) :
    truePositions (decodeRunes bs) true = countedPositions (runesOf bs) true := by
  simp [truePositions, countedPositions, runesOf, counted_eq_true_go_u16]

theorem counted_eq_true_go_u8 (ds : List (Char × Nat)) (h : ds.all (fun p => p.2 == utf8Len p.1) = true) (p : Pos) :
    truePositions.go false ds p = countedPositions.go false (ds.map (·.1)) p := by
  induction ds generalizing p with
  | nil => rfl
  | cons d ds ih =>
    obtain ⟨c, n⟩ := d
    simp only [List.all_cons, Bool.and_eq_true, beq_iff_eq] at h
    obtain ⟨h1, h2⟩ := h
    subst h1
    simp only [truePositions.go, List.map_cons, countedPositions.go, advanceSized_eq_advance_valid, ih h2]

/-- in UTF-8 mode they are the measured ones when the input is valid UTF-8 -/
theorem counted_eq_true_u8 (bs : List UInt8) (h : validUTF8 bs = true) :
    truePositions (decodeRunes bs) false = countedPositions (runesOf bs) false := by
  simp [truePositions, countedPositions, runesOf, counted_eq_true_go_u8 _ h]

/-- every counted position is the advance over a prefix of the runes -/
theorem counted_go_mem (cs : List Char) (u16 : Bool) (p q : Pos) (h : q ∈ countedPositions.go u16 cs p) :
    ∃ k, q = p.advanceString (cs.take k) u16 := by
  induction cs generalizing p with
  | nil =>
    simp [countedPositions.go] at h
    exact ⟨0, by simp [h, advanceString_nil]⟩
  | cons c cs ih =>
    simp only [countedPositions.go, List.mem_cons] at h
    rcases h with h | h
    · exact ⟨0, by simp [h, advanceString_nil]⟩
    · obtain ⟨k, hk⟩ := ih _ h
      exact ⟨k + 1, by simp [hk, advanceString_cons]⟩

theorem prefix_mem_counted_go (cs : List Char) (u16 : Bool) (p : Pos) (k : Nat) :
    p.advanceString (cs.take k) u16 ∈ countedPositions.go u16 cs p := by
  induction cs generalizing p k with
  | nil => simp [countedPositions.go, advanceString_nil]
  | cons c cs ih =>
    cases k with
    | zero => simp [countedPositions.go, advanceString_nil]
    | succ k =>
      simp only [List.take_succ_cons, advanceString_cons, countedPositions.go, List.mem_cons]
      exact Or.inr (ih _ k)

/-- `posOk` against the counted table says exactly: "the advance over some prefix of the runes" -/
theorem posOk_counted_iff (cs : List Char) (u16 : Bool) (q : Pos) :
    posOk (countedPositions cs u16) q = true ↔ ∃ k, q = Pos.zero.advanceString (cs.take k) u16 := by
  simp only [posOk, List.contains_iff_mem, countedPositions]
  constructor
  · exact counted_go_mem cs u16 _ q
  · rintro ⟨k, rfl⟩
    exact prefix_mem_counted_go cs u16 _ k

/-! ### the property sentence on the model, and where the unchanged tree breaks it -/

/-- the C02 range Spec evaluated on what the *model* returns for `Parse`, against the positions of the measured
    input (`none`: the model crashed) -/
def modelRangesOk (cfg : Cfg) (isNum : String → Bool) (bs : List UInt8) (u16opt : Bool) : Option Bool :=
  match parseFile cfg isNum bs u16opt with
  | .error _ => none
  | .ok o =>
    let bom := match bs with | 0xFF :: 0xFE :: _ => true | _ => false
    let sized : List (Char × Nat) := if bom then (entryRunes bs u16opt).1.map fun r => (r, 0) else decodeRunes bs
    some (rangesOk (truePositions sized (entryRunes bs u16opt).2) o.ast o.errs)

/-- **the full statement** (kept visible; false on the unchanged tree, see the counterexamples):
    every range of every node and error of every parse satisfies the Spec -/
def C02_full_statement : Prop :=
  ∀ (cfg : Cfg) (isNum : String → Bool) (bs : List UInt8) (u16 : Bool),
    modelRangesOk cfg isNum bs u16 = some true ∨ modelRangesOk cfg isNum bs u16 = none

/-- the end offset of the root node -/
def rootStopByte (x : Except Crash Outcome) : Option Int :=
  match x with
  | .ok ⟨some (.node _ r _), _, _⟩ => some r.stop.byte
  | _ => none

def noNum : String → Bool := fun _ => false

/-- **counterexample (invalid UTF-8)**: the 6-byte input `a\xffb: c` yields a file range ending at byte 8: the
    invalid byte is read as U+FFFD and counted as `RuneLen(U+FFFD) = 3` -/
theorem C02_cx_invalid_utf8 :
    rootStopByte (parseFile ⟨false, false, false⟩ noNum [97, 255, 98, 58, 32, 99] false) = some 8 ∧
    modelRangesOk ⟨false, false, false⟩ noNum [97, 255, 98, 58, 32, 99] false = some false := by
  decide +kernel

/-- the same input in UTF-16 mode is fine (one unit per replaced byte) -/
theorem C02_invalid_utf8_u16_ok : modelRangesOk ⟨false, false, false⟩ noNum [97, 255, 98, 58, 32, 99] true = some true := by
  decide +kernel

/-- **counterexample (array end)**: `x: [a;b;c;d]⏎` — with `Range.End` taken from `readerPos` the array's range
    leaves its key's range; taken from `pos` it does not -/
theorem C02_cx_array_end :
    modelRangesOk ⟨false, false, false⟩ noNum [120, 58, 32, 91, 97, 59, 98, 59, 99, 59, 100, 93, 10] false = some false ∧
    modelRangesOk ⟨false, true, false⟩ noNum [120, 58, 32, 91, 97, 59, 98, 59, 99, 59, 100, 93, 10] false = some true := by
  decide +kernel

/-- **counterexample (substitution)**: `x: ${a}` — the unquoted string ends right after `$`, before its own
    substitution child ends -/
theorem C02_cx_subst_end : modelRangesOk ⟨false, true, false⟩ noNum [120, 58, 32, 36, 123, 97, 125] false = some false := by
  decide +kernel

/-- **counterexample (error range)**: `a: \⏎;` — "missing value after colon" starts at column −1 -/
theorem C02_cx_missing_value : modelRangesOk ⟨false, true, false⟩ noNum [97, 58, 32, 92, 10, 59] false = some false := by
  decide +kernel

/-- non-vacuity: ordinary inputs, multi-byte and astral included, satisfy the Spec in both modes
    (`é: "😀" -> x`-like text: `é😀: a` as bytes) -/
example : modelRangesOk ⟨false, true, false⟩ noNum [195, 169, 240, 159, 152, 128, 58, 32, 97] false = some true ∧
    modelRangesOk ⟨false, true, false⟩ noNum [195, 169, 240, 159, 152, 128, 58, 32, 97] true = some true := by
  decide +kernel

/-- **C02_ranges_ok, partial**: what *is* proved about every range the parser can ever record from its reader
    state.  After any disciplined run of reader operations on any input, `pos`, `lookaheadPos` and `readerPos`
    are admissible positions of the Spec (`posOk` against the counted table), hence — `counted_eq_true_*` — real
    positions of the measured text (always in UTF-16 mode, on valid UTF-8 in UTF-8 mode).  Not proved: that
    every `Range.Start/End` of the tree is such a reader position at the right moment (sampled by the
    correspondence stream and evaluated on the implementation by the Spec). -/
theorem C02_reader_positions_ok_partial {u16 : Bool} {cfg : Cfg} {input : List Char} {fuel : Nat} {ops : List ROp}
    {s : PState} (r : Run ops (PState.init u16 cfg input fuel) s) (hu : s.u16 = u16) :
    posOk (countedPositions input u16) s.pos = true ∧ posOk (countedPositions input u16) s.lookaheadPos = true ∧
    posOk (countedPositions input u16) s.readerPos = true := by
  obtain ⟨⟨k1, h1⟩, ⟨k2, h2⟩, ⟨k3, h3⟩⟩ := reader_positions_prefix r
  rw [hu] at h1 h2 h3
  exact ⟨(posOk_counted_iff _ _ _).mpr ⟨k1, h1⟩, (posOk_counted_iff _ _ _).mpr ⟨k2, h2⟩,
    (posOk_counted_iff _ _ _).mpr ⟨k3, h3⟩⟩

/-- **C02, partial (range starts)**: a node's `Range.Start` is computed as `p.pos.Subtract(<opening delimiter>)` right
    after the delimiter was consumed; under the reader invariant that is the position before the delimiter and it
    satisfies the Spec's position clause -/
theorem C02_start_before_delimiter_partial {input : List Char} {s : PState} {c : Char} {tl : List Char} {u16 : Bool}
    (h : RInv input s) (hu : s.u16 = u16) (hc : s.consumed = c :: tl) (hn : c ≠ '\n') :
    ∃ q, s.pos.subtract c u16 = .ok q ∧ posOk (countedPositions input u16) q = true := by
  obtain ⟨h1, k, h2⟩ := subtract_last_consumed h hc hn
  rw [hu] at h1 h2
  exact ⟨_, h1, (posOk_counted_iff _ _ _).mpr ⟨k, h2⟩⟩

end D2V.Text
