import D2V.Model.RangeSpec
namespace D2V.Text

theorem subtract_advance (p : Pos) (c : Char) (u16 : Bool) (h : c ≠ '\n') :
    (p.advance c u16).subtract c u16 = .ok p := by
  simp [Pos.advance, Pos.subtract, h]

end D2V.Text
