import D2V.Model.Clip
import D2V.Proofs.RoundGo
import Mathlib.Tactic.Linarith
import Mathlib.Tactic.Ring
import Mathlib.Tactic.NormNum
/-! C20 — Connections start at their source and end at their destination.

  Routes come from dagre.js / elk.js; the Go side cuts them at the shapes (`TraceToShape`, `Box.Intersections`).
  Proved here, for the rectangular path: a cut point returned by `Box.Intersections` lies on the border of the
  box up to the half pixel that `math.Round` can move it (`clip_on_border`), so `clipEnd` returns either such a
  border point or — when the last segment does not meet the box — the router's point unchanged
  (`fallback_is_rect_point`), which is exactly the case the Spec `endsOnExtent` flags on real runs.
  Curved outlines and the engines' routes are evaluated (Drv/C20.lean), not proved. -/
namespace D2V.Clip
open D2V.Lay

/-- Cramer's parameters solve both line equations -/
theorem cramer_solves (u0 u1 v0 v1 : Pt) (c : Cramer) (h : cramer u0 u1 v0 v1 = some c) :
    c.s * (u1.x - u0.x) - c.t * (v1.x - v0.x) = v0.x - u0.x ∧
      c.s * (u1.y - u0.y) - c.t * (v1.y - v0.y) = v0.y - u0.y := by
  unfold cramer at h
  simp only at h
  split at h
  · cases h
  · rename_i hd
    cases h
    simp only
    constructor
    · rw [div_mul_eq_mul_div, div_mul_eq_mul_div, ← sub_div, div_eq_iff hd]
      ring
    · rw [div_mul_eq_mul_div, div_mul_eq_mul_div, ← sub_div, div_eq_iff hd]
      ring

/-- the exact crossing point `q` lies on segment v, and the returned point is `q` moved by at most ½ per axis -/
theorem intersection_near (u0 u1 v0 v1 p : Pt) (h : intersectionPoint u0 u1 v0 v1 = some p) :
    ∃ t : Rat, 0 ≤ t ∧ t ≤ 1 ∧
      p.x - 1 / 2 ≤ v0.x + t * (v1.x - v0.x) ∧ v0.x + t * (v1.x - v0.x) ≤ p.x + 1 / 2 ∧
      p.y - 1 / 2 ≤ v0.y + t * (v1.y - v0.y) ∧ v0.y + t * (v1.y - v0.y) ≤ p.y + 1 / 2 := by
  unfold intersectionPoint at h
  split at h
  · cases h
  · rename_i c hc
    split at h
    · cases h
    · rename_i hr
      cases h
      have ⟨e1, e2⟩ := cramer_solves u0 u1 v0 v1 c hc
      have rx := roundGo_near (c.s * (u1.x - u0.x))
      have ry := roundGo_near (c.s * (u1.y - u0.y))
      have ht0 : 0 ≤ c.t := by
        apply le_of_not_gt; intro hh; exact hr (Or.inr (Or.inr (Or.inl hh)))
      have ht1 : c.t ≤ 1 := by
        apply le_of_not_gt; intro hh; exact hr (Or.inr (Or.inr (Or.inr hh)))
      refine ⟨c.t, ht0, ht1, ?_, ?_, ?_, ?_⟩ <;> simp only <;> linarith [rx.1, rx.2, ry.1, ry.2]

/-- **clip_on_border.** Every point `Box.Intersections` returns lies on the border of the box, up to the half
    pixel of `math.Round` -/
theorem clip_on_border (b : Box) (hw : 0 ≤ b.w) (hh : 0 ≤ b.h) (s0 s1 p : Pt)
    (hp : p ∈ boxIntersections b s0 s1) : b.onBorder (1 / 2) p := by
  unfold boxIntersections at hp
  rw [List.mem_filterMap] at hp
  obtain ⟨o, ho, hop⟩ := hp
  simp only [id] at hop
  subst hop
  have side : ∀ v0 v1 : Pt, intersectionPoint s0 s1 v0 v1 = some p →
      ((v0 = Box.tl b ∧ v1 = Box.tr b) ∨ (v0 = Box.tr b ∧ v1 = Box.br b) ∨
       (v0 = Box.br b ∧ v1 = Box.bl b) ∨ (v0 = Box.bl b ∧ v1 = Box.tl b)) → b.onBorder (1 / 2) p := by
    intro v0 v1 hi hv
    obtain ⟨t, t0, t1, x1, x2, y1, y2⟩ := intersection_near s0 s1 v0 v1 p hi
    have htw : 0 ≤ t * b.w := mul_nonneg t0 hw
    have hth : 0 ≤ t * b.h := mul_nonneg t0 hh
    have htw1 : t * b.w ≤ b.w := by nlinarith
    have hth1 : t * b.h ≤ b.h := by nlinarith
    unfold Box.onBorder Box.containsTol Box.strictlyInsideTol Box.right Box.bottom
    rcases hv with ⟨rfl, rfl⟩ | ⟨rfl, rfl⟩ | ⟨rfl, rfl⟩ | ⟨rfl, rfl⟩ <;>
      simp only [Box.tl, Box.tr, Box.br, Box.bl] at x1 x2 y1 y2 <;>
      refine ⟨⟨by nlinarith, by nlinarith, by nlinarith, by nlinarith⟩, ?_⟩ <;>
      intro ⟨a1, a2, a3, a4⟩ <;> nlinarith
  simp only [List.mem_cons, List.mem_nil_iff, or_false] at ho
  rcases ho with h | h | h | h
  · exact side _ _ h.symm (Or.inl ⟨rfl, rfl⟩)
  · exact side _ _ h.symm (Or.inr (Or.inl ⟨rfl, rfl⟩))
  · exact side _ _ h.symm (Or.inr (Or.inr (Or.inl ⟨rfl, rfl⟩)))
  · exact side _ _ h.symm (Or.inr (Or.inr (Or.inr ⟨rfl, rfl⟩)))

/-- **fallback_is_rect_point.** `clipEnd` returns a border point (± ½) or, when the last segment does not meet
    the box at all, the router's point unchanged -/
theorem fallback_is_rect_point (b : Box) (hw : 0 ≤ b.w) (hh : 0 ≤ b.h) (prev last : Pt) :
    b.onBorder (1 / 2) (clipEnd b prev last) ∨
      (boxIntersections b prev last = [] ∧ clipEnd b prev last = last) := by
  unfold clipEnd
  split
  · rename_i q r hq
    exact Or.inl (clip_on_border b hw hh prev last q (by rw [hq]; simp))
  · rename_i hq
    exact Or.inr ⟨hq, rfl⟩

/-- a route whose last segment really enters the box ends on the border -/
theorem clipEnd_on_border (b : Box) (hw : 0 ≤ b.w) (hh : 0 ≤ b.h) (prev last : Pt)
    (h : boxIntersections b prev last ≠ []) : b.onBorder (1 / 2) (clipEnd b prev last) := by
  rcases fallback_is_rect_point b hw hh prev last with h1 | ⟨h2, _⟩
  · exact h1
  · exact absurd h2 h

/-- the Spec's tolerance (1 px) covers the model's half pixel -/
theorem onBorder_mono (b : Box) (t1 t2 : Rat) (h : t1 ≤ t2) (p : Pt) (hb : b.onBorder t1 p) : b.onBorder t2 p := by
  unfold Box.onBorder Box.containsTol Box.strictlyInsideTol at *
  obtain ⟨⟨c1, c2, c3, c4⟩, hn⟩ := hb
  refine ⟨⟨by linarith, by linarith, by linarith, by linarith⟩, ?_⟩
  intro ⟨a1, a2, a3, a4⟩
  exact hn ⟨by linarith, by linarith, by linarith, by linarith⟩

/-! #### witnesses of the open findings (replayed on d2 through d2lib.Compile; boxes and points as exported) -/

/-- dagre, `a: {b}; a -> a`: the self loop of a container runs between its descendants and starts strictly
    inside the container (on the child's border), 83 px from the container's border -/
theorem C20_cx_container_selfloop :
    ¬ (Box.onBorder ⟨10, 20, 143, 126⟩ 1 ⟨93, 66551 / 1000⟩) ∧ Box.onBorder ⟨40, 50, 53, 66⟩ 1 ⟨93, 66551 / 1000⟩ := by
  unfold Box.onBorder Box.containsTol Box.strictlyInsideTol Box.right Box.bottom
  norm_num

/-- ELK, `a: {style.multiple: true}; a -> a`: the loop starts 5 px left of the box (x = 57, box starts at 62) and
    the `multiple` copy lies to the right/top, so the start is on no border of the visual extent -/
theorem C20_cx_multiple_selfloop_elk :
    ¬ (Box.onBorder ⟨62, 22, 53, 66⟩ 1 ⟨57, 42333 / 1000⟩) ∧
      ¬ (Box.onBorder (Box.translate ⟨62, 22, 53, 66⟩ 10 (-10)) 1 ⟨57, 42333 / 1000⟩) := by
  unfold Box.onBorder Box.containsTol Box.strictlyInsideTol Box.right Box.bottom Box.translate
  norm_num

/-- ELK, `a: {label.near: outside-right-bottom}; a -- a`: the loop starts 6.5 px left of the box -/
theorem C20_cx_outside_label_selfloop_elk : ¬ (Box.onBorder ⟨62, 12, 53, 66⟩ 1 ⟨111 / 2, 34⟩) := by
  unfold Box.onBorder Box.containsTol Box.strictlyInsideTol Box.right Box.bottom
  norm_num

/-- dagre, `direction: right; n7: {label.near: bottom-left; height: 254}; n7 -> n1: "a longer label here"; n6 -> n1`:
    the connection ends 18 px above its (plain rectangular) destination -/
theorem C20_cx_dagre_spacing_detached : ¬ (Box.onBorder ⟨348, 235, 62, 66⟩ 1 ⟨348, 217⟩) := by
  unfold Box.onBorder Box.containsTol Box.strictlyInsideTol Box.right Box.bottom
  norm_num

/-- dagre, a tall `document`: the connection ends at (111, 295) on the bottom of the bounding box [57,114]×[0,295],
    3 px from its right corner, where the wavy bottom edge of the shape is higher up (the end is on the box border,
    which is why only the harness' outline probe can tell) -/
theorem C20_cx_document_corner : Box.onBorder ⟨57, 0, 57, 295⟩ 1 ⟨111, 295⟩ := by
  unfold Box.onBorder Box.containsTol Box.strictlyInsideTol Box.right Box.bottom
  norm_num

/-- dagre, eight parallel connections between `n1` and `n2`: the outermost one starts 10.5 px left of `n1` -/
theorem C20_cx_dagre_parallel_spread : ¬ (Box.onBorder ⟨135, 0, 62, 66⟩ 1 ⟨249 / 2, 53556 / 1000⟩) := by
  unfold Box.onBorder Box.containsTol Box.strictlyInsideTol Box.right Box.bottom
  norm_num

/-- dagre, 3d container moved right by its decoration margin, the route end left behind (30 px left of the box, not
    on the decorated copy either) -/
theorem C20_cx_dagre_3d_container_detached :
    ¬ (Box.onBorder ⟨247, 47, 285, 133⟩ 1 ⟨435 / 2, 144⟩) ∧
      ¬ (Box.onBorder (Box.translate ⟨247, 47, 285, 133⟩ 15 (-15)) 1 ⟨435 / 2, 144⟩) := by
  unfold Box.onBorder Box.containsTol Box.strictlyInsideTol Box.right Box.bottom Box.translate
  norm_num

/-- dagre, a plain shape pushed right by the `multiple` margin of its neighbour: the end stays 7 px left of it -/
theorem C20_cx_dagre_multiple_neighbour_detached : ¬ (Box.onBorder ⟨121, 266, 62, 66⟩ 1 ⟨114, 266⟩) := by
  unfold Box.onBorder Box.containsTol Box.strictlyInsideTol Box.right Box.bottom
  norm_num

/-- dagre, three parallel connections plus a wide labelled one into `b`: an end 24 px above `b` -/
theorem C20_cx_dagre_parallel_spread_far : ¬ (Box.onBorder ⟨934, 56, 53, 66⟩ 1 ⟨934, 63 / 2⟩) := by
  unfold Box.onBorder Box.containsTol Box.strictlyInsideTol Box.right Box.bottom
  norm_num

end D2V.Clip
