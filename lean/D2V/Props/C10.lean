import D2V.Model.SemCore
/-! C10 — Later declarations override earlier ones; null removes. (theorems over the reference interpreter `D2V.Sem`) -/
namespace D2V.Sem
open D2V.SemG (fold)

/-- the lookup used by `getField`/`ensureField` depends on a name only through its case-folded text and, for reserved
    keywords, its quotedness: two spellings with the same key find the same field -/
theorem findIn_ci (ir : IR) (m : Owner) (a b : Name)
    (hs : fold a.s = fold b.s) (hq : a.resLower = true → a.q = b.q) :
    ir.findIn m a = ir.findIn m b := by
  unfold IR.findIn
  congr 1
  funext f
  have hr : a.resLower = b.resLower := by simp [Name.resLower, hs]
  unfold Name.matches eqFold
  rw [hs, ← hr]
  cases h : a.resLower
  · simp
  · simp [hq h]

end D2V.Sem
