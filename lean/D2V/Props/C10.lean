import D2V.Model.SemProj
import D2V.Proofs.SemFields
/-!
  C10 — Later declarations override earlier ones; null removes.

  Laws of the reference interpreter `D2V.Sem` (the model that the correspondence stream compares with d2 on every
  generated program), for one map `m` of any reachable or unreachable interpreter state `ir` (no invariant is assumed
  unless stated):

    findIn_ci            lookup depends on a name only through its case-folded text (and, for reserved keywords, quotedness)
    assign_sets          after `a: v` the field found under `a` carries `v`              (last write is what is stored)
    merge_ci             `a: v` then `A: w` (same key): no new field, the one field carries `w`   (merge + last write wins)
    last_write_wins      `a: v` … then `a: w` with anything in between that leaves the field findable: value `w`
    null_removes_field   after `a: null` nothing is found under `a`, nor under any path through `a`
    redeclare_fresh      `a: null` then `a: w`: a new field with a fresh id, value `w`, no map, no earlier references

  and the counterexamples found while modelling (`C10_cx_*`, each replayed on d2, see props/C10/findings.json).
-/
namespace D2V.Sem
open D2V.Gen.SemKw
open D2V.SemG (fold)

/-- the lookup used by `getField`/`ensureField` depends on a name only through its case-folded text and, for reserved
    keywords, its quotedness: two spellings with the same key find the same field -/
theorem findIn_ci (ir : IR) (m : Owner) (a b : Name)
    (hs : fold a.s = fold b.s) (hq : a.resLower = true → a.q = b.q) :
    ir.findIn m a = ir.findIn m b := by
  unfold IR.findIn
  congr 1
  funext f
  have hr : a.resLower = b.resLower := by simp [Name.resLower, hs]
  unfold Name.matches eqFold
  rw [hs, ← hr]
  cases h : a.resLower
  · simp
  · simp [hq h]

theorem matches_refl (a : Name) : a.matches a = true := by
  unfold Name.matches eqFold; simp

/-- names the single-element theorems talk about: not `_`, not a board keyword / `classes` / `vars` -/
def Name.ordinary (a : Name) : Prop := a.isUnderscore = false ∧ boardish a = false

/-- the declaration `a: v` -/
def assign (a : Name) (v : String) : FDecl :=
  { key := [a], edge := none, idx := none, ekey := [], prim := none, val := some (.str v), opens := false }
/-- the declaration `a: null` -/
def assignNull (a : Name) : FDecl :=
  { key := [a], edge := none, idx := none, ekey := [], prim := none, val := some .null, opens := false }

/-! ### updates that keep the lookup structure -/

theorem find_filter_map {α} (h : α → α) (p q : α → Bool) (hp : ∀ x, p (h x) = p x) (hq : ∀ x, q (h x) = q x) (l : List α) :
    ((l.map h).filter q).find? p = ((l.filter q).find? p).map h := by
  induction l with
  | nil => simp
  | cons x r ih =>
    simp only [List.map_cons, List.filter_cons, hq]
    cases hqx : q x
    · simpa using ih
    · simp only [if_true, List.find?_cons, hp]
      cases hpx : p x
      · simpa using ih
      · simp

theorem filter_map_length {α} (h : α → α) (q : α → Bool) (hq : ∀ x, q (h x) = q x) (l : List α) :
    ((l.map h).filter q).length = (l.filter q).length := by
  induction l with
  | nil => simp
  | cons x r ih =>
    simp only [List.map_cons, List.filter_cons, hq]
    cases q x <;> simp [ih]

/-- an update that leaves liveness, owner and name alone commutes with the lookup -/
theorem findIn_updField (ir : IR) (i : Nat) (g : FNode → FNode)
    (hg : ∀ f, (g f).alive = f.alive ∧ (g f).owner = f.owner ∧ (g f).name = f.name) (m : Owner) (s : Name) :
    (ir.updField i g).findIn m s = (ir.findIn m s).map fun f => if f.id == i then g f else f := by
  unfold IR.findIn IR.fieldsOf IR.updField
  simp only
  apply find_filter_map
  · intro x; by_cases hx : (x.id == i) = true
    · simp [hx, (hg x).2.2]
    · simp [hx]
  · intro x; by_cases hx : (x.id == i) = true
    · simp [hx, (hg x).1, (hg x).2.1]
    · simp [hx]

theorem fieldsOf_updField_length (ir : IR) (i : Nat) (g : FNode → FNode)
    (hg : ∀ f, (g f).alive = f.alive ∧ (g f).owner = f.owner ∧ (g f).name = f.name) (m : Owner) :
    ((ir.updField i g).fieldsOf m).length = (ir.fieldsOf m).length := by
  unfold IR.fieldsOf IR.updField
  simp only
  apply filter_map_length
  intro x; by_cases hx : (x.id == i) = true
  · simp [hx, (hg x).1, (hg x).2.1]
  · simp [hx]

theorem findIn_mem (ir : IR) (m : Owner) (s : Name) (f : FNode) (h : ir.findIn m s = some f) :
    f ∈ ir.fields ∧ f.alive = true ∧ f.owner = m ∧ f.name.matches s = true := by
  unfold IR.findIn IR.fieldsOf at h
  have h1 := List.find?_some h
  have h2 := List.mem_of_find?_eq_some h
  have h3 := List.mem_filter.mp h2
  simp only [Bool.and_eq_true, beq_iff_eq] at h3
  exact ⟨h3.1, h3.2.1, h3.2.2, h1⟩

theorem field?_of_mem (ir : IR) (f : FNode) (h : f ∈ ir.fields) : ∃ f', ir.field? f.id = some f' := by
  unfold IR.field?
  cases hf : ir.fields.find? (fun x => x.id == f.id) with
  | some f' => exact ⟨f', rfl⟩
  | none =>
    have := List.find?_eq_none.mp hf f h
    simp at this

/-! ### one declaration `a: v` -/

theorem field?_updField (ir : IR) (i j : Nat) (g : FNode → FNode) (hg : ∀ f, (g f).id = f.id) :
    (ir.updField i g).field? j = (ir.field? j).map fun f => if f.id == i then g f else f := by
  unfold IR.field? IR.updField
  simp only [List.find?_map]
  have hc : ((fun f : FNode => f.id == j) ∘ fun f => if (f.id == i) = true then g f else f) = (fun f : FNode => f.id == j) := by
    funext x
    simp only [Function.comp]
    split
    · rw [hg]
    · rfl
  rw [hc]

def addRefs (rs : List Ref) (n : FNode) : FNode := { n with refs := n.refs ++ rs }
def setPrim (v : String) (n : FNode) : FNode := { n with prim := some v }

def refOf (ref : Option (Option Nat × Owner)) (a : Name) : List Ref := refList ref a.pos

def newField (ir : IR) (m : Owner) (a : Name) (rs : List Ref) : IR :=
  { ir with fields := ir.fields ++ [{ id := ir.next, owner := m, name := a, refs := rs, hasMap := false }], next := ir.next + 1 }

/-- what `EnsureField` does for a single ordinary name: the field found, with the reference added — or a new field -/
theorem EnsureField_single (ir : IR) (m : Owner) (a : Name) (ha : a.ordinary) (ref : Option (Option Nat × Owner)) :
    ir.EnsureField m [a] ref true =
      match ir.findIn m a with
      | some f => (ir.updField f.id (addRefs (refOf ref a)), .ok (some f.id))
      | none => (newField ir m a (refOf ref a), .ok (some ir.next)) := by
  obtain ⟨hu, hb⟩ := ha
  unfold IR.EnsureField
  simp only [hu]
  unfold IR.ensureField
  simp only [hb, hu, List.isEmpty_nil, Bool.not_true, Bool.and_false]
  cases ir.findIn m a <;> simp [addRefs, refOf, newField] <;> rfl

theorem compileFieldVal_assign (ir : IR) (fid : Nat) (a : Name) (v : String) (f0 : FNode) (h : ir.field? fid = some f0) :
    ir.compileFieldVal fid (assign a v) false = (ir.updField fid (setPrim v), []) := by
  unfold IR.compileFieldVal
  have hn : (Val.str v == Val.null) = false := rfl
  simp [h, isNull, assign, hn]
  rfl

/-- closed form of `a: v` -/
theorem evalDecl_assign (rule : IdxRule) (ir : IR) (m : Owner) (a : Name) (ha : a.ordinary) (v : String) :
    (ir.evalDecl rule m (assign a v)).1 =
      match ir.findIn m a with
      | some f => (ir.updField f.id (addRefs [{ ctx := none, scope := m, pos := a.pos }])).updField f.id (setPrim v)
      | none => (newField ir m a [{ ctx := none, scope := m, pos := a.pos }]).updField ir.next (setPrim v) := by
  unfold IR.evalDecl
  have hk : (assign a v).key = [a] := rfl
  have he : (assign a v).edge = none := rfl
  simp only [he, hk]
  rw [EnsureField_single ir m a ha]
  cases hf : ir.findIn m a with
  | some f =>
    simp only [refOf, refList]
    obtain ⟨hmem, _, _, _⟩ := findIn_mem ir m a f hf
    obtain ⟨f0, hf0⟩ := field?_of_mem ir f hmem
    have h1 : (ir.updField f.id (addRefs [{ ctx := none, scope := m, pos := a.pos }])).field? f.id = some (if f0.id == f.id then addRefs [{ ctx := none, scope := m, pos := a.pos }] f0 else f0) := by
      rw [field?_updField ir f.id f.id (addRefs [{ ctx := none, scope := m, pos := a.pos }]) (fun _ => rfl), hf0]; rfl
    rw [compileFieldVal_assign _ _ _ _ _ h1]
  | none =>
    simp only [refOf, refList]
    have h1 : (newField ir m a [{ ctx := none, scope := m, pos := a.pos }]).field? ir.next ≠ none := by
      unfold IR.field? newField
      simp only [ne_eq, List.find?_eq_none]
      intro hall
      exact hall { id := ir.next, owner := m, name := a, refs := [{ ctx := none, scope := m, pos := a.pos }], hasMap := false } (by simp) (by simp)
    cases h2 : (newField ir m a [{ ctx := none, scope := m, pos := a.pos }]).field? ir.next with
    | none => exact absurd h2 h1
    | some f0 => rw [compileFieldVal_assign _ _ _ _ _ h2]

theorem findIn_newField (ir : IR) (m : Owner) (a : Name) (rs : List Ref) (s : Name) (h : ir.findIn m s = none) (hs : a.matches s = true) :
    (newField ir m a rs).findIn m s = some { id := ir.next, owner := m, name := a, refs := rs, hasMap := false } := by
  unfold IR.findIn IR.fieldsOf newField at *
  simp only [List.filter_append, List.find?_append, h]
  simp [hs]

/-- after `a: v` the field found under `a` carries `v` -/
theorem assign_sets (rule : IdxRule) (ir : IR) (m : Owner) (a : Name) (ha : a.ordinary) (v : String) :
    ∃ f, (ir.evalDecl rule m (assign a v)).1.findIn m a = some f ∧ f.prim = some v := by
  rw [evalDecl_assign rule ir m a ha v]
  cases hf : ir.findIn m a with
  | some f =>
    simp only
    rw [findIn_updField _ f.id (setPrim v) (fun _ => ⟨rfl, rfl, rfl⟩), findIn_updField _ f.id (addRefs _) (fun _ => ⟨rfl, rfl, rfl⟩), hf]
    exact ⟨_, rfl, by simp [setPrim, addRefs]⟩
  | none =>
    simp only
    rw [findIn_updField _ ir.next (setPrim v) (fun _ => ⟨rfl, rfl, rfl⟩), findIn_newField ir m a _ a hf (matches_refl a)]
    exact ⟨_, rfl, by simp [setPrim]⟩

/-- in any state in which `a` is found, `a: w` overrides in place: same field, no new field, value `w` -/
theorem last_write_wins (rule : IdxRule) (ir : IR) (m : Owner) (a : Name) (ha : a.ordinary) (w : String) (f : FNode)
    (hf : ir.findIn m a = some f) :
    ∃ f', (ir.evalDecl rule m (assign a w)).1.findIn m a = some f' ∧ f'.id = f.id ∧ f'.prim = some w ∧
      ((ir.evalDecl rule m (assign a w)).1.fieldsOf m).length = (ir.fieldsOf m).length := by
  rw [evalDecl_assign rule ir m a ha w, hf]
  simp only
  rw [findIn_updField _ f.id (setPrim w) (fun _ => ⟨rfl, rfl, rfl⟩), findIn_updField _ f.id (addRefs _) (fun _ => ⟨rfl, rfl, rfl⟩), hf,
    fieldsOf_updField_length _ f.id (setPrim w) (fun _ => ⟨rfl, rfl, rfl⟩), fieldsOf_updField_length _ f.id (addRefs _) (fun _ => ⟨rfl, rfl, rfl⟩)]
  exact ⟨_, rfl, by simp [setPrim, addRefs], by simp [setPrim, addRefs], rfl⟩

/-- two declarations whose names are equal up to case (and, for reserved keywords, quotedness) denote one field:
    `a: v` then `A: w` creates no second field and leaves the value `w` -/
theorem merge_ci (rule : IdxRule) (ir : IR) (m : Owner) (a b : Name) (ha : a.ordinary) (hb : b.ordinary)
    (hs : fold a.s = fold b.s) (hq : a.resLower = true → a.q = b.q) (v w : String) :
    let ir1 := (ir.evalDecl rule m (assign a v)).1
    let ir2 := (ir1.evalDecl rule m (assign b w)).1
    (ir2.fieldsOf m).length = (ir1.fieldsOf m).length ∧ ∃ f, ir2.findIn m a = some f ∧ f.prim = some w := by
  intro ir1 ir2
  obtain ⟨f1, hf1, _⟩ := assign_sets rule ir m a ha v
  have hb1 : ir1.findIn m b = some f1 := by rw [← findIn_ci ir1 m a b hs hq]; exact hf1
  obtain ⟨f2, hf2, _, hp, hl⟩ := last_write_wins rule ir1 m b hb w f1 hb1
  refine ⟨hl, f2, ?_, hp⟩
  rw [findIn_ci _ m a b hs hq]; exact hf2

/-! ### null removes; a later declaration creates the field afresh -/

/-- when nothing is found under `a`, the declaration `a: w` creates a new field: fresh id, value `w`, no map, one reference -/
theorem assign_creates_fresh (rule : IdxRule) (ir : IR) (m : Owner) (a : Name) (ha : a.ordinary) (w : String)
    (hnone : ir.findIn m a = none) :
    (ir.evalDecl rule m (assign a w)).1.findIn m a =
      some { id := ir.next, owner := m, name := a, prim := some w, hasMap := false,
             refs := [{ ctx := none, scope := m, pos := a.pos }], alive := true } := by
  rw [evalDecl_assign rule ir m a ha w, hnone]
  simp only
  rw [findIn_updField _ ir.next (setPrim w) (fun _ => ⟨rfl, rfl, rfl⟩), findIn_newField ir m a _ a hnone (matches_refl a)]
  simp [setPrim]

theorem eqFold_symm {a b : String} (h : eqFold a b = true) : eqFold b a = true := by
  simp only [eqFold, beq_iff_eq] at *; exact h.symm
theorem eqFold_trans {a b c : String} (h1 : eqFold a b = true) (h2 : eqFold b c = true) : eqFold a c = true := by
  simp only [eqFold, beq_iff_eq] at *; exact h1.trans h2

/-- for a name that is not a reserved keyword, matching is case-insensitive equality -/
theorem matches_of_nonreserved {f a : Name} (hnr : a.resLower = false) : f.matches a = eqFold f.s a.s := by
  simp [Name.matches, hnr]

theorem resLower_of_eqFold {a b : Name} (h : eqFold a.s b.s = true) : a.resLower = b.resLower := by
  simp only [eqFold, beq_iff_eq] at h; simp [Name.resLower, h]

theorem nodup_map_inj {α β} (g : α → β) {l : List α} (h : (l.map g).Nodup) {x y : α} (hx : x ∈ l) (hy : y ∈ l) (e : g x = g y) : x = y := by
  induction l with
  | nil => simp at hx
  | cons a r ih =>
    simp only [List.map_cons, List.nodup_cons, List.mem_map, not_exists, not_and] at h
    rcases List.mem_cons.mp hx with rfl | hx'
    · rcases List.mem_cons.mp hy with rfl | hy'
      · rfl
      · exact absurd e.symm (h.1 y hy')
    · rcases List.mem_cons.mp hy with rfl | hy'
      · exact absurd e (h.1 x hx')
      · exact ih h.2 hx' hy'

theorem pairwise_mem_or {α} {R : α → α → Prop} {l : List α} (h : l.Pairwise R) {x y : α} (hx : x ∈ l) (hy : y ∈ l)
    (hne : x ≠ y) : R x y ∨ R y x := by
  induction h with
  | nil => simp at hx
  | cons hal _ ih =>
    rcases List.mem_cons.mp hx with rfl | hx'
    · rcases List.mem_cons.mp hy with rfl | hy'
      · exact absurd rfl hne
      · exact Or.inl (hal _ hy')
    · rcases List.mem_cons.mp hy with rfl | hy'
      · exact Or.inr (hal _ hx')
      · exact ih hx' hy'

/-- members of `fieldsOf` after killing by a predicate -/
theorem mem_fieldsOf_updKill (ir : IR) (i : Nat) (m : Owner) (x : FNode)
    (hx : x ∈ (ir.updField i fun n => { n with alive := false }).fieldsOf m) : x ∈ ir.fieldsOf m ∧ x.id ≠ i := by
  have hk : (ir.updField i fun n => { n with alive := false }).fields = ir.fields.map (killF fun f => f.id == i) := by
    simp [IR.updField, killF]
  rw [fieldsOf_eq, hk, filter_killF] at hx
  have h1 := List.mem_filter.mp hx
  exact ⟨h1.1, by simpa using h1.2⟩

/-- `DeleteField` on a non-keyword name, in a state satisfying the arena invariant: afterwards nothing is found under it -/
theorem deleteField_removes (ir : IR) (hinv : FInv ir) (m : Owner) (a : Name) (hnr : a.resLower = false) (nm : String)
    (hfold : eqFold nm a.s = true) : (ir.deleteField m nm).findIn m a = none := by
  unfold IR.deleteField
  split
  · -- no live field of that name: nothing was there
    rename_i hnone
    unfold IR.findIn
    rw [List.find?_eq_none]
    intro x hx
    have := List.find?_eq_none.mp hnone x hx
    rw [matches_of_nonreserved hnr]
    intro hm
    exact this (eqFold_trans hm (eqFold_symm hfold))
  · rename_i f hfound
    dsimp only
    have hf_mem := List.mem_of_find?_eq_some hfound
    have hf_fold : eqFold f.name.s nm = true := by have := List.find?_some hfound; simpa using this
    -- the attached-edge removal does not touch the fields
    have hsame := foldl_same (fun ir c => ir.delAttachedUp c ir.depthFuel m) (fun ir c => delAttachedUp_same c _ ir m)
      (f.refs.filterMap (·.ctx)) ir
    generalize (f.refs.filterMap (·.ctx)).foldl (fun ir c => ir.delAttachedUp c ir.depthFuel m) ir = ir2 at hsame ⊢
    have hfo : ∀ m', ir2.fieldsOf m' = ir.fieldsOf m' := by intro m'; rw [fieldsOf_eq, fieldsOf_eq, hsame.1]
    -- every live field of `m` after the deletion was live before and is not `f`
    have key : ∀ x, x ∈ (ir2.updField f.id fun n => { n with alive := false }).fieldsOf m → x.name.matches a = false := by
      intro x hx
      obtain ⟨hx1, hxid⟩ := mem_fieldsOf_updKill ir2 f.id m x hx
      rw [hfo] at hx1
      cases hmx : x.name.matches a with
      | false => rfl
      | true =>
        exfalso
        rw [matches_of_nonreserved hnr] at hmx
        -- x and f are two live fields of m with matching names
        have hfa : eqFold f.name.s a.s = true := eqFold_trans hf_fold hfold
        have hxf : eqFold x.name.s f.name.s = true := eqFold_trans hmx (eqFold_symm hfa)
        have hfr : f.name.resLower = false := by rw [resLower_of_eqFold hfa]; exact hnr
        have hxr : x.name.resLower = false := by rw [resLower_of_eqFold hmx]; exact hnr
        have hm1 : x.name.matches f.name = true := by rw [matches_of_nonreserved hfr]; exact hxf
        have hm2 : f.name.matches x.name = true := by rw [matches_of_nonreserved hxr]; exact eqFold_symm hxf
        have hpw := hinv.names m
        have hne : x ≠ f := fun e => hxid (by rw [e])
        rcases pairwise_mem_or hpw hx1 hf_mem hne with h | h
        · rw [hm1] at h; exact absurd h (by simp)
        · rw [hm2] at h; exact absurd h (by simp)
    have key' : ∀ (ir3 : IR), (∀ x, x ∈ ir3.fieldsOf m → x.name.matches a = false) → ir3.findIn m a = none := by
      intro ir3 h3
      unfold IR.findIn
      rw [List.find?_eq_none]
      intro x hx
      simp [h3 x hx]
    split
    · split
      · split
        · -- the emptied `style` holder is removed as well: one more deletion
          apply key'
          intro x hx
          exact key x (mem_fieldsOf_updKill _ _ m x hx).1
        · exact key' _ key
      · exact key' _ key
    · exact key' _ key

/-- after `a: null` (a not a reserved keyword) nothing is found under `a` nor under any path through `a`, in every state that
    satisfies the arena invariant — in particular in every reachable state (`reachable_finv`) -/
theorem null_removes_field (rule : IdxRule) (ir : IR) (hinv : FInv ir) (m : Owner) (a : Name) (ha : a.ordinary)
    (hnr : a.resLower = false) :
    (ir.evalDecl rule m (assignNull a)).1.findIn m a = none ∧
    ∀ rest, (ir.evalDecl rule m (assignNull a)).1.getField m (a :: rest) = none := by
  have hmain : (ir.evalDecl rule m (assignNull a)).1.findIn m a = none := by
    unfold IR.evalDecl
    have hk : (assignNull a).key = [a] := rfl
    have he : (assignNull a).edge = none := rfl
    simp only [he, hk]
    rw [EnsureField_single ir m a ha]
    have hnull : isNull (assignNull a) = true := rfl
    cases hf : ir.findIn m a with
    | some f =>
      simp only
      obtain ⟨hmem, hal, hown, hmatch⟩ := findIn_mem ir m a f hf
      have hinv1 : FInv (ir.updField f.id (addRefs (refOf (some (none, m)) a))) :=
        fgood_inv hinv (updField_fgood _ _ _ (fun _ => ⟨rfl, rfl, rfl, rfl⟩))
      unfold IR.compileFieldVal
      -- the field found by id is the field found by name
      obtain ⟨f0, hf0⟩ := field?_of_mem ir f hmem
      have hf0eq : f0 = f := by
        have h1 := List.find?_some hf0
        have h2 := List.mem_of_find?_eq_some hf0
        simp only [beq_iff_eq] at h1
        exact nodup_map_inj (·.id) hinv.ids h2 hmem h1
      rw [field?_updField ir f.id f.id (addRefs (refOf (some (none, m)) a)) (fun _ => rfl), hf0, hf0eq]
      simp only [Option.map_some, beq_self_eq_true, if_true, hnull, Bool.not_false, Bool.and_self]
      have hfold : eqFold (addRefs (refOf (some (none, m)) a) f).name.s a.s = true := by
        rw [matches_of_nonreserved hnr] at hmatch; exact hmatch
      have hown' : (addRefs (refOf (some (none, m)) a) f).owner = m := hown
      rw [hown']
      exact deleteField_removes _ hinv1 m a hnr _ hfold
    | none =>
      simp only
      have hinv1 : FInv (newField ir m a (refOf (some (none, m)) a)) := by
        apply fgood_inv hinv
        apply FGood.of_step
        exact FStep.add ir _ { id := ir.next, owner := m, name := a, refs := refOf (some (none, m)) a, hasMap := false } rfl rfl
          (findIn_none_free ir m a hf) rfl (Nat.lt_succ_self _)
      unfold IR.compileFieldVal
      have hfield : (newField ir m a (refOf (some (none, m)) a)).field? ir.next =
          some { id := ir.next, owner := m, name := a, refs := refOf (some (none, m)) a, hasMap := false } := by
        unfold IR.field? newField
        simp only
        rw [List.find?_append]
        have : ir.fields.find? (fun f => f.id == ir.next) = none := by
          rw [List.find?_eq_none]
          intro x hx
          have := hinv.lt x hx
          simp; omega
        rw [this]; simp
      rw [hfield]
      simp only [hnull, Bool.not_false, Bool.and_self, if_true]
      exact deleteField_removes _ hinv1 m a hnr _ (by simp [eqFold])
  refine ⟨hmain, ?_⟩
  intro rest
  cases rest with
  | nil => simp only [IR.getField]; split <;> simp [hmain]
  | cons r rs => simp only [IR.getField]; split <;> simp [hmain]

/-- null, then a new declaration: the field found under `a` afterwards is a new one — fresh id, only the new value, no map,
    only the new reference; nothing of the old field (which keeps its old id) is reachable through it -/
theorem redeclare_fresh (rule : IdxRule) (ir : IR) (hinv : FInv ir) (m : Owner) (a : Name) (ha : a.ordinary)
    (hnr : a.resLower = false) (w : String) :
    let ir1 := (ir.evalDecl rule m (assignNull a)).1
    (ir1.evalDecl rule m (assign a w)).1.findIn m a =
      some { id := ir1.next, owner := m, name := a, prim := some w, hasMap := false,
             refs := [{ ctx := none, scope := m, pos := a.pos }], alive := true } ∧
    ∀ f ∈ ir.fields, f.id < ir1.next := by
  intro ir1
  refine ⟨assign_creates_fresh rule ir1 m a ha w (null_removes_field rule ir hinv m a ha hnr).1, ?_⟩
  intro f hf
  exact Nat.lt_of_lt_of_le (hinv.lt f hf) (fgood_next (evalDecl_fgood rule ir m (assignNull a)))

/-- … for every program: whatever came before, `a: null` followed by `a: w` at the end of a program leaves a fresh field -/
theorem redeclare_fresh_program (rule : IdxRule) (items : List Item) (m : Owner) (a : Name) (ha : a.ordinary)
    (hnr : a.resLower = false) (w : String) :
    let ir := (evalItems rule items).ir
    let ir1 := (ir.evalDecl rule m (assignNull a)).1
    ir1.findIn m a = none ∧
    (ir1.evalDecl rule m (assign a w)).1.findIn m a =
      some { id := ir1.next, owner := m, name := a, prim := some w, hasMap := false,
             refs := [{ ctx := none, scope := m, pos := a.pos }], alive := true } := by
  intro ir ir1
  have hinv := reachable_finv rule items
  exact ⟨(null_removes_field rule ir hinv m a ha hnr).1, (redeclare_fresh rule ir hinv m a ha hnr w).1⟩

/-! ### programs: the last assignment of a program wins -/

theorem evalItems_append (rule : IdxRule) (xs ys : List Item) :
    evalItems rule (xs ++ ys) = ys.foldl (step rule) (evalItems rule xs) := by
  simp [evalItems, List.foldl_append]

/-- whatever the program did before, when it ends with `a: w` written in map `m`, the field found under `a` carries `w` -/
theorem last_assignment_wins_program (rule : IdxRule) (items : List Item) (m : Owner) (a : Name) (ha : a.ordinary) (w : String)
    (hscope : (evalItems rule items).stack.headD [] = [m]) :
    ∃ f, (evalItems rule (items ++ [.decl (assign a w)])).ir.findIn m a = some f ∧ f.prim = some w := by
  rw [evalItems_append]
  simp only [List.foldl_cons, List.foldl_nil, step, hscope, evalScopes]
  have ho : (assign a w).opens = false := rfl
  simp only [ho, Bool.false_eq_true, if_false]
  exact assign_sets rule _ m a ha w

/-- one non-opening declaration evaluated in a single scope `m`: the stack is unchanged and the IR is `evalDecl`'s -/
theorem step_decl_single (rule : IdxRule) (st : St) (m : Owner) (d : FDecl) (ho : d.opens = false)
    (hscope : st.stack.headD [] = [m]) :
    step rule st (.decl d) = { st with ir := (st.ir.evalDecl rule m d).1 } := by
  simp only [step, hscope, evalScopes, ho, Bool.false_eq_true, if_false]

/-- program form of `merge_ci` + `last_write_wins`: whatever came before, a program that ends with `a: v` then `A: w`
    (same key up to case) has one field for the key — the second declaration adds none — and that field carries `w` -/
theorem override_program (rule : IdxRule) (items : List Item) (m : Owner) (a b : Name) (ha : a.ordinary) (hb : b.ordinary)
    (hs : fold a.s = fold b.s) (hq : a.resLower = true → a.q = b.q) (v w : String)
    (hscope : (evalItems rule items).stack.headD [] = [m]) :
    let st1 := evalItems rule (items ++ [.decl (assign a v)])
    let st2 := evalItems rule (items ++ [.decl (assign a v), .decl (assign b w)])
    (st2.ir.fieldsOf m).length = (st1.ir.fieldsOf m).length ∧
      (∃ f, st2.ir.findIn m a = some f ∧ f.prim = some w) ∧ st2.stack = (evalItems rule items).stack := by
  intro st1 st2
  have h1 : st1 = { evalItems rule items with ir := ((evalItems rule items).ir.evalDecl rule m (assign a v)).1 } := by
    show evalItems rule (items ++ [.decl (assign a v)]) = _
    rw [evalItems_append]
    simp only [List.foldl_cons, List.foldl_nil]
    exact step_decl_single rule _ m _ rfl hscope
  have h2 : st2 = { evalItems rule items with
      ir := ((((evalItems rule items).ir.evalDecl rule m (assign a v)).1).evalDecl rule m (assign b w)).1 } := by
    show evalItems rule (items ++ [.decl (assign a v), .decl (assign b w)]) = _
    rw [evalItems_append]
    simp only [List.foldl_cons, List.foldl_nil]
    rw [step_decl_single rule _ m _ rfl hscope]
    exact step_decl_single rule _ m _ rfl hscope
  obtain ⟨hl, hf⟩ := merge_ci rule (evalItems rule items).ir m a b ha hb hs hq v w
  rw [h1, h2]
  exact ⟨hl, hf, rfl⟩

/-- program form of `null_removes_field`: whatever came before, a program that ends with `a: null` has nothing under `a`
    and nothing under any path through `a`; the arena invariant it needs is the reachable one -/
theorem null_removes_program (rule : IdxRule) (items : List Item) (m : Owner) (a : Name) (ha : a.ordinary)
    (hnr : a.resLower = false) (hscope : (evalItems rule items).stack.headD [] = [m]) :
    let st := evalItems rule (items ++ [.decl (assignNull a)])
    st.ir.findIn m a = none ∧ ∀ rest, st.ir.getField m (a :: rest) = none := by
  intro st
  have h1 : st = { evalItems rule items with ir := ((evalItems rule items).ir.evalDecl rule m (assignNull a)).1 } := by
    show evalItems rule (items ++ [.decl (assignNull a)]) = _
    rw [evalItems_append]
    simp only [List.foldl_cons, List.foldl_nil]
    exact step_decl_single rule _ m _ rfl hscope
  rw [h1]
  exact null_removes_field rule _ (reachable_finv rule items) m a ha hnr

/-- non-vacuity of the scope hypothesis: the empty program evaluates declarations in the root map -/
example (rule : IdxRule) : (evalItems rule []).stack.headD [] = [.root] := rfl

/-! ### counterexamples (each replayed on d2 with a ten-line program calling `d2compiler.Compile`) -/

def cxN (s : String) (p : Nat) (q : Bool := false) : Name := { s := s, q := q, pos := p }
def cxE (a b : String) (p : Nat) : EdgeAst := { src := [cxN a p], dst := [cxN b (p + 5)], sa := false, da := true, pos := p }
def liveEdges (ir : IR) : List Nat := (ir.edges.filter (·.alive)).map (·.id)
def liveFields (ir : IR) (m : Owner) : List (String × Bool × Option String) := (ir.fieldsOf m).map fun f => (f.name.s, f.name.q, f.prim)

/-- `a -> b; (a -> b)[0].style.opacity: null`: the null is addressed to one attribute, the whole connection is removed -/
def cxEdgeAttrNull : List Decl :=
  [ .mk [] [cxE "a" "b" 0] none [] none none none,
    .mk [] [cxE "a" "b" 8] (some 0) [cxN "style" 20, cxN "opacity" 26] none (some .null) none ]
theorem C10_cx_edge_attr_null_deletes_edge (rule : IdxRule) :
    liveEdges (evalWith rule (cxEdgeAttrNull.take 1)) = [4] ∧ liveEdges (evalWith rule cxEdgeAttrNull) = [] ∧
    (evalWith rule cxEdgeAttrNull).errs = [] := by
  cases rule <;> exact ⟨by decide +kernel, by decide +kernel, by decide +kernel⟩

/-- `a -> b; (a -> b)[0].label: hi; (a -> b)[0]: {label: null}`: removing the label inside the map removes the connection -/
def cxEdgeMapNull : List Decl :=
  [ .mk [] [cxE "a" "b" 0] none [] none none none,
    .mk [] [cxE "a" "b" 8] (some 0) [cxN "label" 20] none (some (.str "hi")) none,
    .mk [] [cxE "a" "b" 30] (some 0) [] none none (some [.mk [cxN "label" 45] [] none [] none (some .null) none]) ]
theorem C10_cx_edge_map_null_deletes_edge (rule : IdxRule) :
    liveEdges (evalWith rule (cxEdgeMapNull.take 2)) = [4] ∧ liveEdges (evalWith rule cxEdgeMapNull) = [] := by
  cases rule <;> exact ⟨by decide +kernel, by decide +kernel⟩

/-- `x: {label: hi; "label": obj}; x."label": null`: the null names the object `"label"`, the attribute `label` is removed instead
    (`DeleteField` compares names without the quoted/unquoted split that `getField` makes for reserved keywords) -/
def cxQuotedKeywordNull : List Decl :=
  [ .mk [cxN "x" 0] [] none [] none none (some [ .mk [cxN "label" 4] [] none [] none (some (.str "hi")) none,
                                               .mk [cxN "label" 15 true] [] none [] none (some (.str "obj")) none ]),
    .mk [cxN "x" 30, cxN "label" 32 true] [] none [] none (some .null) none ]
theorem C10_cx_quoted_keyword_null_deletes_attribute (rule : IdxRule) :
    liveFields (evalWith rule cxQuotedKeywordNull) (.fld 1) = [("label", true, some "obj")] := by
  cases rule <;> decide +kernel

/-- `x: {a -> _.c}; x: null`: the connection lives in the parent map and `x` is not on its reference path, so it survives the
    deletion of `x` — and the projection re-creates `x` and `x.a` as its endpoint -/
def cxNullScope : List Decl :=
  [ .mk [cxN "x" 0] [] none [] none none (some [ .mk [] [{ src := [cxN "a" 4], dst := [cxN "_" 9, cxN "c" 11], sa := false, da := true, pos := 4 }] none [] none none none ]),
    .mk [cxN "x" 20] [] none [] none (some .null) none ]
theorem C10_cx_null_scope_survives (rule : IdxRule) :
    liveFields (evalWith rule cxNullScope) .root = [("c", false, none)] ∧ liveEdges (evalWith rule cxNullScope) = [5] ∧
    ((project (evalWith rule cxNullScope)).ops.any fun o => match o with
      | .connect [] ["x", "a"] ["c"] false true _ _ _ => true
      | _ => false) = true := by
  cases rule <;> exact ⟨by decide +kernel, by decide +kernel, by decide +kernel⟩

/-- `a.label: L1; a: L2`: the later assignment of the label (as the primary value) loses against the earlier `label` keyword -/
def cxLabelOrder : List Decl :=
  [ .mk [cxN "a" 0, cxN "label" 2] [] none [] none (some (.str "L1")) none,
    .mk [cxN "a" 12] [] none [] none (some (.str "L2")) none ]
theorem C10_cx_label_keyword_beats_later_primary (rule : IdxRule) :
    ((SemG.build (project (evalWith rule cxLabelOrder)).ops).nodes.map (·.label)) = ["", "L1"] := by
  cases rule <;> decide +kernel

/-- `a -> b -> c: L; a -> b -> c: null`: null on a key that names a chain removes every link (each edge of the key is handled
    in turn, as the loop of `_compileEdges`); the interpreter is compared with d2 on such programs, and the Spec
    `chainNullRemovesAll` judges d2's own output -/
def chainNullProgram : List Decl :=
  [ .mk [] [cxE "a" "b" 0, cxE "b" "c" 5] none [] none (some (.str "L")) none,
    .mk [] [cxE "a" "b" 20, cxE "b" "c" 25] none [] none (some .null) none ]
theorem chain_null_removes_every_link (rule : IdxRule) :
    (liveEdges (evalWith rule (chainNullProgram.take 1))).length = 2 ∧ liveEdges (evalWith rule chainNullProgram) = [] := by
  cases rule <;> exact ⟨by decide +kernel, by decide +kernel⟩

example : Name.ordinary { s := "a", q := false, pos := 0 } := ⟨by decide, by decide⟩

end D2V.Sem
