import D2V.Proofs.QuoteEdge
/-!
  C06 — Object and connection IDs are valid, unambiguous key paths (the part that is provable over the quoting
  model: the absolute ID of an object is its chain of names, each formatted as a key segment and joined with ".").

  `NameOk s` collects what a name needs: at most 518 bytes (ParseKey's limit) and harmless case folding — true
  for every name outside the hazard set of C05, and for every name at all once `keyFixApplied` holds.

  * `absID_parses`            ParseKey (AbsID) = the chain of names, one segment per name, whole text consumed;
  * `join_dot_unambiguous`    two chains with the same dot-joined text are the same chain
                              (a dot inside a name never splits it, a quote never swallows a separator);
  * `absID_injective`         distinct name chains have distinct absolute IDs;
  * `objID_parses`            the ID of an object parses to its name (one segment).
  * `absID_injective_ci`      absolute IDs equal after lower-casing consist of the same lower-cased IDs level by
                              level (with C09's invariant "siblings differ after lower-casing": the same object).
  * `edgeID_parses`           Edge.AbsID parses back with the model of ParseMapKey (`parseEdgeID`, compared with the
                              real one on every connection and on edge-like texts) to container / source / arrows /
                              destination / index;
  * `edgeID_unique`           equal connection IDs imply the same source chain, arrows, index and destination chain
                              (up to the case of the shared container IDs, which are pairwise EqualFold).
  The `_partial` / `keyFixApplied` variants instantiate `NameOk`.
-/
namespace D2V.Quote
open D2V.Gen.Quote

theorem nameOk_of_not_hazard {s : Str} (hlen : utf8LenStr s ≤ maxKeyLen)
    (hz : ((equalFold s "null" && s != "null".toList) || kwCase s) = false) : NameOk s := by
  simp only [Bool.or_eq_false_iff, Bool.and_eq_false_iff, bne_eq_false_iff_eq] at hz
  refine ⟨hlen, ?_, fun _ => hz.2⟩
  intro hf
  rcases hz.1 with h | h
  · rw [hf] at h; cases h
  · exact Or.inl h

theorem nameOk_of_fix (hfix : keyFixApplied = true) {s : Str} (hlen : utf8LenStr s ≤ maxKeyLen) : NameOk s := by
  unfold keyFixApplied at hfix
  simp only [Bool.and_eq_true, Option.isNone_iff_eq_none] at hfix
  refine ⟨hlen, fun _ => Or.inr hfix.2, ?_⟩
  intro hu
  have h := rawString_key s
  rw [hu] at h
  cases h with
  | unq _ _ _ hf => simpa [hfix.1] using hf

/-- the absolute ID of an object parses back to its chain of names -/
theorem absID_parses (names : List Str) (hne : names ≠ []) (hok : ∀ n ∈ names, NameOk n) :
    ∃ segs : List Seg, segs.map (·.val) = names ∧ parseKey (absID names) = .ok segs [] := by
  have hlen : names.length ≤ (absID names).length + 1 := by
    have := joinDot_length (names.map objID) (by
      intro t ht
      obtain ⟨n, hn, rfl⟩ := List.mem_map.mp ht
      exact objID_length (hok n hn))
    simpa [absID] using this
  obtain ⟨segs, hv, hp⟩ := parseKeyLoop_join names hne hok ((absID names).length + 1) hlen [] (by simp)
  exact ⟨segs, hv, by simpa [parseKey, absID] using hp⟩

/-- the ID of an object parses back to exactly its name -/
theorem objID_parses (s : Str) (hok : NameOk s) : ∃ k, parseKey (objID s) = .ok [⟨k, s⟩] [] := by
  obtain ⟨segs, hv, hp⟩ := absID_parses [s] (by simp) (by simpa using hok)
  match segs, hv, hp with
  | [g], hv, hp =>
    simp only [List.map, List.cons.injEq, and_true] at hv
    refine ⟨g.kind, ?_⟩
    have hg : g = ⟨g.kind, s⟩ := by cases g; simp at hv; simp [hv]
    rw [hg] at hp
    simpa [absID, joinDot] using hp

/-- joining formatted segments with dots loses nothing: the chain is determined by the text -/
theorem join_dot_unambiguous (a b : List Str) (ha : a ≠ []) (hb : b ≠ [])
    (hoka : ∀ n ∈ a, NameOk n) (hokb : ∀ n ∈ b, NameOk n)
    (h : joinDot (a.map objID) = joinDot (b.map objID)) : a = b := by
  obtain ⟨sa, hva, hpa⟩ := absID_parses a ha hoka
  obtain ⟨sb, hvb, hpb⟩ := absID_parses b hb hokb
  have : absID a = absID b := h
  rw [this, hpb] at hpa
  injection hpa with h1 _
  rw [← hva, ← hvb, h1]

/-- distinct name chains have distinct absolute IDs -/
theorem absID_injective (a b : List Str) (ha : a ≠ []) (hb : b ≠ [])
    (hoka : ∀ n ∈ a, NameOk n) (hokb : ∀ n ∈ b, NameOk n) (hne : a ≠ b) : absID a ≠ absID b :=
  fun h => hne (join_dot_unambiguous a b ha hb hoka hokb h)

/-- `absID_parses` for names outside the hazard set of C05 (holds whatever the tree does with those) -/
theorem absID_parses_partial (names : List Str) (hne : names ≠ [])
    (hok : ∀ n ∈ names, utf8LenStr n ≤ maxKeyLen ∧ ((equalFold n "null" && n != "null".toList) || kwCase n) = false) :
    ∃ segs : List Seg, segs.map (·.val) = names ∧ parseKey (absID names) = .ok segs [] :=
  absID_parses names hne (fun n hn => nameOk_of_not_hazard (hok n hn).1 (hok n hn).2)

/-- `absID_parses`, full statement: every chain of names of at most 518 bytes each -/
theorem C06_absID_parses (hfix : keyFixApplied = true) (names : List Str) (hne : names ≠ [])
    (hlen : ∀ n ∈ names, utf8LenStr n ≤ maxKeyLen) :
    ∃ segs : List Seg, segs.map (·.val) = names ∧ parseKey (absID names) = .ok segs [] :=
  absID_parses names hne (fun n hn => nameOk_of_fix hfix (hlen n hn))

/-- full statement of injectivity -/
theorem C06_absID_injective (hfix : keyFixApplied = true) (a b : List Str) (ha : a ≠ []) (hb : b ≠ [])
    (hla : ∀ n ∈ a, utf8LenStr n ≤ maxKeyLen) (hlb : ∀ n ∈ b, utf8LenStr n ≤ maxKeyLen) (hne : a ≠ b) :
    absID a ≠ absID b :=
  absID_injective a b ha hb (fun n hn => nameOk_of_fix hfix (hla n hn)) (fun n hn => nameOk_of_fix hfix (hlb n hn)) hne

/-! ### distinct ignoring case -/

/-- text-level form of `join_dot_unambiguous`: a dot-joined chain of segment texts (any of the three shapes the
    printer produces, for any strings) splits in one way only -/
theorem join_dot_unambiguous_text (ts ts' : List Str) (h : ∀ t ∈ ts, IsSegText t) (h' : ∀ t ∈ ts', IsSegText t)
    (heq : joinDot ts = joinDot ts') : ts = ts' :=
  joinDot_segs_injective ts ts' h h' heq

/-- if two absolute IDs are equal after lower-casing (any rune map with `LowOk`, e.g. unicode.ToLower), the two
    chains consist of the same lower-cased IDs, level by level; since the children of an object are keyed by
    their lower-cased ID (C09: siblings differ there), the two chains name the same object -/
theorem absID_injective_ci (low : Char → Char) (hlow : LowOk low) (a b : List Str)
    (hoka : ∀ n ∈ a, NameOk n) (hokb : ∀ n ∈ b, NameOk n)
    (heq : (absID a).map low = (absID b).map low) :
    a.map (fun n => (objID n).map low) = b.map (fun n => (objID n).map low) := by
  unfold absID at heq
  rw [joinDot_map_low hlow, joinDot_map_low hlow, List.map_map, List.map_map] at heq
  refine joinDot_segs_injective _ _ ?_ ?_ heq
  · intro t ht
    obtain ⟨n, hn, rfl⟩ := List.mem_map.mp ht
    exact ⟨_, segText_low hlow (fmtKey_segText (hoka n hn))⟩
  · intro t ht
    obtain ⟨n, hn, rfl⟩ := List.mem_map.mp ht
    exact ⟨_, segText_low hlow (fmtKey_segText (hokb n hn))⟩

/-- contrapositive, as the property states it: chains that differ in some lower-cased ID have different
    absolute IDs, ignoring case -/
theorem C06_absIDs_distinct_ignoring_case (hfix : keyFixApplied = true) (low : Char → Char) (hlow : LowOk low)
    (a b : List Str) (hla : ∀ n ∈ a, utf8LenStr n ≤ maxKeyLen) (hlb : ∀ n ∈ b, utf8LenStr n ≤ maxKeyLen)
    (hne : a.map (fun n => (objID n).map low) ≠ b.map (fun n => (objID n).map low)) :
    (absID a).map low ≠ (absID b).map low :=
  fun h => hne (absID_injective_ci low hlow a b (fun n hn => nameOk_of_fix hfix (hla n hn))
    (fun n hn => nameOk_of_fix hfix (hlb n hn)) h)

/-! ### connection IDs -/

/-- the ID of a connection parses back (model of ParseMapKey) to its container, source, arrows, destination and
    index: `k` leading IDs are shared (pairwise EqualFold, `Edge.AbsID`'s loop), the source is container ++ its own
    remainder, the destination's remainder follows the same container -/
theorem edgeID_parses (srcNames dstNames : List Str) (hs : srcNames ≠ []) (hd : dstNames ≠ [])
    (hoks : ∀ n ∈ srcNames, NameOk n) (hokd : ∀ n ∈ dstNames, NameOk n) (sa da : Bool) (idx : Nat) :
    ∃ k csegs ssegs dsegs, k < srcNames.length ∧ k < dstNames.length ∧
      csegs.map (·.val) = srcNames.take k ∧ ssegs.map (·.val) = srcNames.drop k ∧ dsegs.map (·.val) = dstNames.drop k ∧
      (∀ i, i < k → ∀ x y, srcNames[i]? = some x → dstNames[i]? = some y → equalFoldIds (objID x) (objID y) = true) ∧
      parseEdgeID (edgeAbsID (srcNames.map objID) (dstNames.map objID) sa da idx) = .ok csegs ssegs dsegs sa da idx [] := by
  obtain ⟨k, h1, h2, h3, h4, h5, h6⟩ := trimCommon_spec (srcNames.map objID) (dstNames.map objID) (by simpa using hs) (by simpa using hd)
  have hk1 : k < srcNames.length := by simpa using h1
  have hk2 : k < dstNames.length := by simpa using h2
  rw [edgeAbsID_eq_edgeText, h3, h4, h5, ← List.map_take, ← List.map_drop, ← List.map_drop]
  obtain ⟨cs, ss, ds, e1, e2, e3, hp⟩ := parseEdgeID_edgeText
    (segTexts_of_names (srcNames.take k) (fun n hn => hoks n (List.mem_of_mem_take hn)))
    (segTexts_of_names (srcNames.drop k) (fun n hn => hoks n (List.mem_of_mem_drop hn)))
    (segTexts_of_names (dstNames.drop k) (fun n hn => hokd n (List.mem_of_mem_drop hn)))
    (by intro h; have := congrArg List.length h; simp at this; omega)
    (by intro h; have := congrArg List.length h; simp at this; omega)
    (fun n hn => (hoks n (List.mem_of_mem_take hn)).1) (fun n hn => (hoks n (List.mem_of_mem_drop hn)).1)
    (fun n hn => (hokd n (List.mem_of_mem_drop hn)).1) sa da idx
  refine ⟨k, cs, ss, ds, hk1, hk2, e1, e2, e3, ?_, hp⟩
  intro i hi x y hx hy
  exact h6 i hi (objID x) (objID y) (by simp [hx]) (by simp [hy])

/-- a connection ID identifies its connection: equal IDs mean the same source chain, arrows and index, and
    destination chains that differ at most in the case of the shared container IDs -/
theorem edgeID_unique (s1 d1 s2 d2 : List Str) (hs1 : s1 ≠ []) (hd1 : d1 ≠ []) (hs2 : s2 ≠ []) (hd2 : d2 ≠ [])
    (hok : ∀ n ∈ s1 ++ d1 ++ s2 ++ d2, NameOk n) (a1 b1 a2 b2 : Bool) (i1 i2 : Nat)
    (heq : edgeAbsID (s1.map objID) (d1.map objID) a1 b1 i1 = edgeAbsID (s2.map objID) (d2.map objID) a2 b2 i2) :
    s1 = s2 ∧ a1 = a2 ∧ b1 = b2 ∧ i1 = i2 ∧ ∃ k, k < d1.length ∧ k < d2.length ∧ d1.drop k = d2.drop k ∧
      ∀ i, i < k → ∀ x y, d1[i]? = some x → d2[i]? = some y →
        ∃ z, s1[i]? = some z ∧ equalFoldIds (objID z) (objID x) = true ∧ equalFoldIds (objID z) (objID y) = true := by
  obtain ⟨k1, c1, ss1, ds1, hk1, hk1', e1, e2, e3, f1, p1⟩ := edgeID_parses s1 d1 hs1 hd1
    (fun n hn => hok n (by simp [hn])) (fun n hn => hok n (by simp [hn])) a1 b1 i1
  obtain ⟨k2, c2, ss2, ds2, hk2, hk2', g1, g2, g3, f2, p2⟩ := edgeID_parses s2 d2 hs2 hd2
    (fun n hn => hok n (by simp [hn])) (fun n hn => hok n (by simp [hn])) a2 b2 i2
  rw [heq, p2] at p1
  injection p1 with hc hs hd ha hb hi _
  subst hc; subst hs; subst hd
  have hkk : k1 = k2 := by
    have := congrArg List.length (e1.symm.trans g1)
    simp at this; omega
  subst hkk
  have hss : s1 = s2 := by
    rw [← List.take_append_drop k1 s1, ← List.take_append_drop k1 s2, ← e1, ← e2, g1, g2]
  subst hss
  refine ⟨rfl, ha.symm, hb.symm, hi.symm, k1, hk1', hk2', by rw [← e3, g3], ?_⟩
  intro i hi' x y hx hy
  have hlt : i < s1.length := by omega
  refine ⟨s1[i], by simp [hlt], f1 i hi' _ _ (by simp [hlt]) hx, f2 i hi' _ _ (by simp [hlt]) hy⟩

/-- `LowOk` is satisfiable -/
example : LowOk id := ⟨fun _ _ => rfl, fun _ h => h, fun _ => rfl, rfl⟩

/-! non-vacuity and the classic ambiguity that quoting removes -/

example : ∃ segs : List Seg, segs.map (·.val) = ["a.b".toList, "c".toList] ∧
    parseKey (absID ["a.b".toList, "c".toList]) = .ok segs [] :=
  absID_parses_partial _ (by simp) (by decide)

example : absID ["a.b".toList, "c".toList] ≠ absID ["a".toList, "b.c".toList] := by decide

/-- on a tree without the fix an object named `NULL` gets an ID that parses to `null` -/
theorem C06_cx_id_NULL : uqFoldLiteral.isSome = true →
    parseKey (objID "NULL".toList) = .ok [⟨.sq, "null".toList⟩] [] := by decide

/-- … and an object named `Label` gets the ID `label` -/
theorem C06_cx_id_Label : rawKeyQuotesKeywordCase = false →
    parseKey (objID "Label".toList) = .ok [⟨.unq, "label".toList⟩] [] := by decide

end D2V.Quote
