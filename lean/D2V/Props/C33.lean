import D2V.Model.Anim
import Mathlib.Tactic.Linarith
import Mathlib.Tactic.Positivity
import Mathlib.Tactic.GCongr
import Mathlib.Algebra.Order.Floor.Ring
import Mathlib.Data.Rat.Floor
/-! C33 — Animated SVGs show exactly one board at a time, in order. -/
namespace D2V.Anim

theorem pct_mono {x y total : Int} (ht : 0 < total) (h : x ≤ y) : pct x total ≤ pct y total := by
  unfold pct
  have h1 : (0:Rat) < (total:Rat) := by exact_mod_cast ht
  have h2 : (x:Rat) ≤ (y:Rat) := by exact_mod_cast h
  gcongr

theorem pct_nonneg {x total : Int} (ht : 0 < total) (h : 0 ≤ x) : 0 ≤ pct x total := by
  unfold pct
  have h1 : (0:Rat) < (total:Rat) := by exact_mod_cast ht
  have h2 : (0:Rat) ≤ (x:Rat) := by exact_mod_cast h
  positivity

theorem pct_total {total : Int} (ht : 0 < total) : pct total total = 100 := by
  unfold pct
  have h1 : (total:Rat) ≠ 0 := by exact_mod_cast (ne_of_gt ht)
  field_simp

theorem pct_le_100 {x total : Int} (ht : 0 < total) (h : x ≤ total) : pct x total ≤ 100 := by
  rw [← pct_total ht]; exact pct_mono ht h

/-- percentage of a rational time `t` (ms) in a cycle of `total` ms -/
def pctR (t : Rat) (total : Int) : Rat := t / (total : Rat) * 100

theorem pctR_mono {s t : Rat} {total : Int} (ht : 0 < total) (h : s ≤ t) : pctR s total ≤ pctR t total := by
  unfold pctR
  have h1 : (0:Rat) < (total:Rat) := by exact_mod_cast ht
  gcongr

theorem pctR_lt {s t : Rat} {total : Int} (ht : 0 < total) (h : s < t) : pctR s total < pctR t total := by
  unfold pctR
  have h1 : (0:Rat) < (total:Rat) := by exact_mod_cast ht
  gcongr

theorem pctR_int (x total : Int) : pctR (x : Rat) total = pct x total := rfl

/-- the "last board" branch is taken exactly by the last board (this is what the fix guarantees) -/
theorem lastBranch_only_last {n T i : Int} (hT : 2 ≤ T) (hi : i < n)
    (h : (boardKF n T i).after = none) : i = n - 1 := by
  unfold boardKF makeKeyframe at h
  simp only at h
  split at h
  · rename_i hc
    have : i * T + T ≥ n * T := hc.2
    have h3 : (i + 1) * T ≥ n * T := by linarith
    have : i + 1 ≥ n := by
      by_contra hlt
      push Not at hlt
      have : (i + 1) * T < n * T := by nlinarith
      linarith
    omega
  · simp at h

/-- all percentages of every block lie in [0,100] and are increasing (C33, third clause) -/
theorem kf_in_range (n T i : Int) (hn : 1 ≤ n) (hT : 2 ≤ T) (hi0 : 0 ≤ i) (hi : i < n) :
    0 ≤ (boardKF n T i).before ∧ (boardKF n T i).before ≤ (boardKF n T i).start ∧
      (boardKF n T i).start ≤ (boardKF n T i).end_ ∧ (boardKF n T i).end_ ≤ 100 ∧
      (∀ a, (boardKF n T i).after = some a → (boardKF n T i).end_ ≤ a ∧ a ≤ 100) := by
  have htot : 0 < n * T := by nlinarith
  have hiT : 0 ≤ i * T := by nlinarith
  have hle : i * T + T ≤ n * T := by nlinarith
  have hB : 0 ≤ pct (max 0 (i * T - transitionMS)) (n * T) := pct_nonneg htot (le_max_left _ _)
  have hBS : pct (max 0 (i * T - transitionMS)) (n * T) ≤ pct (i * T) (n * T) :=
    pct_mono htot (by unfold transitionMS; omega)
  have hSE : pct (i * T) (n * T) ≤ pct (i * T + T - transitionMS) (n * T) :=
    pct_mono htot (by unfold transitionMS; omega)
  have hE100 : pct (i * T + T - transitionMS) (n * T) ≤ 100 :=
    pct_le_100 htot (by unfold transitionMS; omega)
  unfold boardKF makeKeyframe
  simp only
  split
  · rename_i hc
    refine ⟨hB, hBS, ?_, ?_, ?_⟩
    · exact le_trans hSE Rat.le_ceil
    · rw [hc.1]; norm_num
    · intro a ha; exact absurd ha (by simp)
  · refine ⟨hB, hBS, hSE, hE100, ?_⟩
    intro a ha
    simp only [Option.some.injEq] at ha
    subst ha
    exact ⟨pct_mono htot (by unfold transitionMS; omega), pct_le_100 htot hle⟩

/-- **C33**: for every number of boards `n ≥ 1`, interval `T ≥ 2` ms and every moment `t` of the cycle outside the
    1 ms transitions — i.e. `i·T ≤ t ≤ (i+1)·T − 1` for the board index `i` of that interval — board `i` has
    opacity exactly 1 and every other board has opacity exactly 0. -/
theorem C33_exactly_one (n T i : Int) (hn : 1 ≤ n) (hT : 2 ≤ T) (hi0 : 0 ≤ i) (hi : i < n)
    (t : Rat) (ht0 : ((i * T : Int) : Rat) ≤ t) (ht1 : t ≤ ((i * T + T - 1 : Int) : Rat)) :
    (boardKF n T i).visible (pctR t (n * T)) ∧
    ∀ j, 0 ≤ j → j < n → j ≠ i → (boardKF n T j).hidden (pctR t (n * T)) := by
  have htot : 0 < n * T := by nlinarith
  constructor
  · -- board i is fully visible
    have hr := kf_in_range n T i hn hT hi0 hi
    unfold KF.visible
    have hs : (boardKF n T i).start = pct (i * T) (n * T) := by
      unfold boardKF makeKeyframe; simp only; split <;> rfl
    constructor
    · rw [hs, ← pctR_int]; exact pctR_mono htot ht0
    · have hE : pct (i * T + T - transitionMS) (n * T) ≤ (boardKF n T i).end_ := by
        unfold boardKF makeKeyframe; simp only
        split
        · exact Rat.le_ceil
        · exact le_refl _
      refine le_trans ?_ hE
      rw [← pctR_int]; exact pctR_mono htot (by simpa [transitionMS] using ht1)
  · intro j hj0 hj hne
    unfold KF.hidden
    rcases lt_or_gt_of_ne hne with hlt | hgt
    · -- j < i : board j has already faded out (it cannot be in the last branch)
      right
      have hnl : (boardKF n T j).after = some (pct (j * T + T) (n * T)) := by
        unfold boardKF makeKeyframe; simp only
        split
        · rename_i hc
          have h1 : j * T + T ≥ n * T := hc.2
          have h2 : j * T + T ≤ i * T := by nlinarith
          have h3 : i * T < n * T := by nlinarith
          omega
        · rfl
      rw [hnl]
      simp only
      have : j * T + T ≤ i * T := by nlinarith
      rw [← pctR_int]
      exact pctR_mono htot (le_trans (by exact_mod_cast this) ht0)
    · -- j > i : board j has not started
      left
      have hb : (boardKF n T j).before = pct (max 0 (j * T - transitionMS)) (n * T) := by
        unfold boardKF makeKeyframe; simp only; split <;> rfl
      have hs : (boardKF n T j).start = pct (j * T) (n * T) := by
        unfold boardKF makeKeyframe; simp only; split <;> rfl
      have hk : i * T + T - 1 ≤ j * T - 1 := by nlinarith
      rw [hb, hs]
      constructor
      · rw [← pctR_int]
        apply pctR_mono htot
        refine le_trans ht1 ?_
        have : i * T + T - 1 ≤ max 0 (j * T - transitionMS) := le_trans hk (le_max_right _ _)
        exact_mod_cast this
      · rw [← pctR_int]
        apply pctR_lt htot
        have : i * T + T - 1 < j * T := by omega
        exact lt_of_le_of_lt ht1 (by exact_mod_cast this)

/-- Non-vacuity: the hypotheses are met (3 boards, 1 s interval, t = 1500 ms is in board 1's interval). -/
example : (boardKF 3 1000 1).visible (pctR 1500 (3 * 1000)) ∧ (boardKF 3 1000 0).hidden (pctR 1500 (3 * 1000))
    ∧ (boardKF 3 1000 2).hidden (pctR 1500 (3 * 1000)) := by
  have h := C33_exactly_one 3 1000 1 (by norm_num) (by norm_num) (by norm_num) (by norm_num) 1500
    (by norm_num) (by norm_num)
  exact ⟨h.1, h.2 0 (by norm_num) (by norm_num) (by norm_num), h.2 2 (by norm_num) (by norm_num) (by norm_num)⟩

/-- The defect this property exposed in the unfixed code (branch test `ceil(percentageEnd) = 100` alone):
    with 101 boards and T = 1000 ms the second-to-last board also takes the "last" branch, so it is still fully
    visible in the middle of the last board's interval. Replayed on the implementation before the `fix:` commit. -/
theorem C33_cx_101_boards_old :
    (boardKFOld 101 1000 99).after = none ∧ (boardKFOld 101 1000 99).end_ = 100 := by
  unfold boardKFOld makeKeyframeOld pct transitionMS
  have : ((((99 * 1000 + 1000 - 1 : Int) : Rat) / ((101 * 1000 : Int) : Rat) * 100)).ceil = 100 := by
    apply le_antisymm
    · rw [Rat.ceil_le_iff]; norm_num
    · have : (99 : Int) < ((((99 * 1000 + 1000 - 1 : Int) : Rat) / ((101 * 1000 : Int) : Rat) * 100)).ceil := by
        rw [Rat.lt_ceil_iff]; norm_num
      omega
  simp only [this]
  norm_num

end D2V.Anim
