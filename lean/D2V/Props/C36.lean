import D2V.Model.Edit
import D2V.Proofs.EditPaths
/-!
  C36 — editing produces compilable, formatter-stable source.

  What is checked on every successful real edit (driver, Spec-on-impl): `Compile(newText)` equals the returned
  diagram on every board, `Format(Parse newText) = newText`, and the returned diagram is well-formed (`Diagram.wf`:
  non-empty unique IDs, containers exist, endpoints exist, parallel indices consecutive).
  What is proved here: well-formedness is an invariant of histories for every family of steps that preserves it
  (`history_preserves`), and `Set` (label / any attribute, objects) preserves it for every diagram; for create / delete /
  rename / move / reconnect the preservation of `wf` by `Edit.Spec` is the stated goal `C36_spec_preserves_wf_goal`,
  not proved (it needs the freshness side conditions `validDest` / `validHoist`), and is evaluated per step on the
  implementation instead.
-/
namespace D2V.Edit

def pathsOf (d : Diagram) : List Path := d.objs.map (·.path)

theorem hasObj_paths (d : Diagram) (q : Path) : d.hasObj q = (pathsOf d).any fun r => samePath r q := by
  simp [Diagram.hasObj, pathsOf, List.any_map, Function.comp_def]

/-- `wf` looks at the objects only through their paths -/
def wfP (paths : List Path) (edges : List Edge) : Bool :=
  paths.all (fun p => !p.isEmpty) && nodupKeys paths &&
    (paths.all fun p => (List.range p.length).all fun n => n == 0 || paths.any fun r => samePath r (p.take n)) &&
    (edges.all fun e => (paths.any fun r => samePath r e.src) && (paths.any fun r => samePath r e.dst)) &&
    indicesConsecutive ⟨[], edges⟩

theorem wf_eq (d : Diagram) : d.wf = wfP (pathsOf d) d.edges := by
  unfold Diagram.wf wfP prefixClosed endpointsExist
  simp only [hasObj_paths]
  simp [pathsOf, List.all_map, Function.comp_def, indicesConsecutive]

theorem setObjAttr_paths (d : Diagram) (p : Path) (k : String) (v : Option String) :
    pathsOf (Spec.setObjAttr d p k v) = pathsOf d := by
  simp only [pathsOf, Spec.setObjAttr, List.map_map]
  apply List.map_congr_left
  intro o _
  by_cases h : samePath o.path p = true <;> simp [h]

theorem setObjLabel_paths (d : Diagram) (p : Path) (v : String) : pathsOf (Spec.setObjLabel d p v) = pathsOf d := by
  simp only [pathsOf, Spec.setObjLabel, List.map_map]
  apply List.map_congr_left
  intro o _
  by_cases h : samePath o.path p = true <;> simp [h]

/-- `Set` of a label or an attribute of an object never breaks well-formedness -/
theorem set_preserves_wf (d : Diagram) (p : Path) (k : String) (v : Option String) (l : String) :
    (Spec.setObjAttr d p k v).wf = d.wf ∧ (Spec.setObjLabel d p l).wf = d.wf := by
  constructor
  · rw [wf_eq, wf_eq, setObjAttr_paths]; rfl
  · rw [wf_eq, wf_eq, setObjLabel_paths]; rfl

/-- invariants of steps are invariants of histories (any length) -/
theorem history_preserves {Op : Type} (step : Diagram → Op → Diagram) (inv : Diagram → Prop)
    (hstep : ∀ d op, inv d → inv (step d op)) : ∀ (ops : List Op) (d : Diagram), inv d → inv (ops.foldl step d) := by
  intro ops
  induction ops with
  | nil => intro d h; exact h
  | cons op r ih => intro d h; exact ih (step d op) (hstep d op h)

/-- histories of Sets keep a well-formed diagram well-formed -/
theorem set_history_preserves_wf (ops : List (Path × String × Option String)) (d : Diagram) (h : d.wf = true) :
    (ops.foldl (fun d op => Spec.setObjAttr d op.1 op.2.1 op.2.2) d).wf = true :=
  history_preserves (fun d (op : Path × String × Option String) => Spec.setObjAttr d op.1 op.2.1 op.2.2) (fun d => d.wf = true)
    (fun d op hd => by rw [(set_preserves_wf d op.1 op.2.1 op.2.2 "").1]; exact hd) ops d h

/-- stated goal (not proved): the structural edits of the abstract semantics preserve well-formedness under their
    side conditions -/
def C36_spec_preserves_wf_goal : Prop :=
  ∀ (d : Diagram), d.wf = true →
    (∀ p d', Spec.createObj d p = some d' → d'.wf = true) ∧
    (∀ x ren, d.hasObj x = true → Spec.validHoist d x ren = true → (Spec.deleteObj d x ren).wf = true) ∧
    (∀ x n, d.hasObj x = true → Spec.validDest d x n = true → (Spec.moveWith d x n).wf = true)

/-- the goal is at least true on a witness with a collision -/
example :
    let d : Diagram := { objs := [⟨["a"], "L1", []⟩, ⟨["a", "b"], "L2", []⟩, ⟨["b"], "L3", []⟩],
                         edges := [⟨["a", "b"], ["b"], false, true, 0, "E1", []⟩] }
    d.wf = true ∧ (Spec.deleteObj d ["a"] [("b", "b 2")]).wf = true ∧ (Spec.deleteObj d ["a"] []).wf = false ∧
      (Spec.moveWith d ["a"] ["c"]).wf = true ∧ ((Spec.createObj d ["x", "y"]).map (·.wf)) = some true := by
  decide

end D2V.Edit
