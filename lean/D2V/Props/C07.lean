import D2V.Model.CompileLeaves
/-! C07 — Compilation is total: the crash-capable leaves never crash (current code), and did (before the fixes). -/
namespace D2V.CompileLeaves

/-! ### matchPattern -/

theorem isPrefixOf_length {p s : Bytes} (h : p.isPrefixOf s = true) : p.length ≤ s.length :=
  (List.isPrefixOf_iff_prefix.mp h).length_le

/-- `strings.Index` returns an offset at which the needle fits inside the haystack -/
theorem indexFrom_bound {p s : Bytes} {k j : Nat} (h : indexFrom p s k = some j) :
    k ≤ j ∧ (j - k) + p.length ≤ s.length := by
  induction s generalizing k with
  | nil =>
    unfold indexFrom at h
    split at h
    · rename_i hp
      have := isPrefixOf_length hp
      simp at h; subst h; simp at this ⊢; omega
    · simp at h
  | cons c t ih =>
    unfold indexFrom at h
    split at h
    · rename_i hp
      have := isPrefixOf_length hp
      simp at h; subst h; simp at this ⊢; omega
    · have := ih h
      simp; omega

theorem index_bound {p s : Bytes} {j : Nat} (h : index s p = some j) : j + p.length ≤ s.length := by
  have := indexFrom_bound h
  omega

theorem sliceFrom_ok {s : Bytes} {k : Nat} (h : k ≤ s.length) : sliceFrom s k = .ok (s.drop k) := by
  simp [sliceFrom, h]

theorem matchGo_total_aux : ∀ (n : Nat) (pat : List Part), pat.length ≤ n →
    ∀ (ls : Bytes) (c : Crash), matchGo ls pat ≠ .error c := by
  intro n
  induction n with
  | zero =>
    intro pat h ls c
    have : pat = [] := List.eq_nil_of_length_eq_zero (by omega)
    subst this; simp [matchGo]
  | succ n ih =>
    intro pat h ls c
    match pat, h with
    | [], _ => simp [matchGo]
    | [p], _ =>
      unfold matchGo
      by_cases hs : p.isStar
      · simp [hs]
      · simp only [hs]
        by_cases hp : p.low.isPrefixOf ls
        · simp [hp, sliceFrom_ok (isPrefixOf_length hp), matchGo]
        · simp [hp]
    | p :: q :: rest', h =>
      unfold matchGo
      by_cases hs : p.isStar
      · simp only [hs, if_true]
        cases hi : index ls q.low with
        | none => simp
        | some j =>
          simp only [sliceFrom_ok (index_bound hi)]
          exact ih rest' (by simp at h; omega) _ c
      · simp only [hs]
        by_cases hp : p.low.isPrefixOf ls
        · simp only [hp, if_true, sliceFrom_ok (isPrefixOf_length hp)]
          exact ih (q :: rest') (by simp at h ⊢; omega) _ c
        · simp [hp]

/-- the current `matchPattern` loop never slices out of range — for every name and every pattern, whatever
    `strings.ToLower` returned -/
theorem matchGo_total (pat : List Part) (ls : Bytes) (c : Crash) : matchGo ls pat ≠ .error c :=
  matchGo_total_aux pat.length pat (Nat.le_refl _) ls c

theorem matchPattern_total (reserved : Bool) (ls : Bytes) (pat : List Part) (c : Crash) :
    matchPattern reserved ls pat ≠ .error c := by
  unfold matchPattern
  split
  · simp
  · split
    · simp
    · exact matchGo_total pat ls c

/-- the implication above is not vacuous: a pattern that matches, one that does not -/
example : matchPattern false [0x61, 0x62, 0x63] [⟨false, [0x61]⟩, ⟨true, star⟩] = .ok true := by decide
example : matchPattern false [0x61, 0x62, 0x63] [⟨true, star⟩, ⟨false, [0x7A]⟩] = .ok false := by decide

/-- Counterexample (replayed on d2 before the fix: `Ⱥ⏎ⱥ*: {…}` → slice bounds out of range [3:2]):
    name `Ⱥ` (2 bytes), pattern `ⱥ*` (first part 3 bytes). -/
theorem C07_cx_glob_nonascii :
    matchPatternOld demoLower false [0xC8, 0xBA] [[0xE2, 0xB1, 0xA5], star] = .error .sliceBounds := by decide

/-- …and the same input through the current code -/
example : matchPattern false (demoLower [0xC8, 0xBA]) [⟨false, [0xE2, 0xB1, 0xA5]⟩, ⟨true, star⟩] = .ok true := by decide

theorem matchOld_total_aux (lower : Bytes → Bytes) (hl : ∀ x, (lower x).length = x.length) :
    ∀ (n : Nat) (pat : List Bytes), pat.length ≤ n → ∀ (s : Bytes) (c : Crash), matchOld lower s pat ≠ .error c := by
  intro n
  induction n with
  | zero =>
    intro pat h s c
    have : pat = [] := List.eq_nil_of_length_eq_zero (by omega)
    subst this; simp [matchOld]
  | succ n ih =>
    intro pat h s c
    match pat, h with
    | [], _ => simp [matchOld]
    | [p], _ =>
      unfold matchOld
      by_cases hs : p = star
      · simp [hs]
      · simp only [hs, if_false]
        by_cases hp : (lower p).isPrefixOf (lower s)
        · have := isPrefixOf_length hp
          rw [hl, hl] at this
          simp [hp, sliceFrom_ok this, matchOld]
        · simp [hp]
    | p :: q :: rest', h =>
      unfold matchOld
      by_cases hs : p = star
      · simp only [hs, if_true]
        cases hi : index (lower s) (lower q) with
        | none => simp
        | some j =>
          have := index_bound hi
          rw [hl, hl] at this
          simp only [sliceFrom_ok this]
          exact ih rest' (by simp at h; omega) _ c
      · simp only [hs, if_false]
        by_cases hp : (lower p).isPrefixOf (lower s)
        · have := isPrefixOf_length hp
          rw [hl, hl] at this
          simp only [hp, if_true, sliceFrom_ok this]
          exact ih (q :: rest') (by simp at h ⊢; omega) _ c
        · simp [hp]

/-- The old loop was safe exactly where lower-casing preserves lengths. -/
theorem matchOld_total_of_length_preserving (lower : Bytes → Bytes) (hl : ∀ x, (lower x).length = x.length)
    (pat : List Bytes) (s : Bytes) (c : Crash) : matchOld lower s pat ≠ .error c :=
  matchOld_total_aux lower hl pat.length pat (Nat.le_refl _) s c

/-! ### compileArray -/

mutual
theorem compileArray_total : ∀ (ns : List ANode) (c : Crash), compileArray ns ≠ .error c
  | [], c => by simp [compileArray]
  | n :: rest, c => by
    unfold compileArray
    have h1 := compileNode_total n
    have h2 := compileArray_total rest
    cases hn : compileNode n with
    | error e => exact absurd hn (h1 e)
    | ok a =>
      cases hr : compileArray rest with
      | error e => exact absurd hr (h2 e)
      | ok b => simp

theorem compileNode_total : ∀ (n : ANode) (c : Crash), compileNode n ≠ .error c
  | .scalar, c => by simp [compileNode]
  | .array ns, c => by
    unfold compileNode
    have h := compileArray_total ns
    cases hr : compileArray ns with
    | error e => exact absurd hr (h e)
    | ok o => simp
  | .map, c => by simp [compileNode]
  | .subst _, c => by simp [compileNode]
  | .comment, c => by simp [compileNode]
  | .blockComment, c => by simp [compileNode]
  | .nilBox, c => by simp [compileNode]
  | .import_ sp t, c => by
    cases sp <;> cases t <;> simp [compileNode]
end

/-- Counterexample (replayed: `x: [a; """ c """; b]` → nil pointer dereference in `Array.Copy`) -/
theorem C07_cx_array_blockcomment :
    compileArrayOld [.scalar, .blockComment, .scalar] = .error .nilDeref := by
  simp [compileArrayOld, compileNodeOld]

/-- Counterexample (replayed: `x: [@y.z]` with `y.d2` = `z` → nil pointer dereference in `resolveSubstitutions`) -/
theorem C07_cx_array_import_novalue :
    compileArrayOld [.import_ false .fieldEmpty] = .error .nilDeref := by
  simp [compileArrayOld, compileNodeOld]

example : compileArray [.scalar, .blockComment, .scalar] = .ok ⟨[.scalar, .scalar], 0⟩ := by
  simp [compileArray, compileNode]
example : compileArray [.import_ false .fieldEmpty] = .ok ⟨[], 1⟩ := by
  simp [compileArray, compileNode]

/-! ### compileThemeOverrides -/

theorem themeOverrides_ok (fs : List TField) (inv : ∀ f ∈ fs, f.hasPrimary = true → f.hasPrimaryKey = true) :
    ∃ n, themeOverrides fs = .ok n := by
  induction fs with
  | nil => exact ⟨0, rfl⟩
  | cons f rest ih =>
    obtain ⟨n, hn⟩ := ih (fun g hg => inv g (List.mem_cons_of_mem _ hg))
    unfold themeOverrides
    simp only [hn]
    by_cases hp : f.hasPrimary
    · have hk := inv f (List.mem_cons_self) hp
      simp only [hp, hk, Bool.not_true, Bool.false_eq_true, if_false, if_true]
      split
      · exact ⟨_, rfl⟩
      · exact ⟨_, rfl⟩
    · simp only [hp, Bool.not_false, if_true]
      exact ⟨_, rfl⟩

/-- A field that has a primary value was last set by some key (`ensureField` appends the reference before
    `_compileField` stores `Primary_`); under that invariant the current function is total. -/
theorem themeOverrides_total (fs : List TField) (inv : ∀ f ∈ fs, f.hasPrimary = true → f.hasPrimaryKey = true)
    (c : Crash) : themeOverrides fs ≠ .error c := by
  obtain ⟨n, hn⟩ := themeOverrides_ok fs inv
  rw [hn]; simp

example : themeOverrides [⟨"N1", true, true, true⟩, ⟨"XX", true, false, true⟩] = .ok 1 := by decide

/-- Counterexample (replayed: `theme-overrides: {N1: {a: b}}` → nil pointer dereference) -/
theorem C07_cx_theme_override_map :
    themeOverridesOld [⟨"N1", false, false, true⟩] = .error .nilDeref := by decide

/-- Counterexample (replayed: `theme-overrides: {XX.y: 1}` → `Errorf(nil *Key)` → nil pointer dereference) -/
theorem C07_cx_theme_override_nokey :
    themeOverridesOld [⟨"XX", false, false, false⟩] = .error .nilDeref := by decide

example : themeOverrides [⟨"N1", false, false, true⟩] = .ok 1 := by decide
example : themeOverrides [⟨"XX", false, false, false⟩] = .ok 1 := by decide

/-! ### createEdge keyword index -/

theorem findSeg_lt {k : Seg} {l : List Seg} {i : Nat} (h : findSeg k l = some i) : i < l.length := by
  induction l generalizing i with
  | nil => simp [findSeg] at h
  | cons s t ih =>
    unfold findSeg at h
    split at h
    · simp at h; subst h; simp
    · cases hf : findSeg k t with
      | none => simp [hf] at h
      | some j =>
        simp [hf] at h; subst h
        have := ih hf
        simp; omega

theorem edgeKeyword_total (res : List Seg) (c : Crash) : edgeKeyword res ≠ .error c := by
  unfold edgeKeyword
  cases h1 : findSeg .prohibited res with
  | some i => simp [findSeg_lt h1]
  | none =>
    cases h2 : findSeg .board res with
    | some i =>
      have := findSeg_lt h2
      simp only
      split
      · simp [this]
      · simp
    | none => simp

/-- Counterexample (replayed: `x: { style -> _.y }` → index out of range [1] with length 1): the key path
    `style` has one element, the resolved path is `x.style`. -/
theorem C07_cx_edge_keyword_underscore :
    edgeKeywordOld 1 [.plain, .prohibited] = .error .indexRange := by decide

/-- Counterexample (replayed: `_ -> a` inside a container: resolved source path is empty, `-1 == len-1`) -/
theorem C07_cx_edge_keyword_empty : edgeKeywordOld 1 [] = .error .indexRange := by decide

example : edgeKeyword [.plain, .prohibited] = .ok (some 1) := by decide

/-! ### EdgeID.resolve -/

theorem strip_ok (p : UPath) : ∃ q, strip p = .ok q := by
  match p with
  | [] => exact ⟨_, rfl⟩
  | true :: t => exact ⟨_, rfl⟩
  | false :: t => exact ⟨_, rfl⟩

theorem iterBoth_strip_ok (n : Nat) : ∀ s d, ∃ r, iterBoth strip n s d = .ok r := by
  induction n with
  | zero => intro s d; exact ⟨_, rfl⟩
  | succ k ih =>
    intro s d
    obtain ⟨s', hs⟩ := strip_ok s
    obtain ⟨d', hd⟩ := strip_ok d
    unfold iterBoth
    rw [hs, hd]
    exact ih s' d'

theorem resolve_total (s d : UPath) (c : Crash) : resolve s d ≠ .error c := by
  obtain ⟨r, hr⟩ := iterBoth_strip_ok (max (countUnderscores s) (countUnderscores d)) s d
  unfold resolve; rw [hr]; simp

/-- Counterexample (replayed: `c: { _ -> _._.x }` → index out of range [0] with length 0 in `EdgeID.resolve`) -/
theorem C07_cx_resolve_underscores : resolveOld [true] [true, true, false] = .error .indexRange := by decide

example : resolve [true] [true, true, false] = .ok ([false], [false]) := by decide

/-! ### resolveSubstitutions -/

theorem resolveSubst_total (n : SNode) (f : SForm) (v : VShape) (c : Crash) : resolveSubst n f v ≠ .error c := by
  cases n <;> cases f <;> cases v <;> simp [resolveSubst, resolveSubstWith]

/-- Counterexample (replayed: `vars: {x}⏎a: "${x}"` → nil pointer dereference in `resolveSubstitutions`; also as an
    edge label and as an array element) -/
theorem C07_cx_subst_novalue_quoted :
    resolveSubstOld .field .dqWhole .noValue = .error .nilDeref ∧
    resolveSubstOld .edge .dqPart .noValue = .error .nilDeref ∧
    resolveSubstOld .arrayElem .dqWhole .noValue = .error .nilDeref := by decide

/-- the old code crashed only there -/
theorem resolveSubstOld_crash_iff (n : SNode) (f : SForm) (v : VShape) (c : Crash) :
    resolveSubstOld n f v = .error c ↔ (v = .noValue ∧ (f = .dqWhole ∨ f = .dqPart) ∧ c = .nilDeref) := by
  cases n <;> cases f <;> cases v <;> cases c <;> simp [resolveSubstOld, resolveSubstWith]

/-! ### DeleteField keyword holder -/

theorem holderEmpty_total (h : Holder) (c : Crash) : holderEmpty h ≠ .error c := by
  cases h <;> simp [holderEmpty]

/-- Counterexample (replayed: `style: [{a: null}]` → nil pointer dereference in `Map.DeleteField`) -/
theorem C07_cx_delete_under_array_holder : holderEmptyOld .array = .error .nilDeref := by decide

/-! ### newObject under a class / sql_table object -/

theorem newObject_total (b : Bool) (c : Crash) : newObject b ≠ .error c := by simp [newObject]

/-- Counterexample (replayed: `d: {shape: class; f0}⏎d: {c: {_.A.B <-> b}}` → assignment to entry in nil map;
    reported by agent-sem, also `shape: sql_table⏎A: {_.z.y -> b}`) -/
theorem C07_cx_class_scope_child : newObjectOld true = .error .nilMapWrite := by decide

/-! ### class application -/

/-- Counterexample (replayed: `classes: {a: {class: a}}⏎x.class: a` → fatal stack overflow): the old
    recursion exhausts any stack. -/
theorem C07_cx_class_self_reference (n : Nat) :
    applyClassOld [("a", ["a"])] n "a" = .error .stackOverflow := by
  induction n with
  | zero => rfl
  | succ k ih =>
    simp [applyClassOld, ClassEnv.refs, List.find?, ih]

/-- classes (with multiplicity) that are not yet on the stack -/
def free (env : ClassEnv) (stack : List String) : Nat := env.countP fun kv => !stack.contains kv.1

theorem refs_mem {env : ClassEnv} {c : String} {rs : List String} (h : env.refs c = some rs) :
    ∃ kv ∈ env, kv.1 = c := by
  unfold ClassEnv.refs at h
  cases hf : env.find? (·.1 == c) with
  | none => simp [hf] at h
  | some kv =>
    refine ⟨kv, List.mem_of_find?_eq_some hf, ?_⟩
    have := List.find?_some hf
    simpa using this

theorem notOn_push {stack : List String} {c x : String} (h : (!(c :: stack).contains x) = true) :
    (!stack.contains x) = true := by
  simp only [List.contains_cons, Bool.not_or, Bool.and_eq_true] at h
  exact h.2

theorem free_push_le (env : ClassEnv) (stack : List String) (c : String) : free env (c :: stack) ≤ free env stack := by
  unfold free
  exact List.countP_mono_left (fun x _ hx => notOn_push hx)

theorem free_push_lt {env : ClassEnv} {stack : List String} {c : String}
    (hc : stack.contains c = false) (hm : ∃ kv ∈ env, kv.1 = c) : free env (c :: stack) < free env stack := by
  obtain ⟨kv, hkv, rfl⟩ := hm
  induction env with
  | nil => simp at hkv
  | cons e rest ih =>
    have hle := free_push_le rest stack kv.1
    unfold free at hle ih ⊢
    rw [List.countP_cons, List.countP_cons]
    rcases List.mem_cons.mp hkv with h | h
    · subst h
      have h1 : (!(kv.1 :: stack).contains kv.1) = false := by simp
      have h2 : (!stack.contains kv.1) = true := by rw [hc]; rfl
      simp only [h1, h2, if_true]
      simp only [Bool.false_eq_true, if_false]
      omega
    · have := ih h
      by_cases hn : (!(kv.1 :: stack).contains e.1) = true
      · have ho := notOn_push hn
        simp only [hn, ho, if_true]
        omega
      · rw [if_neg hn]
        split <;> omega

theorem foldl_ok {α : Type} (f : α → Except Crash Nat) (rs : List α) (init : Nat)
    (h : ∀ r ∈ rs, ∃ n, f r = .ok n) :
    ∃ m, rs.foldl (fun (acc : Except Crash Nat) r => match acc, f r with
        | .error e, _ => Except.error e
        | _, .error e => Except.error e
        | .ok a, .ok b => Except.ok (a + b)) (Except.ok init) = Except.ok m := by
  induction rs generalizing init with
  | nil => exact ⟨init, rfl⟩
  | cons r rest ih =>
    obtain ⟨n, hn⟩ := h r (List.mem_cons_self)
    simp only [List.foldl_cons, hn]
    exact ih (init + n) (fun r' hr' => h r' (List.mem_cons_of_mem _ hr'))

/-- the recursion depth of a guarded walk is bounded by the number of keys: the `stackOverflow` branch of the
    model is unreachable whenever the fuel exceeds the keys not yet on the stack -/
theorem guardedWalk_fuel_enough (hit node : Nat) (env : ClassEnv) : ∀ (fuel : Nat) (stack : List String) (c : String),
    free env stack < fuel → ∃ n, guardedWalk hit node env fuel stack c = .ok n := by
  intro fuel
  induction fuel with
  | zero => intro stack c h; omega
  | succ k ih =>
    intro stack c h
    unfold guardedWalk
    by_cases hs : stack.contains c
    · rw [if_pos hs]; exact ⟨hit, rfl⟩
    · rw [if_neg hs]
      cases hr : env.refs c with
      | none => simp
      | some rs =>
        simp only
        have hlt := free_push_lt (by simpa using hs) (refs_mem hr)
        apply foldl_ok (fun r => guardedWalk hit node env k (c :: stack) r) rs node
        intro r _
        exact ih (c :: stack) r (by omega)

theorem guardedWalk_total (hit node : Nat) (env : ClassEnv) (c : String) (e : Crash) :
    guardedWalk hit node env (env.length + 1) [] c ≠ .error e := by
  have hf : free env [] < env.length + 1 := by
    unfold free
    have := List.countP_le_length (p := fun kv : String × List String => !([] : List String).contains kv.1) (l := env)
    omega
  obtain ⟨n, hn⟩ := guardedWalk_fuel_enough hit node env (env.length + 1) [] c hf
  rw [hn]; simp

/-- class application with the class stack terminates within |classes|+1 frames -/
theorem applyClass_total (env : ClassEnv) (c : String) (e : Crash) :
    applyClass env (env.length + 1) [] c ≠ .error e := guardedWalk_total 0 1 env c e

/-- `import_terminates`: with the cycle test the import recursion is at most |files|+1 deep, whatever the files
    import (cycles included) -/
theorem import_terminates (files : ClassEnv) (root : String) (e : Crash) :
    importWalk files (files.length + 1) [] root ≠ .error e := guardedWalk_total 1 0 files root e

example : importWalk [("index", ["x"]), ("x", ["y"]), ("y", ["x"])] 4 [] "index" = .ok 1 := by decide
example : importWalk [("index", ["x", "y"]), ("x", ["y"]), ("y", [])] 4 [] "index" = .ok 0 := by decide

example : applyClass [("a", ["a"])] 2 [] "a" = .ok 1 := by decide
example : applyClass [("a", ["b"]), ("b", ["a", "c"]), ("c", [])] 4 [] "a" = .ok 3 := by decide

/-- `compileKey`'s glob guard has the same discipline (`globRefContextStack`: a glob context that `Equal`s one
    already on the stack is not re-applied): with contexts as keys and "applying context c makes the contexts
    `refs c` due" as edges, the re-application recursion is bounded by the number of distinct glob contexts. -/
theorem glob_guard_terminates (ctxs : ClassEnv) (c : String) (e : Crash) :
    guardedWalk 0 1 ctxs (ctxs.length + 1) [] c ≠ .error e := guardedWalk_total 0 1 ctxs c e

/-! ### import stack -/

/-- `pushImportStack` keeps the stack duplicate-free, so its depth is bounded by the number of distinct paths -/
theorem pushImport_nodup {stack s' : List String} {p : String} (hn : stack.Nodup)
    (h : pushImport stack p = some s') : s'.Nodup ∧ s'.length = stack.length + 1 := by
  unfold pushImport at h
  split at h
  · simp at h
  · rename_i hc
    simp at h; subst h
    constructor
    · exact List.nodup_cons.mpr ⟨by simpa using hc, hn⟩
    · simp

/-- a cyclic import is refused (this is where "detected cyclic import chain" is reported) -/
theorem cycle_reported {stack : List String} {p : String} (h : p ∈ stack) : pushImport stack p = none := by
  simp [pushImport, h]

end D2V.CompileLeaves
