import D2V.Model.Nest
/-! C18 — Layout preserves structure: the Go orchestration around the core layouts.

  `restoreOrder_id`     the `SaveOrder` restore gives back exactly the saved order from *any* permutation of
                        the elements, as long as the keys (AbsIDs) are pairwise different;
  `partition_restore`   whatever predicate `ExtractSubgraph` partitions by, appending the extracted part back
                        (what `InjectNested` does) and restoring order gives the original list — for objects
                        (two parts) and for edges (three parts: remaining, nested, external);
  `extract_inject_objects_id`  the object records (key, parent, children) after extract → inject → restore are
                        the original records, for `includeSelf = false` on a well-formed arena.
  The core layouts' contract (structure unchanged) and the whole `LayoutNested` walk are checked on real runs
  (Drv/C18.lean), not proved. -/
namespace D2V.Nest

/-! ### restoring a saved order -/

theorem objIdx_getElem (ks : List String) (hnd : ks.Nodup) (i : Nat) (hi : i < ks.length) :
    objIdx ks ks[i] = i := by
  unfold objIdx indexOf
  have h := hnd.idxOf_getElem i hi
  simp [h, hi]

/-- a list whose keys are pairwise different is sorted by saved index -/
theorem pairwise_saved {α} (key : α → String) (l : List α) (hnd : (l.map key).Nodup) :
    l.Pairwise (fun a b => decide (objIdx (l.map key) (key a) ≤ objIdx (l.map key) (key b)) = true) := by
  rw [List.pairwise_iff_getElem]
  intro i j hi hj hij
  have h1 := objIdx_getElem (l.map key) hnd i (by simpa using hi)
  have h2 := objIdx_getElem (l.map key) hnd j (by simpa using hj)
  simp only [List.getElem_map] at h1 h2
  simp only [decide_eq_true_eq, h1, h2]
  omega

/-- on members of the saved list the index determines the element -/
theorem objIdx_inj {α} (key : α → String) (l : List α) (hnd : (l.map key).Nodup) (a b : α)
    (ha : a ∈ l) (hb : b ∈ l) (h : objIdx (l.map key) (key a) = objIdx (l.map key) (key b)) : a = b := by
  obtain ⟨i, hi, rfl⟩ := List.getElem_of_mem ha
  obtain ⟨j, hj, rfl⟩ := List.getElem_of_mem hb
  have h1 := objIdx_getElem (l.map key) hnd i (by simpa using hi)
  have h2 := objIdx_getElem (l.map key) hnd j (by simpa using hj)
  simp only [List.getElem_map] at h1 h2
  rw [h1, h2] at h
  subst h
  rfl

/-- a stable sort of a permutation of an already sorted list with an antisymmetric-on-members order gives that list -/
theorem sort_perm_eq {α} (le : α → α → Bool) (saved cur : List α) (hperm : cur.Perm saved)
    (htrans : ∀ a b c : α, le a b = true → le b c = true → le a c = true)
    (htotal : ∀ a b : α, (le a b || le b a) = true)
    (hsaved : saved.Pairwise (fun a b => le a b = true))
    (hanti : ∀ a b, a ∈ saved → b ∈ saved → le a b = true → le b a = true → a = b) :
    stableSort le cur = saved := by
  unfold stableSort
  have hsorted : (cur.mergeSort le).Pairwise (fun a b => le a b = true) := List.pairwise_mergeSort htrans htotal cur
  have hp : (cur.mergeSort le).Perm saved := (List.mergeSort_perm cur le).trans hperm
  refine List.Perm.eq_of_pairwise (le := fun a b => le a b = true) ?_ hsorted hsaved hp
  intro a b ha hb h1 h2
  exact hanti a b (hp.subset ha) hb h1 h2

/-- **restoreOrder_id** (generic form): stable-sorting any permutation of `saved` by saved index gives `saved`,
    when the keys are injective on `saved` -/
theorem restore_perm {α} (key : α → String) (saved cur : List α) (hperm : cur.Perm saved)
    (hnd : (saved.map key).Nodup) :
    stableSort (fun a b => decide (objIdx (saved.map key) (key a) ≤ objIdx (saved.map key) (key b))) cur = saved := by
  apply sort_perm_eq _ saved cur hperm
  · intro a b c h1 h2
    simp only [decide_eq_true_eq] at *
    omega
  · intro a b
    simp only [Bool.or_eq_true, decide_eq_true_eq]
    omega
  · exact pairwise_saved key saved hnd
  · intro a b ha hb h1 h2
    simp only [decide_eq_true_eq] at h1 h2
    exact objIdx_inj key saved hnd a b ha hb (by omega)

/-- objects: `SaveOrder`'s restore of `g.Objects` -/
theorem restoreOrder_id (saved cur : List NObj) (hperm : cur.Perm saved)
    (hnd : (saved.map (fun o : NObj => o.key)).Nodup) :
    restoreObjs (saved.map (fun o : NObj => o.key)) cur = saved :=
  restore_perm (fun o : NObj => o.key) saved cur hperm hnd

/-- root children: `SaveChildrenOrder`'s restore -/
theorem restoreKeys_id (saved cur : List String) (hperm : cur.Perm saved) (hnd : saved.Nodup) :
    restoreKeys saved cur = saved := by
  have := restore_perm (fun k : String => k) saved cur hperm (by simpa using hnd)
  simpa [restoreKeys] using this

/-- the Go edge comparator as a rank: saved edges by index, unknown edges after all of them -/
def edgeRank (saved : List String) (k : String) : Nat := (indexOf saved k).getD saved.length

theorem edgeLess_eq_rank (saved : List String) (a b : String) :
    edgeLess saved a b = decide (edgeRank saved a < edgeRank saved b) := by
  unfold edgeLess edgeRank indexOf
  by_cases ha : List.idxOf a saved < saved.length <;> by_cases hb : List.idxOf b saved < saved.length <;>
    first
      | (simp [ha, hb]; done)
      | (simp [ha, hb]; omega)

theorem edgeRank_known (saved : List String) (k : String) (h : k ∈ saved) : edgeRank saved k = objIdx saved k := by
  have h' := List.idxOf_lt_length_of_mem h
  simp [edgeRank, objIdx, indexOf, h']

/-- edges: `SaveOrder`'s restore of `g.Edges` -/
theorem restoreEdges_id (saved cur : List NEdge) (hperm : cur.Perm saved)
    (hnd : (saved.map (fun e : NEdge => e.key)).Nodup) :
    restoreEdges (saved.map (fun e : NEdge => e.key)) cur = saved := by
  unfold restoreEdges
  have hmem : ∀ e ∈ saved, e.key ∈ saved.map (fun e : NEdge => e.key) := fun e he => List.mem_map_of_mem he
  apply sort_perm_eq _ saved cur hperm
  · intro a b c h1 h2
    simp only [edgeLess_eq_rank, Bool.not_eq_true', decide_eq_false_iff_not] at *
    omega
  · intro a b
    simp only [edgeLess_eq_rank, Bool.or_eq_true, Bool.not_eq_true', decide_eq_false_iff_not]
    omega
  · have hp := pairwise_saved (fun e : NEdge => e.key) saved hnd
    rw [List.pairwise_iff_getElem] at hp ⊢
    intro i j hi hj hij
    have := hp i j hi hj hij
    simp only [decide_eq_true_eq] at this
    simp only [edgeLess_eq_rank, Bool.not_eq_true', decide_eq_false_iff_not,
      edgeRank_known _ _ (hmem _ (List.getElem_mem hi)), edgeRank_known _ _ (hmem _ (List.getElem_mem hj))]
    omega
  · intro a b ha hb h1 h2
    simp only [edgeLess_eq_rank, Bool.not_eq_true', decide_eq_false_iff_not,
      edgeRank_known _ _ (hmem a ha), edgeRank_known _ _ (hmem b hb)] at h1 h2
    exact objIdx_inj (fun e : NEdge => e.key) saved hnd a b ha hb (by omega)

/-! ### extraction partitions, injection appends -/

/-- objects: for *any* nesting predicate, remaining ++ nested restored to saved order is the original list -/
theorem partition_restore_objs (l : List NObj) (p : NObj → Bool) (hnd : (l.map (fun o : NObj => o.key)).Nodup) :
    restoreObjs (l.map (fun o : NObj => o.key)) (l.filter (fun o => !p o) ++ l.filter p) = l := by
  apply restoreOrder_id _ _ _ hnd
  have := List.filter_append_perm (fun o => !p o) l
  simpa using this

/-- edges: remaining ++ nested ++ external (the order in which `LayoutNested` re-appends them) restored = original -/
theorem partition_restore_edges (l : List NEdge) (p : String → Bool)
    (hnd : (l.map (fun e : NEdge => e.key)).Nodup) :
    restoreEdges (l.map (fun e : NEdge => e.key))
      (l.filter (fun e => !(p e.src || p e.dst)) ++ l.filter (fun e => p e.src && p e.dst) ++
        l.filter (fun e => (p e.src || p e.dst) && !(p e.src && p e.dst))) = l := by
  apply restoreEdges_id _ _ _ hnd
  have h1 := List.filter_append_perm (fun e : NEdge => !(p e.src || p e.dst)) l
  have h2 := List.filter_append_perm (fun e : NEdge => p e.src && p e.dst)
    (l.filter (fun e : NEdge => !!(p e.src || p e.dst)))
  simp only [List.filter_filter] at h2
  refine List.Perm.trans ?_ h1
  rw [List.append_assoc]
  apply List.Perm.append_left
  refine List.Perm.trans ?_ (by simpa using h2)
  apply List.Perm.append
  · apply List.Perm.of_eq
    apply List.filter_congr
    intro e _
    cases p e.src <;> cases p e.dst <;> rfl
  · apply List.Perm.of_eq
    apply List.filter_congr
    intro e _
    cases p e.src <;> cases p e.dst <;> rfl

/-! ### extract → inject → restore is the identity (`includeSelf = false`) -/

theorem kidsOf_setKids_nil (c : String) (l : List NObj) : kidsOf (setKids c [] l) c = [] := by
  unfold kidsOf setKids
  induction l with
  | nil => rfl
  | cons o r ih =>
    simp only [List.map_cons, List.find?_cons]
    by_cases h : o.key = c
    · simp [h]
    · have h' : (o.key == c) = false := by simpa using h
      simp only [h', Bool.false_eq_true, if_false]
      exact ih

/-- with pairwise different keys, looking a member's key up finds that member's children -/
theorem kidsOf_of_mem (l : List NObj) (hnd : (l.map (fun o : NObj => o.key)).Nodup) (o : NObj) (ho : o ∈ l) :
    kidsOf l o.key = o.kids := by
  unfold kidsOf
  induction l with
  | nil => cases ho
  | cons x r ih =>
    simp only [List.map_cons, List.nodup_cons] at hnd
    simp only [List.find?_cons]
    by_cases hx : x.key = o.key
    · simp only [hx, beq_self_eq_true]
      rcases List.mem_cons.mp ho with h | h
      · rw [h]
      · exact absurd (List.mem_map_of_mem (f := fun o : NObj => o.key) h) (hx ▸ hnd.1)
    · have hx' : (x.key == o.key) = false := by simpa using hx
      simp only [hx']
      rcases List.mem_cons.mp ho with h | h
      · exact absurd (by rw [h]) hx
      · exact ih hnd.2 h

theorem setKids_restore (c : String) (ks : List String) (l : List NObj)
    (h : ∀ o ∈ l, o.key = c → o.kids = ks) : setKids c ks (setKids c [] l) = l := by
  unfold setKids
  rw [List.map_map]
  conv => rhs; rw [← List.map_id l]
  apply List.map_congr_left
  intro o ho
  obtain ⟨k, p, kd⟩ := o
  by_cases hk : k = c
  · have hkd := h _ ho hk
    simp only at hkd
    subst hk
    subst hkd
    simp
  · simp [hk]

theorem setParent_restore (ks : List String) (c : String) (l : List NObj)
    (h : ∀ o ∈ l, o.key ∈ ks → o.parent = c) : setParent ks c (setParent ks "" l) = l := by
  unfold setParent
  rw [List.map_map]
  conv => rhs; rw [← List.map_id l]
  apply List.map_congr_left
  intro o ho
  obtain ⟨k, p, kd⟩ := o
  by_cases hk : k ∈ ks
  · have hp := h _ ho hk
    simp only at hp
    subst hp
    simp [hk]
  · simp [hk]

/-- the arena facts `extract_inject_id` needs about the container `c` (they hold for every compiled graph:
    keys are AbsIDs, `ChildrenArray` and `Parent` agree) -/
structure WFAt (g : NGraph) (c : String) : Prop where
  objKeys : (g.objs.map (fun o : NObj => o.key)).Nodup
  edgeKeys : (g.edges.map (fun e : NEdge => e.key)).Nodup
  rootKeys : g.rootKids.Nodup
  cne : c ≠ ""
  kidsParent : ∀ o ∈ g.objs, o.key ∈ kidsOf g.objs c → o.parent = c

/-- **extract_inject_id.** Extracting the contents of `c`, injecting them back, re-appending the external
    edges and restoring the saved order gives back the arena: same object records (key, parent, children) in the
    same order, same edges in the same order, same root children. -/
theorem extract_inject_id (g : NGraph) (c : String) (wf : WFAt g c) : extractInject g c false = g := by
  have hc : (c == "") = false := by simpa using wf.cne
  have hrest : (setKids c (kidsOf (setKids c [] (g.objs.filter fun o => !isNested g c false o.key)) c ++ kidsOf g.objs c)
      (setKids c [] (g.objs.filter fun o => !isNested g c false o.key))) =
      g.objs.filter fun o => !isNested g c false o.key := by
    rw [kidsOf_setKids_nil, List.nil_append]
    apply setKids_restore
    intro o ho hk
    have hmem : o ∈ g.objs := (List.mem_filter.mp ho).1
    rw [← hk]
    exact (kidsOf_of_mem g.objs wf.objKeys o hmem).symm
  have hnest : setParent (kidsOf g.objs c) c (setParent (kidsOf g.objs c) "" (g.objs.filter fun o => isNested g c false o.key)) =
      g.objs.filter fun o => isNested g c false o.key := by
    apply setParent_restore
    intro o ho hk
    exact wf.kidsParent o (List.mem_filter.mp ho).1 hk
  unfold extractInject extract inject restoreOrder saveOrder
  simp only [Bool.false_eq_true, if_false, hc, hrest, hnest]
  have h1 := partition_restore_objs g.objs (fun o => isNested g c false o.key) wf.objKeys
  have h2 := partition_restore_edges g.edges (isNested g c false) wf.edgeKeys
  have h3 := restoreKeys_id g.rootKids g.rootKids (List.Perm.refl _) wf.rootKeys
  simp only [h1, h2, h3]

/-- **restoreOrder_graph_id.** Whatever the nested layouts did to the ORDER of the three arenas in between (any
    permutation of objects, of edges and of root children — unbounded, not a sampled shuffle), restoring the saved order
    gives back the arena exactly. -/
theorem restoreOrder_graph_id (g g' : NGraph)
    (hobjs : g'.objs.Perm g.objs) (hedges : g'.edges.Perm g.edges) (hroot : g'.rootKids.Perm g.rootKids)
    (hko : (g.objs.map (fun o : NObj => o.key)).Nodup) (hke : (g.edges.map (fun e : NEdge => e.key)).Nodup)
    (hkr : g.rootKids.Nodup) :
    restoreOrder (saveOrder g) g' = g := by
  unfold restoreOrder saveOrder
  simp only [restoreOrder_id g.objs g'.objs hobjs hko, restoreEdges_id g.edges g'.edges hedges hke,
    restoreKeys_id g.rootKids g'.rootKids hroot hkr]

/-- **extract_inject_all_id.** The walk of `LayoutNested` performs the round trip once per container it meets; for any
    list of containers (any length, any order, repetitions allowed) that are well formed in `g`, the whole sequence of
    round trips gives back the arena. -/
theorem extract_inject_all_id (g : NGraph) (cs : List String) (wf : ∀ c ∈ cs, WFAt g c) :
    cs.foldl (fun g c => extractInject g c false) g = g := by
  induction cs with
  | nil => rfl
  | cons c rest ih =>
    simp only [List.foldl_cons]
    rw [extract_inject_id g c (wf c (by simp))]
    exact ih (fun c' hc' => wf c' (by simp [hc']))

/-- the hypotheses are satisfiable: container `a` with children `a.x`, `a.y`, an inner, an external and an
    outer edge -/
def exampleGraph : NGraph :=
  { objs := [⟨"a", "", ["a.x", "a.y"]⟩, ⟨"a.x", "a", []⟩, ⟨"b", "", []⟩, ⟨"a.y", "a", []⟩],
    edges := [⟨"e0", "a.x", "a.y"⟩, ⟨"e1", "a.x", "b"⟩, ⟨"e2", "b", "b"⟩],
    rootKids := ["a", "b"] }

example : WFAt exampleGraph "a" :=
  { objKeys := by decide, edgeKeys := by decide, rootKeys := by decide, cne := by decide,
    kidsParent := by decide }

example : (extract exampleGraph "a" false).nested.objs.map (·.key) = ["a.x", "a.y"] := by decide
example : (extract exampleGraph "a" false).external.map (·.key) = ["e1"] := by decide

example : restoreOrder (saveOrder exampleGraph)
    { exampleGraph with objs := exampleGraph.objs.reverse, edges := exampleGraph.edges.reverse, rootKids := ["b", "a"] } =
    exampleGraph :=
  restoreOrder_graph_id _ _ (List.reverse_perm _) (List.reverse_perm _) (by decide) (by decide) (by decide) (by decide)

end D2V.Nest
