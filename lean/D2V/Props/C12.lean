import D2V.Model.Glob
import D2V.Model.GlobSem
/-!
  C12 — Globs apply to exactly the matching objects and connections, even later ones.

  Theorems about the byte-exact model of `d2ir/pattern.go: matchPattern` (`Model/Glob.lean`, compared with the real
  function through the compiler on every run) against the specification `wild` (textbook anchored wildcard match):

  * `matchLoop_total`            with the name lower-cased once (`lowersOnce`, the prepared fix) no slice is ever
                                 out of range, for all byte strings
  * `matchLoop_total_ascii`      the pinned code is total on ASCII names and patterns
  * `C12_cx_lower_panic`         … and is not total in general: `Ⱥ` against `ⱥ*` slices `[3:2]` (replayed on d2)
  * `matchLoop_eq_wildP`         **characterisation**: on alternating patterns (what the parser produces) the loop
                                 computes exactly the *prefix* wildcard match — the name has a prefix that matches
  * `matchPattern_eq_wildcard_partial`  hence it equals the anchored specification whenever the pattern ends in `*`
  * `C12_cx_no_end_anchor`       … and differs otherwise: `a*b` matches `abc`
  * `C12_cx_case_length`         the pinned code also answers wrongly (without panicking) when lower-casing changes
                                 the byte length: `Ω*ac` does not match `ωAC`
  * `glob_never_keyword`         a name that is a reserved keyword never matches (any spelling once `lowersOnce`;
                                 `C12_cx_keyword_case`: the pinned code matches `Shape`)
  * `no_self_edge`, `glob_edges_complete`  a connection glob connects exactly the pairs of distinct matches

  * `C12_glob_is_expansion_partial` (`Model/GlobSem.lean`: one block, attribute globs, any matcher; decidable
                                 hypotheses `noDel` — no deletions —, `noLabelGlob` — no glob assigns a label — and
                                 `freshGlobs` — no glob declaration is repeated verbatim) the compiler's bookkeeping (`appliedFields`, application
                                 at the glob's declaration, lazy pass over all active globs after each creation)
                                 computes exactly the board of the expanded program; the invariant is "a glob's applied
                                 set = the existing objects it matches"
  * `C12_cx_redeclared_after_null`  … which deletions break: `*.k: v; d; d: null; d` leaves `d` unglobbed
  * `C12_cx_label_first_glob_wins`  … and label globs too: of two globs labelling a later object the first wins
  * `C12_cx_duplicate_glob`         … and verbatim repetitions: the second `*.shape: circle` does not override

  Beyond that fragment (nested blocks, `**`, map-valued globs, connection globs) the clause "a glob acts like its
  expansion, also on later targets" is evaluated on the real compiler (compile p = compile (expand p), `expand`
  being the Lean function of `Model/GlobExpand.lean`).
-/
namespace D2V.Glob

/-! ### `HasPrefix` / `Index` -/

theorem hasPrefix_length : ∀ (s p : Bytes), hasPrefix s p = true → p.length ≤ s.length
  | _, [], _ => by simp
  | [], _ :: _, h => by simp [hasPrefix] at h
  | a :: s, b :: p, h => by
    simp only [hasPrefix, Bool.and_eq_true] at h
    have := hasPrefix_length s p h.2
    simp only [List.length_cons]
    omega

theorem hasPrefix_nil (s : Bytes) : hasPrefix s [] = true := by
  cases s <;> simp [hasPrefix]

theorem indexOf_bound : ∀ (s p : Bytes) (j : Nat), indexOf s p = some j → j + p.length ≤ s.length
  | [], p, j, h => by
    unfold indexOf at h
    split at h
    · rename_i hp
      simp only [Option.some.injEq] at h
      subst h
      simp [List.isEmpty_iff.mp hp]
    · cases h
  | a :: s, p, j, h => by
    unfold indexOf at h
    split at h
    · rename_i hp
      simp only [Option.some.injEq] at h
      subst h
      simpa using hasPrefix_length _ _ hp
    · split at h
      · rename_i j' hj'
        simp only [Option.some.injEq] at h
        subst h
        have := indexOf_bound s p j' hj'
        simp only [List.length_cons]
        omega
      · cases h

theorem indexOf_spec : ∀ (s p : Bytes) (j : Nat), indexOf s p = some j → hasPrefix (s.drop j) p = true
  | [], p, j, h => by
    unfold indexOf at h
    split at h
    · rename_i hp
      simp only [Option.some.injEq] at h
      subst h
      simp [List.isEmpty_iff.mp hp, hasPrefix]
    · cases h
  | a :: s, p, j, h => by
    unfold indexOf at h
    split at h
    · rename_i hp
      simp only [Option.some.injEq] at h
      subst h
      simpa using hp
    · split at h
      · rename_i j' hj'
        simp only [Option.some.injEq] at h
        subst h
        simpa using indexOf_spec s p j' hj'
      · cases h

/-- no occurrence at all when `Index` returns -1 -/
theorem indexOf_none : ∀ (s p : Bytes), indexOf s p = none → ∀ i, hasPrefix (s.drop i) p = false
  | [], p, h, i => by
    unfold indexOf at h
    split at h
    · cases h
    · rename_i hp
      cases p with
      | nil => simp at hp
      | cons b p => simp [hasPrefix]
  | a :: s, p, h, i => by
    unfold indexOf at h
    split at h
    · cases h
    · rename_i hp
      split at h
      · cases h
      · rename_i hn
        cases i with
        | zero => simpa using hp
        | succ i => simpa using indexOf_none s p hn i

/-- `Index` returns the leftmost occurrence -/
theorem indexOf_leftmost : ∀ (s p : Bytes) (j : Nat), indexOf s p = some j → ∀ i, i < j → hasPrefix (s.drop i) p = false
  | [], p, j, h, i, hi => by
    unfold indexOf at h
    split at h
    · simp only [Option.some.injEq] at h; omega
    · cases h
  | a :: s, p, j, h, i, hi => by
    unfold indexOf at h
    split at h
    · simp only [Option.some.injEq] at h; omega
    · rename_i hp
      split at h
      · rename_i j' hj'
        simp only [Option.some.injEq] at h
        subst h
        cases i with
        | zero => simpa using hp
        | succ i => simpa using indexOf_leftmost s p j' hj' i (by omega)
      · cases h

/-! ### totality -/

/-- with the name lower-cased once, every slice is in range — for all byte strings (valid UTF-8 or not) -/
theorem matchLoop_total : ∀ (pattern : List Bytes) (s : Bytes), ∃ b, matchLoop true s pattern = .ok b
  | [], s => ⟨true, by simp [matchLoop]⟩
  | [p], s => by
    unfold matchLoop
    by_cases hp : p = star
    · simp [hp]
    · simp only [hp, if_false, if_true]
      by_cases hh : hasPrefix s (lower p) = true
      · have := hasPrefix_length _ _ hh
        have h2 : ¬ (lower p).length > s.length := by omega
        simp only [hh, Bool.not_true, Bool.false_eq_true, if_false, h2]
        exact matchLoop_total [] _
      · simp [hh]
  | p :: q :: rest, s => by
    unfold matchLoop
    by_cases hp : p = star
    · simp only [hp, if_true]
      cases hi : indexOf s (lower q) with
      | none => exact ⟨false, rfl⟩
      | some j =>
        have := indexOf_bound _ _ _ hi
        have h2 : ¬ j + (lower q).length > s.length := by omega
        simp only [h2, if_false]
        exact matchLoop_total rest _
    · simp only [hp, if_false, if_true]
      by_cases hh : hasPrefix s (lower p) = true
      · have := hasPrefix_length _ _ hh
        have h2 : ¬ (lower p).length > s.length := by omega
        simp only [hh, Bool.not_true, Bool.false_eq_true, if_false, h2]
        exact matchLoop_total (q :: rest) _
      · simp [hh]

theorem matchPattern_total (kw : List Bytes) (s : Bytes) (pattern : List Bytes) :
    ∃ b, matchPattern true kw s pattern = .ok b := by
  unfold matchPattern
  split
  · exact ⟨true, rfl⟩
  · simp only [if_true]
    split
    · exact ⟨false, rfl⟩
    · exact matchLoop_total pattern _

/-! the pinned code: total when lower-casing preserves byte lengths (in particular on ASCII), not in general -/

/-- `lower` preserves the length of every suffix of `s` (true for ASCII, Latin-1, Greek, Cyrillic … names) -/
def LenPres (s : Bytes) : Prop := ∀ k, (lower (s.drop k)).length = (s.drop k).length

theorem LenPres.drop {s : Bytes} (h : LenPres s) (k : Nat) : LenPres (s.drop k) := by
  intro k'
  rw [List.drop_drop]
  exact h _

theorem matchLoop_total_lenpres : ∀ (pattern : List Bytes) (s : Bytes), LenPres s →
    (∀ p ∈ pattern, (lower p).length = p.length) → ∃ b, matchLoop false s pattern = .ok b
  | [], s, _, _ => ⟨true, by simp [matchLoop]⟩
  | [p], s, hs, hp' => by
    unfold matchLoop
    by_cases hp : p = star
    · simp [hp]
    · simp only [hp, if_false, Bool.false_eq_true]
      by_cases hh : hasPrefix (lower s) (lower p) = true
      · have h1 := hasPrefix_length _ _ hh
        have h0 := hs 0
        simp only [List.drop_zero] at h0
        have hpl := hp' p List.mem_cons_self
        have h2 : ¬ p.length > s.length := by omega
        simp only [hh, Bool.not_true, Bool.false_eq_true, if_false, h2]
        exact matchLoop_total_lenpres [] _ (hs.drop _) (by simp)
      · simp [hh]
  | p :: q :: rest, s, hs, hp' => by
    have h0 := hs 0
    simp only [List.drop_zero] at h0
    unfold matchLoop
    by_cases hp : p = star
    · simp only [hp, if_true, Bool.false_eq_true, if_false]
      cases hi : indexOf (lower s) (lower q) with
      | none => exact ⟨false, rfl⟩
      | some j =>
        have h1 := indexOf_bound _ _ _ hi
        have hql := hp' q (by simp)
        have h2 : ¬ j + q.length > s.length := by omega
        simp only [h2, if_false]
        exact matchLoop_total_lenpres rest _ (hs.drop _) (fun x hx => hp' x (by simp [hx]))
    · simp only [hp, if_false, Bool.false_eq_true]
      by_cases hh : hasPrefix (lower s) (lower p) = true
      · have h1 := hasPrefix_length _ _ hh
        have hpl := hp' p List.mem_cons_self
        have h2 : ¬ p.length > s.length := by omega
        simp only [hh, Bool.not_true, Bool.false_eq_true, if_false, h2]
        exact matchLoop_total_lenpres (q :: rest) _ (hs.drop _) (fun x hx => hp' x (List.mem_cons_of_mem _ hx))
      · simp [hh]

/-- `Ⱥ` (C8 BA) lower-cases to `ⱥ` (E2 B1 A5): the pinned code slices `s[3:]` of a 2-byte string -/
theorem C12_cx_lower_panic :
    matchPattern false [] [0xC8, 0xBA] [[0xE2, 0xB1, 0xA5], star] = .error (.sliceOOB 3 2) ∧
    matchPattern true [] [0xC8, 0xBA] [[0xE2, 0xB1, 0xA5], star] = .ok true := by
  decide

/-- `Ω` (OHM SIGN, E2 84 A6) lower-cases to `ω` (CF 89): `Ω*ac` against `ωAC` — the pinned code drops one byte too
    many and answers false; lower-casing once answers true -/
theorem C12_cx_case_length :
    matchPattern false [] [0xCF, 0x89, 0x41, 0x43] [[0xE2, 0x84, 0xA6], star, [0x41, 0x63]] = .ok false ∧
    matchPattern true [] [0xCF, 0x89, 0x41, 0x43] [[0xE2, 0x84, 0xA6], star, [0x41, 0x63]] = .ok true := by
  decide

/-! ### characterisation: the loop is the *prefix* wildcard match -/

inductive Tok
  | star
  | lit (b : Bytes)
deriving Repr, DecidableEq

/-- the pattern slice the Go code sees -/
def Tok.raw : Tok → Bytes
  | .star => Glob.star
  | .lit b => b

/-- some prefix of `s` matches: like `wild`, but the end of the pattern need not be the end of the string -/
def wildP : Bytes → List Tok → Bool
  | _, [] => true
  | s, .star :: rest => (suffixes s).any fun t => wildP t rest
  | s, .lit p :: rest => hasPrefix s (lower p) && wildP (s.drop (lower p).length) rest

/-- anchored match over tokens (= `wild` on the lowered pattern) -/
def wildT : Bytes → List Tok → Bool
  | s, [] => s.isEmpty
  | s, .star :: rest => (suffixes s).any fun t => wildT t rest
  | s, .lit p :: rest => hasPrefix s (lower p) && wildT (s.drop (lower p).length) rest

/-- what the parser produces: literals are not `*`, stars and literals alternate -/
def Alternating : List Tok → Prop
  | [] => True
  | [.star] => True
  | [.lit b] => b ≠ Glob.star
  | .star :: .lit b :: rest => b ≠ Glob.star ∧ Alternating (.lit b :: rest)
  | .lit b :: .star :: rest => b ≠ Glob.star ∧ Alternating (.star :: rest)
  | _ => False

theorem mem_suffixes_drop : ∀ (s : Bytes) (i : Nat), s.drop i ∈ suffixes s
  | [], i => by simp [suffixes]
  | a :: s, 0 => by simp [suffixes]
  | a :: s, i + 1 => by
    simp only [List.drop_succ_cons, suffixes, List.mem_cons]
    exact Or.inr (mem_suffixes_drop s i)

theorem suffixes_are_drops : ∀ (s t : Bytes), t ∈ suffixes s → ∃ i, i ≤ s.length ∧ t = s.drop i
  | [], t, h => by
    simp only [suffixes, List.mem_singleton] at h
    exact ⟨0, by simp, by simp [h]⟩
  | a :: s, t, h => by
    simp only [suffixes, List.mem_cons] at h
    rcases h with h | h
    · exact ⟨0, by simp, by simp [h]⟩
    · obtain ⟨i, hi, ht⟩ := suffixes_are_drops s t h
      exact ⟨i + 1, by simp; omega, by simp [ht]⟩

/-- a pattern that starts with `*` matches a string as soon as it matches one of its suffixes -/
theorem wildP_star_mono (rest : List Tok) (s : Bytes) (i : Nat) (h : wildP (s.drop i) (.star :: rest) = true) :
    wildP s (.star :: rest) = true := by
  simp only [wildP, List.any_eq_true] at h ⊢
  obtain ⟨t, ht, hw⟩ := h
  obtain ⟨k, _, hk⟩ := suffixes_are_drops _ _ ht
  refine ⟨t, ?_, hw⟩
  rw [hk, List.drop_drop]
  exact mem_suffixes_drop s _

theorem wildP_nil (s : Bytes) : wildP s [] = true := by simp [wildP]

theorem any_suffix_true (s : Bytes) : (suffixes s).any (fun t => wildP t []) = true := by
  cases s <;> simp [suffixes, wildP]

/-- **the loop of `matchPattern` (name lower-cased once) computes the prefix wildcard match** -/
theorem matchLoop_eq_wildP : ∀ (toks : List Tok) (s : Bytes), Alternating toks →
    matchLoop true s (toks.map Tok.raw) = .ok (wildP s toks)
  | [], s, _ => by simp [matchLoop, wildP]
  | [.star], s, _ => by
    have h1 : wildP s [.star] = true := by
      simp only [wildP]
      exact any_suffix_true s
    rw [h1]
    simp [Tok.raw, matchLoop]
  | [.lit b], s, h => by
    have hb : b ≠ Glob.star := h
    simp only [List.map, Tok.raw, matchLoop, hb, if_false, if_true, wildP, Bool.and_true]
    by_cases hh : hasPrefix s (lower b) = true
    · have := hasPrefix_length _ _ hh
      have h2 : ¬ (lower b).length > s.length := by omega
      simp [hh, h2]
    · simp [hh]
  | .star :: .lit b :: rest, s, h => by
    obtain ⟨hb, halt⟩ := h
    have ih := fun s' => matchLoop_eq_wildP rest s'
    simp only [List.map, Tok.raw, matchLoop, if_true]
    cases hi : indexOf s (lower b) with
    | none =>
      -- no occurrence of the literal anywhere: no suffix can start with it
      have hn := indexOf_none _ _ hi
      simp only [wildP]
      have : ((suffixes s).any fun t => hasPrefix t (lower b) && wildP (t.drop (lower b).length) rest) = false := by
        rw [List.any_eq_false]
        intro t ht
        obtain ⟨i, _, hti⟩ := suffixes_are_drops _ _ ht
        simp [hti, hn i]
      rw [this]
    | some j =>
      have hbnd := indexOf_bound _ _ _ hi
      have h2 : ¬ j + (lower b).length > s.length := by omega
      simp only [h2, if_false]
      -- the rest of the pattern is empty or starts with `*`
      have hrest : Alternating rest := by
        cases rest with
        | nil => trivial
        | cons r rs =>
          cases r with
          | star => exact halt.2
          | lit c => exact absurd halt (by simp [Alternating])
      rw [ih _ hrest]
      congr 1
      -- ∃ suffix starting with the literal and continuing ⇔ continuing after the leftmost occurrence
      simp only [wildP]
      apply Bool.eq_iff_iff.mpr
      constructor
      · intro hw
        rw [List.any_eq_true]
        refine ⟨s.drop j, mem_suffixes_drop s j, ?_⟩
        simp only [Bool.and_eq_true]
        refine ⟨indexOf_spec _ _ _ hi, ?_⟩
        rw [List.drop_drop]
        simpa [Nat.add_comm] using hw
      · intro hw
        rw [List.any_eq_true] at hw
        obtain ⟨t, ht, hw⟩ := hw
        simp only [Bool.and_eq_true] at hw
        obtain ⟨i, _, hti⟩ := suffixes_are_drops _ _ ht
        subst hti
        have hij : j ≤ i := Nat.le_of_not_lt fun hlt => by
          have := indexOf_leftmost _ _ _ hi i hlt
          rw [this] at hw
          exact absurd hw.1 (by simp)
        cases rest with
        | nil => simp [wildP]
        | cons r rs =>
          cases r with
          | lit c => exact absurd halt (by simp [Alternating])
          | star =>
            have hd : (s.drop i).drop (lower b).length = (s.drop (j + (lower b).length)).drop (i - j) := by
              rw [List.drop_drop, List.drop_drop]
              congr 1
              omega
            rw [hd] at hw
            exact wildP_star_mono rs _ _ hw.2
  | .lit b :: .star :: rest, s, h => by
    obtain ⟨hb, halt⟩ := h
    have ih := matchLoop_eq_wildP (.star :: rest)
    have hm : (Tok.lit b :: Tok.star :: rest).map Tok.raw = b :: ((Tok.star :: rest).map Tok.raw) := rfl
    rw [hm]
    unfold matchLoop
    simp only [hb, if_false, if_true]
    by_cases hh : hasPrefix s (lower b) = true
    · have := hasPrefix_length _ _ hh
      have h2 : ¬ (lower b).length > s.length := by omega
      simp only [hh, Bool.not_true, Bool.false_eq_true, if_false, h2]
      rw [ih _ halt]
      simp [wildP, hh]
    · simp [hh, wildP]
  | .star :: .star :: _, _, h => by simp [Alternating] at h
  | .lit _ :: .lit _ :: _, _, h => by simp [Alternating] at h

/-- a pattern whose last token is `*` -/
def EndsWithStar (toks : List Tok) : Prop := toks.getLast? = some .star

/-- with a trailing `*` the prefix match is the anchored match -/
theorem wildP_eq_wildT_of_star : ∀ (toks : List Tok) (s : Bytes), EndsWithStar toks → wildP s toks = wildT s toks
  | [], _, h => by simp [EndsWithStar] at h
  | [.star], s, _ => by
    have h1 : wildP s [.star] = true := by
      simp only [wildP]
      exact any_suffix_true s
    have h2 : wildT s [.star] = true := by
      simp only [wildT, List.any_eq_true]
      refine ⟨[], ?_, by simp⟩
      have := mem_suffixes_drop s s.length
      simpa using this
    rw [h1, h2]
  | [.lit b], _, h => by simp [EndsWithStar] at h
  | .star :: t2 :: rest, s, h => by
    have he : EndsWithStar (t2 :: rest) := by simpa [EndsWithStar, List.getLast?_cons_cons] using h
    simp only [wildP, wildT]
    congr 1
    funext t
    exact wildP_eq_wildT_of_star (t2 :: rest) t he
  | .lit b :: t2 :: rest, s, h => by
    have he : EndsWithStar (t2 :: rest) := by simpa [EndsWithStar, List.getLast?_cons_cons] using h
    simp only [wildP, wildT]
    rw [wildP_eq_wildT_of_star (t2 :: rest) _ he]

/-- **matchPattern_eq_wildcard (partial)**: for alternating patterns that end in `*` the loop (name lower-cased
    once) is the anchored, case-insensitive wildcard match.  The excluded region — patterns ending in a literal —
    is a real counterexample, see `C12_cx_no_end_anchor`. -/
theorem matchPattern_eq_wildcard_partial (toks : List Tok) (s : Bytes) (ha : Alternating toks)
    (he : EndsWithStar toks) : matchLoop true s (toks.map Tok.raw) = .ok (wildT s toks) := by
  rw [matchLoop_eq_wildP toks s ha, wildP_eq_wildT_of_star toks s he]

/-- `a*b` matches `abc` (both variants of the code), the anchored specification says no -/
theorem C12_cx_no_end_anchor :
    matchPattern false [] [0x61, 0x62, 0x63] [[0x61], star, [0x62]] = .ok true ∧
    matchPattern true [] [0x61, 0x62, 0x63] [[0x61], star, [0x62]] = .ok true ∧
    wildcard [] [0x61, 0x62, 0x63] [[0x61], star, [0x62]] = false ∧
    wildT [0x61, 0x62, 0x63] [.lit [0x61], .star, .lit [0x62]] = false := by
  decide

example : Alternating [.lit [0x61], .star] ∧ EndsWithStar [.lit [0x61], .star] := by
  simp [Alternating, EndsWithStar, Glob.star]

/-! ### reserved keywords -/

/-- a name that is a reserved keyword (as the code compares it) never matches a non-empty pattern -/
theorem glob_never_keyword (lo : Bool) (kw : List Bytes) (s : Bytes) (pattern : List Bytes)
    (hp : pattern ≠ []) (hk : kw.contains (if lo then lower s else s) = true) :
    matchPattern lo kw s pattern = .ok false := by
  unfold matchPattern
  have : pattern.isEmpty = false := by cases pattern <;> simp_all
  simp only [this, Bool.false_eq_true, if_false]
  cases lo <;> simp_all

/-- the pinned code compares the name as written: `Shape` (a keyword in d2, which folds case) matches `*` -/
theorem C12_cx_keyword_case :
    matchPattern false [[0x73, 0x68, 0x61, 0x70, 0x65]] [0x53, 0x68, 0x61, 0x70, 0x65] [star] = .ok true ∧
    matchPattern true [[0x73, 0x68, 0x61, 0x70, 0x65]] [0x53, 0x68, 0x61, 0x70, 0x65] [star] = .ok false := by
  decide

/-! ### connection globs never connect an object with itself -/

theorem no_self_edge (srcs dsts : List String) : ∀ p ∈ globEdgePairs srcs dsts, p.1 ≠ p.2 := by
  intro p hp
  simp only [globEdgePairs, List.mem_flatMap, List.mem_map, List.mem_filter] at hp
  obtain ⟨s, _, d, ⟨_, hne⟩, rfl⟩ := hp
  simp only [ne_eq]
  intro h
  simp [h] at hne

theorem glob_edges_complete (srcs dsts : List String) (s d : String) (hs : s ∈ srcs) (hd : d ∈ dsts)
    (hne : s ≠ d) : (s, d) ∈ globEdgePairs srcs dsts := by
  simp only [globEdgePairs, List.mem_flatMap, List.mem_map, List.mem_filter]
  exact ⟨s, hs, d, ⟨hd, by simpa using fun h => hne h.symm⟩, rfl⟩

end D2V.Glob

/-! ### the expansion clause on one block -/
namespace D2V.GlobSem
open D2V.Boards

variable (m : String → String → Bool)

theorem has_eq_contains (c : Content) (n : String) : c.has n = (names c).contains n := by
  induction c with
  | nil => rfl
  | cons e r ih =>
    simp only [Content.has, names, List.any_cons, List.map_cons, List.contains_cons] at ih ⊢
    rw [ih]
    congr 1
    by_cases h : e.1 = n
    · subst h; simp
    · have h' : ¬ n = e.1 := fun hh => h hh.symm
      rw [beq_eq_false_iff_ne.mpr h, beq_eq_false_iff_ne.mpr h']

theorem mem_names_of_has {c : Content} {n : String} (h : c.has n = true) : n ∈ names c := by
  rw [has_eq_contains] at h; simpa using h

theorem names_set_existing (c : Content) (n k v : String) (h : n ∈ names c) :
    names (applyOp c (.set n k v)) = names c := by
  have hh : c.has n = true := by rw [has_eq_contains]; simpa using h
  simp only [applyOp, hh, if_true, names, List.map_map]
  apply List.map_congr_left
  intro e _
  simp only [Function.comp]
  split
  · rename_i he; simp only [beq_iff_eq] at he; exact he.symm
  · rfl

theorem names_decl_new (c : Content) (n : String) (h : n ∉ names c) :
    names (applyOp c (.decl n)) = names c ++ [n] := by
  have hh : c.has n = false := by rw [has_eq_contains]; simpa using h
  simp [applyOp, hh, names]

theorem names_decl_old (c : Content) (n : String) (h : n ∈ names c) : applyOp c (.decl n) = c := by
  have hh : c.has n = true := by rw [has_eq_contains]; simpa using h
  simp [applyOp, hh]

/-- setting attributes of existing objects one after the other is `applyOps` of the corresponding declarations -/
theorem foldl_sets (k v : String) : ∀ (ts : List String) (c : Content),
    ts.foldl (fun c n => applyOp c (.set n k v)) c = applyOps c (ts.map fun n => Op.set n k v)
  | [], c => by simp [applyOps]
  | t :: ts, c => by
    simp only [List.foldl_cons, List.map_cons, applyOps]
    have := foldl_sets k v ts (applyOp c (.set t k v))
    simpa [applyOps] using this

theorem names_sets (k v : String) : ∀ (ts : List String) (c : Content), (∀ t ∈ ts, t ∈ names c) →
    names (applyOps c (ts.map fun n => Op.set n k v)) = names c
  | [], c, _ => by simp [applyOps]
  | t :: ts, c, h => by
    simp only [List.map_cons, applyOps, List.foldl_cons]
    have h1 := names_set_existing c t k v (h t List.mem_cons_self)
    have := names_sets k v ts (applyOp c (.set t k v)) (fun t' ht' => by rw [h1]; exact h t' (List.mem_cons_of_mem _ ht'))
    simp only [applyOps] at this
    rw [this, h1]

def spec (gs : List G) : List (String × String × String) := gs.map fun g => (g.pat, g.key, g.val)

/-- what the lazy pass does to the bookkeeping when `n` has just been created -/
def markNew (n : String) (gs : List G) : List G :=
  gs.map fun g => if m g.pat n then { g with applied := g.applied ++ [n] } else g

theorem spec_markNew (n : String) (gs : List G) : spec (markNew m n gs) = spec gs := by
  simp only [spec, markNew, List.map_map]
  apply List.map_congr_left
  intro g _
  simp only [Function.comp]
  split <;> rfl

/-- the targets of a glob right after `n` was created, when the glob is up to date on the older objects -/
theorem targets_new (g : G) (ns : List String) (n : String) (hn : n ∉ ns)
    (hsub : ∀ a ∈ g.applied, a ∈ ns) (hall : ∀ a ∈ ns, m g.pat a = true → a ∈ g.applied) :
    ((ns ++ [n]).filter fun a => m g.pat a && !g.applied.contains a) = if m g.pat n then [n] else [] := by
  rw [List.filter_append]
  have h1 : (ns.filter fun a => m g.pat a && !g.applied.contains a) = [] := by
    rw [List.filter_eq_nil_iff]
    intro a ha
    by_cases hm : m g.pat a = true
    · have := hall a ha hm
      simp [hm, this]
    · simp [hm]
  have hna : n ∉ g.applied := fun h => hn (hsub n h)
  rw [h1]
  by_cases hm : m g.pat n = true <;> simp [hm, hna]

theorem lazyRun_new (prim : List String) : ∀ (gs : List G) (c : Content) (ns : List String) (n : String),
    names c = ns ++ [n] → n ∉ ns →
    (∀ g ∈ gs, ∀ a ∈ g.applied, a ∈ ns) → (∀ g ∈ gs, ∀ a ∈ ns, m g.pat a = true → a ∈ g.applied) →
    (∀ g ∈ gs, g.key ≠ "Label") →
    lazyRun m prim gs c = (markNew m n gs, applyOps c (lazyOps m (spec gs) n))
  | [], c, ns, n, _, _, _, _, _ => by simp [lazyRun, markNew, lazyOps, spec, applyOps]
  | g :: rest, c, ns, n, hc, hn, hsub, hall, hkey => by
    have ht := targets_new m g ns n hn (hsub g List.mem_cons_self) (hall g List.mem_cons_self)
    have hk : (g.key == "Label") = false := by simpa using hkey g List.mem_cons_self
    simp only [lazyRun, applyG, hc, ht, if_true, lazySet, hk, Bool.false_and, Bool.false_eq_true, if_false]
    by_cases hm : m g.pat n = true
    · simp only [hm, if_true, List.foldl_cons, List.foldl_nil]
      have hc' : names (applyOp c (.set n g.key g.val)) = ns ++ [n] := by
        rw [names_set_existing c n g.key g.val (by rw [hc]; simp), hc]
      have ih := lazyRun_new prim rest (applyOp c (.set n g.key g.val)) ns n hc' hn
        (fun g' hg' => hsub g' (List.mem_cons_of_mem _ hg')) (fun g' hg' => hall g' (List.mem_cons_of_mem _ hg'))
        (fun g' hg' => hkey g' (List.mem_cons_of_mem _ hg'))
      rw [ih]
      simp [markNew, hm, lazyOps, spec, applyOps]
    · simp only [hm, Bool.false_eq_true, if_false, List.foldl_nil, List.append_nil]
      have ih := lazyRun_new prim rest c ns n hc hn
        (fun g' hg' => hsub g' (List.mem_cons_of_mem _ hg')) (fun g' hg' => hall g' (List.mem_cons_of_mem _ hg'))
        (fun g' hg' => hkey g' (List.mem_cons_of_mem _ hg'))
      rw [ih]
      simp [markNew, hm, lazyOps, spec]

/-- the simulation invariant: the applied sets are exactly "every existing object the glob matches" -/
structure Inv (st : St) (x : XSt) : Prop where
  names_eq : names st.c = x.ns
  globs_eq : spec st.gs = x.gs
  applied_sub : ∀ g ∈ st.gs, ∀ a ∈ g.applied, a ∈ x.ns
  applied_all : ∀ g ∈ st.gs, ∀ a ∈ x.ns, m g.pat a = true → a ∈ g.applied
  keys : ∀ g ∈ st.gs, g.key ≠ "Label"

theorem inv_markNew {st : St} {x : XSt} (h : Inv m st x) (n : String) (c' : Content) (prim : List String)
    (hc' : names c' = x.ns ++ [n]) :
    Inv m { c := c', gs := markNew m n st.gs, prim := prim } { x with ns := x.ns ++ [n] } where
  names_eq := hc'
  globs_eq := by simp only [spec_markNew]; exact h.globs_eq
  applied_sub := by
    intro g hg a ha
    simp only [markNew, List.mem_map] at hg
    obtain ⟨g0, hg0, rfl⟩ := hg
    simp only [List.mem_append, List.mem_singleton]
    by_cases hm : m g0.pat n = true
    · simp only [hm, if_true, List.mem_append, List.mem_singleton] at ha
      rcases ha with ha | ha
      · exact Or.inl (h.applied_sub g0 hg0 a ha)
      · exact Or.inr ha
    · simp only [hm, Bool.false_eq_true, if_false] at ha
      exact Or.inl (h.applied_sub g0 hg0 a ha)
  applied_all := by
    intro g hg a ha hma
    simp only [markNew, List.mem_map] at hg
    obtain ⟨g0, hg0, rfl⟩ := hg
    simp only [List.mem_append, List.mem_singleton] at ha
    by_cases hm : m g0.pat n = true
    · simp only [hm, if_true] at hma ⊢
      simp only [List.mem_append, List.mem_singleton]
      rcases ha with ha | ha
      · exact Or.inl (h.applied_all g0 hg0 a ha hma)
      · exact Or.inr ha
    · simp only [hm, Bool.false_eq_true, if_false] at hma ⊢
      rcases ha with ha | ha
      · exact h.applied_all g0 hg0 a ha hma
      · subst ha; exact absurd hma hm
  keys := by
    intro g hg
    simp only [markNew, List.mem_map] at hg
    obtain ⟨g0, hg0, rfl⟩ := hg
    have := h.keys g0 hg0
    split <;> exact this

theorem names_applyOps_lazy (c : Content) (gs : List (String × String × String)) (n : String) (hn : n ∈ names c) :
    names (applyOps c (lazyOps m gs n)) = names c := by
  induction gs generalizing c with
  | nil => simp [lazyOps, applyOps]
  | cons g rest ih =>
    simp only [lazyOps, List.filter_cons]
    split
    · simp only [List.map_cons, applyOps, List.foldl_cons]
      have h1 := names_set_existing c n g.2.1 g.2.2 hn
      have := ih (applyOp c (.set n g.2.1 g.2.2)) (by rw [h1]; exact hn)
      simp only [lazyOps, applyOps] at this
      rw [this, h1]
    · exact ih c hn

theorem reuse_none (prim : List String) (p k v : String) : ∀ (gs : List G) (c : Content),
    (p, k, v) ∉ spec gs → reuse m prim p k v gs c = none
  | [], _, _ => rfl
  | g :: rest, c, h => by
    simp only [spec, List.map_cons, List.mem_cons, not_or] at h
    have hne : ¬ (g.pat == p && g.key == k && g.val == v) = true := by
      intro hh
      simp only [Bool.and_eq_true, beq_iff_eq] at hh
      exact h.1 (by rw [hh.1.1, hh.1.2, hh.2])
    simp only [reuse, hne, Bool.false_eq_true, if_false]
    rw [reuse_none prim p k v rest c (by simpa [spec] using h.2)]

/-- one declaration: the compiler's step is the reference's explicit declarations, and the invariant is kept -/
theorem step_sim (st : St) (x : XSt) (s : GStmt) (h : Inv m st x) (hs : ∀ n, s ≠ .del n)
    (hl : ∀ p k v, s = .glob p k v → k ≠ "Label") (hf : ∀ p k v, s = .glob p k v → (p, k, v) ∉ x.gs) :
    (step m st s).c = applyOps st.c (xstep m x s).1 ∧ Inv m (step m st s) (xstep m x s).2 := by
  have hhas : ∀ n, st.c.has n = decide (n ∈ x.ns) := fun n => by
    rw [has_eq_contains, h.names_eq]; simp
  cases s with
  | del n => exact absurd rfl (hs n)
  | decl n =>
    by_cases hn : n ∈ x.ns
    · simp [step, xstep, hhas, hn, applyOps, h]
    · have hn' : n ∉ x.ns := hn
      have hc1 : names (applyOp st.c (.decl n)) = x.ns ++ [n] := by
        rw [names_decl_new _ _ (by rw [h.names_eq]; exact hn'), h.names_eq]
      have hl := lazyRun_new m (n :: st.prim) st.gs _ x.ns n hc1 hn' h.applied_sub h.applied_all h.keys
      simp only [step, xstep, hhas, hn, decide_false, decide_true, List.contains_eq_mem, Bool.false_eq_true, if_false, hl, h.globs_eq]
      refine ⟨by simp [applyOps], ?_⟩
      apply inv_markNew m h
      rw [names_applyOps_lazy m _ _ _ (by rw [hc1]; simp), hc1]
  | set n k v =>
    by_cases hn : n ∈ x.ns
    · have hmem : n ∈ names st.c := by rw [h.names_eq]; exact hn
      simp only [step, xstep, hhas, hn, decide_true, List.contains_eq_mem, if_true]
      refine ⟨by simp [applyOps], ?_⟩
      exact { names_eq := by simp only []; rw [names_set_existing _ _ _ _ hmem, h.names_eq]
              globs_eq := h.globs_eq, applied_sub := h.applied_sub, applied_all := h.applied_all, keys := h.keys }
    · have hn' : n ∉ x.ns := hn
      have hc1 : names (applyOp st.c (.decl n)) = x.ns ++ [n] := by
        rw [names_decl_new _ _ (by rw [h.names_eq]; exact hn'), h.names_eq]
      have hl := lazyRun_new m (if k == "Label" then n :: st.prim else st.prim) st.gs _ x.ns n hc1 hn' h.applied_sub
        h.applied_all h.keys
      simp only [step, xstep, hhas, hn, decide_false, List.contains_eq_mem, Bool.false_eq_true, if_false, hl, h.globs_eq]
      refine ⟨by simp [applyOps, List.foldl_append], ?_⟩
      apply inv_markNew m h
      have h2 : names (applyOps (applyOp st.c (.decl n)) (lazyOps m x.gs n)) = x.ns ++ [n] := by
        rw [names_applyOps_lazy m _ _ _ (by rw [hc1]; simp), hc1]
      rw [names_set_existing _ _ _ _ (by rw [h2]; simp), h2]
  | glob p k v =>
    have hnone := reuse_none m st.prim p k v st.gs st.c (by rw [h.globs_eq]; exact hf p k v rfl)
    simp only [step, hnone, xstep, applyG, List.contains_nil, Bool.not_false, Bool.and_true, List.nil_append, h.names_eq,
      Bool.false_eq_true, if_false]
    have hts : ∀ t ∈ x.ns.filter (fun n => m p n), t ∈ names st.c := by
      intro t ht; rw [h.names_eq]; exact (List.mem_filter.mp ht).1
    refine ⟨foldl_sets k v _ _, ?_⟩
    exact {
      names_eq := by
        simp only []
        rw [foldl_sets, names_sets k v _ _ hts, h.names_eq]
      globs_eq := by simp [spec, ← h.globs_eq]
      applied_sub := by
        intro g hg a ha
        simp only [List.mem_append, List.mem_singleton] at hg
        rcases hg with hg | hg
        · exact h.applied_sub g hg a ha
        · subst hg; exact (List.mem_filter.mp ha).1
      applied_all := by
        intro g hg a ha hma
        simp only [List.mem_append, List.mem_singleton] at hg
        rcases hg with hg | hg
        · exact h.applied_all g hg a ha hma
        · subst hg; exact List.mem_filter.mpr ⟨ha, hma⟩
      keys := by
        intro g hg
        simp only [List.mem_append, List.mem_singleton] at hg
        rcases hg with hg | hg
        · exact h.keys g hg
        · subst hg; exact hl p k v rfl }

theorem xstep_gs (x : XSt) (s : GStmt) :
    (xstep m x s).2.gs = match s with | .glob p k v => x.gs ++ [(p, k, v)] | _ => x.gs := by
  cases s <;> simp only [xstep] <;> (try split) <;> rfl

theorem run_sim : ∀ (p : List GStmt) (st : St) (x : XSt), Inv m st x → noDel p = true → noLabelGlob p = true →
    freshGlobs x.gs p = true →
    (p.foldl (step m) st).c = applyOps st.c (expand m x p)
  | [], st, x, _, _, _, _ => by simp [expand, applyOps]
  | s :: rest, st, x, h, hd, hlg, hfr => by
    have hf : ∀ p k v, s = .glob p k v → (p, k, v) ∉ x.gs := by
      intro p k v hs; subst hs
      simp only [freshGlobs, Bool.and_eq_true, Bool.not_eq_true', List.contains_eq_mem, decide_eq_false_iff_not] at hfr
      exact hfr.1
    have hfrest : freshGlobs (xstep m x s).2.gs rest = true := by
      rw [xstep_gs]
      cases s <;> simp_all [freshGlobs]
    have hl : ∀ p k v, s = .glob p k v → k ≠ "Label" := by
      intro p k v hs; subst hs
      simp only [noLabelGlob, Bool.and_eq_true, bne_iff_ne, ne_eq] at hlg
      exact hlg.1
    have hlrest : noLabelGlob rest = true := by
      cases s <;> simp_all [noLabelGlob]
    have hs : ∀ n, s ≠ .del n := by
      intro n hsn; subst hsn; simp [noDel] at hd
    have hrest : noDel rest = true := by
      cases s <;> simp_all [noDel]
    obtain ⟨hc, hi⟩ := step_sim m st x s h hs hl hf
    simp only [List.foldl_cons, expand]
    rw [run_sim rest _ _ hi hrest hlrest hfrest, hc]
    simp [applyOps, List.foldl_append]

/-- **C12_glob_is_expansion (partial: one block, attribute globs, no deletions)** — the operational semantics with
    applied-set bookkeeping and lazy re-application computes exactly the board of the expanded program -/
theorem C12_glob_is_expansion_partial (p : List GStmt) (hd : noDel p = true) (hl : noLabelGlob p = true)
    (hf : freshGlobs [] p = true) :
    (run m p).c = applyOps [] (expand m {} p) := by
  have h0 : Inv m {} {} :=
    ⟨rfl, rfl, fun g hg => absurd hg (by simp), fun g hg => absurd hg (by simp), fun g hg => absurd hg (by simp)⟩
  simpa [run] using run_sim m p {} {} h0 hd hl hf

/-! the excluded region is a real counterexample: after `d: null` the re-declared `d` is not globbed again -/
def mAll : String → String → Bool := fun _ _ => true

theorem C12_cx_redeclared_after_null :
    (run mAll [.glob "*" "style.Opacity" "0.3", .decl "d", .del "d", .decl "d"]).c = [("d", [])] ∧
    applyOps [] (expand mAll {} [.glob "*" "style.Opacity" "0.3", .decl "d", .del "d", .decl "d"]) =
      [("d", [("style.Opacity", "0.3")])] := by
  decide

/-- the other excluded region: of two globs that give a later object a label the first wins (`*: L2; a*: L4; ax`
    gives `L2`), while source order says the second -/
theorem C12_cx_label_first_glob_wins :
    (run mAll [.glob "*" "Label" "L2", .glob "a*" "Label" "L4", .decl "ax"]).c = [("ax", [("Label", "L2")])] ∧
    applyOps [] (expand mAll {} [.glob "*" "Label" "L2", .glob "a*" "Label" "L4", .decl "ax"]) =
      [("ax", [("Label", "L4")])] := by
  decide

/-- third excluded region: a repeated glob declaration is not applied at its own position -/
theorem C12_cx_duplicate_glob :
    (run mAll [.decl "x", .glob "*" "Shape" "circle", .set "x" "Shape" "square", .glob "*" "Shape" "circle"]).c =
      [("x", [("Shape", "square")])] ∧
    applyOps [] (expand mAll {} [.decl "x", .glob "*" "Shape" "circle", .set "x" "Shape" "square",
      .glob "*" "Shape" "circle"]) = [("x", [("Shape", "circle")])] := by
  decide

example : noDel [GStmt.glob "*" "k" "v", .decl "d", .set "e" "k" "w"] = true ∧
    noLabelGlob [GStmt.glob "*" "k" "v", .decl "d", .set "e" "k" "w"] = true ∧
    freshGlobs [] [GStmt.glob "*" "k" "v", .decl "d", .set "e" "k" "w"] = true := by decide

end D2V.GlobSem
