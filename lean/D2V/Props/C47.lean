import D2V.Model.Corpus
set_option linter.unusedSimpArgs false
/-! C47 — Embedded fonts cover every character drawn with them.

  `corpus_covers_drawn` : for every board, every character of every text the renderer draws from the diagram's fields
  occurs in `GetCorpus`; `nested_corpus_covers_drawn` : the same for a board tree and `GetNestedCorpus` (animated SVG);
  `unique_chars_sound` : the dedupe loop of `GetEncodedSubset` keeps every character of the corpus (and adds none),
  so the string handed to the subsetter has exactly the corpus' characters.  The subsetter itself (`lib/font`) is
  evaluated on real runs, not modelled. -/
namespace D2V.Corpus

/-- `piecesCover ds ps`: every drawn text is covered, character-wise, by the flattened pieces -/
def Covers (ds : List (List Char)) (corp : List Char) : Prop := ∀ t ∈ ds, ∀ c ∈ t, c ∈ corp

theorem covers_nil (corp : List Char) : Covers [] corp := by intro t h; cases h

theorem covers_append {a b : List (List Char)} {corp : List Char} (ha : Covers a corp) (hb : Covers b corp) :
    Covers (a ++ b) corp := by
  intro t ht c hc
  rcases List.mem_append.mp ht with h | h
  · exact ha t h c hc
  · exact hb t h c hc

theorem covers_mono {ds : List (List Char)} {c1 c2 : List Char} (h : Covers ds c1) (hsub : ∀ c ∈ c1, c ∈ c2) :
    Covers ds c2 := fun t ht c hc => hsub c (h t ht c hc)

/-- texts that are themselves pieces are covered by the flattened pieces -/
theorem covers_of_subset {ds ps : List (List Char)} (h : ∀ t ∈ ds, t ∈ ps) : Covers ds ps.flatten := by
  intro t ht c hc
  exact List.mem_flatten.mpr ⟨t, h t ht, hc⟩

theorem rowDrawn_covered (r : Row) : Covers (rowDrawn r) (rowPieces r).flatten := by
  intro t ht c hc
  simp only [rowDrawn, List.mem_cons, List.not_mem_nil, or_false] at ht
  simp only [rowPieces, List.flatten_cons, List.flatten_nil, List.append_nil, List.mem_append]
  rcases ht with h | h | h <;> subst h
  · exact Or.inr hc
  · exact Or.inl (Or.inl hc)
  · exact Or.inl (Or.inr hc)

theorem colDrawn_covered (k : Column) : Covers (colDrawn k) (colPieces k).flatten := by
  apply covers_of_subset
  intro t ht
  simp only [colDrawn, List.mem_cons, List.not_mem_nil, or_false] at ht
  simp only [colPieces, List.mem_cons, List.not_mem_nil, or_false]
  rcases ht with h | h | h <;> simp [h]

theorem flatMap_covered {α : Type} (f g : α → List (List Char)) (xs : List α)
    (h : ∀ x, Covers (f x) (g x).flatten) : Covers (xs.flatMap f) (xs.flatMap g).flatten := by
  induction xs with
  | nil => exact covers_nil _
  | cons x xs ih =>
    simp only [List.flatMap_cons, List.flatten_append]
    exact covers_append (covers_mono (h x) (fun c hc => List.mem_append.mpr (Or.inl hc)))
      (covers_mono ih (fun c hc => List.mem_append.mpr (Or.inr hc)))

theorem covers_parts {a b : List (List Char)} {pa pb : List (List Char)} (ha : Covers a pa.flatten)
    (hb : Covers b pb.flatten) : Covers (a ++ b) (pa ++ pb).flatten := by
  rw [List.flatten_append]
  exact covers_append (covers_mono ha (fun c h => List.mem_append.mpr (Or.inl h)))
    (covers_mono hb (fun c h => List.mem_append.mpr (Or.inr h)))

/-- one shape: same appendix counter afterwards, and everything drawn is in its pieces -/
theorem shape_covered (s : Shape) (cnt : Nat) :
    (shapeDrawn s cnt).2 = (shapePieces s cnt).2 ∧ Covers (shapeDrawn s cnt).1 (shapePieces s cnt).1.flatten := by
  refine ⟨rfl, ?_⟩
  simp only [shapeDrawn, shapePieces]
  refine covers_parts (covers_parts (covers_parts (covers_parts ?_ ?_) ?_) ?_) ?_
  · exact covers_of_subset (fun t h => h)
  · exact covers_of_subset (fun t h => h)
  · apply covers_of_subset
    intro t ht
    unfold linkDrawn at ht
    unfold linkPieces
    split at ht
    · cases ht
    · rename_i hl
      simp only [List.mem_cons, List.not_mem_nil, or_false] at ht
      simp only [hl, if_false, List.mem_append, List.mem_cons, List.not_mem_nil, or_false]
      rcases ht with h | h <;> simp [h]
  · unfold classDrawn classPieces
    split
    · exact covers_parts (flatMap_covered _ _ _ rowDrawn_covered) (flatMap_covered _ _ _ rowDrawn_covered)
    · exact covers_nil _
  · unfold tableDrawn tablePieces
    split
    · exact flatMap_covered _ _ _ colDrawn_covered
    · exact covers_nil _

theorem shapes_covered (ss : List Shape) (cnt : Nat) : Covers (shapesDrawn ss cnt) (shapesPieces ss cnt).flatten := by
  induction ss generalizing cnt with
  | nil => exact covers_nil _
  | cons s rest ih =>
    obtain ⟨hc, hcov⟩ := shape_covered s cnt
    simp only [shapesDrawn, shapesPieces, List.flatten_append]
    rw [hc]
    exact covers_append (covers_mono hcov (fun c h => List.mem_append.mpr (Or.inl h)))
      (covers_mono (ih _) (fun c h => List.mem_append.mpr (Or.inr h)))

/-- **the corpus covers everything drawn from the diagram's fields** -/
theorem corpus_covers_drawn (b : Board) : Covers (drawn b) (corpus b) := by
  simp only [drawn, corpus, boardPieces, List.flatten_append]
  refine covers_append (covers_append ?_ ?_) ?_
  · exact covers_mono (shapes_covered b.shapes 0) (fun c h => List.mem_append.mpr (Or.inl (List.mem_append.mpr (Or.inl h))))
  · exact covers_mono (covers_of_subset (fun t h => h)) (fun c h => List.mem_append.mpr (Or.inl (List.mem_append.mpr (Or.inr h))))
  · exact covers_mono (covers_of_subset (fun t h => h)) (fun c h => List.mem_append.mpr (Or.inr h))

mutual
  theorem nested_covers (t : Tree) : Covers (nestedDrawn t) (nestedCorpus t) := by
    cases t with
    | node b kids =>
      simp only [nestedDrawn, nestedCorpus]
      exact covers_append (covers_mono (corpus_covers_drawn b) (fun c h => List.mem_append.mpr (Or.inl h)))
        (covers_mono (nested_covers_list kids) (fun c h => List.mem_append.mpr (Or.inr h)))
  theorem nested_covers_list (ts : List Tree) : Covers (nestedDrawnList ts) (nestedCorpusList ts) := by
    cases ts with
    | nil => exact covers_nil _
    | cons t ts =>
      simp only [nestedDrawnList, nestedCorpusList]
      exact covers_append (covers_mono (nested_covers t) (fun c h => List.mem_append.mpr (Or.inl h)))
        (covers_mono (nested_covers_list ts) (fun c h => List.mem_append.mpr (Or.inr h)))
end

/-- `GetNestedCorpus` covers everything drawn on every board of the tree -/
theorem nested_corpus_covers_drawn (t : Tree) : Covers (nestedDrawn t) (nestedCorpus t) := nested_covers t

theorem uniq_fold_mem (s acc : List Char) (c : Char) : c ∈ s.foldl uniqStep acc ↔ c ∈ acc ∨ c ∈ s := by
  induction s generalizing acc with
  | nil => simp
  | cons x xs ih =>
    simp only [List.foldl_cons, ih, uniqStep]
    by_cases h : x ∈ acc
    · have hb : acc.contains x = true := by simpa using h
      simp only [hb, if_true, List.mem_cons]
      constructor
      · rintro (h1 | h1) <;> simp [h1]
      · rintro (h1 | rfl | h1) <;> simp [*]
    · have hb : acc.contains x = false := by simpa using h
      simp only [hb, Bool.false_eq_true, if_false, List.mem_cons]
      constructor
      · rintro ((rfl | h1) | h1) <;> simp [*]
      · rintro (h1 | rfl | h1) <;> simp [*]

/-- **the dedupe keeps every character and adds none** -/
theorem unique_chars_sound (s : List Char) (c : Char) : c ∈ uniqueChars s ↔ c ∈ s := by
  simp [uniqueChars, uniq_fold_mem]

/-- the string handed to the subsetter covers everything drawn -/
theorem subset_input_covers_drawn (b : Board) : Covers (drawn b) (uniqueChars (corpus b)) :=
  covers_mono (corpus_covers_drawn b) (fun c h => (unique_chars_sound _ c).mpr h)

example : covered (drawn ⟨[⟨['a'], ['t'], [], [], "rectangle", [], [], []⟩], [], none⟩)
    (corpus ⟨[⟨['a'], ['t'], [], [], "rectangle", [], [], []⟩], [], none⟩) = true := by decide

end D2V.Corpus
