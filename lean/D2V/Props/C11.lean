import D2V.Model.SemCore
import D2V.Model.SemGraph
import D2V.Proofs.SemEdges
/-!
  C11 — Parallel connections are indexed consecutively; indexed references hit one.

  Graph side (`d2graph.Connect` / `initIndex`): for every sequence of graph-construction operations the indices of
  the connections of one class (same endpoints, same arrow flags) are 0, 1, 2, … in list order
  (`graph_indices_consecutive`), hence no two connections share an ID (`edge_ids_distinct`).

  IR side (`d2ir`): an indexed reference selects the stored edges that `EdgeID.Match` the reference; when the
  indices of a class are pairwise distinct it selects at most one (`indexed_ref_hits_one`).  With the index rule
  `count` (`index := len(ea)`) distinctness does not survive a deletion: `C11_cx_index_after_delete`.
-/
namespace D2V.SemG

def GEdge.sameClass (e : GEdge) (s d : Nat) (sa da : Bool) : Bool :=
  decide (e.src = s ∧ e.dst = d ∧ e.sa = sa ∧ e.da = da)

/-- the index of the `i`-th connection is the number of earlier connections of its class -/
def Consecutive (es : List GEdge) : Prop :=
  ∀ i e, es[i]? = some e → e.index = countSame (es.take i) e.src e.dst e.sa e.da

theorem addEdge_consecutive {g : Graph} (h : Consecutive g.edges) (s d : Nat) (sa da : Bool) (label : String)
    (style : List (String × String)) (pos : Nat) : Consecutive (addEdge g s d sa da label style pos).edges := by
  intro i e hi
  simp only [addEdge] at hi
  by_cases hlt : i < g.edges.length
  · rw [List.getElem?_append_left hlt] at hi
    have := h i e hi
    simp only [addEdge]
    rw [List.take_append_of_le_length (Nat.le_of_lt hlt)]
    exact this
  · have hge : g.edges.length ≤ i := Nat.le_of_not_lt hlt
    rw [List.getElem?_append_right hge] at hi
    have hi0 : i - g.edges.length = 0 := by
      cases hk : i - g.edges.length with
      | zero => rfl
      | succ k => rw [hk] at hi; simp at hi
    rw [hi0] at hi
    simp at hi; subst hi
    have : i = g.edges.length := by omega
    subst this
    simp [addEdge]

theorem ensureChild_edges (g : Graph) (p : Nat) (id : String) : (ensureChild g p id).1.edges = g.edges := by
  unfold ensureChild
  cases g.nodes[p]? with
  | none => rfl
  | some n =>
    simp only
    cases lookup n.cmap (fold id) <;> rfl

theorem ensurePath_edges (g : Graph) (p : Nat) (path : List String) : (ensurePath g p path).1.edges = g.edges := by
  induction path generalizing g p with
  | nil => rfl
  | cons id rest ih => simp only [ensurePath]; rw [ih, ensureChild_edges]

theorem apply_consecutive {g : Graph} (h : Consecutive g.edges) (op : Op) : Consecutive (apply g op).edges := by
  cases op with
  | ensure path => simpa [apply, ensurePath_edges] using h
  | attrs path label shape style pos => simpa [apply, ensurePath_edges] using h
  | connect base src dst sa da label style pos =>
    simp only [apply]
    apply addEdge_consecutive
    simpa [ensurePath_edges] using h

/-- C11, graph side: for every operation sequence the connections of each class are numbered 0, 1, 2, … in list order -/
theorem graph_indices_consecutive (ops : List Op) : Consecutive (build ops).edges := by
  unfold build
  suffices h : ∀ g, Consecutive g.edges → Consecutive (ops.foldl apply g).edges from
    h init (by intro i e hi; simp [init] at hi)
  induction ops with
  | nil => intro g h; simpa using h
  | cons op rest ih => intro g h; simp only [List.foldl_cons]; exact ih _ (apply_consecutive h op)

theorem countSame_take_mono (es : List GEdge) (s d : Nat) (sa da : Bool) {i j : Nat} (hij : i ≤ j) :
    countSame (es.take i) s d sa da ≤ countSame (es.take j) s d sa da := by
  unfold countSame
  have : (es.take i) = (es.take j).take i := by rw [List.take_take]; congr 1; omega
  rw [this]
  exact List.Sublist.length_le (List.Sublist.filter _ (List.take_sublist _ _))

theorem countSame_take_succ (es : List GEdge) (i : Nat) (e : GEdge) (h : es[i]? = some e) :
    countSame (es.take (i + 1)) e.src e.dst e.sa e.da = countSame (es.take i) e.src e.dst e.sa e.da + 1 := by
  unfold countSame
  rw [List.take_add_one, h]
  simp [List.filter_append]

/-- … hence two different connections of a board never carry the same (endpoints, direction, index): IDs are distinct -/
theorem edge_ids_distinct {es : List GEdge} (h : Consecutive es) {i j : Nat} {a b : GEdge} (hij : i < j)
    (ha : es[i]? = some a) (hb : es[j]? = some b)
    (hc : a.src = b.src ∧ a.dst = b.dst ∧ a.sa = b.sa ∧ a.da = b.da) : a.index ≠ b.index := by
  have h1 := h i a ha
  have h2 := h j b hb
  have h3 := countSame_take_succ es i a ha
  have h4 := countSame_take_mono es a.src a.dst a.sa a.da (show i + 1 ≤ j by omega)
  obtain ⟨e1, e2, e3, e4⟩ := hc
  rw [e1, e2, e3, e4] at h1 h3 h4
  omega

theorem C11_edge_ids_distinct (ops : List Op) {i j : Nat} {a b : GEdge} (hij : i < j)
    (ha : (build ops).edges[i]? = some a) (hb : (build ops).edges[j]? = some b)
    (hc : a.src = b.src ∧ a.dst = b.dst ∧ a.sa = b.sa ∧ a.da = b.da) : a.index ≠ b.index :=
  edge_ids_distinct (graph_indices_consecutive ops) hij ha hb hc

example : ((build [.connect [] ["a"] ["b"] false true "" [] 0, .connect [] ["A"] ["b"] false true "" [] 5]).edges.map (·.index)) = [0, 1] := by
  decide

end D2V.SemG

/-! ### IR side -/
namespace D2V.Sem
open D2V.Gen.SemKw
open D2V.SemG (fold)

/-- C11, IR side: when the indices of each class are distinct, a reference with an index selects at most one edge -/
theorem indexed_ref_hits_one (es : List ENode) (h : IndicesDistinct es) (eid : EID) (i : Nat) (hi : eid.idx = some i) :
    (es.filter fun e => e.matchesEID eid).length ≤ 1 := by
  have hp : (es.filter fun e => e.matchesEID eid).Pairwise fun a b => a.cls = b.cls → a.idx ≠ b.idx :=
    List.Pairwise.sublist (List.filter_sublist) h
  have hmem : ∀ x ∈ es.filter (fun e => e.matchesEID eid), x.matchesEID eid = true := fun x hx => (List.mem_filter.mp hx).2
  generalize es.filter (fun e => e.matchesEID eid) = l at hp hmem
  match l, hp, hmem with
  | [], _, _ => simp
  | [_], _, _ => simp
  | a :: b :: r, hp, hmem =>
    exfalso
    have ma := (matchesEID_iff a eid).mp (hmem a (by simp))
    have mb := (matchesEID_iff b eid).mp (hmem b (by simp))
    have hab := (List.pairwise_cons.mp hp).1 b (by simp)
    exact hab (ma.2.trans mb.2.symm) ((ma.1 i hi).trans (mb.1 i hi).symm)

/-- … for the lookup `GetEdges` performs in any map -/
theorem getEdgesNil_hits_one (ir : IR) (h : ∀ m, IndicesDistinct (ir.edgesOf m)) (m : Owner) (eid : EID) (i : Nat)
    (hi : eid.idx = some i) : (ir.getEdgesNil m eid).length ≤ 1 := by
  unfold IR.getEdgesNil
  split
  · simp
  · rename_i m' s d common _
    split
    · exact indexed_ref_hits_one _ (h m') _ i hi
    · split
      · rename_i f _
        split
        · exact indexed_ref_hits_one _ (h _) _ i hi
        · simp
      · simp

/-- C11, IR side, for the rule `index := largest existing index + 1` (the prepared fix): in the IR of EVERY program — nested
    scopes, chains, underscores, deletions, re-creations — a reference with an index selects at most one edge -/
theorem indexed_ref_hits_one_maxPlus1 (prog : List Decl) (m : Owner) (eid : EID) (i : Nat) (hi : eid.idx = some i) :
    ((evalWith .maxPlus1 prog).getEdgesNil m eid).length ≤ 1 :=
  getEdgesNil_hits_one _ (fun m' => by rw [edgesOf_eq]; exact maxPlus1_inv prog m') m eid i hi

/-- … and for the rule of the unchanged tree (`index := number of existing equal edges`) in the IR of every program that
    assigns no null anywhere (the excluded region is exactly where the counterexample below lives) -/
theorem indexed_ref_hits_one_partial (prog : List Decl) (hnonull : (flattenList prog).any itemNull = false)
    (m : Owner) (eid : EID) (i : Nat) (hi : eid.idx = some i) :
    ((evalWith .count prog).getEdgesNil m eid).length ≤ 1 :=
  getEdgesNil_hits_one _ (fun m' => by rw [edgesOf_eq]; exact count_inv_partial prog hnonull m') m eid i hi

/-! #### a reference to a missing index is an error -/

theorem getEdgesNil_no_index (ir : IR) (m : Owner) (eid : EID) (i : Nat) (hi : eid.idx = some i)
    (hno : ∀ x ∈ ir.edges, x.idx ≠ i) : ir.getEdgesNil m eid = [] := by
  have hf : ∀ (m' : Owner) (eid' : EID), eid'.idx = some i → (ir.edgesOf m').filter (fun e => e.matchesEID eid') = [] := by
    intro m' eid' hi'
    rw [List.filter_eq_nil_iff]
    intro x hx
    have hx' : x ∈ ir.edges := (List.mem_filter.mp hx).1
    intro hm
    exact hno x hx' (((matchesEID_iff x eid').mp hm).1 i hi')
  unfold IR.getEdgesNil
  split
  · rfl
  · dsimp only
    split
    · exact hf _ _ hi
    · split
      · split
        · exact hf _ _ hi
        · rfl
      · rfl

/-- when no stored edge carries index `i`, the lookup of an indexed reference `(…)[i]` finds nothing … -/
theorem getEdgesRef_no_index (ir : IR) (scope : Owner) (e : EdgeAst) (i : Nat) (hno : ∀ x ∈ ir.edges, x.idx ≠ i) :
    (ir.getEdgesRef scope e (some i)).2 = [] := by
  unfold IR.getEdgesRef
  split
  · rfl
  · split
    · rfl
    · rename_i h1
      have e1 := descendLookup_edges' h1
      split
      · rename_i h2
        have e2 := (EnsureField_edges' h2).trans e1
        split
        · rename_i ir3 df h3
          have e3 := (EnsureField_edges' h3).trans e2
          simp only [List.map_eq_nil_iff]
          exact getEdgesNil_no_index ir3 _ _ i rfl (by rw [e3]; exact hno)
        · rfl
      · rfl

/-- … and the declaration is rejected with `indexed edge does not exist` (nothing is opened, nothing else is reported) -/
theorem missing_index_error (rule : IdxRule) (ir : IR) (scope : Owner) (e : EdgeAst) (i : Nat) (d : FDecl)
    (hk : d.key = []) (he : d.edge = some e) (hi : d.idx = some i) (hnn : isNull d = false)
    (hno : ∀ x ∈ ir.edges, x.idx ≠ i) :
    (ir.evalDecl rule scope d).2 = [] ∧
    ∃ ir' : IR, (ir.evalDecl rule scope d).1 = ir'.addErr .idxMissing ∧ ir'.errs = ir.errs ∧ ir'.edges = ir.edges := by
  have hmiss := getEdgesRef_no_index { ir with next := ir.next + 1 } scope e i (by simpa using hno)
  have hedges := getEdgesRef_edges { ir with next := ir.next + 1 } scope e (some i)
  have herrs : ({ ir with next := ir.next + 1 } : IR).getEdgesRef scope e (some i) |>.1.errs = ir.errs := by
    have := getEdgesRef_errs { ir with next := ir.next + 1 } scope e (some i)
    simpa using this
  unfold IR.evalDecl
  simp only [he, hk, List.isEmpty_nil, if_true, hnn, Bool.false_eq_true, if_false, hi, Option.isSome_some]
  generalize hres : ({ ir with next := ir.next + 1 } : IR).getEdgesRef scope e (some i) = res at hmiss hedges herrs
  obtain ⟨ir1, ea⟩ := res
  simp only at hmiss hedges herrs
  subst hmiss
  simp only [List.isEmpty_nil, if_true]
  exact ⟨trivial, ir1, rfl, herrs, by simpa using hedges⟩

/-- the stated goal, over the index rule read off the source on this run -/
def C11_full_statement : Prop :=
  ∀ (prog : List Decl) (m : Owner) (eid : EID) (i : Nat), eid.idx = some i → ((eval prog).getEdgesNil m eid).length ≤ 1

/-- the goal holds as soon as `createEdge2` uses the rule `largest + 1` -/
theorem C11_full_of_maxPlus1 (h : idxRule = .maxPlus1) : C11_full_statement := by
  intro prog m eid i hi
  unfold eval
  rw [h]
  exact indexed_ref_hits_one_maxPlus1 prog m eid i hi

/-- C11, IR side, on the tree as it is now: `createEdge2` numbers a new edge largest + 1 (`idxRule`, regenerated from the source
    on every run, reduces to `maxPlus1`), so the goal holds for every program.  If the source goes back to `len(ea)` (or to
    anything the extractor does not recognise) this proof no longer checks. -/
theorem C11_full : C11_full_statement := C11_full_of_maxPlus1 rfl

/-- the hypothesis is satisfiable and the bound is attained -/
example : IndicesDistinct [({ id := 1, owner := .root, src := [], dst := [], sa := false, da := true, idx := 0 } : ENode),
                           { id := 2, owner := .root, src := [], dst := [], sa := false, da := true, idx := 1 }] := by
  simp [IndicesDistinct]

/-! #### the index rules of `createEdge2` -/

/-- … whereas with `index := len(ea)` it need not: an edge with index 1 and nothing else gives index 1 again -/
theorem newIndex_count_collides :
    ∃ es : List ENode, ∃ e ∈ es, e.idx = newIndex .count es :=
  ⟨[{ id := 2, owner := .root, src := [], dst := [], sa := false, da := true, idx := 1 }], _, List.mem_singleton.mpr rfl, rfl⟩

/-! #### the witness: `a -> b; a -> b; (a -> b)[0]: null; a -> b; (a -> b)[1].label: X` -/

def cxName (s : String) (p : Nat) : Name := { s := s, q := false, pos := p }
def cxAB (p : Nat) : EdgeAst := { src := [cxName "a" p], dst := [cxName "b" (p + 5)], sa := false, da := true, pos := p }

def cxProgram : List Decl :=
  [ .mk [] [cxAB 0] none [] none none none,
    .mk [] [cxAB 7] none [] none none none,
    .mk [] [cxAB 15] (some 0) [] none (some .null) none,
    .mk [] [cxAB 32] none [] none none none,
    .mk [] [cxAB 40] (some 1) [cxName "label" 50] none (some (.str "X")) none ]

/-- (edge id, IR index) of the live edges whose map holds `label: X` -/
def labelledX (ir : IR) : List (Nat × Nat) :=
  (ir.edges.filter (·.alive)).filterMap fun e =>
    if (ir.fieldsOf (.edg e.id)).any (fun f => f.name.s == "label" && f.prim == some "X") then some (e.id, e.idx) else none

/-- C11 was false for the rule `index := len(ea)` (the tree before fix 735eb7a20): after the deletion the new edge gets index 1 again, both remaining edges
    carry index 1, and the reference `(a -> b)[1]` changes both (replayed on d2: both connections are labelled X) -/
theorem C11_cx_index_after_delete :
    labelledX (evalWith .count cxProgram) = [(6, 1), (8, 1)] ∧ (evalWith .count cxProgram).errs = [] ∧
    ¬ IndicesDistinct ((evalWith .count cxProgram).edgesOf .root) := by
  refine ⟨by decide +kernel, by decide +kernel, ?_⟩
  intro h
  have hk : ((evalWith .count cxProgram).edgesOf .root).map (fun e => (e.cls, e.idx)) =
      [((["a".toList], ["b".toList], false, true), 1), ((["a".toList], ["b".toList], false, true), 1)] := by decide +kernel
  have hm : (((evalWith .count cxProgram).edgesOf .root).map (fun e => (e.cls, e.idx))).Pairwise
      (fun a b => a.1 = b.1 → a.2 ≠ b.2) := List.pairwise_map.mpr h
  rw [hk] at hm
  simp at hm

/-- … so the goal is false while `createEdge2` uses `index := len(ea)` -/
theorem C11_full_false_of_count (h : idxRule = .count) : ¬ C11_full_statement := by
  intro hall
  have := hall cxProgram .root { src := [cxName "a" 0], dst := [cxName "b" 0], sa := false, da := true, idx := some 1 } 1 rfl
  unfold eval at this
  rw [h] at this
  have hlen : ((evalWith .count cxProgram).getEdgesNil .root
      { src := [cxName "a" 0], dst := [cxName "b" 0], sa := false, da := true, idx := some 1 }).length = 2 := by decide +kernel
  omega

example : (flattenList (cxProgram.take 2)).any itemNull = false := by decide

/-- under the rule `index := largest + 1` the same program changes exactly one edge -/
theorem C11_witness_under_maxPlus1 : labelledX (evalWith .maxPlus1 cxProgram) = [(6, 1)] := by decide +kernel

end D2V.Sem
