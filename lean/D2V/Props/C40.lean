import D2V.Model.Edit
import D2V.Proofs.EditDeltas
/-!
  C40 — ID-change predictions match the edits they predict.

  Over the abstract semantics `Edit.Spec` (the diagram as objects + connections, delete / rename / move / reconnect as
  element-wise transformations, the prediction as "old ID ↦ new ID for every survivor whose ID changes"):
  for EVERY diagram with unique labels and unique IDs, every target, every valid or invalid choice of collision names,
  the prediction agrees with the edit in the sense of the property sentence (`deltasAgree`, the very predicate the
  driver evaluates on the real before/after pair and the real `*IDDeltas` output).
-/
namespace D2V.Edit

/-- what `deltasAgree` says, in words: for every element `(l, i)` before the edit — if an element with label `l`
    exists afterwards its ID is the predicted one (`lookupD` = the prediction, or the old ID when nothing is
    predicted); otherwise (the element was removed) no prediction exists for `i`. -/
theorem deltasAgree_iff {L ι : Type} [BEq L] [BEq ι] (before after : List (L × ι)) (deltas : List (ι × ι)) :
    deltasAgree before after deltas = true ↔
      ∀ li ∈ before,
        (∀ li', after.find? (·.1 == li.1) = some li' → (li'.2 == lookupD deltas li.2) = true) ∧
        (after.find? (·.1 == li.1) = none → inDom deltas li.2 = false) := by
  unfold deltasAgree
  rw [List.all_eq_true]
  constructor
  · intro h li hli
    have := h li hli
    constructor
    · intro li' hf; rw [hf] at this; exact this
    · intro hf; rw [hf] at this; simpa using this
  · intro h li hli
    have := h li hli
    cases hf : after.find? (·.1 == li.1) with
    | none => simp [this.2 hf]
    | some li' => exact this.1 li' hf

theorem mapPath_label (f : Path → Path) (o : Obj) : (o.mapPath f).label = o.label := rfl
theorem mapPaths_label (f : Path → Path) (e : Edge) : (e.mapPaths f).label = e.label := rfl

theorem renumberAfter_label (e f : Edge) : (Spec.renumberAfter e f).label = f.label := by
  unfold Spec.renumberAfter; split <;> rfl

theorem reconnectEdge_label (e : Edge) (s t : Path) (i : Nat) (f : Edge) : (Spec.reconnectEdge e s t i f).label = f.label := by
  unfold Spec.reconnectEdge
  split
  · rfl
  · simp only
    split
    · simp [renumberAfter_label]
    · exact renumberAfter_label e f

/-- **C40, delete of an object** (children hoisted with any choice `ren` of collision names) -/
theorem deltas_agree_delete (d : Diagram) (x : Path) (ren : List (String × String))
    (hl : LabelsUnique d) (hi : IdsUnique d) :
    deltasAgree d.elems (Spec.deleteObj d x ren).elems (Spec.deleteObjDeltas d x ren) = true :=
  apply_deltas_agree d _ _ _ _ (mapPath_label _) (mapPaths_label _) hl hi

/-- **C40, delete of a connection** (later parallel connections renumbered) -/
theorem deltas_agree_delete_edge (d : Diagram) (e : Edge) (hl : LabelsUnique d) (hi : IdsUnique d) :
    deltasAgree d.elems (Spec.deleteEdge d e).elems (Spec.deleteEdgeDeltas d e) = true :=
  apply_deltas_agree d _ _ _ _ (fun _ => rfl) (renumberAfter_label e) hl hi

/-- **C40, rename / move with descendants** -/
theorem deltas_agree_rename (d : Diagram) (x n : Path) (hl : LabelsUnique d) (hi : IdsUnique d) :
    deltasAgree d.elems (Spec.moveWith d x n).elems (Spec.moveWithDeltas d x n) = true :=
  apply_deltas_agree d _ _ _ _ (mapPath_label _) (mapPaths_label _) hl hi

/-- **C40, move without descendants** (children stay in the former parent) -/
theorem deltas_agree_move (d : Diagram) (x n : Path) (ren : List (String × String))
    (hl : LabelsUnique d) (hi : IdsUnique d) :
    deltasAgree d.elems (Spec.moveWithout d x n ren).elems (Spec.moveWithoutDeltas d x n ren) = true :=
  apply_deltas_agree d _ _ _ _ (mapPath_label _) (mapPaths_label _) hl hi

/-- **C40, reconnect** -/
theorem deltas_agree_reconnect (d : Diagram) (e : Edge) (s t : Path) (i : Nat)
    (hl : LabelsUnique d) (hi : IdsUnique d) :
    deltasAgree d.elems (Spec.reconnect d e s t i).elems (Spec.reconnectDeltas d e s t i) = true :=
  apply_deltas_agree d _ _ _ _ (fun _ => rfl) (reconnectEdge_label e s t i) hl hi

/-! the hypotheses are what the executable checks of the driver establish -/

theorem nodupStr_iff (l : List String) : nodupStr l = true ↔ l.Nodup := by
  induction l with
  | nil => simp [nodupStr]
  | cons a r ih =>
    simp only [nodupStr, Bool.and_eq_true, Bool.not_eq_true', List.nodup_cons, ih]
    constructor
    · rintro ⟨h1, h2⟩
      exact ⟨by simpa using h1, h2⟩
    · rintro ⟨h1, h2⟩
      exact ⟨by simpa using h1, h2⟩

theorem uniqueLabels_sound (d : Diagram) (h : d.uniqueLabels = true) : LabelsUnique d := by
  unfold Diagram.uniqueLabels at h
  simp only [Bool.and_eq_true] at h
  exact ⟨(nodupStr_iff _).mp h.1, (nodupStr_iff _).mp h.2⟩

theorem nodupKeys_iff (l : List Path) : nodupKeys l = true ↔ (l.map keyOf).Nodup := by
  induction l with
  | nil => simp [nodupKeys]
  | cons a r ih =>
    simp only [nodupKeys, Bool.and_eq_true, Bool.not_eq_true', List.map_cons, List.nodup_cons, ih]
    constructor
    · rintro ⟨h1, h2⟩
      refine ⟨?_, h2⟩
      intro hmem
      rcases List.mem_map.mp hmem with ⟨q, hq, hqa⟩
      have : (r.any fun q => samePath a q) = true := by
        rw [List.any_eq_true]
        exact ⟨q, hq, by simp [samePath, hqa]⟩
      rw [this] at h1; cases h1
    · rintro ⟨h1, h2⟩
      refine ⟨?_, h2⟩
      cases hany : (r.any fun q => samePath a q) with
      | false => rfl
      | true =>
        rw [List.any_eq_true] at hany
        rcases hany with ⟨q, hq, hs⟩
        exfalso
        apply h1
        have : keyOf a = keyOf q := by simpa [samePath] using hs
        rw [this]
        exact List.mem_map.mpr ⟨q, hq, rfl⟩

/-- the object half of `IdsUnique` is what well-formedness (`Diagram.wf`, checked on every returned graph) gives -/
theorem wf_objs_ids_unique (d : Diagram) (h : d.wf = true) : (d.objs.map Spec.Obj.id).Nodup := by
  unfold Diagram.wf at h
  simp only [Bool.and_eq_true] at h
  have hk := (nodupKeys_iff _).mp h.1.1.1.2
  have : d.objs.map Spec.Obj.id = ((d.objs.map (·.path)).map keyOf).map Spec.Id.obj := by
    simp [List.map_map, Function.comp_def, Spec.Obj.id]
  rw [this]
  exact nodup_map_inj _ (fun a b hab => by cases hab; rfl) hk

/-- non-vacuity: a diagram with a container, a child, two parallel connections; deleting the container -/
def exDiagram : Diagram :=
  { objs := [⟨["a"], "L1", []⟩, ⟨["a", "b"], "L2", []⟩, ⟨["c"], "L3", []⟩],
    edges := [⟨["a", "b"], ["c"], false, true, 0, "E1", []⟩, ⟨["a", "b"], ["c"], false, true, 1, "E2", []⟩,
              ⟨["a"], ["c"], false, true, 0, "E3", []⟩] }

example : LabelsUnique exDiagram ∧ IdsUnique exDiagram := by
  refine ⟨⟨by decide, by decide⟩, ⟨by decide, by decide⟩⟩

example : Spec.deleteObjDeltas exDiagram ["a"] [] =
    [(.obj ["a", "b"], .obj ["b"]), (.edge ["a", "b"] ["c"] false true 0, .edge ["b"] ["c"] false true 0),
     (.edge ["a", "b"] ["c"] false true 1, .edge ["b"] ["c"] false true 1)] := by decide

/-- the defect class C40-delete-deltas-predict-for-removed-edges, stated on the witness: a prediction for the
    connection `a -> c`, which the delete of `a` removes, violates the property predicate -/
theorem C40_cx_prediction_for_removed_edge :
    deltasAgree exDiagram.elems (Spec.deleteObj exDiagram ["a"] []).elems
      ((.edge ["a"] ["c"] false true 0, .edge ["c"] ["c"] false true 0) :: Spec.deleteObjDeltas exDiagram ["a"] []) = false := by
  decide

end D2V.Edit
