import D2V.Model.Canvas
import D2V.Gen.AsciiCharset
/-!
  C32 — ASCII rendering is total and keeps labels visible.

  Proved here: facts about the regenerated glyph tables and literals of `d2ascii/**` (finite tables: `decide`), and the
  bounds discipline of the canvas (no raw slice access is ever reached with an index outside the grid — for every
  canvas, position, glyph and label). The 2 kLoC of drawing order (which cell is written last) is not modelled: the
  visibility clause of the property is evaluated on real renders only (level `other`).
-/
namespace D2V.Canvas
open D2V.Gen.AsciiCharset

/-! ### the glyph tables -/

def sevenBit (s : String) : Bool := s.toList.all fun c => c.toNat < 128

/-- **ascii_table_7bit**: every glyph of the standard character set is 7-bit ASCII -/
theorem ascii_table_7bit : ∀ g ∈ asciiGlyphs, ∀ c ∈ g.2.toList, c.toNat < 128 := by decide

/-- both tables implement every method of `charset.Set`, in interface order -/
theorem tables_complete : asciiGlyphs.map (·.1) = setMethods ∧ unicodeGlyphs.map (·.1) = setMethods := by decide

/-- every glyph is exactly one character (a canvas cell holds one glyph) -/
theorem glyphs_single_char : (∀ g ∈ asciiGlyphs, g.2.length = 1) ∧ (∀ g ∈ unicodeGlyphs, g.2.length = 1) := by decide

/-- the literal whose bytes `DrawDocument` indexes -/
def tcurveLiteral : String := ".-`‾"

/-- **canvas_literals_7bit_partial**: every other string or rune literal of `d2ascii/**` that can reach the canvas is
    7-bit ASCII — except the Unicode constants of `charset/charset.go` (unused by the drawing code) and the literal
    `tcurveLiteral` (see `C32_cx_document_tcurve`). -/
theorem canvas_literals_7bit_partial :
    ∀ l ∈ canvasLiterals, l.1 ≠ "d2renderers/d2ascii/charset/charset.go" → l.2.2 ≠ tcurveLiteral → sevenBit l.2.2 = true := by
  decide

/-- UTF-8 bytes of a string, as Go's `s[i]` sees them -/
def utf8Bytes (s : String) : List UInt8 := s.toList.flatMap String.utf8EncodeChar

/-- **C32_cx_document_tcurve**: `DrawDocument` builds the right half of the wavy bottom edge from
    `rune(tcurve[i])`; `tcurve[3]` is the first *byte* (0xE2) of the three-byte `‾`, so the glyph written — in the
    standard character set too — is U+00E2 `â`, not 7-bit ASCII. -/
theorem C32_cx_document_tcurve :
    (utf8Bytes tcurveLiteral)[3]? = some 0xE2 ∧ ¬ ((0xE2 : Nat) < 128) := by
  refine ⟨by decide +kernel, by decide⟩

/-- the current source either still has that byte-index site (tree as found) or has no byte-index site at all (with
    the prepared `fix:`) — regenerated list -/
theorem document_site_listed_or_gone :
    ("d2renderers/d2ascii/asciishapes/document.go", "DrawDocument", "tcurve", tcurveLiteral) ∈ byteIndexSites ∨
    (byteIndexSites.all fun s => sevenBit s.2.2.2) = true := by decide

/-- apart from that literal no byte-indexed literal contains a multi-byte character -/
theorem byte_index_sites_partial : ∀ s ∈ byteIndexSites, s.2.2.2 ≠ tcurveLiteral → sevenBit s.2.2.2 = true := by decide

/-! ### canvas totality -/

theorem rawSet_ok_of_inBounds (c : Canvas) (x y : Int) (ch : String) (h : c.isInBounds x y = true) :
    ∃ c', c.rawSet x y ch = .ok c' := by
  unfold Canvas.isInBounds at h
  simp only [Bool.and_eq_true, decide_eq_true_eq] at h
  obtain ⟨⟨hy0, _⟩, hrow⟩ := h
  unfold Canvas.rawSet
  have hy : ¬ y < 0 := by omega
  simp only [hy, if_false]
  cases hr : c.grid[y.toNat]? with
  | none => simp [hr] at hrow
  | some row =>
    simp only [hr, Bool.and_eq_true, decide_eq_true_eq] at hrow ⊢
    obtain ⟨hx0, hx⟩ := hrow
    have hx' : ¬ x < 0 := by omega
    have hx'' : x.toNat < row.size := by omega
    simp [hx', hx'']

theorem rawGet_ok_of_inBounds (c : Canvas) (x y : Int) (h : c.isInBounds x y = true) :
    ∃ s, c.rawGet x y = .ok s := by
  unfold Canvas.isInBounds at h
  simp only [Bool.and_eq_true, decide_eq_true_eq] at h
  obtain ⟨⟨hy0, _⟩, hrow⟩ := h
  unfold Canvas.rawGet
  have hy : ¬ y < 0 := by omega
  simp only [hy, if_false]
  cases hr : c.grid[y.toNat]? with
  | none => simp [hr] at hrow
  | some row =>
    simp only [hr, Bool.and_eq_true, decide_eq_true_eq] at hrow ⊢
    obtain ⟨hx0, hx⟩ := hrow
    have hx' : ¬ x < 0 := by omega
    have hx'' : x.toNat < row.size := by omega
    simp only [hx', if_false]
    have : row[x.toNat]? = some row[x.toNat] := Array.getElem?_eq_getElem hx''
    rw [this]
    exact ⟨_, rfl⟩

/-- `Set` never indexes outside the grid — for every canvas (also ragged ones), every position, every glyph -/
theorem set_total (c : Canvas) (x y : Int) (ch : String) : ∃ c', c.set x y ch = .ok c' := by
  unfold Canvas.set
  by_cases h : c.isInBounds x y = true
  · simp only [h, if_true]; exact rawSet_ok_of_inBounds c x y ch h
  · simp only [h]; exact ⟨c, rfl⟩

theorem get_total (c : Canvas) (x y : Int) : ∃ s, c.get x y = .ok s := by
  unfold Canvas.get
  by_cases h : c.isInBounds x y = true
  · simp only [h, if_true]; exact rawGet_ok_of_inBounds c x y h
  · simp only [h]; exact ⟨"", rfl⟩

theorem drawLine_total (cells : List (Nat × Char)) (c : Canvas) (x y : Int) : ∃ c', c.drawLine x y cells = .ok c' := by
  induction cells generalizing c with
  | nil => exact ⟨c, rfl⟩
  | cons cell r ih =>
    obtain ⟨c1, h1⟩ := set_total c (x + cell.1) y (String.singleton cell.2)
    obtain ⟨c2, h2⟩ := ih c1
    refine ⟨c2, ?_⟩
    unfold Canvas.drawLine at h2 ⊢
    rw [List.foldlM_cons, h1]
    exact h2

theorem drawLines_total (f : List Char → List (Nat × Char)) (lines : List (List Char × Nat)) (c : Canvas) (x y : Int) :
    ∃ c', lines.foldlM (fun c (p : List Char × Nat) => c.drawLine x (y + p.2) (f p.1)) c = .ok c' := by
  induction lines generalizing c with
  | nil => exact ⟨c, rfl⟩
  | cons p r ih =>
    obtain ⟨c1, h1⟩ := drawLine_total (f p.1) c x (y + p.2)
    obtain ⟨c2, h2⟩ := ih c1
    refine ⟨c2, ?_⟩
    rw [List.foldlM_cons, h1]
    exact h2

/-- **canvas_total**: `Set`, `Get` and `DrawLabel` never dereference an index outside the grid, for every canvas,
    every (possibly negative or huge) position and every label (any characters, any number of lines). -/
theorem canvas_total (c : Canvas) (x y : Int) :
    (∀ ch, ∃ c', c.set x y ch = .ok c') ∧ (∃ s, c.get x y = .ok s) ∧
    (∀ label byteOff, ∃ c', c.drawLabel x y label byteOff = .ok c') := by
  refine ⟨set_total c x y, get_total c x y, ?_⟩
  intro label byteOff
  unfold Canvas.drawLabel
  by_cases h : c.isInBounds x y = true
  · simp only [h, Bool.not_true, Bool.false_eq_true, if_false]
    exact drawLines_total (lineCells byteOff) _ c x y
  · simp only [h]; exact ⟨c, rfl⟩

/-! ### what a cell holds -/

/-- content of cell (x, y), `none` outside the grid -/
def cell (c : Canvas) (x y : Int) : Option String :=
  if y < 0 ∨ x < 0 then none else
  match c.grid[y.toNat]? with
  | some row => row[x.toNat]?
  | none => none

theorem isInBounds_eq_cell (c : Canvas) (x y : Int) : c.isInBounds x y = (cell c x y).isSome := by
  unfold Canvas.isInBounds cell
  by_cases hy : y < 0
  · have : ¬ (0 ≤ y) := by omega
    simp [hy, this]
  · have hy' : 0 ≤ y := by omega
    by_cases hx : x < 0
    · have : ¬ (0 ≤ x) := by omega
      cases hr : c.grid[y.toNat]? <;> simp [hx, this, hr]
    · have hx' : 0 ≤ x := by omega
      cases hr : c.grid[y.toNat]? with
      | none => simp [hy, hx, hr]
      | some row =>
        have hsz : y < c.grid.size := by
          have := Array.getElem?_eq_some_iff.1 hr
          obtain ⟨h, _⟩ := this
          omega
        simp only [hy, hx, hr, hy', hx', hsz, or_self, if_false, decide_true, Bool.true_and]
        by_cases hlt : x.toNat < row.size
        · have : x < row.size := by omega
          simp [this, Array.getElem?_eq_getElem hlt]
        · have : ¬ x < row.size := by omega
          have hn : row[x.toNat]? = none := Array.getElem?_eq_none (by omega)
          simp [this, hn]

theorem get_eq_cell (c : Canvas) (x y : Int) : c.get x y = .ok ((cell c x y).getD "") := by
  unfold Canvas.get
  rw [isInBounds_eq_cell]
  cases hc : cell c x y with
  | none => simp
  | some s =>
    simp only [Option.isSome_some, if_true, Option.getD_some]
    unfold cell at hc
    unfold Canvas.rawGet
    by_cases hy : y < 0
    · simp [hy] at hc
    · by_cases hx : x < 0
      · simp [hx] at hc
      · simp only [hy, hx, or_self, if_false] at hc ⊢
        cases hr : c.grid[y.toNat]? with
        | none => simp [hr] at hc
        | some row => simp only [hr] at hc ⊢; rw [hc]

/-- `Set` changes exactly the addressed cell, and only when it exists -/
theorem set_cell (c c' : Canvas) (x y : Int) (ch : String) (h : c.set x y ch = .ok c') (x' y' : Int) :
    cell c' x' y' = if x' = x ∧ y' = y ∧ (cell c x y).isSome then some ch else cell c x' y' := by
  unfold Canvas.set at h
  rw [isInBounds_eq_cell] at h
  cases hc : cell c x y with
  | none =>
    simp only [hc, Option.isSome_none, Bool.false_eq_true, if_false] at h
    cases h
    simp
  | some s0 =>
    simp only [hc, Option.isSome_some, if_true] at h
    have hc0 := hc
    unfold cell at hc
    by_cases hy : y < 0
    · simp [hy] at hc
    · by_cases hx : x < 0
      · simp [hx] at hc
      · simp only [hy, hx, or_self, if_false] at hc
        cases hr : c.grid[y.toNat]? with
        | none => simp [hr] at hc
        | some row =>
          simp only [hr] at hc
          have hxlt : x.toNat < row.size := by
            have := Array.getElem?_eq_some_iff.1 hc
            exact this.1
          unfold Canvas.rawSet at h
          simp only [hy, hx, if_false, hr, hxlt, if_true] at h
          cases h
          simp only [Option.isSome_some, and_true]
          unfold cell
          by_cases hy' : y' < 0
          · have : ¬ (x' = x ∧ y' = y) := by omega
            simp [hy', this]
          · by_cases hx' : x' < 0
            · have : ¬ (x' = x ∧ y' = y) := by omega
              simp [hx', this]
            · simp only [hy', hx', or_self, if_false]
              rw [Array.getElem?_setIfInBounds]
              by_cases hyy : y.toNat = y'.toNat
              · have hyeq : y' = y := by omega
                have hysz : y.toNat < c.grid.size := (Array.getElem?_eq_some_iff.1 hr).1
                simp only [hyy, if_true]
                rw [← hyy]
                simp only [hysz, if_true]
                rw [Array.getElem?_setIfInBounds]
                by_cases hxx : x.toNat = x'.toNat
                · have hxeq : x' = x := by omega
                  have hx'lt : x'.toNat < row.size := by omega
                  simp [hxx, hxeq, hyeq, hx'lt]
                · have hxne : x' ≠ x := by omega
                  simp [hxx, hxne, hyeq, hr]
              · have hyne : y' ≠ y := by omega
                simp [hyy, hyne]

theorem drawLine_cell (cells : List (Nat × Char)) (c c' : Canvas) (x y : Int) (h : c.drawLine x y cells = .ok c')
    (hnodup : (cells.map (·.1)).Nodup) (x' y' : Int) :
    cell c' x' y' = match cells.find? (fun p => decide (x + p.1 = x') ) with
      | some p => if y' = y ∧ (cell c x' y).isSome then some (String.singleton p.2) else cell c x' y'
      | none => cell c x' y' := by
  induction cells generalizing c with
  | nil =>
    unfold Canvas.drawLine at h
    simp only [List.foldlM_nil] at h
    cases h
    simp
  | cons p r ih =>
    unfold Canvas.drawLine at h
    rw [List.foldlM_cons] at h
    obtain ⟨c1, h1⟩ := set_total c (x + p.1) y (String.singleton p.2)
    rw [h1] at h
    have hr : c1.drawLine x y r = .ok c' := h
    have hnd : (r.map (·.1)).Nodup := (List.nodup_cons.1 (by simpa using hnodup)).2
    have hnotin : p.1 ∉ r.map (·.1) := (List.nodup_cons.1 (by simpa using hnodup)).1
    rw [ih c1 hr hnd]
    have hs := set_cell c c1 (x + p.1) y (String.singleton p.2) h1
    simp only [List.find?_cons]
    by_cases hp : x + ↑p.1 = x'
    · -- the first cell addresses column x': no later cell does
      have hnone : r.find? (fun q => decide (x + ↑q.1 = x')) = none := by
        rw [List.find?_eq_none]
        intro q hq hqx
        apply hnotin
        have : (q.1 : Int) = p.1 := by
          have := of_decide_eq_true hqx
          omega
        have : q.1 = p.1 := by exact_mod_cast this
        exact List.mem_map.2 ⟨q, hq, this⟩
      simp only [hnone, hp, decide_true]
      rw [hs x' y']
      simp only [← hp, true_and]
    · simp only [hp, decide_false]
      have hcell : ∀ yy, cell c1 x' yy = cell c x' yy := by
        intro yy
        rw [hs x' yy]
        have : ¬ (x' = x + ↑p.1 ∧ yy = y ∧ (cell c (x + ↑p.1) y).isSome = true) := by
          intro hh; exact hp hh.1.symm
        simp [this]
      rw [hcell y', hcell y]

/-! ### a drawn label reads back -/

theorem byteOffsets_ge (l : List Char) (off : Nat) : ∀ p ∈ byteOffsets l off, off ≤ p.1 := by
  induction l generalizing off with
  | nil => intro p hp; cases hp
  | cons ch r ih =>
    intro p hp
    simp only [byteOffsets, List.mem_cons] at hp
    rcases hp with rfl | hp
    · exact Nat.le_refl _
    · have := ih (off + ch.utf8Size) p hp; omega

theorem byteOffsets_nodup (l : List Char) (off : Nat) : ((byteOffsets l off).map (·.1)).Nodup := by
  induction l generalizing off with
  | nil => simp [byteOffsets]
  | cons ch r ih =>
    simp only [byteOffsets, List.map_cons, List.nodup_cons]
    refine ⟨?_, ih _⟩
    intro hmem
    obtain ⟨p, hp, hpe⟩ := List.mem_map.1 hmem
    have h1 := byteOffsets_ge r (off + ch.utf8Size) p hp
    have h2 : 0 < ch.utf8Size := Char.utf8Size_pos ch
    omega

/-- for a 7-bit label the i-th character is the one drawn at column offset i -/
theorem byteOffsets_find (l : List Char) (hascii : ∀ ch ∈ l, ch.utf8Size = 1) (x : Int) (off i : Nat) (hi : i < l.length) :
    (byteOffsets l off).find? (fun p => decide (x + ↑p.1 = x + ↑(off + i))) = some (off + i, l[i]) := by
  induction l generalizing off i with
  | nil => cases hi
  | cons ch r ih =>
    simp only [byteOffsets, List.find?_cons]
    cases i with
    | zero => simp
    | succ j =>
      have hne : ¬ (x + (off : Int) = x + ((off + (j + 1) : Nat) : Int)) := by omega
      simp only [hne, decide_false]
      have hsz : ch.utf8Size = 1 := hascii ch (by simp)
      have hj : j < r.length := by simpa using hi
      have := ih (fun c hc => hascii c (by simp [hc])) (off + ch.utf8Size) j hj
      rw [hsz] at this ⊢
      have e : off + 1 + j = off + (j + 1) := by omega
      rw [e] at this
      simpa using this

theorem splitLines_go_noNewline (l cur : List Char) (h : '\n' ∉ l) : splitLines.go l cur = [cur.reverse ++ l] := by
  induction l generalizing cur with
  | nil => simp [splitLines.go]
  | cons ch r ih =>
    have hch : ch ≠ '\n' := fun e => h (by simp [e])
    have hr : '\n' ∉ r := fun e => h (by simp [e])
    rw [splitLines.go, if_neg hch, ih (ch :: cur) hr]
    simp

theorem splitLines_noNewline (l : List Char) (h : '\n' ∉ l) : splitLines l = [l] := by
  unfold splitLines
  rw [splitLines_go_noNewline l [] h]
  simp

theorem runeOffsets_ascii (l : List Char) (off : Nat) (hascii : ∀ ch ∈ l, ch.utf8Size = 1) :
    runeOffsets l off = byteOffsets l off := by
  induction l generalizing off with
  | nil => rfl
  | cons ch r ih =>
    simp only [runeOffsets, byteOffsets]
    rw [hascii ch (by simp), ih (off + 1) (fun c hc => hascii c (by simp [hc]))]

/-- for 7-bit text both variants of `DrawLabel` use the same columns -/
theorem lineCells_ascii (b : Bool) (l : List Char) (hascii : ∀ ch ∈ l, ch.utf8Size = 1) :
    lineCells b l = byteOffsets l 0 := by
  cases b
  · simp [lineCells, runeOffsets_ascii l 0 hascii]
  · simp [lineCells]

/-- **drawLabel_visible**: (for both variants of the column advance) a single-line 7-bit label drawn where every one of its cells exists reads back character by
    character from the row it was drawn on (until something else is drawn over it). -/
theorem drawLabel_visible (c c' : Canvas) (x y : Int) (l : List Char) (byteOff : Bool)
    (hascii : ∀ ch ∈ l, ch.utf8Size = 1) (hnl : '\n' ∉ l)
    (hfit : ∀ i, i < l.length → (cell c (x + i) y).isSome = true) (hpos : 0 < l.length)
    (h : c.drawLabel x y l byteOff = .ok c') :
    ∀ i (hi : i < l.length), c'.get (x + i) y = .ok (String.singleton l[i]) := by
  intro i hi
  have hb : c.isInBounds x y = true := by
    rw [isInBounds_eq_cell]
    have := hfit 0 hpos
    simpa using this
  unfold Canvas.drawLabel at h
  simp only [hb, Bool.not_true, Bool.false_eq_true, if_false, splitLines_noNewline l hnl] at h
  simp only [List.zipIdx_cons, List.zipIdx_nil, List.foldlM_cons, List.foldlM_nil, lineCells_ascii byteOff l hascii] at h
  have hline : c.drawLine x y (byteOffsets l 0) = .ok c' := by
    cases hd : c.drawLine x y (byteOffsets l 0) with
    | error e => simp [hd, bind, Except.bind] at h
    | ok c1 => simpa [hd, bind, Except.bind, pure, Except.pure] using h
  rw [get_eq_cell, drawLine_cell _ c c' x y hline (byteOffsets_nodup l 0) (x + i) y]
  have hf := byteOffsets_find l hascii x 0 i hi
  simp only [Nat.zero_add] at hf
  rw [hf]
  simp [hfit i hi]

/-! ### one column per rune: every single-line label reads back, whatever its characters -/

theorem runeOffsets_ge (l : List Char) (off : Nat) : ∀ p ∈ runeOffsets l off, off ≤ p.1 := by
  induction l generalizing off with
  | nil => intro p hp; cases hp
  | cons ch r ih =>
    intro p hp
    simp only [runeOffsets, List.mem_cons] at hp
    rcases hp with rfl | hp
    · exact Nat.le_refl _
    · have := ih (off + 1) p hp; omega

theorem runeOffsets_nodup (l : List Char) (off : Nat) : ((runeOffsets l off).map (·.1)).Nodup := by
  induction l generalizing off with
  | nil => simp [runeOffsets]
  | cons ch r ih =>
    simp only [runeOffsets, List.map_cons, List.nodup_cons]
    refine ⟨?_, ih _⟩
    intro hmem
    obtain ⟨p, hp, hpe⟩ := List.mem_map.1 hmem
    have h1 := runeOffsets_ge r (off + 1) p hp
    omega

theorem runeOffsets_find (l : List Char) (x : Int) (off i : Nat) (hi : i < l.length) :
    (runeOffsets l off).find? (fun p => decide (x + ↑p.1 = x + ↑(off + i))) = some (off + i, l[i]) := by
  induction l generalizing off i with
  | nil => cases hi
  | cons ch r ih =>
    simp only [runeOffsets, List.find?_cons]
    cases i with
    | zero => simp
    | succ j =>
      have hne : ¬ (x + (off : Int) = x + ((off + (j + 1) : Nat) : Int)) := by omega
      simp only [hne, decide_false]
      have hj : j < r.length := by simpa using hi
      have := ih (off + 1) j hj
      have e : off + 1 + j = off + (j + 1) := by omega
      rw [e] at this
      simpa using this

/-- **drawLabel_visible_runes**: with one column per rune (the variant of the prepared `fix:`), *every* single-line
    label — multi-byte characters included — reads back character by character from its row. -/
theorem drawLabel_visible_runes (c c' : Canvas) (x y : Int) (l : List Char) (hnl : '\n' ∉ l)
    (hfit : ∀ i, i < l.length → (cell c (x + i) y).isSome = true) (hpos : 0 < l.length)
    (h : c.drawLabel x y l (byteOff := false) = .ok c') :
    ∀ i (hi : i < l.length), c'.get (x + i) y = .ok (String.singleton l[i]) := by
  intro i hi
  have hb : c.isInBounds x y = true := by
    rw [isInBounds_eq_cell]
    have := hfit 0 hpos
    simpa using this
  unfold Canvas.drawLabel at h
  simp only [hb, Bool.not_true, Bool.false_eq_true, if_false, splitLines_noNewline l hnl] at h
  simp only [List.zipIdx_cons, List.zipIdx_nil, List.foldlM_cons, List.foldlM_nil, lineCells] at h
  have hline : c.drawLine x y (runeOffsets l 0) = .ok c' := by
    cases hd : c.drawLine x y (runeOffsets l 0) with
    | error e => simp [hd, bind, Except.bind] at h
    | ok c1 => simpa [hd, bind, Except.bind, pure, Except.pure] using h
  rw [get_eq_cell, drawLine_cell _ c c' x y hline (runeOffsets_nodup l 0) (x + i) y]
  have hf := runeOffsets_find l x 0 i hi
  simp only [Nat.zero_add] at hf
  rw [hf]
  simp [hfit i hi]

/-! ### labels -/

/-- text of row `y` of a drawing result -/
def rowOf (r : Except Crash Canvas) (y : Nat) : Option String :=
  match r with
  | .ok c => some (c.rowText y)
  | .error _ => none

/-- an ASCII label on an empty canvas reads back as written -/
example : rowOf ((Canvas.new 8 1).drawLabel 1 0 "cafe".toList) 0 = some " cafe   " := by decide +kernel

/-- **C32_cx_multibyte_label_gap**: `DrawLabel` advances the column by the *byte* offset of each rune, so a label with
    a multi-byte character is drawn with holes: `café au` comes out as `café  au` and the label is no longer a
    substring of its row. -/
theorem C32_cx_multibyte_label_gap :
    rowOf ((Canvas.new 10 1).drawLabel 0 0 "café au".toList (byteOff := true)) 0 = some "café  au  " ∧
    isInfix "café au".toList "café  au  ".toList = false := by
  refine ⟨by decide +kernel, by decide +kernel⟩

/-- with one column per rune (the prepared `fix:`) the same label is drawn contiguously -/
theorem C32_fix_resolves_multibyte_gap :
    rowOf ((Canvas.new 10 1).drawLabel 0 0 "café au".toList (byteOff := false)) 0 = some "café au   " ∧
    isInfix "café au".toList "café au   ".toList = true := by
  refine ⟨by decide +kernel, by decide +kernel⟩

end D2V.Canvas
