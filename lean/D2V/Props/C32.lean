import D2V.Model.Canvas
import D2V.Gen.AsciiCharset
/-!
  C32 — ASCII rendering is total and keeps labels visible.

  Proved here: facts about the regenerated glyph tables and literals of `d2ascii/**` (finite tables: `decide`), and the
  bounds discipline of the canvas (no raw slice access is ever reached with an index outside the grid — for every
  canvas, position, glyph and label). The 2 kLoC of drawing order (which cell is written last) is not modelled: the
  visibility clause of the property is evaluated on real renders only (level `other`).
-/
namespace D2V.Canvas
open D2V.Gen.AsciiCharset

/-! ### the glyph tables -/

def sevenBit (s : String) : Bool := s.toList.all fun c => c.toNat < 128

/-- **ascii_table_7bit**: every glyph of the standard character set is 7-bit ASCII -/
theorem ascii_table_7bit : ∀ g ∈ asciiGlyphs, ∀ c ∈ g.2.toList, c.toNat < 128 := by decide

/-- both tables implement every method of `charset.Set`, in interface order -/
theorem tables_complete : asciiGlyphs.map (·.1) = setMethods ∧ unicodeGlyphs.map (·.1) = setMethods := by decide

/-- every glyph is exactly one character (a canvas cell holds one glyph) -/
theorem glyphs_single_char : (∀ g ∈ asciiGlyphs, g.2.length = 1) ∧ (∀ g ∈ unicodeGlyphs, g.2.length = 1) := by decide

/-- the literal whose bytes `DrawDocument` indexes -/
def tcurveLiteral : String := ".-`‾"

/-- **canvas_literals_7bit_partial**: every other string or rune literal of `d2ascii/**` that can reach the canvas is
    7-bit ASCII — except the Unicode constants of `charset/charset.go` (unused by the drawing code) and the literal
    `tcurveLiteral` (see `C32_cx_document_tcurve`). -/
theorem canvas_literals_7bit_partial :
    ∀ l ∈ canvasLiterals, l.1 ≠ "d2renderers/d2ascii/charset/charset.go" → l.2.2 ≠ tcurveLiteral → sevenBit l.2.2 = true := by
  decide

/-- UTF-8 bytes of a string, as Go's `s[i]` sees them -/
def utf8Bytes (s : String) : List UInt8 := s.toList.flatMap String.utf8EncodeChar

/-- **C32_cx_document_tcurve**: `DrawDocument` builds the right half of the wavy bottom edge from
    `rune(tcurve[i])`; `tcurve[3]` is the first *byte* (0xE2) of the three-byte `‾`, so the glyph written — in the
    standard character set too — is U+00E2 `â`, not 7-bit ASCII. The site is in the regenerated list. -/
theorem C32_cx_document_tcurve :
    ("d2renderers/d2ascii/asciishapes/document.go", "DrawDocument", "tcurve", tcurveLiteral) ∈ byteIndexSites ∧
    (utf8Bytes tcurveLiteral)[3]? = some 0xE2 ∧ ¬ ((0xE2 : Nat) < 128) := by
  refine ⟨by decide, by decide +kernel, by decide⟩

/-- apart from that literal no byte-indexed literal contains a multi-byte character -/
theorem byte_index_sites_partial : ∀ s ∈ byteIndexSites, s.2.2.2 ≠ tcurveLiteral → sevenBit s.2.2.2 = true := by decide

/-! ### canvas totality -/

theorem rawSet_ok_of_inBounds (c : Canvas) (x y : Int) (ch : String) (h : c.isInBounds x y = true) :
    ∃ c', c.rawSet x y ch = .ok c' := by
  unfold Canvas.isInBounds at h
  simp only [Bool.and_eq_true, decide_eq_true_eq] at h
  obtain ⟨⟨hy0, _⟩, hrow⟩ := h
  unfold Canvas.rawSet
  have hy : ¬ y < 0 := by omega
  simp only [hy, if_false]
  cases hr : c.grid[y.toNat]? with
  | none => simp [hr] at hrow
  | some row =>
    simp only [hr, Bool.and_eq_true, decide_eq_true_eq] at hrow ⊢
    obtain ⟨hx0, hx⟩ := hrow
    have hx' : ¬ x < 0 := by omega
    have hx'' : x.toNat < row.size := by omega
    simp [hx', hx'']

theorem rawGet_ok_of_inBounds (c : Canvas) (x y : Int) (h : c.isInBounds x y = true) :
    ∃ s, c.rawGet x y = .ok s := by
  unfold Canvas.isInBounds at h
  simp only [Bool.and_eq_true, decide_eq_true_eq] at h
  obtain ⟨⟨hy0, _⟩, hrow⟩ := h
  unfold Canvas.rawGet
  have hy : ¬ y < 0 := by omega
  simp only [hy, if_false]
  cases hr : c.grid[y.toNat]? with
  | none => simp [hr] at hrow
  | some row =>
    simp only [hr, Bool.and_eq_true, decide_eq_true_eq] at hrow ⊢
    obtain ⟨hx0, hx⟩ := hrow
    have hx' : ¬ x < 0 := by omega
    have hx'' : x.toNat < row.size := by omega
    simp only [hx', if_false]
    have : row[x.toNat]? = some row[x.toNat] := Array.getElem?_eq_getElem hx''
    rw [this]
    exact ⟨_, rfl⟩

/-- `Set` never indexes outside the grid — for every canvas (also ragged ones), every position, every glyph -/
theorem set_total (c : Canvas) (x y : Int) (ch : String) : ∃ c', c.set x y ch = .ok c' := by
  unfold Canvas.set
  by_cases h : c.isInBounds x y = true
  · simp only [h, if_true]; exact rawSet_ok_of_inBounds c x y ch h
  · simp only [h]; exact ⟨c, rfl⟩

theorem get_total (c : Canvas) (x y : Int) : ∃ s, c.get x y = .ok s := by
  unfold Canvas.get
  by_cases h : c.isInBounds x y = true
  · simp only [h, if_true]; exact rawGet_ok_of_inBounds c x y h
  · simp only [h]; exact ⟨"", rfl⟩

theorem drawLine_total (cells : List (Nat × Char)) (c : Canvas) (x y : Int) : ∃ c', c.drawLine x y cells = .ok c' := by
  induction cells generalizing c with
  | nil => exact ⟨c, rfl⟩
  | cons cell r ih =>
    obtain ⟨c1, h1⟩ := set_total c (x + cell.1) y (String.singleton cell.2)
    obtain ⟨c2, h2⟩ := ih c1
    refine ⟨c2, ?_⟩
    unfold Canvas.drawLine at h2 ⊢
    rw [List.foldlM_cons, h1]
    exact h2

theorem drawLines_total (lines : List (List Char × Nat)) (c : Canvas) (x y : Int) :
    ∃ c', lines.foldlM (fun c (p : List Char × Nat) => c.drawLine x (y + p.2) (byteOffsets p.1 0)) c = .ok c' := by
  induction lines generalizing c with
  | nil => exact ⟨c, rfl⟩
  | cons p r ih =>
    obtain ⟨c1, h1⟩ := drawLine_total (byteOffsets p.1 0) c x (y + p.2)
    obtain ⟨c2, h2⟩ := ih c1
    refine ⟨c2, ?_⟩
    rw [List.foldlM_cons, h1]
    exact h2

/-- **canvas_total**: `Set`, `Get` and `DrawLabel` never dereference an index outside the grid, for every canvas,
    every (possibly negative or huge) position and every label (any characters, any number of lines). -/
theorem canvas_total (c : Canvas) (x y : Int) :
    (∀ ch, ∃ c', c.set x y ch = .ok c') ∧ (∃ s, c.get x y = .ok s) ∧ (∀ label, ∃ c', c.drawLabel x y label = .ok c') := by
  refine ⟨set_total c x y, get_total c x y, ?_⟩
  intro label
  unfold Canvas.drawLabel
  by_cases h : c.isInBounds x y = true
  · simp only [h, Bool.not_true, Bool.false_eq_true, if_false]
    exact drawLines_total _ c x y
  · simp only [h]; exact ⟨c, rfl⟩

/-! ### labels -/

/-- text of row `y` of a drawing result -/
def rowOf (r : Except Crash Canvas) (y : Nat) : Option String :=
  match r with
  | .ok c => some (c.rowText y)
  | .error _ => none

/-- an ASCII label on an empty canvas reads back as written -/
example : rowOf ((Canvas.new 8 1).drawLabel 1 0 "cafe".toList) 0 = some " cafe   " := by decide +kernel

/-- **C32_cx_multibyte_label_gap**: `DrawLabel` advances the column by the *byte* offset of each rune, so a label with
    a multi-byte character is drawn with holes: `café au` comes out as `café  au` and the label is no longer a
    substring of its row. -/
theorem C32_cx_multibyte_label_gap :
    rowOf ((Canvas.new 10 1).drawLabel 0 0 "café au".toList) 0 = some "café  au  " ∧
    isInfix "café au".toList "café  au  ".toList = false := by
  refine ⟨by decide +kernel, by decide +kernel⟩

end D2V.Canvas
