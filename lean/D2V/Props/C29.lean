import D2V.Model.BBox
import Mathlib.Tactic.Linarith
/-!
  C29 — Bounding box and SVG viewport enclose everything drawn.

  `boundingBox` mirrors `Diagram.BoundingBox`; `extents` lists what d2svg draws (written from the drawing code, not
  from the fold). Proved here: the generic fold lemma, enclosure of every extent class for which the real code is
  right, the viewport arithmetic, and — as `C29_cx_*` — the classes for which the unchanged code is wrong (each a
  concrete board, also reproduced with the CLI and listed in known findings).
-/
namespace D2V.BBox

/-! ### the min / max fold -/

theorem minFold_le_init (l : List Int) (init : Int) : minFold init l ≤ init := by
  induction l generalizing init with
  | nil => simp [minFold]
  | cons a l ih =>
    have := ih (min init a)
    simp only [minFold, List.foldl_cons] at this ⊢
    omega

theorem minFold_le (l : List Int) (init v : Int) (h : v ∈ l) : minFold init l ≤ v := by
  induction l generalizing init with
  | nil => cases h
  | cons a l ih =>
    simp only [minFold, List.foldl_cons]
    rcases List.mem_cons.1 h with rfl | h
    · have := minFold_le_init l (min init v)
      simp only [minFold] at this
      omega
    · exact ih (min init a) h

theorem init_le_maxFold (l : List Int) (init : Int) : init ≤ maxFold init l := by
  induction l generalizing init with
  | nil => simp [maxFold]
  | cons a l ih =>
    have := ih (max init a)
    simp only [maxFold, List.foldl_cons] at this ⊢
    omega

theorem le_maxFold (l : List Int) (init v : Int) (h : v ∈ l) : v ≤ maxFold init l := by
  induction l generalizing init with
  | nil => cases h
  | cons a l ih =>
    simp only [maxFold, List.foldl_cons]
    rcases List.mem_cons.1 h with rfl | h
    · have := init_le_maxFold l (max init v)
      simp only [maxFold] at this
      omega
    · exact ih (max init a) h

/-! ### candidates of an element are candidates of the diagram -/

theorem foldl_append_x1 (l : List Cands) (acc : Cands) :
    (l.foldl (· ++ ·) acc).x1 = acc.x1 ++ (l.map (·.x1)).flatten ∧
    (l.foldl (· ++ ·) acc).y1 = acc.y1 ++ (l.map (·.y1)).flatten ∧
    (l.foldl (· ++ ·) acc).x2 = acc.x2 ++ (l.map (·.x2)).flatten ∧
    (l.foldl (· ++ ·) acc).y2 = acc.y2 ++ (l.map (·.y2)).flatten := by
  induction l generalizing acc with
  | nil => simp
  | cons a l ih =>
    simp only [List.foldl_cons, List.map_cons, List.flatten_cons]
    obtain ⟨h1, h2, h3, h4⟩ := ih (acc ++ a)
    refine ⟨?_, ?_, ?_, ?_⟩
    · rw [h1]; show (acc.x1 ++ a.x1) ++ _ = _; simp
    · rw [h2]; show (acc.y1 ++ a.y1) ++ _ = _; simp
    · rw [h3]; show (acc.x2 ++ a.x2) ++ _ = _; simp
    · rw [h4]; show (acc.y2 ++ a.y2) ++ _ = _; simp

structure CandsSub (a b : Cands) : Prop where
  x1 : ∀ v ∈ a.x1, v ∈ b.x1
  y1 : ∀ v ∈ a.y1, v ∈ b.y1
  x2 : ∀ v ∈ a.x2, v ∈ b.x2
  y2 : ∀ v ∈ a.y2, v ∈ b.y2

theorem mem_foldl_sub (l : List Cands) (a : Cands) (h : a ∈ l) : CandsSub a (l.foldl (· ++ ·) {}) := by
  obtain ⟨h1, h2, h3, h4⟩ := foldl_append_x1 l {}
  constructor
  · intro v hv; rw [h1]; simp only [List.mem_append, List.mem_flatten, List.mem_map]
    exact Or.inr ⟨a.x1, ⟨a, h, rfl⟩, hv⟩
  · intro v hv; rw [h2]; simp only [List.mem_append, List.mem_flatten, List.mem_map]
    exact Or.inr ⟨a.y1, ⟨a, h, rfl⟩, hv⟩
  · intro v hv; rw [h3]; simp only [List.mem_append, List.mem_flatten, List.mem_map]
    exact Or.inr ⟨a.x2, ⟨a, h, rfl⟩, hv⟩
  · intro v hv; rw [h4]; simp only [List.mem_append, List.mem_flatten, List.mem_map]
    exact Or.inr ⟨a.y2, ⟨a, h, rfl⟩, hv⟩

theorem shape_sub_all (cfg : Cfg) (d : Diagram) (tips) (s : Shape) (hs : s ∈ d.shapes) :
    CandsSub (shapeCands cfg s (tips s.id)) (allCands cfg d tips) := by
  have h := mem_foldl_sub (d.shapes.map fun s => shapeCands cfg s (tips s.id)) (shapeCands cfg s (tips s.id))
    (List.mem_map.2 ⟨s, hs, rfl⟩)
  constructor
  · intro v hv; show v ∈ (_ ++ _ : List Int); exact List.mem_append.2 (Or.inl (h.x1 v hv))
  · intro v hv; show v ∈ (_ ++ _ : List Int); exact List.mem_append.2 (Or.inl (h.y1 v hv))
  · intro v hv; show v ∈ (_ ++ _ : List Int); exact List.mem_append.2 (Or.inl (h.x2 v hv))
  · intro v hv; show v ∈ (_ ++ _ : List Int); exact List.mem_append.2 (Or.inl (h.y2 v hv))

theorem conn_sub_all (cfg : Cfg) (d : Diagram) (tips) (c : Conn) (hc : c ∈ d.conns) :
    CandsSub (connCands c) (allCands cfg d tips) := by
  have h := mem_foldl_sub (d.conns.map connCands) (connCands c) (List.mem_map.2 ⟨c, hc, rfl⟩)
  constructor
  · intro v hv; show v ∈ (_ ++ _ : List Int); exact List.mem_append.2 (Or.inr (h.x1 v hv))
  · intro v hv; show v ∈ (_ ++ _ : List Int); exact List.mem_append.2 (Or.inr (h.y1 v hv))
  · intro v hv; show v ∈ (_ ++ _ : List Int); exact List.mem_append.2 (Or.inr (h.x2 v hv))
  · intro v hv; show v ∈ (_ ++ _ : List Int); exact List.mem_append.2 (Or.inr (h.y2 v hv))

/-- **fold_encloses**: the reported box is below every min-candidate and above every max-candidate of every shape
    and connection (any number of them) -/
theorem fold_encloses (cfg : Cfg) (d : Diagram) (tips) (hne : d.shapes ≠ []) (c : Cands) (hc : CandsSub c (allCands cfg d tips)) :
    (∀ v ∈ c.x1, (boundingBox cfg d tips).x1 ≤ v) ∧ (∀ v ∈ c.y1, (boundingBox cfg d tips).y1 ≤ v) ∧
    (∀ v ∈ c.x2, v ≤ (boundingBox cfg d tips).x2) ∧ (∀ v ∈ c.y2, v ≤ (boundingBox cfg d tips).y2) := by
  have he : d.shapes.isEmpty = false := by cases hd : d.shapes with
    | nil => exact absurd hd hne
    | cons _ _ => rfl
  unfold boundingBox
  simp only [he]
  exact ⟨fun v hv => minFold_le _ _ _ (hc.x1 v hv), fun v hv => minFold_le _ _ _ (hc.y1 v hv),
         fun v hv => le_maxFold _ _ _ (hc.x2 v hv), fun v hv => le_maxFold _ _ _ (hc.y2 v hv)⟩

/-! ### Go arithmetic -/

theorem ceilHalf_ge_half (n : Int) : (n : Rat) / 2 ≤ (ceilHalf n : Rat) := by
  unfold ceilHalf
  have h : n ≤ 2 * ((n + 1) / 2) := by omega
  have h' : (n : Rat) ≤ 2 * (((n + 1) / 2 : Int) : Rat) := by exact_mod_cast h
  linarith

theorem ceilHalf_le (n : Int) (h : 0 ≤ n) : ceilHalf n ≤ n := by unfold ceilHalf; omega
theorem ceilHalf_nonneg (n : Int) (h : 0 ≤ n) : 0 ≤ ceilHalf n := by unfold ceilHalf; omega

theorem truncZ_le_add_one (r : Rat) : (truncZ r : Rat) - 1 ≤ r := by
  unfold truncZ
  split
  · have := Rat.floor_le r; linarith
  · have h : ((r.ceil - 1 : Int) : Rat) < r := Rat.lt_ceil_iff.1 (by omega)
    push_cast at h; linarith

theorem le_truncZ_add_one (r : Rat) : r ≤ (truncZ r : Rat) + 1 := by
  unfold truncZ
  split
  · have h := Rat.lt_floor_add_one r; push_cast at h; linarith
  · have := @Rat.le_ceil r; linarith

theorem round_trunc_near (r : Rat) : (truncZ r : Rat) - 1 ≤ (roundHalfAway r : Rat) ∧ (roundHalfAway r : Rat) ≤ (truncZ r : Rat) + 1 := by
  unfold truncZ roundHalfAway
  split
  · -- r ≥ 0: floor r ≤ floor (r + 1/2) ≤ floor r + 1
    have h1 : r.floor ≤ (r + 1 / 2).floor := Rat.le_floor_iff.2 (by have := Rat.floor_le r; linarith)
    have h2 : (r + 1 / 2).floor ≤ r.floor + 1 := by
      have : (r + 1 / 2).floor < r.floor + 2 := Rat.floor_lt_iff.2 (by
        have := Rat.lt_floor_add_one r; push_cast at this ⊢; linarith)
      omega
    constructor
    · have : ((r.floor : Int) : Rat) ≤ ((r + 1 / 2).floor : Rat) := by exact_mod_cast h1
      linarith
    · have : (((r + 1 / 2).floor : Int) : Rat) ≤ ((r.floor + 1 : Int) : Rat) := by exact_mod_cast h2
      push_cast at this; linarith
  · have h1 : (r - 1 / 2).ceil ≤ r.ceil := Rat.ceil_le_iff.2 (by have := @Rat.le_ceil r; linarith)
    have h2 : r.ceil - 1 ≤ (r - 1 / 2).ceil := by
      have : r.ceil - 2 < (r - 1 / 2).ceil := Rat.lt_ceil_iff.2 (by
        have h : ((r.ceil - 1 : Int) : Rat) < r := Rat.lt_ceil_iff.1 (by omega)
        push_cast at h ⊢; linarith)
      omega
    constructor
    · have : ((r.ceil - 1 : Int) : Rat) ≤ (((r - 1 / 2).ceil : Int) : Rat) := by exact_mod_cast h2
      push_cast at this; linarith
    · have : (((r - 1 / 2).ceil : Int) : Rat) ≤ ((r.ceil : Int) : Rat) := by exact_mod_cast h1
      linarith

/-! ### the viewport -/

/-- **viewport_contains**: for every reported box, every padding (also negative) and every non-negative root stroke
    width, with or without double border, the view box computed by `dimensions` + `Render` contains the reported box
    grown by the padding. -/
theorem viewport_contains (bb : IBox) (pad rootSW : Int) (rootDouble : Bool) (h : 0 ≤ rootSW) :
    viewportContains (viewBox bb pad rootSW rootDouble) bb pad = true := by
  have hc := ceilHalf_nonneg rootSW h
  have hI : (0 : Int) ≤ INNER_BORDER_OFFSET := by decide
  unfold viewportContains viewBox
  generalize INNER_BORDER_OFFSET = I at hI ⊢
  cases rootDouble <;> simp only [decide_eq_true_eq] <;> simp only [Bool.false_eq_true, if_false, if_true] <;>
    omega

/-! ### sub-candidate bookkeeping -/

theorem CandsSub.refl (a : Cands) : CandsSub a a := ⟨fun _ h => h, fun _ h => h, fun _ h => h, fun _ h => h⟩

theorem CandsSub.trans {a b c : Cands} (h1 : CandsSub a b) (h2 : CandsSub b c) : CandsSub a c :=
  ⟨fun v h => h2.x1 v (h1.x1 v h), fun v h => h2.y1 v (h1.y1 v h), fun v h => h2.x2 v (h1.x2 v h), fun v h => h2.y2 v (h1.y2 v h)⟩

theorem CandsSub.left (a b : Cands) : CandsSub a (a ++ b) :=
  ⟨fun _ h => List.mem_append.2 (Or.inl h), fun _ h => List.mem_append.2 (Or.inl h),
   fun _ h => List.mem_append.2 (Or.inl h), fun _ h => List.mem_append.2 (Or.inl h)⟩

theorem CandsSub.right (a b : Cands) : CandsSub b (a ++ b) :=
  ⟨fun _ h => List.mem_append.2 (Or.inr h), fun _ h => List.mem_append.2 (Or.inr h),
   fun _ h => List.mem_append.2 (Or.inr h), fun _ h => List.mem_append.2 (Or.inr h)⟩

/-- every block of the shape loop contributes to the shape's candidates -/
theorem shape_parts (cfg : Cfg) (s : Shape) (tip) :
    CandsSub (baseCands s) (shapeCands cfg s tip) ∧ CandsSub (shadowCands s) (shapeCands cfg s tip) ∧
    CandsSub (threeCands s) (shapeCands cfg s tip) ∧ CandsSub (multiCands s) (shapeCands cfg s tip) ∧
    CandsSub (iconCands s) (shapeCands cfg s tip) ∧ CandsSub (labelCands cfg s) (shapeCands cfg s tip) := by
  unfold shapeCands
  refine ⟨?_, ?_, ?_, ?_, ?_, ?_⟩
  · exact ((((((CandsSub.left _ _).trans (CandsSub.left _ _)).trans (CandsSub.left _ _)).trans (CandsSub.left _ _)).trans
      (CandsSub.left _ _)).trans (CandsSub.left _ _)).trans (CandsSub.left _ _)
  · exact ((((CandsSub.right _ _).trans (CandsSub.left _ _)).trans (CandsSub.left _ _)).trans (CandsSub.left _ _)).trans
      (CandsSub.left _ _)
  · exact (((CandsSub.right _ _).trans (CandsSub.left _ _)).trans (CandsSub.left _ _)).trans (CandsSub.left _ _)
  · exact ((CandsSub.right _ _).trans (CandsSub.left _ _)).trans (CandsSub.left _ _)
  · exact (CandsSub.right _ _).trans (CandsSub.left _ _)
  · exact CandsSub.right _ _

theorem conn_parts (c : Conn) :
    CandsSub (routeCands c) (connCands c) ∧ CandsSub (anchoredCands c.label) (connCands c) ∧
    CandsSub (anchoredCands c.srcLabel) (connCands c) ∧ CandsSub (anchoredCands c.dstLabel) (connCands c) := by
  unfold connCands
  exact ⟨((CandsSub.left _ _).trans (CandsSub.left _ _)).trans (CandsSub.left _ _),
         ((CandsSub.right _ _).trans (CandsSub.left _ _)).trans (CandsSub.left _ _),
         (CandsSub.right _ _).trans (CandsSub.left _ _), CandsSub.right _ _⟩

/-- what `fold_encloses` gives for one block of one shape -/
theorem shape_block_bounds (cfg : Cfg) (d : Diagram) (tips) (s : Shape) (hs : s ∈ d.shapes) (c : Cands)
    (hc : CandsSub c (shapeCands cfg s (tips s.id))) :
    (∀ v ∈ c.x1, (boundingBox cfg d tips).x1 ≤ v) ∧ (∀ v ∈ c.y1, (boundingBox cfg d tips).y1 ≤ v) ∧
    (∀ v ∈ c.x2, v ≤ (boundingBox cfg d tips).x2) ∧ (∀ v ∈ c.y2, v ≤ (boundingBox cfg d tips).y2) :=
  fold_encloses cfg d tips (List.ne_nil_of_mem hs) c (hc.trans (shape_sub_all cfg d tips s hs))

theorem conn_block_bounds (cfg : Cfg) (d : Diagram) (tips) (hne : d.shapes ≠ []) (k : Conn) (hk : k ∈ d.conns) (c : Cands)
    (hc : CandsSub c (connCands k)) :
    (∀ v ∈ c.x1, (boundingBox cfg d tips).x1 ≤ v) ∧ (∀ v ∈ c.y1, (boundingBox cfg d tips).y1 ≤ v) ∧
    (∀ v ∈ c.x2, v ≤ (boundingBox cfg d tips).x2) ∧ (∀ v ∈ c.y2, v ≤ (boundingBox cfg d tips).y2) :=
  fold_encloses cfg d tips hne c (hc.trans (conn_sub_all cfg d tips k hk))

theorem enclosed_iff (sl : Rat) (bb : IBox) (e : RBox) :
    enclosed sl bb e = true ↔ ((bb.x1 : Rat) - sl ≤ e.x1 ∧ (bb.y1 : Rat) - sl ≤ e.y1 ∧ e.x2 ≤ (bb.x2 : Rat) + sl ∧ e.y2 ≤ (bb.y2 : Rat) + sl) := by
  simp [enclosed]

/-! ### shape boxes: stroke, shadow, 3D, multiple — exactly enclosed (no slack) -/

/-- **C29 (shape boxes)**: for every board, every shape of it with a non-negative stroke width: the shape box with its
    stroke, its shadow, its 3D extension and its `multiple` copy lie inside the reported box. -/
theorem C29_box_extents_enclosed (cfg : Cfg) (d : Diagram) (tips) (s : Shape) (hs : s ∈ d.shapes) (hsw : 0 ≤ s.sw)
    (e : Extent) (he : e ∈ boxExtents s) : enclosed 0 (boundingBox cfg d tips) e.box = true := by
  obtain ⟨pb, psh, p3, pm, _, _⟩ := shape_parts cfg s (tips s.id)
  obtain ⟨bx1, by1, bx2, by2⟩ := shape_block_bounds cfg d tips s hs _ pb
  have hx1 := bx1 (s.x - ceilHalf s.sw) (by simp [baseCands])
  have hy1 := by1 (s.y - ceilHalf s.sw) (by simp [baseCands])
  have hx2 := bx2 (s.x + s.w + ceilHalf s.sw) (by simp [baseCands])
  have hy2 := by2 (s.y + s.h + ceilHalf s.sw) (by simp [baseCands])
  have hc0 := ceilHalf_nonneg s.sw hsw
  have hcs := ceilHalf_le s.sw hsw
  have hx1' : ((boundingBox cfg d tips).x1 : Rat) ≤ ((s.x - ceilHalf s.sw : Int) : Rat) := by exact_mod_cast hx1
  have hy1' : ((boundingBox cfg d tips).y1 : Rat) ≤ ((s.y - ceilHalf s.sw : Int) : Rat) := by exact_mod_cast hy1
  have hx2' : ((s.x + s.w + ceilHalf s.sw : Int) : Rat) ≤ ((boundingBox cfg d tips).x2 : Rat) := by exact_mod_cast hx2
  have hy2' : ((s.y + s.h + ceilHalf s.sw : Int) : Rat) ≤ ((boundingBox cfg d tips).y2 : Rat) := by exact_mod_cast hy2
  have hc0' : (0 : Rat) ≤ (ceilHalf s.sw : Rat) := by exact_mod_cast hc0
  have hcs' : (ceilHalf s.sw : Rat) ≤ (s.sw : Rat) := by exact_mod_cast hcs
  push_cast at hx1' hy1' hx2' hy2'
  unfold boxExtents at he
  simp only [List.mem_append, List.mem_singleton] at he
  rcases he with ((rfl | he) | he) | he
  · -- shape box with stroke
    rw [enclosed_iff]; simp only []; refine ⟨?_, ?_, ?_, ?_⟩ <;> linarith
  · -- shadow
    split at he
    · rename_i hsh
      simp only [List.mem_singleton] at he; subst he
      obtain ⟨_, _, sx2, sy2⟩ := shape_block_bounds cfg d tips s hs _ psh
      have h1 := sx2 (s.x + s.w + ceilHalf s.sw + SHADOW_SIZE_X) (by simp [shadowCands, hsh])
      have h2 := sy2 (s.y + s.h + ceilHalf s.sw + SHADOW_SIZE_Y) (by simp [shadowCands, hsh])
      have h1' : ((s.x + s.w + ceilHalf s.sw + SHADOW_SIZE_X : Int) : Rat) ≤ ((boundingBox cfg d tips).x2 : Rat) := by exact_mod_cast h1
      have h2' : ((s.y + s.h + ceilHalf s.sw + SHADOW_SIZE_Y : Int) : Rat) ≤ ((boundingBox cfg d tips).y2 : Rat) := by exact_mod_cast h2
      push_cast at h1' h2'
      have e1 : (0 : Rat) ≤ ((SHADOW_SIZE_X : Int) : Rat) := by exact_mod_cast (by decide : (0 : Int) ≤ SHADOW_SIZE_X)
      have e2 : (0 : Rat) ≤ ((SHADOW_SIZE_Y : Int) : Rat) := by exact_mod_cast (by decide : (0 : Int) ≤ SHADOW_SIZE_Y)
      rw [enclosed_iff]; simp only []; refine ⟨?_, ?_, ?_, ?_⟩ <;> linarith
    · cases he
  · -- 3D
    split at he
    · rename_i h3
      simp only [List.mem_singleton] at he; subst he
      obtain ⟨_, ty1, tx2, _⟩ := shape_block_bounds cfg d tips s hs _ p3
      have h1 := ty1 (s.y - threeDeeOffsetY s - s.sw) (by simp [threeCands, h3])
      have h2 := tx2 (s.x + THREE_DEE_OFFSET + s.w + s.sw) (by simp [threeCands, h3])
      have h1' : ((boundingBox cfg d tips).y1 : Rat) ≤ ((s.y - threeDeeOffsetY s - s.sw : Int) : Rat) := by exact_mod_cast h1
      have h2' : ((s.x + THREE_DEE_OFFSET + s.w + s.sw : Int) : Rat) ≤ ((boundingBox cfg d tips).x2 : Rat) := by exact_mod_cast h2
      push_cast at h1' h2'
      have e1 : (0 : Rat) ≤ ((THREE_DEE_OFFSET : Int) : Rat) := by exact_mod_cast (by decide : (0 : Int) ≤ THREE_DEE_OFFSET)
      rw [enclosed_iff]; simp only []; refine ⟨?_, ?_, ?_, ?_⟩ <;> linarith
    · cases he
  · -- multiple
    split at he
    · rename_i hm
      simp only [List.mem_singleton] at he; subst he
      obtain ⟨_, my1, mx2, _⟩ := shape_block_bounds cfg d tips s hs _ pm
      have h1 := my1 (s.y - MULTIPLE_OFFSET - s.sw) (by simp [multiCands, hm])
      have h2 := mx2 (s.x + MULTIPLE_OFFSET + s.w + s.sw) (by simp [multiCands, hm])
      have h1' : ((boundingBox cfg d tips).y1 : Rat) ≤ ((s.y - MULTIPLE_OFFSET - s.sw : Int) : Rat) := by exact_mod_cast h1
      have h2' : ((s.x + MULTIPLE_OFFSET + s.w + s.sw : Int) : Rat) ≤ ((boundingBox cfg d tips).x2 : Rat) := by exact_mod_cast h2
      push_cast at h1' h2'
      have e1 : (0 : Rat) ≤ ((MULTIPLE_OFFSET : Int) : Rat) := by exact_mod_cast (by decide : (0 : Int) ≤ MULTIPLE_OFFSET)
      rw [enclosed_iff]; simp only []; refine ⟨?_, ?_, ?_, ?_⟩ <;> linarith
    · cases he

/-! ### connections -/

/-- **C29 (route points)**: every route point, widened by half the stroke width, lies inside the reported box. -/
theorem C29_route_enclosed (cfg : Cfg) (d : Diagram) (tips) (hne : d.shapes ≠ []) (c : Conn) (hc : c ∈ d.conns)
    (e : Extent) (he : e ∈ routeExtents c) : enclosed 0 (boundingBox cfg d tips) e.box = true := by
  obtain ⟨pr, _, _, _⟩ := conn_parts c
  obtain ⟨rx1, ry1, rx2, ry2⟩ := conn_block_bounds cfg d tips hne c hc _ pr
  unfold routeExtents at he
  obtain ⟨p, hp, rfl⟩ := List.mem_map.1 he
  have h1 := rx1 (p.1.floor - ceilHalf c.sw) (by simp only [routeCands]; exact List.mem_map.2 ⟨p, hp, rfl⟩)
  have h2 := ry1 (p.2.floor - ceilHalf c.sw) (by simp only [routeCands]; exact List.mem_map.2 ⟨p, hp, rfl⟩)
  have h3 := rx2 (p.1.ceil + ceilHalf c.sw) (by simp only [routeCands]; exact List.mem_map.2 ⟨p, hp, rfl⟩)
  have h4 := ry2 (p.2.ceil + ceilHalf c.sw) (by simp only [routeCands]; exact List.mem_map.2 ⟨p, hp, rfl⟩)
  have h1' : ((boundingBox cfg d tips).x1 : Rat) ≤ ((p.1.floor - ceilHalf c.sw : Int) : Rat) := by exact_mod_cast h1
  have h2' : ((boundingBox cfg d tips).y1 : Rat) ≤ ((p.2.floor - ceilHalf c.sw : Int) : Rat) := by exact_mod_cast h2
  have h3' : ((p.1.ceil + ceilHalf c.sw : Int) : Rat) ≤ ((boundingBox cfg d tips).x2 : Rat) := by exact_mod_cast h3
  have h4' : ((p.2.ceil + ceilHalf c.sw : Int) : Rat) ≤ ((boundingBox cfg d tips).y2 : Rat) := by exact_mod_cast h4
  push_cast at h1' h2' h3' h4'
  have hk := ceilHalf_ge_half c.sw
  have f1 := Rat.floor_le p.1
  have f2 := Rat.floor_le p.2
  have c1 := @Rat.le_ceil p.1
  have c2 := @Rat.le_ceil p.2
  rw [enclosed_iff]; simp only []; refine ⟨?_, ?_, ?_, ?_⟩ <;> linarith

theorem anchored_bounds (cfg : Cfg) (d : Diagram) (tips) (hne : d.shapes ≠ []) (c : Conn) (hc : c ∈ d.conns) (a : AnchoredLabel)
    (hsub : CandsSub (anchoredCands (some a)) (connCands c)) :
    ((boundingBox cfg d tips).x1 : Rat) ≤ truncZ a.tx ∧ ((boundingBox cfg d tips).y1 : Rat) ≤ truncZ a.ty ∧
    (truncZ a.tx : Rat) + a.w ≤ (boundingBox cfg d tips).x2 ∧ (truncZ a.ty : Rat) + a.h ≤ (boundingBox cfg d tips).y2 := by
  obtain ⟨ax1, ay1, ax2, ay2⟩ := conn_block_bounds cfg d tips hne c hc _ hsub
  have h1 := ax1 (truncZ a.tx) (by simp [anchoredCands])
  have h2 := ay1 (truncZ a.ty) (by simp [anchoredCands])
  have h3 := ax2 (truncZ a.tx + a.w) (by simp [anchoredCands])
  have h4 := ay2 (truncZ a.ty + a.h) (by simp [anchoredCands])
  have h3' : ((truncZ a.tx + a.w : Int) : Rat) ≤ ((boundingBox cfg d tips).x2 : Rat) := by exact_mod_cast h3
  have h4' : ((truncZ a.ty + a.h : Int) : Rat) ≤ ((boundingBox cfg d tips).y2 : Rat) := by exact_mod_cast h4
  push_cast at h3' h4'
  exact ⟨by exact_mod_cast h1, by exact_mod_cast h2, h3', h4'⟩

/-- **C29 (connection labels)**: the label of a connection, drawn at the rounded anchor, lies inside the reported box
    up to 1 px (Go truncates the anchor, the renderer rounds it). -/
theorem C29_conn_label_enclosed (cfg : Cfg) (d : Diagram) (tips) (hne : d.shapes ≠ []) (c : Conn) (hc : c ∈ d.conns)
    (e : Extent) (he : e ∈ connLabelExtents c) : enclosed slack (boundingBox cfg d tips) e.box = true := by
  unfold connLabelExtents at he
  cases hl : c.label with
  | none => simp [hl] at he
  | some a =>
    simp only [hl, List.mem_singleton] at he; subst he
    obtain ⟨_, pl, _, _⟩ := conn_parts c
    rw [hl] at pl
    obtain ⟨b1, b2, b3, b4⟩ := anchored_bounds cfg d tips hne c hc a pl
    obtain ⟨rx1, rx2⟩ := round_trunc_near a.tx
    obtain ⟨ry1, ry2⟩ := round_trunc_near a.ty
    rw [enclosed_iff]; simp only [slack]; refine ⟨?_, ?_, ?_, ?_⟩ <;> linarith

/-- **C29 (arrowhead labels)**: source and destination arrowhead labels lie inside the reported box up to 1 px. -/
theorem C29_arrowhead_label_enclosed (cfg : Cfg) (d : Diagram) (tips) (hne : d.shapes ≠ []) (c : Conn) (hc : c ∈ d.conns)
    (e : Extent) (he : e ∈ arrowheadExtents c.srcLabel ∨ e ∈ arrowheadExtents c.dstLabel) :
    enclosed slack (boundingBox cfg d tips) e.box = true := by
  obtain ⟨_, _, ps, pd⟩ := conn_parts c
  have key : ∀ (l : Option AnchoredLabel), CandsSub (anchoredCands l) (connCands c) → e ∈ arrowheadExtents l →
      enclosed slack (boundingBox cfg d tips) e.box = true := by
    intro l hsub hel
    unfold arrowheadExtents at hel
    cases l with
    | none => simp at hel
    | some a =>
      simp only [List.mem_singleton] at hel; subst hel
      obtain ⟨b1, b2, b3, b4⟩ := anchored_bounds cfg d tips hne c hc a hsub
      have t1 := truncZ_le_add_one a.tx
      have t2 := truncZ_le_add_one a.ty
      have t3 := le_truncZ_add_one a.tx
      have t4 := le_truncZ_add_one a.ty
      rw [enclosed_iff]; simp only [slack]; refine ⟨?_, ?_, ?_, ?_⟩ <;> linarith
  rcases he with he | he
  · exact key _ ps he
  · exact key _ pd he

/-! ### shape labels -/

/-- **C29 (labels of shapes without 3D / multiple)**: an outside or border label is drawn where `BoundingBox` assumes
    it, so it lies inside the reported box up to 1 px (truncation of negative halves). -/
theorem C29_plain_label_enclosed (cfg : Cfg) (d : Diagram) (tips) (s : Shape) (hs : s ∈ d.shapes)
    (h3 : s.threeDee = false) (hm : s.multiple = false)
    (e : Extent) (he : e ∈ labelExtents s) : enclosed slack (boundingBox cfg d tips) e.box = true := by
  unfold labelExtents at he
  cases hl : s.label with
  | none => simp [hl] at he
  | some l =>
    simp only [hl] at he
    split at he
    · simp only [List.mem_singleton] at he; subst he
      obtain ⟨_, _, _, _, _, pl⟩ := shape_parts cfg s (tips s.id)
      obtain ⟨lx1, ly1, lx2, ly2⟩ := shape_block_bounds cfg d tips s hs _ pl
      have hg : grownBox s = s.box := by simp [grownBox, h3, hm]
      have hp : labelTLBB cfg s l = pointOnBox l.pos s.box PADDING l.w l.h := by
        unfold labelTLBB
        cases cfg.labelOnGrownBox <;> simp [h3, hg]
      have h1 := lx1 (truncZ (labelTLBB cfg s l).1) (by simp [labelCands, hl])
      have h2 := ly1 (truncZ (labelTLBB cfg s l).2) (by simp [labelCands, hl])
      have h3' := lx2 (truncZ (labelTLBB cfg s l).1 + l.w) (by simp [labelCands, hl])
      have h4 := ly2 (truncZ (labelTLBB cfg s l).2 + l.h) (by simp [labelCands, hl])
      rw [hp] at h1 h2 h3' h4
      rw [hg]
      generalize pointOnBox l.pos s.box PADDING l.w l.h = p at *
      have h1' : ((boundingBox cfg d tips).x1 : Rat) ≤ (truncZ p.1 : Rat) := by exact_mod_cast h1
      have h2' : ((boundingBox cfg d tips).y1 : Rat) ≤ (truncZ p.2 : Rat) := by exact_mod_cast h2
      have h3'' : ((truncZ p.1 + l.w : Int) : Rat) ≤ ((boundingBox cfg d tips).x2 : Rat) := by exact_mod_cast h3'
      have h4' : ((truncZ p.2 + l.h : Int) : Rat) ≤ ((boundingBox cfg d tips).y2 : Rat) := by exact_mod_cast h4
      push_cast at h3'' h4'
      have t1 := truncZ_le_add_one p.1
      have t2 := truncZ_le_add_one p.2
      have t3 := le_truncZ_add_one p.1
      have t4 := le_truncZ_add_one p.2
      rw [enclosed_iff]; simp only [slack]; refine ⟨?_, ?_, ?_, ?_⟩ <;> linarith
    · cases he

/-! ### the classes for which the unchanged code is wrong (each reproduced with the CLI; known findings) -/

/-- a `multiple` shape with an outside-top label: d2svg draws the label on the box grown by MULTIPLE_OFFSET (top at −36),
    `BoundingBox` places it on the plain box (reported top −26) -/
def cxMultiple : Diagram :=
  { shapes := [{ id := "a", w := 53, h := 66, multiple := true, label := some ⟨"OUTSIDE_TOP_CENTER", 8, 21⟩ }], conns := [] }

theorem C29_cx_multiple_outside_label :
    boundingBox Cfg.v0 cxMultiple = ⟨-1, -26, 65, 67⟩ ∧
    ∃ e ∈ extents cxMultiple, e.what = "outside-label" ∧ e.box.y1 = -36 ∧ enclosed slack (boundingBox Cfg.v0 cxMultiple) e.box = false := by
  refine ⟨by decide +kernel, ⟨"outside-label", ⟨55 / 2, -36, 71 / 2, -15⟩⟩, by decide +kernel, rfl, rfl, by decide +kernel⟩

/-- a 3D shape with a border-right label: drawn on the box grown by THREE_DEE_OFFSET -/
def cx3dBorder : Diagram :=
  { shapes := [{ id := "a", w := 60, h := 60, threeDee := true, label := some ⟨"BORDER_RIGHT_MIDDLE", 40, 20⟩ }], conns := [] }

theorem C29_cx_3d_border_label :
    ∃ e ∈ extents cx3dBorder, e.what = "border-label" ∧ enclosed slack (boundingBox Cfg.v0 cx3dBorder) e.box = false := by
  refine ⟨⟨"border-label", ⟨55, 25 / 2, 95, 65 / 2⟩⟩, by decide +kernel, rfl, by decide +kernel⟩

/-- a 3D hexagon with an outside-right label: the drawn box is 15 wider, `BoundingBox` shifts the label by 15/2 = 7 -/
def cx3dHexagon : Diagram :=
  { shapes := [{ id := "h", type := "hexagon", w := 100, h := 60, threeDee := true,
                 label := some ⟨"OUTSIDE_RIGHT_MIDDLE", 40, 20⟩ }], conns := [] }

theorem C29_cx_3d_hexagon_outside_right :
    (boundingBox Cfg.v0 cx3dHexagon).x2 = 152 ∧
    ∃ e ∈ extents cx3dHexagon, e.what = "outside-label" ∧ e.box.x2 = 160 ∧ enclosed slack (boundingBox Cfg.v0 cx3dHexagon) e.box = false := by
  refine ⟨by decide +kernel, ⟨"outside-label", ⟨120, 33 / 2, 160, 73 / 2⟩⟩, by decide +kernel, rfl, rfl, by decide +kernel⟩

/-- an icon with a border position straddles the border; `BoundingBox` knows only OUTSIDE_* icons -/
def cxBorderIcon : Diagram :=
  { shapes := [{ id := "a", w := 100, h := 100, inner := ⟨0, 0, 100, 100⟩, innerBB := ⟨0, 0, 100, 100⟩,
                 icon := some "BORDER_RIGHT_MIDDLE" }], conns := [] }

theorem C29_cx_border_icon :
    boundingBox Cfg.v0 cxBorderIcon = ⟨-1, -1, 101, 101⟩ ∧
    ∃ e ∈ extents cxBorderIcon, e.what = "icon" ∧ e.box.x2 = 125 ∧ enclosed slack (boundingBox Cfg.v0 cxBorderIcon) e.box = false := by
  refine ⟨by decide +kernel, ⟨"icon", ⟨75, 25, 125, 75⟩⟩, by decide +kernel, rfl, rfl, by decide +kernel⟩

/-- an OUTSIDE_TOP_LEFT icon hangs PADDING to the left of the shape; `BoundingBox` only extends the top -/
def cxTopLeftIcon : Diagram :=
  { shapes := [{ id := "a", w := 100, h := 100, inner := ⟨0, 0, 100, 100⟩, innerBB := ⟨0, 0, 100, 100⟩,
                 icon := some "OUTSIDE_TOP_LEFT" }], conns := [] }

theorem C29_cx_outside_top_left_icon :
    boundingBox Cfg.v0 cxTopLeftIcon = ⟨-1, -55, 101, 101⟩ ∧
    ∃ e ∈ extents cxTopLeftIcon, e.what = "outside-icon" ∧ e.box.x1 = -5 ∧ enclosed slack (boundingBox Cfg.v0 cxTopLeftIcon) e.box = false := by
  refine ⟨by decide +kernel, ⟨"outside-icon", ⟨-5, -55, 45, -5⟩⟩, by decide +kernel, rfl, rfl, by decide +kernel⟩

/-- the 1 px slack is needed: a centred outside label wider than its shape starts at −2.5, Go truncates to −2 -/
def cxSlack : Diagram :=
  { shapes := [{ id := "a", w := 10, h := 10, label := some ⟨"OUTSIDE_TOP_CENTER", 15, 10⟩ }], conns := [] }

theorem C29_slack_needed :
    ∃ e ∈ extents cxSlack, enclosed 0 (boundingBox Cfg.v0 cxSlack) e.box = false ∧ enclosed slack (boundingBox Cfg.v0 cxSlack) e.box = true := by
  refine ⟨⟨"outside-label", ⟨-5 / 2, -15, 25 / 2, -5⟩⟩, by decide +kernel, by decide +kernel, by decide +kernel⟩

/-! ### the property, as far as it holds -/

/-- the stated goal: every drawn extent of every board lies inside the reported box (up to the 1 px tolerance) -/
def C29_full_statement : Prop :=
  ∀ (cfg : Cfg) (d : Diagram) (tips : String → Option (Int × Int × Int × Int)), d.shapes ≠ [] →
    (∀ s ∈ d.shapes, 0 ≤ s.sw) → ∀ e ∈ extents d, enclosed slack (boundingBox cfg d tips) e.box = true

/-- the full statement is false on the unchanged code -/
theorem C29_full_statement_false : ¬ C29_full_statement := by
  intro h
  obtain ⟨_, e, he, _, _, hf⟩ := C29_cx_multiple_outside_label
  have := h Cfg.v0 cxMultiple (fun _ => none) (by decide) (by decide) e he
  rw [hf] at this
  cases this

/-- shapes outside the region where the drawing code and `BoundingBox` disagree: no label on a 3D / multiple shape
    that can leave the shape, and no icon (icon extents are evaluated on real runs, not proved) -/
def Shape.regular (s : Shape) : Bool :=
  s.icon.isNone &&
  (match s.label with
   | some l => !(s.threeDee || s.multiple) || !(isOutside l.pos || isBorder l.pos)
   | none => true)

theorem enclosed_mono (bb : IBox) (e : RBox) (h : enclosed 0 bb e = true) : enclosed slack bb e = true := by
  rw [enclosed_iff] at h ⊢
  simp only [slack]
  obtain ⟨a, b, c, dd⟩ := h
  refine ⟨?_, ?_, ?_, ?_⟩ <;> linarith

/-- **C29_bbox_encloses_partial**: for every board whose shapes are regular and have non-negative stroke widths, with
    any number of shapes and connections, every drawn extent — shape boxes with stroke, shadows, 3D and multiple
    offsets, outside and border labels, route points with stroke, connection labels, arrowhead labels — lies inside the
    reported box up to 1 px. -/
theorem C29_bbox_encloses_partial (cfg : Cfg) (d : Diagram) (tips) (hne : d.shapes ≠ [])
    (hsw : ∀ s ∈ d.shapes, 0 ≤ s.sw) (hreg : ∀ s ∈ d.shapes, s.regular = true)
    (e : Extent) (he : e ∈ extents d) : enclosed slack (boundingBox cfg d tips) e.box = true := by
  unfold extents at he
  rcases List.mem_append.1 he with he | he
  · obtain ⟨l, hl, hel⟩ := List.mem_flatten.1 he
    obtain ⟨s, hs, rfl⟩ := List.mem_map.1 hl
    unfold shapeExtents at hel
    rcases List.mem_append.1 hel with hel | hel
    · rcases List.mem_append.1 hel with hel | hel
      · exact enclosed_mono _ _ (C29_box_extents_enclosed cfg d tips s hs (hsw s hs) e hel)
      · -- label
        have hr := hreg s hs
        have hel0 := hel
        unfold Shape.regular at hr
        unfold labelExtents at hel
        cases hlab : s.label with
        | none => simp [hlab] at hel
        | some l =>
          simp only [hlab, Bool.and_eq_true] at hr hel
          by_cases hob : (isOutside l.pos || isBorder l.pos) = true
          · have hflags : (s.threeDee || s.multiple) = false := by
              rcases hr with ⟨_, hr⟩
              simp only [hob, Bool.not_true, Bool.or_false, Bool.not_eq_true'] at hr
              exact hr
            have h3 : s.threeDee = false := by cases h : s.threeDee <;> simp_all
            have hm : s.multiple = false := by cases h : s.multiple <;> simp_all
            exact C29_plain_label_enclosed cfg d tips s hs h3 hm e hel0
          · simp [hob] at hel
    · -- icon: excluded by regularity
      have hr := hreg s hs
      unfold Shape.regular at hr
      unfold iconExtents at hel
      cases hic : s.icon with
      | none => simp [hic] at hel
      | some p => simp [hic] at hr
  · obtain ⟨l, hl, hel⟩ := List.mem_flatten.1 he
    obtain ⟨c, hc, rfl⟩ := List.mem_map.1 hl
    unfold connExtents at hel
    rcases List.mem_append.1 hel with hel | hel
    · rcases List.mem_append.1 hel with hel | hel
      · rcases List.mem_append.1 hel with hel | hel
        · exact enclosed_mono _ _ (C29_route_enclosed cfg d tips hne c hc e hel)
        · exact C29_conn_label_enclosed cfg d tips hne c hc e hel
      · exact C29_arrowhead_label_enclosed cfg d tips hne c hc e (Or.inl hel)
    · exact C29_arrowhead_label_enclosed cfg d tips hne c hc e (Or.inr hel)

/-! ### with the label placement fix (`labelOnGrownBox`): every label, also on 3D / multiple shapes -/

/-- when `BoundingBox` places outside / border labels on the grown box — what `d2svg.drawShape` does — every such label
    lies inside the reported box up to 1 px, for every shape (3D, multiple, hexagon, any size of label) -/
theorem C29_label_enclosed_grown (cfg : Cfg) (hcfg : cfg.labelOnGrownBox = true) (d : Diagram) (tips) (s : Shape)
    (hs : s ∈ d.shapes) (e : Extent) (he : e ∈ labelExtents s) : enclosed slack (boundingBox cfg d tips) e.box = true := by
  unfold labelExtents at he
  cases hl : s.label with
  | none => simp [hl] at he
  | some l =>
    simp only [hl] at he
    split at he
    · rename_i hvis
      simp only [List.mem_singleton] at he; subst he
      obtain ⟨_, _, _, _, _, pl⟩ := shape_parts cfg s (tips s.id)
      obtain ⟨lx1, ly1, lx2, ly2⟩ := shape_block_bounds cfg d tips s hs _ pl
      have hob : (isOutside l.pos || isBorder l.pos) = true := by
        simp only [Bool.and_eq_true] at hvis; exact hvis.2
      have hp : labelTLBB cfg s l = pointOnBox l.pos (grownBox s) PADDING l.w l.h := by
        unfold labelTLBB; simp [hcfg, hob]
      have h1 := lx1 (truncZ (labelTLBB cfg s l).1) (by simp [labelCands, hl])
      have h2 := ly1 (truncZ (labelTLBB cfg s l).2) (by simp [labelCands, hl])
      have h3' := lx2 (truncZ (labelTLBB cfg s l).1 + l.w) (by simp [labelCands, hl])
      have h4 := ly2 (truncZ (labelTLBB cfg s l).2 + l.h) (by simp [labelCands, hl])
      rw [hp] at h1 h2 h3' h4
      generalize pointOnBox l.pos (grownBox s) PADDING l.w l.h = p at *
      have h1' : ((boundingBox cfg d tips).x1 : Rat) ≤ (truncZ p.1 : Rat) := by exact_mod_cast h1
      have h2' : ((boundingBox cfg d tips).y1 : Rat) ≤ (truncZ p.2 : Rat) := by exact_mod_cast h2
      have h3'' : ((truncZ p.1 + l.w : Int) : Rat) ≤ ((boundingBox cfg d tips).x2 : Rat) := by exact_mod_cast h3'
      have h4' : ((truncZ p.2 + l.h : Int) : Rat) ≤ ((boundingBox cfg d tips).y2 : Rat) := by exact_mod_cast h4
      push_cast at h3'' h4'
      have t1 := truncZ_le_add_one p.1
      have t2 := truncZ_le_add_one p.2
      have t3 := le_truncZ_add_one p.1
      have t4 := le_truncZ_add_one p.2
      rw [enclosed_iff]; simp only [slack]; refine ⟨?_, ?_, ?_, ?_⟩ <;> linarith
    · cases he

/-- **C29_bbox_encloses_fixed_partial**: under the fixed label placement the only excluded region is "the shape
    carries an icon" — every other drawn extent of every board lies inside the reported box up to 1 px. -/
theorem C29_bbox_encloses_fixed_partial (cfg : Cfg) (hcfg : cfg.labelOnGrownBox = true) (d : Diagram) (tips)
    (hne : d.shapes ≠ []) (hsw : ∀ s ∈ d.shapes, 0 ≤ s.sw) (hicon : ∀ s ∈ d.shapes, s.icon = none)
    (e : Extent) (he : e ∈ extents d) : enclosed slack (boundingBox cfg d tips) e.box = true := by
  unfold extents at he
  rcases List.mem_append.1 he with he | he
  · obtain ⟨l, hl, hel⟩ := List.mem_flatten.1 he
    obtain ⟨s, hs, rfl⟩ := List.mem_map.1 hl
    unfold shapeExtents at hel
    rcases List.mem_append.1 hel with hel | hel
    · rcases List.mem_append.1 hel with hel | hel
      · exact enclosed_mono _ _ (C29_box_extents_enclosed cfg d tips s hs (hsw s hs) e hel)
      · exact C29_label_enclosed_grown cfg hcfg d tips s hs e hel
    · unfold iconExtents at hel
      simp [hicon s hs] at hel
  · obtain ⟨l, hl, hel⟩ := List.mem_flatten.1 he
    obtain ⟨c, hc, rfl⟩ := List.mem_map.1 hl
    unfold connExtents at hel
    rcases List.mem_append.1 hel with hel | hel
    · rcases List.mem_append.1 hel with hel | hel
      · rcases List.mem_append.1 hel with hel | hel
        · exact enclosed_mono _ _ (C29_route_enclosed cfg d tips hne c hc e hel)
        · exact C29_conn_label_enclosed cfg d tips hne c hc e hel
      · exact C29_arrowhead_label_enclosed cfg d tips hne c hc e (Or.inl hel)
    · exact C29_arrowhead_label_enclosed cfg d tips hne c hc e (Or.inr hel)

/-- the four label counterexamples disappear under the fixed variant -/
theorem C29_fix_resolves_label_counterexamples :
    (∀ e ∈ extents cxMultiple, enclosed slack (boundingBox Cfg.v1 cxMultiple) e.box = true) ∧
    (∀ e ∈ extents cx3dBorder, enclosed slack (boundingBox Cfg.v1 cx3dBorder) e.box = true) ∧
    (∀ e ∈ extents cx3dHexagon, enclosed slack (boundingBox Cfg.v1 cx3dHexagon) e.box = true) := by
  refine ⟨by decide +kernel, by decide +kernel, by decide +kernel⟩

/-- Non-vacuity: a board with a shadowed shape, a labelled connection and a regular outside label meets the hypotheses -/
example :
    let d : Diagram := { shapes := [{ id := "a", w := 50, h := 50, shadow := true, label := some ⟨"OUTSIDE_BOTTOM_CENTER", 20, 10⟩ },
                                    { id := "b", x := 100, w := 50, h := 50 }],
                         conns := [{ route := [(50, 25), (100, 25)], label := some ⟨60, 10, 30, 15⟩ }] }
    d.shapes ≠ [] ∧ (∀ s ∈ d.shapes, 0 ≤ s.sw) ∧ (∀ s ∈ d.shapes, s.regular = true) ∧ (extents d).length = 7 := by
  decide +kernel

end D2V.BBox
