import D2V.Model.Seq
import D2V.Proofs.RoundGo
import Mathlib.Tactic.Linarith
import Mathlib.Tactic.NormNum
/-! C23 — Sequence diagrams keep actor and message order.

  Theorems over the model of `d2layouts/d2sequence` (Model/Seq.lean), for any number of actors and messages:
    `actors_left_to_right`    consecutive actors are strictly ordered and do not overlap, for any steps that leave
                              at least the two half widths + 2 between centres (`baseSteps_ok`: the code's initial steps
                              do when the next actor's unclamped width is ≥ 24; `C23_cx_narrow_next_actor`: they do not
                              for a very narrow actor after a wide one — replayed on d2)
    `actors_common_baseline`  every actor's baseline (bottom of shape, or of the label below it) is `maxActorHeight`
    `messages_top_to_bottom`  every message starts strictly below the end of the previous one (label heights ≥ 0,
                              note offsets non-decreasing along the message list)
    `cross_actor_horizontal`  a message that is not a loop is a two point route at one height
    `attach_on_lifeline_or_span`  an end is the actor's centre line, or that centre ± half the span's width
  The model is compared with the real layout on generated diagrams, and the property sentence itself is evaluated
  on every generated sequence diagram (Drv/C23.lean). -/
namespace D2V.Seq
open D2V.Clip (roundGo roundGo_near roundGo_int)

/-! ### actors -/

/-- every step leaves the two half widths and 2 more px (rounding of the two left edges costs at most 1) -/
def StepsOk : List Actor → List Rat → Prop
  | a :: b :: rest, s :: ss => a.w / 2 + b.w / 2 + 2 ≤ s ∧ StepsOk (b :: rest) ss
  | _ :: _ :: _, [] => False
  | _, _ => True

/-- consecutive (left, width) pairs: strictly to the right and not overlapping -/
def LeftToRight : List (Rat × Rat) → Prop
  | p :: q :: rest => p.1 < q.1 ∧ p.1 + p.2 < q.1 ∧ LeftToRight (q :: rest)
  | _ => True

theorem placeX_left_to_right (actors : List Actor) :
    ∀ (c : Rat) (steps : List Rat), (∀ a ∈ actors, 0 ≤ a.w) → StepsOk actors steps →
      LeftToRight ((placeX c actors steps).zip (actors.map (·.w))) := by
  induction actors with
  | nil => intro c steps _ _; simp [placeX, LeftToRight]
  | cons a rest ih =>
    intro c steps hw hs
    cases rest with
    | nil => cases steps <;> simp [placeX, LeftToRight]
    | cons b rest' =>
      cases steps with
      | nil => exact absurd hs (by simp [StepsOk])
      | cons s ss =>
        obtain ⟨hstep, hrest⟩ := hs
        have ih' := ih (c + s) ss (fun x hx => hw x (by simp [hx])) hrest
        have ha := hw a (by simp)
        have r1 := roundGo_near (c - a.w / 2)
        have r2 := roundGo_near (c + s - b.w / 2)
        cases ss with
        | nil =>
          simp only [placeX, List.map_cons, List.zip_cons_cons, LeftToRight] at ih' ⊢
          refine ⟨by linarith [r1.2, r2.1], by linarith [r1.2, r2.1], ih'⟩
        | cons s2 ss2 =>
          simp only [placeX, List.map_cons, List.zip_cons_cons, LeftToRight] at ih' ⊢
          refine ⟨by linarith [r1.2, r2.1], by linarith [r1.2, r2.1], ih'⟩

/-- **actors_left_to_right.** `placeActors` puts the actors strictly left to right in declaration order, without
    overlap -/
theorem actors_left_to_right (actors : List Actor) (steps : List Rat) (hw : ∀ a ∈ actors, 0 ≤ a.w)
    (hs : StepsOk actors steps) : LeftToRight ((actorLefts actors steps).zip (actors.map (·.w))) := by
  unfold actorLefts
  cases actors with
  | nil => simp [LeftToRight]
  | cons a rest => exact placeX_left_to_right (a :: rest) (a.w / 2) steps hw hs

/-- an actor as `newSequenceDiagram` leaves it: width clamped to MIN_ACTOR_WIDTH -/
def Clamped (a : Actor) : Prop := a.w = max a.preW MIN_ACTOR_WIDTH

/-- the initial step of the code is enough when the next actor is not extremely narrow before the clamp -/
theorem baseStep_ok (a b : Actor) (_ha : 0 ≤ a.w) (hb : Clamped b) (hn : 24 ≤ b.preW) :
    a.w / 2 + b.w / 2 + 2 ≤ baseStep a b := by
  unfold baseStep Clamped HORIZONTAL_PAD MIN_ACTOR_DISTANCE MIN_ACTOR_WIDTH at *
  rw [hb]
  rcases le_total b.preW 100 with h | h
  · rw [max_eq_right h]
    rcases le_total (a.w / 2) 98 with h2 | h2
    · exact le_trans (by linarith) (le_max_right _ _)
    · exact le_trans (by linarith) (le_max_left _ _)
  · rw [max_eq_left h]
    exact le_trans (by linarith) (le_max_left _ _)

theorem baseSteps_ok (actors : List Actor) (hw : ∀ a ∈ actors, 0 ≤ a.w)
    (hc : ∀ a ∈ actors, Clamped a ∧ 24 ≤ a.preW) : StepsOk actors (baseSteps actors) := by
  induction actors with
  | nil => simp [StepsOk]
  | cons a rest ih =>
    cases rest with
    | nil => simp [StepsOk]
    | cons b rest' =>
      simp only [baseSteps, StepsOk]
      refine ⟨baseStep_ok a b (hw a (by simp)) (hc b (by simp)).1 (hc b (by simp)).2, ?_⟩
      exact ih (fun x hx => hw x (by simp [hx])) (fun x hx => hc x (by simp [hx]))

/-- widening a step (what the note and message passes do: `max`) keeps `StepsOk` -/
theorem StepsOk_mono (actors : List Actor) :
    ∀ (s t : List Rat), List.Forall₂ (· ≤ ·) s t → StepsOk actors s → StepsOk actors t := by
  induction actors with
  | nil => intro s t _ _; simp [StepsOk]
  | cons a rest ih =>
    intro s t hst hs
    cases rest with
    | nil => simp [StepsOk]
    | cons b rest' =>
      cases hst with
      | nil => exact absurd hs (by simp [StepsOk])
      | cons hxy htl =>
        simp only [StepsOk] at hs ⊢
        exact ⟨le_trans hs.1 hxy, ih _ _ htl hs.2⟩

/-! the widening passes only raise steps, so the steps the code ends up with are still enough -/

theorem forall2_le_refl (l : List Rat) : List.Forall₂ (· ≤ ·) l l := by
  induction l with
  | nil => exact List.Forall₂.nil
  | cons a r ih => exact List.Forall₂.cons (le_refl a) ih

theorem forall2_le_trans {a b c : List Rat} (h1 : List.Forall₂ (· ≤ ·) a b) (h2 : List.Forall₂ (· ≤ ·) b c) :
    List.Forall₂ (· ≤ ·) a c := by
  induction h1 generalizing c with
  | nil => cases h2; exact List.Forall₂.nil
  | cons hab _ ih =>
    cases h2 with
    | cons hbc htl => exact List.Forall₂.cons (le_trans hab hbc) (ih htl)

theorem forall2_mapIdx_ge (l : List Rat) : ∀ (f : Nat → Rat → Rat), (∀ j x, x ≤ f j x) →
    List.Forall₂ (· ≤ ·) l (l.mapIdx f) := by
  induction l with
  | nil => intro f _; simp
  | cons a r ih =>
    intro f hf
    rw [List.mapIdx_cons]
    exact List.Forall₂.cons (hf 0 a) (ih (fun i => f (i + 1)) (fun j x => hf (j + 1) x))

theorem listSet_ge (l : List Rat) (i : Nat) (f : Rat → Rat) (hf : ∀ x, x ≤ f x) :
    List.Forall₂ (· ≤ ·) l (listSet l i f) := by
  unfold listSet
  apply forall2_mapIdx_ge
  intro j x
  split
  · exact hf x
  · exact le_refl x

theorem foldl_ge {α} (step : List Rat → α → List Rat) (hstep : ∀ st x, List.Forall₂ (· ≤ ·) st (step st x))
    (xs : List α) : ∀ init, List.Forall₂ (· ≤ ·) init (xs.foldl step init) := by
  induction xs with
  | nil => intro init; exact forall2_le_refl init
  | cons x r ih => intro init; exact forall2_le_trans (hstep init x) (ih (step init x))

theorem noteWiden_ge (actors : List Actor) (steps : List Rat) :
    List.Forall₂ (· ≤ ·) steps (noteWiden actors steps) := by
  unfold noteWiden
  apply foldl_ge
  intro st p
  obtain ⟨a, rank⟩ := p
  simp only
  split
  · split
    · exact forall2_le_trans (listSet_ge st rank _ (fun x => le_max_right _ x))
        (listSet_ge _ (rank - 1) _ (fun x => le_max_right _ x))
    · exact listSet_ge st rank _ (fun x => le_max_right _ x)
  · exact forall2_le_refl st

theorem msgWiden_ge (msgs : List Msg) (steps : List Rat) :
    List.Forall₂ (· ≤ ·) steps (msgWiden msgs steps) := by
  unfold msgWiden
  apply foldl_ge
  intro st m
  simp only
  split
  · apply forall2_mapIdx_ge
    intro j x
    split
    · exact le_max_left x _
    · exact le_refl x
  · exact listSet_ge st m.srcRank _ (fun x => le_max_left x _)

/-- **the steps `newSequenceDiagram` computes keep the actors apart**, whatever notes and messages widen them -/
theorem stepsOf_ok (actors : List Actor) (msgs : List Msg) (hw : ∀ a ∈ actors, 0 ≤ a.w)
    (hc : ∀ a ∈ actors, Clamped a ∧ 24 ≤ a.preW) : StepsOk actors (stepsOf actors msgs) := by
  unfold stepsOf
  exact StepsOk_mono actors _ _
    (forall2_le_trans (noteWiden_ge actors (baseSteps actors)) (msgWiden_ge msgs _))
    (baseSteps_ok actors hw hc)

/-- actors of a sequence diagram are laid left to right without overlap, for every list of actors (clamped, not
    narrower than 24 px before the clamp) and every list of messages -/
theorem C23_actors_left_to_right (actors : List Actor) (msgs : List Msg) (hw : ∀ a ∈ actors, 0 ≤ a.w)
    (hc : ∀ a ∈ actors, Clamped a ∧ 24 ≤ a.preW) :
    LeftToRight ((actorLefts actors (stepsOf actors msgs)).zip (actors.map (·.w))) :=
  actors_left_to_right actors _ hw (stepsOf_ok actors msgs hw hc)

/-- the defect found while stating the theorem (replayed on d2: `a: {width: 300}; b: {width: 10}` overlap by 5 px):
    the step is computed from the next actor's width *before* it is clamped to MIN_ACTOR_WIDTH -/
theorem C23_cx_narrow_next_actor :
    let a : Actor := ⟨300, 300, 61, 0, 0⟩
    let b : Actor := ⟨100, 10, 61, 0, 0⟩
    actorLefts [a, b] (baseSteps [a, b]) = [0, 295] ∧ ¬ LeftToRight (([0, 295] : List Rat).zip [a.w, b.w]) := by
  intro a b
  constructor
  · have h1 : roundGo (300 / 2 - 300 / 2) = 0 := by
      have := roundGo_int 0; norm_num at this ⊢; exact this
    have h2 : roundGo (300 / 2 + max (300 / 2 + 10 / 2 + 40) 150 - 100 / 2) = 295 := by
      have := roundGo_int 295; norm_num at this ⊢; exact this
    simp only [actorLefts, baseSteps, baseStep, placeX, HORIZONTAL_PAD, MIN_ACTOR_DISTANCE, a, b, h1, h2]
  · simp only [LeftToRight, List.zip_cons_cons, a, b]
    norm_num

/-- **actors_common_baseline.** -/
theorem actors_common_baseline (maxH : Rat) (a : Actor) : baseline (actorTop maxH a) a = maxH := by
  unfold baseline actorTop
  ring

/-! ### messages -/

/-- label heights are not negative and the note offset does not decrease along the (line ordered) messages -/
def MsgsOk : List Msg → Prop
  | m :: n :: rest => 0 ≤ m.labelH ∧ m.noteOff ≤ n.noteOff ∧ MsgsOk (n :: rest)
  | [m] => 0 ≤ m.labelH
  | [] => True

/-- consecutive vertical extents: each message ends strictly above the start of the next, and starts before it
    ends -/
def TopToBottom : List (Rat × Rat) → Prop
  | p :: q :: rest => p.1 ≤ p.2 ∧ p.2 < q.1 ∧ TopToBottom (q :: rest)
  | [p] => p.1 ≤ p.2
  | [] => True

theorem halfInt_nonneg (h : Int) (hh : 0 ≤ h) : 0 ≤ halfInt h := by
  unfold halfInt
  have : (0 : Int) ≤ h / 2 := Int.ediv_nonneg hh (by decide)
  exact_mod_cast this

/-- the first message of `routeYs off` starts at or below `off + noteOff` -/
theorem routeYs_head (off : Rat) (m : Msg) (rest : List Msg) (hh : 0 ≤ m.labelH) :
    ∃ s e tl, routeYs off (m :: rest) = (s, e) :: tl ∧ off + m.noteOff ≤ s ∧ s ≤ e := by
  unfold routeYs
  split
  · refine ⟨_, _, _, rfl, le_refl _, ?_⟩
    have : (0 : Rat) ≤ max (m.labelH : Rat) MIN_MESSAGE_DISTANCE := le_trans (by unfold MIN_MESSAGE_DISTANCE; norm_num) (le_max_right _ _)
    nlinarith
  · refine ⟨_, _, _, rfl, ?_, le_refl _⟩
    have := halfInt_nonneg m.labelH hh
    linarith

/-- **messages_top_to_bottom.** -/
theorem messages_top_to_bottom (msgs : List Msg) : ∀ off : Rat, MsgsOk msgs → TopToBottom (routeYs off msgs) := by
  induction msgs with
  | nil => intro off _; simp [routeYs, TopToBottom]
  | cons m rest ih =>
    intro off hok
    cases rest with
    | nil =>
      simp only [MsgsOk] at hok
      obtain ⟨s, e, tl, h, _, hse⟩ := routeYs_head off m [] hok
      have htl : tl = [] := by
        unfold routeYs at h
        split at h <;> simp [routeYs] at h <;> first | exact h.2.symm | exact h.2
      rw [h, htl]
      exact hse
    | cons n rest' =>
      obtain ⟨hm, hmn, hrest⟩ := hok
      have hn : 0 ≤ n.labelH := by
        cases rest' with
        | nil => exact hrest
        | cons _ _ => exact hrest.1
      have hpos : (0 : Rat) ≤ max (m.labelH : Rat) MIN_MESSAGE_DISTANCE :=
        le_trans (by unfold MIN_MESSAGE_DISTANCE; norm_num) (le_max_right _ _)
      have hhalf := halfInt_nonneg m.labelH hm
      have hy : (0 : Rat) < yStep := by unfold yStep MIN_MESSAGE_DISTANCE VERTICAL_PAD; norm_num
      unfold routeYs
      split
      · -- loop
        obtain ⟨s, e, tl, h, hs, _⟩ := routeYs_head
          (off + m.noteOff + max (m.labelH : Rat) MIN_MESSAGE_DISTANCE * (3 / 2) + yStep - m.noteOff) n rest' hn
        have ih' := ih (off + m.noteOff + max (m.labelH : Rat) MIN_MESSAGE_DISTANCE * (3 / 2) + yStep - m.noteOff) hrest
        dsimp only
        rw [h] at ih' ⊢
        simp only [TopToBottom]
        refine ⟨by nlinarith, by nlinarith, ih'⟩
      · obtain ⟨s, e, tl, h, hs, _⟩ := routeYs_head
          (off + m.noteOff + halfInt m.labelH + halfInt m.labelH + yStep - m.noteOff) n rest' hn
        have ih' := ih (off + m.noteOff + halfInt m.labelH + halfInt m.labelH + yStep - m.noteOff) hrest
        dsimp only
        rw [h] at ih' ⊢
        simp only [TopToBottom]
        refine ⟨le_refl _, by linarith, ih'⟩

/-- the note offset does not decrease with the source line: messages sorted by line satisfy `MsgsOk`'s second clause -/
theorem noteOff_mono (notes : List (Int × Rat)) (hh : ∀ n ∈ notes, 0 ≤ n.2) (l1 l2 : Int) (h : l1 ≤ l2) :
    noteOffOf notes l1 ≤ noteOffOf notes l2 := by
  unfold noteOffOf
  induction notes with
  | nil => simp
  | cons n r ih =>
    have ihr := ih (fun x hx => hh x (by simp [hx]))
    have hn := hh n (by simp)
    have hy : (0 : Rat) < yStep := by unfold yStep MIN_MESSAGE_DISTANCE VERTICAL_PAD; norm_num
    simp only [List.filter_cons]
    by_cases h1 : n.1 < l1
    · have h2 : n.1 < l2 := lt_of_lt_of_le h1 h
      simp only [h1, h2, decide_true, if_true, List.map_cons, List.sum_cons]
      linarith
    · by_cases h2 : n.1 < l2
      · simp only [h1, h2, decide_true, decide_false, if_true, List.map_cons, List.sum_cons]
        simp only [Bool.false_eq_true, if_false]
        linarith
      · simp only [h1, h2, decide_false, Bool.false_eq_true, if_false]
        exact ihr

/-- `adjustGroupLabel` moves every message below a threshold down by the same amount: order is kept -/
theorem shift_below_preserves_order (thr add : Rat) (hadd : 0 ≤ add) (y1 y2 : Rat) (h : y1 < y2) :
    (if thr < y1 then y1 + add else y1) < (if thr < y2 then y2 + add else y2) := by
  by_cases h1 : thr < y1
  · have h2 : thr < y2 := lt_trans h1 h
    simp [h1, h2]; linarith
  · by_cases h2 : thr < y2
    · simp [h1, h2]; linarith
    · simp [h1, h2]; exact h

/-- **cross_actor_horizontal.** a message that is not drawn as a loop is one horizontal segment -/
theorem cross_actor_horizontal (lefts : List Rat) (actors : List Actor) (m : Msg) (ys : Rat × Rat)
    (h : m.loop = false) : ∃ x1 x2, routeOf lefts actors m ys = [(x1, ys.1), (x2, ys.1)] := by
  unfold routeOf
  simp [h]

/-- **attach_on_lifeline_or_span.** the ends of a route are the centre lines of the actors, moved to the border
    of the span (half its width away from the centre line) when the end is a span -/
theorem attach_on_lifeline_or_span (m : Msg) (sx ex : Rat) :
    ((adjustEnds m sx ex).1 = sx ∨ (adjustEnds m sx ex).1 = sx + m.srcW / 2 ∨ (adjustEnds m sx ex).1 = sx - m.srcW / 2) ∧
    ((adjustEnds m sx ex).2 = ex ∨ (adjustEnds m sx ex).2 = ex + m.dstW / 2 ∨ (adjustEnds m sx ex).2 = ex - m.dstW / 2) ∧
    (m.srcIsActor = true → (adjustEnds m sx ex).1 = sx) ∧ (m.dstIsActor = true → (adjustEnds m sx ex).2 = ex) := by
  unfold adjustEnds
  refine ⟨?_, ?_, ?_, ?_⟩
  · simp only; split <;> [exact Or.inl rfl; (split <;> [exact Or.inr (Or.inl rfl); exact Or.inr (Or.inr rfl)])]
  · simp only; split <;> [exact Or.inl rfl; (split <;> [exact Or.inr (Or.inr rfl); exact Or.inr (Or.inl rfl)])]
  · intro h; simp [h]
  · intro h; simp [h]

example : StepsOk [⟨100, 61, 66, 0, 0⟩, ⟨100, 61, 66, 0, 0⟩] [150] := by
  unfold StepsOk; norm_num [StepsOk]
example : MsgsOk [⟨0, 1, true, true, 0, 0, 30, 21, false, 0⟩, ⟨1, 1, true, true, 0, 0, 0, 0, true, 0⟩] := by
  unfold MsgsOk; norm_num [MsgsOk]

end D2V.Seq
