import D2V.Model.Parser
namespace D2V.Text

theorem nonspace_not_newline (r : Char) (h : isSpace r = false) : r ≠ '\n' := by
  intro e
  subst e
  revert h
  decide

end D2V.Text
