import D2V.Proofs.ParserSafety2
import D2V.Proofs.ParserSafetyUQ
import D2V.Proofs.ReaderInv
/-!
C01 — Parsing is total: any input yields a tree and positioned errors, never a crash.

The model (`Model/Parser.lean`) transcribes d2parser/parse.go statement by statement over the reader algebra
(`Model/Reader.lean`); it is tied to the source by the correspondence stream (tie K) and by the regenerated call-site
table, stop sets and code-variant flags of `Gen/ParserSites.lean` (tie R).

Proved here for **every** byte string, both position modes, every number oracle, every loop/nesting bound:
* `C01_no_subtract_panic_*`  no entry point can reach `panic("d2ast: cannot subtract newline from Position")`
* `C01_no_panic_*`           nor the slice panic of parseUnquotedString, *if* `lastPatternIndex` is reset with `sb`
                             (`cfg.patReset`, read off the source by the translator)
* `C01_cx_pattern_slice`     and without that reset the 12-byte input `a: xx*${y}z*` does panic (counterexample)
* `reader_inv`, `replay_ok_iff'`, `nonspace_not_newline'`  the reader algebra facts the above rest on
* `callSites_safe`           every replay / Subtract call site found in the source is of a class discharged above
* `C01_ws_loops_terminate_partial`  peekNotSpace / readNotSpace never hit the model's bound (termination, partial)
What is *not* proved: that the model's bound (`fuelFor`) is never hit, i.e. termination of the real loops
(`C01_full_statement` keeps the whole sentence visible; termination is sampled by the correspondence stream, where
`out-of-fuel` would be a mismatch, and searched on the implementation with a time-out).
-/
namespace D2V.Text

/-- the whole property on the model: every entry point returns a tree and an error list -/
def C01_full_statement : Prop :=
  ∀ (cfg : Cfg) (isNum : String → Bool) (bs : List UInt8) (u16 : Bool), cfg.patReset = true →
    (∃ o, parseFile cfg isNum bs u16 = .ok o) ∧ (∃ o, parseKeyEntry cfg bs = .ok o) ∧
    (∃ o, parseMapKeyEntry cfg isNum bs = .ok o) ∧ (∃ o, parseValueEntry cfg isNum bs = .ok o)

theorem nonspace_not_newline' (r : Char) (h : isSpace r = false) : r ≠ '\n' := nonspace_not_newline r h

/-- **reader_inv** (see `Proofs/ReaderInv.lean`) -/
theorem C01_reader_inv {input : List Char} {ops : List ROp} {s s' : PState} (h : RInv input s) (r : Run ops s s') :
    RInv input s' := reader_inv h r

/-- `replay r` is `.ok` iff `r` is not the newline … -/
theorem replay_ok_iff' {s : PState} {r : Char} : (∃ s', replay r s = .ok ((), s')) ↔ r ≠ '\n' := replay_ok_iff

/-- … and under the discipline (nothing peeked, `r` consumed last) it keeps the invariant -/
theorem replay_keeps_inv {input : List Char} {s s' : PState} {r : Char} {tl : List Char} (h : RInv input s)
    (hg : s.lookahead = []) (hc : s.consumed = r :: tl) (e : replay r s = .ok ((), s')) : RInv input s' :=
  rinv_replay h hg hc e

/-- **termination, partial**: the two whitespace-skipping loops every parse function starts with never exhaust the
    bound the entry points use (`fuelFor input = |input| + 4`), in any state reachable under the reader invariant -/
theorem C01_ws_loops_terminate_partial {input : List Char} {s : PState} (h : RInv input s) (hf : input.length < s.fuel) :
    (∃ o s', peekNotSpace s = .ok (o, s')) ∧ (∃ o s', readNotSpace s = .ok (o, s')) :=
  ⟨peekNotSpace_terminates h hf, readNotSpace_terminates h hf⟩

/-- tie R: every `p.replay(x)` / `.Subtract(x)` / `.SubtractString(x)` in the parse.go under test takes a literal
    without newline, the result of peekNotSpace/readNotSpace, or a parameter only ever given such a value -/
theorem callSites_safe :
    ∀ s ∈ D2V.Gen.ParserSites.callSites, s.2.2.2 ∈ ["literal", "nonspace", "param-nonspace"] := by decide

/-- the stop sets the model takes from the source contain the newline, as the termination of unquoted strings at a
    line end requires -/
theorem stopSets_have_newline :
    '\n' ∈ D2V.Gen.ParserSites.topStops ∧ '\n' ∈ D2V.Gen.ParserSites.dashStops ∧ '\n' ∈ D2V.Gen.ParserSites.edgeGroupStops := by
  decide

/-- parser and printer agree on what is special in a key: every rune at which the parser ends an unquoted key is
    in d2ast.UnquotedKeySpecials (both lists regenerated from the source) -/
theorem key_stops_are_specials :
    ∀ c ∈ D2V.Gen.ParserSites.topStops ++ D2V.Gen.ParserSites.keyStops, c ∈ D2V.Gen.ParserSites.unquotedKeySpecials := by
  decide

/-! ### from the program logic to the entry points -/

theorem safe_run {α : Type} {c : Cfg} {ok : Crash → Prop} {f : P α} {Q : α → Prop} (h : Safe c ok f Q)
    (s : PState) (hs : s.cfg = c) (e : Crash) (hne : ¬ ok e) : f s ≠ .error e := by
  intro he
  have := h s hs
  rw [he] at this
  exact hne this

section
variable {c : Cfg} {ok : Crash → Prop} (hf : ok .outOfFuel) (hs : c.patReset = true ∨ ok .sliceOOB)
include hf hs

theorem safe_uq_all : ∀ (ps : P (Option T)), Safe c ok ps (fun _ => True) → ∀ b,
    Safe c ok (parseUnquotedStringWith ps b) (fun _ => True) :=
  fun _ hps b => safe_parseUnquotedStringWith hf hs hps b

theorem safe_file (isNum : String → Bool) (n : Nat) : Safe c ok (parseMap (parseValueN isNum n) true) (fun _ => True) :=
  safe_parseMap hf (safe_uq_all hf hs) (safe_parseValueN hf (safe_uq_all hf hs) isNum n) true

theorem safe_key : Safe c ok parseKey (fun _ => True) := safe_parseKey hf (safe_uq_all hf hs)

theorem safe_mapkey (isNum : String → Bool) (n : Nat) : Safe c ok (parseMapKey (parseValueN isNum n)) (fun _ => True) :=
  safe_parseMapKey hf (safe_uq_all hf hs) (safe_parseValueN hf (safe_uq_all hf hs) isNum n)

theorem safe_value (isNum : String → Bool) (n : Nat) : Safe c ok (parseValueN isNum n) (fun _ => True) :=
  safe_parseValueN hf (safe_uq_all hf hs) isNum n

omit hf hs in
theorem finishRun_ne {α : Type} {x : Except Crash (α × PState)} {g : α → Option T} {e : Crash} (h : x ≠ .error e) :
    finishRun x g ≠ .error e := by
  unfold finishRun
  split
  · intro h'; cases h'
  · intro h'; injection h' with h'; subst h'; exact h rfl

/-- no entry point stops with a crash outside `ok` -/
theorem entries_safe (isNum : String → Bool) (bs : List UInt8) (u16 : Bool) (e : Crash) (hne : ¬ ok e) :
    parseFile c isNum bs u16 ≠ .error e ∧ parseKeyEntry c bs ≠ .error e ∧
    parseMapKeyEntry c isNum bs ≠ .error e ∧ parseValueEntry c isNum bs ≠ .error e :=
  ⟨finishRun_ne (safe_run (safe_file hf hs isNum _) (PState.init _ c _ _) rfl e hne),
   finishRun_ne (safe_run (safe_key hf hs) (PState.init _ c _ _) rfl e hne),
   finishRun_ne (safe_run (safe_mapkey hf hs isNum _) (PState.init _ c _ _) rfl e hne),
   finishRun_ne (safe_run (safe_value hf hs isNum _) (PState.init _ c _ _) rfl e hne)⟩
end

/-- **C01 (Subtract panic)**: for every code variant, number oracle, byte string and position mode, no entry point
    of the parser model stops in `Position.Subtract`'s panic -/
theorem C01_no_subtract_panic (cfg : Cfg) (isNum : String → Bool) (bs : List UInt8) (u16 : Bool) :
    parseFile cfg isNum bs u16 ≠ .error .subtractNewline ∧ parseKeyEntry cfg bs ≠ .error .subtractNewline ∧
    parseMapKeyEntry cfg isNum bs ≠ .error .subtractNewline ∧ parseValueEntry cfg isNum bs ≠ .error .subtractNewline :=
  entries_safe (ok := fun e => e ≠ .subtractNewline) (by decide) (Or.inr (by decide)) isNum bs u16 _ (by simp)

/-- **C01 (no panic at all), partial**: when `lastPatternIndex` is reset together with `sb`, the only way the model
    does not return a tree and an error list is by exhausting its own loop bound -/
theorem C01_total_partial (cfg : Cfg) (h : cfg.patReset = true) (isNum : String → Bool) (bs : List UInt8) (u16 : Bool)
    (e : Crash) (he : e ≠ .outOfFuel) :
    parseFile cfg isNum bs u16 ≠ .error e ∧ parseKeyEntry cfg bs ≠ .error e ∧
    parseMapKeyEntry cfg isNum bs ≠ .error e ∧ parseValueEntry cfg isNum bs ≠ .error e :=
  entries_safe (ok := fun e => e = .outOfFuel) rfl (Or.inl h) isNum bs u16 e he

/-- hence: a tree and an error list, or the bound -/
theorem C01_parse_total_or_bound (cfg : Cfg) (h : cfg.patReset = true) (isNum : String → Bool) (bs : List UInt8)
    (u16 : Bool) : (∃ o, parseFile cfg isNum bs u16 = .ok o) ∨ parseFile cfg isNum bs u16 = .error .outOfFuel := by
  cases hp : parseFile cfg isNum bs u16 with
  | ok o => exact Or.inl ⟨o, rfl⟩
  | error e =>
    by_cases he : e = .outOfFuel
    · subst he; exact Or.inr rfl
    · exact absurd hp ((C01_total_partial cfg h isNum bs u16 e he).1)

/-- the crash an entry point ended in, if any (decidable, unlike equality of outcomes) -/
def crashOf (x : Except Crash Outcome) : Option Crash :=
  match x with
  | .error c => some c
  | .ok _ => none

theorem crashOf_some {x : Except Crash Outcome} {c : Crash} (h : crashOf x = some c) : x = .error c := by
  unfold crashOf at h
  split at h
  · injection h with h; rw [h]
  · cases h

/-- the hypotheses are satisfiable and the statements are not vacuous: a concrete parse that returns a tree -/
example : crashOf (parseFile ⟨true, true, false⟩ (fun _ => false) [97, 58, 32, 98] false) = none := by decide +kernel

/-- **counterexample on the unchanged tree**: without the reset, `a: xx*${y}z*` drives the slice out of bounds —
    the Go parser panics with "slice bounds out of range [3:1]" on the same 12 bytes -/
theorem C01_cx_pattern_slice :
    parseFile ⟨false, false, false⟩ (fun _ => false) [97, 58, 32, 120, 120, 42, 36, 123, 121, 125, 122, 42] false
      = .error .sliceOOB :=
  crashOf_some (by decide +kernel)

/-- and with the reset the same input parses -/
theorem C01_pattern_slice_fixed :
    crashOf (parseFile ⟨true, false, false⟩ (fun _ => false) [97, 58, 32, 120, 120, 42, 36, 123, 121, 125, 122, 42] false)
      = none := by decide +kernel

end D2V.Text
