import D2V.Model.Shape
import Mathlib.Tactic.Linarith
import Mathlib.Tactic.NormNum
import Mathlib.Tactic.SplitIfs
import Mathlib.Tactic.Ring
import Mathlib.Tactic.Positivity
/-! C27 — Fitted shapes contain their content.

  `fit_contains_affine`: for every piecewise-affine shape type, every content size and padding (non-negative
  rationals), the inner box of a shape of the fitted size holds the padded content and lies inside the shape's box.
  The constants are the regenerated ones (`D2V.Gen.Shape`): change a wedge width, the arc depth, the document ratio,
  the package scalar … in the Go source and the proof is re-checked against the new numbers. -/
namespace D2V.Shape
open D2V.Gen.Shape

theorem le_ceilR (x : Rat) : x ≤ ceilR x := by unfold ceilR; exact Rat.le_ceil

/-- the kinds whose `GetDimensionsToFit` neither rounds down (`math.Round` in `LimitAR`) nor mixes width- and
    height-relative paddings -/
def Kind.affine : Kind → Bool
  | .person | .c4person => false
  | _ => true

theorem innerOK_intro {ib : IBox} {W H cw ch : Rat} (h1 : cw ≤ ib.w) (h2 : ch ≤ ib.h) (h3 : 0 ≤ ib.x) (h4 : 0 ≤ ib.y)
    (h5 : ib.x + ib.w ≤ W) (h6 : ib.y + ib.h ≤ H) : innerOK ib W H cw ch 0 := by
  unfold innerOK
  exact ⟨by linarith, by linarith, by linarith, by linarith, by linarith, by linarith⟩

/-- **fit_contains_affine** -/
theorem fit_contains_affine (k : Kind) (hk : k.affine = true) (w h px py : Rat)
    (hw : 0 ≤ w) (hh : 0 ≤ h) (hpx : 0 ≤ px) (hpy : 0 ≤ py) :
    innerOK (inner k (fit k w h px py).1 (fit k w h px py).2) (fit k w h px py).1 (fit k w h px py).2 (w + px) (h + py) 0 := by
  cases k
  case person => simp [Kind.affine] at hk
  case c4person => simp [Kind.affine] at hk
  case rect =>
    have a := le_ceilR (w + px); have b := le_ceilR (h + py)
    apply innerOK_intro <;> simp only [fit, inner] <;> linarith
  case realSquare =>
    have a := le_ceilR (max (w + px) (h + py))
    have a1 := le_max_left (w + px) (h + py); have a2 := le_max_right (w + px) (h + py)
    apply innerOK_intro <;> simp only [fit, inner] <;> linarith
  case hexagon =>
    have a := le_ceilR (3 / 2 * (w + px)); have b := le_ceilR (3 / 2 * (h + py))
    have a0 : 0 ≤ ceilR (3 / 2 * (w + px)) := by linarith
    have b0 : 0 ≤ ceilR (3 / 2 * (h + py)) := by linarith
    apply innerOK_intro <;> simp only [fit, inner] <;> (try norm_num) <;> linarith
  case diamond =>
    have a := le_ceilR (2 * (w + px)); have b := le_ceilR (2 * (h + py))
    apply innerOK_intro <;> simp only [fit, inner] <;> linarith
  case cylinder =>
    have a := le_ceilR (w + px); have b := le_ceilR (h + py + 3 * arcDepth)
    have hd : arcDepth = 24 := by norm_num [arcDepth]
    rw [hd] at b
    apply innerOK_intro <;> simp only [fit, inner, hd] <;> (try split_ifs) <;> linarith
  case queue =>
    have a := le_ceilR (3 * arcDepth + w + px); have b := le_ceilR (h + py)
    have hd : arcDepth = 24 := by norm_num [arcDepth]
    rw [hd] at a
    apply innerOK_intro <;> simp only [fit, inner, hd] <;> (try split_ifs) <;> linarith
  case package =>
    have hv : packageVerticalScalar = 1 / 5 := by norm_num [packageVerticalScalar]
    have hm : packageTopMaxHeight = 55 := by norm_num [packageTopMaxHeight]
    have a := le_ceilR (w + px)
    apply innerOK_intro <;> simp only [fit, inner, hv, hm]
    all_goals
      have b := le_ceilR (h + py + min ((h + py) * (1 / 5) / (1 - 1 / 5)) 55)
      have d1 := min_le_left (55 : Rat) (ceilR (h + py + min ((h + py) * (1 / 5) / (1 - 1 / 5)) 55) * (1 / 5))
      have d2 := min_le_right (55 : Rat) (ceilR (h + py + min ((h + py) * (1 / 5) / (1 - 1 / 5)) 55) * (1 / 5))
      have d0 : 0 ≤ min (55 : Rat) (ceilR (h + py + min ((h + py) * (1 / 5) / (1 - 1 / 5)) 55) * (1 / 5)) := by
        apply le_min
        · norm_num
        · have : 0 ≤ min ((h + py) * (1 / 5) / (1 - 1 / 5)) 55 := le_min (by positivity) (by norm_num)
          linarith
      have e : (h + py) * (1 / 5) / (1 - 1 / 5) = (h + py) / 4 := by ring
      rcases le_total ((h + py) * (1 / 5) / (1 - 1 / 5)) 55 with c | c
      · simp only [min_eq_left c] at * <;> (try rw [e] at *) <;> linarith
      · simp only [min_eq_right c] at * <;> linarith
  case page =>
    have hcw : pageCornerWidth = 52041 / 2500 := by norm_num [pageCornerWidth]
    have b := le_ceilR (max (h + py) pageCornerHeight)
    have b1 := le_max_left (h + py) pageCornerHeight
    by_cases c : h + py < 3 * pageCornerHeight
    · have a := le_ceilR (max (w + px + pageCornerWidth) (2 * pageCornerWidth))
      have a1 := le_max_left (w + px + pageCornerWidth) (2 * pageCornerWidth)
      have a2 := le_max_right (w + px + pageCornerWidth) (2 * pageCornerWidth)
      apply innerOK_intro <;> simp only [fit, inner, c, if_true] <;> (try split_ifs) <;> (rw [hcw] at *) <;> linarith
    · have a := le_ceilR (max (w + px) (2 * pageCornerWidth))
      have a1 := le_max_left (w + px) (2 * pageCornerWidth)
      have a2 := le_max_right (w + px) (2 * pageCornerWidth)
      apply innerOK_intro <;> simp only [fit, inner, c, if_false] <;> (try split_ifs) <;> (rw [hcw] at *) <;> linarith
  case step =>
    have hd : stepWedgeWidth = 35 := by norm_num [stepWedgeWidth]
    have a := le_ceilR (w + px + 2 * stepWedgeWidth); have b := le_ceilR (h + py)
    rw [hd] at a
    apply innerOK_intro <;> simp only [fit, inner, hd] <;> linarith
  case parallelogram =>
    have hd : parallelWedgeWidth = 26 := by norm_num [parallelWedgeWidth]
    have a := le_ceilR (w + px + parallelWedgeWidth * 2); have b := le_ceilR (h + py)
    rw [hd] at a
    apply innerOK_intro <;> simp only [fit, inner, hd] <;> linarith
  case document =>
    have h1 : docPathHeight = 757 / 40 := by norm_num [docPathHeight]
    have h2 : docPathInnerBottom = 14 := by norm_num [docPathInnerBottom]
    have a := le_ceilR (w + px); have b := le_ceilR ((h + py) * docPathHeight / docPathInnerBottom)
    rw [h1, h2] at b
    have b0 : 0 ≤ ceilR ((h + py) * (757 / 40) / 14) := by
      have : 0 ≤ (h + py) * (757 / 40) / 14 := by positivity
      linarith
    apply innerOK_intro <;> simp only [fit, inner, h1, h2] <;> linarith
  case storedData =>
    have hd : storedDataWedgeWidth = 15 := by norm_num [storedDataWedgeWidth]
    have a := le_ceilR (w + px + 2 * storedDataWedgeWidth); have b := le_ceilR (h + py)
    rw [hd] at a
    apply innerOK_intro <;> simp only [fit, inner, hd] <;> linarith
  case callout =>
    have hd : tipHeight = 45 := by norm_num [tipHeight]
    have a := le_ceilR (w + px)
    by_cases c : h + py < tipHeight
    · have b := le_ceilR ((h + py) * 2)
      rw [hd] at c
      apply innerOK_intro <;> simp only [fit, inner, hd, c, if_true] <;> (try split_ifs) <;> linarith
    · have b := le_ceilR (h + py + tipHeight)
      rw [hd] at c b
      apply innerOK_intro <;> simp only [fit, inner, hd, c, if_false] <;> (try split_ifs) <;> linarith

/-- Non-vacuity: a 100×40 label with the default 40 px padding in a hexagon -/
example : innerOK (inner .hexagon (fit .hexagon 100 40 40 40).1 (fit .hexagon 100 40 40 40).2)
    (fit .hexagon 100 40 40 40).1 (fit .hexagon 100 40 40 40).2 (100 + 40) (40 + 40) 0 :=
  fit_contains_affine .hexagon rfl 100 40 40 40 (by norm_num) (by norm_num) (by norm_num) (by norm_num)

/-- **person, partial**: when `LimitAR` leaves the size alone (neither side exceeds 1.5× the other) the person shape
    contains its padded content; the excluded region is where `math.Round` may round a side *down* (see the
    counterexample below). -/
theorem fit_contains_person_partial (w h px py : Rat) (hw : 0 ≤ w) (hh : 0 ≤ h) (hpx : 0 ≤ px) (hpy : 0 ≤ py)
    (hA : ¬ ((w + px) + 2 * ((w + px) * personShoulderWidthFactor / (1 - 2 * personShoulderWidthFactor)) > personARLimit * (h + py)))
    (hB : ¬ (h + py > personARLimit * ((w + px) + 2 * ((w + px) * personShoulderWidthFactor / (1 - 2 * personShoulderWidthFactor))))) :
    innerOK (inner .person (fit .person w h px py).1 (fit .person w h px py).2) (fit .person w h px py).1 (fit .person w h px py).2
      (w + px) (h + py) 0 := by
  have hf : personShoulderWidthFactor = 202 / 683 := by norm_num [personShoulderWidthFactor]
  have a := le_ceilR ((w + px) + 2 * ((w + px) * personShoulderWidthFactor / (1 - 2 * personShoulderWidthFactor)))
  have b := le_ceilR (h + py)
  have e : (w + px) + 2 * ((w + px) * personShoulderWidthFactor / (1 - 2 * personShoulderWidthFactor)) = (w + px) * (683 / 279) := by
    rw [hf]; ring
  rw [e] at a hA hB
  have a0 : 0 ≤ ceilR ((w + px) * (683 / 279)) := by
    have : 0 ≤ (w + px) * (683 / 279) := by positivity
    linarith
  apply innerOK_intro <;> simp only [fit, inner, limitAR, if_neg hA, if_neg hB, e] <;> (try rw [hf]) <;> linarith

/-- **counterexample (person)**: content 25×92, no padding.  The shoulders make the shape 61.2 px wide; 92 > 1.5 × 61.2, so
    `LimitAR` sets the width to `round(92 / 1.5) = 61`, *below* 61.2, and the inner box is 24.92 px wide — narrower than
    the 25 px content.  Replayed on lib/shape. -/
theorem C27_cx_person_limitAR_rounds_down :
    (fit .person 25 92 0 0) = (61, 92) ∧ (inner .person 61 92).w < 25 := by
  have hc : ∀ n : Int, ceilR (n : Rat) = (n : Rat) := by
    intro n; unfold ceilR; rw [Rat.ceil_intCast]
  have hfl : ((92 : Rat) / (3 / 2) + 1 / 2).floor = 61 := by
    apply le_antisymm
    · have : ((92 : Rat) / (3 / 2) + 1 / 2).floor < 62 := by rw [Rat.floor_lt_iff]; norm_num
      omega
    · rw [Rat.le_floor_iff]; norm_num
  have h1 : roundR ((92 : Rat) / (3 / 2)) = 61 := by
    unfold roundR
    rw [if_pos (by norm_num), hfl]; norm_num
  constructor
  · have hf : personShoulderWidthFactor = 202 / 683 := by norm_num [personShoulderWidthFactor]
    have hl : personARLimit = 3 / 2 := by norm_num [personARLimit]
    have e : (25 + 0 : Rat) + 2 * ((25 + 0) * personShoulderWidthFactor / (1 - 2 * personShoulderWidthFactor)) = 17075 / 279 := by
      rw [hf]; norm_num
    simp only [fit, limitAR, e, hl]
    rw [if_neg (by norm_num), if_pos (by norm_num)]
    simp only [show (92 + 0 : Rat) = 92 by norm_num, h1]
    have := hc 61; have := hc 92
    simp_all
  · norm_num [inner, personShoulderWidthFactor]

/-- **ellipse_contains_rect (idealised, `_partial`)**: oval and circle are sized as the ellipse through the corners of
    the content rectangle scaled by √2 (`rx ≥ w/√2`, `ry ≥ h/√2`, written without square roots).  In exact arithmetic
    every corner `(±w/2, ±h/2)` of the content then lies inside that ellipse.  The implementation adds `float32`
    truncation of θ, `Ceil` on the size and on the inner box's corner; that part is judged on the implementation
    only (2 px slack, see the driver). -/
theorem ellipse_contains_rect_partial (w h rx ry : Rat) (hrx : 0 < rx) (hry : 0 < ry)
    (h1 : w ^ 2 / 2 ≤ rx ^ 2) (h2 : h ^ 2 / 2 ≤ ry ^ 2) :
    (w / 2) ^ 2 / rx ^ 2 + (h / 2) ^ 2 / ry ^ 2 ≤ 1 := by
  have a : (w / 2) ^ 2 / rx ^ 2 ≤ 1 / 2 := by
    rw [div_le_iff₀ (by positivity)]; nlinarith
  have b : (h / 2) ^ 2 / ry ^ 2 ≤ 1 / 2 := by
    rw [div_le_iff₀ (by positivity)]; nlinarith
  linarith

theorem ceilR_eq (x : Rat) (n : Int) (h1 : ((n - 1 : Int) : Rat) < x) (h2 : x ≤ (n : Rat)) : ceilR x = (n : Rat) := by
  unfold ceilR
  have a : x.ceil ≤ n := Rat.ceil_le_iff.mpr h2
  have b : n - 1 < x.ceil := Rat.lt_ceil_iff.mpr h1
  have : x.ceil = n := by omega
  rw [this]

/-- **counterexample (cloud)**: content 546.25 × 457.25, padding 69.25 × 33.25.  The padded content has aspect ratio 1.2548,
    just above `CLOUD_WIDE_ASPECT_BOUNDARY` = 1.2473, so `GetDimensionsToFit` uses the *wide* table (752 × 896); the hint
    d2graph passes is the aspect of the unpadded content, 1.1946, for which `GetInnerBox` uses the *square* table: the
    inner box is 752 × 0.663 = 498.6 px wide, 47 px less than the content.  Replayed on lib/shape. -/
theorem C27_cx_cloud_category_flip :
    cloudFit (2185 / 4) (1829 / 4) (277 / 4) (133 / 4) = (752, 896) ∧
    (cloudInner (some (cloudHint (2185 / 4) (1829 / 4))) 752 896).w < 2185 / 4 := by
  have c1 : cloudCat (2185 / 4 + 277 / 4) (1829 / 4 + 133 / 4) = .wide := by
    unfold cloudCat cloudWideBoundary cloudWideInnerWidth cloudWideInnerHeight
    norm_num
  have c2 : cloudCat (2185 / 4) (1829 / 4) = .square := by
    unfold cloudCat cloudWideBoundary cloudTallBoundary cloudWideInnerWidth cloudWideInnerHeight cloudTallInnerWidth cloudTallInnerHeight
    norm_num
  constructor
  · unfold cloudFit cloudFitPre
    simp only [c1, CloudCat.innerW, CloudCat.innerH]
    have e1 := ceilR_eq ((2185 / 4 + 277 / 4) / cloudWideInnerWidth) 752 (by norm_num [cloudWideInnerWidth]) (by norm_num [cloudWideInnerWidth])
    have e2 := ceilR_eq ((1829 / 4 + 133 / 4) / cloudWideInnerHeight) 896 (by norm_num [cloudWideInnerHeight]) (by norm_num [cloudWideInnerHeight])
    rw [e1, e2]; norm_num
  · have hh : cloudHint (2185 / 4) (1829 / 4) = 2185 / 1829 := by
      unfold cloudHint
      simp only [c2, CloudCat.innerW, CloudCat.innerH]
      norm_num [cloudSquareInnerWidth, cloudSquareInnerHeight]
    have c3 : cloudCat (2185 / 1829) 1 = .square := by
      unfold cloudCat cloudWideBoundary cloudTallBoundary cloudWideInnerWidth cloudWideInnerHeight cloudTallInnerWidth cloudTallInnerHeight
      norm_num
    unfold cloudInner cloudInnerCat
    rw [hh]
    simp only [show ((2185 : Rat) / 1829 = 0) = False by norm_num, if_false, c3, CloudCat.innerW]
    norm_num [cloudSquareInnerWidth]

/-- **counterexample (c4 person)**: content 189×189, padding 5×0.  `GetDimensionsToFit` reserves 6 % of the *width* for the
    vertical padding, `GetInnerBox` takes 2 × 3 % of the *height*: the fitted 216×288 shape has an inner box only
    185.2 px high, 3.8 px less than the content.  Replayed on lib/shape. -/
theorem C27_cx_c4person_inner_too_short : (inner .c4person 216 288).h < 189 := by
  norm_num [inner, c4HeadRadiusFactor, c4BodyTopFactor]

end D2V.Shape
