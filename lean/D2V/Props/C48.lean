import D2V.Model.FsCrash
import D2V.Gen.FsWrite
/-! C48 — Files rewritten in place are never left partially written.

  `atomic_write_safe`      every kill point of AtomicWritePath leaves the target with its old or its new content
  `writeFile_unsafe`       os.WriteFile has a kill point (right after the O_TRUNC open) that leaves it empty
  `C48_cx_fmt_truncate`    the concrete witness (what `d2 fmt` did through WritePath before the fix)
  `fallback_only_on_error` d2cli.Write (shape regenerated from the source) touches the target non-atomically only
                           after AtomicWritePath reported an error; without a fault it is exactly the atomic write
  `C48_fmt_uses_atomic`, `C48_render_uses_atomic`, `C48_write_shape`  the regenerated call lists name the atomic path
-/
namespace D2V.FsCrash

/-! ### prefixes -/

theorem run_cons (fs : FS) (o : Op) (r : List Op) : run fs (o :: r) = run (step fs o) r := rfl
theorem run_nil (fs : FS) : run fs [] = fs := rfl
theorem run_append (fs : FS) (a b : List Op) : run fs (a ++ b) = run (run fs a) b := by
  simp [run, List.foldl_append]

theorem allPrefixes_iff (P : FS → Prop) (fs : FS) (ops : List Op) :
    AllPrefixes P fs ops ↔ ∀ pre, pre <+: ops → P (run fs pre) := by
  induction ops generalizing fs with
  | nil =>
    simp only [AllPrefixes, List.prefix_nil]
    constructor
    · intro h pre hp; subst hp; exact h
    · intro h; exact h [] rfl
  | cons o r ih =>
    simp only [AllPrefixes, ih]
    constructor
    · rintro ⟨h0, h1⟩ pre hp
      cases pre with
      | nil => exact h0
      | cons a t =>
        obtain ⟨rfl, ht⟩ := List.cons_prefix_cons.mp hp
        exact h1 t ht
    · intro h
      refine ⟨h [] (List.nil_prefix), fun pre hp => ?_⟩
      exact h (o :: pre) (List.cons_prefix_cons.mpr ⟨rfl, hp⟩)

theorem allPrefixes_append (P : FS → Prop) (fs : FS) (a b : List Op) :
    AllPrefixes P fs (a ++ b) ↔ AllPrefixes P fs a ∧ AllPrefixes P (run fs a) b := by
  induction a generalizing fs with
  | nil =>
    simp only [List.nil_append, AllPrefixes, run_nil]
    constructor
    · intro h
      refine ⟨?_, h⟩
      cases b <;> simp_all [AllPrefixes]
    · exact fun h => h.2
  | cons o r ih =>
    simp only [List.cons_append, AllPrefixes, ih, run_cons]
    constructor
    · rintro ⟨h0, h1, h2⟩; exact ⟨⟨h0, h1⟩, h2⟩
    · rintro ⟨⟨h0, h1⟩, h2⟩; exact ⟨h0, h1, h2⟩

theorem allPrefixes_head (P : FS → Prop) (fs : FS) (ops : List Op) (h : AllPrefixes P fs ops) : P fs := by
  cases ops <;> simp_all [AllPrefixes]

/-! ### one-step facts -/

theorem content_close (fs : FS) (fd : Nat) (p : Path) : content (step fs (.close fd)) p = content fs p := rfl
theorem names_close (fs : FS) (fd : Nat) : (step fs (.close fd)).names = fs.names := rfl
theorem data_close (fs : FS) (fd : Nat) : (step fs (.close fd)).data = fs.data := rfl
theorem content_nop (fs : FS) (p : Path) : content (step fs .nop) p = content fs p := rfl
theorem step_nop (fs : FS) : step fs .nop = fs := rfl

theorem content_remove_ne (fs : FS) {q p : Path} (h : q ≠ p) : content (step fs (.remove q)) p = content fs p := by
  show Option.map fs.data (upd fs.names q none p) = _
  simp [upd, Ne.symm h, content]

theorem content_rename (fs : FS) {s d : Path} {i : Nat} (h : fs.names s = some i) (hne : s ≠ d) :
    content (step fs (.rename s d)) d = some (fs.data i) := by
  have hs : step fs (.rename s d) = { fs with names := upd (upd fs.names d (some i)) s none } := by
    simp [step, h]
  rw [hs]
  simp [content, upd, Ne.symm hne]

theorem content_after_openTrunc (fs : FS) (fd : Nat) (p : Path) :
    content (step fs (.openTrunc fd p)) p = some [] := by
  cases h : fs.names p with
  | some i =>
    have hs : step fs (.openTrunc fd p) = { fs with data := upd fs.data i [], fds := upd fs.fds fd (some i) } := by
      simp [step, h]
    rw [hs]; simp [content, h, upd]
  | none =>
    have hs : step fs (.openTrunc fd p) =
        { names := upd fs.names p (some fs.next), data := upd fs.data fs.next [],
          fds := upd fs.fds fd (some fs.next), next := fs.next + 1 } := by
      simp [step, h]
    rw [hs]; simp [content, upd]

/-! ### writes to a descriptor whose inode is not the target's -/

/-- invariant while a temp file is being filled: `fd` is open on inode `i`, the target `p` does not name `i` -/
structure Filling (fs0 fs : FS) (fd i : Nat) (p tmp : Path) (acc : Bytes) : Prop where
  names_p : fs.names p = fs0.names p
  names_tmp : fs.names tmp = some i
  fd_open : fs.fds fd = some i
  data_i : fs.data i = acc
  data_other : ∀ j, j ≠ i → fs.data j = fs0.data j
  p_not_i : ∀ j, fs0.names p = some j → j ≠ i

theorem Filling.content_p {fs0 fs : FS} {fd i : Nat} {p tmp : Path} {acc : Bytes}
    (h : Filling fs0 fs fd i p tmp acc) : content fs p = content fs0 p := by
  unfold content
  rw [h.names_p]
  cases hp : fs0.names p with
  | none => rfl
  | some j => simp [h.data_other j (h.p_not_i j hp)]

theorem Filling.write {fs0 fs : FS} {fd i : Nat} {p tmp : Path} {acc : Bytes}
    (h : Filling fs0 fs fd i p tmp acc) (bs : Bytes) :
    Filling fs0 (step fs (.write fd bs)) fd i p tmp (acc ++ bs) := by
  have hs : step fs (.write fd bs) = { fs with data := upd fs.data i (fs.data i ++ bs) } := by
    simp [step, h.fd_open]
  rw [hs]
  refine ⟨h.names_p, h.names_tmp, h.fd_open, ?_, ?_, h.p_not_i⟩
  · simp [upd, h.data_i]
  · intro j hj; simp [upd, hj, h.data_other j hj]

theorem writes_nil (fd : Nat) : writes fd [] = [] := rfl
theorem writes_cons (fd : Nat) (c : Bytes) (r : List Bytes) : writes fd (c :: r) = Op.write fd c :: writes fd r := rfl

theorem Filling.run_writes {fs0 : FS} {fd i : Nat} {p tmp : Path} (chunks : List Bytes) :
    ∀ {fs : FS} {acc : Bytes}, Filling fs0 fs fd i p tmp acc →
      Filling fs0 (run fs (FsCrash.writes fd chunks)) fd i p tmp (acc ++ chunks.flatten) ∧
      AllPrefixes (fun s => content s p = content fs0 p) fs (FsCrash.writes fd chunks) := by
  induction chunks with
  | nil =>
    intro fs acc h
    rw [writes_nil, run_nil, List.flatten_nil, List.append_nil]
    exact ⟨h, h.content_p⟩
  | cons c r ih =>
    intro fs acc h
    have h' := h.write c
    obtain ⟨h1, h2⟩ := ih h'
    rw [writes_cons, run_cons, List.flatten_cons, ← List.append_assoc]
    exact ⟨h1, h.content_p, h2⟩

/-- state right after `createExcl fd tmp` on a well-formed file system where `tmp` does not exist -/
theorem filling_after_create {fs : FS} (hwf : WF fs) {fd : Nat} {p tmp : Path}
    (htmp : fs.names tmp = none) (hne : tmp ≠ p) :
    Filling fs (step fs (.createExcl fd tmp)) fd fs.next p tmp [] := by
  have hs : step fs (.createExcl fd tmp) =
      { names := upd fs.names tmp (some fs.next), data := upd fs.data fs.next [],
        fds := upd fs.fds fd (some fs.next), next := fs.next + 1 } := by
    simp [step, htmp]
  rw [hs]
  refine ⟨?_, ?_, ?_, ?_, ?_, ?_⟩
  · simp [upd, Ne.symm hne]
  · simp [upd]
  · simp [upd]
  · simp [upd]
  · intro j hj; simp [upd, hj]
  · intro j hj; exact Nat.ne_of_lt (hwf.1 p j hj)

/-- **atomic_write_safe**: whatever prefix of AtomicWritePath's operations is executed before the process is
    killed, for any split of the data into write calls, the target holds its complete previous content or its
    complete new content — and after the whole list it holds the new content. -/
theorem atomic_write_safe (fs : FS) (hwf : WF fs) (fd : Nat) (p tmp : Path) (chunks : List Bytes)
    (htmp : fs.names tmp = none) (hne : tmp ≠ p) :
    AllPrefixes (OldOrNew p (content fs p) chunks.flatten) fs (atomicWrite fd p tmp chunks) ∧
    content (run fs (atomicWrite fd p tmp chunks)) p = some chunks.flatten := by
  have hF := filling_after_create hwf (fd := fd) htmp hne
  obtain ⟨hW, hWp⟩ := Filling.run_writes chunks hF
  rw [List.nil_append] at hW
  generalize hs2 : run (step fs (.createExcl fd tmp)) (writes fd chunks) = s2 at hW
  have hs2p : content s2 p = content fs p := hW.content_p
  have hs3p : content (step s2 (.close fd)) p = content fs p := by rw [content_close, hs2p]
  have hs4 : content (step (step s2 (.close fd)) (.rename tmp p)) p = some chunks.flatten := by
    have hn : (step s2 (.close fd)).names tmp = some fs.next := by rw [names_close]; exact hW.names_tmp
    rw [content_rename _ hn hne, data_close, hW.data_i]
  constructor
  · unfold atomicWrite
    refine ⟨Or.inl rfl, ?_⟩
    rw [allPrefixes_append]
    refine ⟨?_, ?_⟩
    · rw [allPrefixes_iff] at hWp ⊢
      intro pre hpre
      exact Or.inl (hWp pre hpre)
    · rw [hs2]
      exact ⟨Or.inl hs2p, Or.inl hs3p, Or.inr hs4⟩
  · unfold atomicWrite
    rw [run_cons, run_append, hs2]
    exact hs4

/-- the same, phrased with an explicit prefix (a kill after any number of completed operations) -/
theorem atomic_write_safe_prefix (fs : FS) (hwf : WF fs) (fd : Nat) (p tmp : Path) (chunks : List Bytes)
    (htmp : fs.names tmp = none) (hne : tmp ≠ p) (k : Nat) :
    content (run fs ((atomicWrite fd p tmp chunks).take k)) p = content fs p ∨
    content (run fs ((atomicWrite fd p tmp chunks).take k)) p = some chunks.flatten :=
  (allPrefixes_iff _ _ _).mp (atomic_write_safe fs hwf fd p tmp chunks htmp hne).1 _ (List.take_prefix _ _)

/-! ### os.WriteFile -/

/-- **writeFile_unsafe**: the prefix that ends right after the truncating open leaves the file empty; unless the
    old or the new content is empty this is neither of them. -/
theorem writeFile_unsafe (fs : FS) (fd : Nat) (p : Path) (chunks : List Bytes)
    (hold : content fs p ≠ some []) (hnew : chunks.flatten ≠ []) :
    ¬ AllPrefixes (OldOrNew p (content fs p) chunks.flatten) fs (writeFile fd p chunks) := by
  intro h
  unfold writeFile at h
  have h1 := allPrefixes_head _ _ _ h.2
  unfold OldOrNew at h1
  rw [content_after_openTrunc] at h1
  rcases h1 with h1 | h1
  · exact hold h1.symm
  · exact hnew (by simpa using h1.symm)

/-- witness prefix, explicitly: one operation executed -/
theorem writeFile_unsafe_witness (fs : FS) (fd : Nat) (p : Path) (chunks : List Bytes) :
    content (run fs ((writeFile fd p chunks).take 1)) p = some [] := by
  simp [writeFile, run, content_after_openTrunc]

def cxOld : Bytes := [97, 45, 62, 98, 10]            -- "a->b\n"
def cxNew : Bytes := [97, 32, 45, 62, 32, 98, 10]    -- "a -> b\n"
def cxFS : FS := mkFS [("f.d2", cxOld)]

/-- **C48_cx_fmt_truncate**: `d2 fmt f.d2` through WritePath → os.WriteFile, killed after the open: f.d2 is empty,
    which is neither "a->b\n" nor "a -> b\n" (replayed on the real CLI with strace fault injection). -/
theorem C48_cx_fmt_truncate :
    content cxFS "f.d2" = some cxOld ∧
    content (run cxFS ((writeFile 7 "f.d2" [cxNew]).take 1)) "f.d2" = some [] ∧
    ¬ AllPrefixes (OldOrNew "f.d2" (some cxOld) cxNew) cxFS (writeFile 7 "f.d2" [cxNew]) := by
  have h0 : content cxFS "f.d2" = some cxOld := by
    simp [cxFS, mkFS, mkFS.go, content, upd]
  refine ⟨h0, writeFile_unsafe_witness _ _ _ _, ?_⟩
  have := writeFile_unsafe cxFS 7 "f.d2" [cxNew] (by rw [h0]; simp [cxOld]) (by simp [cxNew])
  rw [h0] at this
  simpa using this

theorem mkFS_go_wf (files : List (Path × Bytes)) (n : Nat) :
    (mkFS.go files n).next = n + files.length ∧
    (∀ p i, (mkFS.go files n).names p = some i → n ≤ i ∧ i < n + files.length) ∧
    (∀ fd, (mkFS.go files n).fds fd = none) := by
  induction files generalizing n with
  | nil => simp [mkFS.go]
  | cons f r ih =>
    obtain ⟨p0, b0⟩ := f
    obtain ⟨h1, h2, h3⟩ := ih (n + 1)
    simp only [mkFS.go, List.length_cons]
    refine ⟨by omega, ?_, h3⟩
    intro p i hp
    simp only [upd] at hp
    split at hp
    · cases hp; omega
    · have := h2 p i hp; omega

theorem mkFS_wf (files : List (Path × Bytes)) : WF (mkFS files) := by
  obtain ⟨h1, h2, h3⟩ := mkFS_go_wf files 0
  constructor
  · intro p i hp
    have := h2 p i hp
    simp only [mkFS, h1]; omega
  · intro fd i h
    simp [mkFS, h3] at h

/-- the hypotheses of `atomic_write_safe` are satisfiable: the same sandbox, written atomically, is safe -/
example : AllPrefixes (OldOrNew "f.d2" (some cxOld) cxNew) cxFS (atomicWrite 7 "f.d2" "tmp-f.d2-1" [cxNew]) := by
  have h0 : content cxFS "f.d2" = some cxOld := by simp [cxFS, mkFS, mkFS.go, content, upd]
  have := (atomic_write_safe cxFS (mkFS_wf _) 7 "f.d2" "tmp-f.d2-1" [cxNew]
    (by simp [cxFS, mkFS, mkFS.go, upd]) (by decide)).1
  rw [h0] at this
  simpa using this

/-! ### d2cli.Write: atomic first, fallback only on error -/

/-- a failed AtomicWritePath attempt never changes what the target holds, at any of its kill points -/
theorem failed_attempt_keeps_target (fs : FS) (hwf : WF fs) (fd : Nat) (p tmp : Path) (chunks : List Bytes)
    (htmp : fs.names tmp = none) (hne : tmp ≠ p) (f : Fault) :
    AllPrefixes (fun s => content s p = content fs p) fs (atomicAttempt fd p tmp chunks (some f)).1 ∧
    (atomicAttempt fd p tmp chunks (some f)).2 = true := by
  have hF := filling_after_create hwf (fd := fd) htmp hne
  refine ⟨?_, by cases f <;> rfl⟩
  cases f with
  | create => exact rfl
  | write k =>
    obtain ⟨hW, hWp⟩ := Filling.run_writes (chunks.take k) hF
    generalize hs2 : run (step fs (.createExcl fd tmp)) (writes fd (chunks.take k)) = s2 at hW
    show AllPrefixes _ fs (Op.createExcl fd tmp :: (writes fd (chunks.take k) ++ [Op.remove tmp]))
    refine ⟨rfl, ?_⟩
    rw [allPrefixes_append, hs2]
    refine ⟨hWp, hW.content_p, ?_⟩
    show content (step s2 (.remove tmp)) p = _
    rw [content_remove_ne _ hne]; exact hW.content_p
  | close =>
    obtain ⟨hW, hWp⟩ := Filling.run_writes chunks hF
    generalize hs2 : run (step fs (.createExcl fd tmp)) (writes fd chunks) = s2 at hW
    show AllPrefixes _ fs (Op.createExcl fd tmp :: (writes fd chunks ++ [Op.close fd, Op.remove tmp]))
    refine ⟨rfl, ?_⟩
    rw [allPrefixes_append, hs2]
    refine ⟨hWp, hW.content_p, ?_, ?_⟩
    · show content (step s2 (.close fd)) p = _
      rw [content_close]; exact hW.content_p
    · show content (step (step s2 (.close fd)) (.remove tmp)) p = _
      rw [content_remove_ne _ hne, content_close]; exact hW.content_p
  | rename =>
    obtain ⟨hW, hWp⟩ := Filling.run_writes chunks hF
    generalize hs2 : run (step fs (.createExcl fd tmp)) (writes fd chunks) = s2 at hW
    show AllPrefixes _ fs (Op.createExcl fd tmp :: (writes fd chunks ++ [Op.close fd, Op.nop, Op.remove tmp]))
    refine ⟨rfl, ?_⟩
    rw [allPrefixes_append, hs2]
    refine ⟨hWp, hW.content_p, ?_, ?_, ?_⟩
    · show content (step s2 (.close fd)) p = _
      rw [content_close]; exact hW.content_p
    · show content (step (step s2 (.close fd)) .nop) p = _
      rw [step_nop, content_close]; exact hW.content_p
    · show content (step (step (step s2 (.close fd)) .nop) (.remove tmp)) p = _
      rw [content_remove_ne _ hne, step_nop, content_close]; exact hW.content_p

/-- the shape of `d2cli.Write` as it is in the tree under test -/
def writeShapeNow : List WStep := Gen.FsWrite.writeShape.filterMap WStep.ofString

/-- **C48_write_shape** (tie R): d2cli.Write is "try AtomicWritePath; return if ok; otherwise WritePath" and every
    extracted statement was understood. -/
theorem C48_write_shape :
    Gen.FsWrite.writeShape.map WStep.ofString = [some .tryAtomic, some .retIfOk, some .retPlain] := by
  decide

theorem writeShapeNow_eq : writeShapeNow = [.tryAtomic, .retIfOk, .retPlain] := by decide

/-- **fallback_only_on_error**: for d2cli.Write as written in the source,
    (1) when AtomicWritePath reports no error the operations are exactly the atomic write (no truncating open at all,
        hence safe at every kill point by `atomic_write_safe`);
    (2) when it reports an error the operations are the failed attempt — which leaves the target's content unchanged at
        every kill point — followed by the os.WriteFile fallback. -/
theorem fallback_only_on_error (fd : Nat) (p tmp : Path) (chunks : List Bytes) :
    cliWrite writeShapeNow fd p tmp chunks none = atomicWrite fd p tmp chunks ∧
    ∀ f : Fault, cliWrite writeShapeNow fd p tmp chunks (some f) =
      (atomicAttempt fd p tmp chunks (some f)).1 ++ writeFile fd p chunks := by
  rw [writeShapeNow_eq]
  constructor
  · simp [cliWrite, cliWriteFrom, atomicAttempt]
  · intro f
    cases f <;> simp [cliWrite, cliWriteFrom, atomicAttempt]

/-- corollary: with no fault, `d2cli.Write` is safe at every kill point -/
theorem cliWrite_safe (fs : FS) (hwf : WF fs) (fd : Nat) (p tmp : Path) (chunks : List Bytes)
    (htmp : fs.names tmp = none) (hne : tmp ≠ p) :
    AllPrefixes (OldOrNew p (content fs p) chunks.flatten) fs (cliWrite writeShapeNow fd p tmp chunks none) := by
  rw [(fallback_only_on_error fd p tmp chunks).1]
  exact (atomic_write_safe fs hwf fd p tmp chunks htmp hne).1

/-- a `Write` that tried the plain write first would not be safe: the mutation `AtomicWritePath → WritePath` -/
theorem cliWrite_plain_first_unsafe (fs : FS) (fd : Nat) (p tmp : Path) (chunks : List Bytes)
    (hold : content fs p ≠ some []) (hnew : chunks.flatten ≠ []) :
    ¬ AllPrefixes (OldOrNew p (content fs p) chunks.flatten) fs
        (cliWrite [.tryPlain, .retIfOk, .retPlain] fd p tmp chunks none) := by
  have : cliWrite [.tryPlain, .retIfOk, .retPlain] fd p tmp chunks none = writeFile fd p chunks := by
    simp [cliWrite, cliWriteFrom]
  rw [this]
  exact writeFile_unsafe fs fd p chunks hold hnew

/-! ### which primitive the commands use (tie R) -/

/-- names under which a call replaces a file safely: d2cli.Write, AtomicWritePath, or the stdout branch -/
def safeCall (c : String) : Bool := c == "Write" || c == "AtomicWritePath" || c == "WritePath(stdout)"

/-- **C48_fmt_uses_atomic**: every file-writing call reachable from `fmtCmd` goes through d2cli.Write (or is the
    `-` = stdout branch), and there is one. -/
theorem C48_fmt_uses_atomic :
    Gen.FsWrite.fmtCmdWrites.all safeCall = true ∧ Gen.FsWrite.fmtCmdWrites.contains "Write" = true := by
  decide

/-- **C48_render_uses_atomic**: the single-board renderer `_render` writes its output through d2cli.Write only. -/
theorem C48_render_uses_atomic :
    Gen.FsWrite.renderWrites.all safeCall = true ∧ Gen.FsWrite.renderWrites.contains "Write" = true := by
  decide

/-- the only function of d2cli that calls a truncating primitive on a file path is the fallback inside `Write` -/
theorem C48_plain_only_in_Write : Gen.FsWrite.plainWriteCallers = ["Write"] := by decide

end D2V.FsCrash
