import D2V.Model.Near
import Mathlib.Tactic.Linarith
import Mathlib.Tactic.NormNum
/-! C24 — Constant-near shapes are placed outside the diagram on the requested side, centred where the position
    says center.  Everything is over the regenerated constants `Gen.Near.pad`, `Gen.Near.phase0/1/2`. -/
namespace D2V.Near

theorem pad_nonneg : (0 : Rat) ≤ pad := by unfold pad D2V.Gen.Near.pad; norm_num

/-- which phase places which key — re-checked against the regenerated sets on every run -/
theorem phase_spec (k : Key) : k.phase = (if k.hCenter then 0 else if k.vCenter then 1 else 2) := by
  cases k <;> decide

theorem key_contains (k : Key) :
    hasSub k.name "left" = k.left ∧ hasSub k.name "right" = k.right ∧
    hasSub k.name "top" = k.top ∧ hasSub k.name "bottom" = k.bottom := by
  cases k <;> decide

/-! ### `place` alone: for ANY box, any shape size ≥ 0, any label position string and label size ≥ 0 -/

/-- the label adjustment only ever moves a shape away from the diagram -/
theorem adjust_away (k : Key) (lp : Option String) (lw lh : Rat) (hlw : 0 ≤ lw) (hlh : 0 ≤ lh) (p : Rat × Rat) :
    (k.left = true → (adjust k lp lw lh p).1 ≤ p.1) ∧ (k.right = true → p.1 ≤ (adjust k lp lw lh p).1) ∧
    (k.top = true → (adjust k lp lw lh p).2 ≤ p.2) ∧ (k.bottom = true → p.2 ≤ (adjust k lp lw lh p).2) ∧
    (k.left = false → k.right = false → (adjust k lp lw lh p).1 = p.1) ∧
    (k.top = false → k.bottom = false → (adjust k lp lw lh p).2 = p.2) := by
  obtain ⟨h1, h2, h3, h4⟩ := key_contains k
  unfold adjust
  cases lp with
  | none => simp
  | some s =>
    simp only [h1, h2, h3, h4]
    split
    · simp
    · split
      · cases hb : k.bottom <;> cases k <;> simp_all [Key.left, Key.right, Key.top, Key.bottom]
      · split
        · cases hb : k.right <;> cases k <;> simp_all [Key.left, Key.right, Key.top, Key.bottom]
        · split
          · cases hb : k.left <;> cases k <;> simp_all [Key.left, Key.right, Key.top, Key.bottom]
          · split
            · cases hb : k.top <;> cases k <;> simp_all [Key.left, Key.right, Key.top, Key.bottom]
            · simp

/-- **near_outside** (the eight cases of `place`): the placed box is entirely outside `bb` on the named side(s),
    at least `pad` away — for every box, size, label position string and label size. -/
theorem near_outside (bb : BB) (o : NearObj) (hlw : 0 ≤ o.lw) (hlh : 0 ≤ o.lh) :
    outsideOn o.key bb ⟨(place bb o).1, (place bb o).2, o.w, o.h⟩ pad := by
  obtain ⟨a1, a2, a3, a4, _, _⟩ := adjust_away o.key o.labelPos o.lw o.lh hlw hlh (place0 bb o.key o.w o.h)
  have hp := pad_nonneg
  unfold place
  unfold outsideOn
  refine ⟨fun hk => ?_, fun hk => ?_, fun hk => ?_, fun hk => ?_⟩
  · have := a1 hk
    have h0 : (place0 bb o.key o.w o.h).1 = bb.x1 - o.w - pad := by
      cases hk' : o.key <;> simp_all [Key.left, place0]
    simp only; linarith
  · have := a2 hk
    have h0 : (place0 bb o.key o.w o.h).1 = bb.x2 + pad := by
      cases hk' : o.key <;> simp_all [Key.right, place0]
    simp only; linarith
  · have := a3 hk
    have h0 : (place0 bb o.key o.w o.h).2 = bb.y1 - o.h - pad := by
      cases hk' : o.key <;> simp_all [Key.top, place0]
    simp only; linarith
  · have := a4 hk
    have h0 : (place0 bb o.key o.w o.h).2 = bb.y2 + pad := by
      cases hk' : o.key <;> simp_all [Key.bottom, place0]
    simp only; linarith

/-- **near_centered**: `…-center` keys are centred horizontally, `center-…` keys vertically, exactly -/
theorem near_centered (bb : BB) (o : NearObj) (hlw : 0 ≤ o.lw) (hlh : 0 ≤ o.lh) :
    centeredOn o.key bb ⟨(place bb o).1, (place bb o).2, o.w, o.h⟩ 0 := by
  obtain ⟨_, _, _, _, a5, a6⟩ := adjust_away o.key o.labelPos o.lw o.lh hlw hlh (place0 bb o.key o.w o.h)
  unfold place centeredOn
  constructor
  · intro hk
    have e := a5 (by cases hk' : o.key <;> simp_all [Key.hCenter, Key.left])
      (by cases hk' : o.key <;> simp_all [Key.hCenter, Key.right])
    have h0 : (place0 bb o.key o.w o.h).1 + o.w / 2 = (bb.x1 + bb.x2) / 2 := by
      cases hk' : o.key <;> simp_all [Key.hCenter, place0] <;> linarith
    simp only; constructor <;> linarith
  · intro hk
    have e := a6 (by cases hk' : o.key <;> simp_all [Key.vCenter, Key.top])
      (by cases hk' : o.key <;> simp_all [Key.vCenter, Key.bottom])
    have h0 : (place0 bb o.key o.w o.h).2 + o.h / 2 = (bb.y1 + bb.y2) / 2 := by
      cases hk' : o.key <;> simp_all [Key.vCenter, place0] <;> linarith
    simp only; constructor <;> linarith

/-- a centred shape covers the centre of the box it was placed against (used for the empty main diagram) -/
theorem near_covers_center (bb : BB) (o : NearObj) (hw : 0 ≤ o.w) (hh : 0 ≤ o.h) (hlw : 0 ≤ o.lw) (hlh : 0 ≤ o.lh) :
    (o.key.hCenter = true → (place bb o).1 ≤ (bb.x1 + bb.x2) / 2 ∧ (bb.x1 + bb.x2) / 2 ≤ (place bb o).1 + o.w) ∧
    (o.key.vCenter = true → (place bb o).2 ≤ (bb.y1 + bb.y2) / 2 ∧ (bb.y1 + bb.y2) / 2 ≤ (place bb o).2 + o.h) := by
  have h := near_centered bb o hlw hlh
  unfold centeredOn at h
  simp only at h
  constructor
  · intro hk; have := h.1 hk; constructor <;> linarith
  · intro hk; have := h.2 hk; constructor <;> linarith

/-! ### the bounding box only grows: "outside the box used" implies "outside the main diagram" -/

def BB.contains (big small : BB) : Prop :=
  big.x1 ≤ small.x1 ∧ big.y1 ≤ small.y1 ∧ small.x2 ≤ big.x2 ∧ small.y2 ≤ big.y2

theorem outsideOn_mono {k : Key} {big small : BB} {b : Box} {d : Rat} (hc : big.contains small)
    (h : outsideOn k big b d) : outsideOn k small b d := by
  obtain ⟨c1, c2, c3, c4⟩ := hc
  obtain ⟨h1, h2, h3, h4⟩ := h
  exact ⟨fun hk => by have := h1 hk; linarith, fun hk => by have := h2 hk; linarith,
    fun hk => by have := h3 hk; linarith, fun hk => by have := h4 hk; linarith⟩

/-- folding from a finite accumulator: the result bounds the start and every interval, and both ends are attained -/
theorem foldl_ext_some (l : List Iv) (a b : Rat) :
    ∃ lo hi, l.foldl Acc.ext (some (a, b)) = some (lo, hi) ∧ lo ≤ a ∧ b ≤ hi ∧
      (∀ iv ∈ l, lo ≤ iv.1 ∧ iv.2 ≤ hi) ∧
      (lo = a ∨ ∃ iv ∈ l, lo = iv.1) ∧ (hi = b ∨ ∃ iv ∈ l, hi = iv.2) := by
  induction l generalizing a b with
  | nil => exact ⟨a, b, rfl, le_refl _, le_refl _, by simp, Or.inl rfl, Or.inl rfl⟩
  | cons iv r ih =>
    obtain ⟨lo, hi, e, h1, h2, h3, h4, h5⟩ := ih (min a iv.1) (max b iv.2)
    refine ⟨lo, hi, by simpa [List.foldl, Acc.ext] using e, le_trans h1 (min_le_left _ _),
      le_trans (le_max_left _ _) h2, ?_, ?_, ?_⟩
    · intro iv' hm
      rcases List.mem_cons.mp hm with rfl | hm
      · exact ⟨le_trans h1 (min_le_right _ _), le_trans (le_max_right _ _) h2⟩
      · exact h3 iv' hm
    · rcases h4 with h4 | ⟨iv', hm, h4⟩
      · rcases min_choice a iv.1 with hc | hc
        · left; rw [h4, hc]
        · right; exact ⟨iv, List.mem_cons_self, by rw [h4, hc]⟩
      · right; exact ⟨iv', List.mem_cons_of_mem _ hm, h4⟩
    · rcases h5 with h5 | ⟨iv', hm, h5⟩
      · rcases max_choice b iv.2 with hc | hc
        · left; rw [h5, hc]
        · right; exact ⟨iv, List.mem_cons_self, by rw [h5, hc]⟩
      · right; exact ⟨iv', List.mem_cons_of_mem _ hm, h5⟩

/-- the hull of a non-empty list: a lower/upper bound of every interval, attained by some interval -/
theorem hull_spec (l : List Iv) (hne : l ≠ []) :
    (∀ iv ∈ l, (hull l).fin.1 ≤ iv.1 ∧ iv.2 ≤ (hull l).fin.2) ∧
    (∃ iv ∈ l, (hull l).fin.1 = iv.1) ∧ (∃ iv ∈ l, (hull l).fin.2 = iv.2) := by
  cases l with
  | nil => exact absurd rfl hne
  | cons iv r =>
    obtain ⟨lo, hi, e, h1, h2, h3, h4, h5⟩ := foldl_ext_some r iv.1 iv.2
    have e' : hull (iv :: r) = some (lo, hi) := by
      unfold hull; simpa [List.foldl, Acc.ext] using e
    rw [e']
    simp only [Acc.fin]
    refine ⟨?_, ?_, ?_⟩
    · intro iv' hm
      rcases List.mem_cons.mp hm with rfl | hm
      · exact ⟨h1, h2⟩
      · exact h3 iv' hm
    · rcases h4 with h4 | ⟨iv', hm, h4⟩
      · exact ⟨iv, List.mem_cons_self, h4⟩
      · exact ⟨iv', List.mem_cons_of_mem _ hm, h4⟩
    · rcases h5 with h5 | ⟨iv', hm, h5⟩
      · exact ⟨iv, List.mem_cons_self, h5⟩
      · exact ⟨iv', List.mem_cons_of_mem _ hm, h5⟩

/-- more intervals, larger hull -/
theorem hull_mono (l l' : List Iv) (hne : l ≠ []) (hsub : ∀ iv ∈ l, iv ∈ l') :
    (hull l').fin.1 ≤ (hull l).fin.1 ∧ (hull l).fin.2 ≤ (hull l').fin.2 := by
  have hne' : l' ≠ [] := by
    cases l with
    | nil => exact absurd rfl hne
    | cons iv r => intro h; have := hsub iv List.mem_cons_self; rw [h] at this; cases this
  obtain ⟨_, ⟨i1, m1, e1⟩, ⟨i2, m2, e2⟩⟩ := hull_spec l hne
  obtain ⟨b', _, _⟩ := hull_spec l' hne'
  exact ⟨by rw [e1]; exact (b' i1 (hsub i1 m1)).1, by rw [e2]; exact (b' i2 (hsub i2 m2)).2⟩

/-- every interval covers the point `c` → the hull does (or the hull is empty and `c = 0`) -/
theorem hull_covers (l : List Iv) (c : Rat) (h : ∀ iv ∈ l, iv.1 ≤ c ∧ c ≤ iv.2) (hne : l ≠ []) :
    (hull l).fin.1 ≤ c ∧ c ≤ (hull l).fin.2 := by
  obtain ⟨_, ⟨i1, m1, e1⟩, ⟨i2, m2, e2⟩⟩ := hull_spec l hne
  exact ⟨by rw [e1]; exact (h i1 m1).1, by rw [e2]; exact (h i2 m2).2⟩

/-- extra near items whose x/y contributions cover the centre of the main box -/
def coversCenter (mb : BB) (e : Item) : Prop :=
  (∀ iv ∈ e.xIvs, iv.1 ≤ (mb.x1 + mb.x2) / 2 ∧ (mb.x1 + mb.x2) / 2 ≤ iv.2) ∧
  (∀ iv ∈ e.yIvs, iv.1 ≤ (mb.y1 + mb.y2) / 2 ∧ (mb.y1 + mb.y2) / 2 ≤ iv.2)

theorem main_xIvs_ne (o : MainObj) : (Item.main o).xIvs ≠ [] := by simp [Item.xIvs]
theorem main_yIvs_ne (o : MainObj) : (Item.main o).yIvs ≠ [] := by simp [Item.yIvs]

/-- **bbox_monotone**: appending placed near shapes to `g.Objects` never shrinks the box — later placements see a
    box that contains the box of the main diagram (`main = [] → pts = []`: edges need end points). -/
theorem bbox_monotone (main : List MainObj) (pts : List (Rat × Rat)) (extra : List Item)
    (hwf : main = [] → pts = [])
    (hcov : ∀ e ∈ extra, coversCenter (mainBox main pts) e) :
    (bbox (main.map Item.main ++ extra) pts).contains (mainBox main pts) := by
  cases main with
  | nil =>
    have hp := hwf rfl
    subst hp
    have hmb : mainBox [] [] = ⟨0, 0, 0, 0⟩ := by simp [mainBox, bbox]
    rw [hmb] at hcov ⊢
    cases extra with
    | nil => simp [bbox, BB.contains]
    | cons e r =>
      simp only [bbox, List.map_nil, List.nil_append, List.isEmpty_cons, Bool.false_eq_true, if_false,
        List.append_nil, BB.contains]
      have hx : ∀ iv ∈ (e :: r).flatMap Item.xIvs, iv.1 ≤ (0:Rat) ∧ (0:Rat) ≤ iv.2 := by
        intro iv hm
        obtain ⟨it, hit, hiv⟩ := List.mem_flatMap.mp hm
        have := (hcov it hit).1 iv hiv
        simpa using this
      have hy : ∀ iv ∈ (e :: r).flatMap Item.yIvs, iv.1 ≤ (0:Rat) ∧ (0:Rat) ≤ iv.2 := by
        intro iv hm
        obtain ⟨it, hit, hiv⟩ := List.mem_flatMap.mp hm
        have := (hcov it hit).2 iv hiv
        simpa using this
      have cx : (hull ((e :: r).flatMap Item.xIvs)).fin.1 ≤ 0 ∧ 0 ≤ (hull ((e :: r).flatMap Item.xIvs)).fin.2 := by
        by_cases hne : (e :: r).flatMap Item.xIvs = []
        · rw [hne]; simp [hull, Acc.fin]
        · exact hull_covers _ 0 hx hne
      have cy : (hull ((e :: r).flatMap Item.yIvs)).fin.1 ≤ 0 ∧ 0 ≤ (hull ((e :: r).flatMap Item.yIvs)).fin.2 := by
        by_cases hne : (e :: r).flatMap Item.yIvs = []
        · rw [hne]; simp [hull, Acc.fin]
        · exact hull_covers _ 0 hy hne
      exact ⟨cx.1, cy.1, cx.2, cy.2⟩
  | cons m ms =>
    have hx0 : ((m :: ms).map Item.main).flatMap Item.xIvs ++ pts.map (fun p => (p.1, p.1)) ≠ [] := by
      simp [List.flatMap_cons, Item.xIvs]
    have hy0 : ((m :: ms).map Item.main).flatMap Item.yIvs ++ pts.map (fun p => (p.2, p.2)) ≠ [] := by
      simp [List.flatMap_cons, Item.yIvs]
    have mx := hull_mono _ ((((m :: ms).map Item.main) ++ extra).flatMap Item.xIvs ++ pts.map (fun p => (p.1, p.1))) hx0
      (by intro iv hm; simp only [List.flatMap_append, List.mem_append] at hm ⊢; tauto)
    have my := hull_mono _ ((((m :: ms).map Item.main) ++ extra).flatMap Item.yIvs ++ pts.map (fun p => (p.2, p.2))) hy0
      (by intro iv hm; simp only [List.flatMap_append, List.mem_append] at hm ⊢; tauto)
    simp only [mainBox, bbox, List.map_cons, List.cons_append, List.isEmpty_cons, Bool.false_eq_true, if_false,
      BB.contains]
    simp only [List.map_cons, List.cons_append] at mx my
    exact ⟨mx.1, my.1, mx.2, my.2⟩

/-- near shapes that contribute nothing to the y extent leave the y extent of the box exactly as it was -/
theorem bbox_y_eq (main : List MainObj) (pts : List (Rat × Rat)) (extra : List Item)
    (hwf : main = [] → pts = []) (hy : ∀ e ∈ extra, e.yIvs = []) :
    (bbox (main.map Item.main ++ extra) pts).y1 = (mainBox main pts).y1 ∧
    (bbox (main.map Item.main ++ extra) pts).y2 = (mainBox main pts).y2 := by
  have hfm : extra.flatMap Item.yIvs = [] := List.flatMap_eq_nil_iff.mpr hy
  cases main with
  | nil =>
    have hp := hwf rfl
    subst hp
    cases extra with
    | nil => simp [mainBox]
    | cons e r => simp [mainBox, bbox, hfm, hull, Acc.fin]
  | cons m ms =>
    simp [mainBox, bbox, List.flatMap_append, hfm]

def NearObj.nonneg (o : NearObj) : Prop := 0 ≤ o.w ∧ 0 ≤ o.h ∧ 0 ≤ o.lw ∧ 0 ≤ o.lh

theorem runPhase_mem {ph : Nat} {bb : BB} {nears : List NearObj} {p : Placed} (h : p ∈ runPhase ph bb nears) :
    p.obj ∈ nears ∧ p.obj.key.phase = ph ∧ p.x = (place bb p.obj).1 ∧ p.y = (place bb p.obj).2 := by
  unfold runPhase at h
  obtain ⟨o, ho, rfl⟩ := List.mem_map.mp h
  obtain ⟨hm, hph⟩ := List.mem_filter.mp ho
  exact ⟨hm, by simpa using hph, rfl, rfl⟩

theorem phase0_keys {k : Key} (h : k.phase = 0) : k.hCenter = true ∧ k.vCenter = false := by
  rw [phase_spec] at h; cases k <;> simp_all [Key.hCenter, Key.vCenter]
theorem phase1_keys {k : Key} (h : k.phase = 1) : k.hCenter = false ∧ k.vCenter = true := by
  rw [phase_spec] at h; cases k <;> simp_all [Key.hCenter, Key.vCenter]
theorem phase2_keys {k : Key} (h : k.phase = 2) : k.hCenter = false ∧ k.vCenter = false := by
  rw [phase_spec] at h; cases k <;> simp_all [Key.hCenter, Key.vCenter]

/-- **C24** for the whole of `d2near.Layout`: for every main diagram (any shapes, outside labels, routes), every list
    of near shapes with non-negative sizes, every near shape ends entirely outside the bounding box of the *main
    diagram* on its named side(s), at least `pad` away, and is centred on that box (exactly) where its position says
    center — although later phases are placed against a box that already includes the earlier near shapes. -/
theorem C24_layout (main : List MainObj) (pts : List (Rat × Rat)) (nears : List NearObj)
    (hwf : main = [] → pts = []) (hnn : ∀ o ∈ nears, o.nonneg) :
    ∀ p ∈ layout main pts nears,
      outsideOn p.obj.key (mainBox main pts) p.box pad ∧ centeredOn p.obj.key (mainBox main pts) p.box 0 := by
  -- phase 0 is placed against the main box itself
  have h0 : ∀ p ∈ runPhase 0 (bbox (main.map Item.main) pts) nears,
      (outsideOn p.obj.key (mainBox main pts) p.box pad ∧ centeredOn p.obj.key (mainBox main pts) p.box 0) ∧
      coversCenter (mainBox main pts) p.item ∧ p.item.yIvs = [] := by
    intro p hp
    obtain ⟨hm, hph, hx, hy⟩ := runPhase_mem hp
    obtain ⟨n1, n2, n3, n4⟩ := hnn _ hm
    have ho := near_outside (bbox (main.map Item.main) pts) p.obj n3 n4
    have hc := near_centered (bbox (main.map Item.main) pts) p.obj n3 n4
    have hcc := near_covers_center (bbox (main.map Item.main) pts) p.obj n1 n2 n3 n4
    rw [← hx, ← hy] at ho hc hcc
    obtain ⟨k1, k2⟩ := phase0_keys hph
    refine ⟨⟨ho, hc⟩, ⟨?_, ?_⟩, ?_⟩
    · intro iv hiv
      have : iv = (p.x, p.x + p.obj.w) := by
        simpa [Placed.item, Item.xIvs, k1] using hiv
      subst this
      exact hcc.1 k1
    · intro iv hiv
      simp [Placed.item, Item.yIvs, k2] at hiv
    · simp [Placed.item, Item.yIvs, k2]
  -- phase 1: x extent may have grown, y extent is still the main one
  have hcov0 : ∀ e ∈ (runPhase 0 (bbox (main.map Item.main) pts) nears).map Placed.item,
      coversCenter (mainBox main pts) e := by
    intro e he; obtain ⟨p, hp, rfl⟩ := List.mem_map.mp he; exact (h0 p hp).2.1
  have hy0 : ∀ e ∈ (runPhase 0 (bbox (main.map Item.main) pts) nears).map Placed.item, e.yIvs = [] := by
    intro e he; obtain ⟨p, hp, rfl⟩ := List.mem_map.mp he; exact (h0 p hp).2.2
  have hc1 := bbox_monotone main pts _ hwf hcov0
  have hye := bbox_y_eq main pts _ hwf hy0
  have h1 : ∀ p ∈ runPhase 1 (bbox (main.map Item.main ++
        (runPhase 0 (bbox (main.map Item.main) pts) nears).map Placed.item) pts) nears,
      (outsideOn p.obj.key (mainBox main pts) p.box pad ∧ centeredOn p.obj.key (mainBox main pts) p.box 0) ∧
      coversCenter (mainBox main pts) p.item := by
    intro p hp
    obtain ⟨hm, hph, hx, hy⟩ := runPhase_mem hp
    obtain ⟨n1, n2, n3, n4⟩ := hnn _ hm
    have ho := near_outside (bbox (main.map Item.main ++
        (runPhase 0 (bbox (main.map Item.main) pts) nears).map Placed.item) pts) p.obj n3 n4
    have hc := near_centered (bbox (main.map Item.main ++
        (runPhase 0 (bbox (main.map Item.main) pts) nears).map Placed.item) pts) p.obj n3 n4
    have hcc := near_covers_center (bbox (main.map Item.main ++
        (runPhase 0 (bbox (main.map Item.main) pts) nears).map Placed.item) pts) p.obj n1 n2 n3 n4
    rw [← hx, ← hy] at ho hc hcc
    obtain ⟨k1, k2⟩ := phase1_keys hph
    refine ⟨⟨outsideOn_mono hc1 ho, ?_⟩, ⟨?_, ?_⟩⟩
    · unfold centeredOn at hc ⊢
      refine ⟨fun hk => absurd hk (by simp [k1]), fun hk => ?_⟩
      have := hc.2 hk
      rw [hye.1, hye.2] at this
      exact this
    · intro iv hiv
      simp [Placed.item, Item.xIvs, k1] at hiv
    · intro iv hiv
      have : iv = (p.y, p.y + p.obj.h) := by
        simpa [Placed.item, Item.yIvs, k2] using hiv
      subst this
      have := hcc.2 k2
      rw [hye.1, hye.2] at this
      exact this
  -- phase 2: the corners only need "outside", against a box that contains the main one
  have hcov1 : ∀ e ∈ (runPhase 0 (bbox (main.map Item.main) pts) nears).map Placed.item ++
      (runPhase 1 (bbox (main.map Item.main ++
        (runPhase 0 (bbox (main.map Item.main) pts) nears).map Placed.item) pts) nears).map Placed.item,
      coversCenter (mainBox main pts) e := by
    intro e he
    rcases List.mem_append.mp he with he | he
    · exact hcov0 e he
    · obtain ⟨p, hp, rfl⟩ := List.mem_map.mp he; exact (h1 p hp).2
  have hc2 := bbox_monotone main pts _ hwf hcov1
  intro p hp
  unfold layout at hp
  simp only [List.mem_append] at hp
  rcases hp with (hp | hp) | hp
  · exact (h0 p hp).1
  · exact (h1 p hp).1
  · obtain ⟨hm, hph, hx, hy⟩ := runPhase_mem hp
    obtain ⟨n1, n2, n3, n4⟩ := hnn _ hm
    have ho := near_outside (bbox (main.map Item.main ++
        (runPhase 0 (bbox (main.map Item.main) pts) nears).map Placed.item ++
        (runPhase 1 (bbox (main.map Item.main ++
          (runPhase 0 (bbox (main.map Item.main) pts) nears).map Placed.item) pts) nears).map Placed.item) pts) p.obj n3 n4
    rw [← hx, ← hy] at ho
    obtain ⟨k1, k2⟩ := phase2_keys hph
    rw [List.append_assoc] at ho
    refine ⟨outsideOn_mono hc2 ho, ?_⟩
    unfold centeredOn
    exact ⟨fun hk => absurd hk (by simp [k1]), fun hk => absurd hk (by simp [k2])⟩

/-- every near shape whose key is in one of the three sets is placed (none is forgotten) -/
theorem layout_places_all (main : List MainObj) (pts : List (Rat × Rat)) (nears : List NearObj) :
    ∀ o ∈ nears, ∃ p ∈ layout main pts nears, p.obj = o := by
  intro o ho
  have hph : o.key.phase = 0 ∨ o.key.phase = 1 ∨ o.key.phase = 2 := by
    rw [phase_spec]; cases o.key <;> simp [Key.hCenter, Key.vCenter]
  unfold layout
  simp only [List.mem_append]
  rcases hph with h | h | h
  · exact ⟨_, Or.inl (Or.inl (List.mem_map.mpr ⟨o, List.mem_filter.mpr ⟨ho, by simp [h]⟩, rfl⟩)), rfl⟩
  · exact ⟨_, Or.inl (Or.inr (List.mem_map.mpr ⟨o, List.mem_filter.mpr ⟨ho, by simp [h]⟩, rfl⟩)), rfl⟩
  · exact ⟨_, Or.inr (List.mem_map.mpr ⟨o, List.mem_filter.mpr ⟨ho, by simp [h]⟩, rfl⟩), rfl⟩

/-- Non-vacuity: the hypotheses of `C24_layout` are met by a 100×60 main shape at the origin, a 40×20 `top-center`
    title and a 30×30 `bottom-right` legend whose label sits outside on top. -/
example : ∀ p ∈ layout [⟨⟨0, 0, 100, 60⟩, false, none, 0, 0⟩] []
      [⟨0, .bottomRight, 30, 30, some "OUTSIDE_TOP_CENTER", 20, 10⟩, ⟨1, .topCenter, 40, 20, none, 0, 0⟩],
    outsideOn p.obj.key (mainBox [⟨⟨0, 0, 100, 60⟩, false, none, 0, 0⟩] []) p.box pad :=
  fun p hp => (C24_layout _ _ _ (by simp) (by
    intro o ho
    simp only [List.mem_cons, List.not_mem_nil, or_false] at ho
    rcases ho with rfl | rfl <;> (unfold NearObj.nonneg; norm_num)) p hp).1

end D2V.Near
