import D2V.Model.LaySpec
import Mathlib.Tactic.Linarith
import Mathlib.Tactic.NormNum
/-! C19 — Containers enclose their children; siblings do not overlap.

  The placements themselves come from dagre.js / elk.js (outside any Lean model): the property is decided by
  evaluating `Spec.encloses` / `Spec.disjoint1px` on every laid-out diagram (Drv/C19.lean).  What is proved here
  is what makes that evaluation meaningful and what the Go glue relies on: the predicates are symmetric /
  transitive as expected, and they are invariant under the translations the Go side applies after a nested
  layout (`PositionNested`, `d2near.Layout`'s shift, `sequenceDiagram.shift`, `InjectNestedGraph`), so a nested
  diagram that satisfied them in its own coordinates still does after being placed. -/
namespace D2V.Lay

theorem disjoint_symm (tol : Rat) (a b : Box) : disjointTol tol a b ↔ disjointTol tol b a := by
  unfold disjointTol
  constructor <;> (intro h; rcases h with h | h | h | h <;> simp [h])

theorem disjoint1px_symm (a b : Box) : disjoint1px a b ↔ disjoint1px b a := disjoint_symm px a b

/-- containment composes; tolerances add -/
theorem encloses_trans (t1 t2 : Rat) (a b c : Box) (h1 : encloses t1 a b) (h2 : encloses t2 b c) :
    encloses (t1 + t2) a c := by
  unfold encloses Box.right Box.bottom at *
  obtain ⟨h11, h12, h13, h14⟩ := h1
  obtain ⟨h21, h22, h23, h24⟩ := h2
  refine ⟨by linarith, by linarith, by linarith, by linarith⟩

/-- exact containment (tolerance 0) is transitive -/
theorem encloses_trans0 (a b c : Box) (h1 : encloses 0 a b) (h2 : encloses 0 b c) : encloses 0 a c := by
  have := encloses_trans 0 0 a b c h1 h2
  simpa using this

theorem encloses_refl (tol : Rat) (ht : 0 ≤ tol) (a : Box) : encloses tol a a := by
  unfold encloses Box.right Box.bottom
  refine ⟨by linarith, by linarith, by linarith, by linarith⟩

/-- a larger tolerance accepts more -/
theorem encloses_mono (t1 t2 : Rat) (h : t1 ≤ t2) (a b : Box) (h1 : encloses t1 a b) : encloses t2 a b := by
  unfold encloses at *
  obtain ⟨h11, h12, h13, h14⟩ := h1
  refine ⟨by linarith, by linarith, by linarith, by linarith⟩

/-- `PositionNested` / `shift`: moving container and child by the same vector keeps containment -/
theorem translate_preserves_containment (tol dx dy : Rat) (a b : Box) :
    encloses tol (a.translate dx dy) (b.translate dx dy) ↔ encloses tol a b := by
  unfold encloses Box.translate Box.right Box.bottom
  simp only
  constructor <;> (intro h; obtain ⟨h1, h2, h3, h4⟩ := h; refine ⟨by linarith, by linarith, by linarith, by linarith⟩)

/-- … and keeps siblings apart -/
theorem translate_preserves_disjoint (tol dx dy : Rat) (a b : Box) :
    disjointTol tol (a.translate dx dy) (b.translate dx dy) ↔ disjointTol tol a b := by
  unfold disjointTol Box.translate Box.right Box.bottom
  simp only
  constructor <;>
    (intro h
     rcases h with h | h | h | h
     · exact Or.inl (by linarith)
     · exact Or.inr (Or.inl (by linarith))
     · exact Or.inr (Or.inr (Or.inl (by linarith)))
     · exact Or.inr (Or.inr (Or.inr (by linarith))))

/-- two children that are apart stay apart from anything enclosed in them: nested contents of sibling
    containers cannot overlap when the containers do not (exact version) -/
theorem disjoint_of_enclosed (a b a' b' : Box) (hd : disjointTol 0 a b) (ha : encloses 0 a a') (hb : encloses 0 b b') :
    disjointTol 0 a' b' := by
  unfold disjointTol encloses Box.right Box.bottom at *
  obtain ⟨ha1, ha2, ha3, ha4⟩ := ha
  obtain ⟨hb1, hb2, hb3, hb4⟩ := hb
  rcases hd with h | h | h | h
  · exact Or.inl (by linarith)
  · exact Or.inr (Or.inl (by linarith))
  · exact Or.inr (Or.inr (Or.inl (by linarith)))
  · exact Or.inr (Or.inr (Or.inr (by linarith)))

/-- `FitToGraph` with zero padding sizes the container to the nested bounding box: every nested box that lies in
    the bounding box `[0,w]×[0,h]` lies in the container placed at `(x, y)` once moved by `(x, y)` -/
theorem fit_then_position (x y w h : Rat) (b : Box) (hb : encloses 0 ⟨0, 0, w, h⟩ b) :
    encloses 0 ⟨x, y, w, h⟩ (b.translate x y) := by
  unfold encloses Box.translate Box.right Box.bottom at *
  simp only at *
  obtain ⟨h1, h2, h3, h4⟩ := hb
  refine ⟨by linarith, by linarith, by linarith, by linarith⟩

/-- an overlap of more than a pixel in both axes is what the Spec reports -/
theorem not_disjoint_iff (a b : Box) :
    ¬ disjoint1px a b ↔ (b.x + 1 < a.right ∧ a.x + 1 < b.right ∧ b.y + 1 < a.bottom ∧ a.y + 1 < b.bottom) := by
  unfold disjoint1px disjointTol px
  constructor
  · intro h
    refine ⟨?_, ?_, ?_, ?_⟩ <;> (apply lt_of_not_ge; intro hh; apply h; simp [hh])
  · intro ⟨h1, h2, h3, h4⟩ h
    rcases h with h | h | h | h <;> linarith

example : disjoint1px ⟨0, 0, 10, 10⟩ ⟨10, 0, 10, 10⟩ := by
  unfold disjoint1px disjointTol px Box.right Box.bottom; norm_num
example : ¬ disjoint1px ⟨0, 0, 10, 10⟩ ⟨5, 5, 10, 10⟩ := by
  unfold disjoint1px disjointTol px Box.right Box.bottom; norm_num
example : encloses1px ⟨0, 0, 100, 100⟩ ⟨10, 10, 20, 20⟩ := by
  unfold encloses1px encloses px Box.right Box.bottom; norm_num

/-! #### witnesses of the open findings (replayed on d2 through d2lib.Compile) -/

/-- `x; a: {near: top-right}; b: {near: top-right}`: both constant-near shapes get the same box -/
theorem C19_cx_same_near_constant : ¬ disjoint1px ⟨73, -86, 53, 66⟩ ⟨73, -86, 53, 66⟩ := by
  unfold disjoint1px disjointTol px Box.right Box.bottom; norm_num

/-- dagre, a leaf with `label.near: center-right` next to a container: child `n1.n2` is laid 158 px to the left of
    its container `n1` -/
theorem C19_cx_dagre_child_outside : ¬ encloses1px ⟨244, 307, 432, 126⟩ ⟨86, 337, 62, 66⟩ := by
  unfold encloses1px encloses px Box.right Box.bottom; norm_num

/-- dagre, `direction: left; a: {b: {c}}; f: {g; h}; a.b -> f`: `f.g` starts 6 px above the top of its
    container `f` (horizontal directions only) -/
theorem C19_cx_dagre_horizontal_child_above : ¬ encloses1px ⟨20, 46, 114, 272⟩ ⟨50, 40, 54, 66⟩ := by
  unfold encloses1px encloses px Box.right Box.bottom; norm_num

/-- ELK, `n1: {label: "the quick brown fox jumps"; label.near: outside-right-center; n4; n5: {width: 325}}`:
    `n1.n4` starts 27 px left of its container -/
theorem C19_cx_elk_child_outside : ¬ encloses1px ⟨12, 12, 354, 166⟩ ⟨-15, 62, 63, 66⟩ := by
  unfold encloses1px encloses px Box.right Box.bottom; norm_num

/-- dagre with positioned labels: container `n2` is widened over its neighbour `n4` -/
theorem C19_cx_dagre_spacing_overlap : ¬ disjoint1px ⟨112, 4, 491, 329⟩ ⟨455, 50, 63, 66⟩ := by
  unfold disjoint1px disjointTol px Box.right Box.bottom; norm_num

/-- dagre, `direction: left`, nested containers: `n1.n2` starts 11 px above its container `n1` -/
theorem C19_cx_dagre_horizontal_child_above_nested : ¬ encloses1px ⟨40, 128, 607, 312⟩ ⟨70, 117, 122, 293⟩ := by
  unfold encloses1px encloses px Box.right Box.bottom; norm_num

end D2V.Lay
