import D2V.Model.Edit
import D2V.Proofs.EditPaths
/-!
  C39 — Rename and Move relocate objects without losing anything (abstract semantics `Edit.Spec`).
  `moveWith`    = Rename / same-scope Move / Move(includeDescendants = true)
  `moveWithout` = cross-scope Move(includeDescendants = false)
  The clauses evaluated by the driver on the real before/after pair are `moveClauses` (elements matched by label);
  `moveClauses_spec_*` below show on witnesses that the abstract semantics satisfies them.
-/
namespace D2V.Edit

/-- what an element carries besides its ID -/
def Obj.content (o : Obj) : String × Attrs := (o.label, o.attrs)
def Edge.content (e : Edge) : String × Attrs × Bool × Bool × Nat := (e.label, e.attrs, e.sa, e.da, e.idx)

/-- **nothing is lost, nothing is added, labels / attributes / arrows / indices are kept** (in the same order) -/
theorem rename_move_preserve_elements (d : Diagram) (x n : Path) (ren : List (String × String)) :
    (Spec.moveWith d x n).objs.map Obj.content = d.objs.map Obj.content ∧
    (Spec.moveWith d x n).edges.map Edge.content = d.edges.map Edge.content ∧
    (Spec.moveWithout d x n ren).objs.map Obj.content = d.objs.map Obj.content ∧
    (Spec.moveWithout d x n ren).edges.map Edge.content = d.edges.map Edge.content := by
  simp [Spec.moveWith, Spec.moveWithout, Spec.applyMap, List.map_map, Function.comp_def, Obj.content, Edge.content,
    Obj.mapPath, Edge.mapPaths, filter_const_true]

/-- **only the moved object and what lies below it change ID** -/
theorem move_only_moved_ids_change (d : Diagram) (x n : Path) (ren : List (String × String)) (o : Obj) (ho : o ∈ d.objs)
    (hout : isPre x o.path = false) :
    o ∈ (Spec.moveWith d x n).objs ∧ o ∈ (Spec.moveWithout d x n ren).objs := by
  constructor
  · simp only [Spec.moveWith, Spec.applyMap, filter_const_true, List.mem_map]
    exact ⟨o, by simpa using ho, by simp [Obj.mapPath, reroot_outside x n o.path hout]⟩
  · simp only [Spec.moveWithout, Spec.applyMap, filter_const_true, List.mem_map]
    exact ⟨o, by simpa using ho, by simp [Obj.mapPath, moveWithoutPath_outside x n ren o.path hout]⟩

/-- with descendants: everything below `x` follows to `n`, keeping its relative path -/
theorem move_descendants_follow (x n p : Path) (h : isPre x p = true) : reroot x n p = n ++ p.drop x.length :=
  reroot_inside x n p h

/-- without descendants: what was below `x` stays in `x`'s former parent (path below the child unchanged) -/
theorem move_children_stay (x n : Path) (ren : List (String × String)) (p : Path) (h : isUnder x p = true)
    (hne : samePath p x = false) :
    ∃ c rest, p.drop x.length = c :: rest ∧ Spec.moveWithoutPath x n ren p = x.dropLast ++ renOf ren c :: rest := by
  rcases hoist_inside x ren p h with ⟨c, rest, hd, hh⟩
  exact ⟨c, rest, hd, by simp [Spec.moveWithoutPath, hne, hh]⟩

/-- **connections stay attached to the same objects**: an endpoint that named object `o` before names the image of
    `o` afterwards (endpoints and objects are rewritten by the same path function) -/
theorem edges_stay_attached (x n : Path) (ren : List (String × String)) (e : Edge) (o : Obj)
    (hs : e.src = o.path) :
    (e.mapPaths (reroot x n)).src = (o.mapPath (reroot x n)).path ∧
    (e.mapPaths (Spec.moveWithoutPath x n ren)).src = (o.mapPath (Spec.moveWithoutPath x n ren)).path := by
  simp [Edge.mapPaths, Obj.mapPath, hs]

theorem edges_stay_attached_dst (x n : Path) (ren : List (String × String)) (e : Edge) (o : Obj) (hs : e.dst = o.path) :
    (e.mapPaths (reroot x n)).dst = (o.mapPath (reroot x n)).path ∧
    (e.mapPaths (Spec.moveWithoutPath x n ren)).dst = (o.mapPath (Spec.moveWithoutPath x n ren)).path := by
  simp [Edge.mapPaths, Obj.mapPath, hs]

/-! the driver's clauses hold of the abstract semantics on witnesses (non-vacuity of `moveClauses`) -/

def exD : Diagram :=
  { objs := [⟨["a"], "L1", []⟩, ⟨["a", "b"], "L2", [("shape", "circle")]⟩, ⟨["a", "b", "c"], "L3", []⟩, ⟨["d"], "L4", []⟩],
    edges := [⟨["a", "b"], ["d"], false, true, 0, "E1", []⟩, ⟨["a", "b", "c"], ["a"], false, true, 0, "E2", []⟩] }

example : allHold (moveClauses exD (Spec.moveWith exD ["a", "b"] ["d", "b"]) ["a", "b"] ["d"] true) = true := by decide
example : allHold (moveClauses exD (Spec.moveWithout exD ["a", "b"] ["d", "b"] []) ["a", "b"] ["d"] false) = true := by decide
example : allHold (moveClauses exD (Spec.moveWith exD ["a", "b"] ["a", "z"]) ["a", "b"] ["a"] true) = true := by decide

/-- the defect class C39-move-into-own-descendant on its witness: `e: L1`, Move("e" → "e.e") returns a diagram
    without the object; the property predicate rejects it -/
theorem C39_cx_move_into_own_descendant :
    firstFailing (moveClauses ⟨[⟨["e"], "L1", []⟩], []⟩ ⟨[], []⟩ ["e"] ["e"] false) = some "move-lost-moved-object" := by
  decide

/-- the defect class C39-move-on-dotted-keys-corrupts on its witness: `a: L1 {x: L91}; a.d: L5`, Move("a.d" → "a.x.d")
    returns a: L5, a.x: L91, a.x.d: d -/
theorem C39_cx_dotted_move_overwrites_label :
    firstFailing (moveClauses
      ⟨[⟨["a"], "L1", []⟩, ⟨["a", "x"], "L91", []⟩, ⟨["a", "d"], "L5", []⟩], []⟩
      ⟨[⟨["a"], "L5", []⟩, ⟨["a", "x"], "L91", []⟩, ⟨["a", "x", "d"], "d", []⟩], []⟩ ["a", "d"] ["a", "x"] false)
      = some "move-wrong-destination-parent" := by
  decide

end D2V.Edit
