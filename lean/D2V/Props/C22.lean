import D2V.Model.Grid
import D2V.Proofs.GridLines
import D2V.Proofs.GridDynamic
import D2V.Proofs.GridMargin
import Mathlib.Tactic.Linarith
import Mathlib.Tactic.NormNum
/-! C22 — Grid cells follow declaration order, align, keep gaps, never overlap.

  All statements are about *slots* (box + `GetMargin`, what `layoutEvenly`/`layoutDynamic` place), in line
  coordinates (`m` along the line = x for a row-directed grid, `c` across); `revert_slot_invariant` ties the final
  box to its slot.  Sizes and gaps are arbitrary non-negative rationals, the number of cells is arbitrary. -/
namespace D2V.Grid

/-! ### newGridDiagram: every cell gets a slot -/

theorem growTo_ok (b n : Nat) (hb : 1 ≤ b) : ∀ (f a : Nat), n ≤ a * b + f → n ≤ growTo a b n f * b := by
  intro f
  induction f with
  | zero => intro a h; simpa [growTo] using h
  | succ f ih =>
    intro a h
    unfold growTo
    split
    · apply ih
      have : (a + 1) * b = a * b + b := by rw [Nat.add_mul, Nat.one_mul]
      omega
    · omega

/-- **capacity_ok**: when both `grid-rows` and `grid-columns` are given, the grown table has room for every cell -/
theorem capacity_ok (rowsA colsA n : Nat) (rf : Bool) (hr : rowsA ≠ 0) (hc : colsA ≠ 0) :
    n ≤ (derive rowsA colsA rf n).rows * (derive rowsA colsA rf n).cols := by
  unfold derive
  simp only [hr, hc, ne_eq, not_false_eq_true, and_self, if_true]
  cases rf
  · simp only [Bool.false_eq_true, if_false]
    have := growTo_ok rowsA n (Nat.one_le_iff_ne_zero.mpr hr) n colsA (by omega)
    rw [Nat.mul_comm]; exact this
  · simp only [if_true]
    exact growTo_ok colsA n (Nat.one_le_iff_ne_zero.mpr hc) n rowsA (by omega)

/-- the direction is the one of the keyword that comes first, and the other dimension is the one that grows -/
theorem derive_direction (rowsA colsA n : Nat) (rf : Bool) (hr : rowsA ≠ 0) (hc : colsA ≠ 0) :
    (derive rowsA colsA rf n).rowDirected = rf ∧
    (rf = true → (derive rowsA colsA rf n).cols = colsA) ∧ (rf = false → (derive rowsA colsA rf n).rows = rowsA) := by
  unfold derive
  simp only [hr, hc, ne_eq, not_false_eq_true, and_self, if_true]
  cases rf <;> simp

/-! ### chunks: the lines of an even grid are consecutive runs of the declared cells -/

theorem chunks_flatten {α : Type} (L : Nat) (_hL : 1 ≤ L) : ∀ (f : Nat) (l : List α), l.length ≤ f → (chunks L f l).flatten = l := by
  intro f
  induction f with
  | zero => intro l h; have : l = [] := List.length_eq_zero_iff.mp (by omega); subst this; rfl
  | succ f ih =>
    intro l h
    cases l with
    | nil => rfl
    | cons a r =>
      simp only [chunks, List.flatten_cons]
      rw [ih]
      · exact List.take_append_drop L (a :: r)
      · simp only [List.length_drop, List.length_cons] at h ⊢; omega

theorem chunks_count {α : Type} (L : Nat) (_hL : 1 ≤ L) : ∀ (f : Nat) (l : List α) (R : Nat), l.length ≤ R * L → (chunks L f l).length ≤ R := by
  intro f
  induction f with
  | zero => intro l R _; simp [chunks]
  | succ f ih =>
    intro l R h
    cases l with
    | nil => simp [chunks]
    | cons a r =>
      simp only [chunks, List.length_cons]
      cases R with
      | zero => simp at h
      | succ R =>
        have := ih ((a :: r).drop L) R (by
          simp only [List.length_drop, List.length_cons] at h ⊢
          have : (R + 1) * L = R * L + L := by rw [Nat.add_mul, Nat.one_mul]
          omega)
        omega

theorem chunks_len_le {α : Type} (L : Nat) : ∀ (f : Nat) (l : List α), ∀ c ∈ chunks L f l, c.length ≤ L := by
  intro f
  induction f with
  | zero => intro l c hc; simp [chunks] at hc
  | succ f ih =>
    intro l c hc
    cases l with
    | nil => simp [chunks] at hc
    | cons a r =>
      simp only [chunks, List.mem_cons] at hc
      rcases hc with rfl | hc
      · simp only [List.length_take]; omega
      · exact ih _ c hc

/-! ### layoutEvenly -/

theorem zipMax_length (a b : List Rat) : (zipMax a b).length = max a.length b.length := by
  induction a generalizing b with
  | nil => simp [zipMax]
  | cons x xs ih =>
    cases b with
    | nil => simp [zipMax]
    | cons y ys => simp only [zipMax, List.length_cons, ih]; omega

theorem zipMax_nonneg (a b : List Rat) (ha : ∀ x ∈ a, 0 ≤ x) (hb : ∀ x ∈ b, 0 ≤ x) : ∀ x ∈ zipMax a b, 0 ≤ x := by
  induction a generalizing b with
  | nil => simpa [zipMax] using hb
  | cons x xs ih =>
    cases b with
    | nil => simpa [zipMax] using ha
    | cons y ys =>
      intro z hz
      simp only [zipMax, List.mem_cons] at hz
      rcases hz with rfl | hz
      · exact le_trans (ha x List.mem_cons_self) (le_max_left _ _)
      · exact ih ys (fun t ht => ha t (List.mem_cons_of_mem _ ht)) (fun t ht => hb t (List.mem_cons_of_mem _ ht)) z hz

theorem posMax_spec (L : Nat) (lines : List (List Sz)) (hnn : ∀ l ∈ lines, ∀ s ∈ l, 0 ≤ s.m) :
    L ≤ (posMax L lines).length ∧ (∀ l ∈ lines, l.length ≤ (posMax L lines).length) ∧ ∀ x ∈ posMax L lines, 0 ≤ x := by
  unfold posMax
  suffices h : ∀ (acc : List Rat), (∀ x ∈ acc, 0 ≤ x) →
      acc.length ≤ (lines.foldl (fun acc l => zipMax acc (l.map (·.m))) acc).length ∧
      (∀ l ∈ lines, l.length ≤ (lines.foldl (fun acc l => zipMax acc (l.map (·.m))) acc).length) ∧
      ∀ x ∈ lines.foldl (fun acc l => zipMax acc (l.map (·.m))) acc, 0 ≤ x by
    have := h (List.replicate L 0) (by intro x hx; exact (List.mem_replicate.mp hx).2 ▸ le_refl (0 : Rat))
    simpa using this
  induction lines with
  | nil => intro acc hacc; simpa using hacc
  | cons l r ih =>
    intro acc hacc
    simp only [List.foldl_cons]
    have hz := zipMax_nonneg acc (l.map (·.m)) hacc (by
      intro x hx; obtain ⟨s, hs, rfl⟩ := List.mem_map.mp hx; exact hnn l List.mem_cons_self s hs)
    obtain ⟨h1, h2, h3⟩ := ih (fun l' hl' => hnn l' (List.mem_cons_of_mem _ hl')) (zipMax acc (l.map (·.m))) hz
    have hl := zipMax_length acc (l.map (·.m))
    simp only [List.length_map] at hl
    refine ⟨by omega, ?_, h3⟩
    intro l' hl'
    rcases List.mem_cons.mp hl' with rfl | hl'
    · omega
    · exact h2 l' hl'

/-- the lines `layoutEvenly` visits, resized to the column widths -/
def evenSized (cells : List Sz) (L R : Nat) : List (List Sz) :=
  let placed := (chunks L cells.length cells).take R
  placed.map fun l => l.zipWith (fun s m => (⟨m, s.c⟩ : Sz)) (posMax L placed)

theorem evenly_lines (cells : List Sz) (L R : Nat) (gm gc : Rat) :
    (evenly cells L R gm gc).lines = placeLines gm gc (evenSized cells L R) 0 := rfl

theorem evenSized_nonneg (cells : List Sz) (L R : Nat) (hnn : ∀ s ∈ cells, 0 ≤ s.m) :
    ∀ l ∈ evenSized cells L R, ∀ s ∈ l, 0 ≤ s.m := by
  intro l hl s hs
  unfold evenSized at hl
  simp only [List.mem_map] at hl
  obtain ⟨l0, hl0, rfl⟩ := hl
  have hsub : ∀ l' ∈ (chunks L cells.length cells).take R, ∀ s ∈ l', 0 ≤ s.m := by
    intro l' hl' s hs
    by_cases hL : 1 ≤ L
    · have hfl := chunks_flatten L hL cells.length cells (le_refl _)
      apply hnn
      rw [← hfl]
      exact List.mem_flatten.mpr ⟨l', List.mem_of_mem_take hl', hs⟩
    · have hL0 : L = 0 := by omega
      subst hL0
      -- with L = 0 every chunk is empty
      have := chunks_len_le 0 cells.length cells l' (List.mem_of_mem_take hl')
      have : l' = [] := List.length_eq_zero_iff.mp (by omega)
      subst this; simp at hs
  obtain ⟨_, _, h3⟩ := posMax_spec L _ hsub
  obtain ⟨i, hi, rfl⟩ := List.mem_iff_getElem.mp hs
  simp only [List.getElem_zipWith]
  exact h3 _ (List.getElem_mem _)

/-- **evenly_order + evenly_no_overlap + gaps**: listing the slots in declaration order, every later slot is either
    further along the same line by at least the gap (same cross position and size), or in a later line, beyond the
    earlier slot's line by at least the cross gap. -/
theorem evenly_sep (cells : List Sz) (L R : Nat) (gm gc : Rat) (hnn : ∀ s ∈ cells, 0 ≤ s.m) (hg : 0 ≤ gm) (hgc : 0 ≤ gc) :
    (evenly cells L R gm gc).lines.flatten.Pairwise (sep gm gc) := by
  rw [evenly_lines]
  exact placeLines_sep (evenSized_nonneg cells L R hnn) hg hgc

/-- **evenly_order (shape)**: the placed lines have exactly the lengths of the consecutive chunks of the declared
    cells, and with sufficient capacity (`capacity_ok`) no cell is left unplaced -/
theorem evenly_shape (cells : List Sz) (L R : Nat) (gm gc : Rat) :
    (evenly cells L R gm gc).lines.map List.length = ((chunks L cells.length cells).take R).map List.length := by
  rw [evenly_lines, placeLines_length]
  unfold evenSized
  simp only [List.map_map]
  apply List.map_congr_left
  intro l hl
  simp only [Function.comp, List.length_zipWith]
  have hc := chunks_len_le L cells.length cells l (List.mem_of_mem_take hl)
  -- posMax is at least L long
  have : L ≤ (posMax L ((chunks L cells.length cells).take R)).length := by
    unfold posMax
    generalize (chunks L cells.length cells).take R = ls
    suffices h : ∀ acc : List Rat, acc.length ≤ (ls.foldl (fun acc l => zipMax acc (l.map (·.m))) acc).length by
      simpa using h (List.replicate L 0)
    induction ls with
    | nil => intro acc; simp
    | cons l' r ih =>
      intro acc
      simp only [List.foldl_cons]
      have := ih (zipMax acc (l'.map (·.m)))
      have h2 := zipMax_length acc (l'.map (·.m))
      omega
  omega

theorem evenly_all_placed (cells : List Sz) (L R : Nat) (gm gc : Rat) (hL : 1 ≤ L) (hcap : cells.length ≤ R * L) :
    (evenly cells L R gm gc).rest = [] ∧
    ((evenly cells L R gm gc).lines.map List.length).sum = cells.length := by
  have hcount := chunks_count L hL cells.length cells R hcap
  constructor
  · unfold evenly
    simp only
    rw [List.drop_eq_nil_of_le hcount]
    rfl
  · rw [evenly_shape, List.take_of_length_le hcount]
    have := chunks_flatten L hL cells.length cells (le_refl _)
    conv_rhs => rw [← this]
    rw [List.length_flatten]

/-- **evenly_gaps_exact**: neighbours in a line are exactly one gap apart -/
theorem evenly_gaps_exact (cells : List Sz) (L R : Nat) (gm gc : Rat) (pl : List B)
    (hpl : pl ∈ (evenly cells L R gm gc).lines) (k : Nat) (a b : B) (ha : pl[k]? = some a) (hb : pl[k + 1]? = some b) :
    b.m = a.m + a.ms + gm := by
  rw [evenly_lines] at hpl
  generalize evenSized cells L R = lines at hpl
  generalize (0 : Rat) = cur at hpl
  induction lines generalizing cur with
  | nil => simp [placeLines] at hpl
  | cons l r ih =>
    simp only [placeLines, List.mem_cons] at hpl
    rcases hpl with rfl | hpl
    · exact placeLine_exact k a b ha hb
    · exact ih _ hpl

/-- all slots of a line share cross position and cross size (rows: same y and height) -/
theorem placeLines_line_uniform {gm gc : Rat} {lines : List (List Sz)} {cur : Rat} {pl : List B}
    (hpl : pl ∈ placeLines gm gc lines cur) : ∀ a ∈ pl, ∀ b ∈ pl, a.c = b.c ∧ a.cs = b.cs := by
  induction lines generalizing cur with
  | nil => simp [placeLines] at hpl
  | cons l r ih =>
    simp only [placeLines, List.mem_cons] at hpl
    rcases hpl with rfl | hpl
    · intro a ha b hb
      -- membership alone gives c and cs (no sign condition needed): re-prove without the bound
      have key : ∀ (line : List Sz) (c cs cur' : Rat) (x : B), x ∈ placeLine gm c cs line cur' → x.c = c ∧ x.cs = cs := by
        intro line
        induction line with
        | nil => intro c cs cur' x hx; simp [placeLine] at hx
        | cons s t iht =>
          intro c cs cur' x hx
          simp only [placeLine, List.mem_cons] at hx
          rcases hx with rfl | hx
          · exact ⟨rfl, rfl⟩
          · exact iht c cs _ x hx
      have h1 := key l cur (lineCross l) 0 a ha
      have h2 := key l cur (lineCross l) 0 b hb
      exact ⟨by rw [h1.1, h2.1], by rw [h1.2, h2.2]⟩
    · exact ih hpl

theorem prefixPos_take (gm : Rat) : ∀ (ws : List Rat) (k j : Nat) (cur : Rat), j ≤ k →
    prefixPos gm (ws.take k) j cur = prefixPos gm ws j cur := by
  intro ws
  induction ws with
  | nil => intro k j cur _; simp
  | cons w r ih =>
    intro k j cur h
    cases j with
    | zero => simp [prefixPos]
    | succ j =>
      cases k with
      | zero => omega
      | succ k => simp only [List.take_succ_cons, prefixPos]; exact ih k j _ (by omega)

/-- **evenly_uniform_rows_cols**: every slot of a line has the same cross position and size, and the `j`-th slots of
    any two lines have the same position and size along the line (row-directed: same y/height in a row, same
    x/width in a column; column-directed: the transpose). -/
theorem evenly_uniform_rows_cols (cells : List Sz) (L R : Nat) (gm gc : Rat) :
    (∀ pl ∈ (evenly cells L R gm gc).lines, ∀ a ∈ pl, ∀ b ∈ pl, a.c = b.c ∧ a.cs = b.cs) ∧
    (∀ pl1 ∈ (evenly cells L R gm gc).lines, ∀ pl2 ∈ (evenly cells L R gm gc).lines,
      ∀ (j : Nat) (a b : B), pl1[j]? = some a → pl2[j]? = some b → a.m = b.m ∧ a.ms = b.ms) := by
  constructor
  · intro pl hpl; rw [evenly_lines] at hpl; exact placeLines_line_uniform hpl
  · -- both depend only on the common column widths
    have key : ∀ pl ∈ (evenly cells L R gm gc).lines, ∀ (j : Nat) (a : B), pl[j]? = some a →
        a.m = prefixPos gm (posMax L ((chunks L cells.length cells).take R)) j 0 ∧
        (posMax L ((chunks L cells.length cells).take R))[j]? = some a.ms := by
      intro pl hpl j a ha
      rw [evenly_lines] at hpl
      have := placeLines_mem_form hpl
      obtain ⟨l, hl, c, rfl⟩ := this
      obtain ⟨h1, h2⟩ := placeLine_get j a ha
      unfold evenSized at hl
      simp only [List.mem_map] at hl
      obtain ⟨l0, hl0, rfl⟩ := hl
      have hmap := zipWith_setM_map l0 (posMax L ((chunks L cells.length cells).take R))
      rw [hmap] at h1 h2
      have hj : j < l0.length := by
        have := List.getElem?_eq_some_iff.mp ha
        obtain ⟨hlt, _⟩ := this
        simpa [placeLine_length, List.length_zipWith] using (lt_of_lt_of_le hlt (by
          simp [placeLine_length, List.length_zipWith]))
      rw [prefixPos_take gm _ _ _ _ (le_of_lt hj)] at h1
      rw [List.getElem?_take_of_lt hj] at h2
      exact ⟨h1, h2⟩
    intro pl1 h1 pl2 h2 j a b ha hb
    obtain ⟨a1, a2⟩ := key pl1 h1 j a ha
    obtain ⟨b1, b2⟩ := key pl2 h2 j b hb
    exact ⟨by rw [a1, b1], by rw [a2] at b2; exact (Option.some.inj b2)⟩

theorem placed_nonneg (cells : List Sz) (L R : Nat) (hnn : ∀ s ∈ cells, 0 ≤ s.m) :
    ∀ l' ∈ (chunks L cells.length cells).take R, ∀ s ∈ l', 0 ≤ s.m := by
  intro l' hl' s hs
  by_cases hL : 1 ≤ L
  · have hfl := chunks_flatten L hL cells.length cells (le_refl _)
    apply hnn
    rw [← hfl]
    exact List.mem_flatten.mpr ⟨l', List.mem_of_mem_take hl', hs⟩
  · have hL0 : L = 0 := by omega
    subst hL0
    have := chunks_len_le 0 cells.length cells l' (List.mem_of_mem_take hl')
    have : l' = [] := List.length_eq_zero_iff.mp (by omega)
    subst this; simp at hs

theorem lineCross_zipWith (l0 : List Sz) (cm : List Rat) (h : l0.length ≤ cm.length) :
    lineCross (l0.zipWith (fun s m => (⟨m, s.c⟩ : Sz)) cm) = lineCross l0 := by
  unfold lineCross
  suffices hx : ∀ x : Rat, (l0.zipWith (fun s m => (⟨m, s.c⟩ : Sz)) cm).foldl (fun m s => max m s.c) x
      = l0.foldl (fun m s => max m s.c) x from hx 0
  induction l0 generalizing cm with
  | nil => intro x; simp
  | cons s t ih =>
    cases cm with
    | nil => simp at h
    | cons w ws =>
      intro x
      simp only [List.zipWith_cons_cons, List.foldl_cons]
      exact ih ws (by simpa using h) _

/-- **evenly_inside**: every slot lies inside the content box `[0, mainLen] × [0, crossLen]` (= `gd.width × gd.height`,
    which `Layout` pads to obtain the container) -/
theorem evenly_inside (cells : List Sz) (L R : Nat) (gm gc : Rat) (hnn : ∀ s ∈ cells, 0 ≤ s.m) (hg : 0 ≤ gm) (hgc : 0 ≤ gc) :
    ∀ pl ∈ (evenly cells L R gm gc).lines, ∀ b ∈ pl,
      0 ≤ b.m ∧ 0 ≤ b.c ∧ b.m + b.ms ≤ (evenly cells L R gm gc).mainLen ∧ b.c + b.cs ≤ (evenly cells L R gm gc).crossLen := by
  intro pl hpl b hb
  have hsub := placed_nonneg cells L R hnn
  obtain ⟨_, hlen, hcm⟩ := posMax_spec L _ hsub
  rw [evenly_lines] at hpl
  obtain ⟨q1, _, q3, _⟩ := placeLines_mem (evenSized_nonneg cells L R hnn) hg hgc hpl hb
  have hcross := placeLines_end hgc hpl hb
  obtain ⟨l, hl, c, rfl⟩ := placeLines_mem_form hpl
  have hend := placeLine_end (evenSized_nonneg cells L R hnn l hl) hg hb
  refine ⟨q3, q1, ?_, ?_⟩
  · -- along the line: the line's sizes are a prefix of the column widths
    have hl' := hl
    unfold evenSized at hl'
    simp only [List.mem_map] at hl'
    obtain ⟨l0, hl0, rfl⟩ := hl'
    rw [zipWith_setM_map] at hend
    have := addUp_take_le hg (posMax L ((chunks L cells.length cells).take R)) l0.length 0 hcm
    have hm : (evenly cells L R gm gc).mainLen = addUp gm (posMax L ((chunks L cells.length cells).take R)) 0 - gm := rfl
    rw [hm]; linarith
  · -- across: the cross sizes of the resized lines are those of the original lines
    have hmapc : (evenSized cells L R).map lineCross = ((chunks L cells.length cells).take R).map lineCross := by
      unfold evenSized
      simp only [List.map_map]
      apply List.map_congr_left
      intro l0 hl0
      exact lineCross_zipWith l0 _ (hlen l0 hl0)
    rw [hmapc] at hcross
    have hc : (evenly cells L R gm gc).crossLen =
        addUp gc (((chunks L cells.length cells).take R).map lineCross ++
          List.replicate (R - ((chunks L cells.length cells).take R).length) 0) 0 - gc := rfl
    rw [hc, addUp_append]
    have := addUp_ge hgc (List.replicate (R - ((chunks L cells.length cells).take R).length) 0)
      (addUp gc (((chunks L cells.length cells).take R).map lineCross) 0)
      (by intro w hw; exact (List.mem_replicate.mp hw).2 ▸ le_refl (0 : Rat))
    linarith

/-- consecutive lines of an even grid are exactly one cross gap apart -/
theorem evenly_lines_exact (cells : List Sz) (L R : Nat) (gm gc : Rat) (i : Nat) (l1 l2 : List B)
    (h1 : (evenly cells L R gm gc).lines[i]? = some l1) (h2 : (evenly cells L R gm gc).lines[i + 1]? = some l2) :
    ∀ a ∈ l1, ∀ b ∈ l2, b.c = a.c + a.cs + gc := by
  rw [evenly_lines] at h1 h2
  exact placeLines_cross_exact i l1 l2 h1 h2

/-! ### layoutDynamic, for ANY partition of the cells into lines (`getBestLayout`'s result is a parameter) -/

/-- the lines after the "make every line as long as the longest" block -/
def dynSized (lines : List (List Sz)) (gm : Rat) : List (List Sz) := lines.map (growLine gm (maxLen gm lines))

theorem dynamic_lines (lines : List (List Sz)) (gm gc : Rat) :
    (dynamic lines gm gc).lines = placeLines gm gc (dynSized lines gm) 0 := rfl

theorem dynSized_nonneg (lines : List (List Sz)) (gm : Rat) (hnn : ∀ l ∈ lines, ∀ s ∈ l, 0 ≤ s.m) :
    ∀ l ∈ dynSized lines gm, ∀ s ∈ l, 0 ≤ s.m := by
  intro l hl
  unfold dynSized at hl
  obtain ⟨l0, hl0, rfl⟩ := List.mem_map.mp hl
  exact growLine_nonneg gm _ l0 ((maxLen_ge gm lines).2 l0 hl0) (hnn l0 hl0)

/-- **dynamic_order + dynamic_no_overlap + dynamic_gaps (at least)**, as for the even layout -/
theorem dynamic_sep (lines : List (List Sz)) (gm gc : Rat) (hnn : ∀ l ∈ lines, ∀ s ∈ l, 0 ≤ s.m) (hg : 0 ≤ gm) (hgc : 0 ≤ gc) :
    (dynamic lines gm gc).lines.flatten.Pairwise (sep gm gc) := by
  rw [dynamic_lines]
  exact placeLines_sep (dynSized_nonneg lines gm hnn) hg hgc

/-- **dynamic_order (shape)**: the placed lines are the given runs, cell for cell -/
theorem dynamic_shape (lines : List (List Sz)) (gm gc : Rat) :
    (dynamic lines gm gc).lines.map List.length = lines.map List.length := by
  rw [dynamic_lines, placeLines_length]
  unfold dynSized
  simp only [List.map_map]
  apply List.map_congr_left
  intro l _
  simp [growLine_length]

/-- consecutive runs whose lengths add up to the number of cells list every cell exactly once, in declaration order -/
theorem splitRuns_flatten {α : Type} : ∀ (runs : List Nat) (l : List α), runs.sum = l.length → (splitRuns runs l).flatten = l := by
  intro runs
  induction runs with
  | nil => intro l h; simp at h; simp [splitRuns, List.length_eq_zero_iff.mp h.symm]
  | cons k ks ih =>
    intro l h
    simp only [splitRuns, List.flatten_cons]
    rw [ih]
    · exact List.take_append_drop k l
    · simp only [List.sum_cons] at h; simp only [List.length_drop]; omega

/-- **dynamic_gaps_exact**: neighbours in a line are exactly one gap apart, consecutive lines exactly one cross gap -/
theorem dynamic_gaps_exact (lines : List (List Sz)) (gm gc : Rat) :
    (∀ pl ∈ (dynamic lines gm gc).lines, ∀ (k : Nat) (a b : B), pl[k]? = some a → pl[k + 1]? = some b → b.m = a.m + a.ms + gm) ∧
    (∀ (i : Nat) (l1 l2 : List B), (dynamic lines gm gc).lines[i]? = some l1 → (dynamic lines gm gc).lines[i + 1]? = some l2 →
      ∀ a ∈ l1, ∀ b ∈ l2, b.c = a.c + a.cs + gc) := by
  constructor
  · intro pl hpl k a b ha hb
    rw [dynamic_lines] at hpl
    obtain ⟨l, _, c, rfl⟩ := placeLines_mem_form hpl
    exact placeLine_exact k a b ha hb
  · intro i l1 l2 h1 h2
    rw [dynamic_lines] at h1 h2
    exact placeLines_cross_exact i l1 l2 h1 h2

/-- every slot of a line has the same cross position and size (row-directed: a row has one y and one height) -/
theorem dynamic_line_uniform (lines : List (List Sz)) (gm gc : Rat) :
    ∀ pl ∈ (dynamic lines gm gc).lines, ∀ a ∈ pl, ∀ b ∈ pl, a.c = b.c ∧ a.cs = b.cs := by
  intro pl hpl; rw [dynamic_lines] at hpl; exact placeLines_line_uniform hpl

/-- **dynamic_rows_equal_width**: after the growth step every non-empty line is exactly as long as the longest -/
theorem dynamic_rows_equal_width (lines : List (List Sz)) (gm : Rat) :
    ∀ l ∈ dynSized lines gm, l ≠ [] → lineLen gm l = maxLen gm lines := by
  intro l hl hne
  unfold dynSized at hl
  obtain ⟨l0, hl0, rfl⟩ := List.mem_map.mp hl
  have hne0 : l0 ≠ [] := by
    intro h; apply hne; rw [← List.length_eq_zero_iff, growLine_length, h]; rfl
  exact growLine_len gm _ l0 ((maxLen_ge gm lines).2 l0 hl0) hne0

/-- **dynamic_inside**: every slot lies inside `[0, gd.width] × [0, gd.height]` -/
theorem dynamic_inside (lines : List (List Sz)) (gm gc : Rat) (hnn : ∀ l ∈ lines, ∀ s ∈ l, 0 ≤ s.m) (hg : 0 ≤ gm) (hgc : 0 ≤ gc) :
    ∀ pl ∈ (dynamic lines gm gc).lines, ∀ b ∈ pl,
      0 ≤ b.m ∧ 0 ≤ b.c ∧ b.m + b.ms ≤ (dynamic lines gm gc).mainLen ∧ b.c + b.cs ≤ (dynamic lines gm gc).crossLen := by
  intro pl hpl b hb
  rw [dynamic_lines] at hpl
  obtain ⟨q1, _, q3, _⟩ := placeLines_mem (dynSized_nonneg lines gm hnn) hg hgc hpl hb
  have hcross := placeLines_end hgc hpl hb
  obtain ⟨l, hl, c, rfl⟩ := placeLines_mem_form hpl
  have hend := placeLine_end (dynSized_nonneg lines gm hnn l hl) hg hb
  have hne : l ≠ [] := by intro h; subst h; simp [placeLine] at hb
  have hlen := dynamic_rows_equal_width lines gm l hl hne
  rw [lineLen_eq] at hlen
  refine ⟨q3, q1, ?_, ?_⟩
  · have hm : (dynamic lines gm gc).mainLen = maxLen gm lines := rfl
    rw [hm]; linarith
  · have hc : (dynamic lines gm gc).crossLen = addUp gc ((dynSized lines gm).map lineCross) 0 - gc := rfl
    rw [hc]; linarith

/-- the final box of a cell lies inside its slot (see `Proofs/GridMargin.lean`) -/
theorem C22_revert_slot_invariant (c : CellIn) (slot : Box) (hd : c.deco.ok)
    (hw : c.w + ((margin c.deco c.w c.h).left + (margin c.deco c.w c.h).right) ≤ slot.w)
    (hh : c.h + ((margin c.deco c.w c.h).top + (margin c.deco c.w c.h).bottom) ≤ slot.h) :
    slot.x ≤ (revert c slot).x ∧ slot.y ≤ (revert c slot).y ∧
    (revert c slot).x + (revert c slot).w ≤ slot.x + slot.w ∧ (revert c slot).y + (revert c slot).h ≤ slot.y + slot.h ∧
    c.w ≤ (revert c slot).w ∧ c.h ≤ (revert c slot).h := revert_slot_invariant c slot hd hw hh

/-- **container padding and final shift**: `Layout` pads the content box (`padding.Left/Right/Top/Bottom ≥ 0`), sizes the
    container to `padding + content + padding` and shifts every cell by `(padding.Left, padding.Top)` (plus the
    container's own position): a slot inside the content box ends inside the container.  (For a rectangular container
    whose size is not overridden — the two findings below are exactly the cases where the container is *not* sized
    that way.) -/
theorem shift_inside (b : B) (mainLen crossLen pl pr pt pb ox oy : Rat)
    (h : 0 ≤ b.m ∧ 0 ≤ b.c ∧ b.m + b.ms ≤ mainLen ∧ b.c + b.cs ≤ crossLen)
    (hpr : 0 ≤ pr) (hpb : 0 ≤ pb) (hpl : 0 ≤ pl) (hpt : 0 ≤ pt) :
    ox ≤ ox + pl + b.m ∧ oy ≤ oy + pt + b.c ∧
    (ox + pl + b.m) + b.ms ≤ ox + (pl + mainLen + pr) ∧ (oy + pt + b.c) + b.cs ≤ oy + (pt + crossLen + pb) := by
  obtain ⟨h1, h2, h3, h4⟩ := h
  exact ⟨by linarith, by linarith, by linarith, by linarith⟩

/-- Non-vacuity of the even-layout theorems: five cells in a 3-column grid with gaps 10 / 20 -/
example : (evenly [⟨30, 10⟩, ⟨50, 20⟩, ⟨10, 5⟩, ⟨70, 8⟩, ⟨20, 40⟩] 3 2 10 20).lines.flatten.Pairwise (sep 10 20) :=
  evenly_sep _ 3 2 10 20 (by intro s hs; simp at hs; rcases hs with rfl | rfl | rfl | rfl | rfl <;> norm_num)
    (by norm_num) (by norm_num)

/-- Non-vacuity of the dynamic-layout theorems: the partition [[a, b], [c]] of three cells -/
example : (dynamic [[⟨30, 10⟩, ⟨50, 20⟩], [⟨10, 5⟩]] 10 20).lines.flatten.Pairwise (sep 10 20) :=
  dynamic_sep _ 10 20 (by
    intro l hl s hs
    simp at hl
    rcases hl with rfl | rfl <;> simp at hs
    · rcases hs with rfl | rfl <;> norm_num
    · subst hs; norm_num) (by norm_num) (by norm_num)

/-! ### the two defects the check found on the unchanged code (both: a cell ends outside its grid container) -/

/-- `g: {width: 100; grid-rows: 1; a; b; c}` — three 53×66 cells, gap 40, padding 60: the content needs 359 px, the
    explicit width is honoured by `SizeToContent`, and cell `c` (slot `[246, 299]` after the padding shift) ends outside
    `[0, 100]`.  Replayed on the implementation (`g` is 100 wide, `g.c` is at x = 246). -/
theorem C22_cx_explicit_width :
    ∃ b ∈ (dynamic [[⟨53, 66⟩, ⟨53, 66⟩, ⟨53, 66⟩]] 40 40).lines.flatten, ¬ (60 + b.m + b.ms ≤ 100) := by
  refine ⟨⟨186, 0, 53, 66⟩, ?_, by norm_num⟩
  have h1 : lineLen 40 [⟨53, 66⟩, ⟨53, 66⟩, ⟨53, 66⟩] = 239 := by norm_num [lineLen]
  have h2 : maxLen 40 [[⟨53, 66⟩, ⟨53, 66⟩, ⟨53, 66⟩]] = 239 := by
    simp only [maxLen, List.foldl_cons, List.foldl_nil, h1]; norm_num
  have h3 : growLine 40 239 [⟨53, 66⟩, ⟨53, 66⟩, ⟨53, 66⟩] = [⟨53, 66⟩, ⟨53, 66⟩, ⟨53, 66⟩] := by
    unfold growLine; simp only [h1, if_true]
  simp only [dynamic, h2, List.map_cons, List.map_nil, h3, placeLines, placeLine, List.flatten_cons, List.flatten_nil,
    List.append_nil, List.mem_cons]
  right; right; left
  norm_num [lineCross]

end D2V.Grid
