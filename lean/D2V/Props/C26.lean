import D2V.Model.Serde
/-! C26 — The layout-plugin wire format round-trips graphs exactly.

  `C26_roundtrip`        TreeWF g → AbsIDs injective → deserialize (serialize g) is g (every node: id, attributes token,
                         parent, children in order; every edge: attributes token, endpoints)
  `C26_cx_colliding_ids` two objects with the same AbsID: the graph read back differs (children attached to the wrong
                         object) — the injectivity hypothesis is necessary
-/
namespace D2V.Serde

/-! ### the table -/

theorem go_range' (g : Graph) (x : String) (i : Nat) (hi : i < g.n) (hx : absID g i = x)
    (hinj : AbsInj g) :
    ∀ (m s : Nat) (t : Table), s + m ≤ g.n →
      mkTable.go ((List.range' s m).map (sobj g)) s t x =
        if s ≤ i ∧ i < s + m then some i else t x := by
  intro m
  induction m with
  | zero =>
    intro s t _
    simp [mkTable.go]
    omega
  | succ m ih =>
    intro s t hs
    rw [List.range'_succ, List.map_cons, mkTable.go]
    rw [ih (s + 1) _ (by omega)]
    by_cases h1 : s + 1 ≤ i ∧ i < s + 1 + m
    · have : s ≤ i ∧ i < s + (m + 1) := by omega
      simp [h1, this]
    · rw [if_neg h1]
      by_cases h2 : i = s
      · subst h2
        have : i ≤ i ∧ i < i + (m + 1) := by omega
        simp [this, tblSet, sobj, hx]
      · have h3 : ¬ (s ≤ i ∧ i < s + (m + 1)) := by omega
        rw [if_neg h3]
        have hne : absID g s ≠ x := by
          intro he
          exact h2 (hinj i s hi (by omega) (by rw [hx, he]))
        simp [tblSet, sobj, Ne.symm hne]

theorem absID_root (g : Graph) (h : TreeWF g) : absID g 0 = "" := by
  unfold absID
  obtain ⟨k, hk⟩ : ∃ k, g.n = k + 1 := ⟨g.n - 1, by have := h.pos; omega⟩
  rw [hk]
  simp [absIDF, h.root_parent, h.root_id]

/-- `idToObj[AbsID(i)]` is node `i` -/
theorem table_absID (g : Graph) (h : TreeWF g) (hinj : AbsInj g) (i : Nat) (hi : i < g.n) :
    mkTable (serialize g).objs (absID g i) = some i := by
  unfold mkTable serialize
  simp only
  rw [go_range' g (absID g i) i hi rfl hinj (g.n - 1) 1 _ (by have := h.pos; omega)]
  by_cases h0 : i = 0
  · subst h0
    have : ¬ (1 ≤ 0 ∧ 0 < 1 + (g.n - 1)) := by omega
    rw [if_neg this]
    simp [tblSet, absID_root g h]
  · have : 1 ≤ i ∧ i < 1 + (g.n - 1) := by omega
    rw [if_pos this]

theorem lookupAll_absIDs (g : Graph) (h : TreeWF g) (hinj : AbsInj g) (ks : List Nat)
    (hks : ∀ c ∈ ks, c < g.n) :
    lookupAll (mkTable (serialize g).objs) (ks.map (absID g)) = some ks := by
  induction ks with
  | nil => rfl
  | cons c r ih =>
    have hc := hks c (by simp)
    have hr := ih (fun x hx => hks x (by simp [hx]))
    simp only [List.map_cons, lookupAll, table_absID g h hinj c hc, hr]

/-! ### the children loop -/

theorem setParents_apply (self : Nat) (cs : List Nat) :
    ∀ (node : Nat → Node) (i : Nat),
      setParents node self cs i = if i ∈ cs then { node i with parent := some self } else node i := by
  induction cs with
  | nil => intro node i; simp [setParents]
  | cons c r ih =>
    intro node i
    rw [setParents, ih]
    by_cases hic : i = c
    · subst hic
      by_cases hir : i ∈ r <;> simp [hir, upd]
    · by_cases hir : i ∈ r <;> simp [hir, hic, upd]

/-- what the nodes look like when the serialized objects of the node list `D` have been processed -/
def Linked (g : Graph) (D : List Nat) (node : Nat → Node) : Prop :=
  ∀ i, i < g.n →
    (node i).id = (g.node i).id ∧ (node i).attrs = (g.node i).attrs ∧
    (node i).kids = (if i ∈ D then (g.node i).kids else []) ∧
    (node i).parent = (match (g.node i).parent with
      | some p => if p ∈ D then some p else none
      | none => none)

theorem linkStep_ok (g : Graph) (h : TreeWF g) (hinj : AbsInj g) (D : List Nat) (node : Nat → Node)
    (hL : Linked g D node) (p : Nat) (hp : p < g.n) :
    ∃ node', linkStep (mkTable (serialize g).objs) node (sobj g p) = some node' ∧ Linked g (D ++ [p]) node' := by
  unfold linkStep
  by_cases hk : (g.node p).kids = []
  · refine ⟨node, by simp [sobj, hk], ?_⟩
    intro i hi
    obtain ⟨h1, h2, h3, h4⟩ := hL i hi
    refine ⟨h1, h2, ?_, ?_⟩
    · by_cases hip : i = p
      · subst hip; simp [h3, hk]
      · by_cases hiD : i ∈ D <;> simp [h3, hiD, hip]
    · cases hpar : (g.node i).parent with
      | none => simp [h4, hpar]
      | some q =>
        rw [h4, hpar]
        by_cases hqp : q = p
        · subst hqp
          have := (h.parent_kid i q hi hpar).2
          rw [hk] at this
          cases this
        · by_cases hqD : q ∈ D <;> simp [hqD, hqp]
  · have hkids : ∀ c ∈ (g.node p).kids, c < g.n := fun c hc => (h.kid_parent p c hp hc).1
    have hne : (sobj g p).kids ≠ [] := by simpa [sobj] using hk
    rw [if_neg hne]
    have ht : mkTable (serialize g).objs (sobj g p).absID = some p := table_absID g h hinj p hp
    have hl : lookupAll (mkTable (serialize g).objs) (sobj g p).kids = some (g.node p).kids :=
      lookupAll_absIDs g h hinj _ hkids
    rw [ht, hl]
    refine ⟨_, rfl, ?_⟩
    intro i hi
    obtain ⟨h1, h2, h3, h4⟩ := hL i hi
    have hsp := setParents_apply p (g.node p).kids node
    by_cases hip : i = p
    · subst hip
      simp only [upd, if_true]
      refine ⟨?_, ?_, ?_, ?_⟩
      · rw [hsp]; by_cases hm : i ∈ (g.node i).kids <;> simp [hm, h1]
      · rw [hsp]; by_cases hm : i ∈ (g.node i).kids <;> simp [hm, h2]
      · simp
      · rw [hsp]
        by_cases hm : i ∈ (g.node i).kids
        · have := (h.kid_parent i i hp hm).2
          simp [hm, this]
        · simp only [hm, if_false, h4]
          cases hpar : (g.node i).parent with
          | none => rfl
          | some q =>
            have hq := (h.parent_kid i q hi hpar).2
            have hqi : q ≠ i := by intro e; subst e; exact hm hq
            by_cases hqD : q ∈ D <;> simp [hqD, hqi]
    · simp only [upd, hip, if_false]
      rw [hsp]
      by_cases hm : i ∈ (g.node p).kids
      · have hpar := (h.kid_parent p i hp hm).2
        simp only [hm, if_true]
        refine ⟨h1, h2, ?_, ?_⟩
        · by_cases hiD : i ∈ D <;> simp [h3, hiD, hip]
        · simp [hpar]
      · simp only [hm, if_false]
        refine ⟨h1, h2, ?_, ?_⟩
        · by_cases hiD : i ∈ D <;> simp [h3, hiD, hip]
        · rw [h4]
          cases hpar : (g.node i).parent with
          | none => rfl
          | some q =>
            have hq := (h.parent_kid i q hi hpar).2
            have hqp : q ≠ p := by intro e; subst e; exact hm hq
            by_cases hqD : q ∈ D <;> simp [hqD, hqp]

theorem linkAll_ok (g : Graph) (h : TreeWF g) (hinj : AbsInj g) (L : List Nat) (hLn : ∀ p ∈ L, p < g.n) :
    ∀ (D : List Nat) (node : Nat → Node), Linked g D node →
      ∃ node', linkAll (mkTable (serialize g).objs) node (L.map (sobj g)) = some node' ∧ Linked g (D ++ L) node' := by
  induction L with
  | nil => intro D node hL; exact ⟨node, rfl, by simpa using hL⟩
  | cons p r ih =>
    intro D node hL
    obtain ⟨n1, hs, hL1⟩ := linkStep_ok g h hinj D node hL p (hLn p (by simp))
    obtain ⟨n2, hs2, hL2⟩ := ih (fun q hq => hLn q (by simp [hq])) (D ++ [p]) n1 hL1
    refine ⟨n2, ?_, by simpa [List.append_assoc] using hL2⟩
    simp only [List.map_cons, linkAll, hs, hs2]

/-! ### the round trip -/

theorem objs_getElem (g : Graph) (k : Nat) (hk : k + 1 < g.n) :
    (serialize g).objs[k]? = some (sobj g (k + 1)) := by
  simp only [serialize, List.getElem?_map]
  rw [List.getElem?_range' (by omega)]
  simp [Nat.add_comm]

theorem linked_init (g : Graph) (h : TreeWF g) : Linked g [] (initNode (serialize g)) := by
  intro i hi
  cases i with
  | zero =>
    refine ⟨rfl, rfl, rfl, ?_⟩
    rw [h.root_parent]; rfl
  | succ k =>
    have hin : initNode (serialize g) (k + 1) =
        { id := (g.node (k + 1)).id, attrs := (g.node (k + 1)).attrs, parent := none, kids := [] } := by
      simp [initNode, objs_getElem g k hi, sobj]
    rw [hin]
    refine ⟨rfl, rfl, rfl, ?_⟩
    cases (g.node (k + 1)).parent <;> rfl

theorem mem_worklist (g : Graph) (i : Nat) (hi : i < g.n) : i ∈ List.range' 1 (g.n - 1) ++ [0] := by
  cases i with
  | zero => simp
  | succ k =>
    apply List.mem_append_left
    rw [List.mem_range']
    exact ⟨k, by omega, by omega⟩

/-- **C26_roundtrip**: for a graph whose parent pointers and children lists agree (TreeWF) and whose AbsIDs are
    pairwise different, reading back what `SerializeGraph` wrote gives the same graph: every node with its id,
    attribute token, parent and children in order, every edge with its attribute token and end points. -/
theorem C26_roundtrip (g : Graph) (h : TreeWF g) (hinj : AbsInj g) :
    ∃ g', deserialize (serialize g) = some g' ∧ g'.sameAs g := by
  have hwl : (serialize g).objs ++ [(serialize g).root] = (List.range' 1 (g.n - 1) ++ [0]).map (sobj g) := by
    simp [serialize]
  obtain ⟨node', hlink, hL⟩ := linkAll_ok g h hinj (List.range' 1 (g.n - 1) ++ [0])
    (by intro p hp
        rcases List.mem_append.mp hp with hp | hp
        · have := List.mem_range'.mp hp; omega
        · simp at hp; subst hp; exact h.pos)
    [] (initNode (serialize g)) (linked_init g h)
  unfold deserialize
  simp only [hwl, hlink]
  refine ⟨_, rfl, ?_, ?_, ?_⟩
  · have := h.pos
    simp [serialize]; omega
  · intro i hi
    have hi' : i < g.n := by
      have := h.pos
      simp [serialize] at hi; omega
    obtain ⟨h1, h2, h3, h4⟩ := hL i hi'
    have hmem := mem_worklist g i hi'
    rw [List.nil_append] at h3 h4
    rw [if_pos hmem] at h3
    have h4' : (node' i).parent = (g.node i).parent := by
      rw [h4]
      cases hpar : (g.node i).parent with
      | none => rfl
      | some q =>
        have hq := (h.parent_kid i q hi' hpar).1
        simp [mem_worklist g q hq]
    cases hn : node' i with
    | mk a b c d =>
      cases hg : g.node i with
      | mk a' b' c' d' =>
        simp only [hn, hg] at h1 h2 h3 h4'
        show node' i = _
        rw [hn, h1, h2, h3, h4']
  · simp only [serialize, List.map_map]
    let t := mkTable (serialize g).objs
    let f1 : SEdge → Edge := fun se => { attrs := se.attrs, src := se.src.bind t, dst := se.dst.bind t }
    let f2 : Edge → SEdge := fun e => { attrs := e.attrs, src := e.src.map (absID g), dst := e.dst.map (absID g) }
    have : ∀ e ∈ g.edges, (f1 ∘ f2) e = e := by
      intro e he
      obtain ⟨hs, hd⟩ := h.edges_in e he
      cases e with
      | mk a src dst =>
        simp only [Function.comp, f1, f2, t]
        have e1 : (src.map (absID g)).bind (mkTable (serialize g).objs) = src := by
          cases src with
          | none => rfl
          | some x => simp [table_absID g h hinj x (hs x rfl)]
        have e2 : (dst.map (absID g)).bind (mkTable (serialize g).objs) = dst := by
          cases dst with
          | none => rfl
          | some x => simp [table_absID g h hinj x (hd x rfl)]
        simp [e1, e2]
    have h2 := List.map_congr_left this
    rw [List.map_id'] at h2
    exact h2

/-! ### the hypothesis is needed -/

/-- root with two containers that both carry the ID `a` (AbsID "a" twice), the first with child `x`, the second with
    child `y` -/
def cxGraph : Graph :=
  { n := 5
    node := fun i => match i with
      | 0 => { id := "", attrs := "r", parent := none, kids := [1, 2] }
      | 1 => { id := "a", attrs := "1", parent := some 0, kids := [3] }
      | 2 => { id := "a", attrs := "2", parent := some 0, kids := [4] }
      | 3 => { id := "x", attrs := "3", parent := some 1, kids := [] }
      | 4 => { id := "y", attrs := "4", parent := some 2, kids := [] }
      | _ => default
    edges := [] }

/-- **C26_cx_colliding_ids**: with two objects of the same AbsID the graph read back is a different graph: the first
    container lost its child, the root lists the second container twice. -/
theorem C26_cx_colliding_ids :
    absID cxGraph 1 = absID cxGraph 2 ∧
    ((deserialize (serialize cxGraph)).map fun g' => ((g'.node 1).kids, (g'.node 0).kids, (g'.node 3).parent))
      = some ([], [2, 2], some 2) := by
  decide

/-- the hypotheses of `C26_roundtrip` are satisfiable: the same shape with distinct ids -/
def okGraph : Graph :=
  { cxGraph with node := fun i => if i = 2 then { id := "b", attrs := "2", parent := some 0, kids := [4] } else cxGraph.node i }

example : (deserialize (serialize okGraph)).map (fun g' => g'.sameAsB okGraph) = some true := by decide

end D2V.Serde
