import D2V.Model.Vars
/-!
  C13 — Variable substitution equals textual replacement from the innermost scope.

  Theorems about the scope-stack resolution `resolve` / `substWith` of `Model/Vars.lean`, which is (a) compared
  with the real compiler on generated scope stacks (`resolve` stream of the harness) and (b) the function the
  reference transformation `substText` is made of (the driver compiles `p` and `substText p` with the real
  compiler and compares the graphs).

  * `single_quoted_inert`     single-quoted text is never substituted
  * `no_subst_inert`          text without `${…}` is unchanged
  * `innermost_scope_wins`    a block that defines the path decides, whatever the outer blocks contain
  * `outer_only_if_inner_silent` an outer block is consulted only when the inner one does not define the path
  * `self_skip`               a definition never resolves its own name in its own block
  * `undefined_is_error`      a path no block defines is an error, and the error reaches the enclosing scalar
  * `resolve_closed` / `substWith_closed`  the substituted text contains no substitution any more (so the
                              textual twin `substText p` is a program without variables references)
  * `whole_value_keeps_quoting` `${x}` alone takes the definition's scalar as written, quoting included
  * `C13_subst_is_text_node`  the string the compiler's substitution leaves in a node is the content of the textually
                              substituted scalar (whole-program version: checked per run through the real compiler)
-/
namespace D2V.Vars
open D2V.SemAst

/-- scalars in which nothing can be substituted any more -/
def closed (v : Scal) : Prop := v.q = 2 ∨ v.hasSub = false

theorem single_quoted_inert (r : Path → Except Err Scal) (v : Scal) (h : v.q = 2) :
    substWith r v = .ok v := by
  simp [substWith, h]

theorem no_subst_inert (r : Path → Except Err Scal) (v : Scal) (h : v.hasSub = false) :
    substWith r v = .ok v := by
  simp [substWith, h]

theorem whole_value_keeps_quoting (r : Path → Except Err Scal) (p : Path) :
    substWith r { q := 0, parts := [.sub p] } = r p := by
  simp [substWith, Scal.hasSub]

/-! ### the scope stack -/

theorem lookup_some_entry {b : Block} {p : Path} {d : Scal} (h : Block.lookup b p = some d) :
    ∃ name, Block.entry b p = some (name, d) := by
  unfold Block.lookup at h
  split at h
  · rename_i e he
    simp only [Option.some.injEq] at h
    exact ⟨e.1, by rw [he, ← h]⟩
  · cases h

theorem lookup_none_entry {b : Block} {p : Path} (h : Block.lookup b p = none) : Block.entry b p = none := by
  unfold Block.lookup at h
  split at h
  · cases h
  · assumption

theorem innermost_scope_wins (b : Block) (rest rest' : Stack) (self : Option String) (p : Path) (d : Scal)
    (hs : selfSkips self p = false) (hd : Block.lookup b p = some d) :
    (findDef (b :: rest) self p).map (·.1) = some d ∧
    (findDef (b :: rest') self p).map (·.1) = some d := by
  obtain ⟨name, he⟩ := lookup_some_entry hd
  simp [findDef, hs, he]

theorem outer_only_if_inner_silent (b : Block) (rest : Stack) (self : Option String) (p : Path)
    (hd : Block.lookup b p = none) :
    findDef (b :: rest) self p = findDef rest none p := by
  have he := lookup_none_entry hd
  by_cases hs : selfSkips self p = true <;> simp [findDef, hs, he]

theorem self_skip (b : Block) (rest : Stack) (x : String) (p : Path) :
    findDef (b :: rest) (some x) (x :: p) = findDef rest none (x :: p) := by
  simp [findDef, selfSkips]

/-- the definition found is a definition of some block of the stack -/
theorem findDef_sound : ∀ (stk : Stack) (self : Option String) (p : Path) (d : Scal) (stk' : Stack) (s' : Option String),
    findDef stk self p = some (d, stk', s') → ∃ b ∈ stk, Block.lookup b p = some d
  | [], _, _, _, _, _, h => by simp [findDef] at h
  | b :: rest, self, p, d, stk', s', h => by
    unfold findDef at h
    split at h
    · obtain ⟨b', hb', hl⟩ := findDef_sound rest none p d stk' s' h
      exact ⟨b', List.mem_cons_of_mem _ hb', hl⟩
    · split at h
      · rename_i name d' he
        simp only [Option.some.injEq, Prod.mk.injEq] at h
        exact ⟨b, List.mem_cons_self, by simp [Block.lookup, he, h.1]⟩
      · obtain ⟨b', hb', hl⟩ := findDef_sound rest none p d stk' s' h
        exact ⟨b', List.mem_cons_of_mem _ hb', hl⟩

theorem findDef_none : ∀ (stk : Stack) (self : Option String) (p : Path),
    (∀ b ∈ stk, Block.lookup b p = none) → findDef stk self p = none
  | [], _, _, _ => by simp [findDef]
  | b :: rest, self, p, h => by
    have hb : Block.entry b p = none := lookup_none_entry (h b List.mem_cons_self)
    have hr : findDef rest none p = none := findDef_none rest none p (fun b' hb' => h b' (List.mem_cons_of_mem _ hb'))
    unfold findDef
    split
    · exact hr
    · simp [hb, hr]

/-- a reference to a variable that no enclosing `vars` block defines is an error -/
theorem undefined_is_error (n : Nat) (stk : Stack) (self : Option String) (p : Path)
    (h : ∀ b ∈ stk, Block.lookup b p = none) :
    resolve (n + 1) stk self p = .error (.undefined p) := by
  simp [resolve, findDef_none stk self p h]

/-- splicing succeeds only if every substitution in the text resolved -/
theorem spliceAll_ok_all (r : Path → Except Err Scal) : ∀ (l : List Part) (t : String),
    spliceAll r l = .ok t → ∀ p, Part.sub p ∈ l → ∃ v, r p = .ok v
  | [], _, _, p, hp => by cases hp
  | x :: xs, t, h, p, hp => by
    unfold spliceAll at h
    cases hx : partText r x with
    | error e => simp [hx] at h
    | ok s =>
      cases hxs : spliceAll r xs with
      | error e => simp [hx, hxs] at h
      | ok t' =>
        rcases List.mem_cons.mp hp with rfl | hm
        · unfold partText at hx
          cases hr : r p with
          | ok v => exact ⟨v, rfl⟩
          | error e => simp [hr] at hx
        · exact spliceAll_ok_all r xs t' hxs p hm

/-- the error reaches the enclosing text: if substitution of a scalar succeeds, every `${p}` in it (outside
    single quotes) resolved -/
theorem substWith_ok_all_resolved (r : Path → Except Err Scal) (host out : Scal)
    (hq : host.q ≠ 2) (h : substWith r host = .ok out) :
    ∀ p, Part.sub p ∈ host.parts → ∃ v, r p = .ok v := by
  intro p hp
  have hs : host.hasSub = true := by
    simp only [Scal.hasSub, List.any_eq_true]
    exact ⟨.sub p, hp, rfl⟩
  unfold substWith at h
  simp only [hq, if_false, hs, Bool.true_eq_false] at h
  split at h
  · rename_i p' _ hparts
    rw [hparts] at hp
    simp only [List.mem_singleton, Part.sub.injEq] at hp
    subst hp
    exact ⟨out, h⟩
  · cases hm : spliceAll r host.parts with
    | error e => simp [hm] at h
    | ok t => exact spliceAll_ok_all r host.parts t hm p hp

/-- an undefined variable inside a scalar (outside single quotes) makes the substitution of that scalar fail -/
theorem undefined_reaches_scalar (n : Nat) (stk : Stack) (self : Option String) (host : Scal) (p : Path)
    (hq : host.q ≠ 2) (hp : Part.sub p ∈ host.parts) (h : ∀ b ∈ stk, Block.lookup b p = none) :
    ∃ e, substWith (resolve (n + 1) stk self) host = .error e := by
  cases hs : substWith (resolve (n + 1) stk self) host with
  | error e => exact ⟨e, rfl⟩
  | ok out =>
    obtain ⟨v, hv⟩ := substWith_ok_all_resolved _ host out hq hs p hp
    rw [undefined_is_error n stk self p h] at hv
    cases hv

/-! ### the substituted text is closed -/

theorem substWith_closed (r : Path → Except Err Scal) (hr : ∀ p v, r p = .ok v → closed v)
    (host out : Scal) (h : substWith r host = .ok out) : closed out := by
  unfold substWith at h
  split at h
  · rename_i hq
    simp only [Except.ok.injEq] at h
    subst h
    exact Or.inl hq
  · split at h
    · rename_i hno
      simp only [Except.ok.injEq] at h
      subst h
      exact Or.inr hno
    · split at h
      · exact hr _ _ h
      · cases hm : spliceAll r host.parts with
        | error e => simp [hm] at h
        | ok t =>
          simp only [hm, Except.ok.injEq] at h
          subst h
          right
          simp [Scal.hasSub]

/-- definitions are stored as written; a resolved value never contains a live substitution -/
theorem resolve_closed : ∀ (n : Nat) (stk : Stack) (self : Option String) (p : Path) (v : Scal),
    resolve n stk self p = .ok v → closed v
  | 0, _, _, _, _, h => by simp [resolve] at h
  | n + 1, stk, self, p, v, h => by
    unfold resolve at h
    split at h
    · simp at h
    · rename_i d stk' self' _
      exact substWith_closed _ (fun q w hw => resolve_closed n stk' self' q w hw) d v h

/-- every scalar of the textual twin is closed: `substText p` contains no variable reference that the compiler
    would still substitute -/
theorem substScal_closed (stk : Stack) (self : Option String) (host out : Scal)
    (h : substScal stk self host = .ok out) : closed out :=
  substWith_closed _ (fun p v hv => resolve_closed _ stk self p v hv) host out h

/-! ### the node after substitution reads as its textual twin -/

theorem contentOf_lit (q : Nat) (t : String) : contentOf { q := q, parts := [.lit t] } = t := by
  simp [contentOf]

theorem mixed_tail (r : Path → Except Err Scal) (parts : List Part) :
    spliceAll r parts = mapE contentOf (match spliceAll r parts with
      | Except.ok t => Except.ok { q := 1, parts := [Part.lit t] }
      | Except.error e => Except.error e) := by
  cases spliceAll r parts with
  | error e => rfl
  | ok t => simp [mapE, contentOf_lit]

/-- **C13_subst_is_text** (one scalar): the string the compiler's substitution leaves in a node (`evalNode`, the
    model of `resolveSubstitutions`: whole-value replacement or per-box `ScalarString` + `Coalesce`) is the string
    content of the textually substituted scalar `substWith`; errors coincide -/
theorem C13_subst_is_text_node (r : Path → Except Err Scal) (host : Scal) :
    evalNode r host = mapE contentOf (substWith r host) := by
  obtain ⟨q, parts⟩ := host
  unfold evalNode substWith
  by_cases h1 : q = 2
  · simp [h1, mapE]
  · by_cases h2 : Scal.hasSub { q := q, parts := parts } = false
    · simp [h1, h2, mapE]
    · rw [if_neg h1, if_neg h2, if_neg h1, if_neg h2]
      rcases parts with _ | ⟨x, _ | ⟨y, rest⟩⟩
      · cases q <;> exact mixed_tail r []
      · cases x with
        | lit s => cases q <;> exact mixed_tail r [.lit s]
        | sub p =>
          cases q with
          | zero => rfl
          | succ n => exact mixed_tail r [.sub p]
      · cases q <;> cases x <;> exact mixed_tail r (_ :: y :: rest)

/-! ### non-vacuity and worked instances (the examples of the d2 documentation and of compile.go) -/

def outerB : Block := [(["x"], litScal 0 "a")]
def innerB : Block := [(["x"], { q := 0, parts := [.sub ["x"], .lit "-b"] })]

/-- `vars: {x: a}  hi: {vars: {x: ${x}-b}; yo: ${x}}` gives `a-b` (comment in `resolveSubstitution`) -/
example : substScal [innerB, outerB] none { q := 0, parts := [.sub ["x"]] } = .ok { q := 1, parts := [.lit "a-b"] } := by
  decide

example : substScal [innerB, outerB] none { q := 2, parts := [.lit "v ", .sub ["x"]] } =
    .ok { q := 2, parts := [.lit "v ", .sub ["x"]] } := by decide

example : substScal [outerB] none { q := 1, parts := [.lit "v ", .sub ["nope"]] } = .error (.undefined ["nope"]) := by
  decide

example : ∃ b rest self p d, selfSkips self p = false ∧ Block.lookup b p = some d ∧ rest ≠ ([] : Stack) :=
  ⟨outerB, [innerB], none, ["x"], litScal 0 "a", by decide, by decide, by decide⟩

end D2V.Vars
