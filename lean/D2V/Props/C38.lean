import D2V.Model.Edit
import D2V.Proofs.EditPaths
/-!
  C38 — Delete removes exactly the target and keeps its children (abstract semantics `Edit.Spec`).
  `deleteObj d x ren`: `x` and the connections attached to it disappear, the children of `x` move to `x`'s parent
  (`ren` = the names chosen for children whose hoisted ID is taken, `validHoist` = that choice is fresh and made only
  when needed).  `deleteEdge d e`: exactly `e` disappears, later parallel connections move down by one.
  The driver evaluates `deleteObjClauses` / `deleteEdgeClauses` / `deleteAttrClauses` on the real before/after pair.
-/
namespace D2V.Edit

/-- **exactly the target and the connections attached to it are removed** -/
theorem delete_exact (d : Diagram) (x : Path) (ren : List (String × String)) :
    (Spec.deleteObj d x ren).objs = (d.objs.filter fun o => !samePath o.path x).map (Obj.mapPath (hoist x ren)) ∧
    (Spec.deleteObj d x ren).edges = (d.edges.filter fun e => !e.touches x).map (Edge.mapPaths (hoist x ren)) ∧
    (∀ o ∈ d.objs, isPre x o.path = false → o ∈ (Spec.deleteObj d x ren).objs) ∧
    (∀ o' ∈ (Spec.deleteObj d x ren).objs, ∃ o ∈ d.objs, samePath o.path x = false ∧
        o'.label = o.label ∧ o'.attrs = o.attrs ∧ o'.path = hoist x ren o.path) ∧
    (∀ e' ∈ (Spec.deleteObj d x ren).edges, ∃ e ∈ d.edges, e.touches x = false ∧
        e'.label = e.label ∧ e'.attrs = e.attrs ∧ e'.idx = e.idx ∧ e'.sa = e.sa ∧ e'.da = e.da ∧
        e'.src = hoist x ren e.src ∧ e'.dst = hoist x ren e.dst) := by
  refine ⟨rfl, rfl, ?_, ?_, ?_⟩
  · intro o ho hout
    simp only [Spec.deleteObj, Spec.applyMap, List.mem_map, List.mem_filter]
    have hns : samePath o.path x = false := by
      cases hs : samePath o.path x with
      | false => rfl
      | true =>
        have : isPre x o.path = true := by
          unfold samePath at hs
          unfold isPre
          have : keyOf o.path = keyOf x := by simpa using hs
          rw [this, List.isPrefixOf_iff_prefix]
          exact List.prefix_refl _
        rw [this] at hout; cases hout
    have hnu : isUnder x o.path = false := by
      cases hu : isUnder x o.path with
      | false => rfl
      | true => rw [isUnder_isPre hu] at hout; cases hout
    exact ⟨o, ⟨ho, by simp [hns]⟩, by simp [Obj.mapPath, hoist_outside x ren o.path hnu]⟩
  · intro o' ho'
    simp only [Spec.deleteObj, Spec.applyMap, List.mem_map, List.mem_filter] at ho'
    rcases ho' with ⟨o, ⟨ho, hk⟩, rfl⟩
    exact ⟨o, ho, by simpa using hk, rfl, rfl, rfl⟩
  · intro e' he'
    simp only [Spec.deleteObj, Spec.applyMap, List.mem_map, List.mem_filter] at he'
    rcases he' with ⟨e, ⟨he, hk⟩, rfl⟩
    exact ⟨e, he, by simpa using hk, rfl, rfl, rfl, rfl, rfl, rfl, rfl⟩

/-- **children are kept by moving them to the parent**: see `hoist_inside` — a strict descendant `x ++ c :: rest`
    ends up at `parent(x) ++ c' :: rest`; and it is renamed only when the name is taken (`validHoist`) -/
theorem delete_hoists_children (x : Path) (ren : List (String × String)) (p : Path) (h : isUnder x p = true) :
    ∃ c rest, p.drop x.length = c :: rest ∧ hoist x ren p = x.dropLast ++ renOf ren c :: rest :=
  hoist_inside x ren p h

/-- with the empty choice no child is renamed -/
theorem delete_no_collision_keeps_names (x : Path) (p : Path) (h : isUnder x p = true) :
    ∃ c rest, p.drop x.length = c :: rest ∧ hoist x [] p = x.dropLast ++ c :: rest := by
  rcases hoist_inside x [] p h with ⟨c, rest, hd, hh⟩
  exact ⟨c, rest, hd, by simpa [renOf_nil] using hh⟩

/-- **deleting a connection removes exactly it and renumbers the later parallel ones** -/
theorem delete_edge_renumbers (d : Diagram) (e : Edge) :
    (Spec.deleteEdge d e).objs = d.objs ∧
    (∀ f' ∈ (Spec.deleteEdge d e).edges, ∃ f ∈ d.edges, (f.sameGroup e && f.idx == e.idx) = false ∧
        f'.label = f.label ∧ f'.attrs = f.attrs ∧ f'.src = f.src ∧ f'.dst = f.dst ∧ f'.sa = f.sa ∧ f'.da = f.da ∧
        f'.idx = (if f.sameGroup e && decide (e.idx < f.idx) then f.idx - 1 else f.idx)) ∧
    (∀ f ∈ d.edges, (f.sameGroup e && f.idx == e.idx) = false → Spec.renumberAfter e f ∈ (Spec.deleteEdge d e).edges) := by
  refine ⟨?_, ?_, ?_⟩
  · simp [Spec.deleteEdge, Spec.applyMap, filter_const_true]
  · intro f' hf'
    simp only [Spec.deleteEdge, Spec.applyMap, List.mem_map, List.mem_filter] at hf'
    rcases hf' with ⟨f, ⟨hf, hk⟩, rfl⟩
    refine ⟨f, hf, by cases h1 : f.sameGroup e <;> cases h2 : (f.idx == e.idx) <;> simp_all, ?_⟩
    unfold Spec.renumberAfter
    by_cases hc : (f.sameGroup e && decide (e.idx < f.idx)) = true
    · simp [hc]
    · simp [hc]
  · intro f hf hk
    simp only [Spec.deleteEdge, Spec.applyMap, List.mem_map, List.mem_filter]
    exact ⟨f, ⟨hf, by simp [hk]⟩, rfl⟩

/-! the driver's clauses hold of the abstract semantics on witnesses -/

def exDel : Diagram :=
  { objs := [⟨["a"], "L1", []⟩, ⟨["a", "b"], "L2", [("shape", "circle")]⟩, ⟨["a", "b", "c"], "L3", []⟩,
             ⟨["b"], "L4", []⟩, ⟨["d"], "L5", []⟩],
    edges := [⟨["a", "b"], ["d"], false, true, 0, "E1", []⟩, ⟨["a"], ["d"], false, true, 0, "E2", []⟩,
              ⟨["a", "b"], ["d"], false, true, 1, "E3", []⟩, ⟨["a", "b"], ["d"], false, true, 2, "E4", []⟩] }

/-- deleting `a`: child `a.b` collides with `b` and becomes `b 2` -/
example : allHold (deleteObjClauses exDel (Spec.deleteObj exDel ["a"] [("b", "b 2")]) ["a"]) = true := by decide
example : Spec.validHoist exDel ["a"] [("b", "b 2")] = true := by decide
/-- not renaming the colliding child is rejected, and so is renaming without need -/
example : Spec.validHoist exDel ["a"] [] = false := by decide
example : Spec.validHoist exDel ["a", "b"] [("c", "c 2")] = false := by decide

example : allHold (deleteEdgeClauses exDel (Spec.deleteEdge exDel ⟨["a", "b"], ["d"], false, true, 1, "E3", []⟩)
    ⟨["a", "b"], ["d"], false, true, 1, "E3", []⟩) = true := by decide

/-- the defect class C38-delete-object-leaks-dotted-attributes-to-parent on its witness
    (`a: L1; a.x: L2; a.x.shape: hexagon`, Delete("a.x") leaves `a.shape: hexagon`) -/
theorem C38_cx_attribute_leaks_to_parent :
    firstFailing (deleteObjClauses
      ⟨[⟨["a"], "L1", [("shape", "rectangle")]⟩, ⟨["a", "x"], "L2", [("shape", "hexagon")]⟩], []⟩
      ⟨[⟨["a"], "L1", [("shape", "hexagon")]⟩], []⟩ ["a", "x"]) = some "delobj-changed-attrs" := by
  decide

/-- the defect class C38-board-scoped-delete-uses-null on its witness: children are not hoisted -/
theorem C38_cx_null_delete_loses_children :
    firstFailing (deleteObjClauses
      ⟨[⟨["q"], "L2", []⟩, ⟨["q", "c"], "L3", []⟩], []⟩ ⟨[], []⟩ ["q"]) = some "delobj-lost-object" := by
  decide

end D2V.Edit
