import D2V.Model.Edit
/-! C38 — editing API (placeholder lemmas; replaced by the real development) -/
namespace D2V.Edit

theorem C38_firstFailing_none_iff (cs : List Clause) : firstFailing cs = none ↔ allHold cs = true := by
  induction cs with
  | nil => simp [firstFailing, allHold]
  | cons c r ih =>
    unfold firstFailing
    cases h : c.holds <;> simp [allHold, h] at * <;> exact ih

end D2V.Edit
