import D2V.Model.B64
import D2V.Gen.Urlenc
/-! C43 — Playground URL encoding round-trips every script. -/
namespace D2V.B64

theorem dec6_enc6 (n : Nat) (h : n < 64) : dec6 (enc6 n) = some n := by
  have : ∀ m : Fin 64, dec6 (enc6 m.val) = some m.val := by decide
  exact this ⟨n, h⟩

theorem enc6_ne_pad (n : Nat) (h : n < 64) : enc6 n ≠ pad := by
  have : ∀ m : Fin 64, enc6 m.val ≠ pad := by decide
  exact this ⟨n, h⟩

theorem enc6_urlSafe (n : Nat) (h : n < 64) : urlSafe (enc6 n) = true := by
  have : ∀ m : Fin 64, urlSafe (enc6 m.val) = true := by decide
  exact this ⟨n, h⟩

theorem ofNat_toNat (a : UInt8) : UInt8.ofNat a.toNat = a := by simp

theorem b64_roundtrip (bs : List UInt8) : decode (encode bs) = some bs := by
  fun_induction encode bs with
  | case1 => simp [decode]
  | case2 a =>
    have ha := a.toNat_lt
    have h0 : a.toNat / 4 < 64 := by omega
    have h1 : a.toNat % 4 * 16 < 64 := by omega
    have e0 : a.toNat / 4 * 4 + a.toNat % 4 * 16 / 16 = a.toNat := by omega
    simp only [decode, dec6_enc6 _ h0, dec6_enc6 _ h1, if_true, byte0, e0, ofNat_toNat]
  | case3 a b =>
    have ha := a.toNat_lt; have hb := b.toNat_lt
    have h0 : a.toNat / 4 < 64 := by omega
    have h1 : a.toNat % 4 * 16 + b.toNat / 16 < 64 := by omega
    have h2 : b.toNat % 16 * 4 < 64 := by omega
    have e0 : a.toNat / 4 * 4 + (a.toNat % 4 * 16 + b.toNat / 16) / 16 = a.toNat := by omega
    have e1 : (a.toNat % 4 * 16 + b.toNat / 16) % 16 * 16 + b.toNat % 16 * 4 / 4 = b.toNat := by omega
    simp only [decode, dec6_enc6 _ h0, dec6_enc6 _ h1, dec6_enc6 _ h2, if_true, byte0, byte1,
      enc6_ne_pad _ h2, if_false, e0, e1, ofNat_toNat]
  | case4 a b c rest ih =>
    have ha := a.toNat_lt; have hb := b.toNat_lt; have hc := c.toNat_lt
    have h0 : a.toNat / 4 < 64 := by omega
    have h1 : a.toNat % 4 * 16 + b.toNat / 16 < 64 := by omega
    have h2 : b.toNat % 16 * 4 + c.toNat / 64 < 64 := by omega
    have h3 : c.toNat % 64 < 64 := by omega
    have e0 : a.toNat / 4 * 4 + (a.toNat % 4 * 16 + b.toNat / 16) / 16 = a.toNat := by omega
    have e1 : (a.toNat % 4 * 16 + b.toNat / 16) % 16 * 16 + (b.toNat % 16 * 4 + c.toNat / 64) / 4 = b.toNat := by omega
    have e2 : (b.toNat % 16 * 4 + c.toNat / 64) % 4 * 64 + c.toNat % 64 = c.toNat := by omega
    cases hr : encode rest with
    | nil =>
      rw [hr] at ih
      simp only [decode, dec6_enc6 _ h0, dec6_enc6 _ h1, dec6_enc6 _ h2, dec6_enc6 _ h3,
        enc6_ne_pad _ h3, if_false, byte0, byte1, byte2, e0, e1, e2, ofNat_toNat]
      simp [decode] at ih
      simp [ih]
    | cons x xs =>
      rw [hr] at ih
      simp only [decode, dec6_enc6 _ h0, dec6_enc6 _ h1, dec6_enc6 _ h2, dec6_enc6 _ h3, ih,
        byte0, byte1, byte2, e0, e1, e2, ofNat_toNat]

theorem b64_alphabet (bs : List UInt8) : ∀ c ∈ encode bs, urlSafe c = true := by
  fun_induction encode bs with
  | case1 => simp
  | case2 a =>
    have ha := a.toNat_lt
    intro c hc
    simp only [List.mem_cons, List.not_mem_nil, or_false] at hc
    rcases hc with h | h | h | h <;> subst h
    · exact enc6_urlSafe _ (by omega)
    · exact enc6_urlSafe _ (by omega)
    · decide
    · decide
  | case3 a b =>
    have ha := a.toNat_lt; have hb := b.toNat_lt
    intro c hc
    simp only [List.mem_cons, List.not_mem_nil, or_false] at hc
    rcases hc with h | h | h | h <;> subst h
    · exact enc6_urlSafe _ (by omega)
    · exact enc6_urlSafe _ (by omega)
    · exact enc6_urlSafe _ (by omega)
    · decide
  | case4 a b c rest ih =>
    have ha := a.toNat_lt; have hb := b.toNat_lt; have hc := c.toNat_lt
    intro x hx
    simp only [List.mem_cons] at hx
    rcases hx with h | h | h | h | h
    · subst h; exact enc6_urlSafe _ (by omega)
    · subst h; exact enc6_urlSafe _ (by omega)
    · subst h; exact enc6_urlSafe _ (by omega)
    · subst h; exact enc6_urlSafe _ (by omega)
    · exact ih x h

/-- C43: with any compressor whose decompressor inverts it, `Decode (Encode s) = s` for every byte string,
    and the encoded form is URL-safe. -/
theorem C43_roundtrip (deflate : List UInt8 → List UInt8) (inflate : List UInt8 → Option (List UInt8))
    (hflate : ∀ x, inflate (deflate x) = some x) (s : List UInt8) :
    Decode inflate (Encode deflate s) = some s := by
  simp [Decode, Encode, b64_roundtrip, hflate]

theorem C43_urlsafe (deflate : List UInt8 → List UInt8) (s : List UInt8) :
    ∀ c ∈ Encode deflate s, urlSafe c = true := b64_alphabet _

/-- the hypothesis of `C43_roundtrip` is satisfiable (identity "compressor") and the statement is not vacuous -/
example : Decode some (Encode id [104, 105, 255]) = some [104, 105, 255] :=
  C43_roundtrip id some (fun _ => rfl) _

/-- tie R: `urlenc.Encode`/`Decode` call exactly the padded URL-safe encoding this model is a model of, and the
    dictionary-less flate pair (regenerated from lib/urlenc/urlenc.go on every run). -/
theorem C43_code_uses_modelled_encoding :
    D2V.Gen.Urlenc.encodeCalls = ["flate.NewWriterDict", "base64.URLEncoding.EncodeToString"] ∧
    D2V.Gen.Urlenc.decodeCalls = ["base64.URLEncoding.DecodeString", "flate.NewReaderDict"] := by decide

end D2V.B64
