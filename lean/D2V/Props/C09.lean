import D2V.Model.SemGraph
import D2V.Model.SemProj
/-!
  C09 — Compiled graphs are well-formed trees with consistent connection endpoints.

  `TreeWF` is the invariant of the graph-construction layer (`newObject` / `EnsureChild` / `Connect`):
  every non-root object is listed exactly once, its parent was created before it (so the parent chain
  reaches the root), the parent lists it exactly once among its children and under its lower-cased ID
  in the children map, the map and the array agree and the map keys are distinct, and connection endpoints
  are objects of the graph.  It holds for `init`, is preserved by every operation, hence holds for the graph
  built by any sequence of operations (`C09_reachable_wf`).
-/
namespace D2V.SemG

/-! ### list lemmas -/

theorem setNode_length (ns : List Node) (i : Nat) (f : Node → Node) : (setNode ns i f).length = ns.length := by
  induction ns generalizing i with
  | nil => simp [setNode]
  | cons n r ih => cases i <;> simp [setNode, ih]

theorem setNode_get (ns : List Node) (i j : Nat) (f : Node → Node) :
    (setNode ns i f)[j]? = if j = i then ns[j]?.map f else ns[j]? := by
  induction ns generalizing i j with
  | nil => simp [setNode]
  | cons n r ih =>
    cases i with
    | zero => cases j <;> simp [setNode]
    | succ i => cases j with
      | zero => simp [setNode]
      | succ j => simp [setNode, ih]

theorem lookup_none_iff (m : List (List Char × Nat)) (k : List Char) :
    lookup m k = none ↔ k ∉ m.map Prod.fst := by
  induction m with
  | nil => simp [lookup]
  | cons kv r ih =>
    obtain ⟨k', v⟩ := kv
    by_cases h : k' = k
    · simp [lookup, h]
    · have h2 : ¬ k = k' := fun e => h e.symm
      simp [lookup, h, ih, h2]

theorem lookup_some_mem (m : List (List Char × Nat)) (k : List Char) (c : Nat) (h : lookup m k = some c) : (k, c) ∈ m := by
  induction m with
  | nil => simp [lookup] at h
  | cons kv r ih =>
    obtain ⟨k', v⟩ := kv
    simp only [lookup] at h
    by_cases hk : k' = k
    · simp [hk] at h; subst hk; subst h; simp
    · simp [hk] at h; exact List.mem_cons_of_mem _ (ih h)

/-! ### the invariant -/

/-- per-node clauses, for node `i` with contents `n` in arena `ns` -/
structure NodeWF (ns : List Node) (i : Nat) (n : Node) : Prop where
  /-- the parent was created earlier (the root is its own parent) -/
  parent_lt : 0 < i → n.parent < i
  /-- the parent lists the object exactly once among its children -/
  child_once : 0 < i → ∃ p, ns[n.parent]? = some p ∧ p.children.count i = 1
  /-- children array = values of the children map -/
  cmap_children : n.cmap.map Prod.snd = n.children
  /-- every map entry points to an object of the arena whose parent is this node, keyed by its lower-cased ID -/
  cmap_entries : ∀ k c, (k, c) ∈ n.cmap → ∃ cn, ns[c]? = some cn ∧ cn.parent = i ∧ k = fold cn.id ∧ 0 < c
  /-- keys are distinct: no two children share a case-folded ID -/
  keys_nodup : (n.cmap.map Prod.fst).Nodup

structure TreeWF (g : Graph) : Prop where
  nonempty : 0 < g.nodes.length
  /-- every object except the root is listed exactly once (in creation order) -/
  objects_eq : g.objects = List.range' 1 (g.nodes.length - 1)
  node : ∀ i n, g.nodes[i]? = some n → NodeWF g.nodes i n
  /-- connection endpoints are objects of this graph (or its root) -/
  edges_in : ∀ e ∈ g.edges, e.src < g.nodes.length ∧ e.dst < g.nodes.length

theorem init_wf : TreeWF init := by
  refine ⟨by simp [init], by simp [init], ?_, by simp [init]⟩
  intro i n h
  simp only [init] at h
  cases i with
  | zero =>
    simp at h; subst h
    exact ⟨by simp, by simp, by simp, by simp, by simp⟩
  | succ i => simp at h

/-- children named by a well-formed node are inside the arena -/
theorem children_lt {g : Graph} (wf : TreeWF g) {i : Nat} {n : Node} (h : g.nodes[i]? = some n) :
    ∀ c ∈ n.children, c < g.nodes.length := by
  intro c hc
  have hw := wf.node i n h
  rw [← hw.cmap_children] at hc
  obtain ⟨⟨k, c'⟩, hmem, rfl⟩ := List.mem_map.mp hc
  obtain ⟨cn, hcn, _⟩ := hw.cmap_entries k c' hmem
  exact (List.getElem?_eq_some_iff.mp hcn).1

/-- the structural fields a node update may not touch for the invariant to survive unchanged -/
def SameStruct (f : Node → Node) : Prop :=
  ∀ n, (f n).id = n.id ∧ (f n).parent = n.parent ∧ (f n).children = n.children ∧ (f n).cmap = n.cmap

theorem setNode_sameStruct_wf {g : Graph} (wf : TreeWF g) (i : Nat) (f : Node → Node) (hf : SameStruct f) :
    TreeWF { g with nodes := setNode g.nodes i f } := by
  have hget : ∀ j, (setNode g.nodes i f)[j]? = if j = i then g.nodes[j]?.map f else g.nodes[j]? := fun j => setNode_get _ _ _ _
  refine ⟨by simp [setNode_length, wf.nonempty], by simp [setNode_length, wf.objects_eq], ?_, by simpa [setNode_length] using wf.edges_in⟩
  intro j n hj
  simp only at hj
  rw [hget] at hj
  -- the old node at j
  obtain ⟨n0, hn0, hrel⟩ : ∃ n0, g.nodes[j]? = some n0 ∧ n.id = n0.id ∧ n.parent = n0.parent ∧ n.children = n0.children ∧ n.cmap = n0.cmap := by
    by_cases hji : j = i
    · simp only [hji, if_true] at hj
      cases h0 : g.nodes[i]? with
      | none => simp [h0] at hj
      | some n0 =>
        simp [h0] at hj; subst hj
        exact ⟨n0, by simp [hji, h0], hf n0⟩
    · simp only [hji, if_false] at hj
      exact ⟨n, hj, rfl, rfl, rfl, rfl⟩
  obtain ⟨hid, hpar, hch, hcm⟩ := hrel
  have w := wf.node j n0 hn0
  -- any old node is still there with the same structure
  have old : ∀ (c : Nat) (m : Node), g.nodes[c]? = some m → ∃ m', (setNode g.nodes i f)[c]? = some m' ∧ m'.id = m.id ∧ m'.parent = m.parent ∧ m'.children = m.children ∧ m'.cmap = m.cmap := by
    intro c m hc
    rw [hget]
    by_cases hci : c = i
    · simp only [hci, if_true]; rw [hci] at hc; simp only [hc, Option.map_some]
      exact ⟨f m, rfl, hf m⟩
    · simp only [hci, if_false]; exact ⟨m, hc, rfl, rfl, rfl, rfl⟩
  refine ⟨?_, ?_, ?_, ?_, ?_⟩
  · intro h; rw [hpar]; exact w.parent_lt h
  · intro h
    obtain ⟨p, hp, hcount⟩ := w.child_once h
    obtain ⟨p', hp', _, _, hpc, _⟩ := old _ _ hp
    exact ⟨p', by rw [hpar]; exact hp', by rw [hpc]; exact hcount⟩
  · rw [hcm, hch]; exact w.cmap_children
  · intro k c hkc
    rw [hcm] at hkc
    obtain ⟨cn, hcn, hp, hk, hc0⟩ := w.cmap_entries k c hkc
    obtain ⟨cn', hcn', hid', hpar', _, _⟩ := old _ _ hcn
    exact ⟨cn', hcn', by rw [hpar']; exact hp, by rw [hid']; exact hk, hc0⟩
  · rw [hcm]; exact w.keys_nodup

/-- `newObject` under an existing parent that has no child of that (case-folded) name -/
theorem newObject_wf {g : Graph} (wf : TreeWF g) {p : Nat} {pn : Node} (id : String)
    (hp : g.nodes[p]? = some pn) (hfree : lookup pn.cmap (fold id) = none) : TreeWF (newObject g p id) := by
  have hplt : p < g.nodes.length := (List.getElem?_eq_some_iff.mp hp).1
  let L := g.nodes.length
  let upd : Node → Node := fun n => { n with children := n.children ++ [L], cmap := n.cmap ++ [(fold id, L)] }
  have hlen : (newObject g p id).nodes.length = L + 1 := by simp [newObject, setNode_length, L]
  -- lookup in the new arena
  have hget : ∀ j, (newObject g p id).nodes[j]? =
      if j < L then (if j = p then g.nodes[j]?.map upd else g.nodes[j]?) else if j = L then some { id := id, parent := p, label := idVal id } else none := by
    intro j
    simp only [newObject]
    by_cases hj : j < L
    · rw [List.getElem?_append_left (by simpa [setNode_length] using hj), setNode_get]; simp [hj, upd, L]
    · simp only [hj, if_false]
      by_cases hjl : j = L
      · subst hjl; simp [setNode_length, L]
      · have : L + 1 ≤ j := by omega
        simp [hjl, setNode_length]; omega
  have hLnotin : ∀ (i : Nat) (n : Node), g.nodes[i]? = some n → L ∉ n.children := by
    intro i n h hmem
    have := children_lt wf h L hmem
    omega
  refine ⟨by omega, ?_, ?_, ?_⟩
  · -- objects
    have h0 := wf.objects_eq
    have hne := wf.nonempty
    have hobj : (newObject g p id).objects = g.objects ++ [L] := rfl
    rw [hobj, hlen, h0]
    have : L + 1 - 1 = (L - 1) + 1 := by omega
    rw [this, List.range'_concat]
    congr 2; omega
  · intro j n hj
    rw [hget] at hj
    by_cases hjL : j < L
    · simp only [hjL, if_true] at hj
      -- old node, possibly the parent
      obtain ⟨n0, hn0, hpar, hid⟩ : ∃ n0, g.nodes[j]? = some n0 ∧ n.parent = n0.parent ∧ n.id = n0.id := by
        by_cases hjp : j = p
        · simp only [hjp, if_true] at hj; rw [hp] at hj; simp at hj; subst hj
          exact ⟨pn, by rw [hjp]; exact hp, rfl, rfl⟩
        · simp only [hjp, if_false] at hj; exact ⟨n, hj, rfl, rfl⟩
      have w := wf.node j n0 hn0
      refine ⟨?_, ?_, ?_, ?_, ?_⟩
      · intro h; rw [hpar]; exact w.parent_lt h
      · intro h
        obtain ⟨q, hq, hcount⟩ := w.child_once h
        have hqlt : n0.parent < L := (List.getElem?_eq_some_iff.mp hq).1
        by_cases hqp : n0.parent = p
        · refine ⟨upd q, ?_, ?_⟩
          · rw [hpar, hget, if_pos hqlt, if_pos hqp, hq]; rfl
          · simp only [upd, List.count_append, hcount]
            have : j ≠ L := by omega
            simp [this.symm]
        · refine ⟨q, ?_, hcount⟩
          rw [hpar, hget]; simp [hqlt, hqp, hq]
      · by_cases hjp : j = p
        · simp only [hjp, if_true] at hj; rw [hp] at hj; simp at hj; subst hj
          have wp := wf.node p pn hp
          simp [upd, wp.cmap_children]
        · simp only [hjp, if_false] at hj; rw [hn0] at hj; cases hj; exact w.cmap_children
      · intro k c hkc
        -- entries of the (possibly extended) map
        have hcases : (k, c) ∈ n0.cmap ∨ (j = p ∧ k = fold id ∧ c = L) := by
          by_cases hjp : j = p
          · simp only [hjp, if_true] at hj; rw [hp] at hj; simp at hj; subst hj
            simp only [upd, List.mem_append, List.mem_singleton, Prod.mk.injEq] at hkc
            rw [hjp] at hn0; rw [hp] at hn0; cases hn0
            rcases hkc with h | ⟨h1, h2⟩
            · exact Or.inl h
            · exact Or.inr ⟨hjp, h1, h2⟩
          · simp only [hjp, if_false] at hj; rw [hn0] at hj; cases hj; exact Or.inl hkc
        rcases hcases with hold | ⟨hjp, hk, hc⟩
        · obtain ⟨cn, hcn, hcp, hck, hc0⟩ := w.cmap_entries k c hold
          have hclt : c < L := (List.getElem?_eq_some_iff.mp hcn).1
          by_cases hcp' : c = p
          · refine ⟨upd cn, ?_, hcp, hck, hc0⟩
            rw [hget, if_pos hclt, if_pos hcp', hcn]; rfl
          · exact ⟨cn, by rw [hget]; simp [hclt, hcp', hcn], hcp, hck, hc0⟩
        · subst hc; subst hk
          refine ⟨{ id := id, parent := p, label := idVal id }, by rw [hget]; simp, hjp.symm, rfl, wf.nonempty⟩
      · by_cases hjp : j = p
        · simp only [hjp, if_true] at hj; rw [hp] at hj; simp at hj; subst hj
          have wp := wf.node p pn hp
          simp only [upd, List.map_append, List.map_cons, List.map_nil]
          rw [List.nodup_append]
          refine ⟨wp.keys_nodup, by simp, ?_⟩
          intro a ha b hb
          simp at hb; subst hb
          intro hab; subst hab
          exact (lookup_none_iff _ _).mp hfree ha
        · simp only [hjp, if_false] at hj; rw [hn0] at hj; cases hj; exact w.keys_nodup
    · simp only [hjL, if_false] at hj
      by_cases hjl : j = L
      · simp only [hjl, if_true] at hj; cases hj
        refine ⟨fun _ => by simpa [hjl] using hplt, ?_, by simp, by simp, by simp⟩
        intro _
        refine ⟨upd pn, ?_, ?_⟩
        · show (newObject g p id).nodes[p]? = some (upd pn)
          rw [hget, if_pos hplt, if_pos rfl, hp]; rfl
        · simp only [upd, List.count_append, hjl]
          have : List.count L pn.children = 0 := List.count_eq_zero.mpr (hLnotin p pn hp)
          simp [this]
      · simp [hjl] at hj
  · intro e he
    have := wf.edges_in e (by simpa [newObject] using he)
    rw [hlen]; omega

theorem ensureChild_wf {g : Graph} (wf : TreeWF g) (p : Nat) (id : String) : TreeWF (ensureChild g p id).1 := by
  unfold ensureChild
  cases hp : g.nodes[p]? with
  | none => simpa using wf
  | some n =>
    simp only
    cases hl : lookup n.cmap (fold id) with
    | some c => simpa using wf
    | none => simpa using newObject_wf wf id hp hl

theorem newObject_length (g : Graph) (p : Nat) (id : String) : (newObject g p id).nodes.length = g.nodes.length + 1 := by
  simp [newObject, setNode_length]

theorem ensureChild_length_le (g : Graph) (p : Nat) (id : String) : g.nodes.length ≤ (ensureChild g p id).1.nodes.length := by
  unfold ensureChild
  cases hp : g.nodes[p]? with
  | none => simp
  | some n =>
    simp only
    cases hl : lookup n.cmap (fold id) with
    | some c => simp
    | none => simp [newObject_length]

/-- the node returned by `ensureChild` is inside the arena -/
theorem ensureChild_valid {g : Graph} (wf : TreeWF g) {p : Nat} (hp : p < g.nodes.length) (id : String) :
    (ensureChild g p id).2 < (ensureChild g p id).1.nodes.length := by
  unfold ensureChild
  cases hn : g.nodes[p]? with
  | none => simpa using hp
  | some n =>
    simp only
    cases hl : lookup n.cmap (fold id) with
    | some c =>
      simp only
      obtain ⟨cn, hcn, _⟩ := (wf.node p n hn).cmap_entries _ _ (lookup_some_mem _ _ _ hl)
      exact (List.getElem?_eq_some_iff.mp hcn).1
    | none => simp [newObject_length]

theorem ensurePath_wf {g : Graph} (wf : TreeWF g) (p : Nat) (path : List String) : TreeWF (ensurePath g p path).1 := by
  induction path generalizing g p with
  | nil => simpa [ensurePath] using wf
  | cons id rest ih =>
    simp only [ensurePath]
    exact ih (ensureChild_wf wf p id) _

theorem ensurePath_valid {g : Graph} (wf : TreeWF g) {p : Nat} (hp : p < g.nodes.length) (path : List String) :
    (ensurePath g p path).2 < (ensurePath g p path).1.nodes.length := by
  induction path generalizing g p with
  | nil => simpa [ensurePath] using hp
  | cons id rest ih =>
    simp only [ensurePath]
    exact ih (ensureChild_wf wf p id) (ensureChild_valid wf hp id)

theorem ensurePath_length_le (g : Graph) (p : Nat) (path : List String) : g.nodes.length ≤ (ensurePath g p path).1.nodes.length := by
  induction path generalizing g p with
  | nil => simp [ensurePath]
  | cons id rest ih =>
    simp only [ensurePath]
    exact Nat.le_trans (ensureChild_length_le g p id) (ih _ _)

theorem addEdge_wf {g : Graph} (wf : TreeWF g) {s d : Nat} (hs : s < g.nodes.length) (hd : d < g.nodes.length)
    (sa da : Bool) (label : String) (style : List (String × String)) (pos : Nat) : TreeWF (addEdge g s d sa da label style pos) := by
  refine ⟨wf.nonempty, wf.objects_eq, wf.node, ?_⟩
  intro e he
  simp only [addEdge, List.mem_append, List.mem_singleton] at he
  rcases he with he | he
  · exact wf.edges_in e he
  · subst he; exact ⟨hs, hd⟩

/-- every operation of the graph-construction layer preserves the invariant -/
theorem op_preserves_wf {g : Graph} (wf : TreeWF g) (op : Op) : TreeWF (apply g op) := by
  cases op with
  | ensure path => exact ensurePath_wf wf 0 path
  | attrs path label shape style pos =>
    simp only [apply]
    exact setNode_sameStruct_wf (ensurePath_wf wf 0 path) _ _ (fun n => ⟨rfl, rfl, rfl, rfl⟩)
  | connect base src dst sa da label style pos =>
    simp only [apply]
    have w0 := ensurePath_wf wf 0 base
    have v0 := ensurePath_valid wf wf.nonempty base
    have w1 := ensurePath_wf w0 (ensurePath g 0 base).2 src
    have v1 := ensurePath_valid w0 v0 src
    have w2 := ensurePath_wf w1 (ensurePath g 0 base).2 dst
    have v0' : (ensurePath g 0 base).2 < (ensurePath (ensurePath g 0 base).1 (ensurePath g 0 base).2 src).1.nodes.length :=
      Nat.lt_of_lt_of_le v0 (ensurePath_length_le _ _ _)
    have v2 := ensurePath_valid w1 v0' dst
    exact addEdge_wf w2 (Nat.lt_of_lt_of_le v1 (ensurePath_length_le _ _ _)) v2 _ _ _ _ _

/-- C09 (graph-construction layer): the graph built by any sequence of operations is a well-formed tree -/
theorem C09_reachable_wf (ops : List Op) : TreeWF (build ops) := by
  unfold build
  suffices h : ∀ g, TreeWF g → TreeWF (ops.foldl apply g) from h init init_wf
  induction ops with
  | nil => intro g wf; simpa using wf
  | cons op rest ih => intro g wf; simp only [List.foldl_cons]; exact ih _ (op_preserves_wf wf op)

/-! ### consequences in the words of the property -/

/-- each object is listed once -/
theorem objects_nodup {g : Graph} (wf : TreeWF g) : g.objects.Nodup := by
  rw [wf.objects_eq]; exact List.nodup_range'

/-- every listed object is a non-root node of the arena -/
theorem objects_mem {g : Graph} (wf : TreeWF g) (i : Nat) : i ∈ g.objects ↔ 0 < i ∧ i < g.nodes.length := by
  rw [wf.objects_eq, List.mem_range'_1]; have := wf.nonempty; omega

/-- follows parents from `i`; true when the root is reached within `fuel` steps -/
def reachesRoot (g : Graph) : Nat → Nat → Bool
  | _, 0 => true
  | 0, _ => false
  | fuel + 1, i =>
    match g.nodes[i]? with
    | none => false
    | some n => reachesRoot g fuel n.parent

/-- each object reaches the root through its parent chain (in at most `i` steps: parents are older) -/
theorem reaches_root {g : Graph} (wf : TreeWF g) : ∀ i, i < g.nodes.length → reachesRoot g i i = true := by
  suffices h : ∀ fuel i, i ≤ fuel → i < g.nodes.length → reachesRoot g fuel i = true from fun i hi => h i i (Nat.le_refl _) hi
  intro fuel
  induction fuel with
  | zero => intro i hi _; have : i = 0 := by omega
            subst this; simp [reachesRoot]
  | succ fuel ih =>
    intro i hi hlt
    cases i with
    | zero => simp [reachesRoot]
    | succ i =>
      simp only [reachesRoot]
      have hsome : g.nodes[i + 1]? = some g.nodes[i + 1] := List.getElem?_eq_getElem hlt
      rw [hsome]
      have hp := (wf.node _ _ hsome).parent_lt (by omega)
      exact ih _ (by omega) (by omega)

/-! ### order of first appearance (`SortObjectsByAST` / `SortEdgesByAST` given the position keys) -/

theorem insertBy_perm {α} (key : α → Nat) (x : α) (l : List α) : (insertBy key x l).Perm (x :: l) := by
  induction l with
  | nil => simp [insertBy]
  | cons y r ih =>
    simp only [insertBy]
    split
    · exact List.Perm.refl _
    · exact (List.Perm.cons y ih).trans (List.Perm.swap x y r)

theorem insertBy_sorted {α} (key : α → Nat) (x : α) (l : List α)
    (h : l.Pairwise fun a b => key a ≤ key b) : (insertBy key x l).Pairwise fun a b => key a ≤ key b := by
  induction l with
  | nil => simp [insertBy]
  | cons y r ih =>
    simp only [insertBy]
    have hy := List.pairwise_cons.mp h
    split
    · rename_i hlt
      refine List.pairwise_cons.mpr ⟨?_, h⟩
      intro a ha
      rcases List.mem_cons.mp ha with rfl | ha
      · omega
      · have := hy.1 a ha; omega
    · rename_i hge
      refine List.pairwise_cons.mpr ⟨?_, ih hy.2⟩
      intro a ha
      rcases List.mem_cons.mp ((insertBy_perm key x r).mem_iff.mp ha) with rfl | ha
      · omega
      · exact hy.1 a ha

theorem foldl_insertBy_sorted {α} (key : α → Nat) (xs acc : List α)
    (h : acc.Pairwise fun a b => key a ≤ key b) :
    (xs.foldl (fun acc x => insertBy key x acc) acc).Pairwise fun a b => key a ≤ key b := by
  induction xs generalizing acc with
  | nil => simpa using h
  | cons x r ih => simp only [List.foldl_cons]; exact ih _ (insertBy_sorted key x acc h)

theorem foldl_insertBy_perm {α} (key : α → Nat) (xs acc : List α) :
    (xs.foldl (fun acc x => insertBy key x acc) acc).Perm (xs ++ acc) := by
  induction xs generalizing acc with
  | nil => simp
  | cons x r ih =>
    simp only [List.foldl_cons]
    refine (ih _).trans ?_
    refine (List.Perm.append_left r (insertBy_perm key x acc)).trans ?_
    simp

/-- the listed order is the order of first appearance: the same elements, sorted by position -/
theorem order_first_appearance {α} (key : α → Nat) (xs : List α) :
    (sortBy key xs).Pairwise (fun a b => key a ≤ key b) ∧ (sortBy key xs).Perm xs := by
  refine ⟨foldl_insertBy_sorted key xs [] List.Pairwise.nil, ?_⟩
  simpa [sortBy] using foldl_insertBy_perm key xs []

/-- the graph the reference interpreter + projection produce for ANY program of the core fragment (the pipeline that the
    correspondence stream compares with `d2compiler.Compile`) is a well-formed tree -/
theorem C09_compiled_wf (prog : List D2V.Sem.Decl) (g : Graph) (c : D2V.Sem.Canon) (h : D2V.Sem.run prog = .graph g c) :
    TreeWF g := by
  unfold D2V.Sem.run at h
  dsimp only at h
  split at h
  · cases h
  · split at h
    · cases h
    · cases h
      exact C09_reachable_wf _

example : TreeWF (build [.connect [] ["a"] ["B", "c"] false true "" [] 0, .ensure ["b", "C"], .attrs ["A"] (some "x") none [] none]) :=
  C09_reachable_wf _

end D2V.SemG
