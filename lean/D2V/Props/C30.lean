import D2V.Model.Escape
import D2V.Model.Xml
import D2V.Model.SvgAttr
import D2V.Model.Gradient
import D2V.Proofs.XmlLemmas
set_option linter.unusedSimpArgs false
/-! C30 — Rendered SVG is well-formed and user text cannot inject markup.

  Lead theorems (helper development in `Proofs/XmlLemmas.lean`, which proves `escapeText_safe`, `escape_in_text`,
  `escape_in_attr` and the tag lemmas `run_openTag` / `run_emptyTag` / `run_closeTag`):

  * `escape_in_text_ctx`, `escape_in_attr_ctx` — in ANY parser context (any open elements, anything before):
    an element whose text / attribute value is `escapeText s` adds exactly that one element to the tree.
  * `escape_in_text_wf`, `escape_in_attr_wf` — the closed-document forms of DESIGN §6.
  * `class_attr_safe` — the `<g class="…">` tag of shapes and connections (after the fix) has exactly one attribute,
    `class`, whatever the user's class names are; `C30_cx_class_attr` — the unfixed tag does not.
  * `gradient_svg_safe` — the emitted gradient fragment (after the fix) is well-formed and consists of the gradient
    element with one `<stop offset stop-color>` per colour stop, for every parsed gradient;
    `C30_cx_gradient_stop` — the unfixed emitter injects a `<script>` element.
-/
namespace D2V.C30
open D2V.Escape D2V.Xml D2V.SvgAttr D2V.Gradient

/-! ## in-context theorems -/

/-- an element `<n attrs>ESCAPED TEXT</n>` read in content mode — anywhere inside open elements, or as the root —
    contributes exactly `open n attrs, close` to the element tree and leaves the parser where it was -/
theorem escape_in_text_ctx (st : St) (k : Nat) (n : Name) (as : List (Name × List Char)) (s : List Char)
    (hm : st.mode = .content k) (hc : Clean st) (hroot : (st.stack.isEmpty && st.rootSeen) = false)
    (hn : validName n = true) (hok : AttrsOk as []) :
    run st (renderOpenTag n as ++ escapeText s ++ renderCloseTag n) =
      { st with mode := .content 0, rootSeen := true, rootDone := st.rootDone || st.stack.isEmpty,
                evs := .close :: .open n as :: st.evs } := by
  have h1 := run_openTag st k n as hm hc hroot hn hok
  obtain ⟨k', h2⟩ := escape_in_text s
    { st with mode := .content 0, stack := n :: st.stack, rootSeen := true, evs := .open n as :: st.evs } 0 rfl rfl
  have h3 := run_closeTag
    { st with mode := .content k', stack := n :: st.stack, rootSeen := true, evs := .open n as :: st.evs } k' n st.stack rfl hc rfl hn
  rw [run_append, run_append, h1, h2, h3]

/-- an empty element with an escaped attribute value, read anywhere, contributes exactly one element with exactly the
    attributes written; the user string is the (raw) value of the attribute it was written into -/
theorem escape_in_attr_ctx (st : St) (k : Nat) (n a : Name) (pre post : List (Name × List Char)) (s : List Char)
    (hm : st.mode = .content k) (hc : Clean st) (hroot : (st.stack.isEmpty && st.rootSeen) = false)
    (hn : validName n = true) (hok : AttrsOk (pre ++ (a, escapeText s) :: post) []) :
    run st (renderEmptyTag n (pre ++ (a, escapeText s) :: post)) =
      { st with mode := .content 0, rootSeen := true, rootDone := st.rootDone || st.stack.isEmpty,
                evs := .close :: .open n (pre ++ (a, escapeText s) :: post) :: st.evs } :=
  run_emptyTag st k n _ hm hc hroot hn hok

/-! ## closed documents -/

/-- the state "before the root element" -/
def st0 : St := { mode := .content 0 }

theorem clean_st0 : Clean st0 := by simp [Clean, st0]

/-- a document that starts with its root tag and takes `st0` to "root element closed" is well-formed, and its element
    tree is what was recorded -/
theorem doc_of_run (c : Char) (rest : List Char) (E : List Ev) (hc : isNameStart c = true)
    (h : run st0 ('<' :: c :: rest) = { st0 with rootSeen := true, rootDone := true, evs := E }) :
    wf ('<' :: c :: rest) = true ∧ events ('<' :: c :: rest) = E.reverse := by
  have e : run init ('<' :: c :: rest) = run st0 ('<' :: c :: rest) := by
    simp [run, step, init, st0, hc]
  constructor
  · rw [wf, e, h]; simp [accepting, st0]
  · rw [events, e, h]

def tName : Name := ['t']

/-- `<t>` + escaped user text + `</t>` is a well-formed document whose element tree is the single element `t` -/
theorem escape_in_text_wf (s : List Char) :
    wf (renderOpenTag tName [] ++ escapeText s ++ renderCloseTag tName) = true ∧
    events (renderOpenTag tName [] ++ escapeText s ++ renderCloseTag tName) = [.open tName [], .close] := by
  have h := escape_in_text_ctx st0 0 tName [] s rfl clean_st0 rfl (by decide) trivial
  have e : renderOpenTag tName [] ++ escapeText s ++ renderCloseTag tName =
      '<' :: 't' :: ('>' :: (escapeText s ++ renderCloseTag tName)) := by simp [renderOpenTag, renderAttrs, tName]
  rw [e] at h ⊢
  exact doc_of_run 't' _ [.close, .open tName []] (by decide) h

def aName : Name := ['a']

/-- `<t a="` + escaped user text + `" />` is a well-formed document: one element, one attribute `a` whose raw value is
    the escaped text -/
theorem escape_in_attr_wf (s : List Char) :
    wf (renderEmptyTag tName [(aName, escapeText s)]) = true ∧
    events (renderEmptyTag tName [(aName, escapeText s)]) = [.open tName [(aName, escapeText s)], .close] := by
  have hok : AttrsOk [(aName, escapeText s)] [] :=
    ⟨by decide, attrValOk_escaped '"' (Or.inl rfl) s, by simp, trivial⟩
  have h := run_emptyTag st0 0 tName [(aName, escapeText s)] rfl clean_st0 rfl (by decide) hok
  have e : renderEmptyTag tName [(aName, escapeText s)] =
      '<' :: 't' :: (renderAttrs [(aName, escapeText s)] ++ [' ', '/', '>']) := by simp [renderEmptyTag, tName]
  rw [e] at h ⊢
  exact doc_of_run 't' _ [.close, .open tName [(aName, escapeText s)]] (by decide) h

example : wf (renderOpenTag tName [] ++ escapeText "<script>&\"'".toList ++ renderCloseTag tName) = true :=
  (escape_in_text_wf _).1

/-! ## class names (`<g class="…">` of every shape and connection) -/

def gName : Name := ['g']
def classN : Name := ['c', 'l', 'a', 's', 's']

theorem groupOpen_eq (id64 : List Char) (animated : Bool) (classes : List (List Char)) :
    groupOpen id64 animated classes = renderOpenTag gName [(classN, escapeText (classValue id64 animated classes))] := by
  simp only [groupOpen, groupOpenWith, renderOpenTag, renderAttrs, attrBody, gName, classN, List.append_assoc,
    List.cons_append, List.nil_append, List.append_nil]

/-- **class names cannot add attributes or elements**: whatever the ID and the user's class names are, the group tag
    (closed by `</g>`) is a well-formed document with exactly one element `g` carrying exactly one attribute, `class`,
    whose raw value is the escaped, space-joined class list -/
theorem class_attr_safe (id64 : List Char) (animated : Bool) (classes : List (List Char)) :
    wf (groupOpen id64 animated classes ++ renderCloseTag gName) = true ∧
    events (groupOpen id64 animated classes ++ renderCloseTag gName) =
      [.open gName [(classN, escapeText (classValue id64 animated classes))], .close] := by
  have hok : AttrsOk [(classN, escapeText (classValue id64 animated classes))] [] :=
    ⟨by decide, attrValOk_escaped '"' (Or.inl rfl) _, by simp, trivial⟩
  have h := escape_in_text_ctx st0 0 gName _ [] rfl clean_st0 rfl (by decide) hok
  rw [groupOpen_eq]
  have e : renderOpenTag gName [(classN, escapeText (classValue id64 animated classes))] ++ renderCloseTag gName =
      '<' :: 'g' :: (renderAttrs [(classN, escapeText (classValue id64 animated classes))] ++ '>' :: renderCloseTag gName) := by
    simp [renderOpenTag, gName]
  rw [show escapeText [] = [] from rfl, List.append_nil, e] at h
  rw [e]
  exact doc_of_run 'g' _ _ (by decide) h

/-- in any context: the group tag opens exactly one element with exactly the `class` attribute -/
theorem class_attr_ctx (st : St) (k : Nat) (id64 : List Char) (animated : Bool) (classes : List (List Char))
    (hm : st.mode = .content k) (hc : Clean st) (hroot : (st.stack.isEmpty && st.rootSeen) = false) :
    run st (groupOpen id64 animated classes) =
      { st with mode := .content 0, stack := gName :: st.stack, rootSeen := true,
                evs := .open gName [(classN, escapeText (classValue id64 animated classes))] :: st.evs } := by
  rw [groupOpen_eq]
  exact run_openTag st k gName _ hm hc hroot (by decide)
    ⟨by decide, attrValOk_escaped '"' (Or.inl rfl) _, by simp, trivial⟩

/-- the witness of DESIGN §7: `class: 'c" onload="alert(1)'` on shape `x` (ID class `eA==`) -/
def cxClass : List (List Char) := ["c\" onload=\"alert(1)".toList]

/-- **counterexample (unfixed tree)**: with the class names interpolated verbatim the document is still well-formed
    but the `g` element has gained an `onload` attribute -/
theorem C30_cx_class_attr :
    wf (groupOpenUnescaped "eA==".toList false cxClass ++ renderCloseTag gName) = true ∧
    attributeNames (events (groupOpenUnescaped "eA==".toList false cxClass ++ renderCloseTag gName)) =
      [classN, "onload".toList] := by decide

/-- the same witness through the fixed tag: one attribute -/
example : attributeNames (events (groupOpen "eA==".toList false cxClass ++ renderCloseTag gName)) = [classN] := by
  rw [(class_attr_safe _ _ _).2]; rfl

/-! ## gradients (`lib/color/gradient.go`, emitter after the fix) -/

def stopN : Name := ['s', 't', 'o', 'p']
def offsetN : Name := ['o', 'f', 'f', 's', 'e', 't']
def stopColorN : Name := ['s', 't', 'o', 'p', '-', 'c', 'o', 'l', 'o', 'r']
def linN : Name := ['l', 'i', 'n', 'e', 'a', 'r', 'G', 'r', 'a', 'd', 'i', 'e', 'n', 't']
def radN : Name := ['r', 'a', 'd', 'i', 'a', 'l', 'G', 'r', 'a', 'd', 'i', 'e', 'n', 't']
def idN : Name := ['i', 'd']
def x1N : Name := ['x', '1']
def y1N : Name := ['y', '1']
def x2N : Name := ['x', '2']
def y2N : Name := ['y', '2']

def stopAttrs (off col : List Char) : List (Name × List Char) :=
  [(offsetN, escapeText off), (stopColorN, escapeText col)]

theorem stopLine_eq (off col : List Char) :
    stopLine escapeText off col = renderEmptyTag stopN (stopAttrs off col) ++ ['\n'] := by
  simp only [stopLine, renderEmptyTag, renderAttrs, attrBody, stopAttrs, stopN, offsetN, stopColorN, List.append_assoc,
    List.cons_append, List.nil_append, List.append_nil]

theorem stopAttrs_ok (off col : List Char) : AttrsOk (stopAttrs off col) [] :=
  ⟨by decide, attrValOk_escaped '"' (Or.inl rfl) _, by simp,
   by decide, attrValOk_escaped '"' (Or.inl rfl) _, by decide, trivial⟩

/-- events (newest first) recorded for the stop lines -/
def stopEvsRev (n : Nat) : Nat → List Stop → List Ev
  | _, [] => []
  | i, s :: rest => stopEvsRev n (i + 1) rest ++ [.close, .open stopN (stopAttrs (offsetOf i n s) s.color)]

theorem run_newline (st : St) (k : Nat) (hm : st.mode = .content k) (hs : st.stack.isEmpty = false) :
    run st ['\n'] = { st with mode := .content 0 } := by
  have d : ('\n' : Char) ≠ '<' ∧ ('\n' : Char) ≠ '&' ∧ isSpace '\n' = true := by decide
  simp only [run, List.foldl, step, hm]
  simp [d.1, d.2.1, d.2.2]

/-- the stop lines, read inside the open gradient element, record one empty `stop` element each and nothing else -/
theorem run_stops (n : Nat) (stops : List Stop) (i : Nat) (st : St) (hm : st.mode = .content 0) (hc : Clean st)
    (hs : st.stack.isEmpty = false) (hr : st.rootSeen = true) :
    run st (stopsFrom escapeText n i stops) = { st with evs := stopEvsRev n i stops ++ st.evs } := by
  induction stops generalizing i st with
  | nil => cases st; simp_all [stopsFrom, stopEvsRev, run]
  | cons s rest ih =>
    have h1 := run_emptyTag st 0 stopN (stopAttrs (offsetOf i n s) s.color) hm hc (by simp [hs]) (by decide)
      (stopAttrs_ok _ _)
    have h2 := run_newline
      { st with mode := .content 0, rootSeen := true, rootDone := st.rootDone || st.stack.isEmpty,
                evs := .close :: .open stopN (stopAttrs (offsetOf i n s) s.color) :: st.evs } 0 rfl hs
    have h3 := ih (i + 1)
      { st with mode := .content 0, rootSeen := true, rootDone := st.rootDone || st.stack.isEmpty,
                evs := .close :: .open stopN (stopAttrs (offsetOf i n s) s.color) :: st.evs } rfl hc hs rfl
    simp only [stopsFrom, stopLine_eq]
    rw [run_append, run_append, h1, h2, h3]
    cases st; simp_all [stopEvsRev]

theorem stopEvsOk_rev (n : Nat) (stops : List Stop) (i : Nat) :
    stopEvsOk ((stopEvsRev n i stops).reverse ++ [.close]) stops.length = none := by
  induction stops generalizing i with
  | nil => rfl
  | cons s rest ih =>
    simp only [stopEvsRev, List.reverse_append, List.reverse_cons, List.reverse_nil, List.nil_append, List.cons_append,
      List.length_cons, List.append_assoc]
    simp only [stopEvsOk, stopAttrs, List.map_cons, List.map_nil]
    simpa [stopN, offsetN, stopColorN] using ih (i + 1)

def gradName (g : Gradient) : Name := if g.type == "linear" then linN else radN

def gradAttrs (g : Gradient) (id x1 y1 x2 y2 : List Char) : List (Name × List Char) :=
  if g.type == "linear" then [(idN, id), (x1N, x1), (y1N, y1), (x2N, x2), (y2N, y2)] else [(idN, id)]

theorem emit_eq (g : Gradient) (id x1 y1 x2 y2 : List Char) (hty : g.type = "linear" ∨ g.type = "radial") :
    gradientToSVG g id (x1, y1, x2, y2) =
      renderOpenTag (gradName g) (gradAttrs g id x1 y1 x2 y2) ++ ['\n'] ++ stopsFrom escapeText g.stops.length 0 g.stops
        ++ renderCloseTag (gradName g) := by
  rcases hty with h | h
  · simp only [gradientToSVG, emit, h, gradName, gradAttrs, renderOpenTag, renderCloseTag, renderAttrs, attrBody, linN,
      idN, x1N, y1N, x2N, y2N, List.append_assoc, List.cons_append, List.nil_append, List.append_nil, beq_self_eq_true, if_true]
  · have hne : ("radial" == "linear") = false := by decide
    simp only [gradientToSVG, emit, h, hne, gradName, gradAttrs, renderOpenTag, renderCloseTag, renderAttrs, attrBody, radN,
      idN, List.append_assoc, List.cons_append, List.nil_append, List.append_nil, beq_self_eq_true, if_true, if_false,
      Bool.false_eq_true]

def plainVal (v : List Char) : Bool := v.all (plainAttrChar '"')

theorem gradAttrs_ok (g : Gradient) (id x1 y1 x2 y2 : List Char) (hid : plainVal id = true) (h1 : plainVal x1 = true)
    (h2 : plainVal y1 = true) (h3 : plainVal x2 = true) (h4 : plainVal y2 = true) :
    AttrsOk (gradAttrs g id x1 y1 x2 y2) [] := by
  unfold gradAttrs
  split
  · exact ⟨by decide, attrValOk_plain _ _ hid, by simp, by decide, attrValOk_plain _ _ h1, by decide,
      by decide, attrValOk_plain _ _ h2, by decide, by decide, attrValOk_plain _ _ h3, by decide,
      by decide, attrValOk_plain _ _ h4, by decide, trivial⟩
  · exact ⟨by decide, attrValOk_plain _ _ hid, by simp, trivial⟩

theorem gradName_valid (g : Gradient) : validName (gradName g) = true := by
  unfold gradName; split <;> decide

/-- **the gradient emitter cannot inject markup**: for every gradient (any colour stops, any positions — they are not
    validated), an ID and direction coordinates without `"`, `<`, `&` (the ID is `grad-` + hex, the coordinates are
    numeric text), the emitted fragment is a well-formed document consisting of the gradient element with exactly the
    expected attributes and exactly one `<stop offset stop-color>` per colour stop. -/
theorem gradient_svg_safe (g : Gradient) (id x1 y1 x2 y2 : List Char) (hty : g.type = "linear" ∨ g.type = "radial")
    (hid : plainVal id = true) (h1 : plainVal x1 = true) (h2 : plainVal y1 = true) (h3 : plainVal x2 = true)
    (h4 : plainVal y2 = true) :
    wf (gradientToSVG g id (x1, y1, x2, y2)) = true ∧
    shapeOk g (events (gradientToSVG g id (x1, y1, x2, y2))) = none := by
  have hn := gradName_valid g
  have hok := gradAttrs_ok g id x1 y1 x2 y2 hid h1 h2 h3 h4
  have r1 := run_openTag st0 0 (gradName g) (gradAttrs g id x1 y1 x2 y2) rfl clean_st0 rfl hn hok
  have r2 := run_newline
    { st0 with mode := .content 0, stack := gradName g :: st0.stack, rootSeen := true,
               evs := .open (gradName g) (gradAttrs g id x1 y1 x2 y2) :: st0.evs } 0 rfl rfl
  have r3 := run_stops g.stops.length g.stops 0
    { st0 with mode := .content 0, stack := gradName g :: st0.stack, rootSeen := true,
               evs := .open (gradName g) (gradAttrs g id x1 y1 x2 y2) :: st0.evs } rfl clean_st0 rfl rfl
  have r4 := run_closeTag
    { st0 with mode := .content 0, stack := gradName g :: st0.stack, rootSeen := true,
               evs := stopEvsRev g.stops.length 0 g.stops ++ .open (gradName g) (gradAttrs g id x1 y1 x2 y2) :: st0.evs }
    0 (gradName g) [] rfl clean_st0 rfl hn
  have hrun : run st0 (gradientToSVG g id (x1, y1, x2, y2)) =
      { st0 with rootSeen := true, rootDone := true,
                 evs := .close :: (stopEvsRev g.stops.length 0 g.stops ++ [.open (gradName g) (gradAttrs g id x1 y1 x2 y2)]) } := by
    dsimp only at r1 r2 r3 r4
    rw [emit_eq g id x1 y1 x2 y2 hty, run_append, run_append, run_append, r1, r2, r3, r4]
    simp [st0]
  obtain ⟨c, cs, hcs, hcn⟩ : ∃ c cs, gradName g = c :: cs ∧ isNameStart c = true := by
    unfold gradName; split
    · exact ⟨_, _, rfl, by decide⟩
    · exact ⟨_, _, rfl, by decide⟩
  have hshape : ∃ rest, gradientToSVG g id (x1, y1, x2, y2) = '<' :: c :: rest := by
    rw [emit_eq g id x1 y1 x2 y2 hty, hcs]
    refine ⟨cs ++ (renderAttrs (gradAttrs g id x1 y1 x2 y2) ++
      '>' :: '\n' :: (stopsFrom escapeText g.stops.length 0 g.stops ++ renderCloseTag (c :: cs))), ?_⟩
    simp [renderOpenTag]
  obtain ⟨rest, hr⟩ := hshape
  rw [hr] at hrun ⊢
  obtain ⟨w, e⟩ := doc_of_run c rest _ hcn hrun
  refine ⟨w, ?_⟩
  rw [e]
  simp only [List.reverse_cons, List.reverse_append, List.reverse_nil, List.nil_append, List.cons_append, List.append_assoc]
  unfold shapeOk gradName gradAttrs
  rcases hty with h | h
  · simp [h, linN, linAttrs, idN, x1N, y1N, x2N, y2N]
    simpa using stopEvsOk_rev g.stops.length g.stops 0
  · have hne : ("radial" == "linear") = false := by decide
    simp [h, hne, radN, idN]
    simpa using stopEvsOk_rev g.stops.length g.stops 0

/-- every parsed gradient is linear or radial, so `gradient_svg_safe` applies to everything `ParseGradient` accepts -/
theorem parseGradient_type (css : List Char) (g : Gradient) (h : parseGradient css = some g) :
    g.type = "linear" ∨ g.type = "radial" := by
  unfold parseGradient at h
  simp only at h
  split at h
  · exact absurd h (by simp)
  · rename_i ty params hm
    have hty : ty = "linear" ∨ ty = "radial" := by
      split at hm
      · simp at hm; exact Or.inl hm.1.symm
      · cases hr : matchKw radKw 0 (trimSpace css) with
        | none => simp [hr] at hm
        | some b => simp [hr] at hm; exact Or.inr hm.1.symm
    split at h
    · exact absurd h (by simp)
    · split at h
      · split at h
        · exact absurd h (by simp)
        · simp at h; rw [← h]; exact hty
      · split at h
        · split at h
          · exact absurd h (by simp)
          · simp at h; rw [← h]; exact hty
        · simp at h; rw [← h]; exact hty

/-! ## the parameters of `gradient_svg_safe` for non-`deg` directions and real IDs -/

def IsPct (v : List Char) : Prop := v = pct "0%" ∨ v = pct "50%" ∨ v = pct "100%"

theorem isPct_plain {v : List Char} (h : IsPct v) : plainVal v = true := by
  rcases h with h | h | h <;> subst h <;> decide

def AllPct (q : List Char × List Char × List Char × List Char) : Prop :=
  IsPct q.1 ∧ IsPct q.2.1 ∧ IsPct q.2.2.1 ∧ IsPct q.2.2.2

/-- `parseLinearGradientDirection` without `deg` only ever yields 0%, 50% or 100% -/
theorem linearCoords_pct (d : List Char) (q : List Char × List Char × List Char × List Char)
    (h : linearCoords d = some q) : AllPct q := by
  have p0 : IsPct (pct "0%") := Or.inl rfl
  have p50 : IsPct (pct "50%") := Or.inr (Or.inl rfl)
  have p100 : IsPct (pct "100%") := Or.inr (Or.inr rfl)
  unfold linearCoords at h
  simp only at h
  split at h
  · -- `to …`: the fold keeps every component in {0%, 50%, 100%}
    have inv : ∀ (parts : List (List Char)) (acc : List Char × List Char × List Char × List Char), AllPct acc →
        AllPct (parts.foldl (fun (acc : List Char × List Char × List Char × List Char) p =>
          if p == "left".toList then (pct "100%", acc.2.1, pct "0%", acc.2.2.2)
          else if p == "right".toList then (pct "0%", acc.2.1, pct "100%", acc.2.2.2)
          else if p == "top".toList then (acc.1, pct "100%", acc.2.2.1, pct "0%")
          else if p == "bottom".toList then (acc.1, pct "0%", acc.2.2.1, pct "100%")
          else acc) acc) := by
      intro parts
      induction parts with
      | nil => intro acc ha; exact ha
      | cons p ps ih =>
        intro acc ha
        simp only [List.foldl_cons]
        apply ih
        obtain ⟨a1, a2, a3, a4⟩ := ha
        split
        · exact ⟨p100, a2, p0, a4⟩
        · split
          · exact ⟨p0, a2, p100, a4⟩
          · split
            · exact ⟨a1, p100, a3, p0⟩
            · split
              · exact ⟨a1, p0, a3, p100⟩
              · exact ⟨a1, a2, a3, a4⟩
    simp only [Option.some.injEq] at h
    rw [← h]
    exact inv _ _ ⟨p50, p50, p50, p50⟩
  · split at h
    · exact absurd h (by simp)
    · simp only [Option.some.injEq] at h
      rw [← h]
      exact ⟨p0, p0, p0, p100⟩

/-- `gradient_svg_safe` for every gradient `ParseGradient` accepts whose direction is not an angle, and any ID made of
    characters other than `"`, `<`, `&` (the real one is `grad-` + 40 hex digits) -/
theorem parsed_gradient_svg_safe (css id : List Char) (g : Gradient) (q : List Char × List Char × List Char × List Char)
    (hp : parseGradient css = some g) (hq : linearCoords g.direction = some q) (hid : plainVal id = true) :
    wf (gradientToSVG g id q) = true ∧ shapeOk g (events (gradientToSVG g id q)) = none := by
  obtain ⟨a1, a2, a3, a4⟩ := linearCoords_pct _ _ hq
  obtain ⟨x1, y1, x2, y2⟩ := q
  exact gradient_svg_safe g id x1 y1 x2 y2 (parseGradient_type css g hp) hid (isPct_plain a1) (isPct_plain a2)
    (isPct_plain a3) (isPct_plain a4)

/-- the hypotheses of the in-context theorems are satisfiable: the state before the root element -/
example : st0.mode = .content 0 ∧ Clean st0 ∧ (st0.stack.isEmpty && st0.rootSeen) = false := ⟨rfl, clean_st0, rfl⟩

/-! ## the escaped form denotes the user's string -/

theorem decode_fold_append (st : Option (List Char) × List Char) (a b : List Char) :
    (a ++ b).foldl decodeStep st = b.foldl decodeStep (a.foldl decodeStep st) := by simp [List.foldl_append]

/-- reading one escaped rune outside a reference yields the rune itself (U+FFFD for a non-XML character) -/
theorem decode_escXml (c : Char) (acc : List Char) :
    (escXml c).foldl decodeStep (none, acc) = (none, (if inCharRange c then c else repl) :: acc) := by
  by_cases h1 : c = '"'; · subst h1; rfl
  by_cases h2 : c = '\''; · subst h2; rfl
  by_cases h3 : c = '&'; · subst h3; rfl
  by_cases h4 : c = '<'; · subst h4; rfl
  by_cases h5 : c = '>'; · subst h5; rfl
  by_cases h6 : c = '\t'; · subst h6; rfl
  by_cases h7 : c = '\n'; · subst h7; rfl
  by_cases h8 : c = '\r'; · subst h8; rfl
  have hr : repl ≠ '&' := by decide
  by_cases h9 : inCharRange c = true
  · simp [escXml, h1, h2, h3, h4, h5, h6, h7, h8, h9, decodeStep]
  · simp [escXml, h1, h2, h3, h4, h5, h6, h7, h8, h9, decodeStep, hr]

/-- **round trip**: resolving the references of `escapeText s` gives `s` back, with characters XML cannot carry
    replaced by U+FFFD — an escaped attribute value / text node denotes exactly the user's string -/
theorem decode_escapeText (s : List Char) : decodeRefs (escapeText s) = sanitize s := by
  have h : ∀ (s acc : List Char), (escapeText s).foldl decodeStep (none, acc) = (none, (sanitize s).reverse ++ acc) := by
    intro s
    induction s with
    | nil => intro acc; rfl
    | cons c s ih =>
      intro acc
      rw [escapeText_cons, decode_fold_append, decode_escXml, ih]
      simp [sanitize]
  simp [decodeRefs, h s []]

/-- the witness of DESIGN §7: `fill: 'linear-gradient(red 0"><script>alert(1)</script><stop, blue)'` -/
def cxGradCss : List Char := "linear-gradient(red 0\"><script>alert(1)</script><stop, blue)".toList

def cxGrad : Gradient :=
  ⟨"linear", [], [⟨"red".toList, "0\"><script>alert(1)</script><stop".toList⟩, ⟨"blue".toList, []⟩]⟩

set_option maxRecDepth 8000 in
theorem cxGrad_parsed : parseGradient cxGradCss = some cxGrad := by decide

set_option maxRecDepth 8000 in
/-- **counterexample (unfixed tree)**: the unescaped emitter turns the stop position into a `<script>` element -/
theorem C30_cx_gradient_stop :
    "script".toList ∈ elementNames
      (events (gradientToSVGUnescaped cxGrad "grad-0".toList ("0%".toList, "0%".toList, "0%".toList, "100%".toList))) := by
  decide

/-- the hypotheses of `gradient_svg_safe` are satisfiable, and on the DESIGN §7 witness the fixed emitter is safe
    where the unfixed one injects `<script>` (`C30_cx_gradient_stop`) -/
example : wf (gradientToSVG cxGrad "grad-0".toList ("0%".toList, "0%".toList, "0%".toList, "100%".toList)) = true ∧
    shapeOk cxGrad (events (gradientToSVG cxGrad "grad-0".toList ("0%".toList, "0%".toList, "0%".toList, "100%".toList))) = none :=
  gradient_svg_safe cxGrad _ _ _ _ _ (Or.inl rfl) (by decide) (by decide) (by decide) (by decide) (by decide)

end D2V.C30
