import D2V.Model.Sizing
import D2V.Props.C27
import Mathlib.Tactic.Linarith
import Mathlib.Tactic.NormNum
import Mathlib.Tactic.SplitIfs
/-! C21 — Explicit sizes are honoured and automatic sizes fit the label.

  Theorems about `Sizing.sizeOfObj`, the model of the per-object body of `Graph.SetDimensions`
  (+ `GetDefaultSize` + `SizeToContent`), for every label size, padding and explicit size. -/
namespace D2V.Sizing
open D2V.Shape

/-- the shape types whose `GetDimensionsToFit` is in the model -/
def modelled (i : In) : Prop := i.tc = .person ∨ ∃ k, i.kind = some k

theorem defaultDims_some (i : In) (b : Bool) (h1 : i.dsl ≠ .cls) (h2 : i.dsl ≠ .sqlTable) : ∃ c, defaultDims i b = some c := by
  unfold defaultDims
  cases hd : i.dsl <;> simp_all

/-- **explicit_honoured**: a shape that is not a square/circle and not a table/class/code/markdown shape, given both
    `width` and `height`, gets exactly that size — whatever its label, icon, link or padding. -/
theorem explicit_honoured (i : In) (hw : i.dw ≠ 0) (hh : i.dh ≠ 0)
    (hcs : i.contentShape = false) (har : isAR1 i = false)
    (hd1 : i.dsl ≠ .circle) (hd2 : i.dsl ≠ .square) (hd3 : i.dsl ≠ .image) (hd4 : i.dsl ≠ .cls) (hd5 : i.dsl ≠ .sqlTable)
    (hm : modelled i) :
    sizeOfObj i = some (i.dw, i.dh) := by
  unfold sizeOfObj
  by_cases h1 : i.labelEmpty = true ∧ i.dsl ≠ .image ∧ i.dsl ≠ .sqlTable ∧ i.dsl ≠ .cls
  · rw [if_pos h1, if_neg (by rintro (h | h); exact hd1 h; exact hd2 h)]
    simp only [if_pos hw, if_pos hh]
  · rw [if_neg h1]
    obtain ⟨c, hc⟩ := defaultDims_some i (withPad i) hd4 hd5
    rw [hc]
    simp only [hd3, if_false]
    unfold sizeToContent
    rcases hm with hp | ⟨k, hk⟩
    · simp [hp, hcs, har, hw, hh]
    · by_cases hp : i.tc = .person
      · simp [hp, hcs, har, hw, hh]
      · simp [hp, hk, hcs, har, hw, hh]

/-- **ar1_uses_max** (no label): squares and circles use the larger explicit dimension for both sides -/
theorem ar1_uses_max_empty_label (i : In) (hl : i.labelEmpty = true) (hd : i.dsl = .circle ∨ i.dsl = .square)
    (hw : i.dw ≠ 0 ∨ i.dh ≠ 0) :
    sizeOfObj i = some (max i.dw i.dh, max i.dw i.dh) := by
  have h3 : i.dsl ≠ .image ∧ i.dsl ≠ .sqlTable ∧ i.dsl ≠ .cls := by
    rcases hd with h | h <;> (rw [h]; decide)
  unfold sizeOfObj
  rw [if_pos ⟨hl, h3⟩, if_pos hd]
  simp only [if_pos hw]

/-- **ar1_uses_max** (labelled square): both sides are the larger of the two sides `SizeToContent` arrives at —
    with both dimensions given, the larger explicit dimension -/
theorem ar1_uses_max_square (i : In) (cw ch px py : Rat) (hk : i.kind = some .realSquare) (htc : i.tc = .other)
    (hcs : i.contentShape = false) (hw : i.dw ≠ 0) (hh : i.dh ≠ 0) :
    sizeToContent i cw ch px py = some (max i.dw i.dh, max i.dw i.dh) := by
  unfold sizeToContent
  have har : isAR1 i = true := by simp [isAR1, hk]
  simp [htc, hk, har, hcs, hw, hh]

/-- **content_shapes_never_shrink**: tables, classes, code and markdown text (`contentShape`) are at least as large as
    their content and at least as large as the explicit size -/
theorem content_shapes_never_shrink (i : In) (cw ch px py : Rat) (hcs : i.contentShape = true)
    (ht : i.tc = .table ∨ i.tc = .cls ∨ i.tc = .code ∨ i.tc = .text) (hk : i.kind = some .rect)
    (hpx : 0 ≤ px) (hpy : 0 ≤ py) :
    ∃ W H, sizeToContent i cw ch px py = some (W, H) ∧ cw ≤ W ∧ ch ≤ H ∧ i.dw ≤ W ∧ i.dh ≤ H := by
  have hp : i.tc ≠ .person := by rcases ht with h | h | h | h <;> (rw [h]; decide)
  have ho : i.tc ≠ .oval := by rcases ht with h | h | h | h <;> (rw [h]; decide)
  have hc : i.tc ≠ .circle := by rcases ht with h | h | h | h <;> (rw [h]; decide)
  have har : isAR1 i = false := by simp [isAR1, hk, hc]
  have a := le_ceilR (cw + px)
  have b := le_ceilR (ch + py)
  refine ⟨max i.dw (ceilR (cw + px)), max i.dh (ceilR (ch + py)), ?_, ?_, ?_, le_max_left _ _, le_max_left _ _⟩
  · unfold sizeToContent
    simp only [hp, if_false, hk, fit, hcs, if_true, har, ho, Bool.false_eq_true]
    split_ifs <;> rfl
  · exact le_trans (by linarith) (le_max_right _ _)
  · exact le_trans (by linarith) (le_max_right _ _)

theorem innerOK_weaken {ib : IBox} {W H cw ch cw' ch' t : Rat} (h : innerOK ib W H cw ch t) (h1 : cw' ≤ cw) (h2 : ch' ≤ ch) :
    innerOK ib W H cw' ch' t := by
  unfold innerOK at h ⊢
  obtain ⟨a, b, c, d, e, f⟩ := h
  exact ⟨by linarith, by linarith, c, d, e, f⟩

theorem paddings_nonneg (i : In) (hpx : 0 ≤ i.padX) (hpy : 0 ≤ i.padY) (hlh : 0 ≤ i.lh) :
    0 ≤ (paddings i).1 ∧ 0 ≤ (paddings i).2 := by
  have h5 : (0 : Rat) ≤ innerLabelPadding := by norm_num [innerLabelPadding]
  unfold paddings
  constructor <;> simp only <;> split_ifs <;> linarith

/-- **auto_fits_label**: a shape of a piecewise-affine type, sized automatically (no explicit size), whose label is
    drawn inside it, gets a size whose inner box (C27) holds the label plus `INNER_LABEL_PADDING` — for every label
    size, with or without icon / link+tooltip padding. -/
theorem auto_fits_label (i : In) (k : Kind) (hk : i.kind = some k) (haff : k.affine = true)
    (hw : i.dw = 0) (hh : i.dh = 0) (hl : i.labelEmpty = false) (hcs : i.contentShape = false)
    (hd : i.dsl = .other ∨ i.dsl = .square ∨ i.dsl = .circle) (htc : i.tc = .other)
    (hlw : 0 ≤ i.lw) (hlh : 0 ≤ i.lh) (hpx : 0 ≤ i.padX) (hpy : 0 ≤ i.padY) :
    ∃ W H, sizeOfObj i = some (W, H) ∧ innerOK (inner k W H) W H (i.lw + innerLabelPadding) (i.lh + innerLabelPadding) 0 := by
  obtain ⟨p1, p2⟩ := paddings_nonneg i hpx hpy hlh
  have h5 : (0 : Rat) ≤ innerLabelPadding := by norm_num [innerLabelPadding]
  have hfit := fit_contains_affine k haff (i.lw + innerLabelPadding) (i.lh + innerLabelPadding) (paddings i).1 (paddings i).2
    (by linarith) (by linarith) p1 p2
  have hwp : withPad i = true := by
    unfold withPad
    rcases hd with h | h | h <;> simp [hw, hh, hl, h]
  have hdd : defaultDims i true = some (i.lw + innerLabelPadding, i.lh + innerLabelPadding) := by
    unfold defaultDims
    rcases hd with h | h | h <;> simp [h]
  have himg : i.dsl ≠ .image := by rcases hd with h | h | h <;> (rw [h]; decide)
  have hsz : sizeOfObj i = sizeToContent i (i.lw + innerLabelPadding) (i.lh + innerLabelPadding) (paddings i).1 (paddings i).2 := by
    unfold sizeOfObj
    rw [if_neg (by simp [hl]), hwp, hdd]
    simp only [himg, if_false]
  rw [hsz]
  unfold sizeToContent
  have hp : i.tc ≠ .person := by rw [htc]; decide
  have ho : i.tc ≠ .oval := by rw [htc]; decide
  have hc : i.tc ≠ .circle := by rw [htc]; decide
  simp only [hp, if_false, hk, hcs, hw, hh, ne_eq, not_true_eq_false, ho, true_or, if_true, Bool.false_eq_true]
  by_cases har : isAR1 i = true
  · have hk' : k = .realSquare := by
      simp only [isAR1, hk, decide_eq_true_eq, Option.some.injEq] at har
      rcases har with h | h
      · exact h
      · exact absurd h hc
    subst hk'
    rw [if_pos har]
    refine ⟨_, _, rfl, ?_⟩
    have e : (fit .realSquare (i.lw + innerLabelPadding) (i.lh + innerLabelPadding) (paddings i).1 (paddings i).2).1 =
        (fit .realSquare (i.lw + innerLabelPadding) (i.lh + innerLabelPadding) (paddings i).1 (paddings i).2).2 := rfl
    have hfit' := innerOK_weaken hfit (cw' := i.lw + innerLabelPadding) (ch' := i.lh + innerLabelPadding) (by linarith) (by linarith)
    unfold innerOK at hfit' ⊢
    simp only [inner] at hfit' ⊢
    rw [← e, max_self]
    rw [← e] at hfit'
    exact hfit'
  · rw [if_neg har]
    exact ⟨_, _, rfl, innerOK_weaken hfit (by linarith) (by linarith)⟩

/-- a hexagon `width: 300; height: 40` with a 500×90 label and an icon -/
def exampleIn : In where
  dsl := .other
  tc := .other
  kind := some .hexagon
  labelEmpty := false
  lw := 500
  lh := 90
  dw := 300
  dh := 40
  hasIcon := true
  linkTooltip := false
  fontSize := 16
  contentShape := false
  padX := 20
  padY := 20
  content := none

/-- Non-vacuity of `explicit_honoured` -/
example : sizeOfObj exampleIn = some (300, 40) :=
  explicit_honoured exampleIn (by norm_num [exampleIn]) (by norm_num [exampleIn]) rfl (by decide) (by decide) (by decide)
    (by decide) (by decide) (by decide) (Or.inr ⟨.hexagon, rfl⟩)

end D2V.Sizing
