import D2V.Model.Fmt
import D2V.Proofs.FmtFix
import D2V.Proofs.FmtAst
/-!
C03 — Formatting is idempotent.

`fmtFile` models d2format.Format and `normFile` models d2parser.Parse ∘ d2format.Format on the structural fragment
(both tied to the real code by the correspondence stream of `./check C03`).  Idempotence of the formatter on the
fragment is `fmtFile (normFile a) = fmtFile a`.

* `C03_idempotent_struct_partial` proves it for every tree in the decidable region `stableFile`
  (board blocks already last in a multi-line map and non-empty, no board keyword in odd letter case, a one-line file
  holds one declaration, strings free of line breaks).
* `C03_full_statement` (no hypothesis) is the stated goal; it is FALSE for the unchanged formatter:
  one counterexample theorem per excluded clause, each replayed on the implementation by the check's corpus.
-/
namespace D2V.Fmt

/-- the property on the fragment, at full strength -/
def C03_full_statement : Prop := ∀ a : N, fmtFile (normFile a) = fmtFile a

/-- Formatting the formatted text again reproduces it byte for byte (structural fragment, region `stableFile`). -/
theorem C03_idempotent_struct_partial (a : N) (h : stableFile a = true) : fmtFile (normFile a) = fmtFile a :=
  fix_file a h

/-- the nested version used by the file theorem: any stable value / map node at any indentation -/
theorem C03_fixpoint_nested (n : N) (ind : Nat) (h : stable n = true) : fmtV ind (normL ind n) = fmtV ind n :=
  fix_V n ind h

/-- keyword lower-casing of one unquoted text is idempotent -/
theorem C03_lowerKw_idem (s : Text) : lowerKw (lowerKw s) = lowerKw s := lowerKw_idem s

/-- tie R: the structural facts of the source the model relies on (regenerated from /repo on every run):
    printer._map defers board nodes through IsBoardNode, compares the board type with the same three literals
    IsBoardNode switches on, still has the `Start.Line != 0` rule, and every board keyword is a reserved keyword.
    If format.go / d2ast.go / keywords.go change shape here, this obligation breaks and the check searches. -/
theorem C03_model_matches_source_shape :
    D2V.Gen.FmtKw.mapDefersBoards = true ∧ D2V.Gen.FmtKw.mapLine0Rule = true ∧
    D2V.Gen.FmtKw.mapBoardTypeLiterals = D2V.Gen.FmtKw.isBoardNodeLabels ∧
    D2V.Gen.FmtKw.isBoardNodeLabels = D2V.Gen.FmtKw.boardKeywords ∧
    (∀ k ∈ D2V.Gen.FmtKw.boardKeywords, isReserved k = true) := by decide

/-! ### concrete trees -/

def u (s : String) : Str := { q := .u, raw := s.toList, val := s.toList }
def kh (s : String) : KeyHead := { amp := 0, key := some [u s], src := none, hops := [], eidx := .none, ekey := none }
/-- `name` / `name: {…}` as a map node -/
def kn (blank l0 : Bool) (s : String) (v : N) : N := .mnode blank l0 (.key (kh s) none v)
def sv (s : String) : N := .scalar (.str (u s))

/-- `a⏎b: [1; x]⏎⏎layers: {⏎  l: {⏎    SHAPE: circle⏎  }⏎}⏎` -/
def exStable : N :=
  .map false [kn false true "a" .absent,
    kn false false "b" (.arr true [.item false (.scalar (.num ['1'])), .item false (sv "x")]),
    kn true false "layers" (.map false [kn false false "l" (.map false [kn false false "shape" (sv "circle")])])]

/-- the hypothesis of the theorem is satisfiable by a tree with a board block, an array and nesting -/
example : stableFile exStable = true := by decide

/-- `layers: {l: {a}}⏎⏎b⏎` : a board block that is not last -/
def cxBoardNotLast : N :=
  .map false [kn false true "layers" (.map true [kn false true "l" (.map true [kn false true "a" .absent])]),
    kn true false "b" .absent]

theorem C03_cx_board_not_last : fmtFile (normFile cxBoardNotLast) ≠ fmtFile cxBoardNotLast := by decide

/-- `a; b` (no final newline): a one-line file with two declarations -/
def cxFileOneLine : N := .map true [kn false true "a" .absent, kn false true "b" .absent]

theorem C03_cx_file_one_line : fmtFile (normFile cxFileOneLine) ≠ fmtFile cxFileOneLine := by decide

/-- `y⏎x: { layers: {a: {b}} }⏎` : a board block inside a one-line map -/
def cxBoardInOneLineMap : N :=
  .map false [kn false true "y" .absent,
    kn false false "x" (.map true [kn false false "layers" (.map true [kn false false "a" (.map true [kn false false "b" .absent])])])]

theorem C03_cx_board_in_one_line_map :
    fmtFile (normFile cxBoardInOneLineMap) ≠ fmtFile cxBoardInOneLineMap := by decide

/-- `a: {layers}⏎` : a dropped (empty) board empties its map only after the first pass -/
def cxEmptyCascade : N := .map false [kn false true "a" (.map true [kn false true "layers" .absent])]

theorem C03_cx_empty_cascade : fmtFile (normFile cxEmptyCascade) ≠ fmtFile cxEmptyCascade := by decide

/-- `x: {⏎  Steps⏎}⏎` : a board keyword in odd case becomes a board node after lower-casing -/
def cxKeyCase : N := .map false [kn false true "x" (.map false [kn false false "Steps" .absent])]

theorem C03_cx_board_keyword_case : fmtFile (normFile cxKeyCase) ≠ fmtFile cxKeyCase := by decide

/-! ### the AST → AST rewrite in isolation -/

/-- `boardsLast` is a normal form (idempotent) on trees in which no board node is dropped -/
theorem boardsLast_idem_partial (a : N) (h : noDrop a = true) : boardsLast (boardsLast a) = boardsLast a :=
  boardsLast_idem a h

example : noDrop exStable = true := by decide

/-- `norm = lowerKeywords ∘ boardsLast` (what Parse ∘ Format does to a layout-free AST) is a normal form -/
theorem C03_idempotent_ast_partial (a : N) (h1 : noDrop a = true) (h2 : noKeyCase (boardsLast a) = true) :
    norm (norm a) = norm a := norm_idem a h1 h2

example : noKeyCase (boardsLast exStable) = true := by decide

/-- the first declaration of a file has no value (decidable view for the counterexample below) -/
def firstValAbsent : N → Bool
  | .map _ (.mnode _ _ (.key _ _ .absent) :: _) => true
  | _ => false

/-- … and not in general: `a: {layers}` → `a: {}` → `a` -/
theorem boardsLast_not_idem : boardsLast (boardsLast cxEmptyCascade) ≠ boardsLast cxEmptyCascade := by
  intro h
  have := congrArg firstValAbsent h
  revert this
  decide

theorem C03_full_statement_false : ¬ C03_full_statement := fun h => C03_cx_board_not_last (h _)

end D2V.Fmt
