import D2V.Model.Fmt
/-! C03 — Formatting is idempotent.  (Structural fragment; see props/C03/entry.json for what is proved vs sampled.) -/
namespace D2V.Fmt
open D2V.Gen

/-- every reserved keyword is its own lower-casing (the keyword table is regenerated from d2ast/keywords.go) -/
theorem reserved_lower_fixed : ∀ k ∈ FmtKw.reservedKeywords, lower k = k := by decide

theorem isReserved_lower_fixed (s : Text) (h : isReserved s = true) : lower s = s := by
  have hm : s ∈ FmtKw.reservedKeywords := by
    simpa [isReserved, List.contains_iff_mem] using h
  exact reserved_lower_fixed s hm

/-- keyword lower-casing of one unquoted text is idempotent -/
theorem lowerKw_idem (s : Text) : lowerKw (lowerKw s) = lowerKw s := by
  unfold lowerKw
  by_cases h : isReserved (lower s) = true
  · simp [h, isReserved_lower_fixed _ h]
  · simp [h]

end D2V.Fmt
