import D2V.Model.Links
import D2V.Proofs.RelLemmas
import D2V.Gen.LinksCfg
/-! C35 — Board links resolve to existing boards and are rewritten to the right files. -/
namespace D2V.Links
open D2V.Path

/-- **self_link_dropped**: a non-remote link that spells the board path `Graph.IDA()` yields for the object's own
    board is dropped (any variant of the code). -/
theorem self_link_dropped (cfg : Cfg) (root : Board) (ida : List String) (link : List Seg) (h : link.map (·.s) = ida) :
    validateLink cfg root ida false link = false := by
  unfold validateLink
  cases link with
  | nil => rfl
  | cons x r =>
    simp only [Bool.false_eq_true, if_false]
    split
    · rfl
    · split
      · rfl
      · simp [h]

/-- with a kind word per level `Graph.IDA()` is the board's path, so the dropped link is the real self link -/
theorem graphIDA_perLevel (cfg : Cfg) (h : cfg.idaPerLevel = true) (path : List String) : graphIDA cfg path = path := by
  simp [graphIDA, h]

/-- **C35_cx_nested_self_link** (legacy `Graph.IDA`): for the board `root.layers.a.layers.b` it yields
    `[root, layers, a, b]`, so the link `root.layers.a.layers.b` on an object of that board is kept. -/
theorem C35_cx_nested_self_link :
    graphIDA Cfg.legacy ["root", "layers", "a", "layers", "b"] = ["root", "layers", "a", "b"] ∧
    (let t : Board := .mk [] false [.mk "a".toList false [.mk "b".toList false [] [] []] [] []] [] []
     let l : List Seg := [⟨"root", true⟩, ⟨"layers", true⟩, ⟨"a", true⟩, ⟨"layers", true⟩, ⟨"b", true⟩]
     validateLink Cfg.legacy t (graphIDA Cfg.legacy ["root", "layers", "a", "layers", "b"]) false l = true ∧
     validateLink Cfg.fixed t (graphIDA Cfg.fixed ["root", "layers", "a", "layers", "b"]) false l = false) := by
  decide

/-- a kept non-remote link starts with `root` and is found by `hasBoard` -/
theorem kept_link_hasBoard (cfg : Cfg) (root : Board) (ida : List String) (link : List Seg)
    (h : validateLink cfg root ida false link = true) :
    (∃ x r, link = x :: r ∧ x.s = "root") ∧ hasBoard cfg (link.length + 1) root link = true ∧ link.map (·.s) ≠ ida := by
  unfold validateLink at h
  cases link with
  | nil => simp at h
  | cons x r =>
    simp only [Bool.false_eq_true, if_false] at h
    split at h
    · simp at h
    · rename_i hx
      split at h
      · simp at h
      · rename_i hb
        split at h
        · simp at h
        · rename_i hs
          refine ⟨⟨x, r, rfl, by simpa using hx⟩, by simpa using hb, by simpa using hs⟩

/-- no element is an unquoted `root` (such an element would be skipped by the legacy `hasBoard`) -/
def noRoot (l : List Seg) : Prop := ∀ x ∈ l, isRootSeg x = false

/-- on paths made of (kind, name) pairs without `root` elements every variant of `hasBoard` agrees with the strict reading -/
theorem hasBoardPath_strict (cfg : Cfg) : ∀ (f : Nat) (b : Board) (l : List Seg), l.length % 2 = 0 → noRoot l →
    hasBoardPath cfg f b l = true → (resolveStrict b l).isSome = true := by
  intro f
  induction f with
  | zero =>
    intro b l _ _ h
    cases l with
    | nil => simp [resolveStrict]
    | cons x r => simp [hasBoardPath] at h
  | succ f ih =>
    intro b l hlen hnr h
    match l, hlen, hnr, h with
    | [], _, _, _ => simp [resolveStrict]
    | [x], hlen, _, _ => simp at hlen
    | x :: nx :: rest, hlen, hnr, h =>
      have hx : isRootSeg x = false := hnr x (by simp)
      simp only [hasBoardPath, hx, Bool.and_false, Bool.false_eq_true, if_false] at h
      simp only [resolveStrict]
      cases hfb : findBoard nx.s (kidsOf b x.s) with
      | none => simp [hfb] at h
      | some c =>
        simp only [hfb] at h ⊢
        apply ih c rest
        · simp at hlen; omega
        · intro y hy; exact hnr y (by simp [hy])
        · exact h

theorem hasBoardPath_root_skip (cfg : Cfg) (hc : cfg.singleRoot = false) (f : Nat) (b : Board) (x : Seg) (r : List Seg)
    (hr : isRootSeg x = true) : hasBoardPath cfg (f + 1) b (x :: r) = hasBoardPath cfg f b r := by
  simp [hasBoardPath, hc, hr]

/-- the fixed `hasBoardPath` IS the strict reading, on every path -/
theorem hasBoardPath_fixed (cfg : Cfg) (h1 : cfg.danglingFalse = true) (h2 : cfg.singleRoot = true) :
    ∀ (f : Nat) (b : Board) (l : List Seg), hasBoardPath cfg f b l = true → (resolveStrict b l).isSome = true := by
  intro f
  induction f with
  | zero =>
    intro b l h
    cases l with
    | nil => simp [resolveStrict]
    | cons x r => simp [hasBoardPath] at h
  | succ f ih =>
    intro b l h
    match l, h with
    | [], _ => simp [resolveStrict]
    | [x], h => simp [hasBoardPath, h1, h2] at h
    | x :: nx :: rest, h =>
      simp only [hasBoardPath, h2, Bool.not_true, Bool.false_and, Bool.false_eq_true, if_false] at h
      simp only [resolveStrict]
      cases hfb : findBoard nx.s (kidsOf b x.s) with
      | none => simp [hfb] at h
      | some c =>
        simp only [hfb] at h ⊢
        exact ih c rest h

/-- **link_absolute_exists_or_dropped** (full strength, for the code with `hasBoard` returning false on a dangling
    element and stripping a single leading `root`): every non-remote link that survives validation is `root` followed
    by (kind, name) pairs that name an existing board, and differs from `Graph.IDA()` of the object's own board. -/
theorem link_absolute_exists_or_dropped (cfg : Cfg) (h1 : cfg.danglingFalse = true) (h2 : cfg.singleRoot = true)
    (root : Board) (ida : List String) (link : List Seg)
    (h : validateLink cfg root ida false link = true) :
    existsStrict root link = true ∧ link.map (·.s) ≠ ida := by
  obtain ⟨⟨x, r, hl, hx⟩, hb, hs⟩ := kept_link_hasBoard cfg root ida link h
  subst hl
  refine ⟨?_, hs⟩
  simp only [existsStrict, hx, beq_self_eq_true, Bool.true_and]
  simp only [hasBoard, h2, if_true] at hb
  by_cases hr : isRootSeg x = true
  · simp only [hr, if_true] at hb
    exact hasBoardPath_fixed cfg h1 h2 _ root r hb
  · have hr' : isRootSeg x = false := by simpa using hr
    simp only [hr', Bool.false_eq_true, if_false] at hb
    -- a quoted "root" is taken as a kind word, which selects no sub-boards
    cases r with
    | nil => simp [resolveStrict]
    | cons nx rest =>
      simp only [hasBoardPath, h2, Bool.not_true, Bool.false_and, Bool.false_eq_true, if_false] at hb
      simp [hx, kidsOf, findBoard] at hb

/-- **link_absolute_exists_or_dropped_partial** (any variant, in particular the legacy code): on links of the shape
    `root.(kind.name)*` without further `root` elements a surviving link names an existing board.  Outside that shape
    the legacy `hasBoard` is more liberal than the board tree: `C35_cx_odd_tail`, `C35_cx_root_root`. -/
theorem link_absolute_exists_or_dropped_partial (cfg : Cfg) (root : Board) (ida : List String) (link : List Seg)
    (hshape : link.length % 2 = 1) (hnr : noRoot link.tail)
    (h : validateLink cfg root ida false link = true) :
    existsStrict root link = true ∧ link.map (·.s) ≠ ida := by
  obtain ⟨⟨x, r, hl, hx⟩, hb, hs⟩ := kept_link_hasBoard cfg root ida link h
  subst hl
  refine ⟨?_, hs⟩
  simp only [existsStrict, hx, beq_self_eq_true, Bool.true_and]
  simp only [List.tail_cons] at hnr
  have hlen : r.length % 2 = 0 := by simp at hshape; omega
  have key : ∀ f, hasBoardPath cfg (f + 1) root (x :: r) = true → isRootSeg x = false → (resolveStrict root r).isSome = true := by
    intro f hb hr
    cases r with
    | nil => simp [resolveStrict]
    | cons nx rest =>
      simp only [hasBoardPath, hr, Bool.and_false, Bool.false_eq_true, if_false] at hb
      simp [hx, kidsOf, findBoard] at hb
  by_cases hr : isRootSeg x = true
  · unfold hasBoard at hb
    cases hc : cfg.singleRoot with
    | true =>
      simp only [hc, if_true, hr] at hb
      exact hasBoardPath_strict cfg _ root r hlen hnr hb
    | false =>
      simp only [hc, Bool.false_eq_true, if_false] at hb
      rw [hasBoardPath_root_skip cfg hc _ root x r hr] at hb
      exact hasBoardPath_strict cfg _ root r hlen hnr hb
  · have hr' : isRootSeg x = false := by simpa using hr
    unfold hasBoard at hb
    cases hc : cfg.singleRoot with
    | true =>
      simp only [hc, if_true, hr', Bool.false_eq_true, if_false] at hb
      exact key _ hb hr'
    | false =>
      simp only [hc, Bool.false_eq_true, if_false] at hb
      exact key _ hb hr'

/-! ### compileLink produces absolute paths -/

theorem chopScope_go_take (scope : List Seg) : ∀ n, ∃ k, chopScope.go scope n = scope.take k ∧ (scope ≠ [] → 1 ≤ k)
  | 0 => ⟨scope.length, by simp [chopScope.go], fun h => by cases scope <;> simp_all⟩
  | i + 1 => by
    obtain ⟨k, hk, hk1⟩ := chopScope_go_take scope i
    unfold chopScope.go
    cases hs : scope[i]? with
    | none => exact ⟨k, by simpa using hk, hk1⟩
    | some p =>
      simp only
      split
      · exact ⟨i + 2, rfl, fun _ => by omega⟩
      · split
        · exact ⟨i + 1, rfl, fun _ => by omega⟩
        · exact ⟨k, hk, hk1⟩

theorem popUnderscores_take : ∀ (f : Nat) (scope link : List Seg),
    ∃ k, (popUnderscores f scope link).1 = scope.take k
  | 0, scope, _ => ⟨scope.length, by simp [popUnderscores]⟩
  | f + 1, scope, link => by
    unfold popUnderscores
    cases link with
    | nil => exact ⟨scope.length, by simp⟩
    | cons x rest =>
      simp only
      split
      · split
        · exact ⟨scope.length, by simp⟩
        · obtain ⟨k, hk⟩ := popUnderscores_take f (scope.take (scope.length - 2)) rest
          exact ⟨min k (scope.length - 2), by rw [hk, List.take_take]⟩
      · exact ⟨scope.length, by simp⟩

/-- **compiled_link_absolute**: whenever `compileLink` rewrites a link written in a scope that starts at `root` (every
    scope does: `IDA` of a map begins with the root field), the stored path starts with `root` — it is absolute. -/
theorem compiled_link_absolute (kc : Bool) (scope link r : List Seg) (hroot : scope.head? = some rootSeg)
    (h : compileLink kc scope link = some r) : r.head? = some rootSeg := by
  unfold compileLink at h
  cases scope with
  | nil => simp at hroot
  | cons s0 srest =>
    simp only [List.head?_cons, Option.some.injEq] at hroot
    subst hroot
    cases link with
    | nil => simp at h
    | cons x lrest =>
      simp only at h
      split at h
      · simp at h
      · split at h
        · simp at h
        · obtain ⟨k, hk, hk1⟩ := chopScope_go_take (rootSeg :: srest) ((rootSeg :: srest).length - 1)
          have hk1 := hk1 (by simp)
          obtain ⟨j, hj⟩ := popUnderscores_take (x :: lrest).length (chopScope (rootSeg :: srest)) (x :: lrest)
          cases hp : popUnderscores (x :: lrest).length (chopScope (rootSeg :: srest)) (x :: lrest) with
          | mk sc lk =>
            rw [hp] at hj
            simp only at hj
            simp only [hp, Option.some.injEq] at h
            subst h
            have hfr : formatSeg kc rootSeg = rootSeg := by cases kc <;> decide
            by_cases he : sc.isEmpty = true
            · simp [he, hfr]
            · simp only [he, Bool.false_eq_true, if_false]
              have hsc : sc ≠ [] := by cases sc <;> simp_all
              have : sc = (rootSeg :: srest).take (min j k) := by
                rw [hj]; unfold chopScope; rw [hk, List.take_take]
              cases hm : min j k with
              | zero => rw [hm] at this; simp at this; exact absurd this hsc
              | succ m => rw [hm] at this; rw [this]; simp [hfr]

/-! ### links inside imported files -/

/-- **import_rebase_correct**: a link the imported file stored as `root.t₁…tₙ` (not starting with `_` after the root)
    becomes `importing-path.t₁…tₙ`: it is rebased onto the importing board. -/
theorem import_rebase_correct (imp tail : List Seg) (r : Seg)
    (h : ∀ x, tail.head? = some x → isUnderscore x = false) :
    extendLinkRaw imp (r :: tail) = imp ++ tail := by
  unfold extendLinkRaw
  cases tail with
  | nil => simp [extendTail]
  | cons x rest =>
    have := h x rfl
    simp [extendTail, this]

/-- each leading `_` of the rest pops one board (a kind word and a name) off the importing path -/
theorem import_rebase_underscore (p tail : List Seg) (k n r u : Seg) (hu : isUnderscore u = true) :
    extendLinkRaw (p ++ [k, n]) (r :: u :: tail) = extendLinkRaw p (r :: tail) := by
  unfold extendLinkRaw
  simp [extendTail, hu]

/-- **relink_points_to_file**: when the current board's file is `/D…/f` and the linked board's file is `/V…` (cleaned
    absolute paths of ordinary elements, as `resolveLinks` produces them for safe board names — C34's bridge lemma),
    `relink` replaces the link by a relative path `r` which, resolved against the directory of the file that contains
    it, is exactly the linked board's file: `Join(Dir(file cur), r) = file target`. -/
theorem relink_points_to_file (m : List (Str × Str)) (cur key link : Str) (D V : List Str) (f : Str)
    (hD : ∀ c ∈ D, Normal c) (hf : Normal f) (hV : ∀ c ∈ V, Normal c) (hne : D ≠ V)
    (hc : mapLookup m cur = some ('/' :: inter (D ++ [f])))
    (hv : mapLookup m key = some ('/' :: inter V)) :
    ∃ r, relinkOneK m cur key link = some r ∧ join [dir ('/' :: inter (D ++ [f])), r] = '/' :: inter V := by
  unfold relinkOneK
  rw [hv, hc]
  simp only
  rw [dir_abs D f hD hf, rel_abs D V hD hV hne]
  refine ⟨_, rfl, ?_⟩
  obtain ⟨C, hDC, hVC, _⟩ := dropCommon_spec D V
  have hCn : ∀ c ∈ C, Normal c := by intro c hc; apply hD; rw [hDC]; simp [hc]
  have hrb : ∀ c ∈ (dropCommon D V).1, Normal c := by intro c hc; apply hD; rw [hDC]; simp [hc]
  have hrt : ∀ c ∈ (dropCommon D V).2, Normal c := by intro c hc; apply hV; rw [hVC]; simp [hc]
  have hne' : (dropCommon D V).1.map (fun _ => dotdot) ++ (dropCommon D V).2 ≠ [] := by
    intro h
    have h1 : (dropCommon D V).1 = [] := by
      have := (List.append_eq_nil_iff.mp h).1
      simpa using this
    have h2 : (dropCommon D V).2 = [] := (List.append_eq_nil_iff.mp h).2
    apply hne
    have e1 : D = C := by rw [hDC, h1]; simp
    have e2 : V = C := by rw [hVC, h2]; simp
    rw [e1, e2]
  have hj := join_rel C _ _ hCn hrb hrt hne'
  rw [← hDC, ← hVC] at hj
  exact hj

/-- a link that is not a key of the board ↦ file map is left alone (remote links, and — see the counterexamples —
    board links whose spelling differs from the key) -/
theorem relink_other_untouched (m : List (Str × Str)) (cur key link : Str) (h : mapLookup m key = none) :
    relinkOneK m cur key link = some link := by
  simp [relinkOneK, h]

def b0 : Board := .mk [] false [.mk "x".toList false [] [] []] [] []
def sg (s : String) : Seg := { s := s, unq := true }

/-- **C35_cx_odd_tail**: `link: layers.x.x` written in the root board becomes `root.layers.x.x`; `hasBoard` accepts it
    (its last element is compared with the name of the board reached so far), so it survives although no such board
    exists (replayed on the CLI: the href stays `root.layers.x.x`). -/
theorem C35_cx_odd_tail :
    compileLink false [sg "root", sg "a"] [sg "layers", sg "x", sg "x"] = some [sg "root", sg "layers", sg "x", sg "x"] ∧
    validateLink Cfg.legacy b0 ["root"] false [sg "root", sg "layers", sg "x", sg "x"] = true ∧
    validateLink Cfg.fixed b0 ["root"] false [sg "root", sg "layers", sg "x", sg "x"] = false ∧
    existsStrict b0 [sg "root", sg "layers", sg "x", sg "x"] = false := by
  decide

/-- **C35_cx_root_root**: `hasBoard` skips any number of `root` elements, the file map does not. -/
theorem C35_cx_root_root :
    validateLink Cfg.legacy b0 ["root"] false [sg "root", sg "root", sg "layers", sg "x"] = true ∧
    validateLink Cfg.fixed b0 ["root"] false [sg "root", sg "root", sg "layers", sg "x"] = false ∧
    existsStrict b0 [sg "root", sg "root", sg "layers", sg "x"] = false := by
  decide

/-- **C35_cx_quoted_name**: the file map of `resolveLinks` is keyed by `root.layers.<Name>` with the raw board name,
    the compiled link spells a name that needs quoting as `root.layers."p.q"`: `relink` finds no key and leaves the
    link as it is. -/
theorem C35_cx_quoted_name :
    let t : Board := .mk [] false [.mk "p.q".toList false [] [] []] [] []
    let m := linkMapB "root".toList "/w/out/o.svg".toList t
    m.map (fun kv => (String.ofList kv.1, String.ofList kv.2)) =
        [("root", "/w/out/o/index.svg"), ("root.layers.p.q", "/w/out/o/p.q.svg")] ∧
    relinkOne m "root".toList "root.layers.\"p.q\"".toList = some "root.layers.\"p.q\"".toList ∧
    -- comparing element values instead (the `relinkByValue` variant) finds the file
    relinkOneK m "root".toList
        (relinkKey Cfg.fixed "root.layers.\"p.q\"" (some [⟨"root", true⟩, ⟨"layers", true⟩, ⟨"p.q", false⟩])).toList
        "root.layers.\"p.q\"".toList = some "p.q.svg".toList := by
  decide

/-- satisfiable: an ordinary link survives, exists, and is rewritten to the relative file name -/
example :
    validateLink Cfg.legacy b0 ["root"] false [sg "root", sg "layers", sg "x"] = true ∧
    validateLink Cfg.fixed b0 ["root"] false [sg "root", sg "layers", sg "x"] = true ∧
    existsStrict b0 [sg "root", sg "layers", sg "x"] = true ∧
    relinkOne (linkMapB "root".toList "/w/out/o.svg".toList b0) "root".toList "root.layers.x".toList = some "x.svg".toList := by
  decide

/-- the variant of the code in the tree under test (tie R) -/
def cfgNow : Cfg :=
  ⟨Gen.LinksCfg.danglingFalse, Gen.LinksCfg.singleRoot, Gen.LinksCfg.idaPerLevel, Gen.LinksCfg.relinkByValue,
   Gen.LinksCfg.keepKeywordCase⟩

/-- **C35_links_exist_now**: for the tree under test — the flags are regenerated from its source — either `hasBoard`
    is the strict reading and every surviving link names an existing board (full strength), or the legacy `hasBoard`
    is in place and the partial theorem with the counterexamples applies. -/
theorem C35_links_exist_now :
    ((cfgNow.danglingFalse = true ∧ cfgNow.singleRoot = true) ∧
      ∀ root ida link, validateLink cfgNow root ida false link = true → existsStrict root link = true ∧ link.map (·.s) ≠ ida) ∨
    (¬ (cfgNow.danglingFalse = true ∧ cfgNow.singleRoot = true) ∧
      ∀ root ida link, link.length % 2 = 1 → noRoot link.tail →
        validateLink cfgNow root ida false link = true → existsStrict root link = true ∧ link.map (·.s) ≠ ida) := by
  by_cases h : cfgNow.danglingFalse = true ∧ cfgNow.singleRoot = true
  · exact Or.inl ⟨h, fun root ida link hv => link_absolute_exists_or_dropped cfgNow h.1 h.2 root ida link hv⟩
  · exact Or.inr ⟨h, fun root ida link hs hn hv => link_absolute_exists_or_dropped_partial cfgNow root ida link hs hn hv⟩

end D2V.Links
