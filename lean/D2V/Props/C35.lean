import D2V.Model.Links
/-! C35 — Board links resolve to existing boards and are rewritten to the right files. -/
namespace D2V.Links
open D2V.Path

/-- **self_link_dropped**: a non-remote link that spells the path of the object's own board is dropped. -/
theorem self_link_dropped (root : Board) (ida : List String) (link : List Seg) (h : link.map (·.s) = ida) :
    validateLink root ida false link = false := by
  unfold validateLink
  cases link with
  | nil => rfl
  | cons x r =>
    simp only [Bool.false_eq_true, if_false]
    split
    · rfl
    · split
      · rfl
      · simp [h]

/-- a kept non-remote link starts with `root` and is found by `hasBoard` -/
theorem kept_link_hasBoard (root : Board) (ida : List String) (link : List Seg)
    (h : validateLink root ida false link = true) :
    (∃ x r, link = x :: r ∧ x.s = "root") ∧ hasBoard (link.length + 1) root link = true ∧ link.map (·.s) ≠ ida := by
  unfold validateLink at h
  cases link with
  | nil => simp at h
  | cons x r =>
    simp only [Bool.false_eq_true, if_false] at h
    split at h
    · simp at h
    · rename_i hx
      split at h
      · simp at h
      · rename_i hb
        split at h
        · simp at h
        · rename_i hs
          refine ⟨⟨x, r, rfl, by simpa using hx⟩, by simpa using hb, by simpa using hs⟩

/-- no element is an unquoted `root` (such an element would be skipped by `hasBoard`) -/
def noRoot (l : List Seg) : Prop := ∀ x ∈ l, ¬ (x.s = "root" ∧ x.unq = true)

/-- on paths made of (kind, name) pairs `hasBoard` agrees with the strict reading -/
theorem hasBoard_strict : ∀ (f : Nat) (b : Board) (l : List Seg), l.length % 2 = 0 → noRoot l →
    hasBoard f b l = true → (resolveStrict b l).isSome = true := by
  intro f
  induction f with
  | zero =>
    intro b l _ _ h
    cases l with
    | nil => simp [resolveStrict]
    | cons x r => simp [hasBoard] at h
  | succ f ih =>
    intro b l hlen hnr h
    match l, hlen, hnr, h with
    | [], _, _, _ => simp [resolveStrict]
    | [x], hlen, _, _ => simp at hlen
    | x :: nx :: rest, hlen, hnr, h =>
      have hx : ¬ (x.s = "root" ∧ x.unq = true) := hnr x (by simp)
      have hx' : (x.s == "root" && x.unq) = false := by
        cases hb : (x.s == "root" && x.unq) with
        | false => rfl
        | true =>
          simp only [Bool.and_eq_true, beq_iff_eq] at hb
          exact absurd hb hx
      simp only [hasBoard, hx', Bool.false_eq_true, if_false] at h
      simp only [resolveStrict]
      cases hfb : findBoard nx.s (kidsOf b x.s) with
      | none => simp [hfb] at h
      | some c =>
        simp only [hfb] at h ⊢
        apply ih c rest
        · simp at hlen; omega
        · intro y hy; exact hnr y (by simp [hy])
        · exact h

/-- **link_absolute_exists_or_dropped** (partial): a link that survives validation and has the shape
    `root.(kind.name)*` with no further `root` element names a board that exists, and is not the object's own board.
    (Outside that shape `hasBoard` is more liberal than the board tree: see `C35_cx_odd_tail`, `C35_cx_root_root`.) -/
theorem link_absolute_exists_or_dropped_partial (root : Board) (ida : List String) (link : List Seg)
    (hshape : link.length % 2 = 1) (hnr : noRoot link.tail)
    (h : validateLink root ida false link = true) :
    existsStrict root link = true ∧ link.map (·.s) ≠ ida := by
  obtain ⟨⟨x, r, hl, hx⟩, hb, hs⟩ := kept_link_hasBoard root ida link h
  subst hl
  refine ⟨?_, hs⟩
  simp only [existsStrict, hx, beq_self_eq_true, Bool.true_and]
  simp only [List.tail_cons] at hnr
  have hlen : r.length % 2 = 0 := by simp at hshape; omega
  -- hasBoard on x :: r : either x is an unquoted root (skipped) or the first element is taken as a kind word "root"
  simp only [hasBoard] at hb
  by_cases hu : x.unq = true
  · simp only [hx, hu, beq_self_eq_true, Bool.and_self, if_true] at hb
    exact hasBoard_strict _ root r hlen hnr hb
  · have hu' : x.unq = false := by simpa using hu
    simp only [hx, hu', Bool.and_false, Bool.false_eq_true, if_false] at hb
    -- a quoted "root": treated as a kind word, which matches no kind
    cases r with
    | nil => simp [resolveStrict]
    | cons nx rest => simp [findBoard, kidsOf] at hb

def b0 : Board := .mk [] false [.mk "x".toList false [] [] []] [] []
def sg (s : String) : Seg := { s := s, unq := true }

/-- **C35_cx_odd_tail**: `link: layers.x.x` written in the root board becomes `root.layers.x.x`; `hasBoard` accepts it
    (its last element is compared with the name of the board reached so far), so it survives although no such board
    exists (replayed on the CLI: the href stays `root.layers.x.x`). -/
theorem C35_cx_odd_tail :
    compileLink [sg "root", sg "a"] [sg "layers", sg "x", sg "x"] = some [sg "root", sg "layers", sg "x", sg "x"] ∧
    validateLink b0 ["root"] false [sg "root", sg "layers", sg "x", sg "x"] = true ∧
    existsStrict b0 [sg "root", sg "layers", sg "x", sg "x"] = false := by
  decide

/-- **C35_cx_root_root**: `hasBoard` skips any number of `root` elements, the file map does not. -/
theorem C35_cx_root_root :
    validateLink b0 ["root"] false [sg "root", sg "root", sg "layers", sg "x"] = true ∧
    existsStrict b0 [sg "root", sg "root", sg "layers", sg "x"] = false := by
  decide

/-- **C35_cx_quoted_name**: the file map of `resolveLinks` is keyed by `root.layers.<Name>` with the raw board name,
    the compiled link spells a name that needs quoting as `root.layers."p.q"`: `relink` finds no key and leaves the
    link as it is. -/
theorem C35_cx_quoted_name :
    let t : Board := .mk [] false [.mk "p.q".toList false [] [] []] [] []
    let m := linkMapB "root".toList "/w/out/o.svg".toList t
    m.map (fun kv => (String.ofList kv.1, String.ofList kv.2)) =
        [("root", "/w/out/o/index.svg"), ("root.layers.p.q", "/w/out/o/p.q.svg")] ∧
    relinkOne m "root".toList "root.layers.\"p.q\"".toList = some "root.layers.\"p.q\"".toList := by
  decide

/-- satisfiable: an ordinary link survives, exists, and is rewritten to the relative file name -/
example :
    validateLink b0 ["root"] false [sg "root", sg "layers", sg "x"] = true ∧
    existsStrict b0 [sg "root", sg "layers", sg "x"] = true ∧
    relinkOne (linkMapB "root".toList "/w/out/o.svg".toList b0) "root".toList "root.layers.x".toList = some "x.svg".toList := by
  decide

end D2V.Links
