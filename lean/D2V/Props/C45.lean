import D2V.Proofs.Watch44
/-!
  C45 — Watch server shutdown waits for every client and admits none afterwards.

  All statements are about every run of `D2V.Watch.step` from `init`: any number of clients, any interleaving of
  connections, handler steps, broadcasts and close() calls.
-/
namespace D2V.Watch
theorem InvWG_run (s s' : State) (steps : List Step) (inv : InvWG s) (hr : run s steps = some s') : InvWG s' := by
  induction steps generalizing s with
  | nil => simp only [run, Option.some.injEq] at hr; subst hr; exact inv
  | cons st r ih =>
    simp only [run] at hr
    split at hr
    · rename_i s1 h1; exact ih s1 (InvWG_step s s1 st inv h1) hr
    · simp at hr

/-- brute-force frame lemma: `closing` is only ever set -/
theorem step_closing (s s' : State) (st : Step) (hs : step s st = some s') :
    s'.closing = (s.closing || decide (st = .closeBegin)) := by
  cases st <;> simp only [step, cstep] at hs <;> (repeat' (split at hs)) <;>
    (first
      | (simp at hs; done)
      | (simp only [Option.some.injEq] at hs; subst hs; simp))

theorem closing_stable (s s' : State) (st : Step) (hs : step s st = some s') (hc : s.closing = true) :
    s'.closing = true := by
  rw [step_closing s s' st hs, hc]; rfl

/-- `admission_only_before_closing`: once `closing` is set no run contains another admission -/
theorem admission_only_before_closing (s s' : State) (steps : List Step) (hc : s.closing = true)
    (hr : run s steps = some s') : Step.admitC ∉ steps := by
  induction steps generalizing s with
  | nil => simp
  | cons st r ih =>
    simp only [run] at hr
    split at hr
    · rename_i s1 h1
      intro hm
      simp only [List.mem_cons] at hm
      rcases hm with hm | hm
      · subst hm
        simp [step, hc] at h1
      · exact ih s1 (closing_stable s s1 st h1 hc) hr hm
    · simp at hr

/-- in trace form: in every run of the server, nothing is admitted after close() has begun -/
theorem no_admission_after_close_begin (pre post : List Step) (s' : State)
    (hr : run init (pre ++ Step.closeBegin :: post) = some s') : Step.admitC ∉ post := by
  have split : ∀ (s : State) (a b : List Step), run s (a ++ b) = (run s a).bind (fun t => run t b) := by
    intro s a
    induction a generalizing s with
    | nil => intro b; simp [run]
    | cons x a ih =>
      intro b
      simp only [List.cons_append, run]
      cases step s x with
      | none => simp
      | some t => simp [ih]
  rw [split] at hr
  cases h1 : run init pre with
  | none => simp [h1] at hr
  | some s1 =>
    simp only [h1, Option.bind_some, run] at hr
    split at hr
    · rename_i s2 h2
      have hc : s2.closing = true := by rw [step_closing s1 s2 _ h2]; simp
      exact admission_only_before_closing s2 s' post hc hr
    · simp at hr

theorem wg_counts_handlers (steps : List Step) (s : State) (hr : run init steps = some s) :
    s.wg = activeCount s.clients := (InvWG_run init s steps InvWG_init hr).wgEq

/-- `no_add_after_wait`: while close() is in (or past) `wsclientsWG.Wait()` no `wsclientsWG.Add` can happen — the
    WaitGroup misuse ("Add called concurrently with Wait") is unreachable -/
theorem no_add_after_wait (steps : List Step) (s : State) (hr : run init steps = some s)
    (hw : s.close = .waiting ∨ s.close = .returned) : step s .admitC = none := by
  have inv := InvWG_run init s steps InvWG_init hr
  have hc : s.closing = true := inv.closeClosing (by rcases hw with h | h <;> rw [h] <;> simp)
  simp [step, hc]

/-- **C45.** when close() has returned, no client handler is still running -/
theorem C45_close_returns_after_all (steps : List Step) (s : State) (hr : run init steps = some s)
    (hret : s.close = .returned) : ∀ (i : Nat) (c : Client), s.clients[i]? = some c → c.pc.active = false := by
  have inv := InvWG_run init s steps InvWG_init hr
  have h0 := inv.retZero hret
  rw [inv.wgEq] at h0
  exact activeCount_zero s.clients h0


/-- the WaitGroup counter never goes negative: whenever a `Done` happens (handler exit, or Accept failure) the counter
    is positive — the "negative WaitGroup counter" panic is unreachable -/
theorem no_negative_counter (steps : List Step) (s s' : State) (c : Nat) (hr : run init steps = some s)
    (hd : step s (.done c) = some s' ∨ step s (.acceptFail c) = some s') : 0 < s.wg := by
  have inv := InvWG_run init s steps InvWG_init hr
  rw [inv.wgEq]
  rcases hd with hd | hd <;> simp only [step] at hd
  · split at hd <;> try (simp at hd; done)
    rename_i cl hc
    split at hd <;> try (simp at hd; done)
    rename_i hpc
    exact activeCount_pos s.clients c cl hc (by rw [hpc]; rfl)
  · split at hd <;> try (simp at hd; done)
    rename_i cl hc
    split at hd <;> try (simp at hd; done)
    rename_i hpc
    exact activeCount_pos s.clients c cl hc (by rw [hpc]; rfl)

/-- liveness half ("no leaked client handler"): once the watcher's context is cancelled, a state in which none of the
    program's own steps is enabled has no handler left; together with `internal_terminates` (Props/C44) such a state
    is reached after at most `mu s` steps -/
theorem C45_quiescent_no_handlers (steps : List Step) (s : State) (hr : run init steps = some s)
    (hq : quiescent s = true) (hcan : s.cancelled = true) :
    ∀ (i : Nat) (c : Client), s.clients[i]? = some c → c.pc.active = false := by
  have hf := InvFresh_run init s steps InvVer_init InvFresh_init hr
  obtain ⟨_, _, hcomp, _⟩ := quiescent_global s hf hq
  have q := quiescent_spec s hq
  intro i c hc
  have hi : i < s.clients.length := (List.getElem?_eq_some_iff.mp hc).1
  by_cases hm : c.pc.inMap = true
  · have := (quiescent_client s hcomp hq i c hc hm).2.2.2
    rw [hcan] at this; simp at this
  · cases hp : c.pc with
    | admitted =>
      have := q (.acceptFail i) (mem_cand_client s i hi _ (by simp)) rfl
      simp [step, hc, hp] at this
    | unregistered =>
      have := q (.exit i) (mem_cand_client s i hi _ (by simp)) rfl
      simp [step, cstep, hc, hp] at this
    | exited =>
      have := q (.done i) (mem_cand_client s i hi _ (by simp)) rfl
      simp [step, hc, hp] at this
    | gone => rfl
    | refused => rfl
    | loopHead => rw [hp] at hm; simp [CPc.inMap] at hm
    | haveRes r => rw [hp] at hm; simp [CPc.inMap] at hm
    | writing v => rw [hp] at hm; simp [CPc.inMap] at hm
    | waiting => rw [hp] at hm; simp [CPc.inMap] at hm
    | wokenUp => rw [hp] at hm; simp [CPc.inMap] at hm
    | leaving => rw [hp] at hm; simp [CPc.inMap] at hm

/-! non-vacuity: close() with one client connected runs to completion -/
example : ((run init [.admitC, .register 0, .readRes 0, .readLog 0 none, .closeBegin, .cancel, .closeWait,
    .ctxDone 0, .unregister 0, .exit 0, .done 0, .closeReturn]).map (·.close)) = some .returned := by decide

end D2V.Watch
