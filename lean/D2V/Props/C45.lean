import D2V.Model.Watch
/-! C45 — placeholder, theorems follow -/
namespace D2V.Watch
theorem C45_init_quiescent_false : quiescent init = false := by decide
end D2V.Watch
