import D2V.Proofs.FoldPerm
/-! C25 — Rendering is deterministic regardless of scheduling: the C08 lemmas over the render-path packages,
    and the draw-order comparator of `d2svg.sortObjects`. -/
namespace D2V.Fold
open D2V.Gen.MapRanges

/-! ### sites of the render path -/

/-- every map-range / package-level-write site of the render-path packages (export, target, svg, sketch, themes,
    fonts, js runner, text measurement, layouts) has a class -/
theorem all_render_sites_classified : ∀ s ∈ sitesOf "C25", classify s ≠ none := by decide

/-- the residue: the only render-path sites without an unconditional order-independence lemma are the four dagre
    post-processing loops (keys sorted by value — ties; collections consumed as sets — by reading) -/
theorem render_sites_residue : ∀ s ∈ sitesOf "C25",
    (classify s).map LoopClass.orderFree = some true ∨
    (s.file = "d2layouts/d2dagrelayout/layout.go" ∧ (s.fn = "adjustRankSpacing" ∨ s.fn = "shiftReachableDown")) := by
  decide

/-- the only package-level state written after init on the render path is the font registry, through
    `AddFontFamily` / `AddFontStyle` (explicit API, under `FontFamiliesMu`) -/
theorem render_globals_are_font_registry : ∀ s ∈ sitesOf "C25", s.kind = "globalwrite" →
    s.file = "d2renderers/d2fonts/d2fonts_common.go" ∧ (s.fn = "AddFontFamily" ∨ s.fn = "AddFontStyle") := by
  decide

/-- one render is single-threaded: no `go` statement, WaitGroup or errgroup in the render-path packages -/
theorem no_render_goroutines : ∀ s ∈ sitesOf "C25", s.kind ≠ "goroutine" := by decide

/-- no function of the render-path packages copies a package-level slice / map / pointer into a local and writes
    through it (the write would land in state shared by every later render of the process) -/
theorem no_render_alias_writes : ∀ s ∈ sitesOf "C25", s.kind ≠ "aliaswrite" := by decide

/-! ### sortObjects: the comparator is a strict weak order, so a stable sort has one result -/

theorem sortLess_iff_keyLess (a b : DrawObj) : sortLess a b = keyLess (drawKey a) (drawKey b) := by
  unfold sortLess keyLess drawKey
  cases ha : a.isShape <;> cases hb : b.isShape <;> simp <;>
    by_cases hz : a.z = b.z <;> simp [hz] <;> omega

theorem keyLess_irrefl (x : Int × Nat × Nat) : keyLess x x = false := by
  unfold keyLess; simp

theorem keyLess_trans (x y z : Int × Nat × Nat) (h1 : keyLess x y = true) (h2 : keyLess y z = true) :
    keyLess x z = true := by
  unfold keyLess at *
  simp only [Bool.or_eq_true, Bool.and_eq_true, decide_eq_true_eq, beq_iff_eq] at *
  omega

/-- incomparable keys are equal: the order on keys is total, so "equivalent" objects have the same key -/
theorem keyLess_total (x y : Int × Nat × Nat) (h1 : keyLess x y = false) (h2 : keyLess y x = false) : x = y := by
  unfold keyLess at *
  simp only [Bool.or_eq_false_iff, Bool.and_eq_false_iff, decide_eq_false_iff_not, beq_eq_false_iff_ne] at *
  obtain ⟨a, b, c⟩ := x
  obtain ⟨a', b', c'⟩ := y
  simp only [Prod.mk.injEq] at *
  omega

theorem sortLess_irrefl (a : DrawObj) : sortLess a a = false := by
  rw [sortLess_iff_keyLess]; exact keyLess_irrefl _

theorem sortLess_trans (a b c : DrawObj) (h1 : sortLess a b = true) (h2 : sortLess b c = true) : sortLess a c = true := by
  rw [sortLess_iff_keyLess] at *; exact keyLess_trans _ _ _ h1 h2

/-- transitivity of incomparability (the third strict-weak-order law) -/
theorem sortLess_incomp_trans (a b c : DrawObj)
    (h1 : sortLess a b = false) (h1' : sortLess b a = false) (h2 : sortLess b c = false) (h2' : sortLess c b = false) :
    sortLess a c = false ∧ sortLess c a = false := by
  rw [sortLess_iff_keyLess] at h1 h1' h2 h2'
  have e1 := keyLess_total _ _ h1 h1'
  have e2 := keyLess_total _ _ h2 h2'
  rw [sortLess_iff_keyLess, sortLess_iff_keyLess, e1, e2]; exact ⟨keyLess_irrefl _, keyLess_irrefl _⟩

/-- "stable sort by the comparator" = sort by (key, input position) -/
def stableLe (a b : (Int × Nat × Nat) × Nat) : Prop :=
  keyLess a.1 b.1 = true ∨ (a.1 = b.1 ∧ a.2 ≤ b.2)

/-- draw order is a function of the input order: two arrangements of the same objects (tagged with their input
    positions) that are both sorted by (key, position) are the same list -/
theorem drawOrder_unique {l₁ l₂ : List ((Int × Nat × Nat) × Nat)} (p : l₁.Perm l₂)
    (s₁ : l₁.Pairwise stableLe) (s₂ : l₂.Pairwise stableLe) : l₁ = l₂ := by
  refine List.Perm.eq_of_pairwise (fun a b ha hb hab hba => ?_) s₁ s₂ p
  -- antisymmetry of (key, position)
  have hk : a.1 = b.1 ∧ a.2 = b.2 := by
    rcases hab with h | ⟨h, h'⟩ <;> rcases hba with g | ⟨g, g'⟩
    · have := keyLess_trans _ _ _ h g; rw [keyLess_irrefl] at this; cases this
    · rw [g] at h; rw [keyLess_irrefl] at h; cases h
    · rw [h] at g; rw [keyLess_irrefl] at g; cases g
    · exact ⟨h, by omega⟩
  exact Prod.ext hk.1 hk.2

example : sortLess ⟨0, true, 1⟩ ⟨0, false, 0⟩ = true := by decide     -- shapes before connections
example : sortLess ⟨0, true, 1⟩ ⟨0, true, 2⟩ = true := by decide      -- parents before children
example : sortLess ⟨1, true, 0⟩ ⟨0, false, 0⟩ = false := by decide    -- zIndex first

end D2V.Fold
