import D2V.Model.Dom
/-! C16 — Attribute validation matches the documented value domains.

Every theorem here is about `D2V.Gen.Domains`, which is regenerated from the Go source on every run: the guards
(`f < 0 || f > 15`), the primitive each keyword is parsed with, and the enumerations. Changing a bound, a primitive
or a table in d2 changes a definition below and the corresponding theorem no longer checks. -/
set_option linter.unusedSimpArgs false
namespace D2V.Dom
open D2V.Gen

/-! ### guards = documented ranges -/
theorem strokeWidth_guard (n : Int) : (!Domains.Style.reject_strokeWidth n) = (decide (0 ≤ n) && decide (n ≤ 15)) := by
  simp only [Domains.Style.reject_strokeWidth, Cmp.lt, Cmp.gt]; by_cases h1 : 0 ≤ n <;> by_cases h2 : n ≤ 15 <;> simp [h1, h2] <;> omega
theorem strokeDash_guard (n : Int) : (!Domains.Style.reject_strokeDash n) = (decide (0 ≤ n) && decide (n ≤ 10)) := by
  simp only [Domains.Style.reject_strokeDash, Cmp.lt, Cmp.gt]; by_cases h1 : 0 ≤ n <;> by_cases h2 : n ≤ 10 <;> simp [h1, h2] <;> omega
theorem borderRadius_guard (n : Int) : (!Domains.Style.reject_borderRadius n) = decide (0 ≤ n) := by
  simp only [Domains.Style.reject_borderRadius, Cmp.lt]; by_cases h1 : 0 ≤ n <;> simp [h1] ; omega
theorem fontSize_guard (n : Int) : (!Domains.Style.reject_fontSize n) = (decide (8 ≤ n) && decide (n ≤ 100)) := by
  simp only [Domains.Style.reject_fontSize, Cmp.lt, Cmp.gt]; by_cases h1 : 8 ≤ n <;> by_cases h2 : n ≤ 100 <;> simp [h1, h2] <;> omega

theorem nonneg_guard_lt (n : Int) : (!(Cmp.lt n (0 : Int))) = decide (0 ≤ n) := by
  simp only [Cmp.lt]; by_cases h1 : 0 ≤ n <;> simp [h1] ; omega
theorem pos_guard_le (n : Int) : (!(Cmp.le n (0 : Int))) = decide (1 ≤ n) := by
  simp only [Cmp.le]; by_cases h1 : 1 ≤ n <;> simp [h1] <;> omega

theorem width_guard (n : Int) : (!Domains.Reserved.reject_width n) = decide (0 ≤ n) := by
  simp only [Domains.Reserved.reject_width]; exact nonneg_guard_lt n
theorem height_guard (n : Int) : (!Domains.Reserved.reject_height n) = decide (0 ≤ n) := by
  simp only [Domains.Reserved.reject_height]; exact nonneg_guard_lt n
theorem top_guard (n : Int) : (!Domains.Reserved.reject_top n) = decide (0 ≤ n) := by
  simp only [Domains.Reserved.reject_top]; exact nonneg_guard_lt n
theorem left_guard (n : Int) : (!Domains.Reserved.reject_left n) = decide (0 ≤ n) := by
  simp only [Domains.Reserved.reject_left]; exact nonneg_guard_lt n
theorem gridGap_guard (n : Int) : (!Domains.Reserved.reject_gridGap n) = decide (0 ≤ n) := by
  simp only [Domains.Reserved.reject_gridGap]; exact nonneg_guard_lt n
theorem verticalGap_guard (n : Int) : (!Domains.Reserved.reject_verticalGap n) = decide (0 ≤ n) := by
  simp only [Domains.Reserved.reject_verticalGap]; exact nonneg_guard_lt n
theorem horizontalGap_guard (n : Int) : (!Domains.Reserved.reject_horizontalGap n) = decide (0 ≤ n) := by
  simp only [Domains.Reserved.reject_horizontalGap]; exact nonneg_guard_lt n
theorem gridRows_guard (n : Int) : (!Domains.Reserved.reject_gridRows n) = decide (1 ≤ n) := by
  simp only [Domains.Reserved.reject_gridRows]; exact pos_guard_le n
theorem gridColumns_guard (n : Int) : (!Domains.Reserved.reject_gridColumns n) = decide (1 ≤ n) := by
  simp only [Domains.Reserved.reject_gridColumns]; exact pos_guard_le n

/-- opacity: accepted exactly for finite values in [0,1] — in particular NaN and ±Inf are rejected -/
theorem opacity_guard (f : FVal) :
    (!Domains.Style.reject_opacity f) = (match f with | .fin r => decide (0 ≤ r ∧ r ≤ 1) | _ => false) := by
  cases f with
  | fin r =>
    simp only [Domains.Style.reject_opacity, Cmp.lt, Cmp.gt, Cmp.le, Cmp.ge, FVal.lt, FVal.le, FVal.ofInt]
    by_cases h1 : (0 : Rat) ≤ r <;> by_cases h2 : r ≤ (1 : Rat) <;>
      simp [h1, h2, Rat.not_lt, Rat.not_le] <;> first | exact Rat.not_le.mp ‹_› | exact Rat.not_lt.mpr ‹_› | skip
  | nan => simp [Domains.Style.reject_opacity, Cmp.lt, Cmp.gt, Cmp.le, Cmp.ge, FVal.lt, FVal.le, FVal.ofInt]
  | posInf => simp [Domains.Style.reject_opacity, Cmp.lt, Cmp.gt, Cmp.le, Cmp.ge, FVal.lt, FVal.le, FVal.ofInt]
  | negInf => simp [Domains.Style.reject_opacity, Cmp.lt, Cmp.gt, Cmp.le, Cmp.ge, FVal.lt, FVal.le, FVal.ofInt]

theorem theme_guard (n : Int) : (!Domains.themeUnknown n) = docThemeIDs.contains n := by
  simp [Domains.themeUnknown, Domains.themeIDs, docThemeIDs]

/-! ### enumerations = documented tables -/
theorem fillPatterns_eq : Domains.fillPatterns = docFillPatterns := by decide
theorem textTransforms_eq : Domains.textTransforms = docTextTransforms := by decide
theorem fonts_eq : Domains.fonts = docFonts := by decide
theorem directions_eq : Domains.directions = docDirections := by decide
theorem shapes_eq : Domains.shapes = docShapes := by decide
theorem arrowheads_eq : Domains.arrowheads = docArrowheads := by decide
theorem hexRegex_eq : Domains.colorHexRegex = hexColorRegexText := by decide
theorem validColor_shape : Domains.validColorShapeOk = true := by decide

/-! ### primitive per keyword = documented kind -/
theorem style_table :
    Domains.Style.table = [
      ("opacity", .float, false), ("stroke", .color, false), ("fill", .color, false),
      ("fill-pattern", .enum .fillPatterns, false), ("stroke-width", .int, false), ("stroke-dash", .int, false),
      ("border-radius", .int, false), ("shadow", .bool, false), ("3d", .bool, false), ("multiple", .bool, false),
      ("font", .enum .fonts, true), ("font-size", .int, false), ("font-color", .color, false),
      ("animated", .bool, false), ("bold", .bool, false), ("italic", .bool, false), ("underline", .bool, false),
      ("filled", .bool, false), ("double-border", .bool, false), ("text-transform", .enum .textTransforms, false)] := by
  decide
theorem reserved_table :
    Domains.Reserved.table = [
      ("shape", .enum .shape, true), ("width", .int, false), ("height", .int, false), ("top", .int, false),
      ("left", .int, false), ("direction", .enum .dirs, true), ("grid-rows", .int, false),
      ("grid-columns", .int, false), ("grid-gap", .int, false), ("vertical-gap", .int, false),
      ("horizontal-gap", .int, false)] := by
  decide
theorem config_table :
    Domains.Config.table = [("sketch", .bool, false), ("center", .bool, false), ("theme-id", .int, false),
      ("dark-theme-id", .int, false), ("pad", .int, false)] := by
  decide

/-! ### accepts = documented, keyword by keyword, for every value string -/

theorem C16_int_style (kw : String) (v : String) (lo : Int) (hi : Option Int)
    (hk : Domains.Style.table.lookup kw = some (.int, false))
    (hg : ∀ n, (!Domains.Style.rejectInt kw n) = inRange lo hi n) :
    accepts .style kw v = some (docIntRange lo hi v) := by
  simp only [accepts, tableOf, hk, rejectIntOf, docIntRange]
  cases atoi v <;> simp [hg]

theorem C16_strokeWidth (v : String) : accepts .style "stroke-width" v = documented .style "stroke-width" v := by
  rw [C16_int_style "stroke-width" v 0 (some 15) (by decide) (fun n => by simpa [Domains.Style.rejectInt, inRange] using strokeWidth_guard n)]; rfl
theorem C16_strokeDash (v : String) : accepts .style "stroke-dash" v = documented .style "stroke-dash" v := by
  rw [C16_int_style "stroke-dash" v 0 (some 10) (by decide) (fun n => by simpa [Domains.Style.rejectInt, inRange] using strokeDash_guard n)]; rfl
theorem C16_borderRadius (v : String) : accepts .style "border-radius" v = documented .style "border-radius" v := by
  rw [C16_int_style "border-radius" v 0 none (by decide) (fun n => by simpa [Domains.Style.rejectInt, inRange] using borderRadius_guard n)]; rfl
theorem C16_fontSize (v : String) : accepts .style "font-size" v = documented .style "font-size" v := by
  rw [C16_int_style "font-size" v 8 (some 100) (by decide) (fun n => by simpa [Domains.Style.rejectInt, inRange] using fontSize_guard n)]; rfl

theorem C16_int_reserved (kw : String) (v : String) (lo : Int)
    (hk : Domains.Reserved.table.lookup kw = some (.int, false))
    (hg : ∀ n, (!Domains.Reserved.rejectInt kw n) = inRange lo none n) :
    accepts .reserved kw v = some (docIntRange lo none v) := by
  simp only [accepts, tableOf, hk, rejectIntOf, docIntRange]
  cases atoi v <;> simp [hg]

theorem C16_width (v : String) : accepts .reserved "width" v = documented .reserved "width" v := by
  rw [C16_int_reserved "width" v 0 (by decide) (fun n => by simpa [Domains.Reserved.rejectInt, inRange] using width_guard n)]; rfl
theorem C16_height (v : String) : accepts .reserved "height" v = documented .reserved "height" v := by
  rw [C16_int_reserved "height" v 0 (by decide) (fun n => by simpa [Domains.Reserved.rejectInt, inRange] using height_guard n)]; rfl
theorem C16_top (v : String) : accepts .reserved "top" v = documented .reserved "top" v := by
  rw [C16_int_reserved "top" v 0 (by decide) (fun n => by simpa [Domains.Reserved.rejectInt, inRange] using top_guard n)]; rfl
theorem C16_left (v : String) : accepts .reserved "left" v = documented .reserved "left" v := by
  rw [C16_int_reserved "left" v 0 (by decide) (fun n => by simpa [Domains.Reserved.rejectInt, inRange] using left_guard n)]; rfl
theorem C16_gridGap (v : String) : accepts .reserved "grid-gap" v = documented .reserved "grid-gap" v := by
  rw [C16_int_reserved "grid-gap" v 0 (by decide) (fun n => by simpa [Domains.Reserved.rejectInt, inRange] using gridGap_guard n)]; rfl
theorem C16_verticalGap (v : String) : accepts .reserved "vertical-gap" v = documented .reserved "vertical-gap" v := by
  rw [C16_int_reserved "vertical-gap" v 0 (by decide) (fun n => by simpa [Domains.Reserved.rejectInt, inRange] using verticalGap_guard n)]; rfl
theorem C16_horizontalGap (v : String) : accepts .reserved "horizontal-gap" v = documented .reserved "horizontal-gap" v := by
  rw [C16_int_reserved "horizontal-gap" v 0 (by decide) (fun n => by simpa [Domains.Reserved.rejectInt, inRange] using horizontalGap_guard n)]; rfl
theorem C16_gridRows (v : String) : accepts .reserved "grid-rows" v = documented .reserved "grid-rows" v := by
  rw [C16_int_reserved "grid-rows" v 1 (by decide) (fun n => by simpa [Domains.Reserved.rejectInt, inRange] using gridRows_guard n)]; rfl
theorem C16_gridColumns (v : String) : accepts .reserved "grid-columns" v = documented .reserved "grid-columns" v := by
  rw [C16_int_reserved "grid-columns" v 1 (by decide) (fun n => by simpa [Domains.Reserved.rejectInt, inRange] using gridColumns_guard n)]; rfl

theorem C16_opacity (v : String) : accepts .style "opacity" v = documented .style "opacity" v := by
  have hk : Domains.Style.table.lookup "opacity" = some (.float, false) := by decide
  simp only [accepts, tableOf, hk, rejectFloatOf, documented, docUnitFloat, Domains.Style.rejectFloat]
  cases h : parseFloat v with
  | none => rfl
  | some f => simp only [opacity_guard f]; cases f <;> rfl

theorem C16_bool_style (kw v : String) (hk : Domains.Style.table.lookup kw = some (.bool, false)) :
    accepts .style kw v = some (docBool v) := by
  simp only [accepts, tableOf, hk, docBool]

theorem C16_color_style (kw v : String) (hk : Domains.Style.table.lookup kw = some (.color, false)) :
    accepts .style kw v = (if isGradientText v then none else some (validPlainColor v)) := by
  simp only [accepts, tableOf, hk]

theorem C16_fillPattern (v : String) : accepts .style "fill-pattern" v = documented .style "fill-pattern" v := by
  have hk : Domains.Style.table.lookup "fill-pattern" = some (.enum .fillPatterns, false) := by decide
  simp only [accepts, tableOf, hk, documented, docEnum, enumOf, fillPatterns_eq]
theorem C16_textTransform (v : String) : accepts .style "text-transform" v = documented .style "text-transform" v := by
  have hk : Domains.Style.table.lookup "text-transform" = some (.enum .textTransforms, false) := by decide
  simp only [accepts, tableOf, hk, documented, docEnum, enumOf, textTransforms_eq]
theorem C16_font (v : String) : accepts .style "font" v = documented .style "font" v := by
  have hk : Domains.Style.table.lookup "font" = some (.enum .fonts, true) := by decide
  simp only [accepts, tableOf, hk, documented, docEnum, enumOf, fonts_eq]
theorem C16_direction (v : String) : accepts .reserved "direction" v = documented .reserved "direction" v := by
  have hk : Domains.Reserved.table.lookup "direction" = some (.enum .dirs, true) := by decide
  simp only [accepts, tableOf, hk, documented, docEnum, enumOf, directions_eq]

theorem C16_themeId (kw v : String) (h : kw = "theme-id" ∨ kw = "dark-theme-id") :
    accepts .config kw v = documented .config kw v := by
  rcases h with h | h <;> subst h
  · have hk : Domains.Config.table.lookup "theme-id" = some (.int, false) := by decide
    simp only [accepts, tableOf, hk, rejectIntOf, documented, Domains.Config.rejectInt, Domains.Config.reject_themeId]
    cases atoi v <;> simp [theme_guard]
  · have hk : Domains.Config.table.lookup "dark-theme-id" = some (.int, false) := by decide
    simp only [accepts, tableOf, hk, rejectIntOf, documented, Domains.Config.rejectInt, Domains.Config.reject_darkThemeId]
    cases atoi v <;> simp [theme_guard]

/-- accepted values are stored unchanged, except lower-casing for the keyword-valued attributes
    (`shape`, `direction`, `font`) — exactly the attributes the regenerated table marks. -/
theorem C16_stored_unchanged (a : Area) (kw v : String)
    (h : ∀ p, (tableOf a).lookup kw ≠ some (p, true)) : stored a kw v = v := by
  unfold stored
  split
  · rename_i p hp; exact absurd hp (h p)
  · rfl

theorem C16_lowercased_keywords :
    (Domains.Style.table ++ Domains.Reserved.table ++ Domains.Config.table).filterMap
      (fun (k, _, l) => if l then some k else none) = ["font", "shape", "direction"] := by decide

/-- non-vacuity / sanity: concrete boundary values -/
example : accepts .style "stroke-width" "15" = some true ∧ accepts .style "stroke-width" "16" = some false
    ∧ accepts .style "opacity" "NaN" = some false ∧ accepts .reserved "width" "-5" = some false
    ∧ accepts .config "theme-id" "2" = some false ∧ accepts .config "theme-id" "300" = some true := by
  refine ⟨by decide, by decide, ?_, by decide, by decide, by decide⟩
  rw [C16_opacity]; decide

theorem C16_shape (v : String) :
    accepts .reserved "shape" v = some ((lowerStr v == "") || docEnum (docShapes ++ docArrowheads) v) := by
  have hk : Domains.Reserved.table.lookup "shape" = some (.enum .shape, true) := by decide
  simp only [accepts, tableOf, hk, enumOf, docEnum, shapes_eq, arrowheads_eq]
  simp [List.contains_cons, Bool.or_comm]
  cases h : (lowerStr v == "") <;> simp_all

theorem C16_sketch_center (kw v : String) (h : kw = "sketch" ∨ kw = "center") :
    accepts .config kw v = documented .config kw v := by
  rcases h with h | h <;> subst h
  · have hk : Domains.Config.table.lookup "sketch" = some (.bool, false) := by decide
    simp only [accepts, tableOf, hk, documented, docBool]
  · have hk : Domains.Config.table.lookup "center" = some (.bool, false) := by decide
    simp only [accepts, tableOf, hk, documented, docBool]

theorem C16_pad (v : String) : accepts .config "pad" v = documented .config "pad" v := by
  have hk : Domains.Config.table.lookup "pad" = some (.int, false) := by decide
  simp only [accepts, tableOf, hk, rejectIntOf, documented, docAnyInt, Domains.Config.rejectInt, Domains.Config.reject_pad]
  cases atoi v <;> simp

theorem C16_style_bools (kw v : String)
    (h : kw ∈ ["shadow", "3d", "multiple", "animated", "bold", "italic", "underline", "filled", "double-border"]) :
    accepts .style kw v = documented .style kw v := by
  simp only [List.mem_cons, List.not_mem_nil, or_false] at h
  rcases h with h | h | h | h | h | h | h | h | h <;> subst h <;>
    (rw [C16_bool_style _ v (by decide)]; rfl)

theorem C16_style_colors (kw v : String) (h : kw ∈ ["stroke", "fill", "font-color"]) :
    accepts .style kw v = documented .style kw v := by
  simp only [List.mem_cons, List.not_mem_nil, or_false] at h
  rcases h with h | h | h <;> subst h <;> (rw [C16_color_style _ v (by decide)]; rfl)

/-- **C16 (style attributes)**: for every style keyword and every value string, the code accepts the value exactly
    when it lies in the documented domain. -/
theorem C16_style_accept_iff (kw v : String) (h : (Domains.Style.table.lookup kw).isSome) :
    accepts .style kw v = documented .style kw v := by
  have hkw : kw ∈ ["opacity", "stroke", "fill", "fill-pattern", "stroke-width", "stroke-dash", "border-radius", "shadow",
      "3d", "multiple", "font", "font-size", "font-color", "animated", "bold", "italic", "underline", "filled",
      "double-border", "text-transform"] := by
    rw [style_table] at h
    simp only [List.lookup] at h
    repeat (first | (split at h; · next heq => simp only [beq_iff_eq] at heq; subst heq; simp) | (simp at h))
  simp only [List.mem_cons, List.not_mem_nil, or_false] at hkw
  rcases hkw with h | h | h | h | h | h | h | h | h | h | h | h | h | h | h | h | h | h | h | h <;> subst h
  · exact C16_opacity v
  · exact C16_style_colors _ v (by simp)
  · exact C16_style_colors _ v (by simp)
  · exact C16_fillPattern v
  · exact C16_strokeWidth v
  · exact C16_strokeDash v
  · exact C16_borderRadius v
  · exact C16_style_bools _ v (by simp)
  · exact C16_style_bools _ v (by simp)
  · exact C16_style_bools _ v (by simp)
  · exact C16_font v
  · exact C16_fontSize v
  · exact C16_style_colors _ v (by simp)
  · exact C16_style_bools _ v (by simp)
  · exact C16_style_bools _ v (by simp)
  · exact C16_style_bools _ v (by simp)
  · exact C16_style_bools _ v (by simp)
  · exact C16_style_bools _ v (by simp)
  · exact C16_style_bools _ v (by simp)
  · exact C16_textTransform v
