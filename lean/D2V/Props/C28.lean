import D2V.Model.Export
import D2V.Gen.Themes
/-!
  C28 — Export is one-to-one and user styles override theme defaults.

  `C28_user_style_wins` / `C28_edge_user_style_wins` are stated for **every** `SpecialRules` value (`Option Rules`,
  `none` = no theme) — a superset of the catalog's rule sets, which `catalog_rules_covered` instantiates over the
  regenerated catalog — and for arbitrary objects, defaults and style strings.
-/
namespace D2V.Export
open D2V.Themes (Rules)

/-! ### what the last `applyStyles` fixes -/

section applyStyles
variable (o : Obj) (s : ShapeStyle)

theorem applyStyles_fill {v} (h : o.style.fill = some v) : (applyStyles o s).fill = v := by simp [applyStyles, h]
theorem applyStyles_stroke {v} (h : o.style.stroke = some v) : (applyStyles o s).stroke = v := by simp [applyStyles, h]
theorem applyStyles_fillPattern {v} (h : o.style.fillPattern = some v) : (applyStyles o s).fillPattern = v := by
  simp [applyStyles, h]
theorem applyStyles_color {v} (h : o.style.fontColor = some v) : (applyStyles o s).color = v := by simp [applyStyles, h]
theorem applyStyles_font {v} (h : o.style.font = some v) : (applyStyles o s).fontFamily = v := by simp [applyStyles, h]
theorem applyStyles_opacity {v} (h : o.style.opacity = some v) : (applyStyles o s).opacity = parseDecimal v := by
  simp [applyStyles, h]
theorem applyStyles_strokeDash {v} (h : o.style.strokeDash = some v) : (applyStyles o s).strokeDash = parseDecimal v := by
  simp [applyStyles, h]
theorem applyStyles_strokeWidth {v} (h : o.style.strokeWidth = some v) : (applyStyles o s).strokeWidth = goInt v := by
  simp [applyStyles, h]
theorem applyStyles_borderRadius {v} (h : o.style.borderRadius = some v) : (applyStyles o s).borderRadius = goInt v := by
  simp [applyStyles, h]
theorem applyStyles_shadow {v} (h : o.style.shadow = some v) : (applyStyles o s).shadow = goBool v := by
  simp [applyStyles, h]
theorem applyStyles_threeDee {v} (h : o.style.threeDee = some v) : (applyStyles o s).threeDee = goBool v := by
  simp [applyStyles, h]
theorem applyStyles_multiple {v} (h : o.style.multiple = some v) : (applyStyles o s).multiple = goBool v := by
  simp [applyStyles, h]
theorem applyStyles_doubleBorder {v} (h : o.style.doubleBorder = some v) : (applyStyles o s).doubleBorder = goBool v := by
  simp [applyStyles, h]
theorem applyStyles_italic {v} (h : o.style.italic = some v) : (applyStyles o s).italic = goBool v := by
  simp [applyStyles, h]
theorem applyStyles_bold {v} (h : o.style.bold = some v) : (applyStyles o s).bold = goBool v := by
  simp [applyStyles, h]
theorem applyStyles_underline {v} (h : o.style.underline = some v) : (applyStyles o s).underline = goBool v := by
  simp [applyStyles, h]
theorem applyStyles_fontSize : (applyStyles o s).fontSize = s.fontSize := rfl
theorem applyStyles_animated : (applyStyles o s).animated = s.animated := rfl

end applyStyles

/-- the steps after the second `applyStyles` touch only `fontSize` and `animated` -/
theorem toShapeStyle_eq (rules : Option Rules) (o : Obj) :
    ∃ fs an, toShapeStyle rules o = { styled rules o with fontSize := fs, animated := an } := by
  unfold toShapeStyle
  simp only []
  split <;> split <;> exact ⟨_, _, rfl⟩

/-- no step between `BaseShape()` and the second `applyStyles` writes `fontSize` -/
theorem c4Rules_fontSize (o : Obj) (s : ShapeStyle) : (c4Rules o s).fontSize = s.fontSize := by
  simp only [c4Rules, apply_ite ShapeStyle.fontSize, ite_self]

theorem applyTheme_fontSize (rules : Option Rules) (o : Obj) (s : ShapeStyle) :
    (applyTheme rules o s).fontSize = s.fontSize := by
  cases rules with
  | none => simp only [applyTheme, apply_ite ShapeStyle.fontSize, ite_self]
  | some r => simp only [applyTheme, apply_ite ShapeStyle.fontSize, ite_self, c4Rules_fontSize]

theorem runStep_fontSize (rules : Option Rules) (o : Obj) (st : Step) (s : ShapeStyle) :
    (runStep rules o st s).fontSize = s.fontSize := by
  cases st with
  | applyStyles => rfl
  | applyTheme => exact applyTheme_fontSize rules o s
  | textColor => rfl
  | c4FontColor =>
    cases rules with
    | none => rfl
    | some r => simp only [runStep, apply_ite ShapeStyle.fontSize, ite_self]

theorem runSteps_fontSize (rules : Option Rules) (o : Obj) (steps : List Step) (s : ShapeStyle) :
    (runSteps rules o steps s).fontSize = s.fontSize := by
  induction steps generalizing s with
  | nil => rfl
  | cons st r ih =>
    simp only [runSteps, List.foldl_cons] at ih ⊢
    rw [ih, runStep_fontSize]

theorem initShape_fontSize (o : Obj) : (initShape o).fontSize = textFontSize o := by
  simp only [initShape, apply_ite ShapeStyle.fontSize, ite_self]

theorem preStyled_fontSize (rules : Option Rules) (o : Obj) : (preStyled rules o).fontSize = textFontSize o := by
  unfold preStyled; rw [runSteps_fontSize, initShape_fontSize]

/-- **the pipeline read off the current `toShape` ends with `applyStyles`** (regenerated list): the last word on every
    style field belongs to the user's settings. Removing or moving the second `applyStyles` falsifies this. -/
theorem toShapeSteps_end_with_applyStyles :
    D2V.Gen.Export.toShapeSteps = D2V.Gen.Export.toShapeSteps.dropLast ++ [Step.applyStyles] := by decide

theorem styled_eq (rules : Option Rules) (o : Obj) : styled rules o = applyStyles o (preStyled rules o) := by
  unfold styled preStyled runSteps
  conv => lhs; rw [toShapeSteps_end_with_applyStyles]
  rw [List.foldl_append]
  rfl

/-- the guarded assignments of the current `applyStyles` are the ones the model implements: same style field, same
    shape field, same `strconv` reader, none missing (regenerated table) -/
theorem applyStyles_table_as_modelled :
    D2V.Gen.Export.applyStylesTable =
      [("Opacity", "Opacity", .parseFloat), ("StrokeDash", "StrokeDash", .parseFloat), ("Fill", "Fill", .verbatim),
       ("FillPattern", "FillPattern", .verbatim), ("Stroke", "Stroke", .verbatim), ("StrokeWidth", "StrokeWidth", .atoi),
       ("Shadow", "Shadow", .parseBool), ("ThreeDee", "ThreeDee", .parseBool), ("Multiple", "Multiple", .parseBool),
       ("BorderRadius", "BorderRadius", .atoi), ("FontColor", "Color", .verbatim), ("Italic", "Italic", .parseBool),
       ("Bold", "Bold", .parseBool), ("Underline", "Underline", .parseBool), ("Font", "FontFamily", .verbatim),
       ("DoubleBorder", "DoubleBorder", .parseBool), ("IconBorderRadius", "IconBorderRadius", .atoi)] ∧
    D2V.Gen.Export.applyStylesTextFill = true := by decide

/-- the same for `toConnection` (as a set: the model is field-wise) -/
theorem toConnection_table_as_modelled :
    ∀ r ∈ [("BorderRadius", "BorderRadius", Reader.parseFloat), ("Opacity", "Opacity", .parseFloat), ("StrokeDash", "StrokeDash", .parseFloat),
           ("Stroke", "Stroke", .verbatim), ("StrokeWidth", "StrokeWidth", .atoi), ("Fill", "Fill", .verbatim),
           ("FontSize", "FontSize", .atoi), ("Animated", "Animated", .parseBool), ("Italic", "Italic", .parseBool),
           ("FontColor", "Color", .verbatim), ("Bold", "Bold", .parseBool), ("Underline", "Underline", .parseBool),
           ("Font", "FontFamily", .verbatim)], r ∈ D2V.Gen.Export.toConnectionTable := by decide

/-- every assignment of a C4 block (in `applyTheme` and in `toConnection`) sits under the `Style.X == nil` guard of the
    style field `X` that `applyStyles` / `toConnection` writes into the same exported field -/
theorem c4_assignments_guarded :
    (∀ g ∈ D2V.Gen.Export.applyThemeC4, ∃ r ∈ D2V.Gen.Export.applyStylesTable, r.1 = g.1 ∧ r.2.1 = g.2) ∧
    (∀ g ∈ D2V.Gen.Export.toConnectionC4, ∃ r ∈ D2V.Gen.Export.toConnectionTable, r.1 = g.1 ∧ r.2.1 = g.2) := by decide

/-- **C28 (shapes)**: for every theme rule set (also none), every object, and each style attribute the user set, the
    exported shape carries the user's value (strings verbatim, numbers and booleans as `strconv` reads them). -/
theorem C28_user_style_wins (rules : Option Rules) (o : Obj) :
    (∀ v, o.style.fill = some v → (toShapeStyle rules o).fill = v) ∧
    (∀ v, o.style.stroke = some v → (toShapeStyle rules o).stroke = v) ∧
    (∀ v, o.style.fillPattern = some v → (toShapeStyle rules o).fillPattern = v) ∧
    (∀ v, o.style.fontColor = some v → (toShapeStyle rules o).color = v) ∧
    (∀ v, o.style.font = some v → (toShapeStyle rules o).fontFamily = v) ∧
    (∀ v, o.style.opacity = some v → (toShapeStyle rules o).opacity = parseDecimal v) ∧
    (∀ v, o.style.strokeDash = some v → (toShapeStyle rules o).strokeDash = parseDecimal v) ∧
    (∀ v, o.style.strokeWidth = some v → (toShapeStyle rules o).strokeWidth = goInt v) ∧
    (∀ v, o.style.borderRadius = some v → (toShapeStyle rules o).borderRadius = goInt v) ∧
    (∀ v, o.style.shadow = some v → (toShapeStyle rules o).shadow = goBool v) ∧
    (∀ v, o.style.threeDee = some v → (toShapeStyle rules o).threeDee = goBool v) ∧
    (∀ v, o.style.multiple = some v → (toShapeStyle rules o).multiple = goBool v) ∧
    (∀ v, o.style.doubleBorder = some v → (toShapeStyle rules o).doubleBorder = goBool v) ∧
    (∀ v, o.style.italic = some v → (toShapeStyle rules o).italic = goBool v) ∧
    (∀ v, o.style.bold = some v → (toShapeStyle rules o).bold = goBool v) ∧
    (∀ v, o.style.underline = some v → (toShapeStyle rules o).underline = goBool v) ∧
    (∀ v, o.style.animated = some v → (toShapeStyle rules o).animated = goBool v) := by
  obtain ⟨fs, an, h⟩ := toShapeStyle_eq rules o
  rw [styled_eq] at h
  refine ⟨?_, ?_, ?_, ?_, ?_, ?_, ?_, ?_, ?_, ?_, ?_, ?_, ?_, ?_, ?_, ?_, ?_⟩
  · intro v hv; rw [h]; exact applyStyles_fill o _ hv
  · intro v hv; rw [h]; exact applyStyles_stroke o _ hv
  · intro v hv; rw [h]; exact applyStyles_fillPattern o _ hv
  · intro v hv; rw [h]; exact applyStyles_color o _ hv
  · intro v hv; rw [h]; exact applyStyles_font o _ hv
  · intro v hv; rw [h]; exact applyStyles_opacity o _ hv
  · intro v hv; rw [h]; exact applyStyles_strokeDash o _ hv
  · intro v hv; rw [h]; exact applyStyles_strokeWidth o _ hv
  · intro v hv; rw [h]; exact applyStyles_borderRadius o _ hv
  · intro v hv; rw [h]; exact applyStyles_shadow o _ hv
  · intro v hv; rw [h]; exact applyStyles_threeDee o _ hv
  · intro v hv; rw [h]; exact applyStyles_multiple o _ hv
  · intro v hv; rw [h]; exact applyStyles_doubleBorder o _ hv
  · intro v hv; rw [h]; exact applyStyles_italic o _ hv
  · intro v hv; rw [h]; exact applyStyles_bold o _ hv
  · intro v hv; rw [h]; exact applyStyles_underline o _ hv
  · intro v hv
    simp only [toShapeStyle, hv]

/-- **C28 (font size)**: `style.font-size` reaches the export unchanged — for classes and tables the header add of
    `Text()` is taken off again; needs the class/table payload to agree with the shape keyword. -/
theorem C28_user_font_size (rules : Option Rules) (o : Obj) (hc : o.headerConsistent = true) (v : String)
    (hv : o.style.fontSize = some v) : (toShapeStyle rules o).fontSize = goInt v := by
  have hfs : (styled rules o).fontSize = textFontSize o := by
    rw [styled_eq, applyStyles_fontSize, preStyled_fontSize]
  unfold Obj.headerConsistent at hc
  unfold toShapeStyle
  simp only []
  by_cases hk : (lower o.shape == "class" || lower o.shape == "sql_table") = true
  · have hh : (o.hasClass || o.hasTable) = true := by rw [hk] at hc; simpa using hc
    rw [if_pos hk]
    have : ({ styled rules o with fontSize := (styled rules o).fontSize - headerFontAdd } : ShapeStyle).fontSize = goInt v := by
      show (styled rules o).fontSize - headerFontAdd = goInt v
      rw [hfs]; unfold textFontSize; rw [hv, if_pos hh]; simp only []; omega
    split <;> exact this
  · have hk' : (lower o.shape == "class" || lower o.shape == "sql_table") = false := by simpa using hk
    have hh : (o.hasClass || o.hasTable) = false := by rw [hk'] at hc; simpa using hc
    rw [if_neg hk]
    have : (styled rules o).fontSize = goInt v := by
      rw [hfs]; unfold textFontSize; rw [hv]; simp [hh]
    split <;> exact this

/-- the hypothesis is needed: a class payload on an object whose shape keyword is not `class` shifts the size -/
theorem C28_font_size_needs_consistency :
    ∃ o : Obj, o.style.fontSize = some "20" ∧ o.headerConsistent = false ∧ (toShapeStyle none o).fontSize ≠ goInt "20" := by
  refine ⟨{ hasClass := true, shape := "rectangle", style := { fontSize := some "20" } }, rfl, by decide, by decide⟩

/-- Without the second `applyStyles` the property is false: `applyTheme` overwrites fill and stroke with the theme
    defaults — already with no theme at all. (This is the mutation DESIGN §5.8 lists.) -/
theorem C28_cx_without_second_applyStyles :
    ∃ o : Obj, o.style.fill = some "red" ∧ (styledOnce none o).fill ≠ "red" := by
  refine ⟨{ style := { fill := some "red" }, fillDefault := "B6" }, rfl, by decide⟩

/-! ### connections -/

/-- **C28 (connections)** -/
theorem C28_edge_user_style_wins (rules : Option Rules) (e : EdgeIn) :
    (∀ v, e.style.stroke = some v → (toConnStyle rules e).stroke = v) ∧
    (∀ v, e.style.fill = some v → (toConnStyle rules e).fill = v) ∧
    (∀ v, e.style.fontColor = some v → (toConnStyle rules e).color = v) ∧
    (∀ v, e.style.font = some v → (toConnStyle rules e).fontFamily = v) ∧
    (∀ v, e.style.opacity = some v → (toConnStyle rules e).opacity = parseDecimal v) ∧
    (∀ v, e.style.strokeDash = some v → (toConnStyle rules e).strokeDash = parseDecimal v) ∧
    (∀ v, e.style.borderRadius = some v → (toConnStyle rules e).borderRadius = parseDecimal v) ∧
    (∀ v, e.style.strokeWidth = some v → (toConnStyle rules e).strokeWidth = goInt v) ∧
    (∀ v, e.style.fontSize = some v → (toConnStyle rules e).fontSize = goInt v) ∧
    (∀ v, e.style.animated = some v → (toConnStyle rules e).animated = goBool v) ∧
    (∀ v, e.style.italic = some v → (toConnStyle rules e).italic = goBool v) ∧
    (∀ v, e.style.bold = some v → (toConnStyle rules e).bold = goBool v) ∧
    (∀ v, e.style.underline = some v → (toConnStyle rules e).underline = goBool v) := by
  refine ⟨?_, ?_, ?_, ?_, ?_, ?_, ?_, ?_, ?_, ?_, ?_, ?_, ?_⟩ <;>
    (intro v hv; simp [toConnStyle, hv])

/-! ### one-to-one -/

/-- `AbsID` of a top-level object is its ID; of a child, the parent's `AbsID`, a dot, its ID -/
theorem absID_step (objs : Array Obj) (fuel i : Nat) (o : Obj) (h : objs[i]? = some o) :
    absID objs (fuel + 1) i = match o.parent with
      | none => some o.id
      | some p => (absID objs fuel p).map fun a => a ++ "." ++ o.id := by
  rw [absID, h]
  rfl

theorem joinDots_snoc (a : List String) (x : String) (h : a ≠ []) : joinDots (a ++ [x]) = joinDots a ++ "." ++ x := by
  induction a with
  | nil => exact absurd rfl h
  | cons b r ih =>
    cases r with
    | nil => simp [joinDots]
    | cons c r' =>
      have := ih (by simp)
      simp only [List.cons_append, joinDots] at this ⊢
      rw [this]
      simp [String.append_assoc]

theorem absIDArray_ne_nil (objs : Array Obj) (fuel i : Nat) (p : List String) (h : absIDArray objs fuel i = some p) : p ≠ [] := by
  cases fuel with
  | zero => simp [absIDArray] at h
  | succ f =>
    rw [absIDArray] at h
    cases ho : objs[i]? with
    | none => simp [ho] at h
    | some o =>
      rw [ho] at h
      simp only [] at h
      cases hp : o.parent with
      | none => simp [hp] at h; subst h; simp
      | some q =>
        simp only [hp] at h
        cases hq : absIDArray objs f q with
        | none => simp [hq] at h
        | some a => simp [hq] at h; subst h; simp

/-- the dotted chain of IDs (`strings.Join(AbsIDArray, ".")`, what `Edge.AbsID` and the end point fields print) is the
    object's `AbsID`, i.e. the ID of the shape exported for it -/
theorem joinDots_absIDArray (objs : Array Obj) (fuel i : Nat) :
    (absIDArray objs fuel i).map joinDots = absID objs fuel i := by
  induction fuel generalizing i with
  | zero => simp [absIDArray, absID]
  | succ f ih =>
    rw [absIDArray, absID]
    cases ho : objs[i]? with
    | none => rfl
    | some o =>
      simp only []
      cases hp : o.parent with
      | none => simp [joinDots]
      | some q =>
        simp only []
        rw [← ih q]
        cases hq : absIDArray objs f q with
        | none => rfl
        | some a =>
          have hne := absIDArray_ne_nil objs f q a hq
          simp [joinDots_snoc a o.id hne]

/-- **export_bijection**: `Export` produces exactly one shape per object, in order, carrying the object's absolute
    ID, and exactly one connection per edge, in order, whose `Src` / `Dst` are the dotted ID chains of its end points —
    for an end point that is an object of the graph that is exactly the ID of the shape exported for it. -/
theorem export_bijection (rules : Option Rules) (g : Graph) :
    (exportShapes rules g).length = g.objects.size ∧
    (∀ i o, g.objects[i]? = some o → (exportShapes rules g)[i]? = some (toShape rules g i o)) ∧
    (∀ i o, g.objects[i]? = some o → ((exportShapes rules g)[i]?).map (·.id) = some (g.absID i)) ∧
    (exportConns rules g).length = g.edges.size ∧
    (∀ (k : Nat) (e : EdgeIn), g.edges[k]? = some e →
      ((exportConns rules g)[k]?).map (fun (c : ConnOut) => (c.src, c.dst))
        = some (g.endpointID e.src e.srcPath e.srcTop, g.endpointID e.dst e.dstPath e.dstTop)) ∧
    (∀ (i : Nat) (own : List String) (top : String), g.endpointID (some i) own top = g.absID i) := by
  have hget : ∀ i o, g.objects[i]? = some o → (exportShapes rules g)[i]? = some (toShape rules g i o) := by
    intro i o h
    unfold exportShapes
    rw [List.getElem?_map, List.getElem?_zipIdx]
    have : g.objects.toList[i]? = some o := by simpa using h
    simp [this]
  refine ⟨by simp [exportShapes], hget, ?_, by simp [exportConns], ?_, ?_⟩
  · intro i o h
    rw [hget i o h]; rfl
  · intro k e h
    unfold exportConns
    rw [List.getElem?_map]
    have : g.edges.toList[k]? = some e := by simpa using h
    simp [this, toConnection]
  · intro i own top
    exact joinDots_absIDArray g.objects _ i

/-! ### the catalog -/

/-- every built-in theme's special rules are an instance of the quantifier of `C28_user_style_wins` (trivially — stated
    to tie the theorem to the regenerated catalog: 20 themes, among them the rule-carrying Terminal, Terminal
    Grayscale, Origami and C4) -/
theorem catalog_rules_covered :
    ∀ t ∈ D2V.Gen.Themes.findSearch, ∀ o : Obj, ∀ v, o.style.fill = some v → (toShapeStyle (some t.rules) o).fill = v :=
  fun t _ o v h => (C28_user_style_wins (some t.rules) o).1 v h

theorem catalog_has_special_rules :
    (D2V.Gen.Themes.findSearch.filter fun t => t.rules != {}).length ≥ 4 := by decide

/-- Non-vacuity: under the C4 rules a leaf with user fill/stroke keeps them, while an unstyled leaf gets B6/B5. -/
example :
    let c4 : Option Rules := some { c4 := true }
    (toShapeStyle c4 { style := { fill := some "red", stroke := some "#00f" }, fillDefault := "B6", strokeSolid := "B1" }).fill = "red" ∧
    (toShapeStyle c4 { style := { fill := some "red", stroke := some "#00f" }, fillDefault := "B6", strokeSolid := "B1" }).stroke = "#00f" ∧
    (toShapeStyle c4 { fillDefault := "N7", strokeSolid := "B1" }).fill = "B6" ∧
    (toShapeStyle c4 { fillDefault := "N7", strokeSolid := "B1" }).stroke = "B5" := by decide

example : goInt "+7" = 7 ∧ goInt "07" = 7 ∧ goBool "TRUE" = true ∧ goBool "F" = false := by decide

end D2V.Export
